/-
The orphan pool of `Model/Node.lean` (`orphans` + `prevOrphans`): the well-formedness
invariant and its preservation by `OrphanManage.Add` / `OrphanManage.delete`.
-/
import BytomModel.Lemmas.NodeAlist
open BytomModel.Node BytomModel.Lemmas.NodeAlist

namespace BytomModel.Lemmas.NodePool

/-- ids of the pool members waiting for parent `p`, in arrival order -/
def group (os : List Header) (p : Nat) : List Nat := (os.filter (fun h => h.parent == p)).map (·.id)

/-- the orphan pool is well formed: no duplicate ids, and the waiting index is exactly the
    grouping of the pool by parent id (arrival order, no empty list, no dangling entry) -/
structure PoolInv (os : List Header) (po : List (Nat × List Nat)) : Prop where
  nodup : (os.map (·.id)).Nodup
  keys : (keys po).Nodup
  get : ∀ p, alistGet po p = if group os p = [] then none else some (group os p)

theorem lookupHeader_some {hs : List Header} {i : Nat} {h : Header} (e : lookupHeader hs i = some h) :
    h ∈ hs ∧ h.id = i := by
  unfold lookupHeader at e
  exact ⟨List.mem_of_find?_eq_some e, by simpa using List.find?_some e⟩

theorem lookupHeader_none {hs : List Header} {i : Nat} : lookupHeader hs i = none ↔ i ∉ hs.map (·.id) := by
  unfold lookupHeader
  simp [List.find?_eq_none]

theorem lookupHeader_isSome {hs : List Header} {i : Nat} : (lookupHeader hs i).isSome ↔ i ∈ hs.map (·.id) := by
  rw [← not_iff_not]
  simp only [Bool.not_eq_true, Option.isSome_eq_false_iff, Option.isNone_iff_eq_none]
  exact lookupHeader_none

theorem lookupHeader_of_mem {hs : List Header} (hn : (hs.map (·.id)).Nodup) {h : Header} (hm : h ∈ hs) :
    lookupHeader hs h.id = some h := by
  cases e : lookupHeader hs h.id with
  | none => exact absurd (List.mem_map.mpr ⟨h, hm, rfl⟩) (lookupHeader_none.mp e)
  | some h' =>
    obtain ⟨hm', e'⟩ := lookupHeader_some e
    rw [List.inj_on_of_nodup_map hn hm' hm e']

theorem mem_group {os : List Header} {p i : Nat} : i ∈ group os p ↔ ∃ h ∈ os, h.parent = p ∧ h.id = i := by
  simp [group, and_assoc]

theorem group_nodup {os : List Header} (hn : (os.map (·.id)).Nodup) (p : Nat) : (group os p).Nodup :=
  hn.sublist ((List.filter_sublist).map _)

theorem group_append (os : List Header) (b : Header) (p : Nat) :
    group (os ++ [b]) p = group os p ++ (if b.parent = p then [b.id] else []) := by
  unfold group
  by_cases h : b.parent = p <;> simp [List.filter_append, h]

theorem group_filter (os : List Header) (i p : Nat) :
    group (os.filter (fun h => h.id != i)) p = (group os p).filter (fun x => x != i) := by
  unfold group
  rw [List.filter_filter, List.filter_map, List.filter_filter]
  congr 1
  apply List.filter_congr
  intro x _
  simp [Bool.and_comm]

theorem isOrphan_iff (s : State) (i : Nat) : s.isOrphan i = true ↔ i ∈ s.orphans.map (·.id) := by
  simp [State.isOrphan]

/-- `OrphanManage.Add` keeps the pool well formed -/
theorem PoolInv.add {os po} (h : PoolInv os po) (b : Header) (hb : b.id ∉ os.map (·.id)) :
    PoolInv (os ++ [b]) (alistSet po b.parent ((alistGet po b.parent).getD [] ++ [b.id])) := by
  have hg : (alistGet po b.parent).getD [] = group os b.parent := by
    rw [h.get]
    by_cases e : group os b.parent = [] <;> simp [e]
  refine ⟨?_, keys_set_nodup h.keys _ _, ?_⟩
  · rw [List.map_append, List.nodup_append]
    refine ⟨h.nodup, by simp, ?_⟩
    intro a ha c hc
    simp at hc
    subst hc
    intro e; subst e; exact hb ha
  · intro p
    rw [alistGet_set, hg, group_append]
    by_cases e : p = b.parent
    · subst e
      simp
    · have e' : ¬ b.parent = p := fun x => e x.symm
      simp [e, e', h.get]

/-- `OrphanManage.delete` keeps the pool well formed -/
theorem PoolInv.delete {os po} (h : PoolInv os po) {i : Nat} {b : Header} (hb : lookupHeader os i = some b) :
    PoolInv (os.filter (fun x => x.id != i))
      (match alistGet po b.parent with
       | none => po
       | some l => if l.length == 1 then alistDel po b.parent else alistSet po b.parent (l.erase i)) := by
  obtain ⟨hbm, hbi⟩ := lookupHeader_some hb
  have hmem : i ∈ group os b.parent := mem_group.mpr ⟨b, hbm, rfl, hbi⟩
  have hne : group os b.parent ≠ [] := List.ne_nil_of_mem hmem
  have hget : alistGet po b.parent = some (group os b.parent) := by rw [h.get]; simp [hne]
  have hother : ∀ p, p ≠ b.parent → (group os p).filter (fun x => x != i) = group os p := by
    intro p hp
    rw [List.filter_eq_self]
    intro x hx
    obtain ⟨c, hc, hcp, hci⟩ := mem_group.mp hx
    simp only [bne_iff_ne, ne_eq]
    intro e
    have : c = b := List.inj_on_of_nodup_map h.nodup hc hbm (by rw [hci, e, hbi])
    exact hp (by rw [← hcp, this])
  have hself : (group os b.parent).filter (fun x => x != i) = (group os b.parent).erase i :=
    ((group_nodup h.nodup _).erase_eq_filter i).symm
  have hnd : ((os.filter (fun x => x.id != i)).map (·.id)).Nodup := h.nodup.sublist ((List.filter_sublist).map _)
  rw [hget]
  simp only
  by_cases hl : (group os b.parent).length = 1
  · have hl' : ((group os b.parent).length == 1) = true := by simpa using hl
    rw [if_pos hl']
    refine ⟨hnd, keys_del_nodup h.keys _, ?_⟩
    intro p
    rw [alistGet_del, group_filter]
    by_cases e : p = b.parent
    · subst e
      rw [hself]
      have : (group os b.parent).erase i = [] := by
        apply List.eq_nil_of_length_eq_zero
        rw [List.length_erase_of_mem hmem, hl]
      simp [this]
    · rw [hother p e]
      simp [e, h.get]
  · have hl' : ¬ ((group os b.parent).length == 1) = true := by simpa using hl
    rw [if_neg hl']
    refine ⟨hnd, keys_set_nodup h.keys _ _, ?_⟩
    intro p
    rw [alistGet_set, group_filter]
    by_cases e : p = b.parent
    · subst e
      rw [hself]
      have : (group os b.parent).erase i ≠ [] := by
        intro e0
        have hlen := List.length_erase_of_mem hmem
        rw [e0] at hlen
        have : 0 < (group os b.parent).length := List.length_pos_of_mem hmem
        simp at hlen
        omega
      simp [this]
    · rw [hother p e]
      simp [e, h.get]

theorem PoolInv.empty : PoolInv [] [] := ⟨List.nodup_nil, List.nodup_nil, fun p => by rw [alistGet_nil]; rfl⟩

/-- what the invariant says about the waiting index, entry by entry -/
theorem PoolInv.mem_iff {os po} (h : PoolInv os po) (p : Nat) (l : List Nat) :
    (p, l) ∈ po ↔ l ≠ [] ∧ l = group os p := by
  constructor
  · intro hm
    have := alistGet_of_mem h.keys hm
    rw [h.get] at this
    by_cases e : group os p = []
    · simp [e] at this
    · simp only [e, if_false, Option.some.injEq] at this
      exact ⟨this ▸ e, this.symm⟩
  · rintro ⟨hne, rfl⟩
    apply alistGet_some_mem
    rw [h.get]; simp [hne]

end BytomModel.Lemmas.NodePool
