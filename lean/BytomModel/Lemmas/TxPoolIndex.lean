/-
M-Pool: preservation of the orphan-index part of `Inv` and the invariant over whole histories.
-/
import BytomModel.Lemmas.TxPool

namespace BytomModel.Lemmas.TxPool
open BytomModel.TxPool

theorem mem_requireParents (c : Cfg) (s : Pool) (tx : Tx) (x : Out) (h : x ∈ requireParents c s tx) :
    x ∈ tx.spent := by
  unfold requireParents missing at h
  exact (List.mem_filter.mp h).1

/-! ### addOrphan -/

theorem inv_addOrphan {U : List Tx} (wf : WF U) (c : Cfg) {s : Pool} (h : Inv U s) {tx : Tx} (htx : tx ∈ U)
    (now : Nat) (req : List Out) (hreq : ∀ x ∈ req, x ∈ tx.spent) : Inv U (addOrphan c s tx now req).1 := by
  unfold addOrphan
  split
  · exact h
  · -- the new orphan map
    have horph : ∀ id o, amGet (amSet s.orphans tx.id ⟨tx, now⟩) id = some o → o.tx ∈ U ∧ o.tx.id = id := by
      intro id o hg
      rw [amGet_amSet] at hg
      by_cases e : id = tx.id
      · simp only [e, if_true, Option.some.injEq] at hg
        subst hg; exact ⟨htx, e.symm⟩
      · simp only [e, if_false] at hg
        exact h.orphWF id o hg
    -- an entry registered before stays registered (same tx object) after the overwrite
    have hkeep : ∀ (e : Nat × Tx), (∃ st, amGet s.orphans e.1 = some ⟨e.2, st⟩) →
        ∃ st, amGet (amSet s.orphans tx.id ⟨tx, now⟩) e.1 = some ⟨e.2, st⟩ := by
      rintro e ⟨st, hst⟩
      rw [amGet_amSet]
      by_cases hk : e.1 = tx.id
      · have hw := h.orphWF e.1 _ hst
        have : e.2 = tx := wf.idInj e.2 hw.1 tx htx (by rw [hw.2, hk])
        exact ⟨now, by simp [hk, this]⟩
      · exact ⟨st, by simp [hk, hst]⟩
    refine ⟨h.poolWF, h.utxoSound, h.utxoComplete, horph, ?_⟩
    simp only
    apply foldl_inv (fun bp => ∀ p m, amGet bp p = some m → GoodBucket (amSet s.orphans tx.id ⟨tx, now⟩) p m)
    · intro p m hg
      obtain ⟨hne, hall⟩ := h.index p m hg
      exact ⟨hne, fun e he => ⟨(hall e he).1, hkeep e (hall e he).2⟩⟩
    · intro bp x hx hP p m hg
      have hnew : ∃ st, amGet (amSet s.orphans tx.id ⟨tx, now⟩) tx.id = some ⟨tx, st⟩ :=
        ⟨now, by rw [amGet_amSet]; simp⟩
      cases hb : amGet bp x with
      | none =>
        simp only [hb] at hg
        rw [amGet_amSet] at hg
        by_cases e : p = x
        · simp only [e, if_true, Option.some.injEq] at hg
          subst hg
          refine ⟨by simp, ?_⟩
          intro en hen
          simp only [List.mem_singleton] at hen
          subst hen
          exact ⟨e ▸ hreq x hx, hnew⟩
        · simp only [e, if_false] at hg
          exact hP p m hg
      | some m0 =>
        simp only [hb] at hg
        rw [amGet_amSet] at hg
        by_cases e : p = x
        · simp only [e, if_true, Option.some.injEq] at hg
          subst hg
          refine ⟨amSet_ne_nil _ _ _, ?_⟩
          intro en hen
          rcases mem_amSet _ _ _ _ hen with h1 | h1
          · subst h1; exact ⟨e ▸ hreq x hx, hnew⟩
          · exact e ▸ (hP x m0 hb).2 en h1
        · simp only [e, if_false] at hg
          exact hP p m hg

/-! ### removeOrphan -/

/-- one iteration of the loop over `orphan.Tx.SpentOutputIDs` in `removeOrphan` -/
def rmStep (id : Nat) (bp : List (Out × List (Nat × Tx))) (sp : Out) : List (Out × List (Nat × Tx)) :=
  match amGet bp sp with
  | none => bp
  | some m => if (amDel m id).isEmpty then amDel bp sp else amSet bp sp (amDel m id)

/-- every bucket after the loop is an old bucket, possibly with the entry `id` deleted (and then
    still non-empty) -/
theorem rm_origin (id : Nat) (sp : List Out) (bp0 : List (Out × List (Nat × Tx))) :
    ∀ p m', amGet (sp.foldl (rmStep id) bp0) p = some m' →
      ∃ m, amGet bp0 p = some m ∧ (m' = m ∨ (m' = amDel m id ∧ m' ≠ [])) := by
  apply foldl_inv (fun bp => ∀ p m', amGet bp p = some m' →
      ∃ m, amGet bp0 p = some m ∧ (m' = m ∨ (m' = amDel m id ∧ m' ≠ [])))
  · intro p m' hg; exact ⟨m', hg, Or.inl rfl⟩
  · intro bp x _ hP p m' hg
    unfold rmStep at hg
    cases hb : amGet bp x with
    | none => simp only [hb] at hg; exact hP p m' hg
    | some m1 =>
      simp only [hb] at hg
      by_cases hem : (amDel m1 id).isEmpty = true
      · simp only [hem, if_true] at hg
        rw [amGet_amDel] at hg
        by_cases e : p = x
        · simp [e] at hg
        · simp only [e, if_false] at hg; exact hP p m' hg
      · simp only [hem, Bool.false_eq_true, if_false] at hg
        rw [amGet_amSet] at hg
        by_cases e : p = x
        · simp only [e, if_true, Option.some.injEq] at hg
          obtain ⟨m, hm, hrel⟩ := hP x m1 hb
          have hne : m' ≠ [] := by
            intro h0; apply hem; rw [← hg] at h0; simp [h0]
          refine ⟨m, e ▸ hm, Or.inr ⟨?_, hne⟩⟩
          rcases hrel with h1 | ⟨h1, _⟩
          · rw [← hg, h1]
          · rw [← hg, h1, amDel_idem]
        · simp only [e, if_false] at hg; exact hP p m' hg

/-- under a processed output no entry `id` is left -/
theorem rm_no_id (id : Nat) : ∀ (sp : List Out) (bp : List (Out × List (Nat × Tx))) (p : Out), p ∈ sp →
    ∀ m', amGet (sp.foldl (rmStep id) bp) p = some m' → ∀ e ∈ m', e.1 ≠ id
  | [], _, _, hp, _, _, _, _ => by cases hp
  | s0 :: rest, bp, p, hp, m', hg, e, he => by
    simp only [List.foldl_cons] at hg
    by_cases hr : p ∈ rest
    · exact rm_no_id id rest _ p hr m' hg e he
    · have hp0 : p = s0 := by
        rcases List.mem_cons.mp hp with h | h
        · exact h
        · exact absurd h hr
      subst hp0
      obtain ⟨m1, hm1, hrel⟩ := rm_origin id rest (rmStep id bp p) p m' hg
      rcases hrel with h1 | ⟨h1, _⟩
      · -- m' is the bucket left by the step at p itself
        subst h1
        unfold rmStep at hm1
        cases hb : amGet bp p with
        | none => simp only [hb] at hm1; cases hm1
        | some m0 =>
          simp only [hb] at hm1
          by_cases hem : (amDel m0 id).isEmpty = true
          · simp only [hem, if_true] at hm1
            rw [amGet_amDel] at hm1
            simp at hm1
          · simp only [hem, Bool.false_eq_true, if_false] at hm1
            rw [amGet_amSet] at hm1
            simp only [if_true, Option.some.injEq] at hm1
            rw [← hm1] at he
            exact (mem_amDel _ _ _ he).2
      · rw [h1] at he
        exact (mem_amDel _ _ _ he).2

theorem inv_removeOrphan {U : List Tx} {s : Pool} (h : Inv U s) (id : Nat) : Inv U (removeOrphan s id) := by
  unfold removeOrphan
  split
  · exact h
  · rename_i o ho
    refine ⟨h.poolWF, h.utxoSound, h.utxoComplete, ?_, ?_⟩
    · intro k o' hg
      simp only at hg
      rw [amGet_amDel] at hg
      by_cases e : k = id
      · simp [e] at hg
      · simp only [e, if_false] at hg; exact h.orphWF k o' hg
    · intro p m' hg
      simp only at hg ⊢
      have hg' : amGet (o.tx.spent.foldl (rmStep id) s.byPrev) p = some m' := hg
      obtain ⟨m, hm, hrel⟩ := rm_origin id _ _ p m' hg'
      obtain ⟨hne, hall⟩ := h.index p m hm
      have hsub : ∀ e ∈ m', e ∈ m ∧ e.1 ≠ id := by
        intro e he
        rcases hrel with h1 | ⟨h1, _⟩
        · subst h1
          refine ⟨he, ?_⟩
          by_cases hp : p ∈ o.tx.spent
          · exact rm_no_id id _ _ p hp m' hg' e he
          · intro hid
            obtain ⟨st, hst⟩ := (hall e he).2
            rw [hid, ho] at hst
            cases hst
            exact hp (hall e he).1
        · rw [h1] at he
          exact mem_amDel _ _ _ he
      refine ⟨?_, ?_⟩
      · rcases hrel with h1 | ⟨_, h2⟩
        · rw [h1]; exact hne
        · exact h2
      · intro e he
        obtain ⟨hem, hid⟩ := hsub e he
        refine ⟨(hall e hem).1, ?_⟩
        obtain ⟨st, hst⟩ := (hall e hem).2
        exact ⟨st, by rw [amGet_amDel]; simp [hid, hst]⟩

/-! ### processOrphans -/

theorem inv_addRely {U : List Tx} {s : Pool} (h : Inv U s) (q : List Tx) (hq : ∀ x ∈ q, x ∈ U) (tx : Tx) :
    Inv U (addRely s q tx).1 ∧ ∀ x ∈ (addRely s q tx).2, x ∈ U := by
  unfold addRely
  apply foldl_inv (fun (sq : Pool × List Tx) => Inv U sq.1 ∧ ∀ x ∈ sq.2, x ∈ U)
  · exact ⟨h, hq⟩
  · rintro ⟨s1, q1⟩ r _ ⟨hI, hQ⟩
    simp only
    cases hb : amGet s1.byPrev r.1 with
    | none => exact ⟨hI, hQ⟩
    | some m =>
      simp only
      refine ⟨⟨hI.poolWF, hI.utxoSound, hI.utxoComplete, hI.orphWF, ?_⟩, ?_⟩
      · intro p m' hg
        simp only at hg
        rw [amGet_amDel] at hg
        by_cases e : p = r.1
        · simp [e] at hg
        · simp only [e, if_false] at hg; exact hI.index p m' hg
      · intro x hx
        rcases List.mem_append.mp hx with h1 | h1
        · exact hQ x h1
        · obtain ⟨e, he, hex⟩ := List.mem_map.mp h1
          obtain ⟨st, hst⟩ := ((hI.index r.1 m hb).2 e he).2
          rw [← hex]
          exact (hI.orphWF e.1 _ hst).1

theorem inv_processLoop {U : List Tx} (wf : WF U) (c : Cfg) : ∀ (f : Nat) (s : Pool) (q : List Tx),
    Inv U s → (∀ x ∈ q, x ∈ U) → Inv U (processLoop c f s q)
  | 0, _, _, h, _ => by unfold processLoop; exact h
  | _ + 1, _, [], h, _ => by unfold processLoop; exact h
  | f + 1, s, o :: q, h, hq => by
    unfold processLoop
    have ho : o ∈ U := hq o (by simp)
    have hq' : ∀ x ∈ q, x ∈ U := fun x hx => hq x (List.mem_cons_of_mem _ hx)
    split
    · have h1 := inv_addRely h q hq' o
      have h2 := inv_removeOrphan h1.1 o.id
      have h3 := inv_addTransaction wf c h2 ho
      exact inv_processLoop wf c f _ _ h3 h1.2
    · exact inv_processLoop wf c f s q h hq'

theorem inv_processOrphans {U : List Tx} (wf : WF U) (c : Cfg) {s : Pool} (h : Inv U s) (tx : Tx) :
    Inv U (processOrphans c s tx) := by
  unfold processOrphans
  have h1 := inv_addRely h [] (by intro x hx; cases hx) tx
  exact inv_processLoop wf c _ _ _ h1.1 h1.2

/-! ### whole operations -/

theorem inv_submit {U : List Tx} (wf : WF U) (c : Cfg) {s : Pool} (h : Inv U s) {tx : Tx} (htx : tx ∈ U) (now : Nat) :
    Inv U (submit c s tx now).1 := by
  unfold submit
  split
  · exact h
  · split
    · exact ⟨h.poolWF, h.utxoSound, h.utxoComplete, h.orphWF, h.index⟩
    · unfold processTransaction
      simp only
      split
      · exact inv_addOrphan wf c h htx now _ (mem_requireParents c s tx)
      · split
        · exact inv_processOrphans wf c (inv_addTransaction wf c h htx) tx
        · exact inv_addTransaction wf c h htx

theorem inv_expire {U : List Tx} {s : Pool} (h : Inv U s) (k : Nat) : Inv U (expire s k) := by
  unfold expire
  exact foldl_inv (Inv U) _ _ _ h (fun a e _ ha => inv_removeOrphan ha e.1)

/-- the operations of a history only submit transactions of the universe -/
def OpIn (U : List Tx) : Op → Prop
  | .submit tx => tx ∈ U
  | _ => True

theorem inv_step {U : List Tx} (wf : WF U) (c : Cfg) {s : Pool} (h : Inv U s) (now : Nat) (op : Op) (hop : OpIn U op) :
    Inv U (step c s now op).1 := by
  cases op with
  | submit tx => exact inv_submit wf c h hop now
  | remove id => exact inv_removeTransaction wf h id
  | expire k => exact inv_expire h k

theorem inv_runFrom {U : List Tx} (wf : WF U) (c : Cfg) : ∀ (ops : List Op) (s : Pool) (now : Nat),
    Inv U s → (∀ op ∈ ops, OpIn U op) → Inv U (runFrom c s now ops)
  | [], _, _, h, _ => by unfold runFrom; exact h
  | op :: ops, s, now, h, hops => by
    unfold runFrom
    exact inv_runFrom wf c ops _ _ (inv_step wf c h now op (hops op (by simp)))
      (fun o ho => hops o (List.mem_cons_of_mem _ ho))

end BytomModel.Lemmas.TxPool
