/-
Lemmas for the chainkd model: little-endian values, the ripple-carry addition, the prune
masks, the laws assumed of the group / PRFs, and a small concrete instance of those laws.
-/
import BytomModel.Model.KD
import Mathlib.Tactic.Linarith
import Mathlib.Tactic.Ring

namespace BytomModel.Lemmas.KD
open BytomModel.KD

/-! ### little-endian values -/

def IsBytes (s : Bytes) : Prop := ∀ b ∈ s, b < 256

theorem fromLE_lt : ∀ (s : Bytes), IsBytes s → fromLE s < 256 ^ s.length
  | [], _ => by simp [fromLE]
  | b :: r, h => by
    have hb : b < 256 := h b (by simp)
    have ih := fromLE_lt r (fun x hx => h x (by simp [hx]))
    simp only [fromLE, List.length_cons, Nat.pow_succ]
    omega

theorem fromLE_append (a b : Bytes) : fromLE (a ++ b) = fromLE a + 256 ^ a.length * fromLE b := by
  induction a with
  | nil => simp [fromLE]
  | cons x a ih =>
    simp only [List.cons_append, fromLE, ih, List.length_cons, Nat.pow_succ]
    ring

theorem toLE_length (n x : Nat) : (toLE n x).length = n := by
  induction n generalizing x with
  | zero => rfl
  | succ n ih => simp [toLE, ih]

theorem fromLE_toLE (n x : Nat) (h : x < 256 ^ n) : fromLE (toLE n x) = x := by
  induction n generalizing x with
  | zero => simp at h; simp [toLE, fromLE, h]
  | succ n ih =>
    simp only [toLE, fromLE]
    have : x / 256 < 256 ^ n := by
      rw [Nat.pow_succ] at h
      exact Nat.div_lt_of_lt_mul (by rw [Nat.mul_comm]; exact h)
    rw [ih _ this]; omega

/-! ### the ripple-carry addition -/

/-- **The 32 unrolled byte additions are addition of the little-endian naturals**: the result
    bytes plus the carry-out `sum >> 8` weigh exactly `a + b + carry-in`. -/
theorem carryAdd_spec : ∀ (a b : Bytes) (sum : Nat), a.length = b.length →
    fromLE (carryAdd a b sum).1 + 256 ^ a.length * ((carryAdd a b sum).2 >>> 8)
      = fromLE a + fromLE b + (sum >>> 8)
  | [], [], sum, _ => by simp [carryAdd, fromLE]
  | [], _ :: _, _, h => by simp at h
  | _ :: _, [], _, h => by simp at h
  | x :: xs, y :: ys, sum, h => by
    have ih := carryAdd_spec xs ys (x + y + (sum >>> 8)) (by simpa using h)
    simp only [carryAdd, fromLE, List.length_cons, Nat.pow_succ]
    have e : (x + y + (sum >>> 8)) &&& 0xff = (x + y + (sum >>> 8)) % 256 := by
      have : (0xff : Nat) = 2 ^ 8 - 1 := by decide
      rw [this, Nat.and_two_pow_sub_one_eq_mod]
    rw [e]
    rw [Nat.shiftRight_eq_div_pow (x + y + (sum >>> 8)) 8] at ih
    generalize (carryAdd xs ys (x + y + (sum >>> 8))).2 >>> 8 = cout at ih ⊢
    generalize fromLE (carryAdd xs ys (x + y + (sum >>> 8))).1 = R at ih ⊢
    generalize 256 ^ xs.length = P at ih ⊢
    have : P * 256 * cout = 256 * (P * cout) := by ring
    rw [this]
    omega

theorem carryAdd_length : ∀ (a b : Bytes) (sum : Nat), a.length = b.length →
    (carryAdd a b sum).1.length = a.length
  | [], [], _, _ => rfl
  | [], _ :: _, _, h => by simp at h
  | _ :: _, [], _, h => by simp at h
  | x :: xs, y :: ys, sum, h => by
    simp only [carryAdd, List.length_cons]
    rw [carryAdd_length xs ys _ (by simpa using h)]

theorem carryAdd_isBytes : ∀ (a b : Bytes) (sum : Nat), IsBytes (carryAdd a b sum).1
  | [], _, _ => by intro x hx; simp [carryAdd] at hx
  | _ :: _, [], _ => by intro x hx; simp [carryAdd] at hx
  | x :: xs, y :: ys, sum => by
    intro z hz
    simp only [carryAdd, List.mem_cons] at hz
    rcases hz with rfl | hz
    · have : (0xff : Nat) = 2 ^ 8 - 1 := by decide
      rw [this, Nat.and_two_pow_sub_one_eq_mod]; omega
    · exact carryAdd_isBytes xs ys _ z hz

/-- when the true sum fits 256 bits there is no carry out and the bytes are the sum -/
theorem carryAdd_no_overflow (a b : Bytes) (h : a.length = b.length) (hlen : a.length = 32)
    (hfit : fromLE a + fromLE b < 2 ^ 256) :
    (carryAdd a b 0).2 >>> 8 = 0 ∧ fromLE (carryAdd a b 0).1 = fromLE a + fromLE b := by
  have := carryAdd_spec a b 0 h
  rw [hlen] at this
  have e : (256 : Nat) ^ 32 = 2 ^ 256 := by norm_num
  rw [e] at this
  simp only [Nat.zero_shiftRight, Nat.add_zero] at this
  generalize (carryAdd a b 0).2 >>> 8 = c at this ⊢
  rcases Nat.eq_zero_or_pos c with hc | hc
  · subst hc; simp at this; exact ⟨rfl, this⟩
  · exfalso
    have : 2 ^ 256 * c ≥ 2 ^ 256 := Nat.le_mul_of_pos_right _ hc
    omega

/-! ### prune masks -/

theorem fromLE_take_drop (s : Bytes) (k : Nat) :
    fromLE s = fromLE (s.take k) + 256 ^ (s.take k).length * fromLE (s.drop k) := by
  conv => lhs; rw [← List.take_append_drop k s]
  exact fromLE_append _ _

theorem and_lt_256 (x m : Nat) (hm : m < 256) : x &&& m < 256 :=
  Nat.lt_of_le_of_lt Nat.and_le_right hm

theorem isBytes_set {s : Bytes} (h : IsBytes s) (i v : Nat) (hv : v < 256) : IsBytes (s.set i v) := by
  intro b hb
  rcases List.mem_or_eq_of_mem_set hb with h1 | h1
  · exact h b h1
  · exact h1 ▸ hv

theorem pruneIntermediate_isBytes (f : Bytes) (h : IsBytes f) : IsBytes (pruneIntermediateScalar f) := by
  unfold pruneIntermediateScalar
  exact isBytes_set (isBytes_set (isBytes_set (isBytes_set h _ _ (and_lt_256 _ _ (by decide))) _ _
    (and_lt_256 _ _ (by decide))) _ _ (by decide)) _ _ (by decide)

theorem pruneIntermediate_length (f : Bytes) : (pruneIntermediateScalar f).length = f.length := by
  simp [pruneIntermediateScalar]

theorem pruneRoot_length (s : Bytes) : (pruneRootScalar s).length = s.length := by
  simp [pruneRootScalar]

theorem pruneRoot_isBytes (s : Bytes) (h : IsBytes s) : IsBytes (pruneRootScalar s) := by
  unfold pruneRootScalar
  refine isBytes_set (isBytes_set (isBytes_set h _ _ (and_lt_256 _ _ (by decide))) _ _
    (and_lt_256 _ _ (by decide))) _ _ ?_
  -- (x &&& 31) ||| 64 < 256
  simp only [List.getD_eq_getElem?_getD]
  have : ∀ y : Nat, y < 32 → y ||| 64 < 256 := by decide
  by_cases h31 : 31 < s.length
  · simp only [List.length_set, h31, List.getElem?_set_self, Option.getD_some]
    exact this _ (Nat.lt_of_le_of_lt Nat.and_le_right (by decide))
  · have : ((s.set 0 (s[0]?.getD 0 &&& 248)).set 31 ((s.set 0 (s[0]?.getD 0 &&& 248))[31]?.getD 0 &&& 31))[31]? = none := by
      simp; omega
    rw [this]; decide

/-- **`pruneIntermediateScalar` leaves a value below 2^233** (bits 233…255 cleared). -/
theorem pruneIntermediate_lt (f : Bytes) (hlen : f.length = 32) (h : IsBytes f) :
    fromLE (pruneIntermediateScalar f) < 2 ^ 233 := by
  have hb := pruneIntermediate_isBytes f h
  have hl := pruneIntermediate_length f
  rw [fromLE_take_drop _ 29]
  have hlt := fromLE_lt ((pruneIntermediateScalar f).take 29) (fun b hb' => hb b (List.mem_of_mem_take hb'))
  have hlen29 : ((pruneIntermediateScalar f).take 29).length = 29 := by
    rw [List.length_take, hl, hlen]; rfl
  rw [hlen29] at hlt ⊢
  have hdrop : (pruneIntermediateScalar f).drop 29 = [f.getD 29 0 &&& 1, 0, 0] := by
    apply List.ext_getElem
    · simp [hl, hlen]
    · intro i h1 h2
      simp only [List.length_cons, List.length_nil] at h2
      have hi : i = 0 ∨ i = 1 ∨ i = 2 := by omega
      rcases hi with rfl | rfl | rfl <;>
        simp [pruneIntermediateScalar, List.getD_eq_getElem?_getD, hlen]
  rw [hdrop]
  have : fromLE [f.getD 29 0 &&& 1, 0, 0] ≤ 1 := by
    simp only [fromLE]
    have : f.getD 29 0 &&& 1 ≤ 1 := Nat.and_le_right
    omega
  have e : (256 : Nat) ^ 29 = 2 ^ 232 := by norm_num
  rw [e] at hlt ⊢
  have e2 : (2 : Nat) ^ 233 = 2 ^ 232 + 2 ^ 232 := by norm_num
  rw [e2]
  generalize fromLE [f.getD 29 0 &&& 1, 0, 0] = t at this ⊢
  have : 2 ^ 232 * t ≤ 2 ^ 232 * 1 := Nat.mul_le_mul_left _ this
  omega

/-- **`pruneRootScalar` leaves a value in [2^254, 2^254 + 2^253)**. -/
theorem pruneRoot_bounds (s : Bytes) (hlen : s.length = 32) (h : IsBytes s) :
    2 ^ 254 ≤ fromLE (pruneRootScalar s) ∧ fromLE (pruneRootScalar s) < 2 ^ 254 + 2 ^ 253 := by
  have hb := pruneRoot_isBytes s h
  have hl := pruneRoot_length s
  rw [fromLE_take_drop _ 31]
  have hlt := fromLE_lt ((pruneRootScalar s).take 31) (fun b hb' => hb b (List.mem_of_mem_take hb'))
  have hlen31 : ((pruneRootScalar s).take 31).length = 31 := by
    rw [List.length_take, hl, hlen]; rfl
  rw [hlen31] at hlt ⊢
  have hdrop : (pruneRootScalar s).drop 31 = [(s.getD 31 0 &&& 31) ||| 64] := by
    apply List.ext_getElem
    · simp [hl, hlen]
    · intro i h1 h2
      simp only [List.length_cons, List.length_nil] at h2
      have hi : i = 0 := by omega
      subst hi
      simp [pruneRootScalar, List.getD_eq_getElem?_getD, hlen]
  rw [hdrop]
  have hr : ∀ y : Nat, y < 32 → 64 ≤ y ||| 64 ∧ y ||| 64 < 96 := by decide
  have hy : s.getD 31 0 &&& 31 < 32 := Nat.lt_of_le_of_lt Nat.and_le_right (by decide)
  obtain ⟨h1, h2⟩ := hr _ hy
  simp only [fromLE]
  generalize (s.getD 31 0 &&& 31) ||| 64 = t at h1 h2 ⊢
  have e : (256 : Nat) ^ 31 = 2 ^ 248 := by norm_num
  rw [e] at hlt ⊢
  have e1 : (2 : Nat) ^ 254 = 2 ^ 248 * 64 := by norm_num
  have e2 : (2 : Nat) ^ 253 = 2 ^ 248 * 32 := by norm_num
  rw [e1, e2]
  have a1 : 2 ^ 248 * 64 ≤ 2 ^ 248 * t := Nat.mul_le_mul_left _ h1
  have a2 : 2 ^ 248 * t ≤ 2 ^ 248 * 95 := Nat.mul_le_mul_left _ (by omega)
  omega

/-! ### laws assumed of the parameters -/

/-- what the theorems assume about the group operations: a commutative group generated (as far
    as chainkd is concerned) by `B` of order dividing `ell`, with an injective encoding. -/
structure GrpLaws {G : Type} (g : Grp G) : Prop where
  add_comm : ∀ P Q, g.add P Q = g.add Q P
  add_neg_cancel : ∀ P Q, g.add (g.add P Q) (g.neg Q) = P
  smulB_add : ∀ a b, g.smulB (a + b) = g.add (g.smulB a) (g.smulB b)
  smulB_mod : ∀ a, g.smulB (a % g.ell) = g.smulB a
  smul_smulB : ∀ h a, g.smul h (g.smulB a) = g.smulB (h * a)
  smul_neg : ∀ h P, g.smul h (g.neg P) = g.neg (g.smul h P)
  dec_enc : ∀ P, g.dec (g.enc P) = some P
  enc_length : ∀ P, (g.enc P).length = 32
  ell_le : g.ell ≤ 256 ^ 32
  ell_pos : 0 < g.ell

structure PRFLaws (f : PRF) : Prop where
  hmac_length : ∀ k m, (f.hmac k m).length = 64
  hmac_bytes : ∀ k m, IsBytes (f.hmac k m)

/-! ### a concrete instance of the laws: the cyclic group of order 13 with a PRF of constants -/

def toyGrp : Grp (Fin 13) where
  add a b := a + b
  neg a := -a
  smulB n := Fin.ofNat 13 n
  smul n P := Fin.ofNat 13 (n * P.val)
  enc P := toLE 32 P.val
  dec b := some (Fin.ofNat 13 (fromLE b))
  ell := 13

theorem toyGrp_laws : GrpLaws toyGrp where
  add_comm := by
    have : ∀ P Q : Fin 13, P + Q = Q + P := by decide
    exact this
  add_neg_cancel := by
    have : ∀ P Q : Fin 13, P + Q + -Q = P := by decide
    exact this
  smulB_add := by
    intro a b; simp only [toyGrp]; apply Fin.ext
    simp [Fin.ofNat, Fin.val_add, Nat.add_mod]
  smulB_mod := by intro a; simp [toyGrp, Fin.ofNat]
  smul_smulB := by
    intro h a; simp only [toyGrp]; apply Fin.ext
    simp [Fin.ofNat, Nat.mul_mod]
  smul_neg := by
    intro h P
    simp only [toyGrp]
    apply Fin.ext
    simp only [Fin.ofNat, Fin.neg_def]
    have hP := P.isLt
    generalize P.val = p at hP
    have tbl : ∀ p, p < 13 → ∀ r, r < 13 → (r * ((13 - p) % 13)) % 13 = (13 - (r * p) % 13) % 13 := by decide
    have key := tbl p hP (h % 13) (Nat.mod_lt _ (by decide))
    have e : h * p % 13 = (h % 13) * p % 13 := by rw [Nat.mul_mod, Nat.mod_eq_of_lt hP]
    have e2 : h * ((13 - p) % 13) % 13 = (h % 13) * ((13 - p) % 13) % 13 := by
      rw [Nat.mul_mod, Nat.mod_mod]
    rw [e2, key, e]
  dec_enc := by
    intro P; simp only [toyGrp]
    rw [fromLE_toLE _ _ (Nat.lt_of_lt_of_le P.isLt (by norm_num))]
    simp [Fin.ofNat, Nat.mod_eq_of_lt P.isLt]
  enc_length := by intro P; simp [toyGrp, toLE_length]
  ell_le := by simp [toyGrp]
  ell_pos := by simp [toyGrp]

def toyPRF : PRF := ⟨fun _ _ => List.replicate 64 7, fun _ => List.replicate 64 9⟩

theorem toyPRF_laws : PRFLaws toyPRF where
  hmac_length := by intro k m; simp [toyPRF]
  hmac_bytes := by intro k m b hb; simp [toyPRF] at hb; omega

end BytomModel.Lemmas.KD
