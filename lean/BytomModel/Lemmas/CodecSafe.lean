/-
No-panic invariant of the codec decoders, composed along the decoder monad, and inversion
lemmas for successful binds.
-/
import BytomModel.Lemmas.Codec

namespace BytomModel.Lemmas.Codec
open BytomModel.Codec

def NoPanic {α} (m : Dec α) : Prop := ∀ bs, (m bs).out ≠ .panic

theorem bind_ok_inv {α β} {m : Dec α} {f : α → Dec β} {bs : Bytes} {b : β} {r : Bytes}
    (h : ((m >>= f) bs).out = .ok b r) : ∃ a r1, (m bs).out = .ok a r1 ∧ (f a r1).out = .ok b r := by
  cases hm : (m bs).out with
  | ok a r1 => exact ⟨a, r1, rfl, by rw [bind_ok hm] at h; exact h⟩
  | err e => rw [bind_err hm] at h; cases h
  | panic => rw [bind_panic hm] at h; cases h

theorem bind_panic_inv {α β} {m : Dec α} {f : α → Dec β} {bs : Bytes}
    (h : ((m >>= f) bs).out = .panic) : (m bs).out = .panic ∨ ∃ a r1, (m bs).out = .ok a r1 ∧ (f a r1).out = .panic := by
  cases hm : (m bs).out with
  | ok a r1 => exact Or.inr ⟨a, r1, rfl, by rw [bind_ok hm] at h; exact h⟩
  | err e => rw [bind_err hm] at h; cases h
  | panic => exact Or.inl rfl

namespace NoPanic

theorem bind {α β} {m : Dec α} {f : α → Dec β} (hm : NoPanic m) (hf : ∀ a, NoPanic (f a)) : NoPanic (m >>= f) := by
  intro bs h
  rcases bind_panic_inv h with h1 | ⟨a, r1, _, h2⟩
  · exact hm bs h1
  · exact hf a r1 h2

theorem pure {α} (a : α) : NoPanic (Pure.pure a : Dec α) := by intro bs h; cases h
theorem fail {α} (e : Err) : NoPanic (Codec.fail e : Dec α) := by intro bs h; cases h
theorem tick (n : Nat) : NoPanic (Codec.tick n) := by intro bs h; cases h
theorem remaining : NoPanic Codec.remaining := by intro bs h; cases h

theorem ite {α} {c : Prop} [Decidable c] {a b : Dec α} (ha : NoPanic a) (hb : NoPanic b) :
    NoPanic (if c then a else b) := by
  split <;> assumption

theorem readByte : NoPanic Codec.readByte := by
  intro bs h; unfold Codec.readByte at h; cases bs <;> cases h

theorem uvarintGo_ne_panic : ∀ fuel x s bs, uvarintGo fuel x s bs ≠ .panic := by
  intro fuel
  induction fuel with
  | zero => intro x s bs h; simp [uvarintGo] at h
  | succ f ih =>
    intro x s bs h
    cases bs with
    | nil => simp [uvarintGo] at h
    | cons b rest =>
      simp only [uvarintGo] at h
      split at h
      · split at h <;> cases h
      · exact ih _ _ _ h

theorem readUvarint : NoPanic Codec.readUvarint := fun bs => uvarintGo_ne_panic 10 0 0 bs

theorem readVarint31 : NoPanic Codec.readVarint31 :=
  bind readUvarint (fun _ => ite (fail _) (pure _))

theorem readVarint63 : NoPanic Codec.readVarint63 :=
  bind readUvarint (fun _ => ite (fail _) (pure _))

theorem takeStr (l : Nat) : NoPanic (Codec.takeStr l) := by
  intro bs h; unfold Codec.takeStr at h
  split at h
  · cases h
  · split at h <;> cases h

theorem readVarstr31 : NoPanic Codec.readVarstr31 := bind readVarint31 takeStr

theorem readStrs (total : Nat) : ∀ n k bs, (Codec.readStrs total n k bs).out ≠ .panic := by
  intro n
  induction n with
  | zero => intro k bs h; simp [Codec.readStrs] at h
  | succ n ih =>
    intro k bs h
    simp only [Codec.readStrs] at h
    cases hm : Codec.readVarstr31 bs with
    | mk a o =>
      cases o with
      | ok s r =>
        rw [hm] at h
        simp only at h
        cases ht : (Codec.readStrs total n (k + 1) r).out with
        | ok l r' => rw [ht] at h; cases h
        | err e => rw [ht] at h; cases h
        | panic => exact ih _ _ ht
      | err e => rw [hm] at h; cases h
      | panic =>
        have := readVarstr31 bs
        rw [hm] at this
        exact this rfl

theorem readVarstrList : NoPanic Codec.readVarstrList :=
  bind readVarint31 (fun n => ite (pure _) (fun bs => readStrs n n 0 bs))

theorem runInner {α} {f : Dec α} (hf : NoPanic f) (s : Bytes) : NoPanic (Codec.runInner f s) := by
  intro bs h
  unfold Codec.runInner at h
  cases hm : f s with
  | mk k o =>
    rw [hm] at h
    cases o with
    | ok a rest => cases h
    | err e => cases h
    | panic =>
      have := hf s
      rw [hm] at this
      exact this rfl

theorem readExt {α} {f : Dec α} (hf : NoPanic f) : NoPanic (Codec.readExt f) :=
  bind readVarstr31 (fun s => runInner hf s)

theorem readHash : NoPanic Codec.readHash := by
  intro bs h; unfold Codec.readHash at h
  split at h
  · cases h
  · split at h <;> cases h

theorem charge {α} (a : Nat) {m : Dec α} (hm : NoPanic m) : NoPanic (Codec.charge a m) := fun bs => hm bs

theorem chargeOk {α} (a : Nat) {m : Dec α} (hm : NoPanic m) : NoPanic (Codec.chargeOk a m) := by
  intro bs h; rw [chargeOk_out] at h; exact hm bs h

theorem readN {α} (a : Nat) {f : Dec α} (hf : NoPanic f) : ∀ n, NoPanic (Codec.readN a f n) := by
  intro n
  induction n with
  | zero => exact pure _
  | succ n ih => exact bind (charge a hf) (fun _ => bind ih (fun _ => pure _))

theorem decSCFields : NoPanic Codec.decSCFields :=
  bind readHash fun _ => bind (charge _ readHash) fun _ => bind readVarint63 fun _ => bind readVarint63 fun _ =>
    bind readVarint63 fun _ => ite (fail _) (bind readVarstr31 fun _ => bind readVarstrList fun _ => pure _)

theorem decSC : NoPanic Codec.decSC := readExt decSCFields

theorem readInType : NoPanic Codec.readInType := bind readByte fun _ => ite (fail _) (pure _)
theorem readOutType : NoPanic Codec.readOutType := bind readByte fun _ => ite (fail _) (pure _)

theorem decCommit : NoPanic Codec.decCommit :=
  bind (chargeOk _ readInType) fun _ =>
    ite (bind readVarstr31 fun _ => bind readHash fun _ => bind readVarint63 fun _ => pure _)
    (ite (bind decSC fun _ => pure _)
    (ite (bind readVarstr31 fun _ => pure _)
    (ite (bind decSC fun _ => bind readVarstr31 fun _ => pure _) (fail _))))

theorem decWitness (H : Bytes → Bytes) (c : Commit) : NoPanic (Codec.decWitness H c) := by
  cases c with
  | issuance nonce asset amount =>
    exact bind readVarstr31 fun _ => bind readVarint63 fun _ => bind readVarstr31 fun _ =>
      ite (fail _) (bind readVarstrList fun _ => pure _)
  | spend sc suf => exact bind readVarstrList fun _ => pure _
  | coinbase arb => exact pure _
  | veto sc suf vote => exact bind readVarstrList fun _ => pure _

theorem decInput (H : Bytes → Bytes) : NoPanic (Codec.decInput H) :=
  bind readVarint63 fun _ =>
    bind (readExt (ite (pure _) (bind decCommit fun _ => pure _))) fun p =>
      bind (readExt (by
        cases p.1 with
        | none => exact pure _
        | some c => exact bind (decWitness H c) fun _ => pure _)) fun _ => pure _

theorem decOC : NoPanic Codec.decOC :=
  bind (charge _ readHash) fun _ => bind readVarint63 fun _ => bind readVarint63 fun _ =>
    ite (fail _) (bind readVarstr31 fun _ => bind readVarstrList fun _ => pure _)

theorem decOutBody (t : UInt8) (av : Nat) : NoPanic (Codec.decOutBody t av) :=
  bind (ite (bind readVarstr31 fun _ => pure _) (pure _)) fun _ =>
    bind (ite (bind decOC fun _ => pure _) (pure _)) fun _ => pure _

theorem decOutput : NoPanic Codec.decOutput :=
  bind readVarint63 fun _ => bind (chargeOk _ readOutType) fun _ =>
    bind (readExt (decOutBody _ _)) fun _ => bind readVarstr31 fun _ => pure _

theorem decTx (H : Bytes → Bytes) : NoPanic (Codec.decTx H) :=
  bind remaining fun _ => bind readByte fun _ => ite (fail _)
    (bind readVarint63 fun _ => bind readVarint63 fun _ => bind readVarint31 fun _ =>
      bind (readN _ (decInput H) _) fun _ => bind readVarint31 fun _ =>
      bind (readN _ decOutput _) fun _ => bind remaining fun _ => pure _)

theorem decSigs : ∀ n, NoPanic (Codec.decSigs n) := by
  intro n
  induction n with
  | zero => exact pure _
  | succ n ih => exact bind readVarstr31 fun _ => bind ih fun _ => pure _

theorem decSupLink : NoPanic Codec.decSupLink :=
  bind readVarint63 fun _ => bind readHash fun _ => bind (decSigs _) fun _ => pure _

theorem decSupLinks : NoPanic Codec.decSupLinks :=
  bind readVarint31 fun _ => bind (tick _) fun _ => readN _ decSupLink _

theorem decHeader : NoPanic Codec.decHeader :=
  bind readByte fun _ => ite (pure _) (ite (fail _)
    (bind readVarint63 fun _ => bind readVarint63 fun _ => bind readHash fun _ => bind readVarint63 fun _ =>
      bind (readExt readHash) fun _ => bind (readExt readVarstr31) fun _ => bind (readExt decSupLinks) fun _ => pure _))

theorem noTrailing {α} (a : α) : NoPanic (Codec.noTrailing a) := by
  intro bs h; unfold Codec.noTrailing at h; split at h <;> cases h

theorem decBlockTxWith {mp : TxData → Dec Unit} (hmp : ∀ tx, NoPanic (mp tx)) (H : Bytes → Bytes) :
    NoPanic (Codec.decBlockTxWith mp H) :=
  bind (decTx H) fun tx => bind (hmp tx) fun _ => pure _

theorem decBlockWith {mp : TxData → Dec Unit} (hmp : ∀ tx, NoPanic (mp tx)) (H : Bytes → Bytes) :
    NoPanic (Codec.decBlockWith mp H) :=
  bind decHeader fun _ => ite (pure _)
    (bind readVarint31 fun _ => bind (readN _ (decBlockTxWith hmp H) _) fun _ => pure _)

theorem fromText {α} {d : Dec α} (hd : NoPanic d) (text : Bytes) : (Codec.fromText d text).out ≠ .panic := by
  unfold Codec.fromText
  cases hexDecode text with
  | none => intro h; cases h
  | some bs => exact hd bs

end NoPanic

theorem readExt_ok_inv {α} {f : Dec α} {bs : Bytes} {p : α × Bytes} {r : Bytes}
    (h : (readExt f bs).out = .ok p r) : ∃ s, (f s).out = .ok p.1 p.2 := by
  unfold readExt at h
  obtain ⟨s, r1, _, h2⟩ := bind_ok_inv h
  refine ⟨s, ?_⟩
  unfold runInner at h2
  cases hm : f s with
  | mk k o =>
    rw [hm] at h2
    cases o with
    | ok a rest => simp only [Out.ok.injEq] at h2; obtain ⟨h3, _⟩ := h2; subst h3; rfl
    | err e => cases h2
    | panic => cases h2

/-- a decoded input has no typed input exactly when its asset version is not 1 -/
theorem decInput_typed_none_iff (H : Bytes → Bytes) {bs : Bytes} {i : TxInput} {r : Bytes}
    (h : (decInput H bs).out = .ok i r) : i.typed = none ↔ i.assetVersion ≠ 1 := by
  unfold decInput at h
  obtain ⟨av, r1, _, h1⟩ := bind_ok_inv h
  obtain ⟨p, r2, hp, h2⟩ := bind_ok_inv h1
  obtain ⟨q, r3, hq, h3⟩ := bind_ok_inv h2
  simp only [pure_out, Out.ok.injEq] at h3
  obtain ⟨h3, _⟩ := h3
  subst h3
  simp only
  obtain ⟨s1, hs1⟩ := readExt_ok_inv hp
  obtain ⟨s2, hs2⟩ := readExt_ok_inv hq
  by_cases hav : av = 1
  · subst hav
    rw [if_neg (by simp)] at hs1
    obtain ⟨c, r4, _, hc⟩ := bind_ok_inv hs1
    simp only [pure_out, Out.ok.injEq] at hc
    obtain ⟨hc, _⟩ := hc
    rw [← hc] at hs2
    simp only at hs2
    obtain ⟨t, r5, _, ht⟩ := bind_ok_inv hs2
    simp only [pure_out, Out.ok.injEq] at ht
    obtain ⟨ht, _⟩ := ht
    rw [← ht]
    simp
  · rw [if_pos hav] at hs1
    simp only [pure_out, Out.ok.injEq] at hs1
    obtain ⟨hc, _⟩ := hs1
    rw [← hc] at hs2
    simp only [pure_out, Out.ok.injEq] at hs2
    obtain ⟨ht, _⟩ := hs2
    rw [← ht]
    simp [hav]

end BytomModel.Lemmas.Codec
