/-
Lifting the handler-level refinement through `step`, CHECKPREDICATE, `run` and `Verify`.
-/
import BytomModel.Lemmas.VMRefineOps3
namespace BytomModel.VM
open OpM
set_option linter.unusedSimpArgs false
set_option linter.unusedVariables false
set_option linter.unnecessarySeqFocus false
set_option linter.unusedTactic false
set_option linter.unreachableTactic false
set_option maxHeartbeats 1000000
variable (g : Nat → Nat → Nat)

theorem epilogue_sim (cH : Context Slice) (cv : Context Bytes) :
    OpSimA cH cv (epilogue : OpM (St Heap Slice) Unit) (epilogue : OpM (St Unit Bytes) Unit) := by
  intro s hv hc
  obtain ⟨h, ⟨prog, pc, nextPC, rl, d, data, alt, depth, er⟩⟩ := s
  vm_sim [epilogue]

theorem stackCost_abs (h : Heap) (l : List Slice) (hl : ∀ x ∈ l, Valid h x) :
    stackCost valueMem.len (l.map h.read) = stackCost (heapMem g).len l := by
  induction l with
  | nil => rfl
  | cons x xs ih =>
    have hx : (h.read x).length = x.len := hl x (by simp)
    simp only [List.map_cons, stackCost, ih (fun y hy => hl y (by simp [hy]))]
    show 8 + ((h.read x).length : Int) + _ = 8 + (x.len : Int) + _
    rw [hx]

theorem falseResult_abs (h : Heap) (f : Frame Slice) :
    falseResult valueMem () (absFrame h f) = falseResult (heapMem g) h f := by
  unfold falseResult absFrame
  cases f.data <;> rfl

/-- the part of CHECKPREDICATE before the child runs -/
theorem cpPrelude_sim (cH : Context Slice) (cv : Context Bytes) (s : St Heap Slice)
    (hv : FrameValid s.mem s.f) (hc : CtxSim s.mem cH cv) :
    ResPP (fun c s' => cpPrelude valueMem (absSt s) = .ok ⟨c.limit, s'.mem.read c.predicate, c.n⟩ (absSt s') ∧
              HeapPrefix s.mem s'.mem ∧ FrameValid s'.mem s'.f ∧ Valid s'.mem c.predicate)
          (fun e s' => cpPrelude valueMem (absSt s) = .err e (absSt s') ∧ HeapPrefix s.mem s'.mem ∧ FrameValid s'.mem s'.f)
          (cpPrelude valueMem (absSt s) = .panic) (cpPrelude (heapMem g) s) := by
  obtain ⟨h, ⟨prog, pc, nextPC, rl, d, data, alt, depth, er⟩⟩ := s
  rcases data with _ | ⟨x1, _ | ⟨x2, _ | ⟨x3, rest⟩⟩⟩ <;> vm_sim64 [cpPrelude]

/-- the part of CHECKPREDICATE after the child returned (refunds, result, deferred charge) -/
theorem cpFinish_sim (cH : Context Slice) (cv : Context Bytes) (child : Frame Slice) (e : Option Err)
    (s : St Heap Slice) (hv : FrameValid s.mem s.f) (hch : FrameValid s.mem child) :
    ResPP (fun _ s' => (do cpPostlude valueMem (absFrame s.mem child) e; epilogue : OpM (St Unit Bytes) Unit) (absSt s)
                = .ok () (absSt s') ∧ HeapPrefix s.mem s'.mem ∧ FrameValid s'.mem s'.f)
          (fun e' s' => (do cpPostlude valueMem (absFrame s.mem child) e; epilogue : OpM (St Unit Bytes) Unit) (absSt s)
                = .err e' (absSt s') ∧ HeapPrefix s.mem s'.mem ∧ FrameValid s'.mem s'.f)
          ((do cpPostlude valueMem (absFrame s.mem child) e; epilogue : OpM (St Unit Bytes) Unit) (absSt s) = .panic)
          ((do cpPostlude (heapMem g) child e; epilogue : OpM (St Heap Slice) Unit) s) := by
  obtain ⟨h, ⟨prog, pc, nextPC, rl, d, data, alt, depth, er⟩⟩ := s
  have h1 := stackCost_abs g h child.data hch.2.1
  have h2 := stackCost_abs g h child.alt hch.2.2
  have h3 := falseResult_abs g h child
  have h1' : stackCost valueMem.len (absFrame h child).data = stackCost (heapMem g).len child.data := h1
  have h2' : stackCost valueMem.len (absFrame h child).alt = stackCost (heapMem g).len child.alt := h2
  have h4 : (absFrame h child).runLimit = child.runLimit := rfl
  simp only [cpPostlude, bind_run, deferCost_run, Res.bindK_ok, get_run, h1', h2', h3, h4]
  generalize (e.isNone && !falseResult (heapMem g) h child) = b
  generalize stackCost (heapMem g).len child.data = c1
  generalize stackCost (heapMem g).len child.alt = c2
  generalize child.runLimit = c0
  vm_sim [epilogue]

/-! ### one `step()` -/

def absAction (h : Heap) : Action Slice → Action Bytes
  | .continue_ => .continue_
  | .enterChild c => .enterChild ⟨c.limit, h.read c.predicate, c.n⟩

def ActionValid (h : Heap) : Action Slice → Prop
  | .continue_ => True
  | .enterChild c => Valid h c.predicate

def StepSim (cH : Context Slice) (cv : Context Bytes) (s : St Heap Slice)
    (r : Res (St Heap Slice) (Action Slice)) : Prop :=
  ResPP (fun a s' => frameStep valueMem cv (absSt s) = .ok (absAction s'.mem a) (absSt s') ∧
            HeapPrefix s.mem s'.mem ∧ FrameValid s'.mem s'.f ∧ ActionValid s'.mem a)
        (fun e s' => frameStep valueMem cv (absSt s) = .err e (absSt s') ∧ HeapPrefix s.mem s'.mem ∧ FrameValid s'.mem s'.f)
        (frameStep valueMem cv (absSt s) = .panic) r

theorem frameStep_sim (cH : Context Slice) (cv : Context Bytes) (s : St Heap Slice)
    (hv : FrameValid s.mem s.f) (hc : CtxSim s.mem cH cv) :
    StepSim cH cv s (frameStep (heapMem g) cH s) := by
  have hf := CtxFun_of_sim hc
  have hplen : (s.mem.read s.f.prog).length = s.f.prog.len := hv.1
  unfold StepSim frameStep
  rw [bind_run, bind_run, get_run, get_run, Res.bindK_ok, Res.bindK_ok, bind_run, bind_run, ofExcept_run, ofExcept_run]
  have hparse : parseOpL (valueMem.len (absSt s).f.prog) (valueMem.read (absSt s).mem (absSt s).f.prog) (absSt s).f.pc
      = parseOpL ((heapMem g).len s.f.prog) ((heapMem g).read s.mem s.f.prog) s.f.pc := by
    show parseOpL (s.mem.read s.f.prog).length (s.mem.read s.f.prog) s.f.pc = parseOpL s.f.prog.len (s.mem.read s.f.prog) s.f.pc
    rw [hplen]
  rw [hparse]
  cases hp : parseOpL ((heapMem g).len s.f.prog) ((heapMem g).read s.mem s.f.prog) s.f.pc with
  | error e => simp [HeapPrefix.refl, hv]
  | ok inst =>
    simp only [exceptK_ok, Res.bindK_ok, bind_run, modifyF_run]
    -- the states after `nextPC := pc + len`
    have hv1 : FrameValid s.mem { s.f with nextPC := s.f.pc + inst.len } := hv
    by_cases hx : isExpansion inst.op = true
    · simp only [hx, if_true, opm_ite_apply]
      show ResPP _ _ _ ((if s.f.expRes = true then _ else _) : Res _ _)
      have he : (absSt s).f.expRes = s.f.expRes := rfl
      simp only [he]
      by_cases hexp : s.f.expRes = true
      · simp [hexp, HeapPrefix.refl, absSt, absFrame]; exact hv
      · simp only [hexp, if_false, bind_run, modifyF_run, Res.bindK_ok, applyCost_run]
        obtain ⟨h, ⟨prog, pc, nextPC, rl, d, data, alt, depth, er⟩⟩ := s
        simp only [absSt, absFrame]
        by_cases hc1 : (1 : Int) > rl
        · simp [hc1, HeapPrefix.refl, absSt, absFrame]; exact hv
        · simp [hc1, HeapPrefix.refl, absSt, absFrame, absAction, ActionValid]; exact hv
    · have hx' : isExpansion inst.op = false := by simpa using hx
      simp only [hx', Bool.false_eq_true, if_false, bind_run, modifyF_run, Res.bindK_ok]
      have hv2 : FrameValid s.mem { s.f with nextPC := s.f.pc + inst.len, deferred := 0 } := hv
      have habs : (⟨(), { (absSt s).f with nextPC := (absSt s).f.pc + inst.len, deferred := 0 }⟩ : St Unit Bytes)
          = absSt ⟨s.mem, { s.f with nextPC := s.f.pc + inst.len, deferred := 0 }⟩ := rfl
      by_cases hcp : inst.op = opCheckPredicateCode
      · simp only [hcp, if_true, bind_run]
        have hpre := cpPrelude_sim g cH cv ⟨s.mem, { s.f with nextPC := s.f.pc + inst.len, deferred := 0 }⟩ hv2 hc
        rw [← habs] at hpre
        revert hpre
        cases cpPrelude (heapMem g) ⟨s.mem, { s.f with nextPC := s.f.pc + inst.len, deferred := 0 }⟩ with
        | panic => intro hpre; simp only [ResPP_panic] at hpre; simp [hpre]
        | err e s1 => intro hpre; simp only [ResPP_err] at hpre; simp [hpre.1]; exact hpre.2
        | ok c s1 =>
          intro hpre; simp only [ResPP_ok] at hpre
          simp [hpre.1, absAction, ActionValid]; exact hpre.2
      · simp only [hcp, if_false, bind_run]
        have hop := execOp_sim g cH cv hf inst.op inst.data
          ⟨s.mem, { s.f with nextPC := s.f.pc + inst.len, deferred := 0 }⟩ hv2 hc
        rw [← habs] at hop
        revert hop
        cases execOp (heapMem g) cH inst.op inst.data
            ⟨s.mem, { s.f with nextPC := s.f.pc + inst.len, deferred := 0 }⟩ with
        | panic => intro hop; simp only [ResPP_panic] at hop; simp [hop]
        | err e s1 => intro hop; simp only [ResPP_err] at hop; simp [hop.1]; exact hop.2
        | ok u s1 =>
          intro hop; simp only [ResPP_ok] at hop
          obtain ⟨e1, p1, v1⟩ := hop
          simp only [e1, Res.bindK_ok]
          have hep := epilogue_sim cH cv s1 v1 (hc.prefix p1)
          revert hep
          cases (epilogue : OpM (St Heap Slice) Unit) s1 with
          | panic => intro hep; simp only [ResPP_panic] at hep; simp [hep]
          | err e s2 => intro hep; simp only [ResPP_err] at hep; simp [hep.1]; exact ⟨p1.trans hep.2.1, hep.2.2⟩
          | ok u2 s2 =>
            intro hep; simp only [ResPP_ok] at hep
            simp [hep.1, absAction, ActionValid]; exact ⟨p1.trans hep.2.1, hep.2.2⟩

/-! ### the machine -/

def absMachine (m : Machine Heap Slice) : Machine Unit Bytes :=
  ⟨(), absFrame m.mem m.cur, m.parents.map (absFrame m.mem)⟩

def MachineValid (m : Machine Heap Slice) : Prop :=
  FrameValid m.mem m.cur ∧ ∀ p ∈ m.parents, FrameValid m.mem p

def absFinal : Final Heap Slice → Final Unit Bytes
  | .done mem f e => .done () (absFrame mem f) e
  | .panic => .panic

/-- result of a small step / of `finish`, related to the value side -/
def OutSim (mem0 : Heap) (rv : Machine Unit Bytes ⊕ Final Unit Bytes) : Machine Heap Slice ⊕ Final Heap Slice → Prop
  | .inl m' => rv = .inl (absMachine m') ∧ HeapPrefix mem0 m'.mem ∧ MachineValid m'
  | .inr (.done mem' f e) => rv = .inr (.done () (absFrame mem' f) e) ∧ HeapPrefix mem0 mem' ∧ FrameValid mem' f
  | .inr .panic => rv = .inr .panic

theorem map_absFrame_prefix {h h' : Heap} (hp : HeapPrefix h h') (ps : List (Frame Slice))
    (hv : ∀ p ∈ ps, FrameValid h p) : ps.map (absFrame h') = ps.map (absFrame h) := by
  apply List.map_congr_left
  intro p hpm
  exact absFrame_prefix hp (hv p hpm)

theorem finish_sim (cH : Context Slice) (cv : Context Bytes) (mem0 mem : Heap) (hp0 : HeapPrefix mem0 mem)
    (child : Frame Slice) (e : Option Err) (ps : List (Frame Slice))
    (hch : FrameValid mem child) (hps : ∀ p ∈ ps, FrameValid mem p) :
    OutSim mem0 (finish valueMem () (absFrame mem child) e (ps.map (absFrame mem)))
      (finish (heapMem g) mem child e ps) := by
  induction ps generalizing mem child e with
  | nil => exact ⟨rfl, hp0, hch⟩
  | cons p ps ih =>
    have hpv : FrameValid mem p := hps p (by simp)
    have hrest : ∀ q ∈ ps, FrameValid mem q := fun q hq => hps q (by simp [hq])
    have hsim := cpFinish_sim g cH cv child e ⟨mem, p⟩ hpv hch
    simp only [List.map_cons]
    unfold finish
    have habs : (⟨(), absFrame mem p⟩ : St Unit Bytes) = absSt ⟨mem, p⟩ := rfl
    rw [habs]
    revert hsim
    cases (do cpPostlude (heapMem g) child e; epilogue : OpM (St Heap Slice) Unit) ⟨mem, p⟩ with
    | panic => intro hsim; simp only [ResPP_panic] at hsim; rw [hsim]; rfl
    | ok u s1 =>
      intro hsim; simp only [ResPP_ok] at hsim
      obtain ⟨e1, p1, v1⟩ := hsim
      rw [e1]
      refine ⟨?_, hp0.trans p1, v1, fun q hq => (hrest q hq).prefix p1⟩
      show Sum.inl _ = Sum.inl _
      congr 1
      show Machine.mk () (absSt s1).f (ps.map (absFrame mem)) = absMachine ⟨s1.mem, s1.f, ps⟩
      unfold absMachine
      rw [map_absFrame_prefix p1 ps hrest]
      rfl
    | err e' s1 =>
      intro hsim; simp only [ResPP_err] at hsim
      obtain ⟨e1, p1, v1⟩ := hsim
      rw [e1]
      have := ih s1.mem (hp0.trans p1) s1.f (some e') v1 (fun q hq => (hrest q hq).prefix p1)
      rw [map_absFrame_prefix p1 ps hrest] at this
      exact this

theorem progLen_abs (m : Machine Heap Slice) (hv : FrameValid m.mem m.cur) :
    progLen valueMem (absMachine m).cur = progLen (heapMem g) m.cur := by
  unfold progLen
  show (m.mem.read m.cur.prog).length % two32 = m.cur.prog.len % two32
  rw [hv.1]

theorem smallStep_sim (cH : Context Slice) (cv : Context Bytes) (m : Machine Heap Slice)
    (hv : MachineValid m) (hc : CtxSim m.mem cH cv) :
    OutSim m.mem (smallStep valueMem cv (absMachine m)) (smallStep (heapMem g) cH m) := by
  obtain ⟨hv1, hv2⟩ := hv
  unfold smallStep
  rw [progLen_abs g m hv1]
  have hpc : (absMachine m).cur.pc = m.cur.pc := rfl
  rw [hpc]
  by_cases hend : m.cur.pc ≥ progLen (heapMem g) m.cur
  · simp only [hend, if_true]
    exact finish_sim g cH cv m.mem m.mem (HeapPrefix.refl _) m.cur none m.parents hv1 hv2
  · simp only [hend, if_false]
    have hst : (⟨(absMachine m).mem, (absMachine m).cur⟩ : St Unit Bytes) = absSt ⟨m.mem, m.cur⟩ := rfl
    rw [hst]
    have hfs := frameStep_sim g cH cv ⟨m.mem, m.cur⟩ hv1 hc
    unfold StepSim at hfs
    revert hfs
    cases frameStep (heapMem g) cH ⟨m.mem, m.cur⟩ with
    | panic => intro hfs; simp only [ResPP_panic] at hfs; rw [hfs]; rfl
    | err e s1 =>
      intro hfs; simp only [ResPP_err] at hfs
      obtain ⟨e1, p1, v1⟩ := hfs
      rw [e1]
      have := finish_sim g cH cv m.mem s1.mem p1 s1.f (some e) m.parents v1 (fun q hq => (hv2 q hq).prefix p1)
      rw [map_absFrame_prefix p1 m.parents hv2] at this
      exact this
    | ok a s1 =>
      intro hfs; simp only [ResPP_ok] at hfs
      obtain ⟨e1, p1, v1, va⟩ := hfs
      rw [e1]
      cases a with
      | continue_ =>
        refine ⟨?_, p1, v1, fun q hq => (hv2 q hq).prefix p1⟩
        show Sum.inl _ = Sum.inl _
        congr 1
        show Machine.mk () (absSt s1).f (m.parents.map (absFrame m.mem)) = absMachine ⟨s1.mem, s1.f, m.parents⟩
        unfold absMachine
        rw [map_absFrame_prefix p1 m.parents hv2]
        rfl
      | enterChild c =>
        have hpred : Valid s1.mem c.predicate := va
        refine ⟨?_, p1, ⟨hpred, fun x hx => v1.2.1 x (List.mem_of_mem_take hx), by simp⟩, ?_⟩
        · show Sum.inl _ = Sum.inl _
          congr 1
          unfold absMachine
          simp only [absAction, absSt, absFrame, List.map_cons, List.map_take, List.map_drop, List.map_nil]
          rw [map_absFrame_prefix p1 m.parents hv2]
        · intro q hq
          rcases List.mem_cons.mp hq with rfl | hq
          · exact ⟨v1.1, fun x hx => v1.2.1 x (List.mem_of_mem_drop hx), v1.2.2⟩
          · exact (hv2 q hq).prefix p1

/-- **the heap run and the value run agree step for step** -/
theorem runFuel_sim (cH : Context Slice) (cv : Context Bytes) (n : Nat) (m : Machine Heap Slice)
    (hv : MachineValid m) (hc : CtxSim m.mem cH cv) :
    (runFuel (heapMem g) cH n m).map absFinal = runFuel valueMem cv n (absMachine m) ∧
    ∀ mem' f e, runFuel (heapMem g) cH n m = some (.done mem' f e) → HeapPrefix m.mem mem' ∧ FrameValid mem' f := by
  induction n generalizing m with
  | zero => simp [runFuel]
  | succ n ih =>
    unfold runFuel
    have hs := smallStep_sim g cH cv m hv hc
    revert hs
    cases smallStep (heapMem g) cH m with
    | inl m' =>
      intro hs
      obtain ⟨e1, p1, v1⟩ := hs
      rw [e1]
      have := ih m' v1 (hc.prefix p1)
      refine ⟨this.1, fun mem' f e h => ?_⟩
      have := this.2 mem' f e h
      exact ⟨p1.trans this.1, this.2⟩
    | inr fin =>
      intro hs
      cases fin with
      | panic => simp only [OutSim] at hs; rw [hs]; simp [absFinal]
      | done mem' f e =>
        obtain ⟨e1, p1, v1⟩ := hs
        rw [e1]
        refine ⟨by simp [absFinal], fun mem'' f' e' h => ?_⟩
        simp at h
        obtain ⟨rfl, rfl, rfl⟩ := h
        exact ⟨p1, v1⟩

/-! ### `Verify` -/

/-- the initial pushes allocate nothing and commute with the abstraction -/
theorem pushAll_sim (alt : Bool) (xs : List Slice) (s : St Heap Slice)
    (hv : FrameValid s.mem s.f) (hxs : ∀ x ∈ xs, Valid s.mem x) :
    ResPP (fun _ s' => pushAll (if alt then pushAlt valueMem else fun x => pushItem valueMem x false)
                (xs.map s.mem.read) (absSt s) = .ok () (absSt s') ∧ s'.mem = s.mem ∧ FrameValid s'.mem s'.f)
          (fun e s' => pushAll (if alt then pushAlt valueMem else fun x => pushItem valueMem x false)
                (xs.map s.mem.read) (absSt s) = .err e (absSt s') ∧ s'.mem = s.mem ∧ FrameValid s'.mem s'.f)
          False
          (pushAll (if alt then pushAlt (heapMem g) else fun x => pushItem (heapMem g) x false) xs s) := by
  induction xs generalizing s with
  | nil => simp [pushAll, hv]
  | cons x xs ih =>
    have hx : Valid s.mem x := hxs x (by simp)
    have hxl : (s.mem.read x).length = x.len := hx
    obtain ⟨h, ⟨prog, pc, nextPC, rl, d, data, alts, depth, er⟩⟩ := s
    obtain ⟨hv1, hv2, hv3⟩ := hv
    dsimp only at hv1 hv2 hv3 hx hxl hxs
    simp only [pushAll, List.map_cons, bind_run]
    cases alt with
    | true =>
      simp only [if_true, pushAlt, bind_run, applyCost_run, itemCost, heapMem, valueMem, absSt, absFrame, hxl]
      by_cases hc : 8 + (x.len : Int) > rl
      · simp [hc, absSt, absFrame, FrameValid, hv1]; exact ⟨hv2, hv3⟩
      · simp only [hc, if_false, Res.bindK_ok, modifyF_run]
        have := ih ⟨h, ⟨prog, pc, nextPC, rl - (8 + (x.len : Int)), d, data, x :: alts, depth, er⟩⟩
          ⟨hv1, hv2, fun y hy => by
            rcases List.mem_cons.mp hy with rfl | hy
            · exact hx
            · exact hv3 y hy⟩ (fun y hy => hxs y (by simp [hy]))
        simpa [absSt, absFrame, pushAlt, heapMem, valueMem] using this
    | false =>
      simp only [Bool.false_eq_true, if_false, pushItem_imm, itemCost, heapMem, valueMem, absSt, absFrame, hxl]
      by_cases hc : 8 + (x.len : Int) > rl
      · simp [hc, absSt, absFrame, FrameValid, hv1]; exact ⟨hv2, hv3⟩
      · simp only [hc, if_false, Res.bindK_ok]
        have := ih ⟨h, ⟨prog, pc, nextPC, rl - (8 + (x.len : Int)), d, x :: data, alts, depth, er⟩⟩
          ⟨hv1, fun y hy => by
            rcases List.mem_cons.mp hy with rfl | hy
            · exact hx
            · exact hv2 y hy, hv3⟩ (fun y hy => hxs y (by simp [hy]))
        simpa [absSt, absFrame, heapMem, valueMem] using this

def absResult (r : VerifyResult Heap Slice) : VerifyResult Unit Bytes :=
  ⟨r.gasLeft, r.err, r.final.map fun p => ((), absFrame p.1 p.2)⟩

end BytomModel.VM
