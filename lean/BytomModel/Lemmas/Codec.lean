/-
Helper lemmas for the codec model: monad laws on outcomes, uvarint / varstr / list /
extensible-string round trips ("decode (encode v ++ r) = (v, r)").
-/
import BytomModel.Model.Codec
import Mathlib.Tactic.Linarith
import Mathlib.Tactic.Ring

namespace BytomModel.Lemmas.Codec
open BytomModel.Codec

/-! ### the decoder monad, on outcomes -/

theorem bind_ok {α β} {m : Dec α} {f : α → Dec β} {bs : Bytes} {a : α} {r : Bytes}
    (h : (m bs).out = .ok a r) : ((m >>= f) bs).out = (f a r).out := by
  show (Dec.bind m f bs).out = _
  unfold Dec.bind
  cases hm : m bs with
  | mk k o =>
    rw [hm] at h; simp only at h; subst h; rfl

theorem bind_err {α β} {m : Dec α} {f : α → Dec β} {bs : Bytes} {e : Err}
    (h : (m bs).out = .err e) : ((m >>= f) bs).out = .err e := by
  show (Dec.bind m f bs).out = _
  unfold Dec.bind
  cases hm : m bs with
  | mk k o =>
    rw [hm] at h; simp only at h; subst h; rfl

theorem bind_panic {α β} {m : Dec α} {f : α → Dec β} {bs : Bytes}
    (h : (m bs).out = .panic) : ((m >>= f) bs).out = .panic := by
  show (Dec.bind m f bs).out = _
  unfold Dec.bind
  cases hm : m bs with
  | mk k o =>
    rw [hm] at h; simp only at h; subst h; rfl

theorem charge_out {α} (a : Nat) (m : Dec α) (bs : Bytes) : (charge a m bs).out = (m bs).out := rfl

theorem chargeOk_out {α} (a : Nat) (m : Dec α) (bs : Bytes) : (chargeOk a m bs).out = (m bs).out := by
  unfold chargeOk
  cases hm : m bs with
  | mk k o => cases o <;> rfl

@[simp] theorem pure_out {α} (a : α) (bs : Bytes) : ((pure a : Dec α) bs).out = .ok a bs := rfl
@[simp] theorem tick_out (n : Nat) (bs : Bytes) : (tick n bs).out = .ok () bs := rfl
@[simp] theorem remaining_out (bs : Bytes) : (remaining bs).out = .ok bs.length bs := rfl
@[simp] theorem fail_out {α} (e : Err) (bs : Bytes) : ((fail e : Dec α) bs).out = .err e := rfl
@[simp] theorem readByte_cons (b : UInt8) (r : Bytes) : (readByte (b :: r)).out = .ok b r := rfl

/-! ### uvarint -/

theorem toNat_ofNat_lt {n : Nat} (h : n < 256) : (UInt8.ofNat n).toNat = n := by
  simp [Nat.mod_eq_of_lt h]

theorem uvarintGo_put : ∀ (k pf fuel n x s : Nat) (r : Bytes), n < 128 ^ k → 1 ≤ k → k ≤ pf + 1 → k < fuel →
    uvarintGo fuel x s (putUvarintF pf n ++ r) = .ok (x + n * 2 ^ s) r := by
  intro k
  induction k with
  | zero => intro pf fuel n x s r _ h1; omega
  | succ k ih =>
    intro pf fuel n x s r hn _ hpf hfuel
    obtain ⟨f, rfl⟩ : ∃ f, fuel = f + 1 := ⟨fuel - 1, by omega⟩
    by_cases hsmall : n < 128
    · have hput : putUvarintF pf n = [UInt8.ofNat n] := by
        cases pf with
        | zero => rfl
        | succ p => simp [putUvarintF, hsmall]
      rw [hput]
      have hb : (UInt8.ofNat n).toNat = n := toNat_ofNat_lt (by omega)
      have hlt : UInt8.ofNat n < 0x80 := by
        rw [UInt8.lt_iff_toNat_lt, hb]; exact hsmall
      have hf : ¬ (f = 0 ∧ UInt8.ofNat n > 1) := by
        intro h
        have : k = 0 := by omega
        subst this
        have hn1 : n < 128 := hsmall
        have : (1 : UInt8) < UInt8.ofNat n := h.2
        rw [UInt8.lt_iff_toNat_lt, hb] at this
        simp at hn
        have h1 : (1 : UInt8).toNat = 1 := rfl
        omega
      simp only [List.singleton_append, uvarintGo, hlt, if_true, hf, if_false, hb]
    · have hk : 1 ≤ k := by
        by_contra hk0
        have : k = 0 := by omega
        subst this
        simp at hn; omega
      obtain ⟨p, rfl⟩ : ∃ p, pf = p + 1 := ⟨pf - 1, by omega⟩
      have hput : putUvarintF (p + 1) n = UInt8.ofNat (n % 128 + 128) :: putUvarintF p (n / 128) := by
        simp [putUvarintF, hsmall]
      rw [hput]
      have hb : (UInt8.ofNat (n % 128 + 128)).toNat = n % 128 + 128 := toNat_ofNat_lt (by omega)
      have hge : ¬ (UInt8.ofNat (n % 128 + 128) < 0x80) := by
        rw [UInt8.lt_iff_toNat_lt, hb]
        have : (0x80 : UInt8).toNat = 128 := rfl
        omega
      have hdiv : n / 128 < 128 ^ k := by
        rw [Nat.div_lt_iff_lt_mul (by norm_num)]
        rw [pow_succ] at hn; exact hn
      simp only [List.cons_append, uvarintGo, hge, if_false, hb]
      rw [ih p f (n / 128) _ (s + 7) r hdiv hk (by omega) (by omega)]
      congr 1
      have h1 : (n % 128 + 128) % 128 = n % 128 := by omega
      rw [h1, pow_add]
      have h2 : n = 128 * (n / 128) + n % 128 := (Nat.div_add_mod n 128).symm
      have : n * 2 ^ s = (128 * (n / 128) + n % 128) * 2 ^ s := by rw [← h2]
      rw [this]; ring

theorem readUvarint_put (n : Nat) (h : n ≤ max63) (r : Bytes) :
    (readUvarint (putUvarint n ++ r)).out = .ok n r := by
  unfold readUvarint putUvarint
  simp only
  rw [uvarintGo_put 9 9 10 n 0 0 r (by unfold max63 at h; norm_num; omega) (by norm_num) (by norm_num) (by norm_num)]
  simp

theorem readVarint63_put (n : Nat) (h : n ≤ max63) (r : Bytes) :
    (readVarint63 (putUvarint n ++ r)).out = .ok n r := by
  unfold readVarint63
  rw [bind_ok (readUvarint_put n h r)]
  have : ¬ n > max63 := by omega
  simp [this]

theorem readVarint31_put (n : Nat) (h : n ≤ max31) (r : Bytes) :
    (readVarint31 (putUvarint n ++ r)).out = .ok n r := by
  unfold readVarint31
  rw [bind_ok (readUvarint_put n (by unfold max31 at h; unfold max63; omega) r)]
  have : ¬ n > max31 := by omega
  simp [this]


/-! ### varstr, varstr list, extensible string, hash, counted loops -/

theorem readVarstr31_enc (s : Bytes) (h : s.length ≤ max31) (r : Bytes) :
    (readVarstr31 (encVarstr s ++ r)).out = .ok s r := by
  unfold readVarstr31 encVarstr
  rw [List.append_assoc, bind_ok (readVarint31_put _ h _)]
  unfold takeStr
  by_cases h0 : s.length = 0
  · have : s = [] := List.eq_nil_of_length_eq_zero h0
    subst this; simp
  · have h1 : ¬ s.length > (s ++ r).length := by simp
    simp only [h0, if_false, h1]
    simp

def WFList (l : List Bytes) : Prop := l.length ≤ max31 ∧ ∀ s ∈ l, s.length ≤ max31

theorem readStrs_enc (total : Nat) : ∀ (l : List Bytes) (k : Nat) (r : Bytes), (∀ s ∈ l, s.length ≤ max31) →
    (readStrs total l.length k ((l.map encVarstr).flatten ++ r)).out = .ok l r := by
  intro l
  induction l with
  | nil => intro k r _; simp [readStrs]
  | cons s l ih =>
    intro k r h
    have hs := readVarstr31_enc s (h s (by simp)) ((l.map encVarstr).flatten ++ r)
    have ht := ih (k + 1) r (fun x hx => h x (by simp [hx]))
    simp only [List.length_cons, List.map_cons, List.flatten_cons, List.append_assoc, readStrs]
    cases hm : readVarstr31 (encVarstr s ++ ((l.map encVarstr).flatten ++ r)) with
    | mk a o =>
      rw [hm] at hs; simp only at hs; subst hs
      simp only [ht]

theorem readVarstrList_enc (l : List Bytes) (h : WFList l) (r : Bytes) :
    (readVarstrList (encStrList l ++ r)).out = .ok l r := by
  unfold readVarstrList encStrList
  rw [List.append_assoc, bind_ok (readVarint31_put _ h.1 _)]
  by_cases h0 : l.length = 0
  · have : l = [] := List.eq_nil_of_length_eq_zero h0
    subst this; simp
  · rw [if_neg h0]
    exact readStrs_enc _ l 0 r h.2

theorem readExt_enc' {α} (f : Dec α) (content rest : Bytes) (a : α) (r : Bytes)
    (hf : (f content).out = .ok a rest) (hl : content.length ≤ max31) :
    (readExt f (encVarstr content ++ r)).out = .ok (a, rest) r := by
  unfold readExt
  rw [bind_ok (readVarstr31_enc _ hl r)]
  unfold runInner
  cases hm : f content with
  | mk k o =>
    rw [hm] at hf; simp only at hf; subst hf
    rfl

theorem readExt_enc {α} (f : Dec α) (body suffix : Bytes) (a : α) (r : Bytes)
    (hf : (f (body ++ suffix)).out = .ok a suffix) (hl : (body ++ suffix).length ≤ max31) :
    (readExt f (encExt body suffix ++ r)).out = .ok (a, suffix) r :=
  readExt_enc' f (body ++ suffix) suffix a r hf hl

theorem readHash_app (h r : Bytes) (hl : h.length = 32) : (readHash (h ++ r)).out = .ok h r := by
  unfold readHash
  have : (h ++ r).length ≥ 32 := by simp; omega
  simp only [this, if_true]
  rw [List.take_left' hl, List.drop_left' hl]

theorem readN_enc {α} (a : Nat) (f : Dec α) (enc : α → Bytes) : ∀ (xs : List α) (r : Bytes),
    (∀ x ∈ xs, ∀ r, (f (enc x ++ r)).out = .ok x r) →
    (readN a f xs.length ((xs.map enc).flatten ++ r)).out = .ok xs r := by
  intro xs
  induction xs with
  | nil => intro r _; simp [readN]
  | cons x xs ih =>
    intro r h
    simp only [List.length_cons, List.map_cons, List.flatten_cons, List.append_assoc, readN]
    rw [bind_ok (by rw [charge_out]; exact h x (by simp) _),
      bind_ok (ih r (fun y hy => h y (by simp [hy])))]
    simp

/-- variant where the decoder returns a function of the encoded value (e.g. with the
    commitment suffix doubled, or with the serialized size filled in) -/
theorem readN_enc' {α} (a : Nat) (f : Dec α) (enc : α → Bytes) (g : α → α) : ∀ (xs : List α) (r : Bytes),
    (∀ x ∈ xs, ∀ r, (f (enc x ++ r)).out = .ok (g x) r) →
    (readN a f xs.length ((xs.map enc).flatten ++ r)).out = .ok (xs.map g) r := by
  intro xs
  induction xs with
  | nil => intro r _; simp [readN]
  | cons x xs ih =>
    intro r h
    simp only [List.length_cons, List.map_cons, List.flatten_cons, List.append_assoc, readN]
    rw [bind_ok (by rw [charge_out]; exact h x (by simp) _),
      bind_ok (ih r (fun y hy => h y (by simp [hy])))]
    simp

end BytomModel.Lemmas.Codec
