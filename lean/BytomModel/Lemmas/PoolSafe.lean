/-
C23 helper layer 1 (mempool only): a set `K` of transaction ids ("confirmed") whose members
always have an input that is neither spendable in the confirmed set nor creatable by a pooled
transaction outside `K` is never entered into `tp.pool` by `Chain.ValidateTx` /
`processOrphans`, whatever the orphan maps hold.
-/
import BytomModel.Lemmas.TxPoolIndex

namespace BytomModel.Lemmas.PoolSafe
open BytomModel.TxPool BytomModel.Lemmas.TxPool

/-- every member of `K` has a *blocked* input: not confirmed-spendable, and every universe
    transaction (with inputs) that creates it as an original output is itself in `K` -/
def Blocked (U : List Tx) (c : Cfg) (K : Nat → Prop) : Prop :=
  ∀ tx ∈ U, K tx.id → ∃ o ∈ tx.spent, c.conf.contains o = false ∧
    ∀ tx' ∈ U, tx'.spent ≠ [] → (o, true) ∈ tx'.results → K tx'.id

structure Safe (U : List Tx) (K : Nat → Prop) (s : Pool) : Prop where
  inv : Inv U s
  noK : ∀ id tx, amGet s.pool id = some tx → ¬ K id
  nonEmpty : ∀ id tx, amGet s.pool id = some tx → tx.spent ≠ []

theorem Safe.empty (U : List Tx) (K : Nat → Prop) : Safe U K Pool.empty :=
  ⟨Inv.empty U, fun _ _ h => by simp [Pool.empty, amGet] at h, fun _ _ h => by simp [Pool.empty, amGet] at h⟩

/-- a member of `K` always waits for a parent -/
theorem requireParents_ne_nil {U : List Tx} {c : Cfg} {K : Nat → Prop} {s : Pool}
    (hs : Safe U K s) (hb : Blocked U c K) {tx : Tx} (htx : tx ∈ U) (hk : K tx.id) :
    requireParents c s tx ≠ [] := by
  obtain ⟨o, ho, hconf, hcre⟩ := hb tx htx hk
  have hmem : o ∈ requireParents c s tx := by
    unfold requireParents missing
    refine List.mem_filter.mpr ⟨ho, ?_⟩
    have hno : amHas s.utxo o = false := by
      rw [amHas_eq]
      cases hg : amGet s.utxo o with
      | none => rfl
      | some t =>
        exfalso
        obtain ⟨tx', hp, hr⟩ := hs.inv.utxoSound o t hg
        have hw := hs.inv.poolWF t tx' hp
        have := hcre tx' hw.1 (hs.nonEmpty t tx' hp) hr
        exact hs.noK t tx' hp (hw.2 ▸ this)
    rw [hconf, hno]; rfl
  intro hnil
  rw [hnil] at hmem
  cases hmem

theorem safe_addTransaction {U : List Tx} (wf : WF U) (c : Cfg) {K : Nat → Prop} {s : Pool}
    (hs : Safe U K s) {tx : Tx} (htx : tx ∈ U) (hk : ¬ K tx.id) (hne : tx.spent ≠ []) :
    Safe U K (addTransaction c s tx).1 := by
  refine ⟨inv_addTransaction wf c hs.inv htx, ?_, ?_⟩
  all_goals
    unfold addTransaction
    split
    · first | exact hs.noK | exact hs.nonEmpty
    · intro id tx' hg
      simp only at hg
      rw [amGet_amSet] at hg
      by_cases e : id = tx.id
      · simp only [e, if_true, Option.some.injEq] at hg
        subst hg
        first | exact e ▸ hk | exact hne
      · simp only [e, if_false] at hg
        first | exact hs.noK id tx' hg | exact hs.nonEmpty id tx' hg

theorem removeOrphan_pool (s : Pool) (id : Nat) :
    (removeOrphan s id).pool = s.pool ∧ (removeOrphan s id).utxo = s.utxo := by
  unfold removeOrphan
  split <;> simp

theorem addRely_pool (s : Pool) (q : List Tx) (tx : Tx) :
    (addRely s q tx).1.pool = s.pool ∧ (addRely s q tx).1.utxo = s.utxo := by
  unfold addRely
  apply foldl_inv (fun (sq : Pool × List Tx) => sq.1.pool = s.pool ∧ sq.1.utxo = s.utxo)
  · exact ⟨rfl, rfl⟩
  · rintro ⟨s1, q1⟩ r _ h
    simp only
    cases amGet s1.byPrev r.1 with
    | none => exact h
    | some m => exact h

theorem addOrphan_pool (c : Cfg) (s : Pool) (tx : Tx) (now : Nat) (req : List Out) :
    (addOrphan c s tx now req).1.pool = s.pool ∧ (addOrphan c s tx now req).1.utxo = s.utxo := by
  unfold addOrphan
  split <;> simp

/-- `Safe` only looks at `pool`, `utxo` (and `Inv`) -/
theorem safe_of_fields {U : List Tx} {K : Nat → Prop} {s s' : Pool} (hs : Safe U K s) (hi : Inv U s')
    (hp : s'.pool = s.pool) : Safe U K s' :=
  ⟨hi, fun id tx h => hs.noK id tx (hp ▸ h), fun id tx h => hs.nonEmpty id tx (hp ▸ h)⟩

/-- elements of the promotion queue: universe members that spend something -/
def QOk (U : List Tx) (q : List Tx) : Prop := ∀ x ∈ q, x ∈ U ∧ x.spent ≠ []

theorem addRely_queue {U : List Tx} {s : Pool} (h : Inv U s) (q : List Tx) (hq : QOk U q) (tx : Tx) :
    QOk U (addRely s q tx).2 := by
  unfold addRely
  have := foldl_inv (fun (sq : Pool × List Tx) => Inv U sq.1 ∧ QOk U sq.2)
    (fun (sq : Pool × List Tx) r =>
      match amGet sq.1.byPrev r.1 with
      | none => sq
      | some m => ({ sq.1 with byPrev := amDel sq.1.byPrev r.1 }, sq.2 ++ m.map Prod.snd)) tx.results (s, q)
    ⟨h, hq⟩ ?_
  · exact this.2
  · rintro ⟨s1, q1⟩ r _ ⟨hI, hQ⟩
    simp only
    cases hb : amGet s1.byPrev r.1 with
    | none => exact ⟨hI, hQ⟩
    | some m =>
      simp only
      refine ⟨⟨hI.poolWF, hI.utxoSound, hI.utxoComplete, hI.orphWF, ?_⟩, ?_⟩
      · intro p m' hg
        simp only at hg
        rw [amGet_amDel] at hg
        by_cases e : p = r.1
        · simp [e] at hg
        · simp only [e, if_false] at hg; exact hI.index p m' hg
      · intro x hx
        rcases List.mem_append.mp hx with h1 | h1
        · exact hQ x h1
        · obtain ⟨e, he, hex⟩ := List.mem_map.mp h1
          have hgb := (hI.index r.1 m hb).2 e he
          obtain ⟨st, hst⟩ := hgb.2
          rw [← hex]
          refine ⟨(hI.orphWF e.1 _ hst).1, ?_⟩
          intro hnil
          have := hgb.1
          rw [hnil] at this
          cases this

theorem safe_processLoop {U : List Tx} (wf : WF U) (c : Cfg) {K : Nat → Prop} (hb : Blocked U c K) :
    ∀ (f : Nat) (s : Pool) (q : List Tx), Safe U K s → QOk U q → Safe U K (processLoop c f s q)
  | 0, _, _, h, _ => by unfold processLoop; exact h
  | _ + 1, _, [], h, _ => by unfold processLoop; exact h
  | f + 1, s, o :: q, h, hq => by
    unfold processLoop
    have ho := hq o (by simp)
    have hq' : QOk U q := fun x hx => hq x (List.mem_cons_of_mem _ hx)
    split
    · rename_i hreq
      have hnk : ¬ K o.id := by
        intro hk
        have := requireParents_ne_nil h hb ho.1 hk
        simp at hreq
        exact this hreq
      have hqU : ∀ x ∈ q, x ∈ U := fun x hx => (hq' x hx).1
      have h1 := inv_addRely h.inv q hqU o
      have hq1 := addRely_queue h.inv q hq' o
      have s1 : Safe U K (addRely s q o).1 := safe_of_fields h h1.1 (addRely_pool s q o).1
      have h2 := inv_removeOrphan h1.1 o.id
      have s2 : Safe U K (removeOrphan (addRely s q o).1 o.id) :=
        safe_of_fields s1 h2 (removeOrphan_pool _ _).1
      have s3 := safe_addTransaction wf c s2 ho.1 hnk ho.2
      exact safe_processLoop wf c hb f _ _ s3 hq1
    · exact safe_processLoop wf c hb f s q h hq'

theorem safe_processOrphans {U : List Tx} (wf : WF U) (c : Cfg) {K : Nat → Prop} (hb : Blocked U c K)
    {s : Pool} (h : Safe U K s) (tx : Tx) : Safe U K (processOrphans c s tx) := by
  unfold processOrphans
  have hq0 : QOk U [] := by intro x hx; cases hx
  have h1 := inv_addRely h.inv [] (by intro x hx; cases hx) tx
  have hq1 := addRely_queue h.inv [] hq0 tx
  exact safe_processLoop wf c hb _ _ _ (safe_of_fields h h1.1 (addRely_pool s [] tx).1) hq1

/-- **`Chain.ValidateTx` never pools a member of `K`.** -/
theorem safe_submit {U : List Tx} (wf : WF U) (c : Cfg) {K : Nat → Prop} (hb : Blocked U c K)
    {s : Pool} (h : Safe U K s) {tx : Tx} (htx : tx ∈ U) (hne : tx.spent ≠ []) (now : Nat) :
    Safe U K (submit c s tx now).1 := by
  unfold submit
  split
  · exact h
  · split
    · exact safe_of_fields h ⟨h.inv.poolWF, h.inv.utxoSound, h.inv.utxoComplete, h.inv.orphWF, h.inv.index⟩ rfl
    · unfold processTransaction
      simp only
      split
      · exact safe_of_fields h (inv_addOrphan wf c h.inv htx now _ (mem_requireParents c s tx))
          (addOrphan_pool c s tx now _).1
      · rename_i hreq
        have hnk : ¬ K tx.id := by
          intro hk
          have := requireParents_ne_nil h hb htx hk
          simp at hreq
          exact this hreq
        have s1 := safe_addTransaction wf c h htx hnk hne
        split
        · exact safe_processOrphans wf c hb s1 tx
        · exact s1

theorem safe_removeTransaction {U : List Tx} (wf : WF U) {K : Nat → Prop} {s : Pool} (h : Safe U K s) (id : Nat) :
    Safe U K (removeTransaction s id) := by
  refine ⟨inv_removeTransaction wf h.inv id, ?_, ?_⟩
  all_goals
    unfold removeTransaction
    split
    · first | exact h.noK | exact h.nonEmpty
    · intro t tx' hg
      simp only at hg
      rw [amGet_amDel] at hg
      by_cases e : t = id
      · simp [e] at hg
      · simp only [e, if_false] at hg
        first | exact h.noK t tx' hg | exact h.nonEmpty t tx' hg

/-- after `RemoveTransaction id` the id is not pooled -/
theorem removeTransaction_gone (s : Pool) (id : Nat) : amGet (removeTransaction s id).pool id = none := by
  unfold removeTransaction
  split
  · rename_i h; exact h
  · simp only; rw [amGet_amDel]; simp

/-- `RemoveTransaction` never adds a pool entry -/
theorem removeTransaction_sub (s : Pool) (id t : Nat) (tx : Tx)
    (h : amGet (removeTransaction s id).pool t = some tx) : amGet s.pool t = some tx ∧ t ≠ id := by
  unfold removeTransaction at h
  split at h
  · rename_i hn
    refine ⟨h, ?_⟩
    intro e; subst e; rw [hn] at h; cases h
  · simp only at h
    rw [amGet_amDel] at h
    by_cases e : t = id
    · simp [e] at h
    · simp only [e, if_false] at h; exact ⟨h, e⟩

/-- the other pool entries survive `RemoveTransaction` -/
theorem removeTransaction_keep (s : Pool) (id t : Nat) (hne : t ≠ id) :
    amGet (removeTransaction s id).pool t = amGet s.pool t := by
  unfold removeTransaction
  split
  · rfl
  · simp only; rw [amGet_amDel]; simp [hne]

/-- weaken the forbidden set -/
theorem Safe.mono {U : List Tx} {K K' : Nat → Prop} {s : Pool} (h : Safe U K s)
    (hk : ∀ id tx, amGet s.pool id = some tx → K' id → K id) : Safe U K' s :=
  ⟨h.inv, fun id tx hg hk' => h.noK id tx hg (hk id tx hg hk'), h.nonEmpty⟩

end BytomModel.Lemmas.PoolSafe
