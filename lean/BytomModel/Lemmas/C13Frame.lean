/-
C13, chain side: frame lemmas for `Model/Node.lean` — which fields of the node state
`ApplyBlock`, `saveBlock`, `saveSubBlock`, `tryReorganize`, `AuthVerification` and `restart` can
change.  The best block, the main-chain index and the chain status move only inside
`tryReorganize`, and there only along the attach list computed by `calcReorg`.
-/
import BytomModel.Model.NodeLedger

namespace BytomModel.Lemmas.C13
open BytomModel.Node

/-- `s'` differs from `s` at most in the casper part (checkpoint tree, persisted checkpoint
    records, posted verifications) -/
structure CasperOnly (s s' : State) : Prop where
  cfg : s'.cfg = s.cfg
  defs : s'.defs = s.defs
  headers : s'.headers = s.headers
  storeOrder : s'.storeOrder = s.storeOrder
  index : s'.index = s.index
  best : s'.best = s.best
  statusFin : s'.statusFin = s.statusFin
  orphans : s'.orphans = s.orphans
  prevOrphans : s'.prevOrphans = s.prevOrphans

theorem CasperOnly.refl (s : State) : CasperOnly s s := ⟨rfl, rfl, rfl, rfl, rfl, rfl, rfl, rfl, rfl⟩

theorem applyBlock_casperOnly (s : State) (b : Header) : CasperOnly s (s.applyBlock b).1 := by
  unfold State.applyBlock
  dsimp only
  repeat' split
  all_goals first | exact CasperOnly.refl _ | exact ⟨rfl, rfl, rfl, rfl, rfl, rfl, rfl, rfl, rfl⟩

/-- the chain-level fields (what `tryReorganize` writes) and the static tables are unchanged -/
structure ChainSame (s s' : State) : Prop where
  cfg : s'.cfg = s.cfg
  defs : s'.defs = s.defs
  index : s'.index = s.index
  best : s'.best = s.best
  statusFin : s'.statusFin = s.statusFin

theorem ChainSame.refl (s : State) : ChainSame s s := ⟨rfl, rfl, rfl, rfl, rfl⟩

theorem ChainSame.trans {a b c : State} (h1 : ChainSame a b) (h2 : ChainSame b c) : ChainSame a c :=
  ⟨h2.cfg.trans h1.cfg, h2.defs.trans h1.defs, h2.index.trans h1.index, h2.best.trans h1.best,
   h2.statusFin.trans h1.statusFin⟩

theorem CasperOnly.chainSame {s s' : State} (h : CasperOnly s s') : ChainSame s s' :=
  ⟨h.cfg, h.defs, h.index, h.best, h.statusFin⟩

theorem orphanDelete_chainSame (s : State) (i : Nat) : ChainSame s (s.orphanDelete i) := by
  unfold State.orphanDelete
  dsimp only
  repeat' split
  all_goals first | exact ChainSame.refl s | exact ⟨rfl, rfl, rfl, rfl, rfl⟩

theorem orphanDelete_headers (s : State) (i : Nat) : (s.orphanDelete i).headers = s.headers := by
  unfold State.orphanDelete
  dsimp only
  repeat' split
  all_goals rfl

theorem orphanAdd_chainSame (s : State) (b : Header) : ChainSame s (s.orphanAdd b) := by
  unfold State.orphanAdd
  split
  · exact ChainSame.refl s
  · exact ⟨rfl, rfl, rfl, rfl, rfl⟩

theorem orphanAdd_headers (s : State) (b : Header) : (s.orphanAdd b).headers = s.headers := by
  unfold State.orphanAdd
  split <;> rfl

/-- an empty orphan pool stays empty under `orphanDelete` -/
theorem orphanDelete_empty (s : State) (i : Nat) (h : s.orphans = []) : s.orphanDelete i = s := by
  unfold State.orphanDelete
  rw [h]
  rfl

/-! ### saveBlock -/

/-- the header `saveBlock` stores: the block with the sup links `ApplyBlock` left in it -/
def savedHeader (s : State) (b : Header) : Header := { b with sup := (s.applyBlock b).2.2 }

/-- what `saveBlock` does, case by case -/
theorem saveBlock_cases (s : State) (b : Header) :
    s.saveBlock b = (s, false) ∨
    ((s.applyBlock b).2.1 = false ∧ s.saveBlock b = ((s.applyBlock b).1, false)) ∨
    ((s.applyBlock b).2.1 = true ∧ (s.header b.parent).isSome = true ∧
      s.saveBlock b =
        (({ (s.applyBlock b).1 with
              headers := savedHeader s b :: (s.applyBlock b).1.headers.filter (fun h => h.id != b.id),
              storeOrder := if (s.applyBlock b).1.storeOrder.contains b.id then (s.applyBlock b).1.storeOrder
                            else (s.applyBlock b).1.storeOrder ++ [b.id] } : State).orphanDelete b.id, true)) := by
  unfold State.saveBlock
  dsimp only
  split
  · left; rfl
  · rename_i hp
    split
    · left; rfl
    · split
      · left; rfl
      · split
        · rename_i h; right; left; exact ⟨by simpa using h, rfl⟩
        · rename_i h; right; right; exact ⟨by simpa using h, by simp [hp], rfl⟩

theorem saveBlock_chainSame (s : State) (b : Header) : ChainSame s (s.saveBlock b).1 := by
  rcases saveBlock_cases s b with h | ⟨_, h⟩ | ⟨_, _, h⟩ <;> rw [h] <;> dsimp only
  · exact ChainSame.refl s
  · exact (applyBlock_casperOnly s b).chainSame
  · refine ChainSame.trans (applyBlock_casperOnly s b).chainSame (ChainSame.trans ?_ (orphanDelete_chainSame _ _))
    exact ⟨rfl, rfl, rfl, rfl, rfl⟩

/-- a refused `saveBlock` leaves the stored headers alone -/
theorem saveBlock_headers_of_fail (s : State) (b : Header) (hf : (s.saveBlock b).2 = false) :
    (s.saveBlock b).1.headers = s.headers := by
  rcases saveBlock_cases s b with h | ⟨_, h⟩ | ⟨_, _, h⟩ <;> rw [h] at hf ⊢ <;> dsimp only at hf ⊢
  · exact (applyBlock_casperOnly s b).headers
  · cases hf

/-- an accepted `saveBlock` stores exactly the block's header (replacing an older copy); the
    parent was stored -/
theorem saveBlock_headers_of_ok (s : State) (b : Header) (hok : (s.saveBlock b).2 = true) :
    (s.saveBlock b).1.headers = savedHeader s b :: s.headers.filter (fun h => h.id != b.id) ∧
    (s.header b.parent).isSome = true ∧ (s.applyBlock b).2.1 = true := by
  rcases saveBlock_cases s b with h | ⟨_, h⟩ | ⟨ha, hp, h⟩ <;> rw [h] at hok ⊢ <;> dsimp only at hok ⊢
  · cases hok
  · cases hok
  · refine ⟨?_, hp, ha⟩
    rw [orphanDelete_headers]
    simp only [(applyBlock_casperOnly s b).headers]

theorem saveBlock_orphans_empty (s : State) (b : Header) (h1 : s.orphans = []) (h2 : s.prevOrphans = []) :
    (s.saveBlock b).1.orphans = [] ∧ (s.saveBlock b).1.prevOrphans = [] := by
  have hc := applyBlock_casperOnly s b
  rcases saveBlock_cases s b with h | ⟨_, h⟩ | ⟨_, _, h⟩ <;> rw [h] <;> dsimp only
  · exact ⟨h1, h2⟩
  · exact ⟨hc.orphans.trans h1, hc.prevOrphans.trans h2⟩
  · have e : ∀ (x : State), x.orphans = [] → x.prevOrphans = [] →
        (x.orphanDelete b.id).orphans = [] ∧ (x.orphanDelete b.id).prevOrphans = [] :=
      fun x a c => by rw [orphanDelete_empty x _ a]; exact ⟨a, c⟩
    exact e _ (hc.orphans.trans h1) (hc.prevOrphans.trans h2)

/-! ### saveSubBlock -/

theorem foldl_chainSame {α : Type} (f : State → α → State) (hf : ∀ st a, ChainSame st (f st a)) :
    ∀ (l : List α) (s : State), ChainSame s (l.foldl f s)
  | [], s => ChainSame.refl s
  | a :: l, s => by
    rw [List.foldl_cons]
    exact ChainSame.trans (hf s a) (foldl_chainSame f hf l (f s a))

theorem saveSubBlock_chainSame : ∀ (fuel : Nat) (s : State) (id : Nat), ChainSame s (State.saveSubBlock fuel s id)
  | 0, s, _ => ChainSame.refl s
  | fuel + 1, s, id => by
    unfold State.saveSubBlock
    split
    · exact ChainSame.refl s
    · apply foldl_chainSame
      intro st o
      dsimp only
      split
      · exact ChainSame.refl st
      · rename_i ob _
        split
        · exact ChainSame.trans (saveBlock_chainSame st ob) (orphanDelete_chainSame _ _)
        · exact ChainSame.trans (saveBlock_chainSame st ob) (saveSubBlock_chainSame fuel _ o)

/-- nobody waits for `id`: `saveSubBlock` does nothing -/
theorem saveSubBlock_no_waiting (fuel : Nat) (s : State) (id : Nat) (h : s.prevOrphans = []) :
    State.saveSubBlock fuel s id = s := by
  cases fuel with
  | zero => rfl
  | succ f =>
    unfold State.saveSubBlock
    rw [h]
    rfl

/-! ### tryReorganize -/

/-- what `tryReorganize` does, case by case -/
theorem tryReorganize_cases (s : State) (bh : Nat) :
    (s.tryReorganize bh = (s, true) ∧ s.best = bh) ∨
    (s.tryReorganize bh = (s, false) ∧ s.best ≠ bh) ∨
    (∃ nb ob att det, s.best ≠ bh ∧ s.header bh = some nb ∧ s.header s.best = some ob ∧
      s.calcReorg (2 * s.fuel) nb ob [] [] = some (att, det) ∧
      s.tryReorganize bh =
        ({ s with index := att.foldl (fun ix h => alistSet ix h.height h.id) s.index, best := bh,
                  statusFin := s.tree.ckpt.hash }, true)) := by
  unfold State.tryReorganize
  by_cases hb : s.best = bh
  · left; simp [hb]
  · right
    have hb' : (s.best == bh) = false := by simpa using hb
    simp only [hb', Bool.false_eq_true, if_false]
    cases h1 : s.header bh with
    | none => left; exact ⟨rfl, hb⟩
    | some nb =>
      cases h2 : s.header s.best with
      | none => left; exact ⟨rfl, hb⟩
      | some ob =>
        simp only
        cases h3 : s.calcReorg (2 * s.fuel) nb ob [] [] with
        | none => left; exact ⟨rfl, hb⟩
        | some p =>
          obtain ⟨att, det⟩ := p
          right
          exact ⟨nb, ob, att, det, hb, rfl, rfl, h3, rfl⟩

theorem tryReorganize_headers (s : State) (bh : Nat) : (s.tryReorganize bh).1.headers = s.headers := by
  rcases tryReorganize_cases s bh with ⟨h, _⟩ | ⟨h, _⟩ | ⟨_, _, _, _, _, _, _, _, h⟩ <;> rw [h]

theorem tryReorganize_defs (s : State) (bh : Nat) : (s.tryReorganize bh).1.defs = s.defs := by
  rcases tryReorganize_cases s bh with ⟨h, _⟩ | ⟨h, _⟩ | ⟨_, _, _, _, _, _, _, _, h⟩ <;> rw [h]

theorem tryReorganize_orphans (s : State) (bh : Nat) :
    (s.tryReorganize bh).1.orphans = s.orphans ∧ (s.tryReorganize bh).1.prevOrphans = s.prevOrphans := by
  rcases tryReorganize_cases s bh with ⟨h, _⟩ | ⟨h, _⟩ | ⟨_, _, _, _, _, _, _, _, h⟩ <;> rw [h] <;> exact ⟨rfl, rfl⟩

/-- `calcReorg` reads the state only through its stored headers -/
theorem calcReorg_congr (s s' : State) (hh : s'.headers = s.headers) :
    ∀ (fuel : Nat) (a d : Header) (att det : List Header),
      s'.calcReorg fuel a d att det = s.calcReorg fuel a d att det
  | 0, _, _, _, _ => rfl
  | fuel + 1, a, d, att, det => by
    unfold State.calcReorg
    have hdr : ∀ i, s'.header i = s.header i := fun i => by simp only [State.header, hh]
    simp only [hdr]
    split
    · rfl
    · split
      · exact calcReorg_congr s s' hh fuel _ _ _ _
      · rfl

/-! ### the shape of a chain step: everything except one `tryReorganize` leaves the chain fields alone -/

/-- `post` is `mid` followed by at most one `tryReorganize`, and `mid` has the chain fields of `pre` -/
def ViaReorg (pre post : State) : Prop :=
  ∃ mid, ChainSame pre mid ∧ (post = mid ∨ ∃ bh, post = (mid.tryReorganize bh).1)

theorem processBlock_viaReorg (s : State) (b : Header) : ViaReorg s (s.processBlock b).1 := by
  unfold State.processBlock
  dsimp only
  repeat' split
  all_goals first
    | exact ⟨s, ChainSame.refl s, Or.inl rfl⟩
    | exact ⟨s.orphanAdd b, orphanAdd_chainSame s b, Or.inl rfl⟩
    | exact ⟨(s.saveBlock b).1, saveBlock_chainSame s b, Or.inl rfl⟩
    | exact ⟨State.saveSubBlock (s.saveBlock b).1.fuel (s.saveBlock b).1 b.id,
        ChainSame.trans (saveBlock_chainSame s b) (saveSubBlock_chainSame _ _ _), Or.inr ⟨_, rfl⟩⟩

theorem authVerification_viaReorg (s : State) (order src tgt : Nat) (sigOk : Bool) :
    ViaReorg s (s.authVerification order src tgt sigOk).1 := by
  unfold State.authVerification
  dsimp only
  repeat' split
  all_goals first
    | exact ⟨s, ChainSame.refl s, Or.inl rfl⟩
    | (refine ⟨_, ?_, Or.inl rfl⟩; exact ⟨rfl, rfl, rfl, rfl, rfl⟩)
    | (refine ⟨_, ?_, Or.inr ⟨_, rfl⟩⟩; exact ⟨rfl, rfl, rfl, rfl, rfl⟩)

theorem authVerification_orphans (s : State) (order src tgt : Nat) (sigOk : Bool) :
    (s.authVerification order src tgt sigOk).1.orphans = s.orphans ∧
    (s.authVerification order src tgt sigOk).1.prevOrphans = s.prevOrphans := by
  unfold State.authVerification
  dsimp only
  repeat' split
  all_goals first
    | exact ⟨rfl, rfl⟩
    | exact tryReorganize_orphans _ _

theorem applyBlock_after (s x : State) (bh : Header) (hx : ChainSame s x) (hh : x.headers = s.headers)
    (ho : x.orphans = []) (hp : x.prevOrphans = []) :
    ChainSame s (x.applyBlock bh).1 ∧ (x.applyBlock bh).1.headers = s.headers ∧
    (x.applyBlock bh).1.orphans = [] ∧ (x.applyBlock bh).1.prevOrphans = [] := by
  have hc := applyBlock_casperOnly x bh
  exact ⟨ChainSame.trans hx hc.chainSame, hc.headers.trans hh, hc.orphans.trans ho, hc.prevOrphans.trans hp⟩

/-- `NewChain` on the stored data keeps the chain fields and the stored headers; the orphan pool
    (memory only) is empty afterwards -/
theorem restart_frame (s s' : State) (h : s.restart = some s') :
    ChainSame s s' ∧ s'.headers = s.headers ∧ s'.orphans = [] ∧ s'.prevOrphans = [] := by
  unfold State.restart at h
  dsimp only at h
  repeat' split at h
  all_goals first
    | (cases h; done)
    | skip
  all_goals
    injection h with h
    subst h
    first
      | exact ⟨⟨rfl, rfl, rfl, rfl, rfl⟩, rfl, rfl, rfl⟩
      | exact applyBlock_after s _ _ ⟨rfl, rfl, rfl, rfl, rfl⟩ rfl rfl rfl

end BytomModel.Lemmas.C13
