/-
`ConvertBits` as positional arithmetic.  The per-byte behaviour of the inner loop is proved for
symbolic input byte and accumulator, by cases on the number of pending bits only (5 cases for
8→5, 8 for 5→8: the loop's control flow depends on nothing else), and lifted to inputs of any
length by the lemmas below:
the output digits (base 2^to), followed by the `filled` pending bits, are the input digits
(base 2^from) read as one binary number.
-/
import BytomModel.Model.Bech32
import Mathlib.Tactic.Linarith
import Mathlib.Tactic.Ring
import Mathlib.Tactic.IntervalCases

namespace BytomModel.Lemmas.ConvertBits
open BytomModel.Bech32

/-- value of a digit list in base `2^t`, most significant first -/
def val (t : Nat) (l : List Nat) : Nat := l.foldl (fun a d => a * 2 ^ t + d) 0

theorem val_foldl (t : Nat) (l : List Nat) (a : Nat) :
    l.foldl (fun a d => a * 2 ^ t + d) a = a * (2 ^ t) ^ l.length + val t l := by
  induction l generalizing a with
  | nil => simp [val]
  | cons d l ih =>
    simp only [List.foldl_cons, List.length_cons, val]
    rw [ih, ih (0 * 2 ^ t + d)]
    ring

theorem val_append (t : Nat) (a b : List Nat) : val t (a ++ b) = val t a * (2 ^ t) ^ b.length + val t b := by
  unfold val
  rw [List.foldl_append, val_foldl]
  rfl

theorem val_cons (t d : Nat) (l : List Nat) : val t (d :: l) = d * (2 ^ t) ^ l.length + val t l := by
  unfold val
  rw [List.foldl_cons, val_foldl]
  simp [val]

theorem val_lt (t : Nat) : ∀ (l : List Nat), (∀ d ∈ l, d < 2 ^ t) → val t l < (2 ^ t) ^ l.length
  | [], _ => by simp [val]
  | d :: l, h => by
    rw [val_cons, List.length_cons, Nat.pow_succ]
    have h1 := val_lt t l (fun x hx => h x (by simp [hx]))
    have h2 : d < 2 ^ t := h d (by simp)
    generalize (2 ^ t) ^ l.length = P at h1 ⊢
    generalize 2 ^ t = B at h2 ⊢
    have : (d + 1) * P ≤ B * P := Nat.mul_le_mul_right _ h2
    nlinarith

/-- digit lists of equal length with digits below the base and equal value are equal -/
theorem val_inj (t : Nat) : ∀ (a b : List Nat), a.length = b.length → (∀ d ∈ a, d < 2 ^ t) →
    (∀ d ∈ b, d < 2 ^ t) → val t a = val t b → a = b
  | [], [], _, _, _, _ => rfl
  | [], _ :: _, h, _, _, _ => by simp at h
  | _ :: _, [], h, _, _, _ => by simp at h
  | x :: a, y :: b, hl, ha, hb, hv => by
    have hl' : a.length = b.length := by simpa using hl
    rw [val_cons, val_cons, hl'] at hv
    have h1 := val_lt t a (fun d hd => ha d (by simp [hd]))
    have h2 := val_lt t b (fun d hd => hb d (by simp [hd]))
    rw [hl'] at h1
    generalize (2 ^ t) ^ b.length = P at hv h1 h2
    have hxy : x = y := by
      have e1 : (x * P + val t a) / P = x := by
        rw [Nat.mul_comm, Nat.mul_add_div (by omega), Nat.div_eq_of_lt h1]; rfl
      have e2 : (y * P + val t b) / P = y := by
        rw [Nat.mul_comm, Nat.mul_add_div (by omega), Nat.div_eq_of_lt h2]; rfl
      rw [← e1, ← e2, hv]
    subst hxy
    have hv' : val t a = val t b := Nat.add_left_cancel hv
    rw [val_inj t a b hl' (fun d hd => ha d (by simp [hd])) (fun d hd => hb d (by simp [hd])) hv']

/-! ### the inner loop appends to the output -/

theorem cbIter_out (t b rem : Nat) (st : CB) :
    cbIter t b rem st =
      ((cbIter t b rem ⟨st.next, st.filled, []⟩).1, (cbIter t b rem ⟨st.next, st.filled, []⟩).2.1,
        ⟨(cbIter t b rem ⟨st.next, st.filled, []⟩).2.2.next, (cbIter t b rem ⟨st.next, st.filled, []⟩).2.2.filled,
          st.out ++ (cbIter t b rem ⟨st.next, st.filled, []⟩).2.2.out⟩) := by
  unfold cbIter
  simp only
  generalize (if t - st.filled < rem then t - st.filled else rem) = ex
  by_cases h : st.filled + ex = t <;> simp [h]

theorem cbInner_out (t : Nat) : ∀ (fuel b rem : Nat) (st : CB),
    cbInner t fuel b rem st =
      ⟨(cbInner t fuel b rem ⟨st.next, st.filled, []⟩).next, (cbInner t fuel b rem ⟨st.next, st.filled, []⟩).filled,
        st.out ++ (cbInner t fuel b rem ⟨st.next, st.filled, []⟩).out⟩ := by
  intro fuel
  induction fuel with
  | zero => intro b rem st; simp [cbInner]
  | succ n ih =>
    intro b rem st
    rw [cbInner, cbInner]
    by_cases hr : rem = 0
    · simp [hr]
    · simp only [hr, if_false]
      rw [cbIter_out t b rem st]
      generalize cbIter t b rem ⟨st.next, st.filled, []⟩ = r
      simp only
      rw [ih r.1 r.2.1 ⟨r.2.2.next, r.2.2.filled, st.out ++ r.2.2.out⟩, ih r.1 r.2.1 r.2.2]
      simp

theorem cbByte_out (f t : Nat) (st : CB) (b : Nat) :
    cbByte f t st b =
      ⟨(cbByte f t ⟨st.next, st.filled, []⟩ b).next, (cbByte f t ⟨st.next, st.filled, []⟩ b).filled,
        st.out ++ (cbByte f t ⟨st.next, st.filled, []⟩ b).out⟩ := by
  unfold cbByte; exact cbInner_out t 8 _ f st

/-! ### what one input byte does to the accumulator -/

theorem or_eq_add (x y k : Nat) (hk : k ≤ 8) (hy : y < 2 ^ k) : (x <<< k) % 256 ||| y = (x <<< k) % 256 + y := by
  have e : (x <<< k) % 256 = ((x % 2 ^ (8 - k)) <<< k) := by
    rw [Nat.shiftLeft_eq, Nat.shiftLeft_eq]
    have : (256 : Nat) = 2 ^ (8 - k) * 2 ^ k := by
      rw [← Nat.pow_add]
      have : 8 - k + k = 8 := by omega
      rw [this]
    rw [this, Nat.mul_mod_mul_right]
  rw [e]
  exact (Nat.shiftLeft_add_eq_or_of_lt hy _).symm

/-- the only `|` of the loop that joins two non-zero operands: old pending bits shifted left by
    `k`, new bits are the top `k` bits of a byte -/
theorem or_eq_add' (x c j k : Nat) (hjk : j + k = 8) :
    (x <<< k) % 256 ||| ((c % 256) >>> j) = (x <<< k) % 256 + (c % 256) >>> j := by
  apply or_eq_add _ _ _ (by omega)
  rw [Nat.shiftRight_eq_div_pow]
  have h : c % 256 < 2 ^ j * 2 ^ k := by
    rw [← Nat.pow_add, hjk]; exact Nat.mod_lt _ (by decide)
  exact Nat.div_lt_of_lt_mul h

/-- the effect of one input byte `b` (of `f` bits) on an accumulator holding `filled` pending
    bits `next`: emitted digits and new pending bits are the old pending bits followed by `b` -/
def ByteSpec (f t b filled next : Nat) : Prop :=
  val t (cbByte f t ⟨next, filled, []⟩ b).out * 2 ^ (cbByte f t ⟨next, filled, []⟩ b).filled
      + (cbByte f t ⟨next, filled, []⟩ b).next = next * 2 ^ f + b ∧
  (cbByte f t ⟨next, filled, []⟩ b).out.length * t + (cbByte f t ⟨next, filled, []⟩ b).filled = filled + f ∧
  (cbByte f t ⟨next, filled, []⟩ b).filled < t ∧
  (cbByte f t ⟨next, filled, []⟩ b).next < 2 ^ (cbByte f t ⟨next, filled, []⟩ b).filled ∧
  ∀ d ∈ (cbByte f t ⟨next, filled, []⟩ b).out, d < 2 ^ t

def TableOK (f t : Nat) : Prop :=
  ∀ b filled next, b < 2 ^ f → filled < t → next < 2 ^ filled → ByteSpec f t b filled next

theorem table_8_5 : TableOK 8 5 := by
  intro b filled next hb hf hn
  unfold ByteSpec
  interval_cases filled <;>
    simp [cbByte, cbInner, cbIter] <;>
    simp (disch := decide) only [or_eq_add'] <;>
    simp only [val, List.foldl, Nat.shiftLeft_eq, Nat.shiftRight_eq_div_pow] <;>
    omega

theorem table_5_8 : TableOK 5 8 := by
  intro b filled next hb hf hn
  unfold ByteSpec
  interval_cases filled <;>
    simp [cbByte, cbInner, cbIter] <;>
    simp (disch := decide) only [or_eq_add'] <;>
    simp only [val, List.foldl, Nat.shiftLeft_eq, Nat.shiftRight_eq_div_pow] <;>
    omega

/-! ### the fold over the input -/

/-- the accumulator invariant after a prefix `data` of the input -/
structure Inv (f t : Nat) (data : List Nat) (st : CB) : Prop where
  value : val t st.out * 2 ^ st.filled + st.next = val f data
  count : st.out.length * t + st.filled = data.length * f
  filled_lt : st.filled < t
  next_lt : st.next < 2 ^ st.filled
  digits : ∀ d ∈ st.out, d < 2 ^ t

theorem inv_step {f t : Nat} (htab : TableOK f t) (data : List Nat) (st : CB) (b : Nat)
    (hb : b < 2 ^ f) (inv : Inv f t data st) : Inv f t (data ++ [b]) (cbByte f t st b) := by
  have hok := htab b st.filled st.next hb inv.filled_lt inv.next_lt
  rw [cbByte_out]
  unfold ByteSpec at hok
  generalize cbByte f t ⟨st.next, st.filled, []⟩ b = r at hok
  obtain ⟨hv, hc, hfl, hnl, hd⟩ := hok
  constructor
  · -- value
    simp only
    rw [val_append, val_append]
    simp only [List.length_cons, List.length_nil, val, List.foldl_cons, List.foldl_nil, Nat.pow_one,
      Nat.zero_mul, Nat.zero_add]
    have hv0 := inv.value
    simp only [val] at hv hv0
    rw [← hv0]
    -- (A * (2^t)^k + R) * 2^rf + rn = (A * 2^fl + nx) * 2^f + b,  with (2^t)^k * 2^rf = 2^fl * 2^f
    have hpow : (2 ^ t) ^ r.out.length * 2 ^ r.filled = 2 ^ st.filled * 2 ^ f := by
      rw [← Nat.pow_mul, ← Nat.pow_add, ← Nat.pow_add, Nat.mul_comm t, hc]
    generalize List.foldl (fun a d => a * 2 ^ t + d) 0 st.out = A at *
    generalize List.foldl (fun a d => a * 2 ^ t + d) 0 r.out = R at *
    calc (A * (2 ^ t) ^ r.out.length + R) * 2 ^ r.filled + r.next
        = A * ((2 ^ t) ^ r.out.length * 2 ^ r.filled) + (R * 2 ^ r.filled + r.next) := by ring
      _ = A * (2 ^ st.filled * 2 ^ f) + (st.next * 2 ^ f + b) := by rw [hpow, hv]
      _ = (A * 2 ^ st.filled + st.next) * 2 ^ f + b := by ring
  · simp only [List.length_append, List.length_cons, List.length_nil]
    have := inv.count
    rw [Nat.add_mul, Nat.add_mul]
    omega
  · exact hfl
  · exact hnl
  · intro d hd'
    rcases List.mem_append.mp hd' with h1 | h1
    · exact inv.digits d h1
    · exact hd d h1

theorem inv_fold {f t : Nat} (htab : TableOK f t) : ∀ (rest data : List Nat) (st : CB),
    (∀ b ∈ rest, b < 2 ^ f) → Inv f t data st → Inv f t (data ++ rest) (rest.foldl (cbByte f t) st)
  | [], data, st, _, inv => by simpa using inv
  | b :: rest, data, st, hr, inv => by
    have := inv_fold htab rest (data ++ [b]) (cbByte f t st b) (fun x hx => hr x (by simp [hx]))
      (inv_step htab data st b (hr b (by simp)) inv)
    simpa using this

theorem inv_init (f t : Nat) (ht : 0 < t) : Inv f t [] ⟨0, 0, []⟩ :=
  ⟨by simp [val], by simp, ht, by simp, by simp⟩

/-! ### the address round trip: 8 → 5 with padding, then 5 → 8 without -/

/-- **`ConvertBits(·, 5, 8, false) ∘ ConvertBits(·, 8, 5, true)` is the identity** on byte
    strings of any length. -/
theorem convertBits_8_5_8 (data : List Nat) (hd : ∀ b ∈ data, b < 256) :
    ∃ mid, convertBits data 8 5 true = .ok mid ∧ (∀ d ∈ mid, d < 32) ∧
      mid.length * 5 < data.length * 8 + 5 ∧ data.length * 8 ≤ mid.length * 5 ∧
      convertBits mid 5 8 false = .ok data := by
  have i1 := inv_fold table_8_5 data [] ⟨0, 0, []⟩ (by simpa using hd) (inv_init 8 5 (by decide))
  simp only [List.nil_append] at i1
  generalize hst : data.foldl (cbByte 8 5) ⟨0, 0, []⟩ = st at i1
  obtain ⟨hv1, hc1, hf1, hn1, hdg1⟩ := i1
  -- the padded output
  let mid : List Nat := if st.filled > 0 then st.out ++ [(st.next <<< (5 - st.filled)) % 256] else st.out
  have hmid : convertBits data 8 5 true = .ok mid := by
    unfold convertBits
    simp only [hst, mid]
    by_cases h0 : st.filled > 0
    · simp [h0]
    · have : st.filled = 0 := by omega
      simp [this]
  -- pad amount
  let p : Nat := if st.filled > 0 then 5 - st.filled else 0
  have hp : p < 5 := by simp only [p]; split <;> omega
  have hmv : val 5 mid = val 8 data * 2 ^ p ∧ mid.length * 5 = data.length * 8 + p ∧ ∀ d ∈ mid, d < 32 := by
    simp only [mid, p]
    by_cases h0 : st.filled > 0
    · simp only [h0, if_true]
      have hsh : (st.next <<< (5 - st.filled)) % 256 = st.next * 2 ^ (5 - st.filled) := by
        rw [Nat.shiftLeft_eq]
        apply Nat.mod_eq_of_lt
        have : st.next * 2 ^ (5 - st.filled) < 2 ^ st.filled * 2 ^ (5 - st.filled) :=
          Nat.mul_lt_mul_of_pos_right hn1 (Nat.two_pow_pos _)
        rw [← Nat.pow_add] at this
        have e : st.filled + (5 - st.filled) = 5 := by omega
        rw [e] at this; omega
      refine ⟨?_, ?_, ?_⟩
      · rw [val_append, hsh]
        simp only [List.length_cons, List.length_nil, val, List.foldl_cons, List.foldl_nil, Nat.pow_one,
          Nat.zero_mul, Nat.zero_add]
        simp only [val] at hv1
        rw [← hv1]
        have e : (2 : Nat) ^ 5 = 2 ^ st.filled * 2 ^ (5 - st.filled) := by
          rw [← Nat.pow_add]; congr 1; omega
        rw [e]; ring
      · simp only [List.length_append, List.length_cons, List.length_nil]; omega
      · intro d hd'
        rcases List.mem_append.mp hd' with h1 | h1
        · exact hdg1 d h1
        · simp only [List.mem_singleton] at h1
          rw [h1, hsh]
          have : st.next * 2 ^ (5 - st.filled) < 2 ^ st.filled * 2 ^ (5 - st.filled) :=
            Nat.mul_lt_mul_of_pos_right hn1 (Nat.two_pow_pos _)
          rw [← Nat.pow_add] at this
          have e : st.filled + (5 - st.filled) = 5 := by omega
          rw [e] at this; exact this
    · have h00 : st.filled = 0 := by omega
      simp only [h0, if_false]
      rw [h00] at hv1 hc1 hn1
      have : st.next = 0 := by simpa using hn1
      refine ⟨?_, ?_, hdg1⟩
      · rw [← hv1, this]; simp
      · omega
  obtain ⟨hmval, hmlen, hmdig⟩ := hmv
  refine ⟨mid, hmid, hmdig, by omega, by omega, ?_⟩
  -- second conversion
  have i2 := inv_fold table_5_8 mid [] ⟨0, 0, []⟩ (by simpa using hmdig) (inv_init 5 8 (by decide))
  simp only [List.nil_append] at i2
  generalize hst2 : mid.foldl (cbByte 5 8) ⟨0, 0, []⟩ = st2 at i2
  obtain ⟨hv2, hc2, hf2, hn2, hdg2⟩ := i2
  have hfp : st2.filled = p ∧ st2.out.length = data.length := by omega
  obtain ⟨hfp, hol⟩ := hfp
  rw [hmval, hfp] at hv2
  rw [hfp] at hn2
  -- next = 0 and the values agree
  have hpp : 0 < 2 ^ p := Nat.two_pow_pos p
  have hnx : st2.next = 0 := by
    have h1 := congrArg (· % 2 ^ p) hv2
    simp only [Nat.mul_add_mod_self_right, Nat.mul_mod_left] at h1
    rwa [Nat.mod_eq_of_lt hn2] at h1
  have hval : val 8 st2.out = val 8 data := by
    rw [hnx, Nat.add_zero] at hv2
    exact Nat.eq_of_mul_eq_mul_right hpp hv2
  have hout : st2.out = data :=
    val_inj 8 st2.out data hol hdg2 (by simpa using hd) hval
  unfold convertBits
  simp only [hst2]
  have hnerr : ¬ (st2.filled > 0 ∧ (st2.filled > 4 ∨ st2.next ≠ 0)) := by
    rw [hnx]; omega
  simp [hnerr, hout]

end BytomModel.Lemmas.ConvertBits
