/-
C37 — under the invariant no set of threads is deadlocked: every stuck thread has a provider
with a strictly smaller measure (lock rank first, then the level in the client/server hierarchy).
-/
import BytomModel.Lemmas.SyncSkelStep

namespace BytomModel.SyncSkel

variable {S : Sys} {A : Ann}

/-- the measure of a waiting thread: waiting for a mutex of a higher rank is smaller; an
    announced writer (waiting for the readers to drain) is smaller than the threads waiting for
    it; everything that waits for a mutex is smaller than everything that waits for a channel;
    among the latter the level decides -/
def mu (A : Ann) (t : Thread) : Nat :=
  match t.prog with
  | .act (.lock m) :: _ => 2 * (A.maxRank - A.rank m) + (if t.pw = some m then 0 else 1)
  | .act (.rlock m) :: _ => 2 * (A.maxRank - A.rank m) + 1
  | _ => 2 * A.maxRank + 2 + t.lvl

theorem mu_le (A : Ann) (t : Thread) : mu A t ≤ 2 * A.maxRank + 2 + t.lvl := by
  unfold mu
  split
  · split <;> omega
  · omega
  · omega

theorem blocked_stepT {c : Config} {i : Nat} {t : Thread} (hi : c.threads[i]? = some t)
    (hb : Blocked S c i) : ∀ n p, stepT S c i n p t = none := by
  intro n p
  obtain ⟨t', ht', _, hall⟩ := hb
  have := hall n p
  unfold step at this
  rw [hi] at this
  exact this

theorem mem_get {c : Config} {f : Thread → Bool} (h : c.threads.any f = true) :
    ∃ (j : Nat) (u : Thread), c.threads[j]? = some u ∧ f u = true := by
  obtain ⟨u, hu, hf⟩ := List.any_eq_true.1 h
  obtain ⟨j, hj⟩ := List.mem_iff_getElem?.1 hu
  exact ⟨j, u, hj, hf⟩

/-- a stuck thread that holds a mutex waits for a mutex of a higher rank -/
theorem held_stuck {spec : Option (List (List Stmt))} {c : Config} {j : Nat} {u : Thread} {m : Mutex} {md : Mode}
    (hj : c.threads[j]? = some u) (htok : TOK S A spec u) (hm : (m, md) ∈ u.held) (hb : Blocked S c j) :
    mu A u + 1 < 2 * (A.maxRank - A.rank m) + 1 ∧ A.rank m < A.maxRank := by
  have hblk := blocked_stepT hj hb
  obtain ⟨_, ht', hne, _⟩ := hb
  rw [hj] at ht'; cases ht'
  cases hp : u.prog with
  | nil => exact absurd hp hne
  | cons s k =>
    rcases tok_head htok hp with ⟨X', σ', _, hc, _⟩ | ⟨hh, _, _⟩ | ⟨_, _, _, _, hh, _⟩
    · cases s with
      | call f => have := hblk 0 0; simp [stepT, hp] at this
      | go f => have := hblk 0 0; simp [stepT, hp] at this
      | alt bs =>
        obtain ⟨_, hne', _⟩ := chkS_alt hc
        cases bs with
        | nil => exact absurd rfl hne'
        | cons b rest => have := hblk 0 0; simp [stepT, hp] at this
      | loop inf b => have := hblk 1 0; simp [stepT, hp] at this
      | sel arms => exact absurd hc chkS_sel
      | act a =>
        rw [chkS_act] at hc
        cases a with
        | lock m' =>
          simp only [chkA] at hc
          split at hc
          · rename_i hcond
            have hr := hcond.2
            simp only [rankOK, Bool.and_eq_true, List.all_eq_true, decide_eq_true_eq] at hr
            have h1 := hr.1 (m, md) hm
            have h2 := hr.2
            dsimp only at h1
            simp only [mu, hp]
            constructor
            · split <;> omega
            · omega
          · cases hc
        | rlock m' =>
          simp only [chkA] at hc
          split at hc
          · rename_i hcond
            have hr := hcond.2
            simp only [rankOK, Bool.and_eq_true, List.all_eq_true, decide_eq_true_eq] at hr
            have h1 := hr.1 (m, md) hm
            have h2 := hr.2
            dsimp only at h1
            simp only [mu, hp]
            constructor <;> omega
          · cases hc
        | unlock m' =>
          simp only [chkA] at hc
          split at hc
          · rename_i hcond
            have := hblk 0 0
            simp [stepT, hp] at this
            have h2 := hcond.2
            simp at h2
            exact absurd h2 this
          · cases hc
        | runlock m' =>
          simp only [chkA] at hc
          split at hc
          · rename_i hcond
            have := hblk 0 0
            simp [stepT, hp] at this
            have h2 := hcond.2
            simp at h2
            exact absurd h2 this
          · cases hc
        | wait m' =>
          simp only [chkA] at hc
          split at hc
          · rename_i hcond
            have := hblk 0 0
            simp [stepT, hp, hcond.2.1] at this
          · cases hc
        | signal m' => have := hblk 0 0; simp [stepT, hp] at this
        | sendFresh cap =>
          simp only [chkA] at hc
          split at hc
          · rename_i hcond
            have := hblk 0 0
            simp [stepT, hp, hcond.2] at this
          · cases hc
        | send ch =>
          simp only [chkA] at hc
          split at hc
          · rename_i hcond
            have := hcond.2.1
            rw [this] at hm; cases hm
          · cases hc
        | recvReply r =>
          simp only [chkA] at hc
          split at hc
          · rename_i hcond
            have := hcond.2
            rw [this] at hm; cases hm
          · cases hc
        | recv ch => simp [chkA] at hc
        | sendReply r => simp [chkA] at hc
    · rw [hh] at hm; cases hm
    · rw [hh] at hm; cases hm

theorem headIsRecv_eq {ch : Chan} {arm : List Stmt} (h : headIsRecv ch arm = true) :
    ∃ rest, arm = .act (.recv ch) :: rest := by
  unfold headIsRecv at h
  split at h
  · rename_i c rest
    simp only [beq_iff_eq] at h
    subst h
    exact ⟨rest, rfl⟩
  · cases h

/-- the daemon that serves a channel is there, returns to its select forever, and has the
    channel's level -/
theorem server_of {c : Config} (hinv : Inv S A c.threads) {ch : Chan} (hsrv : hasServer S A ch = true) :
    ∃ (j : Nat) (u : Thread), c.threads[j]? = some u ∧ Serves u ch ∧ u.lvl = A.lvl ch := by
  unfold hasServer at hsrv
  split at hsrv
  · rename_i d hd
    simp only [Bool.and_eq_true, beq_iff_eq] at hsrv
    obtain ⟨_, hbody⟩ := hsrv
    split at hbody
    · rename_i arms hb
      obtain ⟨arm, harm, hhead⟩ := List.any_eq_true.1 hbody
      obtain ⟨rest, rfl⟩ := headIsRecv_eq hhead
      have hjlt : A.srv ch < c.threads.length :=
        Nat.lt_of_lt_of_le (List.getElem?_eq_some_iff.1 hd).1 hinv.nd
      have hj : c.threads[A.srv ch]? = some c.threads[A.srv ch] := List.getElem?_eq_getElem hjlt
      have htok := hinv.tok _ _ hj
      have hspec : specOf S (A.srv ch) = some arms := by
        simp only [specOf, hd, daemonArms, hb]
      rw [hspec] at htok
      have hok : armOK S A (c.threads[A.srv ch]).lvl (.act (.recv ch) :: rest) = true :=
        List.all_eq_true.1 (htok.arms_ok arms rfl) _ harm
      refine ⟨A.srv ch, _, hj, ?_, (armOK_recv hok).1.symm⟩
      rcases htok.shape with ⟨X, hX, _⟩ | ⟨arms', ha, hpr, _⟩
      · refine ⟨X ++ replyPart (c.threads[A.srv ch]).peer, arms, rest, ?_, harm⟩
        rw [hX]; simp [tailOf]
      · cases ha
        exact ⟨[.sel arms], arms, rest, by rw [hpr]; rfl, harm⟩
    · cases hbody
  · cases hsrv

/-- **the key lemma**: under the invariant a stuck thread has a provider that is not stuck or is
    strictly smaller in the measure -/
theorem stuck_provider {c : Config} (hinv : Inv S A c.threads) {i : Nat} {t : Thread}
    (hi : c.threads[i]? = some t) (hstuck : Stuck S c i) :
    ∃ (j : Nat) (u : Thread), c.threads[j]? = some u ∧ Provider c i j ∧ (Blocked S c j → mu A u < mu A t) := by
  obtain ⟨hb, hnsel⟩ := hstuck
  have hblk := blocked_stepT hi hb
  have htok := hinv.tok i t hi
  obtain ⟨_, ht', hne, _⟩ := hb
  rw [hi] at ht'; cases ht'
  cases hp : t.prog with
  | nil => exact absurd hp hne
  | cons s k =>
    -- a provider among the lock holders
    have lockCase : ∀ (m : Mutex) (j : Nat) (u : Thread), c.threads[j]? = some u →
        ((m, Mode.W) ∈ u.held ∨ (m, Mode.R) ∈ u.held ∨ (u.pw = some m ∧ t.pw ≠ some m)) →
        (s = .act (.lock m) ∨ s = .act (.rlock m)) →
        (Blocked S c j → mu A u < mu A t) := by
      intro m j u hj hheld hs hbj
      have htoku := hinv.tok j u hj
      have hmt : 2 * (A.maxRank - A.rank m) ≤ mu A t ∧ (t.pw ≠ some m → 2 * (A.maxRank - A.rank m) + 1 ≤ mu A t) := by
        rcases hs with rfl | rfl
        · simp only [mu, hp]
          constructor
          · omega
          · intro h; rw [if_neg h]; omega
        · simp only [mu, hp]
          constructor <;> (try intro _) <;> omega
      rcases hheld with h | h | ⟨h, hn⟩
      · have := (held_stuck hj htoku h hbj).1; omega
      · have := (held_stuck hj htoku h hbj).1; omega
      · obtain ⟨k', hk'⟩ := htoku.pw_ok m h
        have : mu A u = 2 * (A.maxRank - A.rank m) := by simp [mu, hk', h]
        have := hmt.2 hn
        omega
    -- a provider that serves a channel of a lower level
    have chanCase : ∀ (ch : Chan), hasServer S A ch = true → A.lvl ch < t.lvl →
        mu A t = 2 * A.maxRank + 2 + t.lvl →
        ∃ (j : Nat) (u : Thread), c.threads[j]? = some u ∧ Serves u ch ∧ mu A u < mu A t := by
      intro ch hsrv hlv hmu
      obtain ⟨j, u, hj, hserves, hul⟩ := server_of hinv hsrv
      refine ⟨j, u, hj, hserves, ?_⟩
      have := mu_le A u
      omega
    rcases tok_head htok hp with ⟨X', σ', _, hc, _⟩ | ⟨hheld, hst, h'⟩ | ⟨arms, _, hsel, _⟩
    · cases s with
      | call f => have := hblk 0 0; simp [stepT, hp] at this
      | go f => have := hblk 0 0; simp [stepT, hp] at this
      | alt bs =>
        obtain ⟨_, hne', _⟩ := chkS_alt hc
        cases bs with
        | nil => exact absurd rfl hne'
        | cons b rest => have := hblk 0 0; simp [stepT, hp] at this
      | loop inf b => have := hblk 1 0; simp [stepT, hp] at this
      | sel arms => exact absurd hc chkS_sel
      | act a =>
        rw [chkS_act] at hc
        cases a with
        | lock m =>
          have h0 := hblk 0 0
          simp only [stepT, hp] at h0
          by_cases hpw : t.pw = some m
          · rw [if_pos hpw] at h0
            split at h0
            · rename_i hh
              obtain ⟨j, u, hj, hu⟩ := mem_get hh
              simp only [Bool.or_eq_true, List.contains_iff_mem] at hu
              refine ⟨j, u, hj, ⟨t, u, hi, hj, ?_⟩, ?_⟩
              · rw [hp]; dsimp only; rw [if_pos hpw]; exact hu.symm
              · exact lockCase m j u hj (by rcases hu with h | h; exact Or.inl h; exact Or.inr (Or.inl h)) (Or.inl rfl)
            · cases h0
          · rw [if_neg hpw] at h0
            split at h0
            · rename_i hh
              simp only [Bool.or_eq_true] at hh
              have : ∃ (j : Nat) (u : Thread), c.threads[j]? = some u ∧ ((m, Mode.W) ∈ u.held ∨ u.pw = some m) := by
                rcases hh with hh | hh
                · obtain ⟨j, u, hj, hu⟩ := mem_get hh
                  exact ⟨j, u, hj, Or.inl (by simpa using hu)⟩
                · obtain ⟨j, u, hj, hu⟩ := mem_get hh
                  exact ⟨j, u, hj, Or.inr (by simpa using hu)⟩
              obtain ⟨j, u, hj, hu⟩ := this
              refine ⟨j, u, hj, ⟨t, u, hi, hj, ?_⟩, ?_⟩
              · rw [hp]; dsimp only; rw [if_neg hpw]; exact hu
              · exact lockCase m j u hj (by rcases hu with h | h; exact Or.inl h; exact Or.inr (Or.inr ⟨h, hpw⟩)) (Or.inl rfl)
            · cases h0
        | rlock m =>
          have h0 := hblk 0 0
          simp only [stepT, hp] at h0
          have hpw : t.pw ≠ some m := by
            rw [pw_none_of_head htok hp (by simp)]; simp
          split at h0
          · rename_i hh
            simp only [Bool.or_eq_true] at hh
            have : ∃ (j : Nat) (u : Thread), c.threads[j]? = some u ∧ ((m, Mode.W) ∈ u.held ∨ u.pw = some m) := by
              rcases hh with hh | hh
              · obtain ⟨j, u, hj, hu⟩ := mem_get hh
                exact ⟨j, u, hj, Or.inl (by simpa using hu)⟩
              · obtain ⟨j, u, hj, hu⟩ := mem_get hh
                exact ⟨j, u, hj, Or.inr (by simpa using hu)⟩
            obtain ⟨j, u, hj, hu⟩ := this
            refine ⟨j, u, hj, ⟨t, u, hi, hj, ?_⟩, ?_⟩
            · rw [hp]; exact hu
            · exact lockCase m j u hj (by rcases hu with h | h; exact Or.inl h; exact Or.inr (Or.inr ⟨h, hpw⟩)) (Or.inr rfl)
          · cases h0
        | unlock m' =>
          simp only [chkA] at hc
          split at hc
          · rename_i hcond
            have := hblk 0 0
            simp [stepT, hp] at this
            have h2 := hcond.2
            simp at h2
            exact absurd h2 this
          · cases hc
        | runlock m' =>
          simp only [chkA] at hc
          split at hc
          · rename_i hcond
            have := hblk 0 0
            simp [stepT, hp] at this
            have h2 := hcond.2
            simp at h2
            exact absurd h2 this
          · cases hc
        | wait m' =>
          simp only [chkA] at hc
          split at hc
          · rename_i hcond
            have := hblk 0 0
            simp [stepT, hp, hcond.2.1] at this
          · cases hc
        | signal m' => have := hblk 0 0; simp [stepT, hp] at this
        | sendFresh cap =>
          simp only [chkA] at hc
          split at hc
          · rename_i hcond
            have := hblk 0 0
            simp [stepT, hp, hcond.2] at this
          · cases hc
        | send ch =>
          simp only [chkA] at hc
          split at hc
          · rename_i hcond
            obtain ⟨_, _, hlv, _, hsrv⟩ := hcond
            obtain ⟨j, u, hj, hserves, hmu⟩ := chanCase ch hsrv hlv (by simp [mu, hp])
            refine ⟨j, u, hj, ⟨t, u, hi, hj, ?_⟩, fun _ => hmu⟩
            rw [hp]; exact hserves
          · cases hc
        | recvReply r =>
          simp only [chkA] at hc
          split at hc
          · rename_i hcond
            have hpend := hcond.1
            have h0 := hblk 0 0
            simp only [stepT, hp] at h0
            cases hst : t.st with
            | idle => rw [hst] at hpend; simp [pendOf] at hpend
            | queued ch =>
              obtain ⟨hlv, hsrv, _⟩ := htok.st_ok ch hst
              obtain ⟨j, u, hj, hserves, hmu⟩ := chanCase ch hsrv hlv (by simp [mu, hp])
              refine ⟨j, u, hj, ⟨t, u, hi, hj, ?_⟩, fun _ => hmu⟩
              rw [hp]; dsimp only; rw [hst]; exact hserves
            | served r' =>
              rw [hst] at hpend
              simp only [pendOf, Option.some.injEq] at hpend
              subst hpend
              obtain ⟨j, u, hj, hpeer⟩ := hinv.served i t r' hi hst
              obtain ⟨tp, htp, _, hlt⟩ := hinv.srv j u i r' hj hpeer
              rw [hi] at htp; cases htp
              refine ⟨j, u, hj, ⟨t, u, hi, hj, ?_⟩, ?_⟩
              · rw [hp]; dsimp only; rw [hst]
                refine ⟨i, hpeer, rfl, ?_⟩
                rcases (hinv.tok j u hj).shape with ⟨X, hX, _⟩ | ⟨_, _, _, _, hpn, _⟩
                · rw [hX, hpeer]; simp [replyPart]
                · rw [hpn] at hpeer; cases hpeer
              · intro _
                have := mu_le A u
                have : mu A t = 2 * A.maxRank + 2 + t.lvl := by simp [mu, hp]
                omega
            | replied r' =>
              rw [hst] at hpend
              simp only [pendOf, Option.some.injEq] at hpend
              subst hpend
              simp [hst] at h0
          · cases hc
        | recv ch => simp [chkA] at hc
        | sendReply r => simp [chkA] at hc
    · -- the owed reply or the daemon loop: both can always move
      rcases not_tail h' with ⟨q, r, hpeer, hs, hk⟩ | ⟨arms, _, _, hs, _⟩
      · subst hs
        obtain ⟨tp, hq, hqs, _⟩ := hinv.srv i t q r hi hpeer
        have htokq := hinv.tok q tp hq
        have hprogq : ∃ kq, tp.prog = .act (.recvReply r) :: kq := by
          rcases htokq.shape with ⟨X, hX, hcx⟩ | ⟨_, _, _, _, _, hidle⟩
          · rw [hqs] at hcx
            simp only [pendOf] at hcx
            obtain ⟨k', rfl, _, _⟩ := chkL_pend hcx
            exact ⟨_, by rw [hX]; rfl⟩
          · rw [hqs] at hidle; cases hidle
        obtain ⟨kq, hkq⟩ := hprogq
        have h0 := hblk 0 0
        simp only [stepT, hp, hpeer, if_true, hq, hqs] at h0
        split at h0
        · rw [hkq] at h0; simp at h0
        · cases h0
      · subst hs
        have := hblk 1 0; simp [stepT, hp] at this
    · exact absurd ⟨t, arms, k, hi, by rw [hp, hsel]⟩ hnsel

/-- **no deadlock under the invariant** -/
theorem not_deadlocked_of_inv {c : Config} (hinv : Inv S A c.threads) : ¬ Deadlocked S c := by
  rintro ⟨D, hne, hD⟩
  -- no member of D can have any measure
  have key : ∀ (n : Nat) (i : Nat) (t : Thread), i ∈ D → c.threads[i]? = some t → mu A t ≤ n → False := by
    intro n
    induction n with
    | zero =>
      intro i t hiD hi hle
      obtain ⟨hst, hcl⟩ := hD i hiD
      obtain ⟨j, u, hj, hprov, hlt⟩ := stuck_provider hinv hi hst
      have := hlt (hD j (hcl j hprov)).1.1
      omega
    | succ n ih =>
      intro i t hiD hi hle
      obtain ⟨hst, hcl⟩ := hD i hiD
      obtain ⟨j, u, hj, hprov, hlt⟩ := stuck_provider hinv hi hst
      have hjD := hcl j hprov
      have := hlt (hD j hjD).1.1
      exact ih j u hjD hj (by omega)
  cases D with
  | nil => exact hne rfl
  | cons i rest =>
    obtain ⟨⟨t, hi, _, _⟩, _⟩ := (hD i (List.mem_cons_self)).1
    exact key (mu A t) i t (List.mem_cons_self) hi (Nat.le_refl _)

end BytomModel.SyncSkel
