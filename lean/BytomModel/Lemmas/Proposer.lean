/-
C38 helper layer 2: the proposer's selection loop (`State.propose`) on the function level, and
the simulation between the proposer's running view (starts empty, loads spent entries on demand,
keeps the marks of refused transactions) and the view `reorganizeChain` attaches the block with
(starts empty, loads the inputs of ALL block transactions first).
-/
import BytomModel.Lemmas.PoolView
import BytomModel.Lemmas.PoolSafe

namespace BytomModel.Lemmas.Proposer
open BytomModel.Ledger BytomModel.NodePool BytomModel.Lemmas.PoolView

/-- what a lookup in the on-demand view means: the view's entry, else the stored one -/
def eff (db f : FV) : FV := fun k => match f k with | some e => some e | none => db k

theorem eff_fset (db f : FV) (k : Nat) (e : Entry) : eff db (fset f k e) = fset (eff db f) k e := by
  funext k'
  unfold eff fset
  by_cases h : k' = k <;> simp [h]

theorem eff_loadF (db : FV) (ins : List Nat) (f : FV) : eff db (loadF db ins f) = eff db f := by
  funext k
  unfold eff loadF
  by_cases h : k ∈ ins
  · simp only [h, if_true]
    cases f k with
    | some e => rfl
    | none => simp only; cases db k <;> rfl
  · simp only [h, if_false]

theorem eff_empty (db : FV) : eff db (fun _ => none) = db := by
  funext k; rfl

theorem eff_outF (db : FV) (h : Nat) (cb : Bool) : ∀ (outs : List TxOut) (f : FV),
    eff db (outF h cb outs f) = outF h cb outs (eff db f)
  | [], f => rfl
  | o :: os, f => by
    unfold outF
    cases utxoType o.kind with
    | none => exact eff_outF db h cb os f
    | some t =>
      simp only
      split
      · exact eff_outF db h cb os f
      · rw [eff_outF db h cb os, eff_fset]

/-- every input is present in the view as the effective lookup says (after `GetTransactionsUtxo`) -/
def Loaded (db f : FV) (ins : List Nat) : Prop := ∀ o ∈ ins, f o = eff db f o

theorem loaded_loadF (db : FV) (ins : List Nat) (f : FV) : Loaded db (loadF db ins f) ins := by
  intro o ho
  unfold eff loadF
  simp only [ho, if_true]
  cases f o with
  | some e => rfl
  | none => simp only; cases db o <;> rfl

/-- on a loaded view the spend loop computes what it computes on the effective view -/
theorem spendF_eff (db : FV) (p : Params) (h : Nat) : ∀ (ins : List Nat) (f : FV), Loaded db f ins →
    spendF p h ins (eff db f) = (eff db (spendF p h ins f).1, (spendF p h ins f).2)
  | [], f, _ => rfl
  | o :: os, f, hl => by
    have ho := hl o (by simp)
    unfold spendF
    rw [← ho]
    cases hf : f o with
    | none => rfl
    | some e =>
      simp only
      split
      · have hl' : Loaded db (fset f o { e with spent := true }) os := by
          intro o' ho'
          unfold eff fset
          by_cases e1 : o' = o
          · simp [e1]
          · simp only [e1, if_false]
            exact hl o' (List.mem_cons_of_mem _ ho')
        rw [← eff_fset]
        exact spendF_eff db p h os _ hl'
      · rfl

/-! ### the selection loop on functions -/

/-- (included transactions in order, final effective view) -/
def selF (p : Params) (h : Nat) : List Tx → FV → List Tx × FV
  | [], g => ([], g)
  | t :: ts, g =>
    if (spendF p h t.ins g).2 then
      (t :: (selF p h ts (outF h false t.outs (spendF p h t.ins g).1)).1,
       (selF p h ts (outF h false t.outs (spendF p h t.ins g).1)).2)
    else selF p h ts (spendF p h t.ins g).1

/-- one iteration of the fold inside `State.propose` -/
def propStep (s : NodePool.State) (h : Nat) (acc : List Nat × View × TxPool.Pool) (id : Nat) : List Nat × View × TxPool.Pool :=
  match s.txById id with
  | none => acc
  | some t =>
    let view1 := loadSpent s.base.utxo [t] acc.2.1
    let r := applySpendGo s.base.params h t.ins view1
    if r.2 then (acc.1 ++ [id], applyOutput h false t.outs r.1, acc.2.2)
    else (acc.1, r.1, TxPool.removeTransaction acc.2.2 id)

def proposeHeight (s : NodePool.State) : Nat :=
  (match s.base.node.header s.base.node.best with | some b => b.height | none => 0) + 1

theorem propose_eq (s : NodePool.State) :
    s.propose = (((s.pool.pool.map (·.1)).foldl (propStep s (proposeHeight s)) ([], [], s.pool)).1,
                 { s with pool := ((s.pool.pool.map (·.1)).foldl (propStep s (proposeHeight s)) ([], [], s.pool)).2.2 }) := by
  unfold State.propose
  rfl

/-- the view part of one iteration, on functions -/
theorem propStep_view (s : NodePool.State) (h : Nat) (view : View) (t : Tx) :
    let g := eff (vget s.base.utxo) (vget view)
    let r := applySpendGo s.base.params h t.ins (loadSpent s.base.utxo [t] view)
    eff (vget s.base.utxo) (vget r.1) = (spendF s.base.params h t.ins g).1 ∧ r.2 = (spendF s.base.params h t.ins g).2 := by
  intro g r
  have hload : vget (loadSpent s.base.utxo [t] view) = loadF (vget s.base.utxo) t.ins (vget view) := by
    rw [loadSpent_F]; simp
  have hF := applySpendGo_F s.base.params h t.ins (loadSpent s.base.utxo [t] view)
  rw [hload] at hF
  have hE := spendF_eff (vget s.base.utxo) s.base.params h t.ins _ (loaded_loadF (vget s.base.utxo) t.ins (vget view))
  rw [eff_loadF] at hE
  have h1 : vget r.1 = (spendF s.base.params h t.ins (loadF (vget s.base.utxo) t.ins (vget view))).1 := congrArg Prod.fst hF
  have h2 : r.2 = (spendF s.base.params h t.ins (loadF (vget s.base.utxo) t.ins (vget view))).2 := congrArg Prod.snd hF
  constructor
  · rw [h1]; exact (congrArg Prod.fst hE).symm
  · rw [h2]; exact (congrArg Prod.snd hE).symm

/-- **the fold of `State.propose` includes exactly what the function-level loop selects** -/
theorem propose_fold_spec (s : NodePool.State) (h : Nat) : ∀ (ids : List Nat) (acc : List Nat × View × TxPool.Pool),
    ((ids.foldl (propStep s h) acc).1).filterMap s.txById =
      acc.1.filterMap s.txById ++
        (selF s.base.params h (ids.filterMap s.txById) (eff (vget s.base.utxo) (vget acc.2.1))).1
  | [], acc => by simp [selF]
  | id :: ids, acc => by
    simp only [List.foldl_cons]
    rw [propose_fold_spec s h ids]
    unfold propStep
    cases hq : s.txById id with
    | none => simp [List.filterMap_cons, hq]
    | some t =>
      simp only [List.filterMap_cons, hq]
      obtain ⟨hv, hok⟩ := propStep_view s h acc.2.1 t
      rw [selF]
      cases hr : (spendF s.base.params h t.ins (eff (vget s.base.utxo) (vget acc.2.1))).2
      · rw [hr] at hok
        simp only [hok, Bool.false_eq_true, if_false, hv]
      · rw [hr] at hok
        simp only [hok, if_true, List.filterMap_append, List.filterMap_cons, hq, List.filterMap_nil,
          List.append_assoc, List.singleton_append]
        rw [applyOutput_F, eff_outF, hv]

/-! ### simulation with the attaching view -/

/-- on the inputs `I` the attaching view agrees with the proposer's, except that the proposer
    may have marked an entry spent (the mark a refused transaction left behind) -/
def Rel (I : List Nat) (g fa : FV) : Prop :=
  ∀ o ∈ I, g o = fa o ∨ ∃ e, fa o = some e ∧ g o = some { e with spent := true }

theorem spendOk_unspent {p : Params} {h : Nat} {e : Entry} (hok : spendOk p h e = true) : e.spent = false := by
  unfold spendOk at hok
  cases hs : e.spent
  · rfl
  · simp [hs] at hok

theorem rel_spend_ok (p : Params) (h : Nat) (I : List Nat) : ∀ (ins : List Nat) (g fa : FV), Rel I g fa →
    (∀ o ∈ ins, o ∈ I) → (spendF p h ins g).2 = true →
    (spendF p h ins fa).2 = true ∧ Rel I (spendF p h ins g).1 (spendF p h ins fa).1
  | [], g, fa, hr, _, _ => ⟨rfl, hr⟩
  | o :: os, g, fa, hr, hI, hok => by
    unfold spendF at hok ⊢
    cases hg : g o with
    | none => simp [hg] at hok
    | some e =>
      simp only [hg] at hok ⊢
      by_cases hs : spendOk p h e = true
      · simp only [hs, if_true] at hok ⊢
        have hfa : fa o = some e := by
          rcases hr o (hI o (by simp)) with h1 | ⟨e', _, h2⟩
          · rw [← h1, hg]
          · rw [hg] at h2
            have := spendOk_unspent hs
            have h3 : e = { e' with spent := true } := Option.some.inj h2
            rw [h3] at this
            simp at this
        simp only [hfa, hs, if_true]
        apply rel_spend_ok p h I os _ _ _ (fun o' ho' => hI o' (List.mem_cons_of_mem _ ho')) hok
        intro o' ho'
        unfold fset
        by_cases e1 : o' = o
        · simp [e1]
        · simp only [e1, if_false]; exact hr o' ho'
      · simp [hs] at hok

theorem rel_spend_fail (p : Params) (h : Nat) (I : List Nat) : ∀ (ins : List Nat) (g fa : FV), Rel I g fa →
    Rel I (spendF p h ins g).1 fa
  | [], g, fa, hr => hr
  | o :: os, g, fa, hr => by
    unfold spendF
    cases hg : g o with
    | none => exact hr
    | some e =>
      simp only
      by_cases hs : spendOk p h e = true
      · simp only [hs, if_true]
        apply rel_spend_fail p h I os
        intro o' ho'
        unfold fset
        by_cases e1 : o' = o
        · subst e1
          simp only [if_true]
          rcases hr o' ho' with h1 | ⟨e', h1, h2⟩
          · right; exact ⟨e, by rw [← h1, hg], rfl⟩
          · rw [hg] at h2
            have h3 : e = { e' with spent := true } := Option.some.inj h2
            right; exact ⟨e', h1, by rw [h3]⟩
        · simp only [e1, if_false]; exact hr o' ho'
      · simp only [hs, Bool.false_eq_true, if_false]; exact hr

theorem rel_out (h : Nat) (cb : Bool) (I : List Nat) : ∀ (outs : List TxOut) (g fa : FV), Rel I g fa →
    Rel I (outF h cb outs g) (outF h cb outs fa)
  | [], _, _, hr => hr
  | o :: os, g, fa, hr => by
    unfold outF
    cases utxoType o.kind with
    | none => exact rel_out h cb I os g fa hr
    | some t =>
      simp only
      split
      · exact rel_out h cb I os g fa hr
      · apply rel_out h cb I os
        intro o' ho'
        unfold fset
        by_cases e1 : o' = o.id
        · simp [e1]
        · simp only [e1, if_false]; exact hr o' ho'

/-- **the transactions the loop selects apply, in order, to any view related to the proposer's** -/
theorem attach_of_selF (p : Params) (h : Nat) (I : List Nat) : ∀ (txs : List Tx) (g fa : FV),
    (∀ t ∈ (selF p h txs g).1, ∀ o ∈ t.ins, o ∈ I) → Rel I g fa →
    attachF p h false (selF p h txs g).1 fa = true
  | [], g, fa, _, _ => rfl
  | t :: ts, g, fa, hI, hr => by
    unfold selF at hI ⊢
    cases hok : (spendF p h t.ins g).2
    · simp only [hok, Bool.false_eq_true, if_false] at hI ⊢
      exact attach_of_selF p h I ts _ fa hI (rel_spend_fail p h I t.ins g fa hr)
    · simp only [hok, if_true] at hI ⊢
      have hins : ∀ o ∈ t.ins, o ∈ I := hI t (by simp)
      obtain ⟨h1, h2⟩ := rel_spend_ok p h I t.ins g fa hr hins hok
      unfold attachF
      rw [h1, Bool.true_and]
      exact attach_of_selF p h I ts _ _ (fun t' ht' => hI t' (List.mem_cons_of_mem _ ht'))
        (rel_out h false I t.outs _ _ h2)

/-! ### what the loop does with refused, conflicting and chained transactions -/

theorem selF_sub (p : Params) (h : Nat) : ∀ (txs : List Tx) (g : FV), ∀ t ∈ (selF p h txs g).1, t ∈ txs
  | [], _, t, ht => by simp [selF] at ht
  | x :: xs, g, t, ht => by
    unfold selF at ht
    split at ht
    · simp only [List.mem_cons] at ht
      rcases ht with h1 | h1
      · simp [h1]
      · exact List.mem_cons_of_mem _ (selF_sub p h xs _ t h1)
    · exact List.mem_cons_of_mem _ (selF_sub p h xs _ t ht)

/-- the entry of `o` is marked spent -/
def Spent (g : FV) (o : Nat) : Prop := ∃ e, g o = some e ∧ e.spent = true

theorem spendF_keeps_spent (p : Params) (h : Nat) (o : Nat) : ∀ (ins : List Nat) (g : FV), Spent g o →
    Spent (spendF p h ins g).1 o
  | [], _, hs => hs
  | x :: xs, g, hs => by
    unfold spendF
    cases hg : g x with
    | none => exact hs
    | some e =>
      simp only
      split
      · apply spendF_keeps_spent p h o xs
        unfold Spent fset
        by_cases e1 : o = x
        · exact ⟨{ e with spent := true }, by simp [e1], rfl⟩
        · obtain ⟨e', h1, h2⟩ := hs
          exact ⟨e', by simp [e1, h1], h2⟩
      · exact hs

theorem spendF_spent_fails (p : Params) (h : Nat) (o : Nat) : ∀ (ins : List Nat) (g : FV), o ∈ ins → Spent g o →
    (spendF p h ins g).2 = false
  | [], _, ho, _ => by cases ho
  | x :: xs, g, ho, hs => by
    unfold spendF
    cases hg : g x with
    | none => rfl
    | some e =>
      simp only
      by_cases hk : spendOk p h e = true
      · simp only [hk, if_true]
        by_cases e1 : o = x
        · subst e1
          obtain ⟨e', h1, h2⟩ := hs
          rw [hg] at h1
          have := spendOk_unspent hk
          rw [Option.some.inj h1, h2] at this
          cases this
        · have ho' : o ∈ xs := by
            simp only [List.mem_cons] at ho
            rcases ho with h1 | h1
            · exact absurd h1 e1
            · exact h1
          apply spendF_spent_fails p h o xs _ ho'
          obtain ⟨e', h1, h2⟩ := hs
          exact ⟨e', by simp [fset, e1, h1], h2⟩
      · simp [hk]

theorem spendF_marks (p : Params) (h : Nat) : ∀ (ins : List Nat) (g : FV), (spendF p h ins g).2 = true →
    ∀ o ∈ ins, Spent (spendF p h ins g).1 o
  | [], _, _, o, ho => by cases ho
  | x :: xs, g, hok, o, ho => by
    unfold spendF at hok ⊢
    cases hg : g x with
    | none => simp [hg] at hok
    | some e =>
      simp only [hg] at hok ⊢
      by_cases hk : spendOk p h e = true
      · simp only [hk, if_true] at hok ⊢
        simp only [List.mem_cons] at ho
        by_cases e1 : o = x
        · apply spendF_keeps_spent
          exact ⟨{ e with spent := true }, by simp [fset, e1], rfl⟩
        · rcases ho with h1 | h1
          · exact absurd h1 e1
          · exact spendF_marks p h xs _ hok o h1
      · simp [hk] at hok

theorem outF_keeps_spent (h : Nat) (cb : Bool) (outs : List TxOut) (g : FV) (o : Nat) (ho : o ∉ outs.map (·.id))
    (hs : Spent g o) : Spent (outF h cb outs g) o := by
  unfold Spent
  rw [outF_other h cb outs g o ho]
  exact hs

/-- **once an output is marked spent in the running view (and no pool transaction re-creates
    its id) no later transaction spending it is included** -/
theorem spent_blocks (p : Params) (h : Nat) (o : Nat) : ∀ (txs : List Tx) (g : FV), Spent g o →
    (∀ t ∈ txs, o ∉ t.outs.map (·.id)) → ∀ t ∈ (selF p h txs g).1, o ∉ t.ins
  | [], _, _, _, t, ht => by simp [selF] at ht
  | x :: xs, g, hs, hno, t, ht => by
    have hnox := hno x (by simp)
    have hno' : ∀ t ∈ xs, o ∉ t.outs.map (·.id) := fun t ht => hno t (List.mem_cons_of_mem _ ht)
    unfold selF at ht
    cases hok : (spendF p h x.ins g).2
    · simp only [hok, Bool.false_eq_true, if_false] at ht
      exact spent_blocks p h o xs _ (spendF_keeps_spent p h o x.ins g hs) hno' t ht
    · simp only [hok, if_true, List.mem_cons] at ht
      have hx : o ∉ x.ins := by
        intro hin
        have := spendF_spent_fails p h o x.ins g hin hs
        rw [hok] at this
        cases this
      rcases ht with h1 | h1
      · rw [h1]; exact hx
      · exact spent_blocks p h o xs _
          (outF_keeps_spent h false x.outs _ o hnox (spendF_keeps_spent p h o x.ins g hs)) hno' t h1

/-- **conflicting transactions: at most one included transaction spends a given output** (that no
    pool transaction creates) -/
theorem conflict_one_winner (p : Params) (h : Nat) (o : Nat) : ∀ (txs : List Tx) (g : FV),
    (∀ t ∈ txs, o ∉ t.outs.map (·.id)) → (((selF p h txs g).1).filter (fun t => decide (o ∈ t.ins))).length ≤ 1
  | [], _, _ => by simp [selF]
  | x :: xs, g, hno => by
    have hnox := hno x (by simp)
    have hno' : ∀ t ∈ xs, o ∉ t.outs.map (·.id) := fun t ht => hno t (List.mem_cons_of_mem _ ht)
    unfold selF
    cases hok : (spendF p h x.ins g).2
    · simp only [Bool.false_eq_true, if_false]
      exact conflict_one_winner p h o xs _ hno'
    · simp only [if_true]
      by_cases hx : o ∈ x.ins
      · have hs : Spent (outF h false x.outs (spendF p h x.ins g).1) o :=
          outF_keeps_spent h false x.outs _ o hnox (spendF_marks p h x.ins g hok o hx)
        have hnone := spent_blocks p h o xs _ hs hno'
        have : ((selF p h xs (outF h false x.outs (spendF p h x.ins g).1)).1).filter (fun t => decide (o ∈ t.ins)) = [] := by
          rw [List.filter_eq_nil_iff]
          intro t ht
          simpa using hnone t ht
        simp [List.filter_cons, hx, this]
      · simp only [List.filter_cons, hx, decide_false, Bool.false_eq_true, if_false]
        exact conflict_one_winner p h o xs _ hno'

theorem spendF_none (p : Params) (h : Nat) (k : Nat) : ∀ (ins : List Nat) (g : FV), g k = none →
    (spendF p h ins g).1 k = none
  | [], _, hk => hk
  | x :: xs, g, hk => by
    unfold spendF
    cases hg : g x with
    | none => exact hk
    | some e =>
      simp only
      split
      · apply spendF_none p h k xs
        have : k ≠ x := by intro e1; subst e1; rw [hk] at hg; cases hg
        simp [fset, this, hk]
      · exact hk

theorem spendF_ok_some (p : Params) (h : Nat) : ∀ (ins : List Nat) (g : FV), (spendF p h ins g).2 = true →
    ∀ o ∈ ins, g o ≠ none
  | [], _, _, o, ho => by cases ho
  | x :: xs, g, hok, o, ho => by
    unfold spendF at hok
    cases hg : g x with
    | none => simp [hg] at hok
    | some e =>
      simp only [hg] at hok
      by_cases hk : spendOk p h e = true
      · simp only [hk, if_true] at hok
        by_cases e1 : o = x
        · rw [e1, hg]; simp
        · simp only [List.mem_cons] at ho
          rcases ho with h1 | h1
          · exact absurd h1 e1
          · have := spendF_ok_some p h xs _ hok o h1
            simpa [fset, e1] using this
      · simp [hk] at hok

/-- **chained transactions: an included transaction that spends an output the persisted set does
    not hold has the creator of that output included as well** -/
theorem child_needs_parent (p : Params) (h : Nat) (o : Nat) (t2 : Tx) (ho : o ∈ t2.ins) : ∀ (txs : List Tx) (g : FV),
    g o = none → t2 ∈ (selF p h txs g).1 → ∃ t1 ∈ (selF p h txs g).1, o ∈ t1.outs.map (·.id)
  | [], _, _, ht => by simp [selF] at ht
  | x :: xs, g, hg, ht => by
    unfold selF at ht ⊢
    cases hok : (spendF p h x.ins g).2
    · simp only [hok, Bool.false_eq_true, if_false] at ht ⊢
      exact child_needs_parent p h o t2 ho xs _ (spendF_none p h o x.ins g hg) ht
    · simp only [hok, if_true, List.mem_cons] at ht ⊢
      rcases ht with h1 | h1
      · subst h1
        exact absurd hg (spendF_ok_some p h t2.ins g hok o ho)
      · by_cases hx : o ∈ x.outs.map (·.id)
        · exact ⟨x, Or.inl rfl, hx⟩
        · have hg' : outF h false x.outs (spendF p h x.ins g).1 o = none := by
            rw [outF_other h false x.outs _ o hx]
            exact spendF_none p h o x.ins g hg
          obtain ⟨t1, ht1, hc⟩ := child_needs_parent p h o t2 ho xs _ hg' h1
          exact ⟨t1, Or.inr ht1, hc⟩

/-! ### the pool side of the fold: refused transactions are removed, included ones stay -/

theorem propStep_frame (s : NodePool.State) (h : Nat) (id : Nat) : ∀ (ids : List Nat) (acc : List Nat × View × TxPool.Pool),
    id ∉ ids →
    (id ∈ (ids.foldl (propStep s h) acc).1 ↔ id ∈ acc.1) ∧
    TxPool.amGet (ids.foldl (propStep s h) acc).2.2.pool id = TxPool.amGet acc.2.2.pool id
  | [], _, _ => ⟨Iff.rfl, rfl⟩
  | x :: xs, acc, hid => by
    have hx : id ≠ x := fun e => hid (by simp [e])
    have hxs : id ∉ xs := fun e => hid (by simp [e])
    simp only [List.foldl_cons]
    obtain ⟨h1, h2⟩ := propStep_frame s h id xs (propStep s h acc x) hxs
    have hstep : (id ∈ (propStep s h acc x).1 ↔ id ∈ acc.1) ∧
        TxPool.amGet (propStep s h acc x).2.2.pool id = TxPool.amGet acc.2.2.pool id := by
      unfold propStep
      cases s.txById x with
      | none => exact ⟨Iff.rfl, rfl⟩
      | some t =>
        simp only
        split
        · simp [hx]
        · exact ⟨Iff.rfl, BytomModel.Lemmas.PoolSafe.removeTransaction_keep _ _ _ hx⟩
    exact ⟨h1.trans hstep.1, h2.trans hstep.2⟩

/-- every pool transaction is either included and stays pooled, or is removed and not included -/
theorem propStep_partition (s : NodePool.State) (h : Nat) (id : Nat) : ∀ (ids : List Nat) (acc : List Nat × View × TxPool.Pool),
    ids.Nodup → id ∈ ids → (s.txById id).isSome → id ∉ acc.1 →
    (id ∈ (ids.foldl (propStep s h) acc).1 ∧
        TxPool.amGet (ids.foldl (propStep s h) acc).2.2.pool id = TxPool.amGet acc.2.2.pool id) ∨
    (id ∉ (ids.foldl (propStep s h) acc).1 ∧ TxPool.amGet (ids.foldl (propStep s h) acc).2.2.pool id = none)
  | [], _, _, hin, _, _ => by cases hin
  | x :: xs, acc, hn, hin, hq, hacc => by
    have hxn : x ∉ xs := (List.nodup_cons.mp hn).1
    have hn' : xs.Nodup := (List.nodup_cons.mp hn).2
    simp only [List.foldl_cons]
    by_cases e : id = x
    · subst e
      obtain ⟨f1, f2⟩ := propStep_frame s h id xs (propStep s h acc id) hxn
      rw [f2]
      unfold propStep at f1 ⊢
      cases hq' : s.txById id with
      | none => rw [hq'] at hq; cases hq
      | some t =>
        simp only [hq'] at f1 ⊢
        split
        · rename_i hok
          simp only [hok, if_true] at f1
          left
          exact ⟨f1.mpr (by simp), rfl⟩
        · rename_i hok
          simp only [hok, if_false] at f1
          right
          exact ⟨fun hm => hacc (f1.mp hm), BytomModel.Lemmas.PoolSafe.removeTransaction_gone _ _⟩
    · have hin' : id ∈ xs := by
        simp only [List.mem_cons] at hin
        rcases hin with h1 | h1
        · exact absurd h1 e
        · exact h1
      have hstep : id ∉ (propStep s h acc x).1 ∧
          TxPool.amGet (propStep s h acc x).2.2.pool id = TxPool.amGet acc.2.2.pool id := by
        unfold propStep
        cases s.txById x with
        | none => exact ⟨hacc, rfl⟩
        | some t =>
          simp only
          split
          · exact ⟨by simp [hacc, e], rfl⟩
          · exact ⟨hacc, BytomModel.Lemmas.PoolSafe.removeTransaction_keep _ _ _ e⟩
      rcases propStep_partition s h id xs (propStep s h acc x) hn' hin' hq hstep.1 with h1 | h1
      · left; exact ⟨h1.1, h1.2.trans hstep.2⟩
      · right; exact h1

end BytomModel.Lemmas.Proposer
