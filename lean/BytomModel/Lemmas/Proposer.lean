/-
C38 helper layer 2: the proposer's selection loop (`State.propose`) on the function level, and
the simulation between the proposer's running view (starts empty, loads spent entries on demand,
keeps the marks of refused transactions) and the view `reorganizeChain` attaches the block with
(starts empty, loads the inputs of ALL block transactions first).
-/
import BytomModel.Lemmas.PoolView

namespace BytomModel.Lemmas.Proposer
open BytomModel.Ledger BytomModel.NodePool BytomModel.Lemmas.PoolView

/-- what a lookup in the on-demand view means: the view's entry, else the stored one -/
def eff (db f : FV) : FV := fun k => match f k with | some e => some e | none => db k

theorem eff_fset (db f : FV) (k : Nat) (e : Entry) : eff db (fset f k e) = fset (eff db f) k e := by
  funext k'
  unfold eff fset
  by_cases h : k' = k <;> simp [h]

theorem eff_loadF (db : FV) (ins : List Nat) (f : FV) : eff db (loadF db ins f) = eff db f := by
  funext k
  unfold eff loadF
  by_cases h : k ∈ ins
  · simp only [h, if_true]
    cases f k with
    | some e => rfl
    | none => simp only; cases db k <;> rfl
  · simp only [h, if_false]

theorem eff_empty (db : FV) : eff db (fun _ => none) = db := by
  funext k; rfl

theorem eff_outF (db : FV) (h : Nat) (cb : Bool) : ∀ (outs : List TxOut) (f : FV),
    eff db (outF h cb outs f) = outF h cb outs (eff db f)
  | [], f => rfl
  | o :: os, f => by
    unfold outF
    cases utxoType o.kind with
    | none => exact eff_outF db h cb os f
    | some t =>
      simp only
      split
      · exact eff_outF db h cb os f
      · rw [eff_outF db h cb os, eff_fset]

/-- every input is present in the view as the effective lookup says (after `GetTransactionsUtxo`) -/
def Loaded (db f : FV) (ins : List Nat) : Prop := ∀ o ∈ ins, f o = eff db f o

theorem loaded_loadF (db : FV) (ins : List Nat) (f : FV) : Loaded db (loadF db ins f) ins := by
  intro o ho
  unfold eff loadF
  simp only [ho, if_true]
  cases f o with
  | some e => rfl
  | none => simp only; cases db o <;> rfl

/-- on a loaded view the spend loop computes what it computes on the effective view -/
theorem spendF_eff (db : FV) (p : Params) (h : Nat) : ∀ (ins : List Nat) (f : FV), Loaded db f ins →
    spendF p h ins (eff db f) = (eff db (spendF p h ins f).1, (spendF p h ins f).2)
  | [], f, _ => rfl
  | o :: os, f, hl => by
    have ho := hl o (by simp)
    unfold spendF
    rw [← ho]
    cases hf : f o with
    | none => rfl
    | some e =>
      simp only
      split
      · have hl' : Loaded db (fset f o { e with spent := true }) os := by
          intro o' ho'
          unfold eff fset
          by_cases e1 : o' = o
          · simp [e1]
          · simp only [e1, if_false]
            exact hl o' (List.mem_cons_of_mem _ ho')
        rw [← eff_fset]
        exact spendF_eff db p h os _ hl'
      · rfl

/-! ### the selection loop on functions -/

/-- (included transactions in order, final effective view) -/
def selF (p : Params) (h : Nat) : List Tx → FV → List Tx × FV
  | [], g => ([], g)
  | t :: ts, g =>
    if (spendF p h t.ins g).2 then
      (t :: (selF p h ts (outF h false t.outs (spendF p h t.ins g).1)).1,
       (selF p h ts (outF h false t.outs (spendF p h t.ins g).1)).2)
    else selF p h ts (spendF p h t.ins g).1

/-- one iteration of the fold inside `State.propose` -/
def propStep (s : NodePool.State) (h : Nat) (acc : List Nat × View × TxPool.Pool) (id : Nat) : List Nat × View × TxPool.Pool :=
  match s.txById id with
  | none => acc
  | some t =>
    let view1 := loadSpent s.base.utxo [t] acc.2.1
    let r := applySpendGo s.base.params h t.ins view1
    if r.2 then (acc.1 ++ [id], applyOutput h false t.outs r.1, acc.2.2)
    else (acc.1, r.1, TxPool.removeTransaction acc.2.2 id)

def proposeHeight (s : NodePool.State) : Nat :=
  (match s.base.node.header s.base.node.best with | some b => b.height | none => 0) + 1

theorem propose_eq (s : NodePool.State) :
    s.propose = (((s.pool.pool.map (·.1)).foldl (propStep s (proposeHeight s)) ([], [], s.pool)).1,
                 { s with pool := ((s.pool.pool.map (·.1)).foldl (propStep s (proposeHeight s)) ([], [], s.pool)).2.2 }) := by
  unfold State.propose
  rfl

/-- the view part of one iteration, on functions -/
theorem propStep_view (s : NodePool.State) (h : Nat) (view : View) (t : Tx) :
    let g := eff (vget s.base.utxo) (vget view)
    let r := applySpendGo s.base.params h t.ins (loadSpent s.base.utxo [t] view)
    eff (vget s.base.utxo) (vget r.1) = (spendF s.base.params h t.ins g).1 ∧ r.2 = (spendF s.base.params h t.ins g).2 := by
  intro g r
  have hload : vget (loadSpent s.base.utxo [t] view) = loadF (vget s.base.utxo) t.ins (vget view) := by
    rw [loadSpent_F]; simp
  have hF := applySpendGo_F s.base.params h t.ins (loadSpent s.base.utxo [t] view)
  rw [hload] at hF
  have hE := spendF_eff (vget s.base.utxo) s.base.params h t.ins _ (loaded_loadF (vget s.base.utxo) t.ins (vget view))
  rw [eff_loadF] at hE
  have h1 : vget r.1 = (spendF s.base.params h t.ins (loadF (vget s.base.utxo) t.ins (vget view))).1 := congrArg Prod.fst hF
  have h2 : r.2 = (spendF s.base.params h t.ins (loadF (vget s.base.utxo) t.ins (vget view))).2 := congrArg Prod.snd hF
  constructor
  · rw [h1]; exact (congrArg Prod.fst hE).symm
  · rw [h2]; exact (congrArg Prod.snd hE).symm

/-- **the fold of `State.propose` includes exactly what the function-level loop selects** -/
theorem propose_fold_spec (s : NodePool.State) (h : Nat) : ∀ (ids : List Nat) (acc : List Nat × View × TxPool.Pool),
    ((ids.foldl (propStep s h) acc).1).filterMap s.txById =
      acc.1.filterMap s.txById ++
        (selF s.base.params h (ids.filterMap s.txById) (eff (vget s.base.utxo) (vget acc.2.1))).1
  | [], acc => by simp [selF]
  | id :: ids, acc => by
    simp only [List.foldl_cons]
    rw [propose_fold_spec s h ids]
    unfold propStep
    cases hq : s.txById id with
    | none => simp [List.filterMap_cons, hq]
    | some t =>
      simp only [List.filterMap_cons, hq]
      obtain ⟨hv, hok⟩ := propStep_view s h acc.2.1 t
      rw [selF]
      cases hr : (spendF s.base.params h t.ins (eff (vget s.base.utxo) (vget acc.2.1))).2
      · rw [hr] at hok
        simp only [hok, Bool.false_eq_true, if_false, hv]
      · rw [hr] at hok
        simp only [hok, if_true, List.filterMap_append, List.filterMap_cons, hq, List.filterMap_nil,
          List.append_assoc, List.singleton_append]
        rw [applyOutput_F, eff_outF, hv]

/-! ### simulation with the attaching view -/

/-- on the inputs `I` the attaching view agrees with the proposer's, except that the proposer
    may have marked an entry spent (the mark a refused transaction left behind) -/
def Rel (I : List Nat) (g fa : FV) : Prop :=
  ∀ o ∈ I, g o = fa o ∨ ∃ e, fa o = some e ∧ g o = some { e with spent := true }

theorem spendOk_unspent {p : Params} {h : Nat} {e : Entry} (hok : spendOk p h e = true) : e.spent = false := by
  unfold spendOk at hok
  cases hs : e.spent
  · rfl
  · simp [hs] at hok

theorem rel_spend_ok (p : Params) (h : Nat) (I : List Nat) : ∀ (ins : List Nat) (g fa : FV), Rel I g fa →
    (∀ o ∈ ins, o ∈ I) → (spendF p h ins g).2 = true →
    (spendF p h ins fa).2 = true ∧ Rel I (spendF p h ins g).1 (spendF p h ins fa).1
  | [], g, fa, hr, _, _ => ⟨rfl, hr⟩
  | o :: os, g, fa, hr, hI, hok => by
    unfold spendF at hok ⊢
    cases hg : g o with
    | none => simp [hg] at hok
    | some e =>
      simp only [hg] at hok ⊢
      by_cases hs : spendOk p h e = true
      · simp only [hs, if_true] at hok ⊢
        have hfa : fa o = some e := by
          rcases hr o (hI o (by simp)) with h1 | ⟨e', _, h2⟩
          · rw [← h1, hg]
          · rw [hg] at h2
            have := spendOk_unspent hs
            have h3 : e = { e' with spent := true } := Option.some.inj h2
            rw [h3] at this
            simp at this
        simp only [hfa, hs, if_true]
        apply rel_spend_ok p h I os _ _ _ (fun o' ho' => hI o' (List.mem_cons_of_mem _ ho')) hok
        intro o' ho'
        unfold fset
        by_cases e1 : o' = o
        · simp [e1]
        · simp only [e1, if_false]; exact hr o' ho'
      · simp [hs] at hok

theorem rel_spend_fail (p : Params) (h : Nat) (I : List Nat) : ∀ (ins : List Nat) (g fa : FV), Rel I g fa →
    Rel I (spendF p h ins g).1 fa
  | [], g, fa, hr => hr
  | o :: os, g, fa, hr => by
    unfold spendF
    cases hg : g o with
    | none => exact hr
    | some e =>
      simp only
      by_cases hs : spendOk p h e = true
      · simp only [hs, if_true]
        apply rel_spend_fail p h I os
        intro o' ho'
        unfold fset
        by_cases e1 : o' = o
        · subst e1
          simp only [if_true]
          rcases hr o' ho' with h1 | ⟨e', h1, h2⟩
          · right; exact ⟨e, by rw [← h1, hg], rfl⟩
          · rw [hg] at h2
            have h3 : e = { e' with spent := true } := Option.some.inj h2
            right; exact ⟨e', h1, by rw [h3]⟩
        · simp only [e1, if_false]; exact hr o' ho'
      · simp only [hs, Bool.false_eq_true, if_false]; exact hr

theorem rel_out (h : Nat) (cb : Bool) (I : List Nat) : ∀ (outs : List TxOut) (g fa : FV), Rel I g fa →
    Rel I (outF h cb outs g) (outF h cb outs fa)
  | [], _, _, hr => hr
  | o :: os, g, fa, hr => by
    unfold outF
    cases utxoType o.kind with
    | none => exact rel_out h cb I os g fa hr
    | some t =>
      simp only
      split
      · exact rel_out h cb I os g fa hr
      · apply rel_out h cb I os
        intro o' ho'
        unfold fset
        by_cases e1 : o' = o.id
        · simp [e1]
        · simp only [e1, if_false]; exact hr o' ho'

/-- **the transactions the loop selects apply, in order, to any view related to the proposer's** -/
theorem attach_of_selF (p : Params) (h : Nat) (I : List Nat) : ∀ (txs : List Tx) (g fa : FV),
    (∀ t ∈ (selF p h txs g).1, ∀ o ∈ t.ins, o ∈ I) → Rel I g fa →
    attachF p h false (selF p h txs g).1 fa = true
  | [], g, fa, _, _ => rfl
  | t :: ts, g, fa, hI, hr => by
    unfold selF at hI ⊢
    cases hok : (spendF p h t.ins g).2
    · simp only [hok, Bool.false_eq_true, if_false] at hI ⊢
      exact attach_of_selF p h I ts _ fa hI (rel_spend_fail p h I t.ins g fa hr)
    · simp only [hok, if_true] at hI ⊢
      have hins : ∀ o ∈ t.ins, o ∈ I := hI t (by simp)
      obtain ⟨h1, h2⟩ := rel_spend_ok p h I t.ins g fa hr hins hok
      unfold attachF
      rw [h1, Bool.true_and]
      exact attach_of_selF p h I ts _ _ (fun t' ht' => hI t' (List.mem_cons_of_mem _ ht'))
        (rel_out h false I t.outs _ _ h2)

end BytomModel.Lemmas.Proposer
