/-
M-Net `BanScore` — model of `p2p/security/banscore.go` (and its copy `p2p/trust/banscore.go`):
`DynamicBanScore.int` and `DynamicBanScore.increase` (core Lean only).

The model is generic in the number type `α` of the transient score (`float64` in Go):
the driver instantiates it with `Float` (the same IEEE-754 double operations, so the
comparison with the implementation is exact), the theorems with an arbitrary linearly
ordered field.  `d : Int → α` is `decayFactor` (consulted only for `0 ≤ dt ≤ Lifetime`,
see `Props.C35.score_congr`), `trunc : α → Nat` the integer part taken by the Go
conversion `uint32(x)` before its reduction modulo 2^32 (amd64: via int64; exact for
`0 ≤ x < 2^63`).  `persistent` is a `uint32`: every `+` on it wraps modulo 2^32 — the
model mirrors the code AS IT IS.
-/
import BytomModel.Model.Fixed
namespace BytomModel.Model.BanScore
open BytomModel.Fixed

def halflife : Int := 60
def lifetime : Int := 1800
def precomputedLen : Int := 64

def two32 : Nat := 4294967296
/-- `uint32` wrap -/
def u32 (n : Nat) : Nat := n % two32

structure State (α : Type) where
  lastUnix : Int
  transient : α
  persistent : Nat

variable {α : Type} [Add α] [Mul α] [LT α] [DecidableLT α] [NatCast α]

/-- Go `t.Unix() - s.lastUnix` on `int64` -/
def elapsed (t last : Int) : Int := wrapI 64 (t - last)

/-- `DynamicBanScore.int(t)` -/
def score (d : Int → α) (trunc : α → Nat) (s : State α) (t : Int) : Nat :=
  let dt := elapsed t s.lastUnix
  if s.transient < ((1 : Nat) : α) ∨ dt < 0 ∨ lifetime < dt then s.persistent
  else u32 (s.persistent + u32 (trunc (s.transient * d dt)))

/-- the transient field after `increase(_, tr, t)` with `tr > 0` -/
def decayed (d : Int → α) (s : State α) (dt : Int) : α :=
  if lifetime < dt then ((0 : Nat) : α)
  else if ((1 : Nat) : α) < s.transient ∧ 0 < dt then s.transient * d dt
  else s.transient

/-- `DynamicBanScore.increase(persistent, transient, t)`: new state and returned score
    (`return s.int(t)`, fix 8c2b5a5d) -/
def increase (d : Int → α) (trunc : α → Nat) (s : State α) (p tr : Nat) (t : Int) : State α × Nat :=
  let pers := u32 (s.persistent + p)
  let dt := elapsed t s.lastUnix
  let s' : State α :=
    if 0 < tr then { lastUnix := t, transient := decayed d s dt + (tr : α), persistent := pers }
    else { s with persistent := pers }
  (s', score d trunc s' t)

def zero : State α := { lastUnix := 0, transient := ((0 : Nat) : α), persistent := 0 }

/-! ### the source shapes this model was written against (tied to the Go source by
    `Ties/C35`, regenerated facts in `Gen/BanScoreFacts.lean`) -/
namespace Src
def securityHalflife : Nat := 60
def securityLifetime : Nat := 1800
def securityprecomputedLen : Nat := 64
def securityLambda : String := "math.Ln2 / Halflife"
def securityIntIfs : List String := ["s.transient < 1 || dt < 0 || Lifetime < dt"]
def securityIncreaseIfs : List String := ["transient > 0", "Lifetime < dt", "s.transient > 1 && dt > 0"]
def securityDecayIfs : List String := ["t < precomputedLen"]
def securityReturns : List String := ["return s.persistent", "return s.persistent + uint32(s.transient*decayFactor(dt))", "return s.int(t)", "return precomputedFactor[t]", "return math.Exp(-1.0 * float64(t) * lambda)"]
def securityIncreaseAssigns : List String := ["s.persistent += persistent", "tu := t.Unix()", "dt := tu - s.lastUnix", "s.transient = 0", "s.transient *= decayFactor(dt)", "s.transient += float64(transient)", "s.lastUnix = tu"]
def securityIntSha : String := "c42430c3a201248638c24e213874282bb2ca9805382307a14f0dc2c1d4d5a99d"
def securityIncreaseSha : String := "c0a1dd21eb4691b7f6151f5f118743c366175513d543c5c5cc88628468626ca6"
def securityDecaySha : String := "1c64f353507afbe0a8c9869a571c8ed1518e1bb8fb1f71338d1b65d373cb11a9"
def securityTableFiller : String := "init"
def trustHalflife : Nat := 60
def trustLifetime : Nat := 1800
def trustprecomputedLen : Nat := 64
def trustLambda : String := "math.Ln2 / Halflife"
def trustIntIfs : List String := ["s.transient < 1 || dt < 0 || Lifetime < dt"]
def trustIncreaseIfs : List String := ["transient > 0", "Lifetime < dt", "s.transient > 1 && dt > 0"]
def trustDecayIfs : List String := ["t < precomputedLen"]
def trustReturns : List String := ["return s.persistent", "return s.persistent + uint32(s.transient*decayFactor(dt))", "return s.int(t)", "return precomputedFactor[t]", "return math.Exp(-1.0 * float64(t) * lambda)"]
def trustIncreaseAssigns : List String := ["s.persistent += persistent", "tu := t.Unix()", "dt := tu - s.lastUnix", "s.transient = 0", "s.transient *= decayFactor(dt)", "s.transient += float64(transient)", "s.lastUnix = tu"]
def trustIntSha : String := "c42430c3a201248638c24e213874282bb2ca9805382307a14f0dc2c1d4d5a99d"
def trustIncreaseSha : String := "c0a1dd21eb4691b7f6151f5f118743c366175513d543c5c5cc88628468626ca6"
def trustDecaySha : String := "1c64f353507afbe0a8c9869a571c8ed1518e1bb8fb1f71338d1b65d373cb11a9"
def trustTableFiller : String := "Init"
end Src

end BytomModel.Model.BanScore
