/-
The control shape of `protocol/bc/types/merkle.go` that `Model/Merkle.lean` mirrors:

  merkleRoot:      len = 0 → EmptyStringHash          (merkleRootF _ []            = H.emptyH)
                   len = 1 → leafMerkleHash(nodes[0]) (merkleRootF _ [x]           = H.leafH x)
                   default → k := prevPowerOfTwo(len); interiorMerkleHash(merkleRoot(nodes[:k]), merkleRoot(nodes[k:]))
                                                      (merkleRootF (f+1) l = H.nodeH (… (l.take k)) (… (l.drop k)))
  buildMerkleTree: the same three cases, keeping the children (buildF).
One plain recursion over the whole leaf list: no goroutines, no chunking, no other helper.
`Ties/C03.lean` proves these expectations equal to the facts REGENERATED from the source, so
a restructuring of the tree hashing breaks a proof obligation even without a failing input.
Core Lean only.
-/
namespace BytomModel.MerkleShape

def funcs : List String :=
  ["merkleRoot", "interiorMerkleHash", "leafMerkleHash", "buildMerkleTree", "merkleTreeNode.getMerkleTreeProof",
   "getMerkleTreeProof", "merkleTreeNode.getMerkleTreeProofByFlags", "getMerkleTreeProofByFlags", "GetTxMerkleTreeProof",
   "getMerkleRootByProof", "newMerkleTreeNode", "validateMerkleTreeProof", "ValidateTxMerkleTreeProof", "TxMerkleRoot",
   "prevPowerOfTwo"]

def merkleRootCases : List String := ["len(nodes) == 0", "len(nodes) == 1", "default"]

def merkleRootCalls : List String :=
  ["len(nodes)", "len(nodes)", "leafMerkleHash(nodes[0])", "prevPowerOfTwo(len(nodes))", "len(nodes)",
   "merkleRoot(nodes[:k])", "merkleRoot(nodes[k:])", "interiorMerkleHash(&left, &right)"]

def buildMerkleTreeCases : List String := ["len(rawDatas): 0", "len(rawDatas): 1", "default"]

def buildMerkleTreeCalls : List String :=
  ["len(rawDatas)", "leafMerkleHash(rawData)", "newMerkleTreeNode(merkleHash, nil, nil)", "prevPowerOfTwo(len(rawDatas))",
   "len(rawDatas)", "buildMerkleTree(rawDatas[:k])", "buildMerkleTree(rawDatas[k:])",
   "interiorMerkleHash(&left.hash, &right.hash)", "newMerkleTreeNode(merkleHash, left, right)"]

end BytomModel.MerkleShape
