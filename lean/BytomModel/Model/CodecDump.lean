/-
Canonical one-line dumps of decoded ledger values and the shared line protocol of the
codec drivers (C04, C05). The Go harness prints exactly the same text from the values the
real decoders return (`harness/codec_common.go`). Core Lean only.
-/
import BytomModel.Model.Codec
import BytomModel.Model.Sha3

namespace BytomModel.CodecDump
open BytomModel.Codec

def hexChar (n : Nat) : Char := if n < 10 then Char.ofNat (48 + n) else Char.ofNat (87 + n)

def hx (bs : Bytes) : String :=
  if bs.isEmpty then "-" else
  String.ofList (bs.foldr (fun b acc => hexChar (b.toNat / 16) :: hexChar (b.toNat % 16) :: acc) [])

def lst (l : List String) : String := "[" ++ ",".intercalate l ++ "]"

def dSC (sc : SpendCommitment) : String :=
  s!"sc({hx sc.sourceID},{hx sc.assetID},{sc.amount},{sc.sourcePos},{sc.vmVersion},{hx sc.program},{lst (sc.stateData.map hx)})"

def dTyped : Option TypedInput → String
  | none => "nil"
  | some (.issuance nonce amount d vm prog args) => s!"iss({hx nonce},{amount},{hx d},{vm},{hx prog},{lst (args.map hx)})"
  | some (.spend sc suf args) => s!"sp({dSC sc},{hx suf},{lst (args.map hx)})"
  | some (.coinbase arb) => s!"cb({hx arb})"
  | some (.veto sc suf vote args) => s!"ve({dSC sc},{hx suf},{hx vote},{lst (args.map hx)})"

def dInput (i : TxInput) : String :=
  s!"in({i.assetVersion},{dTyped i.typed},{hx i.commitmentSuffix},{hx i.witnessSuffix})"

def dOC : Option OutputCommitment → String
  | none => "nil"
  | some oc => s!"oc({hx oc.assetID},{oc.amount},{oc.vmVersion},{hx oc.program},{lst (oc.stateData.map hx)})"

def dTypedOut : TypedOutput → String
  | .original => "orig"
  | .vote v => s!"vote({hx v})"

def dOutput (o : TxOutput) : String :=
  s!"out({o.assetVersion},{dOC o.commitment},{hx o.commitmentSuffix},{dTypedOut o.typed})"

def dTx (t : TxData) : String :=
  s!"tx({t.version},{t.serializedSize},{t.timeRange},{lst (t.inputs.map dInput)},{lst (t.outputs.map dOutput)})"

def dSupLink (s : SupLink) : String :=
  s!"sl({s.sourceHeight},{hx s.sourceHash},{lst (s.signatures.map hx)})"

def dHeader (h : BlockHeader) : String :=
  s!"hdr({h.version},{h.height},{hx h.prevHash},{h.timestamp},{hx h.txRoot},{hx h.witness},{lst (h.supLinks.map dSupLink)})"

def dBlock (f : UInt8) (b : Block) : String :=
  s!"blk({f.toNat},{dHeader b.header},{lst (b.txs.map dTx)})"

def H : Bytes → Bytes := BytomModel.Sha3.sha3_256

/-- allocation above which the harness refuses to run the real decoder (1 GiB) -/
def bigAlloc : Nat := 1073741824

def render {α} (r : Res α) (dump : α → String) (reenc : α → Bytes) (text : Bytes) : String :=
  if r.alloc ≥ bigAlloc then "big" else
  match r.out with
  | .ok a _ =>
    let re := reenc a
    "ok " ++ dump a ++ " re=" ++ (if re == text then "=" else String.ofList (re.map (fun b => Char.ofNat b.toNat)))
  | .err e => "err " ++ e.name
  | .panic => "panic"

def textOf (s : String) : Bytes := s.toList.map (fun c => UInt8.ofNat c.toNat)

def hexDigitVal (c : Char) : Option Nat :=
  if '0' ≤ c ∧ c ≤ '9' then some (c.toNat - '0'.toNat)
  else if 'a' ≤ c ∧ c ≤ 'f' then some (c.toNat - 'a'.toNat + 10)
  else none

def parseHexBytes : List Char → Option Bytes
  | [] => some []
  | [_] => none
  | a :: b :: rest => do
    let x ← hexDigitVal a
    let y ← hexDigitVal b
    let r ← parseHexBytes rest
    pure (UInt8.ofNat (x * 16 + y) :: r)

/-- `"-"` is the empty text -/
def rawArg (s : String) : Option Bytes := if s == "-" then some [] else parseHexBytes s.toList

/-- ops: `tx T`, `txd T`, `hdr T`, `blk T` with `T` the text itself, and `txr X`, `txdr X`,
    `hdrr X`, `blkr X` with `X` the hex of the text bytes (for texts that are not plain hex) -/
def codecOp (kind : String) (text : Bytes) : String :=
  match kind with
  | "tx" => render (txFromText H text) dTx (txToText H) text
  | "txd" => render (txDataFromText H text) dTx (txToText H) text
  | "hdr" => render (headerFromText text) dHeader headerToText text
  | "blk" => render (blockFromText H text) (fun p => dBlock p.1 p.2) (fun p => blockToText H p.1 p.2) text
  | _ => "bad-op"

/-- go-wire's own outcome is not modelled; the reactors' decodeMessage rejects the empty message -/
def msgOp (bz : Bytes) : String :=
  match (decodeMessage (fun _ => (⟨0, .err .eof⟩ : Res Unit)) bz).out with
  | .panic => "panic"
  | _ => "nopanic"

def varintRes (r : Res Nat) : String :=
  match r.out with
  | .ok v rest => s!"{v} {rest.length}"
  | .err e => "err " ++ e.name
  | .panic => "panic"

/-- `v31 n` / `v63 n`: write, append `aa`, read back; `v31r X` / `v63r X`: read the raw bytes -/
def varintOp (k a : String) : Option String :=
  if k == "v31" || k == "v63" then
    match a.toNat? with
    | some n =>
      let lim := if k == "v31" then max31 else max63
      if n > lim then some "err range"
      else
        let raw := putUvarintF 9 n ++ [0xaa]
        some (varintRes (if k == "v31" then readVarint31 raw else readVarint63 raw))
    | none => some "bad-op"
  else if k == "v31r" || k == "v63r" then
    match rawArg a with
    | some raw => some (varintRes (if k == "v31r" then readVarint31 raw else readVarint63 raw))
    | none => some "bad-op"
  else none

def codecStep (line : String) : String :=
  match (line.splitOn " ").filter (· ≠ "") with
  | [k, a] =>
    if let some r := varintOp k a then r else
    -- batch messages: the JSON layer around the raw entries is third-party (not modelled); the
    -- property is that GetHeaders / GetBlocks never panic
    if k == "msghdrs" || k == "msgblks" then "nopanic"
    else if k == "msg" || k == "cmsg" then
      match rawArg a with
      | some bz => msgOp bz
      | none => "bad-op"
    else if k == "msgtx" then codecOp "tx" (if a == "-" then [] else textOf a)
    else if k == "msgblk" || k == "msgmined" || k == "cmsgblk" then codecOp "blk" (if a == "-" then [] else textOf a)
    else if k == "txr" || k == "txdr" || k == "hdrr" || k == "blkr" then
      match rawArg a with
      | some t => codecOp ((k.dropEnd 1).toString) t
      | none => "bad-op"
    else codecOp k (if a == "-" then [] else textOf a)
  | _ => "bad-op"

end BytomModel.CodecDump
