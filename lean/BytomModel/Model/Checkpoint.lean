/-
M-Ckpt — executable model of protocol/state/checkpoint.go and reward.go, of
validation.checkCoinbaseAmount / checkoutRewardCoinbase (protocol/validation/block.go) and of
the reward part of proposal.createCoinbaseTx (proposal/proposal.go).

 * Go maps (`Votes`, `Rewards`, the validator's `outputMap`) are association lists with
   distinct keys; every place where Go ranges over a map takes the iteration order as an
   explicit permutation parameter or is proved independent of it (Props/C15, Props/C14).
 * keys (hex strings of public keys / control programs) are byte strings `List Nat`; Go's
   string comparison of two lower-case hex encodings is the lexicographic comparison of
   the bytes (`ltB`).
 * uint64 arithmetic is `Nat` with explicit `% 2^64`; Go panics (division by zero in
   getValidatorOrder / `%` by BlocksOfEpoch = 0, index out of range in applyValidatorReward)
   are explicit outcomes.
 * the float64 subsidy `validatorReward()` is a parameter of `increase` (the harness passes
   the Go-computed integer; Props/C14 bounds it).
Core Lean only.
-/
namespace BytomModel.Model.Checkpoint

abbrev Key := List Nat
def u64 : Nat := 2 ^ 64

/-- lexicographic `<` on byte strings (Go's `<` on strings) -/
def ltB : Key → Key → Bool
  | [], [] => false
  | [], _ :: _ => true
  | _ :: _, [] => false
  | a :: s, b :: t => if a < b then true else if b < a then false else ltB s t

/-! ### Go map[string]uint64 -/
abbrev KMap := List (Key × Nat)

def kget : KMap → Key → Option Nat
  | [], _ => none
  | (b, w) :: t, a => if b = a then some w else kget t a

def kset : KMap → Key → Nat → KMap
  | [], a, v => [(a, v)]
  | (b, w) :: t, a, v => if b = a then (b, v) :: t else (b, w) :: kset t a v

def kdel : KMap → Key → KMap
  | [], _ => []
  | (b, w) :: t, a => if b = a then t else (b, w) :: kdel t a

/-- `m[k] += v` in uint64 (missing key reads 0) -/
def kadd (m : KMap) (k : Key) (v : Nat) : KMap := kset m k (((kget m k).getD 0 + v) % u64)

/-! ### parameters (consensus.ActiveNetParams) -/
structure Params where
  interval : Nat        -- BlockTimeInterval
  minVotes : Nat        -- MinValidatorVoteNum
  epoch : Nat           -- BlocksOfEpoch
  maxValidators : Nat   -- consensus.MaxNumOfValidators
  federation : List Key -- FederationXpubs (as strings)
  deriving Repr, Inhabited

inductive Status | growing | unjustified | justified | finalized
  deriving DecidableEq, Repr, Inhabited

structure Checkpoint where
  height : Nat
  timestamp : Nat
  status : Status
  votes : KMap
  rewards : KMap
  deriving Repr, Inhabited, DecidableEq

structure Validator where
  pubKey : Key
  order : Nat
  voteNum : Nat
  deriving Repr, Inhabited, DecidableEq

/-! ### transactions and blocks as far as checkpoints look at them -/
structure CTx where
  vetoes : List (Key × Nat)   -- VetoInput: (Vote, Amount), in input order
  votes : List (Key × Nat)    -- VoteOutput: (Vote, Amount), in output order
  fee : Nat                   -- TxData.Fee() (C01)
  deriving Repr, Inhabited

/-- an output of the block's first transaction -/
structure COut where
  original : Bool   -- OutputType() == OriginalOutputType
  btm : Bool        -- asset is BTM
  amount : Nat
  program : Key
  deriving Repr, Inhabited, DecidableEq

structure CBlock where
  height : Nat
  timestamp : Nat
  txs : List CTx
  outs0 : List COut     -- outputs of Transactions[0] (empty if there is no transaction)
  deriving Repr, Inhabited

/-! ### NewCheckpoint / applyVotes -/

/-- `NewCheckpoint(parent)`: inherits the non-zero votes, empty reward table, Growing -/
def newCheckpoint (parent : Checkpoint) : Checkpoint :=
  { height := parent.height, timestamp := parent.timestamp, status := .growing,
    votes := parent.votes.filter (fun p => p.2 ≠ 0), rewards := [] }

def applyVeto (m : KMap) (v : Key × Nat) : KMap :=
  if (kget m v.1).getD 0 > v.2 then kset m v.1 ((kget m v.1).getD 0 - v.2) else kdel m v.1

def applyVote (m : KMap) (v : Key × Nat) : KMap := kadd m v.1 v.2

def applyTxVotes (m : KMap) (tx : CTx) : KMap := tx.votes.foldl applyVote (tx.vetoes.foldl applyVeto m)

/-- `Checkpoint.applyVotes(block)` -/
def applyVotes (m : KMap) (txs : List CTx) : KMap := txs.foldl applyTxVotes m

/-! ### AllValidators / EffectiveValidators -/

/-- the `less` closure of `sort.Slice` in AllValidators: more votes first, then larger key -/
def before (a b : Validator) : Bool :=
  if a.voteNum ≠ b.voteNum then a.voteNum > b.voteNum else ltB b.pubKey a.pubKey

def insertV (x : Validator) : List Validator → List Validator
  | [] => [x]
  | y :: t => if before x y then x :: y :: t else y :: insertV x t

def sortV : List Validator → List Validator
  | [] => []
  | x :: t => insertV x (sortV t)

/-- candidates in the order the map iteration yields them -/
def candidates (p : Params) (votes : KMap) : List Validator :=
  (votes.filter (fun e => e.2 ≥ p.minVotes)).map (fun e => { pubKey := e.1, order := 0, voteNum := e.2 })

/-- `AllValidators()`; `iter` is the iteration order of `range c.Votes` -/
def allValidators (p : Params) (iter : KMap → KMap) (c : Checkpoint) : List Validator :=
  if c.status = .growing then [] else sortV (candidates p (iter c.votes))

def setOrders : Nat → List Validator → List Validator
  | _, [] => []
  | i, v :: t => { v with order := i } :: setOrders (i + 1) t

/-- `federationValidators()` as a map pubKey → Validator (a repeated key keeps its position
    but takes the later index, as a Go map assignment does) -/
def fedInsert (m : List Validator) (k : Key) (i : Nat) : List Validator :=
  match m with
  | [] => [{ pubKey := k, order := i, voteNum := 0 }]
  | v :: t => if v.pubKey = k then { v with order := i } :: t else v :: fedInsert t k i

def federationFrom : Nat → List Key → List Validator → List Validator
  | _, [], m => m
  | i, k :: t, m => federationFrom (i + 1) t (fedInsert m k i)

def federationValidators (p : Params) : List Validator := federationFrom 0 p.federation []

/-- `EffectiveValidators()` (the returned Go map, listed by insertion) -/
def effectiveValidators (p : Params) (iter : KMap → KMap) (c : Checkpoint) : List Validator :=
  let vs := allValidators p iter c
  if vs.isEmpty then federationValidators p else setOrders 0 (vs.take p.maxValidators)

/-! ### slots -/

inductive Slot
  | validator (v : Validator)
  | nil          -- "this should never happen": no validator carries the order
  | panic        -- integer divide by zero
  deriving Repr, DecidableEq

/-- `getValidatorOrder` in uint64; `none` = division by zero -/
def getValidatorOrder (interval start ts n : Nat) : Option Nat :=
  let round := (n * interval) % u64
  if round = 0 then none else
  let lastRound := (start + ((ts + u64 - start) % u64) / round * round) % u64
  if interval = 0 then none else
  some (((ts + u64 - lastRound) % u64) / interval)

/-- Go's `int(order)` for a uint64 on a 64-bit platform -/
def toInt (x : Nat) : Int := if x < 2 ^ 63 then (x : Int) else (x : Int) - 2 ^ 64

/-- `Checkpoint.GetValidator(timeStamp)` (all arguments are uint64 values) -/
def getValidator (p : Params) (iter : KMap → KMap) (c : Checkpoint) (ts : Nat) : Slot :=
  let vs := effectiveValidators p iter c
  let start := (c.timestamp + p.interval) % u64
  match getValidatorOrder p.interval start ts vs.length with
  | none => .panic
  | some order =>
    match vs.find? (fun v => (v.order : Int) = toInt order) with
    | some v => .validator v
    | none => .nil

/-! ### rewards -/

inductive Outcome (α : Type)
  | ok (a : α)
  | err          -- errIncreaseCheckpoint / ErrWrongCoinbaseTransaction
  | panic        -- index out of range, integer divide by zero
  deriving Repr, DecidableEq

/-- `applyValidatorReward(block)` with the subsidy `validatorReward()` as a parameter -/
def applyValidatorReward (rewards : KMap) (b : CBlock) (subsidy : Nat) : Outcome KMap :=
  match b.txs, b.outs0 with
  | [], _ => .panic
  | _ :: _, [] => .panic
  | _ :: _, o :: _ =>
    let r := b.txs.foldl (fun m tx => kadd m o.program tx.fee) rewards
    .ok (kadd r o.program subsidy)

/-- `Checkpoint.Increase(block)` after the PreviousBlockHash test (`prevOk`) -/
def increase (p : Params) (c : Checkpoint) (b : CBlock) (prevOk : Bool) (subsidy : Nat) : Outcome Checkpoint :=
  if prevOk = false then .err else
  if p.epoch = 0 then .panic else
  let st := if b.height % p.epoch = 0 then Status.unjustified else c.status
  let votes := applyVotes c.votes b.txs
  match applyValidatorReward c.rewards b subsidy with
  | .panic => .panic
  | .err => .err
  | .ok r => .ok { height := b.height, timestamp := b.timestamp, status := st, votes := votes, rewards := r }

/-- total the validator's `pledgeRate()` sums (uint64) and its total supply expression -/
def totalVotes (m : KMap) : Nat := m.foldl (fun acc e => (acc + e.2) % u64) 0

/-! ### the validator's side: checkCoinbaseAmount -/

/-- `outputMap` of checkoutRewardCoinbase -/
def outputMapFrom : Nat → List COut → KMap → KMap
  | _, [], m => m
  | i, o :: t, m => outputMapFrom (i + 1) t (if i = 0 ∧ o.amount = 0 then m else kadd m o.program o.amount)

/-- `checkoutRewardCoinbase(tx, checkpoint)` -/
def checkoutRewardCoinbase (outs : List COut) (rewards : KMap) : Bool :=
  let om := outputMapFrom 0 outs []
  om.length = rewards.length ∧ rewards.all (fun e => (kget om e.1).getD 0 = e.2)

/-- `checkCoinbaseAmount(b, checkpoint)`; `hasTx`: the block has a first transaction -/
def checkCoinbaseAmount (p : Params) (height : Nat) (hasTx : Bool) (outs : List COut) (rewards : KMap) : Outcome Unit :=
  if hasTx = false then .err else
  if outs.any (fun o => o.original = false ∨ o.btm = false) then .err else
  if p.epoch = 0 then .panic else
  if height % p.epoch ≠ 1 then
    match outs with
    | [o] => if o.amount ≠ 0 then .err else .ok ()
    | _ => .err
  else if checkoutRewardCoinbase outs rewards then .ok () else .err

/-! ### the proposer's side: createCoinbaseTx -/

def payRewards (script : Key) : List (Key × Nat) → List COut → List COut
  | [], outs => outs
  | (cp, amount) :: t, outs =>
    if cp = script then
      match outs with
      | o :: rest => payRewards script t ({ o with amount := amount } :: rest)
      | [] => payRewards script t []
    else payRewards script t (outs ++ [{ original := true, btm := true, amount := amount, program := cp }])

/-- outputs of the coinbase transaction `createCoinbaseTx` builds; `iter` = iteration order of
    `range checkpoint.Rewards`; `none` = `%` by zero -/
def createCoinbaseOutputs (p : Params) (iter : KMap → KMap) (height : Nat) (script : Key) (rewards : KMap) : Option (List COut) :=
  let first : COut := { original := true, btm := true, amount := 0, program := script }
  if p.epoch = 0 then none else
  if height % p.epoch = 1 ∧ height ≠ 1 then some (payRewards script (iter rewards) [first]) else some [first]

end BytomModel.Model.Checkpoint
