/- Executable model of protocol/orphan_manage.go WITH the capacity limit, least-recently-added
   eviction (deleteLRU) and expiry (orphanExpire) - the parts Model/Node.lean leaves out.
   Core Lean only. Ids are small naturals (the harness maps block hashes to them); the wall
   clock is the count of Add calls so far (expiration = arrival number), which is what the
   harness arranges on the real OrphanManage (strictly increasing time.Now readings). -/
namespace BytomModel.Model.OrphanPool

structure Orphan where
  id : Nat
  parent : Nat
  exp : Nat
deriving Repr, DecidableEq, Inhabited

/-- prevOrphans: parent id ↦ waiting children, stored order (value model of the Go map). -/
abbrev Idx := List (Nat × List Nat)

def Idx.get (m : Idx) (p : Nat) : Option (List Nat) := (m.find? (fun e => e.1 == p)).map (·.2)
def Idx.erase (m : Idx) (p : Nat) : Idx := m.filter (fun e => e.1 != p)
def Idx.set (m : Idx) (p : Nat) (l : List Nat) : Idx := (p, l) :: Idx.erase m p

structure Pool where
  limit : Nat
  clock : Nat
  orphans : List Orphan      -- arrival order
  idx : Idx
deriving Repr

def Pool.init (limit : Nat) : Pool := { limit := limit, clock := 0, orphans := [], idx := [] }

def Pool.find (s : Pool) (h : Nat) : Option Orphan := s.orphans.find? (fun o => o.id == h)

/-- `(*OrphanManage).delete` -/
def Pool.delete (s : Pool) (h : Nat) : Pool :=
  match s.find h with
  | none => s
  | some o =>
    let os := s.orphans.filter (fun x => x.id != h)
    match Idx.get s.idx o.parent with
    | none => { s with orphans := os, idx := Idx.erase s.idx o.parent }
    | some l =>
      if l.length == 1 then { s with orphans := os, idx := Idx.erase s.idx o.parent }
      else if l.contains h then { s with orphans := os, idx := Idx.set s.idx o.parent (l.erase h) }
      else { s with orphans := os }

/-- the entry deleteLRU picks: smallest expiration, the earlier one on a tie -/
def minExp : List Orphan → Option Orphan
  | [] => none
  | o :: os =>
    match minExp os with
    | none => some o
    | some m => if m.exp < o.exp then some m else some o

/-- `(*OrphanManage).deleteLRU` -/
def Pool.deleteLRU (s : Pool) : Pool :=
  match minExp s.orphans with
  | none => s
  | some o => s.delete o.id

/-- `(*OrphanManage).Add` (the clock ticks on every call) -/
def Pool.add (s : Pool) (h p : Nat) : Pool :=
  let s0 : Pool := { s with clock := s.clock + 1 }
  if (s0.find h).isSome then s0 else
  let s1 := if s0.orphans.length ≥ s0.limit then s0.deleteLRU else s0
  { s1 with orphans := s1.orphans ++ [{ id := h, parent := p, exp := s1.clock }],
            idx := Idx.set s1.idx p ((Idx.get s1.idx p).getD [] ++ [h]) }

/-- `(*OrphanManage).orphanExpire(now)` with `now` = the reading taken after the k-th Add -/
def Pool.expire (s : Pool) (k : Nat) : Pool :=
  (s.orphans.filter (fun o => o.exp ≤ k)).foldl (fun acc o => acc.delete o.id) s

inductive Op where
  | add (h p : Nat)
  | del (h : Nat)
  | expire (k : Nat)
deriving Repr

def Pool.step (s : Pool) : Op → Pool
  | .add h p => s.add h p
  | .del h => s.delete h
  | .expire k => s.expire k

def Pool.run (s : Pool) (ops : List Op) : Pool := ops.foldl Pool.step s

/-- children waiting under `p`, as the pool itself says (arrival order) -/
def group (os : List Orphan) (p : Nat) : Option (List Nat) :=
  let l := (os.filter (fun o => o.parent == p)).map (·.id)
  if l.isEmpty then none else some l

end BytomModel.Model.OrphanPool
