/-
M-TxVal, entry level — `validation.ValidateTx` over an EXPLICIT entry graph.

`Model/TxValidate.lean` describes a transaction as `MapTx` builds it, where the cross
references between entries hold by construction. Here every value / reference / position
field that `checkValid`, `checkValidSrc` and `checkValidDest` compare is a field of its
own, so that entry graphs that were NOT produced by MapTx (a mapped transaction with one
field of one entry changed in place) are covered:

  per input i (entry behind `tx.InputIDs[i]` and `mux.Sources[i]`)
    pv        value held by the consumed output: `spentOutput.Source.Value` (spend, veto);
              `Issuance.Value` for an issuance
    wd        `WitnessDestination.Value`      wdPos  `WitnessDestination.Position`
    wdRefOk   `WitnessDestination.Ref` is the mux (false: an unknown hash)
    wdNil     coinbase whose WitnessDestination was never set (an earlier coinbase input)
    ms        `mux.Sources[i].Value`          msPos  `mux.Sources[i].Position`
    msRef     index of the input entry `mux.Sources[i].Ref` names (≥ #inputs: unknown hash)
  per output j (entry behind `ResultIds[j]` and `mux.WitnessDestinations[j]`)
    base.asset/amount  `output.Source.Value`  srcPos `output.Source.Position`
    srcRefOk  `output.Source.Ref` is the mux
    dv        `mux.WitnessDestinations[j].Value`   dstPos  its Position
    dstRef    index of the result entry its Ref names (≥ #outputs: unknown hash)

`ofTx` is the graph MapTx builds; `validateE (ofTx tx)` is compared with `validateTx tx` by
the driver on every transaction of the stream and proved equal where stated in Props/C01.
Core Lean only.
-/
import BytomModel.Model.TxValidate

namespace BytomModel.Model.TxEntries
open BytomModel.Fixed BytomModel.Gen.Checked BytomModel.Model.TxValidate

abbrev Val := Nat × Nat   -- (asset, amount)

structure EIn where
  base : Input      -- kind, issuance's computed asset (`asset`), program verdict/cost, x, id
  pv : Val
  wd : Val
  wdPos : Nat
  wdRefOk : Bool
  wdNil : Bool
  ms : Val
  msPos : Nat
  msRef : Nat
  deriving Repr, Inhabited

structure EOut where
  base : Output     -- kind, voteLen; asset/amount = output.Source.Value
  srcPos : Nat
  srcRefOk : Bool
  dv : Val
  dstPos : Nat
  dstRef : Nat
  deriving Repr, Inhabited

structure ETx where
  version : Nat
  size : Nat
  timeRange : Nat
  ins : List EIn
  outs : List EOut
  deriving Repr, Inhabited

def EOut.val (o : EOut) : Val := (o.base.asset, o.base.amount)

/-! ### the graph MapTx builds -/

def insFrom (outs : List Output) (src0 : Val) : Nat → List Input → List EIn
  | _, [] => []
  | i, inp :: rest =>
    let ms := muxSource outs inp
    { base := inp, pv := ms, wd := if inp.kind = .coinbase then src0 else ms,
      wdPos := if inp.kind = .coinbase then 0 else i, wdRefOk := true,
      wdNil := inp.kind = .coinbase ∧ hasCoinbase rest,
      ms := ms, msPos := 0, msRef := i } :: insFrom outs src0 (i + 1) rest

def outsFrom : Nat → List Output → List EOut
  | _, [] => []
  | j, o :: rest =>
    { base := o, srcPos := j, srcRefOk := true, dv := muxDest o, dstPos := 0, dstRef := j } :: outsFrom (j + 1) rest

def ofTx (tx : Tx) : ETx :=
  let src0 : Val := match tx.inputs with
    | [] => (btm, 0)
    | i :: _ => muxSource tx.outputs i
  { version := tx.version, size := tx.size, timeRange := tx.timeRange,
    ins := insFrom tx.outputs src0 0 tx.inputs, outs := outsFrom 0 tx.outputs }

/-! ### the validator over the explicit graph -/

/-- `checkValidDest` for an input's WitnessDestination (`vs.entryID` = input `r`, `destPos` 0) -/
def inputDestCheck (tx : ETx) (r : Nat) (i : EIn) : Except Err Unit :=
  if i.wdRefOk = false then .error .missingentry else
  match tx.ins[i.wdPos]? with
  | none => .error .position
  | some s =>
    if s.msRef ≠ r then .error .mismatchedref
    else if s.msPos ≠ 0 then .error .mismatchedposition
    else if s.ms ≠ i.wd then .error .mismatchedvalue
    else .ok ()

/-- `checkValid` of the input entry with index `r` -/
def checkEntryIn (ctx : Ctx) (tx : ETx) (r : Nat) (g : Gas) (i : EIn) : Except Err Gas :=
  match i.base.kind with
  | .spend =>
    match runVM g i.base with
    | .error e => .error e
    | .ok g' =>
      if i.pv ≠ i.wd then .error .mismatchedvalue else
      match inputDestCheck tx r i with
      | .error e => .error e
      | .ok _ => .ok g'
  | .veto =>
    if i.base.x ≠ voteKeyLen then .error .votepubkey else
    match runVM g i.base with
    | .error e => .error e
    | .ok g' =>
      if i.pv ≠ i.wd then .error .mismatchedvalue else
      match inputDestCheck tx r i with
      | .error e => .error e
      | .ok _ => .ok g'
  | .issue =>
    if i.pv.1 ≠ i.base.asset then .error .mismatchedassetid else
    match runVM g i.base with
    | .error e => .error e
    | .ok g' =>
      match inputDestCheck tx r i with
      | .error e => .error e
      | .ok _ => .ok g'
  | .coinbase =>
    if ctx.first = false then .error .wrongcoinbase
    else if i.wdNil then .error .panic
    else if i.wd.1 ≠ btm then .error .wrongcoinbaseasset
    else if i.base.x > coinbaseArbitrarySizeLimit then .error .arbitrary
    else match inputDestCheck tx r i with
      | .error e => .error e
      | .ok _ => .ok { g with storageGas := 0 }

/-- the `for i, src := range e.Sources { checkValidSrc }` loop; `done` = input entries already
    validated (`vs.cache`) -/
def checkSourcesE (ctx : Ctx) (tx : ETx) : Nat → Gas → List Nat → List EIn → Except Err Gas
  | _, g, _, [] => .ok g
  | i, g, done, s :: rest =>
    match tx.ins[s.msRef]? with
    | none => .error .missingentry
    | some inp =>
      let res : Except Err Gas := if done.contains s.msRef then .ok g else checkEntryIn ctx tx s.msRef g inp
      match res with
      | .error e => .error e
      | .ok g' =>
        if s.msPos ≠ 0 then .error .position
        else if inp.wdRefOk = false then .error .mismatchedref
        else if inp.wdPos ≠ i then .error .mismatchedposition
        else if inp.wd ≠ s.ms then .error .mismatchedvalue
        else checkSourcesE ctx tx (i + 1) g' (s.msRef :: done) rest

/-- the `for i, dest := range e.WitnessDestinations { checkValidDest }` loop -/
def checkDestsE (tx : ETx) : Nat → List EOut → Except Err Unit
  | _, [] => .ok ()
  | j, d :: rest =>
    match tx.outs[d.dstRef]? with
    | none => .error .missingentry
    | some o =>
      if d.dstPos ≠ 0 then .error .position
      else if o.srcRefOk = false then .error .mismatchedref
      else if o.srcPos ≠ j then .error .mismatchedposition
      else if o.val ≠ d.dv then .error .mismatchedvalue
      else checkDestsE tx (j + 1) rest

/-- `case *bc.Mux` -/
def checkMuxE (ctx : Ctx) (order : PMap → PMap) (tx : ETx) : Except Err Gas :=
  match addSources [] (tx.ins.map (·.ms)) with
  | .error e => .error e
  | .ok m1 =>
    match subDests m1 (tx.outs.map (·.dv)) with
    | .error e => .error e
    | .ok m2 =>
      match parityLoop (wrapI 64 tx.size) Gas.zero (order m2) with
      | .error e => .error e
      | .ok g1 =>
        match checkDestsE tx 0 tx.outs with
        | .error e => .error e
        | .ok _ =>
          match checkSourcesE ctx tx 0 g1 [] tx.ins with
          | .error e => .error e
          | .ok g2 => chargeStorageGas g2

/-- the result loop of `case *bc.TxHeader` -/
def checkResultsE (ctx : Ctx) (order : PMap → PMap) (tx : ETx) : Nat → Option Gas → List EOut → Except Err (Option Gas)
  | _, st, [] => .ok st
  | j, st, o :: rest =>
    if o.base.kind = .vote ∧ o.base.voteLen ≠ voteKeyLen then .error .votepubkey else
    if o.srcRefOk = false then .error .missingentry else
    let muxRes : Except Err Gas := match st with
      | some g => .ok g
      | none => checkMuxE ctx order tx
    match muxRes with
    | .error e => .error e
    | .ok g =>
      match tx.outs[o.srcPos]? with
      | none => .error .position
      | some d =>
        if d.dstRef ≠ j then .error .mismatchedref
        else if d.dstPos ≠ 0 then .error .mismatchedposition
        else if d.dv ≠ o.val then .error .mismatchedvalue
        else if o.base.kind = .vote ∧ o.base.amount < minVoteOutputAmount then .error .voteamount
        else if o.base.kind = .vote ∧ o.base.asset ≠ btm then .error .voteasset
        else checkResultsE ctx order tx (j + 1) (some g) rest

/-- `validation.ValidateTx` on an explicit entry graph -/
def validateE (ctx : Ctx) (order : PMap → PMap) (tx : ETx) : Except Err Gas :=
  if ctx.blockVersion = 1 ∧ tx.version ≠ 1 then .error .txversion
  else if tx.size = 0 then .error .size
  else if tx.timeRange ≠ 0 ∧ tx.timeRange < ctx.blockHeight then .error .timerange
  else if hasDup (tx.ins.map (·.base.id)) then .error .doublespend
  else match checkResultsE ctx order tx 0 none tx.outs with
    | .error e => .error e
    | .ok st =>
      if tx.version = 1 ∧ tx.outs.isEmpty then .error .emptyresults
      else .ok (st.getD Gas.zero)

/-! ### single-field mutations of an entry graph (what the harness does to the real bc.Tx) -/

inductive Mut
  | pv (i : Nat) (v : Val) | wd (i : Nat) (v : Val) | wdpos (i p : Nat) | wdref (i : Nat)
  | ms (i : Nat) (v : Val) | mspos (i p : Nat) | msref (i r : Nat)
  | ov (j : Nat) (v : Val) | srcpos (j p : Nat) | srcref (j : Nat)
  | dv (j : Nat) (v : Val) | dstpos (j p : Nat) | dstref (j r : Nat)
  deriving Repr

def modifyAt {α : Type} (f : α → α) : Nat → List α → List α
  | _, [] => []
  | 0, a :: t => f a :: t
  | n + 1, a :: t => a :: modifyAt f n t

def applyMut (tx : ETx) : Mut → ETx
  | .pv i v => { tx with ins := modifyAt (fun e => { e with pv := v }) i tx.ins }
  | .wd i v => { tx with ins := modifyAt (fun e => { e with wd := v }) i tx.ins }
  | .wdpos i p => { tx with ins := modifyAt (fun e => { e with wdPos := p }) i tx.ins }
  | .wdref i => { tx with ins := modifyAt (fun e => { e with wdRefOk := false }) i tx.ins }
  | .ms i v => { tx with ins := modifyAt (fun e => { e with ms := v }) i tx.ins }
  | .mspos i p => { tx with ins := modifyAt (fun e => { e with msPos := p }) i tx.ins }
  | .msref i r => { tx with ins := modifyAt (fun e => { e with msRef := r }) i tx.ins }
  | .ov j v => { tx with outs := modifyAt (fun e => { e with base := { e.base with asset := v.1, amount := v.2 } }) j tx.outs }
  | .srcpos j p => { tx with outs := modifyAt (fun e => { e with srcPos := p }) j tx.outs }
  | .srcref j => { tx with outs := modifyAt (fun e => { e with srcRefOk := false }) j tx.outs }
  | .dv j v => { tx with outs := modifyAt (fun e => { e with dv := v }) j tx.outs }
  | .dstpos j p => { tx with outs := modifyAt (fun e => { e with dstPos := p }) j tx.outs }
  | .dstref j r => { tx with outs := modifyAt (fun e => { e with dstRef := r }) j tx.outs }

end BytomModel.Model.TxEntries
