/-
M-Spend (C02) — how `validation.ValidateTx` validates a transaction whose inputs are spends:

  protocol/validation/vmcontext.go   convertProgram, NewTxVMContext (case *bc.Spend), txSigHashFn
  protocol/validation/tx.go          ValidateTx, checkValid (TxHeader, Mux, OriginalOutput,
                                     Retirement, VoteOutput, Spend), GasState
  protocol/bc/tx.go                  SigHash

It only composes models owned by other builders and validated on their own:
  M-VM     (`Model/VM/*`)        `verifyFuel` on the value memory,
  M-Asm    (`Model/Asm`, `Model/StdProgs`)  recognisers and segwit conversions,
  M-Entry  (`Model/Entry`)       entry ids / `mapTx` / `sigHash`,
  M-TxVal  (`Model/TxValidate`)  the mux parity loops and the gas bookkeeping.
Ed25519 verification and the three hash functions are parameters (`Crypto`). Core Lean only.
-/
import BytomModel.Model.VM.Run
import BytomModel.Model.StdProgs
import BytomModel.Model.Entry
import BytomModel.Model.TxValidate

namespace BytomModel.Spend
open BytomModel.VM

/-- the external cryptography: `ed25519.Verify pk msg sig`, SHA-256, SHA3-256, RIPEMD-160 -/
structure Crypto where
  verify : Bytes → Bytes → Bytes → Bool
  sha256 : Bytes → Bytes
  sha3 : Bytes → Bytes
  ripemd160 : Bytes → Bytes

/-- `validation.convertProgram`; `converter` is the contract converter (`none` = it returned
    an error); the result `none` is a Go panic inside a segwit conversion (unreachable after
    the recogniser said yes: `Props.C09.convert_p2wpkh / convert_p2wsh`) -/
def convertProgram (converter : Bytes → Option Bytes) (prog : Bytes) : Option Bytes :=
  if Asm.isP2WPKHScript prog then
    match StdProgs.convertP2PKHSigProgram prog with
    | .ok w => some w
    | .error .panic => none
    | .error _ => some prog
  else if Asm.isP2WSHScript prog then
    match StdProgs.convertP2SHProgram prog with
    | .ok w => some w
    | .error .panic => none
    | .error _ => some prog
  else if Asm.isCallContractScript prog then
    match converter prog with
    | some w => some w
    | none => some prog
  else some prog

/-- what `NewTxVMContext` reads for a `*bc.Spend` entry -/
structure SpendInfo where
  /-- `spentOutput.ControlProgram.VmVersion` -/
  vmVersion : Nat
  /-- the context's `Code`: the CONVERTED control program -/
  code : Bytes
  stateData : List Bytes
  /-- `e.WitnessArguments` -/
  args : List Bytes
  /-- id of the spend entry -/
  entryID : Bytes
  assetID : Bytes
  amount : Nat
  /-- `e.WitnessDestination.Position` = the input's ordinal -/
  destPos : Nat
  spentOutputID : Bytes

abbrev CheckOutputFn := Nat → Nat → Bytes → Nat → Bytes → List Bytes → Bool → Except Err Bool

/-- the kinds of entry `NewTxVMContext` is called for (tx.go: `case *bc.Issuance`, `*bc.Spend`,
    `*bc.VetoInput`) -/
inductive EntryKind where
  | spend | veto | issuance
  deriving DecidableEq, Repr

/-- the `vm.Context` of `NewTxVMContext`. `sigHash` is the value `txSigHashFn` returns; `co` is
    the `CheckOutput` callback (the standard programs never call it).
    * `Code` is `convertProgram(prog.Code, …)` for EVERY kind: the call sits in the `vm.Context`
      literal, not in the type switch (`s.code` is the converted program).
    * the type switch over the entry has arms for `*bc.Issuance` and `*bc.Spend` only: for a veto
      input `AssetID`, `Amount`, `DestPos`, `SpentOutputID` stay nil; an issuance has no
      `SpentOutputID`. (Tied to the source by Ties/C02 `context_switch_tie`.) -/
def inputContext (cr : Crypto) (co : Option CheckOutputFn) (kind : EntryKind) (txVersion blockHeight : Nat)
    (sigHash : Bytes) (s : SpendInfo) : Context Bytes :=
  { vmVersion := s.vmVersion, code := s.code, stateData := s.stateData, arguments := s.args,
    entryID := s.entryID, txVersion := some txVersion, blockHeight := some blockHeight,
    assetID := (match kind with | .veto => none | _ => some s.assetID),
    amount := (match kind with | .veto => none | _ => some s.amount),
    destPos := (match kind with | .veto => none | _ => some s.destPos),
    spentOutputID := (match kind with | .spend => some s.spentOutputID | _ => none),
    txSigHash := some sigHash, checkOutput := co,
    verifySig := cr.verify, sha256 := cr.sha256, sha3 := cr.sha3, ripemd160 := cr.ripemd160 }

/-- `vm.Verify(NewTxVMContext(...), gasLimit)` on the value memory; `none` = out of fuel -/
def verifyInput (cr : Crypto) (co : Option CheckOutputFn) (fuel : Nat) (kind : EntryKind) (txVersion blockHeight : Nat)
    (sigHash : Bytes) (s : SpendInfo) (gasLimit : Int) : Option (VerifyResult Unit Bytes) :=
  verifyFuel valueMem (inputContext cr co kind txVersion blockHeight sigHash s) fuel () gasLimit

/-- the spend instance -/
abbrev spendContext (cr : Crypto) (co : Option CheckOutputFn) (txVersion blockHeight : Nat) (sigHash : Bytes)
    (s : SpendInfo) : Context Bytes := inputContext cr co .spend txVersion blockHeight sigHash s

abbrev verifySpend (cr : Crypto) (co : Option CheckOutputFn) (fuel : Nat) (txVersion blockHeight : Nat)
    (sigHash : Bytes) (s : SpendInfo) (gasLimit : Int) : Option (VerifyResult Unit Bytes) :=
  verifyInput cr co fuel .spend txVersion blockHeight sigHash s gasLimit

/-! ### the whole of ValidateTx for transactions of spends, vetoes and issuances -/

/-- one input as `checkValid` sees it: its kind, the vote key length of the spent vote output
    (veto), and the context data (`none` = a panic inside a segwit conversion) -/
structure InputInfo where
  kind : EntryKind
  voteLen : Nat
  info : Option SpendInfo

open BytomModel.Codec hiding Bytes in
open BytomModel.Entry in
/-- the inputs of a transaction with what the VM context needs, `none` if some input is a
    coinbase or untyped; `ids` are the input entry ids of `mapTx` -/
def inputInfos (H : Bytes → Bytes) (converter : Bytes → Option Bytes) :
    Nat → List TxInput → List Bytes → Option (List InputInfo)
  | _, [], _ => some []
  | ord, i :: rest, ids =>
    match ids with
    | [] => none
    | id :: ids' =>
      let one : Option InputInfo :=
        match i.typed with
        | some (.spend sc _ args) =>
          some ⟨.spend, 0, (convertProgram converter sc.program).map fun code =>
            { vmVersion := sc.vmVersion, code := code, stateData := sc.stateData, args := args,
              entryID := id, assetID := sc.assetID, amount := sc.amount, destPos := ord,
              spentOutputID := prevoutID H sc none }⟩
        | some (.veto sc _ vote args) =>
          some ⟨.veto, vote.length, (convertProgram converter sc.program).map fun code =>
            { vmVersion := sc.vmVersion, code := code, stateData := sc.stateData, args := args,
              entryID := id, assetID := sc.assetID, amount := sc.amount, destPos := ord,
              spentOutputID := prevoutID H sc (some vote) }⟩
        | some (.issuance _ amount assetDef vm prog args) =>
          some ⟨.issuance, 0, (convertProgram converter prog).map fun code =>
            { vmVersion := vm, code := code, stateData := [], args := args,
              entryID := id, assetID := issuanceAssetID H assetDef vm prog, amount := amount, destPos := ord,
              spentOutputID := [] }⟩
        | _ => none
      match one, inputInfos H converter (ord + 1) rest ids' with
      | some x, some l => some (x :: l)
      | _, _ => none

inductive Verdict where
  | ok (g : Model.TxValidate.Gas)
  | vm (e : Err)
  | val (e : Model.TxValidate.Err)
  | undecodable
  | panic
  | fuel
  | unsupported
  deriving Repr

open Model.TxValidate in
def Verdict.line : Verdict → String
  | .ok g => s!"ok {g.btmValue} {g.gasLeft} {g.gasUsed} {g.storageGas}"
  | .vm e => "vm:" ++ e.name
  | .val e => "val:" ++ e.name
  | .undecodable => "undecodable"
  | .panic => "panic"
  | .fuel => "fuel"
  | .unsupported => "unsupported"

/-- asset ids as the classes of M-TxVal: 0 = BTM -/
def assetClass (a : Bytes) : Nat := if a = Entry.btmAssetID then 0 else 1 + leToNat a

section
open Model.TxValidate
variable (cr : Crypto) (co : Option CheckOutputFn) (fuel : Nat)

/-- `case *bc.Spend` / `*bc.VetoInput` / `*bc.Issuance`: (veto: the spent vote output's key must
    have 64 bytes;) vm.Verify with the gas that is left, then `updateUsage` -/
def runSpend (txVersion blockHeight : Nat) (sigHash : Bytes) (g : Gas) (i : InputInfo) : Except Verdict Gas :=
  if i.kind = .veto ∧ i.voteLen ≠ voteKeyLen then .error (.val .votepubkey) else
  match i.info with
  | none => .error .panic
  | some s =>
    match verifyInput cr co fuel i.kind txVersion blockHeight sigHash s g.gasLeft with
    | none => .error .fuel
    | some r =>
      match r.err with
      | some e => .error (.vm e)
      | none =>
        match updateUsage g r.gasLeft with
        | .ok g' => .ok g'
        | .error e => .error (.val e)

/-- the `for i, src := range e.Sources` loop of `case *bc.Mux` -/
def runSpends (H : Bytes → Bytes) (txVersion blockHeight : Nat) (txid : Bytes) : Gas → List InputInfo → List Bytes → Except Verdict Gas
  | g, [], _ => .ok g
  | g, s :: rest, id :: ids =>
    match runSpend cr co fuel txVersion blockHeight (Entry.sigHash H id txid) g s with
    | .error v => .error v
    | .ok g' => runSpends H txVersion blockHeight txid g' rest ids
  | _, _ :: _, [] => .error .panic

def liftVal {α} : Except Model.TxValidate.Err α → Except Verdict α
  | .ok a => .ok a
  | .error e => .error (.val e)

open BytomModel.Codec hiding Bytes in
open BytomModel.Entry in
/-- `checkValid` `case *bc.Mux` -/
def checkMux (H : Bytes → Bytes) (blockHeight : Nat) (tx : TxData) (m : MappedTx)
    (infos : List InputInfo) (sources : List (Nat × Nat)) : Except Verdict Gas := do
  let m1 ← liftVal (addSources [] sources)
  let m2 ← liftVal (subDests m1 (tx.outputs.map fun o => (assetClass (outAsset o), outAmount o)))
  let g1 ← liftVal (parityLoop (Fixed.wrapI 64 tx.serializedSize) Gas.zero (btmFirst m2))
  let g2 ← runSpends cr co fuel H tx.version blockHeight m.id g1 infos m.inputIDs
  liftVal (chargeStorageGas g2)

open BytomModel.Codec hiding Bytes in
open BytomModel.Entry in
/-- the result loop of `case *bc.TxHeader`; the state is the memoised mux verdict -/
def checkResults (mux : Unit → Except Verdict Gas) : Option Gas → List TxOutput → Except Verdict (Option Gas)
  | st, [] => .ok st
  | st, o :: rest =>
    let isVote := !isUnspendable (outProg o) && (match o.typed with | .vote _ => true | .original => false)
    let voteLen := match o.typed with | .vote v => v.length | .original => 0
    if isVote ∧ voteLen ≠ voteKeyLen then .error (.val .votepubkey) else
    let muxRes : Except Verdict Gas := match st with
      | some g => .ok g
      | none => mux ()
    match muxRes with
    | .error e => .error e
    | .ok g =>
      if isVote ∧ outAmount o < minVoteOutputAmount then .error (.val .voteamount)
      else if isVote ∧ outAsset o ≠ btmAssetID then .error (.val .voteasset)
      else checkResults mux (some g) rest

def hasDupB : List Bytes → Bool
  | [] => false
  | a :: t => t.contains a || hasDupB t

open BytomModel.Codec hiding Bytes in
open BytomModel.Entry in
/-- `validation.ValidateTx(tx, block, converter)` for a decoded transaction whose inputs are
    spends, vetoes and issuances (a coinbase input: `unsupported`) -/
def validateSpendTx (H : Bytes → Bytes) (converter : Bytes → Option Bytes) (blockVersion blockHeight : Nat)
    (tx : TxData) : Verdict :=
  match mapTx H tx with
  | none => .panic
  | some m =>
    if blockVersion = 1 ∧ tx.version ≠ 1 then .val .txversion
    else if tx.serializedSize = 0 then .val .size
    else if tx.timeRange ≠ 0 ∧ tx.timeRange < blockHeight then .val .timerange
    else if hasDupB m.inputIDs then .val .doublespend
    else match inputInfos H converter 0 tx.inputs m.inputIDs with
      | none => .unsupported
      | some infos =>
        let sources := tx.inputs.filterMap fun i =>
          match i.typed with
          | some (.spend sc _ _) => some (assetClass sc.assetID, sc.amount)
          | some (.veto sc _ _ _) => some (assetClass sc.assetID, sc.amount)
          | some (.issuance _ amount assetDef vm prog _) => some (assetClass (issuanceAssetID H assetDef vm prog), amount)
          | _ => none
        match checkResults (fun _ => checkMux cr co fuel H blockHeight tx m infos sources) none tx.outputs with
        | .error v => v
        | .ok st =>
          if tx.version = 1 ∧ tx.outputs.isEmpty then .val .emptyresults
          else .ok (st.getD Gas.zero)

end
end BytomModel.Spend
