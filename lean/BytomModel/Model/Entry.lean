/-
M-Entry — entry ids of the entries-based transaction representation
(`protocol/bc/entry.go: EntryID / writeForHash`, the `writeForHash` methods of every entry
type in `protocol/bc/*.go`, `protocol/bc/types/map.go: MapTx / mapBlockHeader`,
`protocol/bc/tx.go: SigHash`). The hash function is a parameter `H`. Core Lean only.
-/
import BytomModel.Model.Codec

namespace BytomModel.Entry
open BytomModel.Codec

def ascii (s : String) : Bytes := s.toList.map (fun c => UInt8.ofNat c.toNat)

/-- `EntryID`: `H("entryid:" ++ typ ++ ":" ++ H(body))` -/
def entryID (H : Bytes → Bytes) (typ : Bytes) (body : Bytes) : Bytes :=
  H (ascii "entryid:" ++ typ ++ [58] ++ H body)

/-- `writeForHash` of `bc.ValueSource{Ref, Value{AssetId, Amount}, Position}`; a nil asset id
    is written as 32 zero bytes -/
def valueSource (ref asset : Bytes) (amount pos : Nat) : Bytes := ref ++ asset ++ le64 amount ++ le64 pos

def tOriginalOutput : Bytes := ascii "originalOutput1"
def tVoteOutput : Bytes := ascii "voteOutput1"
def tRetirement : Bytes := ascii "retirement1"
def tSpend : Bytes := ascii "spend1"
def tVeto : Bytes := ascii "vetoInput1"
def tIssuance : Bytes := ascii "issuance1"
def tCoinbase : Bytes := ascii "coinbase1"
def tMux : Bytes := ascii "mux1"
def tTxHeader : Bytes := ascii "txheader"
def tBlockHeader : Bytes := ascii "blockheader"

def originalOutputBody (src : Bytes) (vm : Nat) (prog : Bytes) (state : List Bytes) : Bytes :=
  src ++ programBody vm prog ++ encStrList state

def voteOutputBody (src : Bytes) (vm : Nat) (prog : Bytes) (vote : Bytes) (state : List Bytes) : Bytes :=
  src ++ programBody vm prog ++ encVarstr vote ++ encStrList state

def btmAssetID : Bytes := List.replicate 32 0xff

/-- `vmutil.IsUnspendable` -/
def isUnspendable (prog : Bytes) : Bool :=
  match prog with
  | b :: _ => b == 0x6a
  | [] => false

/-- id of the prevout entry a spend / veto input refers to -/
def prevoutID (H : Bytes → Bytes) (sc : SpendCommitment) (vote : Option Bytes) : Bytes :=
  let src := valueSource sc.sourceID sc.assetID sc.amount sc.sourcePos
  match vote with
  | none => entryID H tOriginalOutput (originalOutputBody src sc.vmVersion sc.program sc.stateData)
  | some v => entryID H tVoteOutput (voteOutputBody src sc.vmVersion sc.program v sc.stateData)

def outAmount (o : TxOutput) : Nat := match o.commitment with | some oc => oc.amount | none => 0
def outAsset (o : TxOutput) : Bytes := match o.commitment with | some oc => oc.assetID | none => zeroHash
def outVM (o : TxOutput) : Nat := match o.commitment with | some oc => oc.vmVersion | none => 0
def outProg (o : TxOutput) : Bytes := match o.commitment with | some oc => oc.program | none => []
def outState (o : TxOutput) : List Bytes := match o.commitment with | some oc => oc.stateData | none => []

/-- `mapCoinbaseInput`: the sum of all output amounts in `uint64` -/
def totalOut (outs : List TxOutput) : Nat := (outs.foldl (fun acc o => (acc + outAmount o) % 2 ^ 64) 0)

/-- id and mux source `(asset, amount)` of a typed input -/
def inputEntry (H : Bytes → Bytes) (outs : List TxOutput) : TypedInput → Bytes × Bytes × Nat
  | .issuance nonce amount assetDef vm prog _ =>
    let asset := issuanceAssetID H assetDef vm prog
    (entryID H tIssuance (H nonce ++ (asset ++ le64 amount)), asset, amount)
  | .spend sc _ _ => (entryID H tSpend (prevoutID H sc none), sc.assetID, sc.amount)
  | .coinbase arb => (entryID H tCoinbase (encVarstr arb), btmAssetID, totalOut outs)
  | .veto sc _ vote _ => (entryID H tVeto (prevoutID H sc (some vote)), sc.assetID, sc.amount)

def muxProgram : Bytes := programBody 1 [0x51]

def muxBody (sources : List (Bytes × Bytes × Nat)) : Bytes :=
  putUvarint sources.length ++ (sources.map (fun s => valueSource s.1 s.2.1 s.2.2 0)).flatten ++ muxProgram

/-- id of the result entry of output `o` at position `i` -/
def resultID (H : Bytes → Bytes) (muxID : Bytes) (i : Nat) (o : TxOutput) : Bytes :=
  let src := valueSource muxID (outAsset o) (outAmount o) i
  if isUnspendable (outProg o) then entryID H tRetirement src
  else match o.typed with
    | .original => entryID H tOriginalOutput (originalOutputBody src (outVM o) (outProg o) (outState o))
    | .vote v => entryID H tVoteOutput (voteOutputBody src (outVM o) (outProg o) v (outState o))

def resultIDs (H : Bytes → Bytes) (muxID : Bytes) : Nat → List TxOutput → List Bytes
  | _, [] => []
  | i, o :: rest => resultID H muxID i o :: resultIDs H muxID (i + 1) rest

def txHeaderBody (version timeRange : Nat) (results : List Bytes) : Bytes :=
  le64 version ++ le64 timeRange ++ (putUvarint results.length ++ results.flatten)

structure MappedTx where
  id : Bytes
  inputIDs : List Bytes
  muxID : Bytes
  resultIDs : List Bytes
  deriving Repr, DecidableEq

/-- the typed inputs, `none` if some input has none (`mapInputs` panics) -/
def typedInputs : List TxInput → Option (List TypedInput)
  | [] => some []
  | i :: r =>
    match i.typed, typedInputs r with
    | some t, some l => some (t :: l)
    | _, _ => none

/-- `MapTx`; `none` = the `panic` of `mapInputs` on an untyped input -/
def mapTx (H : Bytes → Bytes) (tx : TxData) : Option MappedTx :=
  match typedInputs tx.inputs with
  | none => none
  | some typed =>
    let ins := typed.map (inputEntry H tx.outputs)
    let muxID := entryID H tMux (muxBody ins)
    let res := resultIDs H muxID 0 tx.outputs
    some ⟨entryID H tTxHeader (txHeaderBody tx.version tx.timeRange res), ins.map (·.1), muxID, res⟩

def txID (H : Bytes → Bytes) (tx : TxData) : Option Bytes := (mapTx H tx).map (·.id)

/-- `bc.Tx.SigHash(n)` -/
def sigHash (H : Bytes → Bytes) (inputID txid : Bytes) : Bytes := H (inputID ++ txid)

def blockHeaderBody (h : BlockHeader) : Bytes :=
  le64 h.version ++ le64 h.height ++ h.prevHash ++ le64 h.timestamp ++ h.txRoot

/-- `BlockHeader.Hash()` = `mapBlockHeader`: five fields; witness and suplinks are not read -/
def blockHash (H : Bytes → Bytes) (h : BlockHeader) : Bytes := entryID H tBlockHeader (blockHeaderBody h)

end BytomModel.Entry
