/-
RIPEMD-160, executable, core Lean only.  Used by the VM driver for OP_HASH160 (compared
byte-for-byte with Go's golang.org/x/crypto/ripemd160 on every run).  No theorem depends
on this file: theorems take hash functions as parameters.
-/
namespace BytomModel.Ripemd160

def rL : Array Nat := #[
  0, 1, 2, 3, 4, 5, 6, 7, 8, 9, 10, 11, 12, 13, 14, 15,
  7, 4, 13, 1, 10, 6, 15, 3, 12, 0, 9, 5, 2, 14, 11, 8,
  3, 10, 14, 4, 9, 15, 8, 1, 2, 7, 0, 6, 13, 11, 5, 12,
  1, 9, 11, 10, 0, 8, 12, 4, 13, 3, 7, 15, 14, 5, 6, 2,
  4, 0, 5, 9, 7, 12, 2, 10, 14, 1, 3, 8, 11, 6, 15, 13]
def rR : Array Nat := #[
  5, 14, 7, 0, 9, 2, 11, 4, 13, 6, 15, 8, 1, 10, 3, 12,
  6, 11, 3, 7, 0, 13, 5, 10, 14, 15, 8, 12, 4, 9, 1, 2,
  15, 5, 1, 3, 7, 14, 6, 9, 11, 8, 12, 2, 10, 0, 4, 13,
  8, 6, 4, 1, 3, 11, 15, 0, 5, 12, 2, 13, 9, 7, 10, 14,
  12, 15, 10, 4, 1, 5, 8, 7, 6, 2, 13, 14, 0, 3, 9, 11]
def sL : Array Nat := #[
  11, 14, 15, 12, 5, 8, 7, 9, 11, 13, 14, 15, 6, 7, 9, 8,
  7, 6, 8, 13, 11, 9, 7, 15, 7, 12, 15, 9, 11, 7, 13, 12,
  11, 13, 6, 7, 14, 9, 13, 15, 14, 8, 13, 6, 5, 12, 7, 5,
  11, 12, 14, 15, 14, 15, 9, 8, 9, 14, 5, 6, 8, 6, 5, 12,
  9, 15, 5, 11, 6, 8, 13, 12, 5, 12, 13, 14, 11, 8, 5, 6]
def sR : Array Nat := #[
  8, 9, 9, 11, 13, 15, 15, 5, 7, 7, 8, 11, 14, 14, 12, 6,
  9, 13, 15, 7, 12, 8, 9, 11, 7, 7, 12, 7, 6, 15, 13, 11,
  9, 7, 15, 11, 8, 6, 6, 14, 12, 13, 5, 14, 13, 13, 7, 5,
  15, 5, 8, 11, 14, 14, 6, 14, 6, 9, 12, 9, 12, 5, 15, 8,
  8, 5, 12, 9, 12, 5, 14, 6, 8, 13, 6, 5, 15, 13, 11, 11]
def kL : Array UInt32 := #[0x00000000, 0x5A827999, 0x6ED9EBA1, 0x8F1BBCDC, 0xA953FD4E]
def kR : Array UInt32 := #[0x50A28BE6, 0x5C4DD124, 0x6D703EF3, 0x7A6D76E9, 0x00000000]

@[inline] def rol (x : UInt32) (n : Nat) : UInt32 :=
  (x <<< UInt32.ofNat n) ||| (x >>> UInt32.ofNat (32 - n))

def f (j : Nat) (x y z : UInt32) : UInt32 :=
  if j < 16 then x ^^^ y ^^^ z
  else if j < 32 then (x &&& y) ||| ((~~~ x) &&& z)
  else if j < 48 then (x ||| (~~~ y)) ^^^ z
  else if j < 64 then (x &&& z) ||| (y &&& (~~~ z))
  else x ^^^ (y ||| (~~~ z))

def le32 (b0 b1 b2 b3 : UInt8) : UInt32 :=
  b0.toUInt32 ||| (b1.toUInt32 <<< 8) ||| (b2.toUInt32 <<< 16) ||| (b3.toUInt32 <<< 24)

def words : List UInt8 → List UInt32
  | b0 :: b1 :: b2 :: b3 :: rest => le32 b0 b1 b2 b3 :: words rest
  | _ => []

def le64Bytes (n : Nat) : List UInt8 :=
  (List.range 8).map fun i => UInt8.ofNat (n / 2 ^ (8 * i) % 256)

def pad (msg : List UInt8) : List UInt8 :=
  let l := msg.length
  let z := (55 + 64 - l % 64) % 64
  msg ++ [0x80] ++ List.replicate z 0 ++ le64Bytes (8 * l)

def compress (h : Array UInt32) (x : Array UInt32) : Array UInt32 := Id.run do
  let mut a := h[0]!
  let mut b := h[1]!
  let mut c := h[2]!
  let mut d := h[3]!
  let mut e := h[4]!
  let mut a' := h[0]!
  let mut b' := h[1]!
  let mut c' := h[2]!
  let mut d' := h[3]!
  let mut e' := h[4]!
  for j in [0:80] do
    let t := rol (a + f j b c d + x[rL[j]!]! + kL[j / 16]!) sL[j]! + e
    a := e; e := d; d := rol c 10; c := b; b := t
    let t' := rol (a' + f (79 - j) b' c' d' + x[rR[j]!]! + kR[j / 16]!) sR[j]! + e'
    a' := e'; e' := d'; d' := rol c' 10; c' := b'; b' := t'
  let t := h[1]! + c + d'
  return #[t, h[2]! + d + e', h[3]! + e + a', h[4]! + a + b', h[0]! + b + c']

def H0 : Array UInt32 := #[0x67452301, 0xEFCDAB89, 0x98BADCFE, 0x10325476, 0xC3D2E1F0]

def blocks (fuel : Nat) (ws : List UInt32) (h : Array UInt32) : Array UInt32 :=
  match fuel with
  | 0 => h
  | fuel + 1 =>
    if ws.isEmpty then h else blocks fuel (ws.drop 16) (compress h (ws.take 16).toArray)

def wordBytes (w : UInt32) : List UInt8 :=
  [w.toUInt8, (w >>> 8).toUInt8, (w >>> 16).toUInt8, (w >>> 24).toUInt8]

def ripemd160 (msg : List UInt8) : List UInt8 :=
  let ws := words (pad msg)
  (blocks (ws.length / 16 + 1) ws H0).toList.flatMap wordBytes

end BytomModel.Ripemd160
