/-
M-Net `EventConc` — interleaving (small-step) model of `event/event.go` for several goroutines.

Each goroutine runs a program (a list of dispatcher operations). An operation is cut into the
ATOMIC steps the code's locks delimit; a schedule (a list of thread indices) picks which
goroutine takes its next step:

  Post(e)         1. under `d.mutex.RLock`: test `stopped`, take the snapshot `subs := d.subm[typ]`
                  2. … one step per subscription of the snapshot: `sub.deliver(e)` (under
                     `sub.postMu.RLock`; the `select` has a `default` arm, so the step never waits)
  Unsubscribe(s)  1. `d.del(s)` (under `d.mutex.Lock`)   2. `s.closewait()` (closeMu, postMu)
  Subscribe, Stop one step each (they hold `d.mutex.Lock` from beginning to end)
  receive         one step (channel receive, non-blocking in the model)

No step has an enabling condition other than "the thread has something left to do": the only
blocking primitives in the code are the mutexes, every critical section is one step here and
contains no channel operation that can wait (tie `Ties.C39.deliver_has_default`), and the
locks are taken in the fixed order d.mutex → closeMu → postMu.

`log` is a ghost: it records every successful channel send as (poster thread, subscription, event).
-/
import BytomModel.Model.Event

namespace BytomModel.EventConc
open BytomModel.Event

inductive COp
  | post (e : Ev)
  | subscribe (types : List Nat)
  | unsubscribe (id : Nat)
  | stop
  | recv (id : Nat)
deriving Repr

inductive PC
  | idle
  | delivering (e : Ev) (todo : List Nat)   -- inside Post, after the snapshot
  | closing (id : Nat)                      -- inside Unsubscribe, between del and closewait
deriving Repr

structure Thread where
  prog : List COp      -- operations still to run
  pc : PC
  posted : List Ev     -- ghost: events whose Post passed the `stopped` test, in program order
deriving Repr

structure CState where
  s : State
  threads : List Thread
  log : List (Nat × Nat × Ev)
deriving Repr

def initC (cap : Nat) (progs : List (List COp)) : CState :=
  { s := init cap, threads := progs.map fun p => { prog := p, pc := .idle, posted := [] }, log := [] }

/-- does `deliver` put the event into the channel of this subscription? -/
def accepts (s : State) (sid : Nat) : Bool :=
  match s.subs[sid]? with
  | some sub => !sub.closed && decide (sub.buf.length < s.cap)
  | none => false

/-- one atomic step of thread `i` (no-op when the thread does not exist or has finished) -/
def stepThread (c : CState) (i : Nat) : CState :=
  match c.threads[i]? with
  | none => c
  | some t =>
    match t.pc with
    | .delivering _ [] => { c with threads := c.threads.set i { t with pc := .idle } }
    | .delivering e (sid :: todo) =>
      { s := { c.s with subs := modAt (deliver c.s.cap e) c.s.subs sid },
        threads := c.threads.set i { t with pc := .delivering e todo },
        log := if accepts c.s sid then c.log ++ [(i, sid, e)] else c.log }
    | .closing id =>
      { c with s := { c.s with subs := modAt closeSub c.s.subs id },
               threads := c.threads.set i { t with pc := .idle } }
    | .idle =>
      match t.prog with
      | [] => c
      | .post e :: rest =>
        if c.s.stopped then { c with threads := c.threads.set i { t with prog := rest } }
        else
          let t' : Thread := { prog := rest, pc := .delivering e (lookup c.s.subm e.typ), posted := t.posted ++ [e] }
          { c with threads := c.threads.set i t' }
      | .subscribe ts :: rest =>
        { c with s := (subscribe c.s ts).1, threads := c.threads.set i { t with prog := rest } }
      | .unsubscribe id :: rest =>
        if id < c.s.subs.length then
          { c with s := { c.s with subm := delSub c.s.subm id },
                   threads := c.threads.set i { t with prog := rest, pc := .closing id } }
        else { c with threads := c.threads.set i { t with prog := rest } }
      | .stop :: rest =>
        { c with s := (stop c.s).1, threads := c.threads.set i { t with prog := rest } }
      | .recv id :: rest =>
        { c with s := (recv c.s id).1, threads := c.threads.set i { t with prog := rest } }

/-- run a schedule -/
def runSched (c : CState) (sched : List Nat) : CState := sched.foldl stepThread c

/-- the events of poster `p` that were put into the channel of subscription `sid`, in the
    order they were put there -/
def deliveredFrom (c : CState) (p sid : Nat) : List Ev :=
  (c.log.filter fun x => x.1 == p && x.2.1 == sid).map (·.2.2)

end BytomModel.EventConc
