/-
M-Node / M-Casper: executable model of the block-processing core of the node —
`protocol/block.go` (processBlock, saveBlock, saveSubBlock, tryReorganize,
calcReorganizeChain), `protocol/orphan_manage.go`, `protocol/casper/*.go` (ApplyBlock,
AuthVerification, fork choice, justification / finalization, the two slashing checks) and
the parts of `database/store*.go` they read and write (headers with their sup links,
persisted checkpoint records, main-chain index, chain status) — at the level of block
*names*: a block is (id, parent, height, slot, rank, header sup links); hashes are ids,
the lexicographic hash order used by the fork-choice tie-break is the `rank`.

The validator set is the federation (orders 0 … V-1): the harness keeps vote totals below
`MinValidatorVoteNum`, so `EffectiveValidators` always falls back to the federation.

Core Lean only.  The model mirrors the code AS IT IS (including its error paths).
-/
namespace BytomModel.Node

inductive Status | growing | unjustified | justified | finalized
deriving DecidableEq, Repr, Inhabited

/-- one signature slot of a sup link: validator order and whether the signature verifies -/
structure Sig where
  slot : Nat
  valid : Bool
deriving DecidableEq, Repr, Inhabited

structure SupLink where
  src : Nat
  srcHeight : Nat
  sigs : List Sig
deriving DecidableEq, Repr, Inhabited

/-- `Signatures[order] = signature` -/
def setSig (sigs : List Sig) (s : Sig) : List Sig :=
  s :: sigs.filter (fun x => x.slot != s.slot)

def hasSlot (l : SupLink) (order : Nat) : Bool := l.sigs.any (fun s => s.slot == order)

/-- `SupLinks.AddSupLink` / `Checkpoint.AddVerification`: merge into the link with the
    same source hash, else append a new link. -/
def addSupLink : List SupLink → Nat → Nat → Sig → List SupLink
  | [], src, h, s => [{ src := src, srcHeight := h, sigs := [s] }]
  | l :: ls, src, h, s =>
    if l.src == src then { l with sigs := setSig l.sigs s } :: ls
    else l :: addSupLink ls src h s

/-- `SupLinks.AddSupLink` on a block HEADER (since fix 03420039): a link is identified by source
    hash AND declared source height; the header of a relayed block may carry an entry that
    names the right source with a wrong height (such an entry is discarded as a whole by
    `applySupLinks`), and a signature must not be merged into it. `Checkpoint.AddVerification`
    (`addSupLink`) still merges by source hash: checkpoint links are built from verified
    verifications only. -/
def addSupLinkH : List SupLink → Nat → Nat → Sig → List SupLink
  | [], src, h, s => [{ src := src, srcHeight := h, sigs := [s] }]
  | l :: ls, src, h, s =>
    if l.src == src && l.srcHeight == h then { l with sigs := setSig l.sigs s } :: ls
    else l :: addSupLinkH ls src h s

def findLink (ls : List SupLink) (src : Nat) : Option SupLink := ls.find? (fun l => l.src == src)

/-- header-level `AddSupLink` of every signature of `extra` into `base` (ApplyBlock on an already applied block) -/
def mergeSup (base extra : List SupLink) : List SupLink :=
  extra.foldl (fun acc l => l.sigs.reverse.foldl (fun acc2 sg => addSupLinkH acc2 l.src l.srcHeight sg) acc) base

/-- `SupLink.IsMajority` -/
def isMajority (l : SupLink) (nVal : Nat) : Bool := l.sigs.length > nVal * 2 / 3

structure Header where
  id : Nat
  parent : Nat
  height : Nat
  slot : Nat
  rank : Nat
  sup : List SupLink
deriving Repr, Inhabited

structure Ckpt where
  hash : Nat
  height : Nat
  parentHash : Nat
  status : Status
  sup : List SupLink
deriving Repr, Inhabited

/-- the in-memory checkpoint tree (`treeNode`) -/
inductive Tree
  | node (c : Ckpt) (children : List Tree)
deriving Repr, Inhabited

def Tree.ckpt : Tree → Ckpt | .node c _ => c
def Tree.children : Tree → List Tree | .node _ cs => cs

mutual
  /-- all checkpoints, depth first, children in stored order -/
  def Tree.flatten : Tree → List Ckpt
    | .node c cs => c :: Tree.flattenList cs
  def Tree.flattenList : List Tree → List Ckpt
    | [] => []
    | t :: ts => t.flatten ++ Tree.flattenList ts
end

mutual
  /-- `nodeByHash` / `findOnlyOne` as a sub-tree lookup -/
  def Tree.find (p : Ckpt → Bool) : Tree → Option Tree
    | .node c cs => if p c then some (.node c cs) else Tree.findList p cs
  def Tree.findList (p : Ckpt → Bool) : List Tree → Option Tree
    | [] => none
    | t :: ts => match t.find p with
      | some r => some r
      | none => Tree.findList p ts
end

mutual
  /-- path of checkpoints from the root down to the first node satisfying `p`
      (root first, the node itself last) -/
  def Tree.path (p : Ckpt → Bool) : Tree → Option (List Ckpt)
    | .node c cs => if p c then some [c] else
      match Tree.pathList p cs with
      | some r => some (c :: r)
      | none => none
  def Tree.pathList (p : Ckpt → Bool) : List Tree → Option (List Ckpt)
    | [] => none
    | t :: ts => match t.path p with
      | some r => some r
      | none => Tree.pathList p ts
end

mutual
  /-- replace the checkpoint of the first node satisfying `p` -/
  def Tree.update (p : Ckpt → Bool) (f : Ckpt → Ckpt) : Tree → Tree
    | .node c cs => if p c then .node (f c) cs else .node c (Tree.updateList p f cs)
  def Tree.updateList (p : Ckpt → Bool) (f : Ckpt → Ckpt) : List Tree → List Tree
    | [] => []
    | t :: ts => match t.find p with
      | some _ => t.update p f :: ts
      | none => t :: Tree.updateList p f ts
end

mutual
  /-- `newChild` under the first node satisfying `p` -/
  def Tree.addChild (p : Ckpt → Bool) (ch : Ckpt) : Tree → Tree
    | .node c cs => if p c then .node c (cs ++ [.node ch []]) else .node c (Tree.addChildList p ch cs)
  def Tree.addChildList (p : Ckpt → Bool) (ch : Ckpt) : List Tree → List Tree
    | [] => []
    | t :: ts => match t.find p with
      | some _ => t.addChild p ch :: ts
      | none => t :: Tree.addChildList p ch ts
end

/-- the three-way comparison of `bestNode`: (justified height, height, hash) -/
def better (candJ candH candR bestJ bestH bestR : Nat) : Bool :=
  candJ > bestJ || (candJ == bestJ && candH > bestH) || (candJ == bestJ && candH == bestH && candR > bestR)

mutual
  /-- `treeNode.bestNode`: returns (hash, height, rank-of-hash, justified height) -/
  def Tree.bestNode (rankOf : Nat → Nat) (jh : Nat) : Tree → (Ckpt × Nat)
    | .node c cs =>
      let jh' := if c.status == .justified then c.height else jh
      Tree.bestList rankOf jh' (c, jh') cs
  def Tree.bestList (rankOf : Nat → Nat) (jh : Nat) (best : Ckpt × Nat) : List Tree → (Ckpt × Nat)
    | [] => best
    | t :: ts =>
      let cand := t.bestNode rankOf jh
      let best' := if better cand.2 cand.1.height (rankOf cand.1.hash) best.2 best.1.height (rankOf best.1.hash)
                   then cand else best
      Tree.bestList rankOf jh best' ts
end

mutual
  /-- `treeNode.lastJustified` -/
  def Tree.lastJustified : Tree → Option Ckpt
    | .node c cs =>
      let sel := if c.status == .justified then some c else none
      Tree.lastJustifiedList sel cs
  def Tree.lastJustifiedList (sel : Option Ckpt) : List Tree → Option Ckpt
    | [] => sel
    | t :: ts =>
      let sel' := match t.lastJustified with
        | none => sel
        | some c => match sel with
          | none => some c
          | some s => if c.height > s.height then some c else some s
      Tree.lastJustifiedList sel' ts
end

/-- persisted checkpoint record (the JSON in the DB carries no sup links) -/
structure CkptRec where
  hash : Nat
  height : Nat
  parentHash : Nat
  status : Status
deriving Repr, Inhabited

structure Config where
  epoch : Nat
  nVal : Nat
  me : Option Nat   -- order of the validator key this node holds
deriving Repr, Inhabited

structure State where
  cfg : Config
  defs : List Header            -- every block the harness has defined (delivered or not)
  headers : List Header         -- stored headers (with their current sup links)
  storeOrder : List Nat         -- ids in the order they were stored
  ckpts : List CkptRec          -- persisted checkpoint records, keyed by (height, hash)
  index : List (Nat × Nat)      -- main-chain index height ↦ id
  best : Nat
  statusFin : Nat               -- FinalizedHash of the persisted chain status
  tree : Tree
  orphans : List Header        -- the delivered copies waiting for a parent
  prevOrphans : List (Nat × List Nat)
  posted : List (Nat × Nat × Nat)  -- verification messages posted: (validator, src, tgt)
deriving Inhabited

inductive Res | ok | orphan | err | panic
deriving DecidableEq, Repr

def Res.str : Res → String
  | .ok => "ok" | .orphan => "orphan" | .err => "err" | .panic => "panic"

def lookupHeader (hs : List Header) (id : Nat) : Option Header := hs.find? (fun h => h.id == id)

def State.header (s : State) (id : Nat) : Option Header := lookupHeader s.headers id
def State.rankOf (s : State) (id : Nat) : Nat :=
  match lookupHeader s.defs id with
  | some h => h.rank
  | none => 0

def State.ckptRec (s : State) (height hash : Nat) : Option CkptRec :=
  s.ckpts.find? (fun c => c.height == height && c.hash == hash)

/-- `Store.GetCheckpoint`: needs the header (for the height) and the record -/
def State.getCheckpoint (s : State) (hash : Nat) : Option CkptRec :=
  match s.header hash with
  | none => none
  | some h => s.ckptRec h.height hash

def saveCkpt (db : List CkptRec) (c : CkptRec) : List CkptRec :=
  c :: db.filter (fun x => !(x.height == c.height && x.hash == c.hash))

def Ckpt.toRec (c : Ckpt) : CkptRec :=
  { hash := c.hash, height := c.height, parentHash := c.parentHash, status := c.status }

/-- `parentCheckpointHashByPrevHash` (fuel = number of stored headers + 1) -/
def State.prevCheckpointHash (s : State) : Nat → Nat → Option Nat
  | 0, _ => none
  | fuel + 1, prev =>
    match s.header prev with
    | none => none
    | some b =>
      if b.height % s.cfg.epoch == 0 then some prev
      else if b.height % s.cfg.epoch == 1 then some b.parent
      else s.prevCheckpointHash fuel b.parent

def State.fuel (s : State) : Nat := s.headers.length + s.defs.length + 2

/-- `Casper.bestChain` -/
def State.bestChain (s : State) : Nat :=
  (s.tree.bestNode s.rankOf s.tree.ckpt.height).1.hash

def byHash (h : Nat) : Ckpt → Bool := fun c => c.hash == h

/-- `Checkpoint.Increase` (federation validators only: votes / rewards are not modelled here) -/
def increase (epoch : Nat) (c : Ckpt) (b : Header) : Ckpt :=
  { c with hash := b.id, height := b.height,
           status := if b.height % epoch == 0 then .unjustified else c.status }

/-- `NewCheckpoint(parent)` -/
def newCkpt (parent : Ckpt) : Ckpt :=
  { hash := parent.hash, height := parent.height, parentHash := parent.hash, status := .growing, sup := [] }

/-- `checkpointNodeByHash`: make sure the tree has a node whose hash is `hash`, rebuilding
    growing checkpoints from stored blocks when needed. Returns the new tree or none (error). -/
def State.ensureNode (s : State) : Nat → Tree → Nat → Option Tree
  | 0, _, _ => none
  | fuel + 1, tree, hash =>
    match tree.find (byHash hash) with
    | some _ => some tree
    | none =>
      match s.header hash with
      | none => none                       -- store.GetBlock fails
      | some b =>
        if b.height % s.cfg.epoch == 0 then none   -- "fail on previous round checkpoint"
        else
          match s.ensureNode fuel tree b.parent with
          | none => none
          | some tree' =>
            if b.parent != b.parent then none else  -- (Increase's parent check holds by construction)
            if b.height % s.cfg.epoch == 1 then
              match tree'.find (byHash b.parent) with
              | none => none
              | some p =>
                -- newChild, then Increase on the child (the child's hash is the parent's until then)
                let ch := increase s.cfg.epoch (newCkpt p.ckpt) b
                some (tree'.addChild (byHash b.parent) ch)
            else
              some (tree'.update (byHash b.parent) (fun c => increase s.cfg.epoch c b))

/-- `verification.valid()` + `verifySameHeight` + `verifySpanHeight` for a vote by validator
    `order` from (src, srcHeight) to (tgt, tgtHeight) with signature validity `sigOk`. -/
def State.verifyVerification (s : State) (tree : Tree) (order _src srcH tgt tgtH : Nat) (sigOk : Bool) : Bool :=
  let e := s.cfg.epoch
  if srcH % e != 0 || tgtH % e != 0 then false
  else if srcH ≥ tgtH then false
  else if !sigOk then false
  else
    -- verifySameHeight: persisted checkpoints of the target height, with the sup links of
    -- their stored headers
    let same := s.ckpts.any (fun r =>
      r.height == tgtH && r.hash != tgt &&
        (match s.header r.hash with
         | some h => h.sup.any (fun l => hasSlot l order)
         | none => false))
    -- a checkpoint record whose header is missing makes GetCheckpointsByHeight fail
    let broken := s.ckpts.any (fun r => r.height == tgtH && (s.header r.hash).isNone)
    if broken || same then false
    else
      -- verifySpanHeight over the in-memory tree
      let span := tree.flatten.any (fun c =>
        c.height != tgtH &&
          c.sup.any (fun l => hasSlot l order &&
            ((c.height < tgtH && l.srcHeight > srcH) || (c.height > tgtH && l.srcHeight < srcH))))
      !span

structure CasperOut where
  tree : Tree
  ckpts : List CkptRec
deriving Inhabited

/-- `addVerificationToCheckpoint` for one verification: returns the new tree and the list of
    persisted records to save (target first), or none on error. -/
def State.addVerification (s : State) (tree : Tree) (ckpts : List CkptRec) (tgt order src srcH : Nat)
    : Option (Tree × List CkptRec) :=
  -- source, err := c.store.GetCheckpoint(&v.SourceHash)
  match (match s.header src with
         | none => none
         | some h => ckpts.find? (fun (c : CkptRec) => c.height == h.height && c.hash == src)) with
  | none => none
  | some source =>
    let tree1 := tree.update (byHash tgt) (fun c => { c with sup := addSupLink c.sup src srcH { slot := order, valid := true } })
    match tree1.find (byHash tgt) with
    | none => none
    | some tn =>
      let t := tn.ckpt
      let link := (findLink t.sup src).getD default
      if t.status != .unjustified || !isMajority link s.cfg.nVal || source.status != .justified then
        some (tree1, [])
      else
        -- setJustified(source, target)
        let tree2 := tree1.update (byHash tgt) (fun c => { c with status := .justified })
        if t.parentHash == source.hash then
          -- setFinalized(source)
          let source' := { source with status := .finalized }
          match tree2.find (byHash source.hash) with
          | none => some (tree2, [source'])
          | some newRoot =>
            let newRoot' := match newRoot with
              | .node c cs => Tree.node { c with status := .finalized } cs
            some (newRoot', [source'])
        else some (tree2, [source])

/-- persist the target (as it is in the tree now) and the affected sources -/
def saveAffected (tree : Tree) (ckpts : List CkptRec) (tgt : Nat) (affected : List CkptRec) : List CkptRec :=
  let ckpts1 := match tree.find (byHash tgt) with
    | some tn => saveCkpt ckpts tn.ckpt.toRec
    | none => ckpts
  -- sources are written after / together with the target; a source with the target's key
  -- cannot occur (heights differ)
  affected.foldl saveCkpt ckpts1

/-- `lastJustifiedCheckpoint(target)`: nearest proper ancestor in the tree with status Justified -/
def lastJustifiedAncestor (tree : Tree) (tgt : Nat) : Option Ckpt :=
  match tree.path (byHash tgt) with
  | none => none
  | some p => (p.dropLast.reverse).find? (fun c => c.status == .justified)

/-- is `tgt` the root of the tree (its `Parent` pointer is nil)? -/
def isRoot (tree : Tree) (tgt : Nat) : Bool := tree.ckpt.hash == tgt

/-- `applySupLinks` over the header's sup links (ApplyBlock), for a non-growing target.
    A sup link whose source checkpoint is unknown or whose declared source height is wrong
    is skipped (it carries no valid verification). -/
def State.applySupLinks (s : State) (tgt : Nat) : List SupLink → Tree → List CkptRec → List CkptRec
    → (Tree × List CkptRec × List CkptRec × Bool)
  | [], tree, ckpts, aff => (tree, ckpts, aff, true)
  | l :: ls, tree, ckpts, aff =>
    -- validVerificationsFromSupLink
    match (match s.header l.src with
           | none => none
           | some h => ckpts.find? (fun (c : CkptRec) => c.height == h.height && c.hash == l.src)) with
    | none => s.applySupLinks tgt ls tree ckpts aff
    | some source =>
      if source.height != l.srcHeight then s.applySupLinks tgt ls tree ckpts aff else
      match tree.find (byHash tgt) with
      | none => (tree, ckpts, aff, false)
      | some tn =>
        let tgtH := tn.ckpt.height
        -- the valid verifications are collected first (against the tree as it is now) …
        let valids := (l.sigs.filter (fun sg => sg.slot < s.cfg.nVal &&
            s.verifyVerification tree sg.slot l.src source.height tgt tgtH sg.valid)).map (·.slot)
        -- … then added one by one (map iteration order in Go; the outcome does not depend on it,
        -- here: ascending validator order)
        let valids := valids.mergeSort (· ≤ ·)
        let rec addAll : List Nat → Tree → List CkptRec → List CkptRec → Option (Tree × List CkptRec × List CkptRec)
          | [], t, c, a => some (t, c, a)
          | o :: os, t, c, a =>
            match s.addVerification t c tgt o l.src source.height with
            | none => none
            | some (t', srcs) =>
              -- the cached source object is mutated in place: later reads see the new status
              addAll os t' (srcs.foldl saveCkpt c) (a ++ srcs)
        match addAll valids tree ckpts aff with
        | none => (tree, ckpts, aff, false)
        | some (t', c', a') => s.applySupLinks tgt ls t' c' a'

/-- `Casper.ApplyBlock`; returns the new state, whether it succeeded, and the block's sup links
    after the node's own vote was added (this is what `SaveBlock` then stores).
    On failure the in-memory tree keeps the mutations made before the error. -/
def State.applyBlock (s : State) (b : Header) : State × Bool × List SupLink :=
  -- idempotence: a node with this block's hash exists; the verifications recorded for that
  -- checkpoint are merged into the block's sup links (the block is about to be saved again)
  match s.tree.find (byHash b.id) with
  | some tn => (s, true, mergeSup b.sup tn.ckpt.sup)
  | none =>
    -- applyBlockToCheckpoint
    match s.ensureNode s.fuel s.tree b.parent with
    | none => (s, false, b.sup)
    | some tree0 =>
      let tree1 :=
        if b.height % s.cfg.epoch == 1 then
          match tree0.find (byHash b.parent) with
          | some p => tree0.addChild (byHash b.parent) (increase s.cfg.epoch (newCkpt p.ckpt) b)
          | none => tree0
        else tree0.update (byHash b.parent) (fun c => increase s.cfg.epoch c b)
      let s1 := { s with tree := tree1 }
      match tree1.find (byHash b.id) with
      | none => (s1, false, b.sup)
      | some tn =>
        let target := tn.ckpt
        if target.status == .growing then
          -- no own vote, applySupLinks returns nil, nothing is saved
          (s1, true, b.sup)
        else
          -- applyMyVerification
          let (sup1, posted1) :=
            match s.cfg.me with
            | none => (b.sup, s1.posted)
            | some me =>
              if isRoot tree1 b.id then (b.sup, s1.posted) else   -- unreachable: target has a parent
              match lastJustifiedAncestor tree1 b.id with
              | none => (b.sup, s1.posted)
              | some src =>
                if me ≥ s.cfg.nVal then (b.sup, s1.posted)
                else if target.sup.any (fun l => hasSlot l me) then (b.sup, s1.posted)
                else if !(s1.verifyVerification tree1 me src.hash src.height b.id b.height true) then (b.sup, s1.posted)
                else (addSupLinkH b.sup src.hash src.height { slot := me, valid := true },
                      s1.posted ++ [(me, src.hash, b.id)])
          let s2 := { s1 with posted := posted1 }
          let (tree2, ckpts2, aff, ok) := s2.applySupLinks b.id sup1 tree1 s2.ckpts []
          if !ok then
            ({ s2 with tree := tree2, ckpts := ckpts2 }, false, sup1)
          else
            let ckpts3 := saveAffected tree2 ckpts2 b.id aff
            ({ s2 with tree := tree2, ckpts := ckpts3 }, true, sup1)

/-! ### chain: orphans, saveBlock, reorganisation -/

def alistGet (l : List (Nat × α)) (k : Nat) : Option α := (l.find? (fun p => p.1 == k)).map (·.2)
def alistSet (l : List (Nat × α)) (k : Nat) (v : α) : List (Nat × α) :=
  if l.any (fun p => p.1 == k) then l.map (fun p => if p.1 == k then (k, v) else p) else l ++ [(k, v)]
def alistDel (l : List (Nat × α)) (k : Nat) : List (Nat × α) := l.filter (fun p => p.1 != k)

/-- `OrphanManage.Add` (the 256-orphan LRU limit is outside the modelled histories) -/
def State.isOrphan (s : State) (id : Nat) : Bool := s.orphans.any (fun h => h.id == id)

def State.orphanAdd (s : State) (b : Header) : State :=
  if s.isOrphan b.id then s else
  { s with orphans := s.orphans ++ [b],
           prevOrphans := alistSet s.prevOrphans b.parent ((alistGet s.prevOrphans b.parent).getD [] ++ [b.id]) }

/-- `OrphanManage.delete` -/
def State.orphanDelete (s : State) (id : Nat) : State :=
  match lookupHeader s.orphans id with
  | none => s
  | some b =>
    let s1 := { s with orphans := s.orphans.filter (fun h => h.id != id) }
    match alistGet s1.prevOrphans b.parent with
    | none => s1
    | some l =>
      if l.length == 1 then { s1 with prevOrphans := alistDel s1.prevOrphans b.parent }
      else { s1 with prevOrphans := alistSet s1.prevOrphans b.parent (l.erase id) }

/-- `calcReorganizeChain`: (attach list in ascending order, detach list tip first), or none
    when a header is missing. -/
def State.calcReorg (s : State) : Nat → Header → Header → List Header → List Header
    → Option (List Header × List Header)
  | 0, _, _, _, _ => none
  | fuel + 1, a, d, att, det =>
    if a.id == d.id then some (att, det) else
    let aBack := a.height ≥ d.height
    let dBack := a.height ≤ d.height
    let att' := if aBack then a :: att else att
    let det' := if dBack then det ++ [d] else det
    match (if aBack then s.header a.parent else some a), (if dBack then s.header d.parent else some d) with
    | some a', some d' => s.calcReorg fuel a' d' att' det'
    | _, _ => none

/-- `tryReorganize` + `reorganizeChain` + `setState` (ledger views are a separate layer) -/
def State.tryReorganize (s : State) (bestHash : Nat) : State × Bool :=
  if s.best == bestHash then (s, true) else
  match s.header bestHash, s.header s.best with
  | some nb, some ob =>
    match s.calcReorg (2 * s.fuel) nb ob [] [] with
    | none => (s, false)
    | some (att, _det) =>
      let index' := att.foldl (fun ix h => alistSet ix h.height h.id) s.index
      ({ s with index := index', best := bestHash, statusFin := s.tree.ckpt.hash }, true)
  | _, _ => (s, false)

/-- `Chain.saveBlock` for a block that passes `ValidateBlock` -/
def State.saveBlock (s : State) (b : Header) : State × Bool :=
  match s.header b.parent with
  | none => (s, false)
  | some _ =>
    -- checkpoint, err := c.PrevCheckpointByPrevHash(prev)
    match s.prevCheckpointHash s.fuel b.parent with
    | none => (s, false)
    | some ch =>
      match s.getCheckpoint ch with
      | none => (s, false)
      | some _ =>
        let (s1, ok, sup) := s.applyBlock b
        if !ok then (s1, false) else
        -- store.SaveBlock(block): the header is stored with the sup links it has now
        let hdr := { b with sup := sup }
        let s2 := { s1 with headers := hdr :: s1.headers.filter (fun h => h.id != b.id),
                            storeOrder := if s1.storeOrder.contains b.id then s1.storeOrder else s1.storeOrder ++ [b.id] }
        (s2.orphanDelete b.id, true)

/-- `saveSubBlock`: connect the orphans waiting for `id`, recursively. `GetPrevOrphans`
    hands out a copy of the list; an entry removed meanwhile is skipped. -/
def State.saveSubBlock : Nat → State → Nat → State
  | 0, s, _ => s
  | fuel + 1, s, id =>
    match alistGet s.prevOrphans id with
    | none => s
    | some waiting =>
      waiting.foldl (fun st o =>
        match lookupHeader st.orphans o with
        | none => st
        | some ob =>
          let (st1, ok) := st.saveBlock ob
          -- a refused orphan is dropped from the pool
          if !ok then st1.orphanDelete o else State.saveSubBlock fuel st1 o) s

/-- `Chain.processBlock` -/
def State.processBlock (s : State) (b : Header) : State × Res :=
  let exists_ := (s.header b.id).isSome || s.isOrphan b.id
  let bestH := match s.header s.best with | some h => h.height | none => 0
  if exists_ && bestH ≥ b.height then
    (s, if s.isOrphan b.id then .orphan else .ok)
  else if (s.header b.parent).isNone then
    (s.orphanAdd b, .orphan)
  else
    let (s1, ok) := s.saveBlock b
    if !ok then (s1, .err) else
    let s2 := State.saveSubBlock s1.fuel s1 b.id
    let (s3, ok3) := s2.tryReorganize s2.bestChain
    (s3, if ok3 then .ok else .err)

/-- `Casper.AuthVerification` (+ the rollback it requests from the chain). The verification
    cache for unknown targets is not exercised by the modelled histories (votes are only
    sent for targets the node has stored); such a message is answered `ok` and ignored. -/
def State.authVerification (s : State) (order src tgt : Nat) (sigOk : Bool) : State × Res :=
  match s.tree.find (byHash tgt) with
  | none => (s, .ok)
  | some tn =>
    match s.getCheckpoint src with
    | none => (s, .err)
    | some source =>
      -- convertVerification: validators := target.Parent.EffectiveValidators()
      if isRoot s.tree tgt then (s, .err) else
      if order ≥ s.cfg.nVal then (s, .err) else
      let target := tn.ckpt
      -- ContainsVerification scans EVERY link with that source hash (a reloaded checkpoint can hold two)
      if target.sup.any (fun l => l.src == src && hasSlot l order) then (s, .ok) else
      let oldBest := s.bestChain
      if !(s.verifyVerification s.tree order src source.height tgt target.height sigOk) then (s, .err) else
      match s.addVerification s.tree s.ckpts tgt order src source.height with
      | none => (s, .err)
      | some (tree', srcs) =>
        let ckpts' := saveAffected tree' s.ckpts tgt srcs
        -- saveVerificationToHeader
        match s.header tgt with
        | none => ({ s with tree := tree', ckpts := ckpts', posted := s.posted ++ [(order, src, tgt)] }, .err)
        | some th =>
          let th' := { th with sup := addSupLinkH th.sup src source.height { slot := order, valid := sigOk } }
          let s1 := { s with tree := tree', ckpts := ckpts', posted := s.posted ++ [(order, src, tgt)],
                             headers := th' :: s.headers.filter (fun h => h.id != tgt) }
          -- tryRollback
          let newBest := s1.bestChain
          if newBest == oldBest then (s1, .ok) else
          let (s2, ok) := s1.tryReorganize newBest
          (s2, if ok then .ok else .err)

def State.init (cfg : Config) (genesis : Header) : State :=
  { cfg := cfg, defs := [genesis], headers := [genesis], storeOrder := [genesis.id],
    ckpts := [{ hash := genesis.id, height := 0, parentHash := 0, status := .justified }],
    index := [(0, genesis.id)], best := genesis.id, statusFin := genesis.id,
    tree := .node { hash := genesis.id, height := 0, parentHash := 0, status := .justified, sup := [] } [],
    orphans := [], prevOrphans := [], posted := [] }

/-! ### restart: `NewChain` on the persisted state -/

/-- `makeTree`: attach, breadth first, every successor record under its parent hash
    (fuel = number of records). Sup links of a reloaded checkpoint are those of its stored
    header (`loadCheckpointsFromIter`). -/
def State.buildTree (s : State) (isRoot : Bool) : Nat → CkptRec → List CkptRec → Tree
  | 0, r, _ => .node { hash := r.hash, height := r.height, parentHash := r.parentHash, status := r.status,
                       sup := if isRoot then [] else match s.header r.hash with | some h => h.sup | none => [] } []
  | fuel + 1, r, succs =>
    let kids := succs.filter (fun c => c.parentHash == r.hash)
    .node { hash := r.hash, height := r.height, parentHash := r.parentHash, status := r.status,
            -- the first record is decoded alone; only the successors get their header's sup links
            sup := if isRoot then [] else match s.header r.hash with | some h => h.sup | none => [] }
          (kids.map (fun k => s.buildTree false fuel k succs))

/-- `NewChainWithOrphanManage` on the stored data; none = it returns an error / panics. -/
def State.restart (s : State) : Option State :=
  match s.header s.best, s.header s.statusFin with
  | some _, some fh =>
    -- CheckpointsFromNode(finalizedHeight, finalizedHash): records with key ≥ (height, hash)
    let keyLe (a b : CkptRec) : Bool := a.height < b.height || (a.height == b.height && s.rankOf a.hash ≤ s.rankOf b.hash)
    let start : CkptRec := { hash := s.statusFin, height := fh.height, parentHash := 0, status := .finalized }
    let recs := (s.ckpts.filter (fun r => keyLe start r)).mergeSort keyLe
    match recs with
    | [] => none
    | first :: rest =>
      -- every successor's header must be readable
      if rest.any (fun r => (s.header r.hash).isNone) then none
      -- NewCasper: the first element must be genesis or finalized
      else if first.height != 0 && first.status != .finalized then none
      else
        let s1 := { s with tree := s.buildTree true (rest.length + 1) first rest, orphans := [], prevOrphans := [] }
        -- NewChain applies the best block again: the growing checkpoint of the blocks past the
        -- last epoch boundary is rebuilt (a failure is only logged)
        match s1.header s1.best with
        | some bh => let (s2, ok, _) := s1.applyBlock bh; some (if ok then s2 else s1)
        | none => some s1
  | _, _ => none

end BytomModel.Node
