/-
Reference model of the key store as the pseudohsm API presents it (`blockchain/pseudohsm/
pseudohsm.go`: XCreate, XSign / LoadChainKDKey, ResetPassword, XDelete, a new HSM object over the
same directory).  A slot is an alias; what a slot holds is the password its key file is currently
encrypted with.  Every password-taking operation succeeds iff the slot holds a key and the
presented password is that key's CURRENT password — whatever the history of the running HSM
object.  Core Lean only.
-/
namespace BytomModel.HSM

/-- slot ↦ current password of the key stored under that alias (`none`: no key) -/
abbrev State := List (Option Nat)

def empty : State := []

def get (s : State) (k : Nat) : Option Nat := (s.getD k none)

def set : State → Nat → Option Nat → State
  | [], 0, v => [v]
  | [], k + 1, v => none :: set [] k v
  | _ :: r, 0, v => v :: r
  | x :: r, k + 1, v => x :: set r k v

inductive Op where
  | create (k pw : Nat)          -- XCreate(alias k, pw)
  | sign (k pw : Nat)            -- XSign(xpub of k, path, msg, pw)
  | check (k pw : Nat)           -- LoadChainKDKey(xpub of k, pw)  (the check-password API)
  | resetpw (k old new : Nat)    -- ResetPassword(xpub of k, old, new)
  | delete (k pw : Nat)          -- XDelete(xpub of k, pw)
  | reload                       -- a new HSM object over the same directory
  deriving Repr, DecidableEq

/-- does the password unlock slot `k`? -/
def unlocks (s : State) (k pw : Nat) : Bool := get s k == some pw

/-- one operation: new state and whether it succeeded -/
def step (s : State) : Op → State × Bool
  | .create k pw => if (get s k).isSome then (s, false) else (set s k (some pw), true)
  | .sign k pw => (s, unlocks s k pw)
  | .check k pw => (s, unlocks s k pw)
  | .resetpw k old new => if unlocks s k old then (set s k (some new), true) else (s, false)
  | .delete k pw => if unlocks s k pw then (set s k none, true) else (s, false)
  | .reload => (s, true)

def run (s : State) (ops : List Op) : State := ops.foldl (fun s o => (step s o).1) s

end BytomModel.HSM
