/-
M-Utxo: executable model of the ledger views — `protocol/state/utxo_view.go`
(ApplyBlock / DetachBlock on a `UtxoViewpoint`), `database/utxo_view.go`
(getTransactionsUtxo, saveUtxoView), `protocol/state/contract_view.go` and
`database/contract_view.go` — over named outputs and transactions.

Core Lean only; mirrors the code AS IT IS (e.g. an entry re-created by a detach gets
block height 0).
-/
namespace BytomModel.Ledger

inductive OutKind
  | normal
  | vote
  | retire                 -- unspendable program: a `Retirement` entry, never a utxo
  | contract (h : Nat)     -- BCRP registration (also a retirement); `h` names the contract hash
deriving DecidableEq, Repr, Inhabited

structure TxOut where
  id : Nat
  kind : OutKind
  amount : Nat
deriving Repr, Inhabited

structure Tx where
  id : Nat
  ins : List Nat          -- spent output ids (spend and veto inputs)
  outs : List TxOut
deriving Repr, Inhabited

/-- `storage.UtxoEntry`: type 0 normal, 1 coinbase, 2 vote -/
structure Entry where
  typ : Nat
  height : Nat
  spent : Bool
deriving DecidableEq, Repr, Inhabited

abbrev View := List (Nat × Entry)

def vget (v : View) (k : Nat) : Option Entry := (v.find? (fun p => p.1 == k)).map (·.2)
def vset (v : View) (k : Nat) (e : Entry) : View :=
  if v.any (fun p => p.1 == k) then v.map (fun p => if p.1 == k then (k, e) else p) else v ++ [(k, e)]
def vdel (v : View) (k : Nat) : View := v.filter (fun p => p.1 != k)

structure Params where
  coinbasePending : Nat := 10
  votePending : Nat := 2
deriving Repr, Inhabited

/-- `applySpendUtxo` -/
def applySpend (p : Params) (height : Nat) : List Nat → View → Option View
  | [], v => some v
  | o :: os, v =>
    match vget v o with
    | none => none                                       -- fail to find utxo entry
    | some e =>
      if e.spent then none                               -- utxo has been spent
      else if e.typ == 1 && e.height + p.coinbasePending > height then none
      else if e.typ == 2 && e.height + p.votePending > height then none
      else applySpend p height os (vset v o { e with spent := true })

def utxoType (k : OutKind) : Option Nat :=
  match k with
  | .normal => some 0
  | .vote => some 2
  | _ => none

/-- `applyOutputUtxo` -/
def applyOutput (height : Nat) (isCoinbase : Bool) : List TxOut → View → View
  | [], v => v
  | o :: os, v =>
    match utxoType o.kind with
    | none => applyOutput height isCoinbase os v
    | some t =>
      if o.amount == 0 then applyOutput height isCoinbase os v
      else applyOutput height isCoinbase os (vset v o.id { typ := if isCoinbase then 1 else t, height := height, spent := false })

/-- `UtxoViewpoint.ApplyBlock`: the first transaction of the block is the coinbase -/
def applyBlockTxs (p : Params) (height : Nat) : Bool → List Tx → View → Option View
  | _, [], v => some v
  | first, t :: ts, v =>
    match applySpend p height t.ins v with
    | none => none
    | some v1 => applyBlockTxs p height false ts (applyOutput height first t.outs v1)

/-- `detachSpendUtxo`: `kindOf` is the kind of the spent output (from the tx's own entries) -/
def detachSpend (kindOf : Nat → OutKind) : List Nat → View → Option View
  | [], v => some v
  | o :: os, v =>
    match utxoType (kindOf o) with
    | none => none                                        -- unexpected entry type
    | some t =>
      match vget v o with
      | some e =>
        if !e.spent then none                             -- try to revert an unspent utxo
        else detachSpend kindOf os (vset v o { e with spent := false })
      | none => detachSpend kindOf os (vset v o { typ := t, height := 0, spent := false })

/-- `detachOutputUtxo` -/
def detachOutput : List TxOut → View → View
  | [], v => v
  | o :: os, v =>
    match utxoType o.kind with
    | none => detachOutput os v
    | some t =>
      if o.amount == 0 then detachOutput os v
      else detachOutput os (vset v o.id { typ := t, height := 0, spent := true })

/-- `UtxoViewpoint.DetachBlock`: transactions in reverse order -/
def detachBlockTxs (kindOf : Nat → OutKind) (txs : List Tx) (v : View) : Option View :=
  txs.reverse.foldl (fun acc t =>
    match acc with
    | none => none
    | some v0 =>
      match detachSpend kindOf t.ins v0 with
      | none => none
      | some v1 => some (detachOutput t.outs v1)) (some v)

/-- `getTransactionsUtxo`: load the spent outputs that the view does not hold yet -/
def loadSpent (db : View) (txs : List Tx) (v : View) : View :=
  txs.foldl (fun v0 t => t.ins.foldl (fun v1 o =>
    match vget v1 o with
    | some _ => v1
    | none => match vget db o with
      | some e => vset v1 o e
      | none => v1) v0) v

/-- `saveUtxoView`: spent entries are deleted unless they are coinbase or vote entries (whose
    block height must survive an un-spend), the others written -/
def saveView (db : View) (v : View) : View :=
  v.foldl (fun d (k, e) => if e.spent && e.typ != 1 && e.typ != 2 then vdel d k else vset d k e) db

/-! ### contracts -/

abbrev CMap := List (Nat × Nat)   -- contract hash ↦ registering tx id

def cget (m : CMap) (k : Nat) : Option Nat := (m.find? (fun p => p.1 == k)).map (·.2)
def cset (m : CMap) (k v : Nat) : CMap :=
  if m.any (fun p => p.1 == k) then m.map (fun p => if p.1 == k then (k, v) else p) else m ++ [(k, v)]
def cdel (m : CMap) (k : Nat) : CMap := m.filter (fun p => p.1 != k)

def contractsOf (t : Tx) : List Nat :=
  t.outs.filterMap (fun o => match o.kind with | .contract h => some h | _ => none)

/-- `ContractViewpoint.ApplyBlock`: first registration in the view wins -/
def contractAttach (txs : List Tx) (att : CMap) : CMap :=
  txs.foldl (fun a t => (contractsOf t).foldl (fun a1 h => match cget a1 h with
    | some _ => a1 | none => cset a1 h t.id) a) att

/-- `ContractViewpoint.DetachBlock`: reverse order, later writes overwrite -/
def contractDetach (txs : List Tx) (det : CMap) : CMap :=
  txs.reverse.foldl (fun d t => (contractsOf t).foldl (fun d1 h => cset d1 h t.id) d) det

/-- `deleteContractView` then `saveContractView` inside one batch (reads see the DB as it
    was before the batch) -/
def saveContracts (db : CMap) (att det : CMap) : CMap :=
  let afterDel := det.foldl (fun d (h, tx) => if cget db h == some tx then cdel d h else d) db
  att.foldl (fun d (h, tx) =>
    let data := cget db h
    let d1 := if data.isNone then cset d h tx else d
    match cget det h with
    | some dv => if data == some dv then cset d1 h tx else d1
    | none => d1) afterDel

end BytomModel.Ledger
