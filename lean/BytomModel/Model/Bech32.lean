/-
M-Text (1) — model of `common/bech32/bech32.go` and of the segwit address functions of
`common/address.go` (core Lean only).

Go strings and byte slices are lists of byte values (`Nat`; every function that can see a
value ≥ 256 rejects or masks it exactly where the Go code would, and the driver only feeds
bytes).  Go `int` arithmetic in `bech32Polymod` never leaves 30 bits, so `Nat` is exact.
`uint8` shifts in `ConvertBits` are written with an explicit `% 256`.
Errors are a small enum (the harness maps Go's error texts to it).
-/
namespace BytomModel.Bech32

abbrev Bytes := List Nat

inductive Err where
  | length        -- "invalid bech32 string length"
  | char          -- "invalid character in string"
  | mixedCase     -- "string not all lowercase or all uppercase"
  | separator     -- "invalid index of 1"
  | charset       -- "failed converting data to bytes" / "unable to convert data bytes to chars"
  | checksum      -- "checksum failed"
  | bitGroups     -- "only bit groups between 1 and 8 allowed"
  | incomplete    -- "invalid incomplete group"
  | noVersion     -- "no witness version"
  | version       -- "invalid witness version"
  | dataLength    -- "invalid data length"
  | dataLengthV0  -- "invalid data length for witness version 0"
  | unsupportedVer     -- ErrUnsupportedWitnessVer
  | unsupportedProgLen -- ErrUnsupportedWitnessProgLen
  | unknownType        -- ErrUnknownAddressType
  | invalidSegwit      -- "invalid segwit address" (encodeSegWitAddress self-check)
  | progLen            -- "witness program must be 20/32 bytes"
  deriving Repr, DecidableEq

def Err.name : Err → String
  | .length => "length" | .char => "char" | .mixedCase => "mixed-case" | .separator => "separator"
  | .charset => "charset" | .checksum => "checksum" | .bitGroups => "bit-groups" | .incomplete => "incomplete"
  | .noVersion => "no-version" | .version => "version" | .dataLength => "data-length"
  | .dataLengthV0 => "data-length-v0" | .unsupportedVer => "unsupported-version"
  | .unsupportedProgLen => "unsupported-proglen" | .unknownType => "unknown-type"
  | .invalidSegwit => "invalid-segwit" | .progLen => "prog-len"

/-- `charset = "qpzry9x8gf2tvdw0s3jn54khce6mua7l"` as byte values -/
def charset : List Nat :=
  [113, 112, 122, 114, 121, 57, 120, 56, 103, 102, 50, 116, 118, 100, 119, 48,
   115, 51, 106, 110, 53, 52, 107, 104, 99, 101, 54, 109, 117, 97, 55, 108]

def gen : List Nat := [0x3b6a57b2, 0x26508e6d, 0x1ea119fa, 0x3d4233dd, 0x2a1462b3]

/-- one iteration of the loop of `bech32Polymod` -/
def polymodStep (chk v : Nat) : Nat :=
  let b := chk >>> 25
  let c := ((chk &&& 0x1ffffff) <<< 5) ^^^ v
  let c := if (b >>> 0) &&& 1 = 1 then c ^^^ 0x3b6a57b2 else c
  let c := if (b >>> 1) &&& 1 = 1 then c ^^^ 0x26508e6d else c
  let c := if (b >>> 2) &&& 1 = 1 then c ^^^ 0x1ea119fa else c
  let c := if (b >>> 3) &&& 1 = 1 then c ^^^ 0x3d4233dd else c
  let c := if (b >>> 4) &&& 1 = 1 then c ^^^ 0x2a1462b3 else c
  c

/-- the fold of `bech32Polymod` from an arbitrary state -/
def polymodFrom (chk : Nat) (values : List Nat) : Nat := values.foldl polymodStep chk

def polymod (values : List Nat) : Nat := polymodFrom 1 values

def hrpExpand (hrp : Bytes) : List Nat :=
  hrp.map (· >>> 5) ++ [0] ++ hrp.map (· &&& 31)

def checksum (hrp : Bytes) (data : Bytes) : Bytes :=
  let pm := polymod (hrpExpand hrp ++ data ++ [0, 0, 0, 0, 0, 0]) ^^^ 1
  [0, 1, 2, 3, 4, 5].map (fun i => (pm >>> (5 * (5 - i))) &&& 31)

def verifyChecksum (hrp : Bytes) (data : Bytes) : Bool :=
  polymod (hrpExpand hrp ++ data) == 1

/-- `strings.IndexByte(charset, c)` -/
def charsetIndex (c : Nat) : Option Nat :=
  let i := charset.idxOf c
  if i < 32 then some i else none

def toBytes : Bytes → Except Err Bytes
  | [] => .ok []
  | c :: cs =>
    match charsetIndex c with
    | none => .error .charset
    | some i => match toBytes cs with
      | .ok r => .ok (i :: r)
      | .error e => .error e

def toChars : Bytes → Except Err Bytes
  | [] => .ok []
  | b :: bs =>
    if b ≥ 32 then .error .charset
    else match toChars bs with
      | .ok r => .ok (charset.getD b 0 :: r)
      | .error e => .error e

/-- `Bech32Encode(hrp, data)` -/
def encode (hrp data : Bytes) : Except Err Bytes :=
  match toChars (data ++ checksum hrp data) with
  | .ok cs => .ok (hrp ++ [49] ++ cs)
  | .error e => .error e

def toLower (c : Nat) : Nat := if 65 ≤ c ∧ c ≤ 90 then c + 32 else c
def toUpper (c : Nat) : Nat := if 97 ≤ c ∧ c ≤ 122 then c - 32 else c

/-- `strings.LastIndexByte(s, c)`; `none` is −1 -/
def lastIndexOf (c : Nat) : Bytes → Option Nat
  | [] => none
  | x :: xs => match lastIndexOf c xs with
    | some i => some (i + 1)
    | none => if x = c then some 0 else none

/-- `Bech32Decode(bech)`: `(hrp, data without checksum)` -/
def decode (bech : Bytes) : Except Err (Bytes × Bytes) :=
  if bech.length < 8 ∨ bech.length > 90 then .error .length
  else if bech.any (fun c => c < 33 ∨ c > 126) then .error .char
  else
    let lower := bech.map toLower
    let upper := bech.map toUpper
    if bech ≠ lower ∧ bech ≠ upper then .error .mixedCase
    else
      match lastIndexOf 49 lower with
      | none => .error .separator
      | some one =>
        if one < 1 ∨ one + 7 > lower.length then .error .separator
        else
          let hrp := lower.take one
          let data := lower.drop (one + 1)
          match toBytes data with
          | .error _ => .error .charset
          | .ok decoded =>
            if !verifyChecksum hrp decoded then .error .checksum
            else .ok (hrp, decoded.take (decoded.length - 6))

/-! ### ConvertBits -/

structure CB where
  next : Nat
  filled : Nat
  out : List Nat
  deriving Repr, DecidableEq

/-- one iteration of the inner `for remFromBits > 0` loop: the new `(b, remFromBits, state)` -/
def cbIter (toBits b rem : Nat) (st : CB) : Nat × Nat × CB :=
  let remTo := toBits - st.filled
  let ex := if remTo < rem then remTo else rem
  let next := ((st.next <<< ex) % 256) ||| (b >>> (8 - ex))
  let b' := (b <<< ex) % 256
  let rem' := rem - ex
  let filled := st.filled + ex
  if filled = toBits then (b', rem', ⟨0, 0, st.out ++ [next]⟩)
  else (b', rem', ⟨next, filled, st.out⟩)

/-- the inner `for remFromBits > 0` loop on one (already left-aligned) input byte `b` -/
def cbInner (toBits : Nat) : Nat → Nat → Nat → CB → CB
  | 0, _, _, st => st
  | fuel + 1, b, rem, st =>
    if rem = 0 then st else
    let r := cbIter toBits b rem st
    cbInner toBits fuel r.1 r.2.1 r.2.2

/-- one input byte -/
def cbByte (fromBits toBits : Nat) (st : CB) (b : Nat) : CB :=
  cbInner toBits 8 ((b <<< (8 - fromBits)) % 256) fromBits st

/-- `ConvertBits(data, fromBits, toBits, pad)` -/
def convertBits (data : Bytes) (fromBits toBits : Nat) (pad : Bool) : Except Err Bytes :=
  if fromBits < 1 ∨ fromBits > 8 ∨ toBits < 1 ∨ toBits > 8 then .error .bitGroups
  else
    let st := data.foldl (cbByte fromBits toBits) ⟨0, 0, []⟩
    let st := if pad ∧ st.filled > 0 then
        (⟨0, 0, st.out ++ [(st.next <<< (toBits - st.filled)) % 256]⟩ : CB) else st
    if st.filled > 0 ∧ (st.filled > 4 ∨ st.next ≠ 0) then .error .incomplete
    else .ok st.out

/-! ### segwit addresses (common/address.go) -/

/-- `decodeSegWitAddress` -/
def decodeSegWit (address : Bytes) : Except Err (Nat × Bytes) :=
  match decode address with
  | .error e => .error e
  | .ok (_, data) =>
    match data with
    | [] => .error .noVersion
    | version :: rest =>
      if version > 16 then .error .version
      else match convertBits rest 5 8 false with
        | .error e => .error e
        | .ok regrouped =>
          if regrouped.length < 2 ∨ regrouped.length > 40 then .error .dataLength
          else if version = 0 ∧ regrouped.length ≠ 20 ∧ regrouped.length ≠ 32 then .error .dataLengthV0
          else .ok (version, regrouped)

/-- `encodeSegWitAddress` (including its decode-and-compare self check) -/
def encodeSegWit (hrp : Bytes) (version : Nat) (program : Bytes) : Except Err Bytes :=
  match convertBits program 8 5 true with
  | .error e => .error e
  | .ok converted =>
    match encode hrp (version :: converted) with
    | .error e => .error e
    | .ok bech =>
      match decodeSegWit bech with
      | .error _ => .error .invalidSegwit
      | .ok (v, p) => if v ≠ version ∨ p ≠ program then .error .invalidSegwit else .ok bech

inductive AddrKind where
  | pubKeyHash   -- AddressWitnessPubKeyHash (20 bytes)
  | scriptHash   -- AddressWitnessScriptHash (32 bytes)
  deriving Repr, DecidableEq

structure Address where
  kind : AddrKind
  hrp : Bytes
  program : Bytes
  deriving Repr, DecidableEq

/-- `NewAddressWitnessPubKeyHash` / `NewAddressWitnessScriptHash` with the network's hrp -/
def newAddress (kind : AddrKind) (hrp : Bytes) (prog : Bytes) : Except Err Address :=
  match kind with
  | .pubKeyHash => if prog.length ≠ 20 then .error .progLen else .ok ⟨kind, hrp.map toLower, prog⟩
  | .scriptHash => if prog.length ≠ 32 then .error .progLen else .ok ⟨kind, hrp.map toLower, prog⟩

/-- `EncodeAddress()`: the empty string on error -/
def Address.encodeAddress (a : Address) : Bytes :=
  match encodeSegWit a.hrp 0 a.program with
  | .ok s => s
  | .error _ => []

/-- `DecodeAddress(addr, param)` where `netHrp = param.Bech32HRPSegwit`.
    `strings.ToLower(prefix)` is modelled bytewise (exact for ASCII; a non-ASCII prefix can not
    lower-case to one of the three network prefixes, none of which contains `k` or `i`). -/
def decodeAddress (addr : Bytes) (netHrp : Bytes) : Except Err Address :=
  match lastIndexOf 49 addr with
  | none => .error .unknownType
  | some oneIndex =>
    if oneIndex > 1 then
      let pfx := addr.take (oneIndex + 1)
      if pfx.map toLower = netHrp ++ [49] then
        match decodeSegWit addr with
        | .error e => .error e
        | .ok (ver, prog) =>
          if ver ≠ 0 then .error .unsupportedVer
          else
            let hrp := pfx.take (pfx.length - 1)
            if prog.length = 20 then newAddress .pubKeyHash hrp prog
            else if prog.length = 32 then newAddress .scriptHash hrp prog
            else .error .unsupportedProgLen
      else .error .unknownType
    else .error .unknownType

/-- the three networks' `Bech32HRPSegwit` -/
def hrpMainnet : Bytes := [98, 110]   -- "bn"
def hrpTestnet : Bytes := [116, 110]  -- "tn"
def hrpSolonet : Bytes := [115, 110]  -- "sn"

end BytomModel.Bech32
