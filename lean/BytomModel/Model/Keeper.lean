/-
M-Wallet / keeper — executable model of `account/utxo_keeper.go` (utxoKeeper), as the code IS.

State: the wallet DB's account-UTXO records (`confirmed`, in key order), the keeper's
`unconfirmed` map, the `reserved` map (output id ↦ reservation id), the live
`reservations`, `nextIndex`, and the value `currentHeight()` returns.

Faithful points (see notes/C26.md):
* `findUtxos` lists the DB records first and then, when `useUnconfirmed`, the unconfirmed
  map — an output present in both is listed TWICE (F16).
* `optUTXOs`: sort by amount descending (Go's `sort.Slice` is not stable: the model takes
  the sort as a parameter `sortFn`; every theorem holds for every permutation-valued
  `sortFn`), drop reserved outputs (summing them), greedy fill until `optAmount ≥ amount`,
  then the "replace the largest" refinement with Go's `int` comparison
  `replaceList.Len() <= desireUtxoCount - optList.Len()`.
* `Reserve(amount = 0)` with at least one unreserved candidate dereferences
  `optList.Front()` of an empty list: nil-pointer panic → `Outcome.panic`.
* amounts are `Nat` (no uint64 wrap-around): the model's domain is keeper states in which
  the sum of all candidate amounts is below 2^64 (recorded as an assumption).
Core Lean only.
-/
namespace BytomModel.Model.Keeper

structure Utxo where
  id : Nat
  asset : Nat
  amount : Nat
  account : Nat
  /-- 0 = nil/empty vote (Go compares with `bytes.Equal`, so nil = empty) -/
  vote : Nat
  validHeight : Nat
  /-- stored under the contract-UTXO key `SCU:` (seen by `findUtxo` only) -/
  contract : Bool
  /-- control program (used by the transaction builder, C27; irrelevant to the keeper) -/
  prog : Nat
deriving DecidableEq, Repr, Inhabited

structure Res where
  id : Nat
  utxos : List Utxo
  change : Nat
  expiry : Nat
deriving DecidableEq, Repr, Inhabited

structure Keeper where
  next : Nat
  confirmed : List Utxo
  unconfirmed : List Utxo
  reserved : List (Nat × Nat)
  reservations : List Res
  height : Nat
deriving Repr, Inhabited

def empty : Keeper := ⟨0, [], [], [], [], 0⟩

inductive Err | insufficient | immature | reserved | matchUtxo
deriving DecidableEq, Repr

inductive Outcome (α : Type)
  | ok (v : α)
  | err (e : Err)
  | panic
deriving Repr, DecidableEq

def desireUtxoCount : Nat := 5

/-! ### association-list maps (keys unique by construction of `insert`) -/

def mErase (k : Nat) (m : List (Nat × Nat)) : List (Nat × Nat) := m.filter (fun p => p.1 != k)
def mInsert (k v : Nat) (m : List (Nat × Nat)) : List (Nat × Nat) := (k, v) :: mErase k m
def mLookup (k : Nat) (m : List (Nat × Nat)) : Option Nat := m.lookup k

def amounts (l : List Utxo) : Nat := (l.map (·.amount)).sum

/-! ### findUtxos -/

def matchesReq (acct asset vote : Nat) (u : Utxo) : Bool :=
  u.account == acct && u.asset == asset && u.vote == vote

/-- every record `findUtxos` visits, in visiting order: the standard-key DB records, then
    (if asked) the unconfirmed map. No de-duplication — as the code. -/
def listed (k : Keeper) (useUnc : Bool) : List Utxo :=
  k.confirmed.filter (fun u => !u.contract) ++ (if useUnc then k.unconfirmed else [])

def matching (k : Keeper) (acct asset : Nat) (useUnc : Bool) (vote : Nat) : List Utxo :=
  (listed k useUnc).filter (matchesReq acct asset vote)

def mature (k : Keeper) (u : Utxo) : Bool := decide (u.validHeight ≤ k.height)

def findUtxos (k : Keeper) (acct asset : Nat) (useUnc : Bool) (vote : Nat) : List Utxo × Nat :=
  let m := matching k acct asset useUnc vote
  (m.filter (mature k), amounts (m.filter (fun u => !mature k u)))

/-! ### optUTXOs -/

def isReserved (k : Keeper) (u : Utxo) : Bool := (mLookup u.id k.reserved).isSome

inductive Mode
  | fill
  | repl (rl : List Utxo) (ra : Nat)

inductive ReplAct
  | stop
  | replaced (opt : List Utxo) (a : Nat)
  | cont (rl : List Utxo) (ra : Nat)

/-- one iteration of the inner replace loop on node `n`; `opt = l :: tl` is the current
    selection (its front is `largestNode`), `rl`/`ra` the replace list and amount so far. -/
def replDecide (amount : Nat) (n : Utxo) (optLen : Nat) (tl : List Utxo) (rl : List Utxo) (ra : Nat) : ReplAct :=
  if (rl.length : Int) ≤ (desireUtxoCount : Int) - (optLen : Int) then
    let rl' := rl ++ [n]
    let ra' := ra + n.amount
    if ra' ≥ amount then .replaced (tl ++ rl') ra' else .cont rl' ra'
  else .stop

/-- the selection loop of `optUTXOs` over the unreserved candidates (already sorted).
    `none` = nil-pointer panic (`optList.Front()` of an empty list). -/
def sel (amount : Nat) : List Utxo → List Utxo → Nat → Mode → Option (List Utxo × Nat)
  | [], opt, a, _ => some (opt, a)
  | n :: rest, opt, a, .fill =>
    if a < amount then sel amount rest (opt ++ [n]) (a + n.amount) .fill
    else match opt with
      | [] => none
      | l :: tl =>
        match replDecide amount n opt.length tl [] (a - l.amount) with
        | .stop => some (opt, a)
        | .replaced opt' a' => sel amount rest opt' a' .fill
        | .cont rl ra => sel amount rest opt a (.repl rl ra)
  | n :: rest, opt, a, .repl rl ra =>
    match opt with
    | [] => none
    | _ :: tl =>
      match replDecide amount n opt.length tl rl ra with
      | .stop => some (opt, a)
      | .replaced opt' a' => sel amount rest opt' a' .fill
      | .cont rl' ra' => sel amount rest opt a (.repl rl' ra')

/-- `optUTXOs` on the sorted candidate list: (selection, optAmount, reservedAmount). -/
def optUTXOs (k : Keeper) (sorted : List Utxo) (amount : Nat) : Option (List Utxo × Nat × Nat) :=
  let avail := sorted.filter (fun u => !isReserved k u)
  let reservedAmount := amounts (sorted.filter (isReserved k))
  match sel amount avail [] 0 .fill with
  | none => none
  | some (opt, a) => some (opt, a, reservedAmount)

/-! ### sort (stable insertion sort, amount descending) — the driver's `sortFn` -/

def insertDesc (u : Utxo) : List Utxo → List Utxo
  | [] => [u]
  | v :: rest => if v.amount ≥ u.amount then v :: insertDesc u rest else u :: v :: rest

def sortDesc (l : List Utxo) : List Utxo := l.foldr insertDesc []

/-! ### Reserve / ReserveParticular / cancel / expire -/

def reserveAll (rid : Nat) (us : List Utxo) (m : List (Nat × Nat)) : List (Nat × Nat) :=
  us.foldl (fun m u => mInsert u.id rid m) m

def reserveWith (sortFn : List Utxo → List Utxo) (k : Keeper) (acct asset amount : Nat) (useUnc : Bool)
    (vote exp : Nat) : Outcome Res × Keeper :=
  let (cands, immatureAmount) := findUtxos k acct asset useUnc vote
  match optUTXOs k (sortFn cands) amount with
  | none => (.panic, k)
  | some (opt, optAmount, reservedAmount) =>
    if optAmount + reservedAmount + immatureAmount < amount then (.err .insufficient, k)
    else if optAmount + reservedAmount < amount then (.err .immature, k)
    else if optAmount < amount then (.err .reserved, k)
    else
      let r : Res := ⟨k.next + 1, opt, optAmount - amount, exp⟩
      (.ok r, { k with next := k.next + 1, reservations := r :: k.reservations,
                        reserved := reserveAll r.id opt k.reserved })

def reserve := reserveWith sortDesc

def findUtxo (k : Keeper) (oid : Nat) (useUnc : Bool) : Option Utxo :=
  match (if useUnc then k.unconfirmed.find? (fun u => u.id == oid) else none) with
  | some u => some u
  | none =>
    match k.confirmed.find? (fun u => u.id == oid && !u.contract) with
    | some u => some u
    | none => k.confirmed.find? (fun u => u.id == oid && u.contract)

def reserveParticular (k : Keeper) (oid : Nat) (useUnc : Bool) (exp : Nat) : Outcome Res × Keeper :=
  if (mLookup oid k.reserved).isSome then (.err .reserved, k)
  else match findUtxo k oid useUnc with
    | none => (.err .matchUtxo, k)
    | some u =>
      if u.validHeight > k.height then (.err .immature, k)
      else
        let r : Res := ⟨k.next + 1, [u], 0, exp⟩
        (.ok r, { k with next := k.next + 1, reservations := r :: k.reservations,
                          reserved := mInsert u.id r.id k.reserved })

def unreserveAll (us : List Utxo) (m : List (Nat × Nat)) : List (Nat × Nat) :=
  us.foldl (fun m u => mErase u.id m) m

def cancel (k : Keeper) (rid : Nat) : Keeper :=
  match k.reservations.find? (fun r => r.id == rid) with
  | none => k
  | some r => { k with reservations := k.reservations.filter (fun r => r.id != rid),
                        reserved := unreserveAll r.utxos k.reserved }

/-- `expireReservation(t)`: cancel every reservation with `expiry.Before(t)`. -/
def expire (k : Keeper) (t : Nat) : Keeper :=
  (k.reservations.filter (fun r => decide (r.expiry < t))).foldl (fun k r => cancel k r.id) k

/-! ### the surrounding wallet's writes -/

def dbDel (k : Keeper) (oid : Nat) : Keeper := { k with confirmed := k.confirmed.filter (fun u => u.id != oid) }

def insertById (u : Utxo) : List Utxo → List Utxo
  | [] => [u]
  | v :: rest => if u.id < v.id then u :: v :: rest else v :: insertById u rest

/-- `batch.Set(StandardUTXOKey/ContractUTXOKey(id), json)`; the model keys by id (the
    harness never stores one id under both key classes). -/
def dbPut (k : Keeper) (u : Utxo) : Keeper :=
  { k with confirmed := insertById u (k.confirmed.filter (fun v => v.id != u.id)) }

def addUnconfirmed (k : Keeper) (u : Utxo) : Keeper :=
  { k with unconfirmed := u :: k.unconfirmed.filter (fun v => v.id != u.id) }

def removeUnconfirmed (k : Keeper) (oid : Nat) : Keeper :=
  { k with unconfirmed := k.unconfirmed.filter (fun v => v.id != oid) }

def setHeight (k : Keeper) (h : Nat) : Keeper := { k with height := h }

/-! ### operations as data (for "all operation sequences" theorems and the driver) -/

inductive Op
  | reserve (acct asset amount : Nat) (useUnc : Bool) (vote exp : Nat)
  | particular (oid : Nat) (useUnc : Bool) (exp : Nat)
  | cancel (rid : Nat)
  | expire (t : Nat)
  | dbPut (u : Utxo)
  | dbDel (oid : Nat)
  | addUnc (u : Utxo)
  | rmUnc (oid : Nat)
  | height (h : Nat)

def stepWith (sortFn : List Utxo → List Utxo) (k : Keeper) : Op → Keeper
  | .reserve a s m u v e => (reserveWith sortFn k a s m u v e).2
  | .particular o u e => (reserveParticular k o u e).2
  | .cancel r => cancel k r
  | .expire t => expire k t
  | .dbPut u => dbPut k u
  | .dbDel o => dbDel k o
  | .addUnc u => addUnconfirmed k u
  | .rmUnc o => removeUnconfirmed k o
  | .height h => setHeight k h

def runWith (sortFn : List Utxo → List Utxo) (k : Keeper) (ops : List Op) : Keeper :=
  ops.foldl (stepWith sortFn) k

end BytomModel.Model.Keeper
