/-
The node with ledger AND mempool: `NodeLedger.State` composed with the `TxPool` model.
Mirrors `Chain.ValidateTx` → `TxPool.ProcessTransaction` (submission),
the pool maintenance at the end of `reorganizeChain` (remove the transactions of attached
blocks, re-validate the transactions of detached blocks that were not re-attached) and the
proposer's selection loop (`proposal.blockBuilder.applyTransactionFromPool` /
`preValidateTxs`: pool ordered by arrival, each transaction applied to one running utxo view at
height best+1, a refused transaction is removed from the pool).
Consensus validation of the submitted transactions themselves is assumed to pass (the
harness only submits well-formed transactions; conflicts are context errors, not validation
errors); the proposer's gas budget is not exhausted by the modelled pools.
-/
import BytomModel.Model.NodeLedger
import BytomModel.Model.TxPool
namespace BytomModel.NodePool
open BytomModel.Node BytomModel.Ledger BytomModel.NodeLedger

structure State where
  base : NodeLedger.State
  pool : TxPool.Pool
  txdefs : List Ledger.Tx
  now : Nat

instance : Inhabited State := ⟨{ base := default, pool := TxPool.Pool.empty, txdefs := [], now := 0 }⟩

def toPoolTx (t : Ledger.Tx) : TxPool.Tx :=
  { id := t.id, spent := t.ins,
    results := t.outs.map (fun o => (o.id, (match o.kind with | .normal => true | _ => false))),
    -- `TxPool.IsDust`: an output of amount 0 or a BCRP registration output (the third rule, no
    -- BTM input, cannot occur: every modelled transaction spends BTM)
    dust := t.outs.any (fun o => o.amount == 0 || (match o.kind with | .contract _ => true | _ => false)) }

def State.txById (s : State) (id : Nat) : Option Ledger.Tx := s.txdefs.find? (fun t => t.id == id)

/-- `view.CanSpend` over the persisted utxo set -/
def State.cfg (s : State) : TxPool.Cfg :=
  { conf := (s.base.utxo.filter (fun p => !p.2.spent)).map (·.1), maxPool := 10000, maxOrphan := 2000 }

inductive SubmitRes | pooled | orphan | err
deriving DecidableEq, Repr

/-- `Chain.ValidateTx` -/
def State.submit (s : State) (t : Ledger.Tx) : State × SubmitRes :=
  let s0 := if (s.txById t.id).isSome then s else { s with txdefs := s.txdefs ++ [t] }
  let (p', r) := TxPool.submit s0.cfg s0.pool (toPoolTx t) s0.now
  let res := match r with
    | .pooled => SubmitRes.pooled
    | .orphan => SubmitRes.orphan
    | .have_ => if s0.pool.errs.contains t.id then .err else .pooled
    | .dust => .err
    | .full => .err
  ({ s0 with pool := p', now := s0.now + 1 }, res)

/-- pool maintenance after a successful reorganisation from `oldBest` to the new best -/
def State.afterReorg (s : State) (oldBest : Nat) : State :=
  let n := s.base.node
  match n.header n.best, n.header oldBest with
  | some nb, some ob =>
    match n.calcReorg (2 * n.fuel) nb ob [] [] with
    | none => s
    | some (att, det) =>
      let detTxs := det.flatMap (fun d => (s.base.txsOf d.id).drop 1)
      let attTxs := att.flatMap (fun a => (s.base.txsOf a.id).drop 1)
      let attIds := attTxs.map (·.id)
      let detIds := detTxs.map (·.id)
      let toRemove := attIds.filter (fun i => !detIds.contains i)
      let toRestore := (detIds.filter (fun i => !attIds.contains i)).eraseDups
      let p1 := toRemove.foldl TxPool.removeTransaction s.pool
      let s1 := { s with pool := p1 }
      -- `c.ValidateTx(tx)` for every restored transaction (Go map order; here ascending id)
      (toRestore.mergeSort (· ≤ ·)).foldl (fun st i =>
        match st.txById i with
        | some t => (st.submit t).1
        | none => st) s1
  | _, _ => s

def State.step (s : State) (f : NodeLedger.State → NodeLedger.State × Res) : State × Res :=
  let old := s.base.node.best
  let (b', r) := f s.base
  let s1 := { s with base := b' }
  (if b'.node.best != old then s1.afterReorg old else s1, r)

def State.processBlock (s : State) (b : Header) : State × Res := s.step (fun x => x.processBlock b)
def State.authVerification (s : State) (o src tgt : Nat) (sig : Bool) : State × Res :=
  s.step (fun x => x.authVerification o src tgt sig)

/-- `applySpendUtxo` as Go runs it: inputs are marked one by one, an error leaves the marks
    made so far in the view -/
def applySpendGo (p : Params) (height : Nat) : List Nat → View → View × Bool
  | [], v => (v, true)
  | o :: os, v =>
    match vget v o with
    | none => (v, false)
    | some e =>
      if e.spent then (v, false)
      else if e.typ == 1 && e.height + p.coinbasePending > height then (v, false)
      else if e.typ == 2 && e.height + p.votePending > height then (v, false)
      else applySpendGo p height os (vset v o { e with spent := true })

/-- the proposer's selection: (included transactions in order, pool after removals) -/
def State.propose (s : State) : List Nat × State :=
  let n := s.base.node
  let h := (match n.header n.best with | some b => b.height | none => 0) + 1
  let ordered := s.pool.pool.map (·.1)      -- arrival order
  let (inc, _, pool') := ordered.foldl (fun (acc : List Nat × View × TxPool.Pool) id =>
    let (inc, view, pool) := acc
    match s.txById id with
    | none => acc
    | some t =>
      let view1 := loadSpent s.base.utxo [t] view
      let (view2, ok) := applySpendGo s.base.params h t.ins view1
      if ok then (inc ++ [id], applyOutput h false t.outs view2, pool)
      else (inc, view2, TxPool.removeTransaction pool id)) (([] : List Nat), ([] : View), s.pool)
  (inc, { s with pool := pool' })

end BytomModel.NodePool
