/-
SHA3-256 (FIPS 202), executable, core Lean only.  Used by the drivers to compare ids,
merkle roots and hash opcodes byte-for-byte with the Go implementation
(`crypto/sha3pool`, `golang.org/x/crypto/sha3`).  No theorem depends on this file's
cryptographic strength: theorems take the hash as a parameter.
-/
namespace BytomModel.Sha3

def roundConstants : Array UInt64 := #[
  0x0000000000000001, 0x0000000000008082, 0x800000000000808A, 0x8000000080008000,
  0x000000000000808B, 0x0000000080000001, 0x8000000080008081, 0x8000000000008009,
  0x000000000000008A, 0x0000000000000088, 0x0000000080008009, 0x000000008000000A,
  0x000000008000808B, 0x800000000000008B, 0x8000000000008089, 0x8000000000008003,
  0x8000000000008002, 0x8000000000000080, 0x000000000000800A, 0x800000008000000A,
  0x8000000080008081, 0x8000000000008080, 0x0000000080000001, 0x8000000080008008]

/-- rotation offsets r[x + 5*y] -/
def rotc : Array Nat := #[
  0, 1, 62, 28, 27,
  36, 44, 6, 55, 20,
  3, 10, 43, 25, 39,
  41, 45, 15, 21, 8,
  18, 2, 61, 56, 14]

@[inline] def rotl (x : UInt64) (n : Nat) : UInt64 :=
  if n % 64 == 0 then x else (x <<< (UInt64.ofNat (n % 64))) ||| (x >>> (UInt64.ofNat (64 - n % 64)))

def round (a : Array UInt64) (rc : UInt64) : Array UInt64 := Id.run do
  -- θ
  let mut c : Array UInt64 := Array.replicate 5 0
  for x in [0:5] do
    c := c.set! x (a[x]! ^^^ a[x+5]! ^^^ a[x+10]! ^^^ a[x+15]! ^^^ a[x+20]!)
  let mut a := a
  for x in [0:5] do
    let d := c[(x+4) % 5]! ^^^ rotl c[(x+1) % 5]! 1
    for y in [0:5] do
      a := a.set! (x + 5*y) (a[x + 5*y]! ^^^ d)
  -- ρ and π
  let mut b : Array UInt64 := Array.replicate 25 0
  for x in [0:5] do
    for y in [0:5] do
      b := b.set! (y + 5 * ((2*x + 3*y) % 5)) (rotl a[x + 5*y]! rotc[x + 5*y]!)
  -- χ
  for x in [0:5] do
    for y in [0:5] do
      a := a.set! (x + 5*y) (b[x + 5*y]! ^^^ ((~~~ b[(x+1) % 5 + 5*y]!) &&& b[(x+2) % 5 + 5*y]!))
  -- ι
  a := a.set! 0 (a[0]! ^^^ rc)
  return a

def keccakF (a : Array UInt64) : Array UInt64 :=
  roundConstants.foldl round a

def loadLE (bs : List UInt8) : UInt64 :=
  bs.foldr (fun b acc => (acc <<< 8) ||| b.toUInt64) 0

def storeLE (x : UInt64) : List UInt8 :=
  (List.range 8).map (fun i => (x >>> (UInt64.ofNat (8*i))).toUInt8)

/-- rate of SHA3-256 in bytes -/
def rate : Nat := 136

def absorbBlock (st : Array UInt64) (blk : List UInt8) : Array UInt64 := Id.run do
  let mut st := st
  let mut rest := blk
  for i in [0:rate/8] do
    st := st.set! i (st[i]! ^^^ loadLE (rest.take 8))
    rest := rest.drop 8
  return keccakF st

partial def absorb (st : Array UInt64) (msg : List UInt8) : Array UInt64 :=
  if msg.length ≥ rate then absorb (absorbBlock st (msg.take rate)) (msg.drop rate)
  else
    -- pad10*1 with the SHA3 domain bits 01
    let padLen := rate - msg.length
    let pad : List UInt8 :=
      if padLen == 1 then [0x86]
      else [0x06] ++ List.replicate (padLen - 2) 0 ++ [0x80]
    absorbBlock st (msg ++ pad)

def sha3_256 (msg : List UInt8) : List UInt8 :=
  let st := absorb (Array.replicate 25 0) msg
  ((List.range 4).map (fun i => storeLE st[i]!)).flatten

end BytomModel.Sha3
