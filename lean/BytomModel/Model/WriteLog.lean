/-
M-KV write log (C19): what the block / verification entry points of the node commit to the
database, batch by batch, in code order, and what `NewChainWithOrphanManage` needs to find in
a database that holds a PREFIX of those batches.

A database is the list of records committed so far (oldest first): a key holds the value of its
last record, nothing on this path is ever deleted (`saveUtxoView` deletes spent entries — the
utxo records are opaque here).  A batch is all-or-nothing (goleveldb batch atomicity is assumed);
a single `db.Set` is a batch of one record.

The ORDER of the store calls of each entry point is not written here by hand: it is the list
of calls regenerated from the Go source (`Gen/StoreWrites.lean`, tie in `Ties/C19.lean`);
`callTable` below is the hand copy the tie compares with, and `Op.writes` is computed from it.

Core Lean only.
-/
namespace BytomModel.WriteLog

/-- a checkpoint record, keyed (height, hash); status 0 growing 1 unjustified 2 justified 3 finalized -/
structure Ck where
  height : Nat
  id : Nat
  status : Nat
deriving DecidableEq, Repr, Inhabited

/-- the chain status record (`blockStore`) -/
structure St where
  best : Nat
  fin : Nat
  finHeight : Nat
deriving DecidableEq, Repr, Inhabited

structure Blk where
  id : Nat
  height : Nat
deriving DecidableEq, Repr, Inhabited

inductive Rec
  | hashes (height : Nat) (id : Nat)     -- hash-by-height list of `height` now contains `id`
  | header (id : Nat)
  | txs (id : Nat)
  | ckpt (c : Ck)
  | index (height : Nat) (id : Nat)      -- main-chain index entry
  | utxo (out : Nat) (entry : Nat)
  | contract (h : Nat)
  | status (s : St)
deriving DecidableEq, Repr, Inhabited

abbrev Batch := List Rec
/-- the committed records, oldest first -/
abbrev DB := List Rec

def commit (db : DB) (b : Batch) : DB := db ++ b
def commitAll (db : DB) (log : List Batch) : DB := log.foldl commit db

/-- value of the `blockStore` key: the last status record -/
def lastStatus : List Rec → Option St
  | [] => none
  | r :: rs =>
    match lastStatus rs with
    | some s => some s
    | none => match r with
      | .status s => some s
      | _ => none

def ckptOf : Rec → Option Ck
  | .ckpt c => some c
  | _ => none

/-- records of the chain-status level: written only by `SaveChainStatus` -/
def isChainRec : Rec → Bool
  | .index _ _ => true
  | .utxo _ _ => true
  | .contract _ => true
  | .status _ => true
  | _ => false

/-! ### the store write functions: record kinds in source order (tied to `Gen.Store_*`) -/

def saveBlockKinds : List String := ["hashes", "header", "txs", "Write"]
def saveBlockHeaderKinds : List String := ["header"]
def saveChainStatusKinds : List String := ["utxo*", "contract-del*", "contract*", "status", "index*", "Write"]
def saveCheckpointsKinds : List String := ["ckpt*", "Write"]

/-- what `reorganizeChain`/`setState` hands to `SaveChainStatus` -/
structure Reorg where
  st : St
  attach : List Blk
  utxos : List (Nat × Nat)
  contracts : List Nat
deriving DecidableEq, Repr, Inhabited

def blockRecs (b : Blk) (kind : String) : List Rec :=
  if kind == "hashes" then [.hashes b.height b.id]
  else if kind == "header" then [.header b.id]
  else if kind == "txs" then [.txs b.id]
  else []

def statusRecs (r : Reorg) (kind : String) : List Rec :=
  if kind == "utxo*" then r.utxos.map (fun p => .utxo p.1 p.2)
  else if kind == "contract*" then r.contracts.map .contract
  else if kind == "status" then [.status r.st]
  else if kind == "index*" then r.attach.map (fun b => .index b.height b.id)
  else []   -- "contract-del*": deletions, nothing this model reads; "Write": the commit

def ckptRecs (cks : List Ck) (kind : String) : List Rec :=
  if kind == "ckpt*" then cks.map .ckpt else []

/-- `Store.SaveBlock`: one batch -/
def saveBlockBatch (b : Blk) : Batch := saveBlockKinds.flatMap (blockRecs b)
/-- `Store.SaveBlockHeader`: one `Set` -/
def saveBlockHeaderBatch (id : Nat) : Batch := saveBlockHeaderKinds.flatMap (blockRecs { id := id, height := 0 })
/-- `Store.SaveChainStatus`: one batch -/
def saveChainStatusBatch (r : Reorg) : Batch := saveChainStatusKinds.flatMap (statusRecs r)
/-- `Store.SaveCheckpoints`: one batch (possibly empty: a growing target saves nothing, the
    batch is written all the same) -/
def saveCheckpointsBatch (cks : List Ck) : Batch := saveCheckpointsKinds.flatMap (ckptRecs cks)

/-! ### the entry points: store calls in source order (tied to `Gen.Chain_* / Casper_*`) -/

/-- function ↦ the tracked calls in its body, in source order.  The last two lines are not in
    the generated facts: `tryRollback` sends the new best hash to the chain core, whose
    `tryReorganize → reorganizeChain` ends in `setState`; likewise `reorganize`. -/
def callTable : List (String × List String) :=
  [("saveBlock", ["ApplyBlock", "SaveBlock"]),
   ("ApplyBlock", ["saveCheckpoints"]),
   ("saveCheckpoints", ["SaveCheckpoints"]),
   ("AuthVerification", ["authVerification", "tryRollback"]),
   ("authVerification", ["SaveCheckpoints", "saveVerificationToHeader"]),
   ("saveVerificationToHeader", ["SaveBlockHeader"]),
   ("setState", ["SaveChainStatus"]),
   ("initChainStatus", ["SaveBlock", "SaveCheckpoints", "SaveChainStatus"]),
   ("tryRollback", ["setState"]),
   ("reorganize", ["setState"])]

def lookupCalls (name : String) : Option (List String) :=
  (callTable.find? (fun p => p.1 == name)).map (·.2)

/-- expand a function into the store-level calls it makes, in order -/
def expand : Nat → String → List String
  | 0, name => [name]
  | fuel + 1, name =>
    match lookupCalls name with
    | some cs => cs.flatMap (expand fuel)
    | none => [name]

inductive Call | saveCheckpoints | saveBlock | saveBlockHeader | saveChainStatus
deriving DecidableEq, Repr

def Call.ofString (s : String) : Option Call :=
  if s == "SaveCheckpoints" then some .saveCheckpoints
  else if s == "SaveBlock" then some .saveBlock
  else if s == "SaveBlockHeader" then some .saveBlockHeader
  else if s == "SaveChainStatus" then some .saveChainStatus
  else none

def storeCalls (entry : String) : List Call := (expand 8 entry).filterMap Call.ofString

/-- one invocation of an entry point, with the data it writes -/
inductive Op
  /-- `initChainStatus`: genesis block, its (justified) checkpoint, the first chain status -/
  | init (g : Blk)
  /-- `Chain.saveBlock` of block `b`; `cks` = the checkpoints `ApplyBlock` persists (the block's
      own checkpoint when it closes an epoch, and the sources it justifies / finalizes) -/
  | saveBlock (b : Blk) (cks : List Ck)
  /-- `reorganizeChain` → `setState` -/
  | reorganize (r : Reorg)
  /-- `Casper.AuthVerification`: checkpoints, the target's header, and the rollback if the best
      chain changed -/
  | vote (cks : List Ck) (tgt : Nat) (r : Option Reorg)
deriving Repr, Inhabited

def genesisCk (g : Blk) : Ck := { height := g.height, id := g.id, status := 2 }
def genesisReorg (g : Blk) : Reorg :=
  { st := { best := g.id, fin := g.id, finHeight := g.height }, attach := [g], utxos := [], contracts := [] }

/-- the batches an operation commits, in code order -/
def Op.writes : Op → List Batch
  | .init g => (storeCalls "initChainStatus").filterMap (fun c => match c with
      | .saveBlock => some (saveBlockBatch g)
      | .saveCheckpoints => some (saveCheckpointsBatch [genesisCk g])
      | .saveChainStatus => some (saveChainStatusBatch (genesisReorg g))
      | _ => none)
  | .saveBlock b cks => (storeCalls "saveBlock").filterMap (fun c => match c with
      | .saveCheckpoints => some (saveCheckpointsBatch cks)
      | .saveBlock => some (saveBlockBatch b)
      | _ => none)
  | .reorganize r => (storeCalls "reorganize").filterMap (fun c => match c with
      | .saveChainStatus => some (saveChainStatusBatch r)
      | _ => none)
  | .vote cks tgt r => (storeCalls "AuthVerification").filterMap (fun c => match c with
      | .saveCheckpoints => some (saveCheckpointsBatch cks)
      | .saveBlockHeader => some (saveBlockHeaderBatch tgt)
      | .saveChainStatus => r.map saveChainStatusBatch
      | _ => none)

/-- the write log of a history -/
def logOf (ops : List Op) : List Batch := ops.flatMap Op.writes

/-- the database that holds the first `k` batches -/
def dbAt (ops : List Op) (k : Nat) : DB := commitAll [] ((logOf ops).take k)

/-! ### recovery: what `NewChainWithOrphanManage` needs -/

inductive Err | noBestHeader | noCheckpoint | checkpointWithoutHeader | noBestTxs
deriving DecidableEq, Repr

instance : DecidableEq (Except Err Unit)
  | .ok (), .ok () => isTrue rfl
  | .error a, .error b => if h : a = b then isTrue (by rw [h]) else isFalse (fun e => h (by injection e))
  | .ok (), .error _ => isFalse (fun e => by cases e)
  | .error _, .ok () => isFalse (fun e => by cases e)

/-- key order of checkpoint records: (height, hash) -/
def keyLe (a b : Nat × Nat) : Bool := a.1 < b.1 || (a.1 == b.1 && a.2 ≤ b.2)

/-- `GetStoreStatus` nil → `initChainStatus` (fresh start, always succeeds); else
    `GetBlockHeader(status.Hash)`; `CheckpointsFromNode(finalized)`: the first record at or
    after the finalized key is decoded alone (no record → JSON error), every later record needs
    its header; `GetBlock(status.Hash)` needs the transactions too. -/
def recover (db : DB) : Except Err Unit :=
  match lastStatus db with
  | none => .ok ()
  | some st =>
    if !db.contains (.header st.best) then .error .noBestHeader
    else
      let cands := (db.filterMap ckptOf).filter (fun c => keyLe (st.finHeight, st.fin) (c.height, c.id))
      if cands.isEmpty then .error .noCheckpoint
      else if cands.any (fun c => !cands.all (fun d => keyLe (c.height, c.id) (d.height, d.id)) &&
                                  !db.contains (.header c.id)) then .error .checkpointWithoutHeader
      else if !db.contains (.txs st.best) then .error .noBestTxs
      else .ok ()

end BytomModel.WriteLog
