/-
M-Net `Event` — executable model of `event/event.go` (Dispatcher / Subscription), as the
code IS (sequential semantics: one operation at a time).

Go object                       model
------------------------------  -----------------------------------------------------------
`Dispatcher.subm`               `State.subm : List (Nat × List Nat)` (a map; a key whose
                                list would become empty is deleted, exactly as `del` does)
`Dispatcher.stopped`            `State.stopped`
`*Subscription`                 `Nat` = allocation order of `newSubscription` calls
`Subscription.closed`           `Sub.closed`
channel `postC`/`readC`         `Sub.buf` (FIFO, capacity `State.cap` = `maxEventChSize`)
`reflect.Type` of the event     `Nat` (a number)

Things mirrored on purpose:
* `Subscribe(A, B, A)` registers the new subscription under `A` and `B`, THEN notices the
  duplicate and returns `(nil, ErrDuplicateSubscribe)`: the registration is not undone
  (a ghost subscription nobody holds a handle for).
* `Stop` closes exactly the subscriptions found in `subm`; a subscription made with an
  empty type list is in no list and stays open.
* `deliver` drops the event when the channel is full (`default:` arm of the `select`).
* `Subscribe` after `Stop` returns a closed subscription and no error.
The stale-event short cut (`s.created.After(event.Time)`) cannot fire in a sequential
history (the subscription was created before the later `Post` took its timestamp) and is
not modelled.
-/
namespace BytomModel.Event

-- event types (index of a reflect.Type) and subscription ids (allocation index) are plain `Nat`s

structure Ev where
  typ : Nat
  val : Nat
deriving DecidableEq, Repr

structure Sub where
  closed : Bool
  buf : List Ev
deriving DecidableEq, Repr

structure State where
  cap : Nat
  stopped : Bool
  subm : List (Nat × List Nat)
  subs : List Sub
deriving Repr

/-- facts about the source the model relies on (each is tied to the regenerated
    `Gen/Event.lean` by `Ties/C39.lean`) -/
def maxEventChSize : Nat := 65536
/-- `deliver`'s select: send when there is room, give up when the subscription is closing,
    otherwise (`default`) drop — never block -/
def deliverArms : List String := ["send:s.postC", "recv:s.closing", "default"]
def postGuard : String × String := ("d.stopped", "ErrMuxClosed")
def stopAssigns : List String := ["d.subm=nil", "d.stopped=true"]

/-! ### lock order (T1: `Gen.Event.lockSkel` is extracted from event.go on every run)

The interleaving model (`Model/EventConc.lean`) treats every critical section as one atomic
step. That is only sound if no goroutine can wait for a mutex while holding another one in a
cyclic fashion. The discipline: mutex CLASSES are ranked `Dispatcher.mutex` < `Subscription.closeMu`
< `Subscription.postMu`, and a mutex may only be acquired while mutexes of strictly lower rank
are held (in particular never two mutexes of one class at once, so per-subscription instances
need no finer order). `lockOrderOK` checks this for the extracted skeleton, following calls
between the functions of the file. -/

def lockRank : String → Option Nat
  | "Dispatcher.mutex" => some 0
  | "Subscription.closeMu" => some 1
  | "Subscription.postMu" => some 2
  | _ => none

/-- (function, isCall, mutex class acquired | function called, mutex classes held there) -/
abbrev LockSkel := List (String × Bool × String × List String)

/-- the mutex classes `f` may acquire, directly or through calls (`fuel` bounds the call depth) -/
def acquires (sk : LockSkel) : Nat → String → List String
  | 0, _ => []
  | fuel + 1, f =>
    (sk.filter (fun e => e.1 == f)).flatMap fun e =>
      if e.2.1 then acquires sk fuel e.2.2.1 else [e.2.2.1]

/-- the "held-before" relation: (h, a) when some function acquires `a` (directly or in a callee)
    while holding `h` -/
def lockEdges (sk : LockSkel) : List (String × String) :=
  sk.flatMap fun e =>
    let acq := if e.2.1 then acquires sk sk.length e.2.2.1 else [e.2.2.1]
    e.2.2.2.flatMap fun h => acq.map fun a => (h, a)

def edgeOK (e : String × String) : Bool :=
  match lockRank e.1, lockRank e.2 with
  | some x, some y => decide (x < y)
  | _, _ => false

/-- every acquisition is of a known class, and happens only under strictly lower-ranked classes -/
def lockOrderOK (sk : LockSkel) : Bool :=
  (sk.all fun e => e.2.1 || (lockRank e.2.2.1).isSome) && (lockEdges sk).all edgeOK

def init (cap : Nat) : State := { cap := cap, stopped := false, subm := [], subs := [] }

/-- apply `f` to the element at index `n` (no-op when out of range) -/
def modAt {α : Type} (f : α → α) : List α → Nat → List α
  | [], _ => []
  | x :: xs, 0 => f x :: xs
  | x :: xs, n + 1 => x :: modAt f xs n

/-- `d.subm[t]` (nil slice when the key is absent) -/
def lookup : List (Nat × List Nat) → Nat → List Nat
  | [], _ => []
  | (k, l) :: m, t => if k = t then l else lookup m t

/-- `d.subm[t] = l` -/
def setKey : List (Nat × List Nat) → Nat → List Nat → List (Nat × List Nat)
  | [], t, l => [(t, l)]
  | (k, l0) :: m, t, l => if k = t then (k, l) :: m else (k, l0) :: setKey m t l

/-- `Dispatcher.del`: for every type, if the subscription is found: delete the key when it
    is the only entry, otherwise `posdelete` the first occurrence. -/
def delSub : List (Nat × List Nat) → Nat → List (Nat × List Nat)
  | [], _ => []
  | (k, l) :: m, id =>
    if id ∈ l then
      (if l.length = 1 then delSub m id else (k, l.erase id) :: delSub m id)
    else (k, l) :: delSub m id

/-- `Subscription.deliver` (sequential): nil `postC` after close ⇒ `closing` arm; room in the
    channel ⇒ send; otherwise the `default` arm drops the event. -/
def deliver (cap : Nat) (e : Ev) (s : Sub) : Sub :=
  if s.closed then s
  else if s.buf.length < cap then { s with buf := s.buf ++ [e] }
  else s

/-- `closewait` -/
def closeSub (s : Sub) : Sub := { s with closed := true }

inductive Op
  | subscribe (types : List Nat)
  | post (e : Ev)
  | unsubscribe (id : Nat)
  | stop
  | recv (id : Nat)
  | isClosed (id : Nat)
deriving Repr

inductive Res
  | subOk (id : Nat)      -- Subscribe returned a subscription
  | subDup                  -- Subscribe returned ErrDuplicateSubscribe (and nil)
  | postOk
  | muxClosed               -- Post returned ErrMuxClosed
  | done                    -- Unsubscribe / Stop returned
  | event (e : Ev)          -- non-blocking receive got an event
  | empty                   -- channel open and empty
  | chanClosed              -- channel closed and drained
  | flag (b : Bool)         -- Closed()
  | badHandle               -- the harness never does this: unknown subscription id
deriving DecidableEq, Repr

/-- the registration loop of `Subscribe`: returns the new map and whether a duplicate
    was met (in which case the registrations made so far stay). -/
def register (id : Nat) : List (Nat × List Nat) → List Nat → List (Nat × List Nat) × Bool
  | m, [] => (m, false)
  | m, t :: ts =>
    let old := lookup m t
    if id ∈ old then (m, true)
    else register id (setKey m t (old ++ [id])) ts

def subscribe (s : State) (types : List Nat) : State × Res :=
  let id := s.subs.length
  if s.stopped then
    ({ s with subs := s.subs ++ [{ closed := true, buf := [] }] }, .subOk id)
  else
    let (m, dup) := register id s.subm types
    let s' := { s with subm := m, subs := s.subs ++ [{ closed := false, buf := [] }] }
    (s', if dup then .subDup else .subOk id)

def post (s : State) (e : Ev) : State × Res :=
  if s.stopped then (s, .muxClosed)
  else
    let ids := lookup s.subm e.typ
    ({ s with subs := ids.foldl (fun subs id => modAt (deliver s.cap e) subs id) s.subs }, .postOk)

def unsubscribe (s : State) (id : Nat) : State × Res :=
  if id < s.subs.length then
    ({ s with subm := delSub s.subm id, subs := modAt closeSub s.subs id }, .done)
  else (s, .badHandle)

/-- all subscription ids found in the map, in map order -/
def registered (m : List (Nat × List Nat)) : List Nat := (m.map (·.2)).flatten

def stop (s : State) : State × Res :=
  ({ s with subs := (registered s.subm).foldl (fun subs id => modAt closeSub subs id) s.subs,
            subm := [], stopped := true }, .done)

def recv (s : State) (id : Nat) : State × Res :=
  match s.subs[id]? with
  | none => (s, .badHandle)
  | some sub =>
    match sub.buf with
    | e :: rest => ({ s with subs := modAt (fun x => { x with buf := rest }) s.subs id }, .event e)
    | [] => (s, if sub.closed then .chanClosed else .empty)

def isClosed (s : State) (id : Nat) : State × Res :=
  match s.subs[id]? with
  | none => (s, .badHandle)
  | some sub => (s, .flag sub.closed)

def step (s : State) : Op → State × Res
  | .subscribe ts => subscribe s ts
  | .post e => post s e
  | .unsubscribe id => unsubscribe s id
  | .stop => stop s
  | .recv id => recv s id
  | .isClosed id => isClosed s id

/-- run a history, collecting the results -/
def run : State → List Op → State × List Res
  | s, [] => (s, [])
  | s, o :: os =>
    let (s1, r) := step s o
    let (s2, rs) := run s1 os
    (s2, r :: rs)

def final (s : State) (ops : List Op) : State := (run s ops).1
def results (s : State) (ops : List Op) : List Res := (run s ops).2

/-! ### the property's reading for ONE subscriber (specification, independent of `subm`)

`View` follows a single subscription `id` through a history: which types it is registered
for, whether it is closed, the append-only log `delivered` of the events put into its
channel and how many of them the reader has taken. -/

/-- the types `Subscribe(ts…)` has registered when it returns: all of `ts` when `ts` has
    no repetition, otherwise those before the first repetition. -/
def dupFreePrefix : List Nat → List Nat → List Nat
  | _, [] => []
  | seen, t :: ts => if t ∈ seen then [] else t :: dupFreePrefix (t :: seen) ts

structure View where
  nextId : Nat
  stopped : Bool
  created : Bool
  types : List Nat
  closed : Bool
  offered : List Ev      -- every event of a registered type posted while registered
  delivered : List Ev    -- those of `offered` that found room in the channel
  taken : Nat
deriving DecidableEq, Repr

def View.init : View :=
  { nextId := 0, stopped := false, created := false, types := [], closed := false, offered := [],
    delivered := [], taken := 0 }

def View.pending (v : View) : List Ev := v.delivered.drop v.taken
def View.received (v : View) : List Ev := v.delivered.take v.taken

def View.step (cap : Nat) (id : Nat) (v : View) : Op → View
  | .subscribe ts =>
    if v.nextId = id then
      if v.stopped then { v with nextId := v.nextId + 1, created := true, closed := true, types := [] }
      else { v with nextId := v.nextId + 1, created := true, closed := false, types := dupFreePrefix [] ts }
    else { v with nextId := v.nextId + 1 }
  | .post e =>
    if !v.stopped && decide (e.typ ∈ v.types) then
      if v.delivered.length - v.taken < cap then
        { v with offered := v.offered ++ [e], delivered := v.delivered ++ [e] }
      else { v with offered := v.offered ++ [e] }
    else v
  | .unsubscribe i =>
    if i = id ∧ v.created then { v with types := [], closed := true } else v
  | .stop =>
    { v with stopped := true, closed := v.closed || !v.types.isEmpty, types := [] }
  | .recv i =>
    if i = id ∧ v.taken < v.delivered.length then { v with taken := v.taken + 1 } else v
  | .isClosed _ => v

def View.run (cap : Nat) (id : Nat) : View → List Op → View
  | v, [] => v
  | v, o :: os => View.run cap id (View.step cap id v o) os

/-- the result a subscriber-side operation on `id` must produce according to the view
    BEFORE the operation -/
def View.expect (id : Nat) (v : View) : Op → Option Res
  | .recv i =>
    if i = id ∧ v.created then
      match v.delivered[v.taken]? with
      | some e => some (.event e)
      | none => some (if v.closed then .chanClosed else .empty)
    else none
  | .isClosed i => if i = id ∧ v.created then some (.flag v.closed) else none
  | _ => none

end BytomModel.Event
