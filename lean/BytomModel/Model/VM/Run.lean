/-
M-VM, part 4: `run()` and `Verify` (vm.go).

`runFuel` iterates `smallStep` at most `fuel` times (structural recursion, so concrete
executions can be evaluated by the kernel).  That the loop needs no fuel — i.e. that for
every machine some fuel suffices, with an explicit bound — is the termination theorem of
C07 (`Props/C07.lean`), which on the code as it is holds only for the guarded machine
(see there).  `Verify` is modelled for an explicit fuel; the driver passes a fuel far
beyond anything the harness generates and reports `fuel` if it is ever exhausted.
-/
import BytomModel.Model.VM.Step
namespace BytomModel.VM
open OpM

section
variable {μ ι : Type} (M : MemOps μ ι) (ctx : Context ι)

def runFuel : Nat → Machine μ ι → Option (Final μ ι)
  | 0, _ => none
  | fuel + 1, m =>
    match smallStep M ctx m with
    | .inl m' => runFuel fuel m'
    | .inr f => some f

/-! ### the guarded machine (C07)

On the code as it is, the potential of a VM can *rise* in exactly one situation: an
instruction fails and leaves the VM's stacks more expensive than everything it had before
the instruction (a deferred-cost push of a not-yet-paid item — PROGRAM, ASSET, … — followed
by a failing deferred charge).  When that VM is a CHECKPREDICATE child, `opCheckPredicate`
refunds the child's stacks to the parent: gas is created.  `badEvent` recognises that
situation; `runFuelG` is `runFuelG` stopped at the first such event. -/

/-- the instruction about to run fails in a child VM and leaves it a larger potential -/
def badEvent (m : Machine μ ι) : Bool :=
  decide (m.cur.pc < progLen M m.cur) && !m.parents.isEmpty &&
  match frameStep M ctx ⟨m.mem, m.cur⟩ with
  | .err _ s => decide (frameA M m.cur < frameA M s.f)
  | _ => false

inductive GOut (μ ι : Type) where
  | fin : Final μ ι → GOut μ ι
  | event : Machine μ ι → GOut μ ι

def runFuelG : Nat → Machine μ ι → Option (GOut μ ι)
  | 0, _ => none
  | fuel + 1, m =>
    if badEvent M ctx m then some (.event m) else
    match smallStep M ctx m with
    | .inl m' => runFuelG fuel m'
    | .inr f => some (.fin f)

/-- the result of `Verify`: `(gasLeft, err)`; `none` = fuel exhausted -/
structure VerifyResult (μ ι : Type) where
  gasLeft : Int
  err : Option Err
  /-- final memory and outermost frame (absent when Verify returned before running,
      or after a recovered panic) -/
  final : Option (μ × Frame ι)

def pushAll (push : ι → OpM (St μ ι) Unit) : List ι → OpM (St μ ι) Unit
  | [] => pure ()
  | x :: xs => do push x; pushAll push xs

/-- the frame `Verify` builds, before the initial pushes -/
def initFrame (gasLimit : Int) : Frame ι :=
  { prog := ctx.code, pc := 0, nextPC := 0, runLimit := gasLimit, deferred := 0,
    data := [], alt := [], depth := 0, expRes := expansionReserved ctx }

/-- the initial pushes of state data (alt stack) and arguments (data stack) -/
def initPushes : OpM (St μ ι) Unit := do
  pushAll (pushAlt M) ctx.stateData
  pushAll (fun x => pushItem M x false) ctx.arguments

def verifyFuel (fuel : Nat) (mem : μ) (gasLimit : Int) : Option (VerifyResult μ ι) :=
  if ctx.vmVersion ≠ 1 then some ⟨gasLimit, some .unsupportedVM, none⟩
  else
    match initPushes M ctx ⟨mem, initFrame ctx gasLimit⟩ with
    | .panic => some ⟨0, some .unexpected, none⟩
    | .err e s => some ⟨s.f.runLimit, some e, some (s.mem, s.f)⟩
    | .ok _ s =>
      match runFuel M ctx fuel ⟨s.mem, s.f, []⟩ with
      | none => none
      | some .panic => some ⟨0, some .unexpected, none⟩    -- recover(): named results are zero
      | some (.done mem' f e) =>
        let e' := match e with
          | some e => some e
          | none => if falseResult M mem' f then some .falseVMResult else none
        some ⟨f.runLimit, e', some (mem', f)⟩


/-- outcome of the guarded `Verify` -/
inductive VOut (μ ι : Type) where
  | result : VerifyResult μ ι → VOut μ ι
  /-- execution reached the "unpaid refund" event (see `badEvent`) -/
  | event : VOut μ ι

/-- `verifyFuel` with the run replaced by the guarded run -/
def verifyFuelG (fuel : Nat) (mem : μ) (gasLimit : Int) : Option (VOut μ ι) :=
  if ctx.vmVersion ≠ 1 then some (.result ⟨gasLimit, some .unsupportedVM, none⟩)
  else
    match initPushes M ctx ⟨mem, initFrame ctx gasLimit⟩ with
    | .panic => some (.result ⟨0, some .unexpected, none⟩)
    | .err e s => some (.result ⟨s.f.runLimit, some e, some (s.mem, s.f)⟩)
    | .ok _ s =>
      match runFuelG M ctx fuel ⟨s.mem, s.f, []⟩ with
      | none => none
      | some (.event _) => some .event
      | some (.fin .panic) => some (.result ⟨0, some .unexpected, none⟩)
      | some (.fin (.done mem' f e)) =>
        let e' := match e with
          | some e => some e
          | none => if falseResult M mem' f then some .falseVMResult else none
        some (.result ⟨f.runLimit, e', some (mem', f)⟩)

end
end BytomModel.VM
