/-
M-VM, part 1: values, numbers, errors, the memory interface, machine state.

Core Lean only.  The VM model is written ONCE, generic in a *memory interface*
`MemOps μ ι` (μ = memory, ι = stack item).  Two instances exist:

* `valueMem`  (this file):  μ = Unit, ι = byte string.  Items are immutable values.
  This is the reference semantics (C08) — what the opcode documentation describes.
* `heapMem`   (`Model/VM/Heap.lean`): μ = heap of backing arrays, ι = Go slice header
  `(array, off, len, cap)`; sub-slices keep the parent's capacity.  This is the code as it
  is (C06); since fix a6a6f5b7 no handler appends in place any more.

Gas accounting only looks at item *lengths*, so the C07 theorems are proved once for
every memory that satisfies the two length laws `MemLaws`, i.e. for both instances.
-/
namespace BytomModel.VM

abbrev Bytes := List UInt8

/-- error classes of `protocol/vm/errors.go` (+ `checked.ErrOverflow` from ParseOp, the
    recovered-panic class `ErrUnexpected`, and `other` for an error returned by the
    `CheckOutput` callback that is not a VM error). -/
inductive Err where
  | altStackUnderflow | badValue | context | dataStackUnderflow | disallowedOpcode
  | divZero | falseVMResult | longProgram | range | return_ | runLimitExceeded
  | shortProgram | unsupportedVM | verifyFailed | overflow | unexpected | other
  deriving DecidableEq, Repr, Inhabited

def Err.name : Err → String
  | .altStackUnderflow => "altStackUnderflow" | .badValue => "badValue" | .context => "context"
  | .dataStackUnderflow => "dataStackUnderflow" | .disallowedOpcode => "disallowedOpcode"
  | .divZero => "divZero" | .falseVMResult => "falseVMResult" | .longProgram => "longProgram"
  | .range => "range" | .return_ => "return" | .runLimitExceeded => "runLimitExceeded"
  | .shortProgram => "shortProgram" | .unsupportedVM => "unsupportedVM"
  | .verifyFailed => "verifyFailed" | .overflow => "overflow" | .unexpected => "unexpected"
  | .other => "other"

/-! ### numbers: little-endian, unsigned, ≤ 32 bytes, value < 2^255 (types.go) -/

/-- little-endian byte string → natural number -/
def leToNat : Bytes → Nat
  | [] => 0
  | b :: bs => b.toNat + 256 * leToNat bs

/-- minimal little-endian encoding with at most `fuel` bytes (0 ↦ empty string) -/
def natToLEF : Nat → Nat → Bytes
  | 0, _ => []
  | f + 1, n => if n = 0 then [] else UInt8.ofNat (n % 256) :: natToLEF f (n / 256)

def two255 : Nat := 2 ^ 255
def two256 : Nat := 2 ^ 256
def two63 : Nat := 2 ^ 63
def two64 : Nat := 2 ^ 64
def two32 : Nat := 2 ^ 32

/-- `BigIntBytes`: a uint256 (so the value is taken mod 2^256) as minimal LE bytes -/
def bigIntBytes (n : Nat) : Bytes := natToLEF 32 (n % two256)

/-- `AsBigInt`: more than 32 bytes → ErrBadValue; top bit set → ErrRange -/
def asBigInt (b : Bytes) : Except Err Nat :=
  if b.length > 32 then .error .badValue
  else if leToNat b ≥ two255 then .error .range
  else .ok (leToNat b)

/-- `bigIntInt64`: must fit a non-negative int64 -/
def bigIntInt64 (n : Nat) : Except Err Int :=
  if n ≥ two64 then .error .badValue
  else if n ≥ two63 then .error .badValue
  else .ok (Int.ofNat n)

/-- `AsBool`: some byte is non-zero -/
def asBool (b : Bytes) : Bool := b.any (· != 0)

/-- `BoolBytes` -/
def boolBytes (b : Bool) : Bytes := if b then [1] else []

/-- Go `int64(u)` for a uint64 `u` -/
def u64ToI64 (u : Nat) : Int := if u < two63 then Int.ofNat u else Int.ofNat u - Int.ofNat two64

def maxInt64 : Int := 9223372036854775807
def minInt64 : Int := -9223372036854775808

/-! ### the memory interface -/

structure MemOps (μ ι : Type) where
  /-- `len(x)` — a property of the slice header, not of the memory -/
  len : ι → Nat
  /-- the bytes currently visible through `x` -/
  read : μ → ι → Bytes
  /-- a freshly allocated array holding `b`, with `extra` bytes of spare capacity -/
  fresh : μ → Bytes → Nat → μ × ι
  /-- Go `append(x, b...)` (since fix a6a6f5b7 no opcode handler appends to an item any more;
      the operation stays in the interface as part of the slice semantics) -/
  append : μ → ι → Bytes → μ × ι
  /-- Go `x[lo:hi]` (callers guarantee `lo ≤ hi ≤ len x`) -/
  slice : ι → Nat → Nat → ι

/-- what gas accounting needs to know about a memory: a fresh item has the length of its
    contents, and reading through an item never yields more than `len` bytes (both hold
    unconditionally for the value memory and for the Go-slice heap) -/
structure MemLaws {μ ι : Type} (M : MemOps μ ι) : Prop where
  len_fresh : ∀ m b e, M.len (M.fresh m b e).2 = b.length
  read_length_le : ∀ m a, (M.read m a).length ≤ M.len a

/-- the value memory: items are byte strings -/
def valueMem : MemOps Unit Bytes where
  len := List.length
  read := fun _ b => b
  fresh := fun _ b _ => ((), b)
  append := fun _ a b => ((), a ++ b)
  slice := fun a lo hi => (a.drop lo).take (hi - lo)

/-! ### execution context (context.go).  Hash functions and the Ed25519 verifier are
parameters: theorems are generic in them, the driver plugs in executable models /
the oracle table supplied by the harness. -/

structure Context (ι : Type) where
  vmVersion : Nat
  code : ι
  stateData : List ι
  arguments : List ι
  entryID : ι
  txVersion : Option Nat
  blockHeight : Option Nat
  assetID : Option ι
  amount : Option Nat
  destPos : Option Nat
  spentOutputID : Option ι
  /-- `TxSigHash` callback (nil ↦ none); the result is a fresh slice -/
  txSigHash : Option Bytes
  /-- `CheckOutput` callback (nil ↦ none):
      index amount assetID vmVersion code state expansion -/
  checkOutput : Option (Nat → Nat → Bytes → Nat → Bytes → List Bytes → Bool → Except Err Bool)
  /-- ed25519.Verify pubkey msg sig -/
  verifySig : Bytes → Bytes → Bytes → Bool
  sha256 : Bytes → Bytes
  sha3 : Bytes → Bytes
  ripemd160 : Bytes → Bytes

/-! ### one `virtualMachine` -/

structure Frame (ι : Type) where
  prog : ι
  pc : Nat
  nextPC : Nat
  runLimit : Int
  deferred : Int
  data : List ι      -- head = top of stack
  alt : List ι
  depth : Nat
  /-- `expansionReserved`: set by `Verify` for the outermost VM only — `opCheckPredicate`
      does not copy it into the child VM, so it is `false` in every child -/
  expRes : Bool

structure St (μ ι : Type) where
  mem : μ
  f : Frame ι

/-! ### the op monad: state is kept on error (a failing child VM's stacks are refunded
to its parent, so the state at the point of failure is observable), Go runtime panics
are a separate outcome (they unwind to `Verify`'s `recover`). -/

inductive Res (σ α : Type) where
  | ok : α → σ → Res σ α
  | err : Err → σ → Res σ α
  | panic : Res σ α

def OpM (σ α : Type) : Type := σ → Res σ α

namespace OpM
variable {σ α β : Type}

@[inline] def run (m : OpM σ α) (s : σ) : Res σ α := m s
@[inline] def pure' (a : α) : OpM σ α := fun s => .ok a s
@[inline] def bind' (m : OpM σ α) (f : α → OpM σ β) : OpM σ β := fun s =>
  match m s with
  | .ok a s' => f a s'
  | .err e s' => .err e s'
  | .panic => .panic

instance : Monad (OpM σ) where
  pure := pure'
  bind := bind'

@[inline] def throwE (e : Err) : OpM σ α := fun s => .err e s
@[inline] def panicM : OpM σ α := fun _ => .panic
@[inline] def get : OpM σ σ := fun s => .ok s s
@[inline] def set (s : σ) : OpM σ Unit := fun _ => .ok () s
@[inline] def ofExcept : Except Err α → OpM σ α
  | .ok a => pure' a
  | .error e => throwE e

end OpM

/-- `stackCost` (vm.go): 8 per item plus its length -/
def stackCost {ι : Type} (len : ι → Nat) : List ι → Int
  | [] => 0
  | x :: xs => 8 + (len x : Int) + stackCost len xs

/-- the potential Φ of one VM: `runLimit + stackCost(dataStack) + stackCost(altStack)` -/
def frameA {μ ι : Type} (M : MemOps μ ι) (f : Frame ι) : Int :=
  f.runLimit + stackCost M.len f.data + stackCost M.len f.alt

end BytomModel.VM
