/-
How `Verify` (vm.go) builds the initial stacks — the shape `initFrame` / `initPushes`
(Model/VM/Run.lean) mirror: the VM starts with EMPTY stacks and the state data / arguments
are pushed one by one (alt stack first), each push extending the VM's own outer slice with
`append`.  Tied to the Go source by Ties/C06.lean.
-/
namespace BytomModel.VM

/-- fields set in the `&virtualMachine{…}` literal: neither `dataStack` nor `altStack` -/
def verifyLiteralFields : List String := ["context", "expansionReserved", "program", "runLimit"]

/-- (context field, push function, deferred) in execution order -/
def verifyInitialPushes : List (String × String × Bool) :=
  [("StateData", "pushAltStack", false), ("Arguments", "pushDataStack", false)]

def verifyPushAppends : List (String × String) :=
  [("pushDataStack", "dataStack"), ("pushAltStack", "altStack")]

end BytomModel.VM
