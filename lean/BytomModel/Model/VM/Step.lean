/-
M-VM, part 3: `ParseOp` (ops.go), the opcode table / dispatch, one `step()` of a
`virtualMachine` (vm.go), CHECKPREDICATE (control.go) and the small-step machine with an
explicit stack of suspended parent VMs.
-/
import BytomModel.Model.VM.Ops
namespace BytomModel.VM
open OpM

/-! ### ParseOp -/

structure Inst where
  op : Nat
  len : Nat
  data : Bytes
  deriving Repr, DecidableEq

def maxInt32 : Nat := 2147483647

/-- `prog[lo:hi]` -/
def subBytes (prog : Bytes) (lo hi : Nat) : Bytes := (prog.drop lo).take (hi - lo)

/-- the common tail of the data-carrying cases: `end := pc + len` (checked uint32 add),
    `end > l` → ErrShortProgram, data = `prog[pc+hdr : end]` -/
def parseData (prog : Bytes) (l pc op len hdr : Nat) : Except Err Inst :=
  let e := pc + len
  if e ≥ two32 then .error .overflow
  else if e > l then .error .shortProgram
  else .ok ⟨op, len, subBytes prog (pc + hdr) e⟩

/-- `ParseOp`; `plen` is Go's `len(prog)` (a property of the slice header), `prog` the bytes -/
def parseOpL (plen : Nat) (prog : Bytes) (pc : Nat) : Except Err Inst :=
  let l := plen % two32            -- uint32(len(prog))
  if l > maxInt32 then .error .longProgram
  else if pc ≥ l then .error .shortProgram
  else
    let op := (prog.getD pc 0).toNat
    if 0x51 ≤ op ∧ op ≤ 0x60 then .ok ⟨op, 1, [UInt8.ofNat (op - 0x51 + 1)]⟩
    else if 0x01 ≤ op ∧ op ≤ 0x4b then parseData prog l pc op (1 + op) 1
    else if op = 0x4c then
      if pc = l - 1 then .error .shortProgram
      else
        let n := (prog.getD (pc + 1) 0).toNat
        parseData prog l pc op (2 + n) 2
    else if op = 0x4d then
      if plen < 3 ∨ pc > l - 3 then .error .shortProgram
      else
        let n := leToNat (subBytes prog (pc + 1) (pc + 3))
        parseData prog l pc op (3 + n) 3
    else if op = 0x4e then
      if plen < 5 ∨ pc > l - 5 then .error .shortProgram
      else
        let n := leToNat (subBytes prog (pc + 1) (pc + 5))
        if 5 + n ≥ two32 then .error .overflow
        else parseData prog l pc op (5 + n) 5
    else if op = 0x63 ∨ op = 0x64 then parseData prog l pc op 5 1
    else .ok ⟨op, 1, []⟩

def parseOp (prog : Bytes) (pc : Nat) : Except Err Inst := parseOpL prog.length prog pc

/-- the first `applyCost` of every handler: a lower bound for what a successful execution
    of the opcode takes from the potential (CHECKPREDICATE: 256 − 192 that are returned;
    CHECKMULTISIG: 1024 per public key, i.e. 0 for none; expansion opcodes: 1) -/
def baseCost (op : Nat) : Int :=
  if op ≤ 0x6a then 1
  else if op ≤ 0x6e then 2
  else if op = 0x6f then 3
  else if op ≤ 0x72 then 2
  else if op ≤ 0x78 then 1
  else if op ≤ 0x7b then 2
  else if op ≤ 0x7d then 1
  else if op ≤ 0x81 then 4
  else if op ≤ 0x88 then 1
  else if op = 0x89 then 4
  else if op = 0x8a then 1
  else if op ≤ 0x8e then 2
  else if op ≤ 0x90 then 1
  else if op ≤ 0x94 then 2
  else if op ≤ 0x99 then 8
  else if op ≤ 0xa4 then 2
  else if op = 0xa5 then 4
  else if op = 0xa8 ∨ op = 0xaa ∨ op = 0xab then 64
  else if op = 0xac then 1024
  else if op = 0xad then 0
  else if op = 0xae then 256
  else if op = 0xc0 then 64
  else if op = 0xc1 then 16
  else 1

/-- opcodes with a handler in `ops` (ops.go); every other byte is an expansion NOP -/
def isDefinedOp (op : Nat) : Bool :=
  op ≤ 0x4e || (0x51 ≤ op && op ≤ 0x61) || op == 0x63 || op == 0x64 || op == 0x69 || op == 0x6a
  || (0x6b ≤ op && op ≤ 0x89) || (0x8b ≤ op && op ≤ 0x8e) || (0x91 ≤ op && op ≤ 0xa5)
  || op == 0xa8 || (0xaa ≤ op && op ≤ 0xae) || (0xc0 ≤ op && op ≤ 0xc4)
  || op == 0xc9 || op == 0xca || op == 0xcb || op == 0xcd

def isExpansion (op : Nat) : Bool := !isDefinedOp op

def opCheckPredicateCode : Nat := 0xc0

section
variable {μ ι : Type} (M : MemOps μ ι) (ctx : Context ι)

/-- the flag `Verify` gives the outermost VM -/
def expansionReserved : Bool := ctx.txVersion == some 1

/-- dispatch of every defined opcode except CHECKPREDICATE -/
def execOp (op : Nat) (data : Bytes) : OpM (St μ ι) Unit :=
  if op = 0x00 then opFalse M
  else if op ≤ 0x4e then opPushdata M data
  else if 0x51 ≤ op ∧ op ≤ 0x60 then opPushdata M data
  else match op with
  | 0x61 => opNop
  | 0x63 => opJump data
  | 0x64 => opJumpIf M data
  | 0x69 => opVerify M
  | 0x6a => opFail
  | 0x6b => opToAltStack
  | 0x6c => opFromAltStack
  | 0x6d => op2Drop M
  | 0x6e => nDup M 2
  | 0x6f => nDup M 3
  | 0x70 => op2Over M
  | 0x71 => op2Rot
  | 0x72 => op2Swap
  | 0x73 => opIfDup M
  | 0x74 => opDepth M
  | 0x75 => opDrop M
  | 0x76 => nDup M 1
  | 0x77 => opNip M
  | 0x78 => opOver M
  | 0x79 => opPick M
  | 0x7a => opRoll M
  | 0x7b => opRot
  | 0x7c => opSwap
  | 0x7d => opTuck M
  | 0x7e => opCat M
  | 0x7f => opSubstr M
  | 0x80 => opLeft M
  | 0x81 => opRight M
  | 0x82 => opSize M
  | 0x83 => opInvert M
  | 0x84 => opAnd M
  | 0x85 => doOr M false
  | 0x86 => doOr M true
  | 0x87 => opEqual M
  | 0x88 => opEqualVerify M
  | 0x89 => opCatpushdata M
  | 0x8b => unaryNum M 2 num1Add
  | 0x8c => unaryNum M 2 num1Sub
  | 0x8d => unaryNum M 2 num2Mul
  | 0x8e => unaryNum M 2 num2Div
  | 0x91 => unaryNum M 2 numNot
  | 0x92 => unaryNum M 2 num0NotEqual
  | 0x93 => binaryNum M 2 numAdd
  | 0x94 => binaryNum M 2 numSub
  | 0x95 => binaryNum M 8 numMul
  | 0x96 => binaryNum M 8 numDiv
  | 0x97 => binaryNum M 8 numMod
  | 0x98 => binaryNum M 8 numLshift
  | 0x99 => binaryNum M 8 numRshift
  | 0x9a => opBoolBin M (· && ·)
  | 0x9b => opBoolBin M (· || ·)
  | 0x9c => binaryNum M 2 (numCmp fun x y => x == y)
  | 0x9d => opNumEqualVerify M
  | 0x9e => binaryNum M 2 (numCmp fun x y => x != y)
  | 0x9f => binaryNum M 2 (numCmp fun x y => decide (x < y))
  | 0xa0 => binaryNum M 2 (numCmp fun x y => decide (x > y))
  | 0xa1 => binaryNum M 2 (numCmp fun x y => decide (x ≤ y))
  | 0xa2 => binaryNum M 2 (numCmp fun x y => decide (x ≥ y))
  | 0xa3 => binaryNum M 2 numMin
  | 0xa4 => binaryNum M 2 numMax
  | 0xa5 => opWithin M
  | 0xa8 => doHash M ctx.sha256
  | 0xaa => doHash M ctx.sha3
  | 0xab => opHash160 M ctx
  | 0xac => opCheckSig M ctx
  | 0xad => opCheckMultiSig M ctx
  | 0xae => opTxSigHash M ctx
  | 0xc1 => opCheckOutput M ctx
  | 0xc2 => pushCtxItem M ctx.assetID
  | 0xc3 => pushCtxNum M ctx.amount
  | 0xc4 => pushCtxItem M (some ctx.code)
  | 0xc9 => pushCtxNum M ctx.destPos
  | 0xca => pushCtxItem M (some ctx.entryID)
  | 0xcb => pushCtxItem M ctx.spentOutputID
  | 0xcd => pushCtxNum M ctx.blockHeight
  | _ => panicM   -- unreachable: not a defined opcode

/-! ### CHECKPREDICATE (control.go) -/

structure ChildSpec (ι : Type) where
  limit : Int
  predicate : ι
  n : Nat

/-- everything `opCheckPredicate` does before it runs the child VM -/
def cpPrelude : OpM (St μ ι) (ChildSpec ι) := do
  applyCost 256
  deferCost (-256 + 64)
  let limit ← popInt64 M true
  let predicate ← pop M true
  let n ← popInt64 M true
  let f ← getF
  let l : Int := f.data.length
  let n := if n = 0 then l else n
  if n > l then throwE .dataStackUnderflow else
  let limit := if limit = 0 then f.runLimit else limit
  applyCost limit
  pure ⟨limit, predicate, n.toNat⟩

/-- `falseResult` -/
def falseResult (mem : μ) (f : Frame ι) : Bool :=
  match f.data with
  | [] => true
  | x :: _ => !asBool (M.read mem x)

/-- everything `opCheckPredicate` does after the child VM returned -/
def cpPostlude (child : Frame ι) (childErr : Option Err) : OpM (St μ ι) Unit := do
  deferCost (-child.runLimit)
  deferCost (-stackCost M.len child.data)
  deferCost (-stackCost M.len child.alt)
  let s ← OpM.get
  pushBool M (childErr.isNone && !falseResult M s.mem child) true

/-- the end of `step()`: charge the deferred cost, advance the pc -/
def epilogue : OpM (St μ ι) Unit := do
  let f ← getF
  applyCost f.deferred
  modifyF fun f => { f with pc := f.nextPC }

inductive Action (ι : Type) where
  | continue_ : Action ι
  | enterChild : ChildSpec ι → Action ι

/-- `step()` of one virtualMachine, up to the point where a child VM must run -/
def frameStep : OpM (St μ ι) (Action ι) := do
  let s ← OpM.get
  let inst ← ofExcept (parseOpL (M.len s.f.prog) (M.read s.mem s.f.prog) s.f.pc)
  modifyF fun f => { f with nextPC := f.pc + inst.len }
  if isExpansion inst.op then
    if s.f.expRes then throwE .disallowedOpcode
    else do
      modifyF fun f => { f with pc := f.nextPC }
      applyCost 1
      pure .continue_
  else do
    modifyF fun f => { f with deferred := 0 }
    if inst.op = opCheckPredicateCode then do
      let c ← cpPrelude M
      pure (.enterChild c)
    else do
      execOp M ctx inst.op inst.data
      epilogue
      pure .continue_

/-! ### the machine: current VM + suspended parents (innermost first) -/

structure Machine (μ ι : Type) where
  mem : μ
  cur : Frame ι
  parents : List (Frame ι)

inductive Final (μ ι : Type) where
  /-- the outermost `vm.run()` returned with this error (none = nil) -/
  | done : μ → Frame ι → Option Err → Final μ ι
  | panic : Final μ ι

/-- the current VM's `run()` returned `e`: resume the parent inside opCheckPredicate -/
def finish (mem : μ) (child : Frame ι) (e : Option Err) : List (Frame ι) → Machine μ ι ⊕ Final μ ι
  | [] => .inr (.done mem child e)
  | p :: ps =>
    match (do cpPostlude M child e; epilogue : OpM (St μ ι) Unit) ⟨mem, p⟩ with
    | .ok _ s => .inl ⟨s.mem, s.f, ps⟩
    | .err e' s => finish s.mem s.f (some e') ps
    | .panic => .inr .panic

def progLen (f : Frame ι) : Nat := M.len f.prog % two32

def smallStep (m : Machine μ ι) : Machine μ ι ⊕ Final μ ι :=
  if m.cur.pc ≥ progLen M m.cur then finish M m.mem m.cur none m.parents
  else
    match frameStep M ctx ⟨m.mem, m.cur⟩ with
    | .ok .continue_ s => .inl ⟨s.mem, s.f, m.parents⟩
    | .ok (.enterChild c) s =>
      let child : Frame ι :=
        { prog := c.predicate, pc := 0, nextPC := 0, runLimit := c.limit, deferred := 0,
          data := s.f.data.take c.n, alt := [], depth := s.f.depth + 1, expRes := false }
      .inl ⟨s.mem, child, { s.f with data := s.f.data.drop c.n } :: m.parents⟩
    | .err e s => finish M s.mem s.f (some e) m.parents
    | .panic => .inr .panic

end
end BytomModel.VM
