/-
M-VM, part 2: the cost/stack primitives of vm.go and every op handler
(pushdata.go, control.go, stack.go, splice.go, bitwise.go, numeric.go, crypto.go,
introspection.go), each written as the Go handler is: same order of cost application,
pops, conversions and checks, so that the error class AND the state at the point of
failure agree (a failing child VM's stacks are refunded to the parent).
-/
import BytomModel.Model.VM.Types
namespace BytomModel.VM
open OpM

section
variable {μ ι : Type} (M : MemOps μ ι) (ctx : Context ι)

/-! ### primitives (vm.go) -/

@[inline] def modifyF (g : Frame ι → Frame ι) : OpM (St μ ι) Unit :=
  fun s => .ok () { s with f := g s.f }

@[inline] def getF : OpM (St μ ι) (Frame ι) := fun s => .ok s.f s

/-- positive cost decreases runLimit, negative increases it; on failure runLimit := 0 -/
def applyCost (n : Int) : OpM (St μ ι) Unit := fun s =>
  if n > s.f.runLimit then .err .runLimitExceeded { s with f := { s.f with runLimit := 0 } }
  else .ok () { s with f := { s.f with runLimit := s.f.runLimit - n } }

def deferCost (n : Int) : OpM (St μ ι) Unit :=
  modifyF fun f => { f with deferred := f.deferred + n }

def itemCost (x : ι) : Int := 8 + (M.len x : Int)

def pop (deferred : Bool) : OpM (St μ ι) ι := fun s =>
  match s.f.data with
  | [] => .err .dataStackUnderflow s
  | x :: xs =>
    if deferred then
      .ok x { s with f := { s.f with data := xs, deferred := s.f.deferred - itemCost M x } }
    else
      .ok x { s with f := { s.f with data := xs, runLimit := s.f.runLimit + itemCost M x } }

def readItem (x : ι) : OpM (St μ ι) Bytes := fun s => .ok (M.read s.mem x) s

def popBytes (deferred : Bool) : OpM (St μ ι) Bytes := do
  let x ← pop M deferred
  readItem M x

def popBigInt (deferred : Bool) : OpM (St μ ι) Nat := do
  let b ← popBytes M deferred
  ofExcept (asBigInt b)

/-- popBigInt followed by bigIntInt64 -/
def popInt64 (deferred : Bool) : OpM (St μ ι) Int := do
  let n ← popBigInt M deferred
  ofExcept (bigIntInt64 n)

def pushItem (x : ι) (deferred : Bool) : OpM (St μ ι) Unit :=
  if deferred then
    modifyF fun f => { f with data := x :: f.data, deferred := f.deferred + itemCost M x }
  else do
    applyCost (itemCost M x)
    modifyF fun f => { f with data := x :: f.data }

def pushAlt (x : ι) : OpM (St μ ι) Unit := do
  applyCost (itemCost M x)
  modifyF fun f => { f with alt := x :: f.alt }

def allocBytes (b : Bytes) (extra : Nat := 0) : OpM (St μ ι) ι := fun s =>
  let r := M.fresh s.mem b extra
  .ok r.2 { s with mem := r.1 }

def pushBytes (b : Bytes) (deferred : Bool) (extra : Nat := 0) : OpM (St μ ι) Unit := do
  let x ← allocBytes M b extra
  pushItem M x deferred

def pushBool (b : Bool) (deferred : Bool) : OpM (St μ ι) Unit :=
  pushBytes M (boolBytes b) deferred

def pushBigInt (n : Nat) (deferred : Bool) : OpM (St μ ι) Unit :=
  pushBytes M (bigIntBytes n) deferred

def top : OpM (St μ ι) ι := fun s =>
  match s.f.data with
  | [] => .err .dataStackUnderflow s
  | x :: _ => .ok x s

/-! ### pushdata.go -/

def opFalse : OpM (St μ ι) Unit := do
  applyCost 1
  pushBool M false false

def opPushdata (data : Bytes) : OpM (St μ ι) Unit := do
  applyCost 1
  pushBytes M data false

def opNop : OpM (St μ ι) Unit := applyCost 1

def le16 (n : Nat) : Bytes := [UInt8.ofNat (n % 256), UInt8.ofNat (n / 256 % 256)]
def le32 (n : Nat) : Bytes :=
  [UInt8.ofNat (n % 256), UInt8.ofNat (n / 256 % 256), UInt8.ofNat (n / 65536 % 256),
   UInt8.ofNat (n / 16777216 % 256)]

/-- `PushDataBytes` -/
def pushDataBytes (b : Bytes) : Bytes :=
  let l := b.length
  if l = 0 then [0x00]
  else if l ≤ 75 then UInt8.ofNat l :: b
  else if l < 256 then 0x4c :: UInt8.ofNat l :: b
  else if l < 65536 then 0x4d :: (le16 l ++ b)
  else 0x4e :: (le32 (l % two32) ++ b)

/-! ### control.go (CHECKPREDICATE is in Step.lean: it spawns a child frame) -/

def opVerify : OpM (St μ ι) Unit := do
  applyCost 1
  let p ← popBytes M true
  if asBool p then pure () else throwE .verifyFailed

def opFail : OpM (St μ ι) Unit := do
  applyCost 1
  throwE .return_

def opJump (data : Bytes) : OpM (St μ ι) Unit := do
  applyCost 1
  modifyF fun f => { f with nextPC := leToNat data }

def opJumpIf (data : Bytes) : OpM (St μ ι) Unit := do
  applyCost 1
  let p ← popBytes M true
  if asBool p then modifyF fun f => { f with nextPC := leToNat data } else pure ()

/-! ### stack.go -/

def opToAltStack : OpM (St μ ι) Unit := do
  applyCost 2
  let f ← getF
  match f.data with
  | [] => throwE .dataStackUnderflow
  | x :: xs => modifyF fun f => { f with data := xs, alt := x :: f.alt }

def opFromAltStack : OpM (St μ ι) Unit := do
  applyCost 2
  let f ← getF
  match f.alt with
  | [] => throwE .altStackUnderflow
  | x :: xs => modifyF fun f => { f with alt := xs, data := x :: f.data }

def op2Drop : OpM (St μ ι) Unit := do
  applyCost 2
  let _ ← pop M false
  let _ ← pop M false
  pure ()

/-- the push loop of nDup / 2OVER: `k` times push a copy of the item `idx` below the top -/
def dupLoop (idx : Nat) : Nat → OpM (St μ ι) Unit
  | 0 => pure ()
  | k + 1 => do
    let f ← getF
    match f.data[idx]? with
    | some x => do pushItem M x false; dupLoop idx k
    | none => panicM

def nDup (n : Nat) : OpM (St μ ι) Unit := do
  applyCost (Int.ofNat n)
  let f ← getF
  if f.data.length < n then throwE .dataStackUnderflow else dupLoop M (n - 1) n

def op2Over : OpM (St μ ι) Unit := do
  applyCost 2
  let f ← getF
  if f.data.length < 4 then throwE .dataStackUnderflow else dupLoop M 3 2

def op2Rot : OpM (St μ ι) Unit := do
  applyCost 2
  let f ← getF
  match f.data with
  | x6 :: x5 :: x4 :: x3 :: x2 :: x1 :: rest =>
    modifyF fun f => { f with data := x2 :: x1 :: x6 :: x5 :: x4 :: x3 :: rest }
  | _ => throwE .dataStackUnderflow

def op2Swap : OpM (St μ ι) Unit := do
  applyCost 2
  let f ← getF
  match f.data with
  | x4 :: x3 :: x2 :: x1 :: rest => modifyF fun f => { f with data := x2 :: x1 :: x4 :: x3 :: rest }
  | _ => throwE .dataStackUnderflow

def opIfDup : OpM (St μ ι) Unit := do
  applyCost 1
  let item ← top
  let b ← readItem M item
  if asBool b then pushItem M item false else pure ()

def opDepth : OpM (St μ ι) Unit := do
  applyCost 1
  let f ← getF
  pushBigInt M f.data.length false

def opDrop : OpM (St μ ι) Unit := do
  applyCost 1
  let _ ← pop M false
  pure ()

def opNip : OpM (St μ ι) Unit := do
  applyCost 1
  let t ← top
  modifyF fun f => { f with data := f.data.tail }
  let _ ← pop M false
  modifyF fun f => { f with data := t :: f.data }

def opOver : OpM (St μ ι) Unit := do
  applyCost 1
  let f ← getF
  match f.data with
  | _ :: x :: _ => pushItem M x false
  | _ => throwE .dataStackUnderflow

/-- push a copy of `l[i]` (Go panics when the index is out of range) -/
def pushNth (l : List ι) (i : Nat) : OpM (St μ ι) Unit :=
  match l[i]? with
  | some x => pushItem M x false
  | none => panicM

/-- `checked.AddInt64(int64(n.Uint64()), 1)` -/
def pickOffset (n : Nat) : Except Err Int :=
  let i := u64ToI64 (n % two64)
  if i = maxInt64 then .error .badValue else .ok (i + 1)

def opPick : OpM (St μ ι) Unit := do
  applyCost 2
  let n ← popBigInt M false
  let off ← ofExcept (pickOffset n)
  let f ← getF
  if (f.data.length : Int) < off then throwE .dataStackUnderflow
  else if off ≤ 0 then panicM      -- index ≥ len or negative: Go runtime panic
  else pushNth M f.data (off - 1).toNat

/-- move the item `n-1` below the top to the top -/
def rot (n : Int) : OpM (St μ ι) Unit := do
  if n < 1 then throwE .badValue else
  let f ← getF
  if (f.data.length : Int) < n then throwE .dataStackUnderflow else
  let k := (n - 1).toNat
  match f.data[k]? with
  | some x => modifyF fun f => { f with data := x :: (f.data.take k ++ f.data.drop (k + 1)) }
  | none => panicM

def opRoll : OpM (St μ ι) Unit := do
  applyCost 2
  let n ← popBigInt M false
  let off ← ofExcept (pickOffset n)
  rot off

def opRot : OpM (St μ ι) Unit := do
  applyCost 2
  rot 3

def opSwap : OpM (St μ ι) Unit := do
  applyCost 1
  let f ← getF
  match f.data with
  | x2 :: x1 :: rest => modifyF fun f => { f with data := x1 :: x2 :: rest }
  | _ => throwE .dataStackUnderflow

def opTuck : OpM (St μ ι) Unit := do
  applyCost 1
  let f ← getF
  match f.data with
  | x2 :: x1 :: rest => do
    modifyF fun f => { f with data := rest }
    pushItem M x2 false
    modifyF fun f => { f with data := x2 :: x1 :: f.data }
  | _ => throwE .dataStackUnderflow

/-! ### splice.go -/

/-- CAT (after fix a6a6f5b7): the result is built in a fresh array of exactly
    `len a + len b` bytes — `make([]byte, 0, len(a)+len(b))`, then two appends within capacity -/
def opCat : OpM (St μ ι) Unit := do
  applyCost 4
  let b ← pop M true
  let a ← pop M true
  let lens : Int := Int.ofNat (M.len a + M.len b)
  applyCost lens
  deferCost (-lens)
  let ab ← readItem M a
  let bb ← readItem M b
  pushBytes M (ab ++ bb) true

def opCatpushdata : OpM (St μ ι) Unit := do
  applyCost 4
  let b ← pop M true
  let a ← pop M true
  let lens : Int := Int.ofNat (M.len a + M.len b)
  applyCost lens
  deferCost (-lens)
  let ab ← readItem M a
  let bb ← readItem M b
  pushBytes M (ab ++ pushDataBytes bb) true

def opSubstr : OpM (St μ ι) Unit := do
  applyCost 4
  let size ← popInt64 M true
  applyCost size
  deferCost (-size)
  let offset ← popInt64 M true
  let str ← pop M true
  let e := offset + size
  if e > maxInt64 ∨ e > (M.len str : Int) then throwE .badValue
  else pushItem M (M.slice str offset.toNat e.toNat) true

def opLeft : OpM (St μ ι) Unit := do
  applyCost 4
  let size ← popInt64 M true
  applyCost size
  deferCost (-size)
  let str ← pop M true
  if size > (M.len str : Int) then throwE .badValue
  else pushItem M (M.slice str 0 size.toNat) true

def opRight : OpM (St μ ι) Unit := do
  applyCost 4
  let size ← popInt64 M true
  applyCost size
  deferCost (-size)
  let str ← pop M true
  if size > (M.len str : Int) then throwE .badValue
  else pushItem M (M.slice str (M.len str - size.toNat) (M.len str)) true

def opSize : OpM (St μ ι) Unit := do
  applyCost 1
  let str ← top
  pushBigInt M (M.len str) true

/-! ### bitwise.go -/

def opInvert : OpM (St μ ι) Unit := do
  applyCost 1
  let t ← top
  applyCost (Int.ofNat (M.len t))
  let b ← readItem M t
  let x ← allocBytes M (b.map fun v => ~~~v)
  modifyF fun f => { f with data := x :: f.data.tail }

/-- AND truncates to the shorter operand -/
def andBytes : Bytes → Bytes → Bytes
  | a :: as, b :: bs => (a &&& b) :: andBytes as bs
  | _, _ => []

/-- OR / XOR zero-extend the shorter operand -/
def orBytes (xor : Bool) : Bytes → Bytes → Bytes
  | a :: as, b :: bs => (if xor then a ^^^ b else a ||| b) :: orBytes xor as bs
  | [], bs => bs
  | as, [] => as

def opAnd : OpM (St μ ι) Unit := do
  applyCost 1
  let b ← pop M true
  let a ← pop M true
  applyCost (Int.ofNat (min (M.len a) (M.len b)))
  let bb ← readItem M b
  let ab ← readItem M a
  pushBytes M (andBytes ab bb) true

def doOr (xor : Bool) : OpM (St μ ι) Unit := do
  applyCost 1
  let b ← pop M true
  let a ← pop M true
  applyCost (Int.ofNat (max (M.len a) (M.len b)))
  let bb ← readItem M b
  let ab ← readItem M a
  pushBytes M (orBytes xor ab bb) true

def doEqual : OpM (St μ ι) Bool := do
  applyCost 1
  let b ← pop M true
  let a ← pop M true
  applyCost (Int.ofNat (min (M.len a) (M.len b)))
  let bb ← readItem M b
  let ab ← readItem M a
  pure (ab == bb)

def opEqual : OpM (St μ ι) Unit := do
  let r ← doEqual M
  pushBool M r true

def opEqualVerify : OpM (St μ ι) Unit := do
  let r ← doEqual M
  if r then pure () else throwE .verifyFailed

/-! ### numeric.go — the pure functions are the reference arithmetic on ℕ -/

def unaryNum (c : Int) (fn : Nat → Except Err Bytes) : OpM (St μ ι) Unit := do
  applyCost c
  let n ← popBigInt M true
  let r ← ofExcept (fn n)
  pushBytes M r true

def binaryNum (c : Int) (fn : Nat → Nat → Except Err Bytes) : OpM (St μ ι) Unit := do
  applyCost c
  let y ← popBigInt M true
  let x ← popBigInt M true
  let r ← ofExcept (fn x y)
  pushBytes M r true

/-- a numeric result: ErrRange iff it does not fit below 2^255 -/
def rangeChecked (r : Nat) : Except Err Bytes :=
  if r ≥ two255 then .error .range else .ok (bigIntBytes r)

def num1Add (n : Nat) : Except Err Bytes := rangeChecked (n + 1)
def num1Sub (n : Nat) : Except Err Bytes := if n = 0 then .error .range else .ok (bigIntBytes (n - 1))
def num2Mul (n : Nat) : Except Err Bytes := rangeChecked (2 * n)
def num2Div (n : Nat) : Except Err Bytes := .ok (bigIntBytes (n / 2))
def numNot (n : Nat) : Except Err Bytes := .ok (boolBytes (n == 0))
def num0NotEqual (n : Nat) : Except Err Bytes := .ok (boolBytes (n != 0))
def numAdd (x y : Nat) : Except Err Bytes := rangeChecked (x + y)
def numSub (x y : Nat) : Except Err Bytes := if x < y then .error .range else .ok (bigIntBytes (x - y))
def numMul (x y : Nat) : Except Err Bytes := rangeChecked (x * y)
def numDiv (x y : Nat) : Except Err Bytes := if y = 0 then .error .divZero else .ok (bigIntBytes (x / y))
def numMod (x y : Nat) : Except Err Bytes := if y = 0 then .error .divZero else .ok (bigIntBytes (x % y))
/-- LSHIFT is a shift of the 256-bit word: bits shifted out are dropped, a shift count
    ≥ 256 gives 0; ErrRange iff bit 255 of the truncated result is set. -/
def numLshift (x y : Nat) : Except Err Bytes :=
  rangeChecked (if y < 256 then (x * 2 ^ y) % two256 else 0)
def numRshift (x y : Nat) : Except Err Bytes :=
  .ok (bigIntBytes (if y < 256 then x / 2 ^ y else 0))
def numMin (x y : Nat) : Except Err Bytes := .ok (bigIntBytes (if x > y then y else x))
def numMax (x y : Nat) : Except Err Bytes := .ok (bigIntBytes (if x < y then y else x))
def numCmp (p : Nat → Nat → Bool) (x y : Nat) : Except Err Bytes := .ok (boolBytes (p x y))

def opBoolBin (p : Bool → Bool → Bool) : OpM (St μ ι) Unit := do
  applyCost 2
  let b ← popBytes M true
  let a ← popBytes M true
  pushBool M (p (asBool a) (asBool b)) true

def opNumEqualVerify : OpM (St μ ι) Unit := do
  applyCost 2
  let y ← popBigInt M true
  let x ← popBigInt M true
  if x = y then pure () else throwE .verifyFailed

def opWithin : OpM (St μ ι) Unit := do
  applyCost 4
  let mx ← popBigInt M true
  let mn ← popBigInt M true
  let x ← popBigInt M true
  pushBool M (decide (x ≥ mn) && decide (x < mx)) true

/-! ### crypto.go -/

def doHash (h : Bytes → Bytes) : OpM (St μ ι) Unit := do
  let x ← pop M false
  let cost : Int := if (M.len x : Int) < 64 then 64 else (M.len x : Int)
  applyCost cost
  let b ← readItem M x
  pushBytes M (h b) false

def opHash160 : OpM (St μ ι) Unit := do
  let x ← pop M false
  applyCost (Int.ofNat (M.len x + 64))
  let b ← readItem M x
  -- ripemd160's Sum(nil) appends 20 bytes to nil: Go rounds the allocation up to 24
  pushBytes M (ctx.ripemd160 b) false 4

def opCheckSig : OpM (St μ ι) Unit := do
  applyCost 1024
  let pk ← popBytes M true
  let msg ← popBytes M true
  let sig ← popBytes M true
  if msg.length ≠ 32 then throwE .badValue
  else if pk.length ≠ 32 then pushBool M false true
  else pushBool M (ctx.verifySig pk msg sig) true

def popN : Nat → OpM (St μ ι) (List Bytes)
  | 0 => pure []
  | k + 1 => do
    let x ← popBytes M true
    let xs ← popN k
    pure (x :: xs)

/-- the signature/key matching loop of CHECKMULTISIG -/
def matchSigs (verify : Bytes → Bytes → Bool) : List Bytes → List Bytes → Bool
  | [], _ => true
  | _ :: _, [] => false
  | s :: ss, p :: ps => if verify p s then matchSigs verify ss ps else matchSigs verify (s :: ss) ps

/-- CHECKMULTISIG after the two counts have been read and checked -/
def cmsTail2 (numPubkeys numSigs : Int) : OpM (St μ ι) Unit := do
  let pubkeys ← popN M numPubkeys.toNat
  let msg ← popBytes M true
  if msg.length ≠ 32 then throwE .badValue else
  let sigs ← popN M numSigs.toNat
  if pubkeys.any (fun p => p.length != 32) then pushBool M false true
  else pushBool M (matchSigs (fun p s => ctx.verifySig p msg s) sigs pubkeys) true

/-- CHECKMULTISIG after the key count has been read and checked -/
def cmsTail1 (numPubkeys : Int) : OpM (St μ ι) Unit := do
  applyCost (numPubkeys * 1024)
  let numSigs ← popInt64 M true
  if numSigs < 0 ∨ numSigs > numPubkeys ∨ (numPubkeys > 0 ∧ numSigs = 0) then throwE .badValue
  else cmsTail2 M ctx numPubkeys numSigs

def opCheckMultiSig : OpM (St μ ι) Unit := do
  let numPubkeys ← popInt64 M true
  -- checked.MulInt64(numPubkeys, 1024)
  if numPubkeys < 0 ∨ numPubkeys * 1024 > maxInt64 then throwE .badValue
  else cmsTail1 M ctx numPubkeys

def opTxSigHash : OpM (St μ ι) Unit := do
  applyCost 256
  match ctx.txSigHash with
  | none => throwE .context
  | some h => pushBytes M h false

/-! ### introspection.go -/

def opCheckOutput : OpM (St μ ι) Unit := do
  applyCost 16
  let code ← popBytes M true
  let vmVersion ← popBigInt M true
  let assetID ← popBytes M true
  let amount ← popBigInt M true
  if amount ≥ two64 then throwE .badValue else
  let index ← popBigInt M true
  match ctx.checkOutput with
  | none => throwE .context
  | some chk => do
    let s ← OpM.get
    -- Go passes vm.altStack (bottom first)
    let state := s.f.alt.reverse.map (M.read s.mem)
    let ok ← ofExcept (chk (index % two64) amount assetID (vmVersion % two64) code state s.f.expRes)
    pushBool M ok true

def pushCtxItem (x : Option ι) : OpM (St μ ι) Unit := do
  applyCost 1
  match x with
  | none => throwE .context
  | some v => pushItem M v true

def pushCtxNum (x : Option Nat) : OpM (St μ ι) Unit := do
  applyCost 1
  match x with
  | none => throwE .context
  | some v => pushBigInt M v true

end
end BytomModel.VM
