/-
M-Heap: Go slice semantics as a memory instance for the VM model (C06).

A heap is a list of backing arrays that never move or shrink; a slice is a header
`(array, off, len, cap)`.  `append` writes IN PLACE when `len + n ≤ cap` (the Go spec),
otherwise allocates a new array whose capacity is given by a growth function (parameter;
the driver plugs in the Go 1.23 runtime policy so that capacities agree with the real
implementation).  Sub-slicing keeps the parent's array and the capacity up to its end.
-/
import BytomModel.Model.VM.Types
namespace BytomModel.VM

structure Slice where
  arr : Nat
  off : Nat
  len : Nat
  cap : Nat
  deriving DecidableEq, Repr, Inhabited

structure Heap where
  arrays : Array Bytes
  deriving Inhabited

namespace Heap

def empty : Heap := ⟨#[]⟩

def getArr (h : Heap) (i : Nat) : Bytes := h.arrays.getD i []

/-- bytes visible through a slice -/
def read (h : Heap) (s : Slice) : Bytes := ((h.getArr s.arr).drop s.off).take s.len

/-- allocate a new array -/
def alloc (h : Heap) (content : Bytes) : Heap × Nat := (⟨h.arrays.push content⟩, h.arrays.size)

/-- overwrite `b` at position `pos` of array `i` (within bounds by construction) -/
def writeAt (h : Heap) (i pos : Nat) (b : Bytes) : Heap :=
  let a := h.getArr i
  ⟨h.arrays.setIfInBounds i (a.take pos ++ b ++ a.drop (pos + b.length))⟩

end Heap

/-- `make`/literal: a fresh array holding `b` with `extra` spare bytes -/
def heapFresh (h : Heap) (b : Bytes) (extra : Nat) : Heap × Slice :=
  let r := h.alloc (b ++ List.replicate extra 0)
  (r.1, ⟨r.2, 0, b.length, b.length + extra⟩)

/-- Go `append(a, b...)` -/
def heapAppend (grow : Nat → Nat → Nat) (h : Heap) (a : Slice) (b : Bytes) : Heap × Slice :=
  if b.isEmpty then (h, a)
  else if a.len + b.length ≤ a.cap then
    (h.writeAt a.arr (a.off + a.len) b, { a with len := a.len + b.length })
  else
    let newLen := a.len + b.length
    let newCap := max (grow a.cap newLen) newLen
    let r := h.alloc (h.read a ++ b ++ List.replicate (newCap - newLen) 0)
    (r.1, ⟨r.2, 0, newLen, newCap⟩)

/-- Go `s[lo:hi]` -/
def heapSlice (s : Slice) (lo hi : Nat) : Slice := ⟨s.arr, s.off + lo, hi - lo, s.cap - lo⟩

def heapMem (grow : Nat → Nat → Nat) : MemOps Heap Slice where
  len := Slice.len
  read := Heap.read
  fresh := heapFresh
  append := heapAppend grow
  slice := heapSlice

/-! ### the same heap with a flag that records whether any `append` ever wrote in place.
The flag influences nothing; it lets theorems speak about "executions without an in-place
append" (C06).  This is the instance the C06 driver runs. -/

structure FHeap where
  heap : Heap
  inPlace : Bool
  deriving Inhabited

/-- does `append(a, b...)` write into `a`'s backing array? -/
def appendsInPlace (a : Slice) (b : Bytes) : Bool := !b.isEmpty && decide (a.len + b.length ≤ a.cap)

def heapMemF (grow : Nat → Nat → Nat) : MemOps FHeap Slice where
  len := Slice.len
  read := fun m s => m.heap.read s
  fresh := fun m b e => let r := heapFresh m.heap b e; (⟨r.1, m.inPlace⟩, r.2)
  append := fun m a b =>
    let r := heapAppend grow m.heap a b
    (⟨r.1, m.inPlace || appendsInPlace a b⟩, r.2)
  slice := heapSlice

/-! ### the Go 1.23 runtime growth policy for byte slices (`growslice`, `roundupsize`) -/

def goSizeClasses : List Nat := [0, 8, 16, 24, 32, 48, 64, 80, 96, 112, 128, 144, 160, 176, 192, 208,
  224, 240, 256, 288, 320, 352, 384, 416, 448, 480, 512, 576, 640, 704, 768, 896, 1024, 1152, 1280,
  1408, 1536, 1792, 2048, 2304, 2688, 3072, 3200, 3456, 4096, 4864, 5376, 6144, 6528, 6784, 6912, 8192,
  9472, 9728, 10240, 10880, 12288, 13568, 14336, 16384, 18432, 19072, 20480, 21760, 24576, 27264, 28672,
  32768]

def goRoundUpSize (size : Nat) : Nat :=
  if size ≤ 32768 then (goSizeClasses.find? (· ≥ size)).getD size
  else (size + 8191) / 8192 * 8192

/-- the `for` loop of `nextslicecap` (it at least multiplies by 1.25, so `fuel` = 64 is plenty) -/
def goGrowLoop : Nat → Nat → Nat → Nat
  | 0, newcap, _ => newcap
  | fuel + 1, newcap, newLen =>
    let nc := newcap + (newcap + 768) / 4
    if nc ≥ newLen then nc else goGrowLoop fuel nc newLen

def goNextSliceCap (newLen oldCap : Nat) : Nat :=
  if newLen > oldCap + oldCap then newLen
  else if oldCap < 256 then oldCap + oldCap
  else goGrowLoop 200 oldCap newLen

def goGrow (oldCap newLen : Nat) : Nat := goRoundUpSize (goNextSliceCap newLen oldCap)

end BytomModel.VM
