/-
M-KV — the two storage backends behind `dbm.DB` (database/leveldb/db.go).

* `Spec…`   : the abstract ordered key-value store: a strictly ascending association list.
              This is what `go_level_db.go` (a thin wrapper over goleveldb) is observed to
              implement; goleveldb itself is third-party and only reached by the harness.
* `Mem…`    : `mem_db.go` AS IT IS: a Go map (association list with unique keys, the order of
              which must not matter), iterators that collect the keys, `sort.Strings` them and
              `Seek` linearly; `IteratorPrefixWithStart` collects the keys with the prefix that are
              `>= start` (the prefix filter is the repair 686eb360) and, in reverse mode, seeks in
              the reversed list; `Set` keeps the caller's slice (so a nil
              value stays nil and a later write through the caller's slice is visible).

Go values: a `[]byte` result is `none` for the nil slice and `some bs` otherwise.
Core Lean only.
-/
namespace BytomModel.KV

abbrev Bytes := List UInt8

/-- bytewise lexicographic `a ≤ b` (Go string comparison / `bytes.Compare`) -/
def ble : Bytes → Bytes → Bool
  | [], _ => true
  | _ :: _, [] => false
  | a :: as, b :: bs =>
    if a.toNat < b.toNat then true
    else if a.toNat = b.toNat then ble as bs
    else false

/-- strict `a < b` -/
def blt (a b : Bytes) : Bool := !ble b a

/-- `strings.HasPrefix(k, p)` / membership in `util.BytesPrefix(p)` -/
def hasPrefix (p k : Bytes) : Bool := p.isPrefixOf k

/-! ## abstract store (GoLevelDB as wrapped by go_level_db.go) -/

abbrev Spec := List (Bytes × Bytes)

def Spec.get : Spec → Bytes → Option Bytes
  | [], _ => none
  | (k', v) :: s, k => if k' = k then some v else Spec.get s k

/-- insert keeping the list ascending; an equal key is overwritten -/
def Spec.set : Spec → Bytes → Bytes → Spec
  | [], k, v => [(k, v)]
  | (k', v') :: s, k, v =>
    if k' = k then (k, v) :: s
    else if blt k k' then (k, v) :: (k', v') :: s
    else (k', v') :: Spec.set s k v

def Spec.delete : Spec → Bytes → Spec
  | [], _ => []
  | (k', v') :: s, k => if k' = k then s else (k', v') :: Spec.delete s k

/-- one recorded batch operation -/
inductive BOp where
  | set (k : Bytes) (v : Option Bytes)
  | del (k : Bytes)
  deriving Repr, DecidableEq

/-- goleveldb copies the value into the batch: a nil value is stored as the empty string -/
def Spec.applyB (s : Spec) : BOp → Spec
  | .set k v => Spec.set s k (v.getD [])
  | .del k => Spec.delete s k

def Spec.batch (s : Spec) (ops : List BOp) : Spec := ops.foldl Spec.applyB s

def Spec.iterPrefix (s : Spec) (p : Bytes) : List (Bytes × Bytes) :=
  s.filter (fun kv => hasPrefix p kv.1)

/-- `IteratorPrefixWithStart(prefix, start, reverse)` observed as: the entry the fresh
    iterator is positioned AT (none when it is not on an entry) and the entries the loop
    `for it.Next()` then yields. -/
def Spec.iterWS (s : Spec) (p : Bytes) (start : Option Bytes) (rev : Bool) :
    Option (Bytes × Bytes) × List (Bytes × Bytes) :=
  let range := Spec.iterPrefix s p
  match start, rev with
  | none, false => (none, range)
  | none, true => (none, range.reverse)
  | some st, false =>
    match range.dropWhile (fun kv => blt kv.1 st) with
    | [] => (none, [])
    | x :: xs => (some x, xs)
  | some st, true =>
    match range.dropWhile (fun kv => blt kv.1 st) with
    | [] => (none, range.reverse)
    | x :: _ => (some x, (range.takeWhile (fun kv => blt kv.1 st)).reverse)

/-! ## MemDB as it is -/

/-- the Go map `map[string][]byte`; keys are unique, the list order is the (irrelevant)
    insertion order -/
abbrev Mem := List (Bytes × Option Bytes)

/-- `db.db[string(key)]`: nil for an absent key AND for a key holding a nil slice -/
def Mem.get : Mem → Bytes → Option Bytes
  | [], _ => none
  | (k', v) :: m, k => if k' = k then v else Mem.get m k

def Mem.has : Mem → Bytes → Bool
  | [], _ => false
  | (k', _) :: m, k => if k' = k then true else Mem.has m k

/-- `db.db[string(key)] = value` (the caller's slice itself is stored) -/
def Mem.set : Mem → Bytes → Option Bytes → Mem
  | [], k, v => [(k, v)]
  | (k', v') :: m, k, v => if k' = k then (k, v) :: m else (k', v') :: Mem.set m k v

def Mem.delete : Mem → Bytes → Mem
  | [], _ => []
  | (k', v') :: m, k => if k' = k then m else (k', v') :: Mem.delete m k

def Mem.applyB (m : Mem) : BOp → Mem
  | .set k v => Mem.set m k v
  | .del k => Mem.delete m k

def Mem.batch (m : Mem) (ops : List BOp) : Mem := ops.foldl Mem.applyB m

/-- insertion into an ascending list (one step of `sort.Strings`; the result of sorting does
    not depend on the algorithm because keys are distinct and the order is total) -/
def insertKey (k : Bytes) : List Bytes → List Bytes
  | [] => [k]
  | x :: xs => if ble k x then k :: x :: xs else x :: insertKey k xs

def sortKeys : List Bytes → List Bytes
  | [] => []
  | k :: ks => insertKey k (sortKeys ks)

/-- `IteratorPrefix`: collect keys with the prefix, sort, yield `(key, db.Get(key))` -/
def Mem.iterPrefix (m : Mem) (p : Bytes) : List (Bytes × Option Bytes) :=
  (sortKeys ((m.map Prod.fst).filter (hasPrefix p))).map (fun k => (k, Mem.get m k))

/-- `getSortedKeys(prefix, start, reverse)`: every key with the prefix that is `≥ start` (no
    lower bound for a nil start), sorted, reversed for a reverse iterator. -/
def Mem.sortedKeys (m : Mem) (p : Bytes) (start : Option Bytes) (rev : Bool) : List Bytes :=
  let ks := (m.map Prod.fst).filter (fun k => hasPrefix p k && (match start with
    | none => true
    | some st => !blt k st))
  let ks := sortKeys ks
  if rev then ks.reverse else ks

/-- `memDBIterator.Seek`: index of the first key `≥ point` in list order -/
def seekIdx (point : Bytes) : List Bytes → Option Nat
  | [] => none
  | k :: ks => if ble point k then some 0 else (seekIdx point ks).map (· + 1)

/-- `IteratorPrefixWithStart(Prefix, start, isReverse)` of MemDB, observed like `Spec.iterWS`.
    `last = -1` (no `Seek` hit, or nil start) is "not on an entry". -/
def Mem.iterWS (m : Mem) (p : Bytes) (start : Option Bytes) (rev : Bool) :
    Option (Bytes × Option Bytes) × List (Bytes × Option Bytes) :=
  let keys := Mem.sortedKeys m p start rev
  let ent := fun k => (k, Mem.get m k)
  match start with
  | none => (none, keys.map ent)
  | some st =>
    match seekIdx st keys with
    | none => (none, keys.map ent)
    | some i => ((keys.drop i).head?.map ent, (keys.drop (i + 1)).map ent)

/-! ## operations and observations (shared by driver and theorems) -/

inductive Op where
  | get (k : Bytes)
  | set (k : Bytes) (v : Option Bytes)
  | del (k : Bytes)
  | batch (ops : List BOp)
  | iterPrefix (p : Bytes)
  | iterWS (p : Bytes) (start : Option Bytes) (rev : Bool)
  /-- `Set(k, buf)`, the caller then flips `buf[0]`; observe `Get(k)`; finally `Set(k, copy v)` -/
  | setMut (k : Bytes) (v : Bytes)
  /-- `g := Get(k)`, the caller flips `g[0]`; observe `Get(k)`; finally restore the old value -/
  | getMut (k : Bytes)
  /-- `b.Set(kbuf, vbuf)`, the caller then flips `kbuf[0]` and `vbuf[0]`, `b.Write()`; observe
      `Get(k)` and `Get(k')` (`k'` = `k` with the first byte flipped); finally `Delete(k')` and
      `Set(k, copy v)` -/
  | batchMut (k : Bytes) (v : Bytes)
  deriving Repr, DecidableEq

inductive Out where
  | ok
  | val (v : Option Bytes)
  | pair (a b : Option Bytes)
  | seq (cur : Option (Bytes × Option Bytes)) (rest : List (Bytes × Option Bytes))
  deriving Repr, DecidableEq

def flip0 : Bytes → Bytes
  | [] => []
  | b :: bs => (b ^^^ 0xff) :: bs

def liftKV (kv : Bytes × Bytes) : Bytes × Option Bytes := (kv.1, some kv.2)

def Spec.step (s : Spec) : Op → Spec × Out
  | .get k => (s, .val (Spec.get s k))
  | .set k v => (Spec.set s k (v.getD []), .ok)
  | .del k => (Spec.delete s k, .ok)
  | .batch ops => (Spec.batch s ops, .ok)
  | .iterPrefix p => (s, .seq none ((Spec.iterPrefix s p).map liftKV))
  | .iterWS p st rev =>
    let r := Spec.iterWS s p st rev
    (s, .seq (r.1.map liftKV) (r.2.map liftKV))
  | .setMut k v => (Spec.set s k v, .val (some v))          -- the store holds its own copy
  | .getMut k => (s, .val (Spec.get s k))                    -- the result is a copy
  | .batchMut k v =>                                         -- the batch copied key and value at `Set`
    let s1 := Spec.set s k v
    (Spec.set (Spec.delete s1 (flip0 k)) k v, .pair (Spec.get s1 k) (Spec.get s1 (flip0 k)))

def Mem.step (m : Mem) : Op → Mem × Out
  | .get k => (m, .val (Mem.get m k))
  | .set k v => (Mem.set m k v, .ok)
  | .del k => (Mem.delete m k, .ok)
  | .batch ops => (Mem.batch m ops, .ok)
  | .iterPrefix p => (m, .seq none (Mem.iterPrefix m p))
  | .iterWS p st rev =>
    let r := Mem.iterWS m p st rev
    (m, .seq r.1 r.2)
  | .setMut k v => (Mem.set m k (some v), .val (some (flip0 v)))  -- the map holds the caller's slice
  | .getMut k => (m, .val ((Mem.get m k).map flip0))              -- the result IS the stored slice
  | .batchMut k v =>                                              -- memDBBatch keeps both slices until `Write`
    let m1 := Mem.set m (flip0 k) (some (flip0 v))
    (Mem.set (Mem.delete m1 (flip0 k)) k (some v), .pair (Mem.get m1 k) (Mem.get m1 (flip0 k)))

def Spec.run (s : Spec) : List Op → List Out
  | [] => []
  | op :: ops => let r := Spec.step s op; r.2 :: Spec.run r.1 ops

def Mem.run (m : Mem) : List Op → List Out
  | [] => []
  | op :: ops => let r := Mem.step m op; r.2 :: Mem.run r.1 ops

/-! ## batch handles

`NewBatch()` returns a handle that lives on: operations are recorded with `Set`/`Delete`, and
`Write` may be called any number of times, with other operations in between. On the unchanged
tree BOTH backends keep the recorded operations after `Write` (`memDBBatch.ops` is never cleared;
goleveldb's `leveldb.Batch` keeps its records unless `Reset` is called, and `goLevelDBBatch.Write`
does not call it), so a second `Write` REPLAYS every operation recorded so far. -/

abbrev Handles := List (Nat × List BOp)

def hGet (hs : Handles) (h : Nat) : List BOp :=
  match hs.find? (fun e => e.1 == h) with
  | some e => e.2
  | none => []

def hSet (hs : Handles) (h : Nat) (ops : List BOp) : Handles := (h, ops) :: hs.filter (fun e => e.1 != h)

inductive HOp where
  | plain (op : Op)
  | bnew (h : Nat)
  | bset (h : Nat) (k : Bytes) (v : Option Bytes)
  | bdel (h : Nat) (k : Bytes)
  | bwrite (h : Nat)
  deriving Repr, DecidableEq

/-- bookkeeping of the handles (identical on both backends) -/
def hStep (hs : Handles) : HOp → Handles
  | .bnew h => hSet hs h []
  | .bset h k v => hSet hs h (hGet hs h ++ [.set k v])
  | .bdel h k => hSet hs h (hGet hs h ++ [.del k])
  | _ => hs

def Mem.stepH (st : Mem × Handles) : HOp → (Mem × Handles) × Out
  | .plain op => let r := Mem.step st.1 op; ((r.1, st.2), r.2)
  | .bwrite h => ((Mem.batch st.1 (hGet st.2 h), st.2), .ok)     -- replays all recorded ops; they are kept
  | op => ((st.1, hStep st.2 op), .ok)

def Spec.stepH (st : Spec × Handles) : HOp → (Spec × Handles) × Out
  | .plain op => let r := Spec.step st.1 op; ((r.1, st.2), r.2)
  | .bwrite h => ((Spec.batch st.1 (hGet st.2 h), st.2), .ok)    -- no Reset after Write: the records stay
  | op => ((st.1, hStep st.2 op), .ok)

def Mem.runH (st : Mem × Handles) : List HOp → List Out
  | [] => []
  | op :: ops => let r := Mem.stepH st op; r.2 :: Mem.runH r.1 ops

def Spec.runH (st : Spec × Handles) : List HOp → List Out
  | [] => []
  | op :: ops => let r := Spec.stepH st op; r.2 :: Spec.runH r.1 ops

end BytomModel.KV
