/-
M-KD — model of `crypto/ed25519/chainkd` (chainkd.go, expanded_key.go) and of the key-file
encryption of `blockchain/pseudohsm/keystore_passphrase.go` (core Lean only).

The Ed25519 group, HMAC-SHA512 / SHA-512, and scrypt / AES-CTR / the MAC hash are parameters
(`Grp`, `PRF`, `KS`): the theorems assume only group laws and `dec (enc P) = P`; the driver
instantiates them with the executable implementations of `Model/KDCrypto.lean`.
The byte-level parts are concrete: the two prune functions, the little-endian reading of
scalars, and the 32 unrolled ripple-carry additions of `nonhardenedChild` (as a fold; tied to
the source by `Gen/KDUnroll`).  Go panics are the `Outcome.panic` constructor.
Bytes are `Nat`s (< 256); XPrv / XPub are 64-byte lists.
-/
namespace BytomModel.KD

abbrev Bytes := List Nat

inductive Outcome (α : Type) where
  | ok (a : α)
  | panic (msg : String)
  deriving Repr, DecidableEq

/-- group operations used by chainkd / ed25519 -/
structure Grp (G : Type) where
  add : G → G → G
  neg : G → G
  /-- `ScMulBase` / `GeScalarMultBase`: n·B -/
  smulB : Nat → G
  /-- scalar multiple of an arbitrary point -/
  smul : Nat → G → G
  enc : G → Bytes
  dec : Bytes → Option G
  /-- order of the base point -/
  ell : Nat

structure PRF where
  /-- HMAC-SHA512 key msg (64 bytes) -/
  hmac : Bytes → Bytes → Bytes
  /-- SHA-512 (64 bytes) -/
  hash : Bytes → Bytes

/-- little-endian value of a byte string (`ecmath.Scalar` as an integer) -/
def fromLE : Bytes → Nat
  | [] => 0
  | b :: r => b + 256 * fromLE r

def toLE : Nat → Nat → Bytes
  | 0, _ => []
  | len + 1, n => (n % 256) :: toLE len (n / 256)

/-- `pruneRootScalar(s)` on the first 32 bytes -/
def pruneRootScalar (s : Bytes) : Bytes :=
  let s := s.set 0 (s.getD 0 0 &&& 248)
  let s := s.set 31 (s.getD 31 0 &&& 31)
  s.set 31 (s.getD 31 0 ||| 64)

/-- `pruneIntermediateScalar(f)` -/
def pruneIntermediateScalar (f : Bytes) : Bytes :=
  let f := f.set 0 (f.getD 0 0 &&& 248)
  let f := f.set 29 (f.getD 29 0 &&& 1)
  let f := f.set 30 0
  f.set 31 0

/-- a list of `s[i] &= k` / `s[i] |= k` / `s[i] = k` statements applied in order (the form in which
    `Gen/KDUnroll` reports the bodies of the two prune functions) -/
def applyMaskOps (ops : List (Nat × String × Nat)) (s : Bytes) : Bytes :=
  ops.foldl (fun s o =>
    s.set o.1 (if o.2.1 = "and" then s.getD o.1 0 &&& o.2.2 else if o.2.1 = "or" then s.getD o.1 0 ||| o.2.2 else o.2.2)) s

/-- the unrolled `sum = int(xprv[i]) + int(res[i]) + (sum >> 8); res[i] = byte(sum & 0xff)`,
    i = 0 … 31, as a fold; returns the bytes and the last `sum` -/
def carryAdd : Bytes → Bytes → Nat → Bytes × Nat
  | x :: xs, y :: ys, sum =>
    let sum' := x + y + (sum >>> 8)
    let r := carryAdd xs ys sum'
    ((sum' &&& 0xff) :: r.1, r.2)
  | _, _, sum => ([], sum)

section
variable {G : Type} (g : Grp G) (f : PRF)

/-- `RootXPrv(seed)` -/
def rootXPrv (seed : Bytes) : Bytes :=
  let h := f.hmac [82, 111, 111, 116] seed     -- "Root"
  pruneRootScalar (h.take 32) ++ h.drop 32

/-- `XPrv.XPub()` -/
def xpub (xprv : Bytes) : Bytes :=
  g.enc (g.smulB (fromLE (xprv.take 32))) ++ xprv.drop 32

/-- `XPrv.hardenedChild(sel)` -/
def hardenedChild (xprv sel : Bytes) : Bytes :=
  let h := f.hmac (xprv.drop 32) ([72] ++ xprv.take 32 ++ sel)   -- 'H'
  pruneRootScalar (h.take 32) ++ h.drop 32

/-- `XPrv.nonhardenedChild(sel)` -/
def nonhardenedChild (xprv sel : Bytes) : Outcome Bytes :=
  let xp := xpub g xprv
  let h := f.hmac (xp.drop 32) ([78] ++ xp.take 32 ++ sel)       -- 'N'
  let fb := pruneIntermediateScalar (h.take 32)
  let r := carryAdd (xprv.take 32) fb 0
  if r.2 >>> 8 ≠ 0 then .panic "sum does not fit in 256-bit int"
  else .ok (r.1 ++ h.drop 32)

/-- `XPrv.Child(sel, hardened)` -/
def child (xprv sel : Bytes) (hardened : Bool) : Outcome Bytes :=
  if hardened then .ok (hardenedChild f xprv sel) else nonhardenedChild g f xprv sel

/-- `XPub.Child(sel)` -/
def xpubChild (xpub sel : Bytes) : Outcome Bytes :=
  let h := f.hmac (xpub.drop 32) ([78] ++ xpub.take 32 ++ sel)
  let fb := pruneIntermediateScalar (h.take 32)
  let F := g.smulB (fromLE fb)
  match g.dec (xpub.take 32) with
  | none => .panic "XPub should have been validated on initialization"
  | some P => .ok (g.enc (g.add P F) ++ h.drop 32)

/-- `XPrv.Derive(path)` -/
def derive : Bytes → List Bytes → Outcome Bytes
  | xprv, [] => .ok xprv
  | xprv, p :: ps =>
    match nonhardenedChild g f xprv p with
    | .ok c => derive c ps
    | .panic m => .panic m

/-- `XPub.Derive(path)` -/
def xpubDerive : Bytes → List Bytes → Outcome Bytes
  | xpub, [] => .ok xpub
  | xpub, p :: ps =>
    match xpubChild g f xpub p with
    | .ok c => xpubDerive c ps
    | .panic m => .panic m

/-- `XPrv.ExpandedPrivateKey()` -/
def expandedPrivateKey (xprv : Bytes) : Bytes :=
  let h := f.hmac [69, 120, 112, 97, 110, 100] xprv    -- "Expand"
  xprv.take 32 ++ h.drop 32

/-- `Ed25519InnerSign(privateKey, message)` (64-byte expanded key) -/
def innerSign (priv msg : Bytes) : Bytes :=
  let r := fromLE (f.hash (priv.drop 32 ++ msg)) % g.ell
  let encR := g.enc (g.smulB r)
  let sk := fromLE (priv.take 32)
  let pub := g.enc (g.smulB sk)
  let h := fromLE (f.hash (encR ++ pub ++ msg)) % g.ell
  let s := (h * sk + r) % g.ell
  encR ++ toLE 32 s

/-- `XPrv.Sign(msg)` -/
def sign (xprv msg : Bytes) : Bytes := innerSign g f (expandedPrivateKey f xprv) msg

/-- `ed25519.Verify(publicKey, msg, sig)` with the 32-byte public key -/
def verifyPub (pub msg sig : Bytes) : Bool :=
  if sig.length ≠ 64 then false else
  match g.dec pub with
  | none => false
  | some A =>
    let s := fromLE (sig.drop 32)
    if s ≥ g.ell then false else
    let h := fromLE (f.hash (sig.take 32 ++ pub ++ msg)) % g.ell
    g.enc (g.add (g.smulB s) (g.smul h (g.neg A))) == sig.take 32

/-- `XPub.Verify(msg, sig)` -/
def verify (xpub msg sig : Bytes) : Bool := verifyPub g f (xpub.take 32) msg sig

end

/-! ### key file encryption (keystore_passphrase.go), primitives as parameters -/

structure KS where
  /-- `scrypt.Key(auth, salt, n, r, p, 32)` -/
  kdf : Bytes → Bytes → Bytes
  /-- AES-128-CTR key stream for (key, iv), first `n` bytes -/
  stream : Bytes → Bytes → Nat → Bytes
  /-- `crypto.Sha256(derivedKey[16:32], cipherText)` -/
  mac : Bytes → Bytes → Bytes

structure EncKey where
  cipherText : Bytes
  iv : Bytes
  salt : Bytes
  mac : Bytes
  deriving Repr, DecidableEq

def xorBytes : Bytes → Bytes → Bytes
  | a :: as, b :: bs => (a ^^^ b) :: xorBytes as bs
  | _, _ => []

/-- `aesCTRXOR(key, inText, iv)` -/
def aesCTRXOR (ks : KS) (key inText iv : Bytes) : Bytes :=
  xorBytes inText (ks.stream key iv inText.length)

/-- `EncryptKey` (the cryptographic part; salt and iv are the random inputs) -/
def encryptKey (ks : KS) (xprv auth salt iv : Bytes) : EncKey :=
  let dk := ks.kdf auth salt
  let ct := aesCTRXOR ks (dk.take 16) xprv iv
  ⟨ct, iv, salt, ks.mac ((dk.drop 16).take 16) ct⟩

/-- `decryptKey`: `none` is `ErrDecrypt` -/
def decryptKey (ks : KS) [DecidableEq Bytes] (e : EncKey) (auth : Bytes) : Option Bytes :=
  let dk := ks.kdf auth e.salt
  if ks.mac ((dk.drop 16).take 16) e.cipherText ≠ e.mac then none
  else some (aesCTRXOR ks (dk.take 16) e.cipherText e.iv)

end BytomModel.KD
