/-
M-Asm — program parsing, push encoding, disassembler, assembler (with the bufio.Scanner
tokenizer), the `vmutil` builders C09 talks about and the `segwit`/`bcrp` recognisers.

Mirrors, statement by statement, the Go code AS IT IS:
  protocol/vm/ops.go        ParseOp, ParseProgram          (uint32 arithmetic explicit: `u32`,
                                                            `checked.AddUint32` = the REGENERATED
                                                            `Gen.Checked.AddUint32`)
  protocol/vm/pushdata.go   PushDataBytes, PushDataUint64
  protocol/vm/types.go      Uint64Bytes / BigIntBytes
  protocol/vm/assemble.go   Assemble, Disassemble, split
  protocol/vm/vmutil        P2WPKHProgram, P2WSHProgram, RegisterProgram, CallContractProgram,
                            RetireProgram, DefaultCoinbaseProgram
  consensus/segwit, bcrp    the recognisers, ParseContract, ParseContractHash,
                            GetHashFromStandardProg
The opcode numbers, `Op.String()` names, `opsByName`, the label words and the hash sizes come
from `Gen/Ops.lean` (regenerated from the Go source on every run).

Text is `List UInt8` (the bytes of the Go string).  Go panics (index / slice out of range)
and a non-terminating Go loop are explicit outcomes (`PErr.panic`, `PErr.diverge`), so that
"never panics, always terminates" is a theorem about this model (Props/C09 `parse_total`).
Core Lean only.
-/
import BytomModel.Gen.Checked
import BytomModel.Gen.Ops

namespace BytomModel.Asm
open BytomModel.Gen

abbrev Bytes := List UInt8

/-- (core has no `DecidableEq (Except ε α)`; named here so that it cannot clash) -/
instance exceptDecEq {ε α : Type} [DecidableEq ε] [DecidableEq α] : DecidableEq (Except ε α) := fun a b =>
  match a, b with
  | .ok x, .ok y => if h : x = y then isTrue (by rw [h]) else isFalse (fun e => h (by cases e; rfl))
  | .error x, .error y => if h : x = y then isTrue (by rw [h]) else isFalse (fun e => h (by cases e; rfl))
  | .ok _, .error _ => isFalse (fun e => by cases e)
  | .error _, .ok _ => isFalse (fun e => by cases e)

/-- `vm.Instruction` -/
structure Inst where
  op : UInt8
  len : Nat
  data : Bytes
deriving DecidableEq, Repr

/-- error classes of ParseOp / ParseProgram, plus the two "cannot be a Go return value" outcomes -/
inductive PErr
  | long      -- ErrLongProgram
  | short     -- ErrShortProgram
  | overflow  -- checked.ErrOverflow (wrapped with a detail text)
  | panic     -- Go would panic (index / slice bounds)
  | diverge   -- Go would loop forever
deriving DecidableEq, Repr

def maxInt32 : Nat := 2147483647
/-- conversion / wrap-around to uint32 -/
def u32 (n : Nat) : Nat := n % 4294967296
def u8 (n : Nat) : Nat := n % 256
def byte (n : Nat) : UInt8 := UInt8.ofNat n

/-- `checked.AddUint32` — the definition regenerated from math/checked/checked.go -/
def addU32 (a b : Nat) : Option Nat :=
  let r := Checked.AddUint32 (Int.ofNat a) (Int.ofNat b)
  if r.2 then some r.1.toNat else none

/-- Go `p[lo:hi]`; `none` = slice bounds panic -/
def slice? (p : Bytes) (lo hi : Nat) : Option Bytes :=
  if lo ≤ hi ∧ hi ≤ p.length then some ((p.drop lo).take (hi - lo)) else none

def le16 (a b : UInt8) : Nat := a.toNat + 256 * b.toNat
def le32 (a b c d : UInt8) : Nat := a.toNat + 256 * b.toNat + 65536 * c.toNat + 16777216 * d.toNat
/-- `binary.LittleEndian.PutUint32` -/
def le32Bytes (v : Nat) : Bytes := [byte (v % 256), byte (v / 256 % 256), byte (v / 65536 % 256), byte (v / 16777216 % 256)]

/-- common tail of the data-carrying branches of ParseOp:
    `end, ok := checked.AddUint32(pc, inst.Len); if !ok …; if end > l …; inst.Data = prog[from:end]` -/
def finishData (prog : Bytes) (l pc : Nat) (opcode : UInt8) (len dataFrom : Nat) : Except PErr Inst :=
  match addU32 pc len with
  | none => .error .overflow
  | some e =>
    if e > l then .error .short else
    match slice? prog dataFrom e with
    | none => .error .panic
    | some d => .ok ⟨opcode, len, d⟩

/-- `vm.ParseOp(prog, pc)`; `pc` is a uint32 value -/
def parseOp (prog : Bytes) (pc : Nat) : Except PErr Inst :=
  let l := u32 prog.length
  if l > maxInt32 then .error .long else
  if pc ≥ l then .error .short else
  match prog[pc]? with
  | none => .error .panic
  | some opcode =>
    let o := opcode.toNat
    if Ops.OP_1 ≤ o ∧ o ≤ Ops.OP_16 then
      -- inst.Data = []byte{uint8(opcode-OP_1) + 1}
      .ok ⟨opcode, 1, [byte (u8 (u8 (o + 256 - Ops.OP_1) + 1))]⟩
    else if Ops.OP_DATA_1 ≤ o ∧ o ≤ Ops.OP_DATA_75 then
      -- inst.Len += uint32(opcode - OP_DATA_1 + 1)
      finishData prog l pc opcode (u32 (1 + u8 (u8 (o + 256 - Ops.OP_DATA_1) + 1))) (u32 (pc + 1))
    else if o = Ops.OP_PUSHDATA1 then
      if pc = u32 (l + 4294967295) then .error .short else
      match prog[u32 (pc + 1)]? with
      | none => .error .panic
      | some n => finishData prog l pc opcode (u32 (1 + u32 (n.toNat + 1))) (u32 (pc + 2))
    else if o = Ops.OP_PUSHDATA2 then
      if prog.length < 3 ∨ pc > u32 (l + 4294967293) then .error .short else
      match prog[u32 (pc + 1)]?, prog[u32 (pc + 2)]? with
      | some a, some b => finishData prog l pc opcode (u32 (1 + u32 (le16 a b + 2))) (u32 (pc + 3))
      | _, _ => .error .panic
    else if o = Ops.OP_PUSHDATA4 then
      if prog.length < 5 ∨ pc > u32 (l + 4294967291) then .error .short else
      match prog[u32 (pc + 1)]?, prog[u32 (pc + 2)]?, prog[u32 (pc + 3)]?, prog[u32 (pc + 4)]? with
      | some a, some b, some c, some d =>
        -- inst.Len += 4; inst.Len, ok = checked.AddUint32(inst.Len, n)
        match addU32 5 (le32 a b c d) with
        | none => .error .overflow
        | some len => finishData prog l pc opcode len (u32 (pc + 5))
      | _, _, _, _ => .error .panic
    else if o = Ops.OP_JUMP ∨ o = Ops.OP_JUMPIF then
      finishData prog l pc opcode 5 (u32 (pc + 1))
    else .ok ⟨opcode, 1, []⟩

/-- the loop of `vm.ParseProgram` from program counter `pc`; `fuel` bounds the iterations
    (Go has no bound: running out of fuel = Go would not terminate) -/
def parseLoop (prog : Bytes) : Nat → Nat → Except PErr (List Inst)
  | 0, _ => .error .diverge
  | fuel + 1, pc =>
    if pc < u32 prog.length then
      match parseOp prog pc with
      | .error e => .error e
      | .ok inst =>
        match addU32 pc inst.len with
        | none => .error .overflow
        | some pc' =>
          match parseLoop prog fuel pc' with
          | .error e => .error e
          | .ok rest => .ok (inst :: rest)
    else .ok []

/-- `vm.ParseProgram` -/
def parseProgram (prog : Bytes) : Except PErr (List Inst) := parseLoop prog (prog.length + 1) 0

/-! ### PushDataBytes / PushDataUint64 -/

/-- `vm.PushDataBytes` -/
def pushDataBytes (d : Bytes) : Bytes :=
  let l := d.length
  if l = 0 then [byte Ops.OP_0]
  else if l ≤ 75 then byte (u8 (u8 (Ops.OP_DATA_1 + u8 l) + 255)) :: d
  else if l < 256 then byte Ops.OP_PUSHDATA1 :: byte (u8 l) :: d
  else if l < 65536 then byte Ops.OP_PUSHDATA2 :: byte (l % 256) :: byte (l / 256 % 256) :: d
  else byte Ops.OP_PUSHDATA4 :: (le32Bytes (u32 l) ++ d)

/-- minimal little-endian bytes of `v` (`reverse(uint256.Bytes())`), at most `fuel` bytes -/
def leBytes : Nat → Nat → Bytes
  | 0, _ => []
  | fuel + 1, v => if v = 0 then [] else byte (v % 256) :: leBytes fuel (v / 256)

/-- `vm.BigIntBytes` of a uint256 value -/
def bigIntBytes (v : Nat) : Bytes := leBytes 32 v

/-- `vm.PushDataUint64` -/
def pushDataUint64 (n : Nat) : Bytes :=
  if n = 0 then [byte Ops.OP_0]
  else if 1 ≤ n ∧ n ≤ 16 then [byte (u8 (u8 (Ops.OP_1 + u8 n) + 255))]
  else pushDataBytes (bigIntBytes n)

/-! ### Disassemble -/

def hexDigit (n : Nat) : UInt8 := if n < 10 then byte (48 + n) else byte (87 + n)

/-- `fmt.Sprintf("%x", bytes)` -/
def hexEncode : Bytes → Bytes
  | [] => []
  | b :: rest => hexDigit (b.toNat / 16) :: hexDigit (b.toNat % 16) :: hexEncode rest

/-- decimal digits of `n`, most significant first (`fuel` ≥ number of digits) -/
def decDigits : Nat → Nat → Bytes → Bytes
  | 0, _, acc => acc
  | fuel + 1, n, acc =>
    let acc' := byte (48 + n % 10) :: acc
    if n / 10 = 0 then acc' else decDigits fuel (n / 10) acc'

/-- `fmt.Sprintf("%d", n)` -/
def decBytes (n : Nat) : Bytes := decDigits (n + 1) n []

/-- the label Disassemble gives to the `n`-th distinct jump target -/
def labelName (n : Nat) : Bytes :=
  let k := Ops.words.length
  let w := Ops.words.getD (n % k) []
  if n ≥ k then w ++ decBytes (n / k + 1) else w

def opName (op : UInt8) : Bytes := Ops.opNames.getD op.toNat []

def isJump (op : UInt8) : Bool := op.toNat == Ops.OP_JUMP || op.toNat == Ops.OP_JUMPIF

/-- `binary.LittleEndian.Uint32(inst.Data)`; `none` = panic (fewer than 4 bytes) -/
def dataU32 : Bytes → Option Nat
  | a :: b :: c :: d :: _ => some (le32 a b c d)
  | _ => none

/-- the label bookkeeping of the first pass for one instruction: a JUMP/JUMPIF target not yet
    in `labels` gets the next label number (`len(labels)`) -/
def stepLabels (labels : List (Nat × Nat)) (inst : Inst) : Except PErr (List (Nat × Nat)) :=
  if isJump inst.op then
    match dataU32 inst.data with
    | none => .error .panic
    | some addr =>
      if (labels.lookup addr).isSome then .ok labels else .ok (labels ++ [(addr, labels.length)])
  else .ok labels

/-- first pass of Disassemble: parse, collecting `labels` (target address ↦ label number,
    in order of first appearance).  `i += inst.Len` is an unchecked uint32 addition. -/
def disPass1 (prog : Bytes) : Nat → Nat → List (Nat × Nat) → Except PErr (List Inst × List (Nat × Nat))
  | 0, _, _ => .error .diverge
  | fuel + 1, i, labels =>
    if i < u32 prog.length then
      match parseOp prog i with
      | .error e => .error e
      | .ok inst =>
        match stepLabels labels inst with
        | .error e => .error e
        | .ok ls =>
          match disPass1 prog fuel (u32 (i + inst.len)) ls with
          | .error e => .error e
          | .ok (insts, lf) => .ok (inst :: insts, lf)
    else .ok ([], labels)

def dollar : UInt8 := 0x24
def colon : UInt8 := 0x3a
def spaceB : UInt8 := 0x20

/-- the text of one instruction in the second pass -/
def instText (labels : List (Nat × Nat)) (inst : Inst) : Except PErr Bytes :=
  if isJump inst.op then
    match dataU32 inst.data with
    | none => .error .panic
    | some addr =>
      -- labels[addr] of a missing key would be "": cannot happen, every jump got a label
      let lab := match labels.lookup addr with | some n => labelName n | none => []
      .ok (opName inst.op ++ [colon, dollar] ++ lab)
  else if inst.data.length > 0 then .ok ([0x30, 0x78] ++ hexEncode inst.data)
  else .ok (opName inst.op)

/-- second pass: the list of strings (`strs`) -/
def disPass2 (labels : List (Nat × Nat)) : List Inst → Nat → Except PErr (List Bytes)
  | [], loc => .ok (match labels.lookup loc with | some n => [dollar :: labelName n] | none => [])
  | inst :: rest, loc =>
    let pre := match labels.lookup loc with | some n => [dollar :: labelName n] | none => []
    match instText labels inst with
    | .error e => .error e
    | .ok str =>
      match disPass2 labels rest (u32 (loc + inst.len)) with
      | .error e => .error e
      | .ok more => .ok (pre ++ str :: more)

/-- `strings.Join(strs, " ")` -/
def joinSp : List Bytes → Bytes
  | [] => []
  | [s] => s
  | s :: rest => s ++ spaceB :: joinSp rest

/-- `vm.Disassemble` -/
def disassemble (prog : Bytes) : Except PErr Bytes :=
  match disPass1 prog (prog.length + 1) 0 [] with
  | .error e => .error e
  | .ok (insts, labels) =>
    match disPass2 labels insts 0 with
    | .error e => .error e
    | .ok strs => .ok (joinSp strs)

/-! ### the tokenizer: bufio.Scanner with `split` (bufio.ScanWords + quoted strings)

Whole-input reading of the Scanner (see notes/C09.md for the argument and its one proviso:
bytes 0x85 / 0xA0 that do not follow 0xC2 make the real Scanner's result depend on its
read-chunk boundaries; the model takes the end-of-input reading there). -/

def isAsciiSpace (b : UInt8) : Bool :=
  b == 0x09 || b == 0x0a || b == 0x0b || b == 0x0c || b == 0x0d || b == 0x20

/-- byte width of the space rune (bufio.isSpace after utf8.DecodeRune) at the head; 0 = the
    head is not a space rune -/
def spaceWidth : Bytes → Nat
  | [] => 0
  | b :: rest =>
    if isAsciiSpace b then 1
    else if b == 0xC2 then
      match rest with
      | c :: _ => if c == 0x85 || c == 0xA0 then 2 else 0
      | [] => 0
    else if b == 0xE1 then
      match rest with
      | c :: d :: _ => if c == 0x9A && d == 0x80 then 3 else 0
      | _ => 0
    else if b == 0xE2 then
      match rest with
      | c :: d :: _ =>
        if c == 0x80 && ((0x80 ≤ d && d ≤ 0x8A) || d == 0xA8 || d == 0xA9 || d == 0xAF) then 3
        else if c == 0x81 && d == 0x9F then 3 else 0
      | _ => 0
    else if b == 0xE3 then
      match rest with
      | c :: d :: _ => if c == 0x80 && d == 0x80 then 3 else 0
      | _ => 0
    else 0

/-- `unicode.IsSpace(rune(b))` for a single byte (Latin-1) -/
def latin1Space (b : UInt8) : Bool := isAsciiSpace b || b == 0x85 || b == 0xA0

/-- number of bytes taken by the leading space runes (`skip` = bytes of the current
    multi-byte space rune still to pass) -/
def leadSpaces : Nat → Bytes → Nat
  | _, [] => 0
  | skip + 1, _ :: rest => 1 + leadSpaces skip rest
  | 0, b :: rest =>
    let w := spaceWidth (b :: rest)
    if w = 0 then 0 else 1 + leadSpaces (w - 1) rest

/-- (number of bytes before the next space rune, width of that rune or 0 at the end) -/
def wordLen : Bytes → Nat × Nat
  | [] => (0, 0)
  | b :: rest =>
    let w := spaceWidth (b :: rest)
    if w ≠ 0 then (0, w) else
    let r := wordLen rest
    (r.1 + 1, r.2)

/-- `bufio.ScanWords(data, atEOF)` → (advance, token or nil) -/
def scanWords (data : Bytes) (atEOF : Bool) : Nat × Option Bytes :=
  let start := leadSpaces 0 data
  let rest := data.drop start
  let r := wordLen rest
  if r.2 ≠ 0 then (start + r.1 + r.2, some (rest.take r.1))
  else if atEOF && r.1 > 0 then (data.length, some rest)
  else (start, none)

inductive SplitRes
  | tok (adv : Nat) (t : Bytes)
  | more (adv : Nat)     -- (advance, nil, nil)
  | err                  -- ErrToken (unterminated quote at end of input)

def latin1Skip : Bytes → Nat
  | [] => 0
  | b :: rest => if latin1Space b then 1 + latin1Skip rest else 0

/-- index of the closing quote, scanning from index `i` -/
def findClose : Bool → Bytes → Nat → Option Nat
  | _, [], _ => none
  | true, _ :: rest, i => findClose false rest (i + 1)
  | false, c :: rest, i =>
    if c == 0x27 then some i
    else if c == 0x5c then findClose true rest (i + 1)
    else findClose false rest (i + 1)

/-- `vm.split` -/
def split (inp : Bytes) (atEOF : Bool) : SplitRes :=
  let sw := scanWords inp atEOF
  let dflt : SplitRes := match sw.2 with
    | some t => .tok sw.1 t
    | none => .more sw.1
  let direct : Bool := match sw.2 with
    | some t => decide (t.length > 1) && t.head? != some 0x27
    | none => false
  if direct then dflt else
  let start := latin1Skip inp
  match inp.drop start with
  | [] => dflt
  | c :: rest =>
    if c != 0x27 then dflt else
    match findClose false rest (start + 1) with
    | some i => .tok (i + 1) ((c :: rest).take (i + 1 - start))
    | none => if atEOF then .err else .more 0

/-- assembler error classes -/
inductive AErr
  | token     -- ErrToken (wrapped or from the split function)
  | num       -- strconv.ParseUint error in a numeric jump target
  | hex       -- encoding/hex error
  | redef     -- "label … redefined"
  | undef     -- "undefined label …"
  | tooLong   -- bufio.ErrTooLong
  | progLong  -- "program too long"
  | diverge
deriving DecidableEq, Repr

def maxScanTokenSize : Nat := 65536

/-- all tokens the Scanner delivers, and the error it ends with (if any) -/
def scanAll : Nat → Bytes → List Bytes × Option AErr
  | 0, _ => ([], some .diverge)
  | fuel + 1, r =>
    if r.length ≥ maxScanTokenSize then
      -- the buffer can hold only the first 64 KiB of the pending input and end of input
      -- is not known yet
      match split (r.take maxScanTokenSize) false with
      | .tok adv t => let x := scanAll fuel (r.drop adv); (t :: x.1, x.2)
      | .more adv => if adv = 0 then ([], some .tooLong) else scanAll fuel (r.drop adv)
      | .err => ([], some .token)
    else
      match split r true with
      | .tok adv t => let x := scanAll fuel (r.drop adv); (t :: x.1, x.2)
      | .more _ => ([], none)
      | .err => ([], some .token)

/-! ### Assemble -/

def isDigit (b : UInt8) : Bool := 0x30 ≤ b && b ≤ 0x39

/-- value of a non-empty all-digit string -/
def decValue : Bytes → Nat → Option Nat
  | [], acc => some acc
  | b :: rest, acc => if isDigit b then decValue rest (acc * 10 + (b.toNat - 48)) else none

def parseDec (t : Bytes) : Option Nat := if t.isEmpty then none else decValue t 0

/-- `strconv.ParseUint(s, 10, 32)` -/
def parseUint32 (t : Bytes) : Option Nat :=
  match parseDec t with
  | some v => if v < 4294967296 then some v else none
  | none => none

def hexVal (c : UInt8) : Option Nat :=
  if 0x30 ≤ c && c ≤ 0x39 then some (c.toNat - 48)
  else if 0x61 ≤ c && c ≤ 0x66 then some (c.toNat - 87)
  else if 0x41 ≤ c && c ≤ 0x46 then some (c.toNat - 55)
  else none

/-- `hex.DecodeString` -/
def hexDecode : Bytes → Option Bytes
  | [] => some []
  | [_] => none
  | a :: b :: rest =>
    match hexVal a, hexVal b, hexDecode rest with
    | some x, some y, some r => some (byte (x * 16 + y) :: r)
    | _, _, _ => none

def pow256 : Nat := 2 ^ 256

/-- `checked.NewUInt256(token)`: big.Int.SetString(token, 10) then uint256.FromBig -/
def newUInt256 (t : Bytes) : Option Nat :=
  let sd : Bool × Bytes := match t with
    | c :: r => if c == 0x2b then (false, r) else if c == 0x2d then (true, r) else (false, t)
    | [] => (false, t)
  match parseDec sd.2 with
  | none => none
  | some v =>
    if v ≥ pow256 then none
    else some (if sd.1 then (pow256 - v) % pow256 else v)

/-- bytes of a quoted token: `token[1:len-1]` with backslash escapes; the argument is `token[1:]` -/
def unquote : Bytes → Bytes
  | [] => []
  | [_] => []
  | c :: d :: rest =>
    if c == 0x5c then d :: unquote rest else c :: unquote (d :: rest)

def lookupName (t : Bytes) : Option Nat := Ops.opsByName.lookup t

def strPUSHDATA : Bytes := [0x50, 0x55, 0x53, 0x48, 0x44, 0x41, 0x54, 0x41]
def strJUMP : Bytes := [0x4a, 0x55, 0x4d, 0x50]
def strJUMPc : Bytes := [0x4a, 0x55, 0x4d, 0x50, 0x3a]
def strJUMPIFc : Bytes := [0x4a, 0x55, 0x4d, 0x50, 0x49, 0x46, 0x3a]

structure AState where
  res : Bytes
  locations : List (Bytes × Nat)
  unresolved : List (Bytes × Nat)   -- (label, position of the 4 placeholder bytes)

/-- `PutUint32(res[pos:], v)` -/
def putU32 (res : Bytes) (pos v : Nat) : Bytes := res.take pos ++ le32Bytes v ++ res.drop (pos + 4)

def handleJump (st : AState) (addrStr : Bytes) (opcode : Nat) : Except AErr AState :=
  let res1 := st.res ++ [byte opcode]
  let l := res1.length
  let res2 := res1 ++ [0, 0, 0, 0]
  if addrStr.head? == some dollar then
    .ok { st with res := res2, unresolved := st.unresolved ++ [(addrStr, l)] }
  else
    match parseUint32 addrStr with
    | none => .error .num
    | some a => .ok { st with res := putU32 res2 l a }

/-- the body of Assemble's token loop -/
def asmToken (st : AState) (tok : Bytes) : Except AErr AState :=
  match lookupName tok with
  | some op =>
    if strPUSHDATA.isPrefixOf tok || strJUMP.isPrefixOf tok then .error .token
    else .ok { st with res := st.res ++ [byte op] }
  | none =>
    if strJUMPc.isPrefixOf tok then handleJump st (tok.drop 5) Ops.OP_JUMP
    else if strJUMPIFc.isPrefixOf tok then handleJump st (tok.drop 7) Ops.OP_JUMPIF
    else if tok.head? == some dollar then
      if (st.locations.lookup tok).isSome then .error .redef
      else if st.res.length > maxInt32 then .error .progLong
      else .ok { st with locations := st.locations ++ [(tok, u32 st.res.length)] }
    else if ([0x30, 0x78] : Bytes).isPrefixOf tok then
      match hexDecode (tok.drop 2) with
      | none => .error .hex
      | some bs => .ok { st with res := st.res ++ pushDataBytes bs }
    else if decide (tok.length ≥ 2) && tok.head? == some 0x27 && tok.getLast? == some 0x27 then
      .ok { st with res := st.res ++ pushDataBytes (unquote (tok.drop 1)) }
    else
      match newUInt256 tok with
      | some v => .ok { st with res := st.res ++ pushDataBytes (bigIntBytes v) }
      | none => .error .token

def asmTokens (st : AState) : List Bytes → Except AErr AState
  | [] => .ok st
  | t :: rest =>
    match asmToken st t with
    | .error e => .error e
    | .ok st' => asmTokens st' rest

/-- the final loop over `unresolved` (a Go map: order irrelevant — every failure is the same
    error class and the patched positions are disjoint) -/
def resolve (locations : List (Bytes × Nat)) : List (Bytes × Nat) → Bytes → Except AErr Bytes
  | [], res => .ok res
  | (label, pos) :: rest, res =>
    match locations.lookup label with
    | none => .error .undef
    | some loc => resolve locations rest (putU32 res pos loc)

/-- an unresolved label anywhere fails the whole call, whatever the map order -/
def allDefined (locations : List (Bytes × Nat)) (uses : List (Bytes × Nat)) : Bool :=
  uses.all (fun u => (locations.lookup u.1).isSome)

/-- `vm.Assemble` -/
def assemble (s : Bytes) : Except AErr Bytes :=
  let sc := scanAll (s.length + 1) s
  match asmTokens ⟨[], [], []⟩ sc.1 with
  | .error e => .error e
  | .ok st =>
    match sc.2 with
    | some e => .error e
    | none =>
      if allDefined st.locations st.unresolved then resolve st.locations st.unresolved st.res
      else .error .undef

/-! ### vmutil builders (those C09 is about; the rest is in Model/StdProgs) -/

/-- `vmutil.P2WPKHProgram` (cannot fail: no jumps in the Builder) -/
def p2wpkhProgram (hash : Bytes) : Bytes := pushDataUint64 0 ++ pushDataBytes hash
/-- `vmutil.P2WSHProgram` -/
def p2wshProgram (hash : Bytes) : Bytes := pushDataUint64 0 ++ pushDataBytes hash
/-- `vmutil.RetireProgram` -/
def retireProgram (comment : Bytes) : Bytes :=
  [byte Ops.OP_FAIL] ++ (if comment.length ≠ 0 then pushDataBytes comment else [])
/-- `vmutil.RegisterProgram` -/
def registerProgram (contract : Bytes) : Bytes :=
  [byte Ops.OP_FAIL] ++ pushDataBytes Ops.bcrpTag ++ pushDataBytes [byte Ops.bcrpVersion] ++ pushDataBytes contract
/-- `vmutil.CallContractProgram` -/
def callContractProgram (hash : Bytes) : Bytes := pushDataBytes Ops.bcrpTag ++ pushDataBytes hash
/-- `vmutil.DefaultCoinbaseProgram` -/
def defaultCoinbaseProgram : Bytes := [byte Ops.OP_TRUE]

/-! ### recognisers -/

def opIs (i : Inst) (c : Nat) : Bool := i.op.toNat == c

/-- `segwit.IsStraightforward` -/
def isStraightforward (prog : Bytes) : Bool :=
  match parseProgram prog with
  | .ok [i] => opIs i Ops.OP_TRUE || opIs i Ops.OP_FAIL
  | _ => false

/-- `segwit.IsP2WPKHScript` -/
def isP2WPKHScript (prog : Bytes) : Bool :=
  match parseProgram prog with
  | .ok [i0, i1] =>
    if !opIs i0 Ops.OP_0 then false
    else opIs i1 Ops.OP_DATA_20 && i1.data.length == Ops.PayToWitnessPubKeyHashDataSize
  | _ => false

/-- `segwit.IsP2WSHScript` -/
def isP2WSHScript (prog : Bytes) : Bool :=
  match parseProgram prog with
  | .ok [i0, i1] =>
    if !opIs i0 Ops.OP_0 then false
    else opIs i1 Ops.OP_DATA_32 && i1.data.length == Ops.PayToWitnessScriptHashDataSize
  | _ => false

/-- `segwit.IsP2WScript` -/
def isP2WScript (prog : Bytes) : Bool := isP2WPKHScript prog || isP2WSHScript prog || isStraightforward prog

/-- `bcrp.IsBCRPScript` -/
def isBCRPScript (prog : Bytes) : Bool :=
  match parseProgram prog with
  | .ok [i0, i1, i2, i3] =>
    if !opIs i0 Ops.OP_FAIL then false
    else if !opIs i1 Ops.OP_DATA_4 || i1.data != Ops.bcrpTag then false
    else if !opIs i2 Ops.OP_DATA_1 || i2.data != [byte Ops.bcrpVersion] then false
    else decide (i3.data.length > 0)
  | _ => false

/-- `bcrp.IsCallContractScript` -/
def isCallContractScript (prog : Bytes) : Bool :=
  match parseProgram prog with
  | .ok [i0, i1] =>
    if !opIs i0 Ops.OP_DATA_4 || i0.data != Ops.bcrpTag then false
    else opIs i1 Ops.OP_DATA_32 && i1.data.length == Ops.BCRPContractHashDataSize
  | _ => false

inductive XErr
  | parse (e : PErr)
  | unsupported      -- errors.New("unsupport program")
  | version          -- "unknow P2PKH/P2SHP version number"
  | badValue         -- vmutil.ErrBadValue
  | panic
deriving DecidableEq, Repr

/-- `bcrp.ParseContract` -/
def parseContract (prog : Bytes) : Except XErr Bytes :=
  match parseProgram prog with
  | .error e => .error (.parse e)
  | .ok [_, _, _, i3] => .ok i3.data
  | .ok _ => .error .unsupported

/-- `bcrp.ParseContractHash`: `copy(hash[:], insts[1].Data)` into a zeroed [32]byte -/
def parseContractHash (prog : Bytes) : Except XErr Bytes :=
  match parseProgram prog with
  | .error e => .error (.parse e)
  | .ok [_, i1] => .ok ((i1.data ++ List.replicate 32 0).take 32)
  | .ok _ => .error .unsupported

/-- `segwit.GetHashFromStandardProg`: `insts[1].Data` — index panic on fewer than 2 instructions -/
def getHashFromStandardProg (prog : Bytes) : Except XErr Bytes :=
  match parseProgram prog with
  | .error e => .error (.parse e)
  | .ok (_ :: i1 :: _) => .ok i1.data
  | .ok _ => .error .panic

end BytomModel.Asm
