/-
M-Bytes — executable model of the binary codec of ledger values
(`encoding/blockchain/blockchain.go`, `protocol/bc/types/{transaction,txinput,issuance,spend,
spend_commitment,coinbase,veto_input,txoutput,output_commitment,vote_output,block,
block_header,block_commitment,block_witness,sup_link}.go`), mirroring the code AS IT IS.

* decoders are `Dec α = Bytes → Res α`; a result carries the outcome (`ok value rest`,
  `err class`, `panic`) and an allocation counter that also survives failures: every
  `make`/`new`/`append` of the Go decoder whose size is not the size of an already existing
  value is a `tick` (requested bytes, struct sizes rounded);
* encoders are plain functions to bytes;
* `List UInt8` does not distinguish Go's `nil` from an empty slice — that is exactly the
  equality the round-trip property means; the harness canonicalises both to `-`.
* the hash function is a parameter `H` (SHA3-256 in the driver).
Core Lean only.
-/
namespace BytomModel.Codec

abbrev Bytes := List UInt8

/-- error classes of the Go decoders (root error after `errors.Root`) -/
inductive Err
  | eof            -- io.EOF
  | unexpectedEOF  -- io.ErrUnexpectedEOF
  | overflow       -- binary: varint overflows a 64-bit integer
  | range          -- blockchain.ErrRange
  | serflags       -- unsupported serflags (tx)
  | inputType      -- unsupported input type
  | outputType     -- unsupported output type
  | vmVersion      -- unrecognized VM version … for asset version 1
  | badAssetID     -- asset ID does not match other issuance parameters
  | trailing       -- trailing garbage
  | hex            -- encoding/hex errors
  | hdrFlags       -- unsupported serialization flags (block header)
  deriving DecidableEq, Repr, Inhabited

def Err.name : Err → String
  | .eof => "eof" | .unexpectedEOF => "ueof" | .overflow => "overflow" | .range => "range"
  | .serflags => "serflags" | .inputType => "intype" | .outputType => "outtype"
  | .vmVersion => "vmversion" | .badAssetID => "assetid" | .trailing => "trailing"
  | .hex => "hex" | .hdrFlags => "hdrflags"

inductive Out (α : Type)
  | ok (a : α) (rest : Bytes)
  | err (e : Err)
  | panic
  deriving Repr, DecidableEq

structure Res (α : Type) where
  alloc : Nat
  out : Out α

abbrev Dec (α : Type) := Bytes → Res α

namespace Dec
def pure {α} (a : α) : Dec α := fun bs => ⟨0, .ok a bs⟩
def bind {α β} (m : Dec α) (f : α → Dec β) : Dec β := fun bs =>
  match m bs with
  | ⟨k, .ok a r⟩ => ⟨k + (f a r).alloc, (f a r).out⟩
  | ⟨k, .err e⟩ => ⟨k, .err e⟩
  | ⟨k, .panic⟩ => ⟨k, .panic⟩
instance : Monad Dec where
  pure := Dec.pure
  bind := Dec.bind
end Dec

def fail {α} (e : Err) : Dec α := fun _ => ⟨0, .err e⟩
def panicD {α} : Dec α := fun _ => ⟨0, .panic⟩
/-- charge `n` allocation units -/
def tick (n : Nat) : Dec Unit := fun bs => ⟨n, .ok () bs⟩
/-- an allocation of `a` units made before `m` runs (`x := new(T); x.readFrom(r)`) -/
def charge {α} (a : Nat) (m : Dec α) : Dec α := fun bs => ⟨a + (m bs).alloc, (m bs).out⟩
/-- an allocation of `a` units made once `m` has succeeded -/
def chargeOk {α} (a : Nat) (m : Dec α) : Dec α := fun bs =>
  match m bs with
  | ⟨k, .ok x r⟩ => ⟨k + a, .ok x r⟩
  | ⟨k, .err e⟩ => ⟨k, .err e⟩
  | ⟨k, .panic⟩ => ⟨k, .panic⟩
/-- number of unread bytes (`Reader.Len`) -/
def remaining : Dec Nat := fun bs => ⟨0, .ok bs.length bs⟩

/-! ### primitives (`encoding/blockchain`) -/

/-- `Reader.ReadByte` / `io.ReadFull` of one byte -/
def readByte : Dec UInt8 := fun bs =>
  match bs with
  | [] => ⟨0, .err .eof⟩
  | b :: r => ⟨0, .ok b r⟩

/-- `binary.PutUvarint` (at most 10 bytes for a `uint64`); structural on the fuel so that
    `decide` can evaluate it -/
def putUvarintF : (fuel : Nat) → Nat → Bytes
  | 0, n => [UInt8.ofNat n]
  | f + 1, n => if n < 128 then [UInt8.ofNat n] else UInt8.ofNat (n % 128 + 128) :: putUvarintF f (n / 128)

def putUvarint (n : Nat) : Bytes := putUvarintF 9 n

/-- `binary.ReadUvarint`: at most 10 bytes; `fuel = 10 - i`. Non-minimal encodings are accepted. -/
def uvarintGo : (fuel : Nat) → (x s : Nat) → Bytes → Out Nat
  | 0, _, _, _ => .err .overflow
  | fuel + 1, x, s, bs =>
    match bs with
    | [] => .err (if fuel + 1 < 10 then .unexpectedEOF else .eof)
    | b :: rest =>
      if b < 0x80 then
        if fuel = 0 ∧ b > 1 then .err .overflow else .ok (x + b.toNat * 2 ^ s) rest
      else uvarintGo fuel (x + (b.toNat % 128) * 2 ^ s) (s + 7) rest

def readUvarint : Dec Nat := fun bs => ⟨0, uvarintGo 10 0 0 bs⟩

def max31 : Nat := 2147483647
def max63 : Nat := 9223372036854775807

def readVarint31 : Dec Nat := do
  let v ← readUvarint
  if v > max31 then fail .range else pure v

def readVarint63 : Dec Nat := do
  let v ← readUvarint
  if v > max63 then fail .range else pure v

/-- the slice step of `ReadVarstr31` after the length `l` is known -/
def takeStr (l : Nat) : Dec Bytes := fun bs =>
  if l = 0 then ⟨0, .ok [] bs⟩
  else if l > bs.length then ⟨0, .err .unexpectedEOF⟩
  else ⟨0, .ok (bs.take l) (bs.drop l)⟩

/-- `ReadVarstr31`: a sub-slice of the buffer (no allocation) -/
def readVarstr31 : Dec Bytes := do
  let l ← readVarint31
  takeStr l

/-- size charged per appended slice header / pointer -/
def aSlice : Nat := 24
def aPtr : Nat := 8

/-- the loop of `ReadVarstrList`: `n` elements still to read, `k` already appended, `total`
    declared. Go appends the (nil) element even when its read fails, then overrides the error
    by `io.ErrUnexpectedEOF` iff `len(result) < nelts` where `nelts` is the *decremented*
    counter: after a failure on the `(k+1)`-th element that is `k+1 < total-(k+1)`. -/
def readStrs (total : Nat) : (n k : Nat) → Bytes → Res (List Bytes)
  | 0, _, bs => ⟨0, .ok [] bs⟩
  | n + 1, k, bs =>
    match readVarstr31 bs with
    | ⟨_, .ok s r⟩ =>
      let t := readStrs total n (k + 1) r
      ⟨aSlice + t.alloc, match t.out with
        | .ok l r' => .ok (s :: l) r'
        | .err e => .err e
        | .panic => .panic⟩
    | ⟨_, .err e⟩ => ⟨aSlice, .err (if k + 1 < total - (k + 1) then .unexpectedEOF else e)⟩
    | ⟨_, .panic⟩ => ⟨aSlice, .panic⟩

def readVarstrList : Dec (List Bytes) := do
  let n ← readVarint31
  if n = 0 then pure [] else readStrs n n 0

/-- run `f` on the sub-reader `s`; the outer reader is untouched -/
def runInner {α} (f : Dec α) (s : Bytes) : Dec (α × Bytes) := fun bs =>
  match f s with
  | ⟨k, .ok a rest⟩ => ⟨k, .ok (a, rest) bs⟩
  | ⟨k, .err e⟩ => ⟨k, .err e⟩
  | ⟨k, .panic⟩ => ⟨k, .panic⟩

/-- `ReadExtensibleString`: read a varstr, run `f` on it, return `f`'s value and the unconsumed suffix -/
def readExt {α} (f : Dec α) : Dec (α × Bytes) := do
  let s ← readVarstr31
  runInner f s

/-- `Hash.ReadFrom` / `AssetID.ReadFrom`: `io.ReadFull` of 32 bytes -/
def readHash : Dec Bytes := fun bs =>
  if bs.length ≥ 32 then ⟨0, .ok (bs.take 32) (bs.drop 32)⟩
  else if bs.length = 0 then ⟨0, .err .eof⟩ else ⟨0, .err .unexpectedEOF⟩

/-- a counted loop `for ; n > 0; n-- { x := new(T); x.readFrom(r); xs = append(xs, x) }`;
    `a` is charged per element before it is read -/
def readN {α} (a : Nat) (f : Dec α) : Nat → Dec (List α)
  | 0 => pure []
  | n + 1 => do
    let x ← charge a f
    let xs ← readN a f n
    pure (x :: xs)

def encVarstr (s : Bytes) : Bytes := putUvarint s.length ++ s
def encStrList (l : List Bytes) : Bytes := putUvarint l.length ++ (l.map encVarstr).flatten
/-- `WriteExtensibleString`: `f`'s output, then the suffix, length-prefixed -/
def encExt (body suffix : Bytes) : Bytes := encVarstr (body ++ suffix)

/-- little-endian `uint64` as `writeForHash` writes it -/
def le64 (n : Nat) : Bytes :=
  [UInt8.ofNat n, UInt8.ofNat (n / 2^8), UInt8.ofNat (n / 2^16), UInt8.ofNat (n / 2^24),
   UInt8.ofNat (n / 2^32), UInt8.ofNat (n / 2^40), UInt8.ofNat (n / 2^48), UInt8.ofNat (n / 2^56)]

/-! ### values -/

structure SpendCommitment where
  sourceID : Bytes
  assetID : Bytes
  amount : Nat
  sourcePos : Nat
  vmVersion : Nat
  program : Bytes
  stateData : List Bytes
  deriving DecidableEq, Repr, Inhabited

inductive TypedInput
  | issuance (nonce : Bytes) (amount : Nat) (assetDef : Bytes) (vmVersion : Nat) (program : Bytes) (args : List Bytes)
  | spend (sc : SpendCommitment) (scSuffix : Bytes) (args : List Bytes)
  | coinbase (arbitrary : Bytes)
  | veto (sc : SpendCommitment) (scSuffix : Bytes) (vote : Bytes) (args : List Bytes)
  deriving DecidableEq, Repr, Inhabited

/-- `TypedInput == nil` (the state of a decoded input whose asset version is not 1) is `none` -/
structure TxInput where
  assetVersion : Nat
  typed : Option TypedInput
  commitmentSuffix : Bytes
  witnessSuffix : Bytes
  deriving DecidableEq, Repr, Inhabited

structure OutputCommitment where
  assetID : Bytes
  amount : Nat
  vmVersion : Nat
  program : Bytes
  stateData : List Bytes
  deriving DecidableEq, Repr, Inhabited

inductive TypedOutput
  | original
  | vote (v : Bytes)
  deriving DecidableEq, Repr, Inhabited

/-- `commitment = none` is the all-zero `OutputCommitment` (nil asset id) a decoded output
    with asset version ≠ 1 has -/
structure TxOutput where
  assetVersion : Nat
  commitment : Option OutputCommitment
  commitmentSuffix : Bytes
  typed : TypedOutput
  deriving DecidableEq, Repr, Inhabited

structure TxData where
  version : Nat
  serializedSize : Nat
  timeRange : Nat
  inputs : List TxInput
  outputs : List TxOutput
  deriving DecidableEq, Repr, Inhabited

structure SupLink where
  sourceHeight : Nat
  sourceHash : Bytes
  signatures : List Bytes   -- exactly `consensus.MaxNumOfValidators` entries
  deriving DecidableEq, Repr, Inhabited

def zeroHash : Bytes := List.replicate 32 0

structure BlockHeader where
  version : Nat
  height : Nat
  prevHash : Bytes
  timestamp : Nat
  txRoot : Bytes
  witness : Bytes
  supLinks : List SupLink
  deriving DecidableEq, Repr

/-- the Go zero value -/
def BlockHeader.zero : BlockHeader := ⟨0, 0, zeroHash, 0, zeroHash, [], []⟩
instance : Inhabited BlockHeader := ⟨BlockHeader.zero⟩

structure Block where
  header : BlockHeader
  txs : List TxData
  deriving DecidableEq, Repr, Inhabited

def maxValidators : Nat := 10

/-! ### asset id of an issuance (`bc.ComputeAssetID`) -/

/-- `writeForHash` of `bc.Program{VmVersion, Code}` -/
def programBody (vm : Nat) (code : Bytes) : Bytes := le64 vm ++ encVarstr code

def computeAssetID (H : Bytes → Bytes) (prog : Bytes) (vm : Nat) (defHash : Bytes) : Bytes :=
  H (programBody vm prog ++ defHash)

def issuanceAssetID (H : Bytes → Bytes) (assetDef : Bytes) (vm : Nat) (prog : Bytes) : Bytes :=
  computeAssetID H prog vm (H assetDef)

/-! ### encoders -/

/-- `SpendCommitment.writeContents` for asset version 1 WITHOUT the suffix -/
def encSCFields (sc : SpendCommitment) : Bytes :=
  sc.sourceID ++ sc.assetID ++ putUvarint sc.amount ++ putUvarint sc.sourcePos ++
  putUvarint sc.vmVersion ++ encVarstr sc.program ++ encStrList sc.stateData

/-- `SpendCommitment.writeExtensibleString`: `writeContents` already appends the suffix and
    `WriteExtensibleString` appends it a second time — the code as it is. -/
def encSC (sc : SpendCommitment) (suffix : Bytes) : Bytes :=
  encExt (encSCFields sc ++ suffix) suffix

def encCommitment (H : Bytes → Bytes) : TypedInput → Bytes
  | .issuance nonce amount assetDef vm prog _ =>
    [0] ++ encVarstr nonce ++ issuanceAssetID H assetDef vm prog ++ putUvarint amount
  | .spend sc suffix _ => [1] ++ encSC sc suffix
  | .coinbase arb => [2] ++ encVarstr arb
  | .veto sc suffix vote _ => [3] ++ encSC sc suffix ++ encVarstr vote

def encWitness : TypedInput → Bytes
  | .issuance _ _ assetDef vm prog args => encVarstr assetDef ++ putUvarint vm ++ encVarstr prog ++ encStrList args
  | .spend _ _ args => encStrList args
  | .coinbase _ => []
  | .veto _ _ _ args => encStrList args

/-- `TxInput.writeTo`; `none` when the Go code dereferences a nil `TypedInput` (asset version 1
    without a typed input) -/
def encInput (H : Bytes → Bytes) (i : TxInput) : Bytes :=
  putUvarint i.assetVersion ++
  (match i.typed with
   | some t => if i.assetVersion = 1 then
       encExt (encCommitment H t) i.commitmentSuffix ++ encExt (encWitness t) i.witnessSuffix
     else encExt [] i.commitmentSuffix ++ encExt [] i.witnessSuffix
   | none => encExt [] i.commitmentSuffix ++ encExt [] i.witnessSuffix)

def encOC (oc : OutputCommitment) : Bytes :=
  oc.assetID ++ putUvarint oc.amount ++ putUvarint oc.vmVersion ++ encVarstr oc.program ++ encStrList oc.stateData

def encTypedOutput : TypedOutput → Bytes
  | .original => []
  | .vote v => encVarstr v

def TypedOutput.tag : TypedOutput → UInt8
  | .original => 0
  | .vote _ => 1

/-- the bytes inside an output's commitment extensible string (without the suffix) -/
def encOutBody (o : TxOutput) : Bytes :=
  encTypedOutput o.typed ++
    (match o.commitment with
     | some oc => if o.assetVersion = 1 then encOC oc else []
     | none => [])

def encOutput (o : TxOutput) : Bytes :=
  putUvarint o.assetVersion ++ [o.typed.tag] ++ encExt (encOutBody o) o.commitmentSuffix ++ encVarstr []

def encTx (H : Bytes → Bytes) (tx : TxData) : Bytes :=
  [7] ++ putUvarint tx.version ++ putUvarint tx.timeRange ++
  putUvarint tx.inputs.length ++ (tx.inputs.map (encInput H)).flatten ++
  putUvarint tx.outputs.length ++ (tx.outputs.map encOutput).flatten

def encSupLink (s : SupLink) : Bytes :=
  putUvarint s.sourceHeight ++ s.sourceHash ++ (s.signatures.map encVarstr).flatten

def encSupLinks (l : List SupLink) : Bytes :=
  putUvarint l.length ++ (l.map encSupLink).flatten

/-- `BlockHeader.writeTo` for serflags 1 (header) and 3 (full); for 2 only the flag byte -/
def encHeaderBody (h : BlockHeader) : Bytes :=
  putUvarint h.version ++ putUvarint h.height ++ h.prevHash ++ putUvarint h.timestamp ++
  encExt h.txRoot [] ++ encExt (encVarstr h.witness) [] ++ encExt (encSupLinks h.supLinks) []

def encHeader (flag : UInt8) (h : BlockHeader) : Bytes :=
  if flag = 2 then [flag] else [flag] ++ encHeaderBody h

def encBlock (H : Bytes → Bytes) (flag : UInt8) (b : Block) : Bytes :=
  encHeader flag b.header ++
  (if flag = 1 then [] else putUvarint b.txs.length ++ (b.txs.map (encTx H)).flatten)

/-! ### decoders -/

def aInput : Nat := 96
def aTyped : Nat := 256
def aOutput : Nat := 160
def aSupLink : Nat := 288
def aTx : Nat := 128
def aEntry : Nat := 512

def decSCFields : Dec SpendCommitment := do
  let src ← readHash
  let asset ← charge 32 readHash
  let amount ← readVarint63
  let pos ← readVarint63
  let vm ← readVarint63
  if vm ≠ 1 then fail .vmVersion else do
  let prog ← readVarstr31
  let st ← readVarstrList
  pure ⟨src, asset, amount, pos, vm, prog, st⟩

/-- `SpendCommitment.readFrom(r, 1)` -/
def decSC : Dec (SpendCommitment × Bytes) := readExt decSCFields

/-- what `readCommitment` leaves in the typed input before the witness is read -/
inductive Commit
  | issuance (nonce assetID : Bytes) (amount : Nat)
  | spend (sc : SpendCommitment) (suffix : Bytes)
  | coinbase (arb : Bytes)
  | veto (sc : SpendCommitment) (suffix : Bytes) (vote : Bytes)

/-- the type byte of `parseTypedInput` (must be a key of `inputTypeMap`) -/
def readInType : Dec UInt8 := do
  let t ← readByte
  if t > 3 then fail .inputType else pure t

/-- `parseTypedInput` (allocating the typed input) followed by `readCommitment` -/
def decCommit : Dec Commit := do
  let t ← chargeOk aTyped readInType
  if t = 0 then do
    let nonce ← readVarstr31
    let asset ← readHash
    let amount ← readVarint63
    pure (.issuance nonce asset amount)
  else if t = 1 then do
    let (sc, suf) ← decSC
    pure (.spend sc suf)
  else if t = 2 then do
    let arb ← readVarstr31
    pure (.coinbase arb)
  else if t = 3 then do
    let (sc, suf) ← decSC
    let vote ← readVarstr31
    pure (.veto sc suf vote)
  else fail .inputType

/-- `readWitness` -/
def decWitness (H : Bytes → Bytes) : Commit → Dec TypedInput
  | .issuance nonce asset amount => do
    let assetDef ← readVarstr31
    let vm ← readVarint63
    let prog ← readVarstr31
    if issuanceAssetID H assetDef vm prog ≠ asset then fail .badAssetID else do
    let args ← readVarstrList
    pure (.issuance nonce amount assetDef vm prog args)
  | .spend sc suf => do
    let args ← readVarstrList
    pure (.spend sc suf args)
  | .coinbase arb => pure (.coinbase arb)
  | .veto sc suf vote => do
    let args ← readVarstrList
    pure (.veto sc suf vote args)

/-- `TxInput.readFrom` -/
def decInput (H : Bytes → Bytes) : Dec TxInput := do
  let av ← readVarint63
  let (c, cs) ← readExt (if av ≠ 1 then (pure none : Dec (Option Commit)) else do
    let c ← decCommit
    pure (some c))
  let (t, ws) ← readExt (match c with
    | none => (pure none : Dec (Option TypedInput))
    | some c => do
      let t ← decWitness H c
      pure (some t))
  pure ⟨av, t, cs, ws⟩

def decOC : Dec OutputCommitment := do
  let asset ← charge 32 readHash
  let amount ← readVarint63
  let vm ← readVarint63
  if vm ≠ 1 then fail .vmVersion else do
  let prog ← readVarstr31
  let st ← readVarstrList
  pure ⟨asset, amount, vm, prog, st⟩

/-- the closure `TxOutput.readFrom` passes to `ReadExtensibleString` -/
def decOutBody (t : UInt8) (av : Nat) : Dec (TypedOutput × Option OutputCommitment) := do
  let typed ← (if t = 1 then do
      let v ← readVarstr31
      pure (TypedOutput.vote v)
    else (pure TypedOutput.original : Dec TypedOutput))
  let oc ← (if av = 1 then do
      let oc ← decOC
      pure (some oc)
    else (pure none : Dec (Option OutputCommitment)))
  pure (typed, oc)

/-- the type byte of `parseTypedOutput` (must be a key of `outputTypeMap`) -/
def readOutType : Dec UInt8 := do
  let t ← readByte
  if t ≠ 0 ∧ t ≠ 1 then fail .outputType else pure t

/-- `TxOutput.readFrom` -/
def decOutput : Dec TxOutput := do
  let av ← readVarint63
  let t ← chargeOk 32 readOutType
  let ((typed, oc), cs) ← readExt (decOutBody t av)
  let _ ← readVarstr31
  pure ⟨av, oc, cs, typed⟩

/-- `TxData.readFrom` -/
def decTx (H : Bytes → Bytes) : Dec TxData := do
  let start ← remaining
  let f ← readByte
  if f ≠ 7 then fail .serflags else do
  let version ← readVarint63
  let timeRange ← readVarint63
  let n ← readVarint31
  let ins ← readN (aInput + aPtr) (decInput H) n
  let m ← readVarint31
  let outs ← readN (aOutput + aPtr) decOutput m
  let stop ← remaining
  pure ⟨version, start - stop, timeRange, ins, outs⟩

/-- `MapTx` panics (`mapInputs`: "fail on handle transaction input") iff some input has no
    typed input; otherwise it allocates per entry -/
def mapTxPanics (tx : TxData) : Bool := tx.inputs.any (fun i => i.typed.isNone)

def mapTxD (tx : TxData) : Dec Unit :=
  if mapTxPanics tx then panicD else tick (aEntry * (2 * tx.inputs.length + tx.outputs.length + 2))

def decSigs : Nat → Dec (List Bytes)
  | 0 => pure []
  | n + 1 => do
    let s ← readVarstr31
    let l ← decSigs n
    pure (s :: l)

/-- `SupLink.readFrom` -/
def decSupLink : Dec SupLink := do
  let h ← readVarint63
  let hash ← readHash
  let sigs ← decSigs maxValidators
  pure ⟨h, hash, sigs⟩

/-- `SupLinks.readFrom`: `make([]*SupLink, size)` with `size` taken from the input -/
def decSupLinks : Dec (List SupLink) := do
  let size ← readVarint31
  tick (aPtr * size)
  readN aSupLink decSupLink size

/-- `BlockHeader.readFrom`: returns the serialization flag; for flag 2 nothing else is read -/
def decHeader : Dec (UInt8 × BlockHeader) := do
  let f ← readByte
  if f = 2 then pure (f, BlockHeader.zero)
  else if f ≠ 1 ∧ f ≠ 3 then fail .hdrFlags else do
  let version ← readVarint63
  let height ← readVarint63
  let prev ← readHash
  let ts ← readVarint63
  let (root, _) ← readExt readHash
  let (wit, _) ← readExt readVarstr31
  let (sl, _) ← readExt decSupLinks
  pure (f, ⟨version, height, prev, ts, root, wit, sl⟩)

/-- one transaction of a block: `data.readFrom(r)` then `NewTx(data)`; `mp` is the mapping
    step (`mapTxD` in the code) -/
def decBlockTxWith (mp : TxData → Dec Unit) (H : Bytes → Bytes) : Dec TxData := do
  let tx ← decTx H
  mp tx
  pure tx

def decBlockTx (H : Bytes → Bytes) : Dec TxData := decBlockTxWith mapTxD H

/-- `Block.readFrom` -/
def decBlockWith (mp : TxData → Dec Unit) (H : Bytes → Bytes) : Dec (UInt8 × Block) := do
  let (f, h) ← decHeader
  if f = 1 then pure (f, ⟨h, []⟩) else do
  let n ← readVarint31
  let txs ← readN (aTx + aPtr) (decBlockTxWith mp H) n
  pure (f, ⟨h, txs⟩)

def decBlock (H : Bytes → Bytes) : Dec (UInt8 × Block) := decBlockWith mapTxD H

/-! ### text layer (`MarshalText` / `UnmarshalText`: lowercase hex) -/

def hexDigit (n : Nat) : UInt8 := if n < 10 then UInt8.ofNat (48 + n) else UInt8.ofNat (87 + n)

def hexEncode : Bytes → Bytes
  | [] => []
  | b :: r => hexDigit (b.toNat / 16) :: hexDigit (b.toNat % 16) :: hexEncode r

def unhex (c : UInt8) : Option Nat :=
  if 48 ≤ c ∧ c ≤ 57 then some (c.toNat - 48)
  else if 97 ≤ c ∧ c ≤ 102 then some (c.toNat - 87)
  else if 65 ≤ c ∧ c ≤ 70 then some (c.toNat - 55)
  else none

/-- `hex.Decode`: `none` on an invalid digit or odd length -/
def hexDecode : Bytes → Option Bytes
  | [] => some []
  | [_] => none
  | a :: b :: r =>
    match unhex a, unhex b, hexDecode r with
    | some x, some y, some l => some (UInt8.ofNat (x * 16 + y) :: l)
    | _, _, _ => none

/-- common frame of the `UnmarshalText` functions: `make([]byte, len/2)`, hex, decode -/
def fromText {α} (d : Dec α) (text : Bytes) : Res α :=
  match hexDecode text with
  | none => ⟨text.length / 2, .err .hex⟩
  | some bs =>
    let r := d bs
    ⟨text.length / 2 + r.alloc, r.out⟩

def noTrailing {α} (a : α) : Dec α := fun bs =>
  if bs.length > 0 then ⟨0, .err .trailing⟩ else ⟨0, .ok a bs⟩

/-- `TxData.UnmarshalText` -/
def txDataFromText (H : Bytes → Bytes) : Bytes → Res TxData :=
  fromText (do let tx ← decTx H; noTrailing tx)

/-- `Tx.UnmarshalText`: `TxData.UnmarshalText` then `MapTx` -/
def txFromText (H : Bytes → Bytes) : Bytes → Res TxData :=
  fromText (do let tx ← decTx H; let tx ← noTrailing tx; mapTxD tx; pure tx)

/-- `BlockHeader.UnmarshalText`: no trailing-garbage check; flag 2 is rejected afterwards -/
def headerFromText : Bytes → Res BlockHeader :=
  fromText (do
    let (f, h) ← decHeader
    if f = 2 then fail .hdrFlags else pure h)

/-- `Block.UnmarshalText` -/
def blockFromTextWith (mp : TxData → Dec Unit) (H : Bytes → Bytes) : Bytes → Res (UInt8 × Block) :=
  fromText (do let b ← decBlockWith mp H; noTrailing b)

def blockFromText (H : Bytes → Bytes) : Bytes → Res (UInt8 × Block) := blockFromTextWith mapTxD H

/-- `decodeMessage` of the two reactors (`netsync/chainmgr/protocol_reactor.go`,
    `netsync/consensusmgr/consensus_msg.go`): `msgType = bz[0]` comes before anything else;
    the go-wire framing that follows is third-party and enters as the parameter `wire` -/
def decodeMessage {α} (wire : Dec α) : Dec α := fun bz =>
  match bz with
  | [] => ⟨0, .panic⟩
  | _ :: _ => wire bz

def txToText (H : Bytes → Bytes) (tx : TxData) : Bytes := hexEncode (encTx H tx)
def headerToText (h : BlockHeader) : Bytes := hexEncode (encHeader 1 h)
def blockToText (H : Bytes → Bytes) (flag : UInt8) (b : Block) : Bytes := hexEncode (encBlock H flag b)

end BytomModel.Codec
