/-
C37 — the SYNCHRONISATION SKELETON of the block / vote / transaction / read paths as a small
interleaving semantics (core Lean only).

What is modelled
* threads run *programs*: trees of synchronisation actions (`Stmt`) — lock / unlock / rlock /
  runlock of a mutex, `sync.Cond.Wait`, sends and receives on the channel fields of `Chain` and
  `Casper`, request/reply over the per-request reply channel a message carries, calls, `go`,
  data dependent choice (`alt`: which branch is taken is NOT decided by the model — all are
  possible), loops and `select`;
* the programs are the ones extracted from the Go source by `gen/syncskel.go`
  (`Gen/SyncSkel.lean`); `skeleton` below is the hand-checked copy and `Ties/C37.lean` proves
  the two equal, so a change of a lock scope / call order in the Go code breaks a proof;
* resources: mutexes — `sync.RWMutex` with readers, one writer and Go's *writer preference*
  (a `Lock()` first announces itself, from then on no new `RLock()` succeeds, and it acquires the
  mutex once the readers have drained); bounded channels with their capacities; unbuffered and
  buffered reply channels;
* `step` is the (nondeterministic, via the choice arguments) small-step function;
  `Blocked`, `Provider` (who could unblock a blocked thread) and `Deadlocked` (a non-empty set of
  blocked threads all of whose providers are in the set) are defined on configurations.

What is NOT modelled (see notes/C37.md): data, hence data races; calls into other packages
(store, caches, event dispatcher), which are assumed to take only their own locks.
-/
namespace BytomModel.SyncSkel

abbrev Mutex := Nat
abbrev Chan := Nat
abbrev Rep := Nat
abbrev Fn := Nat

/-- one synchronisation action -/
inductive Act where
  | lock (m : Mutex) | unlock (m : Mutex) | rlock (m : Mutex) | runlock (m : Mutex)
  | wait (m : Mutex)      -- sync.Cond.Wait of the condition whose L is m
  | signal (m : Mutex)    -- Broadcast / Signal
  | send (c : Chan)       -- send on a channel field (blocks while it is full)
  | recv (c : Chan)       -- receive from a channel field
  | sendReply (r : Rep)   -- answer on the reply channel of the message last received
  | recvReply (r : Rep)   -- wait for the answer on the reply channel made for the request
  | sendFresh (cap : Nat) -- the only send on a channel made by the same function with capacity cap
  deriving DecidableEq, Repr

/-- a program is a list of statements -/
inductive Stmt where
  | act (a : Act)
  | call (f : Fn)
  | go (f : Fn)
  | alt (bs : List (List Stmt))
  | loop (inf : Bool) (b : List Stmt)
  | sel (arms : List (List Stmt))
  deriving Repr

/-! ### decidable equality of programs (the type is nested, `deriving` does not apply) -/
mutual
def Stmt.beq : Stmt → Stmt → Bool
  | .act a, .act b => a == b
  | .call f, .call g => f == g
  | .go f, .go g => f == g
  | .alt a, .alt b => beqLL a b
  | .loop i a, .loop j b => i == j && beqL a b
  | .sel a, .sel b => beqLL a b
  | _, _ => false
def beqL : List Stmt → List Stmt → Bool
  | [], [] => true
  | a :: as, b :: bs => Stmt.beq a b && beqL as bs
  | _, _ => false
def beqLL : List (List Stmt) → List (List Stmt) → Bool
  | [], [] => true
  | a :: as, b :: bs => beqL a b && beqLL as bs
  | _, _ => false
end

mutual
theorem Stmt.eq_of_beq : ∀ (a b : Stmt), Stmt.beq a b = true → a = b
  | .act a, .act b, h => by simp only [Stmt.beq, beq_iff_eq] at h; rw [h]
  | .call f, .call g, h => by simp only [Stmt.beq, beq_iff_eq] at h; rw [h]
  | .go f, .go g, h => by simp only [Stmt.beq, beq_iff_eq] at h; rw [h]
  | .alt a, .alt b, h => by simp only [Stmt.beq] at h; rw [eq_of_beqLL a b h]
  | .loop i a, .loop j b, h => by
      simp only [Stmt.beq, Bool.and_eq_true, beq_iff_eq] at h; rw [h.1, eq_of_beqL a b h.2]
  | .sel a, .sel b, h => by simp only [Stmt.beq] at h; rw [eq_of_beqLL a b h]
  | .act _, .call _, h | .act _, .go _, h | .act _, .alt _, h | .act _, .loop _ _, h | .act _, .sel _, h
  | .call _, .act _, h | .call _, .go _, h | .call _, .alt _, h | .call _, .loop _ _, h | .call _, .sel _, h
  | .go _, .act _, h | .go _, .call _, h | .go _, .alt _, h | .go _, .loop _ _, h | .go _, .sel _, h
  | .alt _, .act _, h | .alt _, .call _, h | .alt _, .go _, h | .alt _, .loop _ _, h | .alt _, .sel _, h
  | .loop _ _, .act _, h | .loop _ _, .call _, h | .loop _ _, .go _, h | .loop _ _, .alt _, h | .loop _ _, .sel _, h
  | .sel _, .act _, h | .sel _, .call _, h | .sel _, .go _, h | .sel _, .alt _, h | .sel _, .loop _ _, h => by
      simp [Stmt.beq] at h
theorem eq_of_beqL : ∀ (a b : List Stmt), beqL a b = true → a = b
  | [], [], _ => rfl
  | a :: as, b :: bs, h => by
      simp only [beqL, Bool.and_eq_true] at h; rw [Stmt.eq_of_beq a b h.1, eq_of_beqL as bs h.2]
  | [], _ :: _, h | _ :: _, [], h => by simp [beqL] at h
theorem eq_of_beqLL : ∀ (a b : List (List Stmt)), beqLL a b = true → a = b
  | [], [], _ => rfl
  | a :: as, b :: bs, h => by
      simp only [beqLL, Bool.and_eq_true] at h; rw [eq_of_beqL a b h.1, eq_of_beqLL as bs h.2]
  | [], _ :: _, h | _ :: _, [], h => by simp [beqLL] at h
end

mutual
theorem Stmt.beq_refl : ∀ (a : Stmt), Stmt.beq a a = true
  | .act a => by simp [Stmt.beq]
  | .call f => by simp [Stmt.beq]
  | .go f => by simp [Stmt.beq]
  | .alt a => by simp only [Stmt.beq]; exact beqLL_refl a
  | .loop i a => by simp only [Stmt.beq, Bool.and_eq_true, beq_self_eq_true, true_and]; exact beqL_refl a
  | .sel a => by simp only [Stmt.beq]; exact beqLL_refl a
theorem beqL_refl : ∀ (a : List Stmt), beqL a a = true
  | [] => rfl
  | a :: as => by simp only [beqL, Bool.and_eq_true]; exact ⟨Stmt.beq_refl a, beqL_refl as⟩
theorem beqLL_refl : ∀ (a : List (List Stmt)), beqLL a a = true
  | [] => rfl
  | a :: as => by simp only [beqLL, Bool.and_eq_true]; exact ⟨beqL_refl a, beqLL_refl as⟩
end

instance : DecidableEq Stmt := fun a b =>
  if h : Stmt.beq a b = true then isTrue (Stmt.eq_of_beq a b h)
  else isFalse (fun e => h (e ▸ Stmt.beq_refl a))

/-! ### the static description of a system -/

inductive Mode where | R | W
  deriving DecidableEq, Repr

/-- the part of a system the SEMANTICS depends on -/
structure Sys where
  /-- function ↦ skeleton -/
  body : List (Fn × List Stmt)
  /-- capacity of a channel field -/
  cap : Chan → Nat
  /-- the reply channel carried by the messages of a channel (none: fire and forget) -/
  replyOf : Chan → Option Rep
  /-- capacity of a reply channel (0: unbuffered) -/
  rcap : Rep → Nat
  /-- the goroutines started when the node is constructed: function and level (see `Ann`) -/
  daemons : List (Fn × Nat)

def Sys.bodyOf (S : Sys) (f : Fn) : List Stmt := (S.body.lookup f).getD []

/-- request state of a thread -/
inductive St where
  | idle
  | queued (ch : Chan)   -- its message sits in ch, it waits for the reply
  | served (r : Rep)     -- its message has been received, the receiver owes the reply on r
  | replied (r : Rep)    -- the reply sits in its (buffered) reply channel
  deriving DecidableEq, Repr

structure Thread where
  prog : List Stmt
  /-- mutexes held, with the mode -/
  held : List (Mutex × Mode)
  /-- `some m`: it has announced itself as the next writer of m (new readers are held off) and
      waits for the readers to drain -/
  pw : Option Mutex
  st : St
  /-- the message it is serving: sender and the reply channel the message carries -/
  peer : Option (Nat × Rep)
  /-- static: its level in the client / server hierarchy (used by the discipline only) -/
  lvl : Nat
  deriving Repr, DecidableEq

structure Config where
  threads : List Thread
  /-- number of messages in a fire-and-forget channel -/
  cnt : Chan → Nat

def mkThread (prog : List Stmt) (lvl : Nat) : Thread :=
  { prog := prog, held := [], pw := none, st := .idle, peer := none, lvl := lvl }

def Config.set (c : Config) (i : Nat) (t : Thread) : Config := { c with threads := c.threads.set i t }

/-- some thread holds m for writing -/
def Config.holdsW (c : Config) (m : Mutex) : Bool := c.threads.any (fun t => t.held.contains (m, .W))
/-- some thread holds m in some mode -/
def Config.holds (c : Config) (m : Mutex) : Bool :=
  c.threads.any (fun t => t.held.contains (m, .W) || t.held.contains (m, .R))
/-- some thread has announced itself as the next writer of m -/
def Config.pendW (c : Config) (m : Mutex) : Bool := c.threads.any (fun t => t.pw == some m)
/-- number of requests waiting in a channel whose messages carry a reply channel: the threads
    whose request sits there (they wait for the answer, so this IS the queue) -/
def Config.qlen (c : Config) (ch : Chan) : Nat := (c.threads.filter (fun t => t.st == .queued ch)).length

/-- receive from `ch` by thread `i` (its thread record is `t`, the rest of its program `k`);
    `p` chooses which waiting request is taken -/
def recvStep (S : Sys) (c : Config) (i : Nat) (t : Thread) (ch : Chan) (k : List Stmt) (p : Nat) : Option Config :=
  match S.replyOf ch with
  | some r =>
    match c.threads[p]? with
    | some tp =>
      if tp.st = .queued ch then
        some ((c.set p { tp with st := .served r }).set i { t with prog := k, peer := some (p, r) })
      else none
    | none => none
  | none =>
    if 0 < c.cnt ch then
      some { (c.set i { t with prog := k }) with cnt := fun x => if x = ch then c.cnt ch - 1 else c.cnt x }
    else none

/-- One step of thread `i`, whose record is `t`; `n` chooses the branch of an `alt`, the arm of a `sel`, and between
    leaving (0) and repeating a loop; `p` chooses the request a receive takes. `none`: no such step. -/
def stepT (S : Sys) (c : Config) (i n p : Nat) (t : Thread) : Option Config :=
    match t.prog with
    | [] => none
    | .call f :: k => some (c.set i { t with prog := S.bodyOf f ++ k })
    | .go f :: k =>
      some { (c.set i { t with prog := k }) with
             threads := (c.threads.set i { t with prog := k }) ++ [mkThread (S.bodyOf f) t.lvl] }
    | .alt bs :: k =>
      match bs[n]? with
      | some b => some (c.set i { t with prog := b ++ k })
      | none => none
    | .loop inf b :: k =>
      if n = 0 then (if inf then none else some (c.set i { t with prog := k }))
      else some (c.set i { t with prog := b ++ .loop inf b :: k })
    | .sel arms :: k =>
      match arms[n]? with
      | some (.act (.recv ch) :: rest) => recvStep S c i t ch (rest ++ k) p
      | _ => none
    | .act (.recv ch) :: k => recvStep S c i t ch k p
    | .act (.lock m) :: k =>
      if t.pw = some m then
        (if c.holds m then none
         else some (c.set i { t with held := (m, .W) :: t.held, pw := none, prog := k }))
      else if c.holdsW m || c.pendW m then none
      else some (c.set i { t with pw := some m })
    | .act (.rlock m) :: k =>
      if c.holdsW m || c.pendW m then none
      else some (c.set i { t with held := (m, .R) :: t.held, prog := k })
    | .act (.unlock m) :: k =>
      if t.held.contains (m, .W) then some (c.set i { t with held := t.held.erase (m, .W), prog := k }) else none
    | .act (.runlock m) :: k =>
      if t.held.contains (m, .R) then some (c.set i { t with held := t.held.erase (m, .R), prog := k }) else none
    | .act (.wait m) :: k =>
      -- releases L and parks; waking up (Broadcast, or spuriously — the callers re-check their
      -- condition in a loop) is re-acquiring L
      if t.held.contains (m, .W) then
        some (c.set i { t with held := t.held.erase (m, .W), prog := .act (.lock m) :: k })
      else none
    | .act (.signal _) :: k => some (c.set i { t with prog := k })
    | .act (.sendFresh cap) :: k => if 1 ≤ cap then some (c.set i { t with prog := k }) else none
    | .act (.send ch) :: k =>
      match S.replyOf ch with
      | some _ =>
        if c.qlen ch < S.cap ch then some (c.set i { t with st := .queued ch, prog := k }) else none
      | none =>
        if c.cnt ch < S.cap ch then
          some { (c.set i { t with prog := k }) with cnt := fun x => if x = ch then c.cnt ch + 1 else c.cnt x }
        else none
    | .act (.recvReply r) :: k =>
      if t.st = .replied r then some (c.set i { t with st := .idle, prog := k }) else none
    | .act (.sendReply r) :: k =>
      match t.peer with
      | none => none
      | some (p, r') =>
        if r' = r then
          match c.threads[p]? with
          | none => none
          | some tp =>
            if tp.st = .served r then
              if S.rcap r = 0 then
                -- unbuffered: a rendezvous with the requester, which must stand at its receive
                match tp.prog with
                | .act (.recvReply r'') :: kp =>
                  if r'' = r then
                    some ((c.set p { tp with st := .idle, prog := kp }).set i { t with prog := k, peer := none })
                  else none
                | _ => none
              else
                some ((c.set p { tp with st := .replied r }).set i { t with prog := k, peer := none })
            else none   -- the buffer is full, or the requester is gone: treated as blocked (conservative)
        else none

def step (S : Sys) (c : Config) (i n p : Nat) : Option Config :=
  match c.threads[i]? with
  | none => none
  | some t => stepT S c i n p t

/-- run a schedule: a list of (thread, branch choice, request choice) -/
def run (S : Sys) : Config → List (Nat × Nat × Nat) → Option Config
  | c, [] => some c
  | c, (i, n, p) :: ms =>
    match step S c i n p with
    | some c' => run S c' ms
    | none => none

/-- reachability -/
inductive Reach (S : Sys) (c₀ : Config) : Config → Prop where
  | refl : Reach S c₀ c₀
  | step {c c' : Config} (i n p : Nat) : Reach S c₀ c → step S c i n p = some c' → Reach S c₀ c'

/-- the node after construction: the daemons (`go c.blockProcessor()`, `go casper.authVerificationLoop()`)
    and any number of client goroutines with arbitrary programs -/
def init (S : Sys) (top : Nat) (clients : List (List Stmt)) : Config :=
  { threads := S.daemons.map (fun d => mkThread (S.bodyOf d.1) d.2) ++ clients.map (fun p => mkThread p top),
    cnt := fun _ => 0 }

/-! ### blocked, providers, deadlock -/

/-- thread `i` has something left to do and cannot do it now -/
def Blocked (S : Sys) (c : Config) (i : Nat) : Prop :=
  ∃ t, c.threads[i]? = some t ∧ t.prog ≠ [] ∧ ∀ n p, step S c i n p = none

/-- a thread standing at a `select` whose channels are all empty waits for new requests from its
    clients (the environment of an open system): that is idleness, not being stuck -/
def AtSelect (c : Config) (i : Nat) : Prop :=
  ∃ t arms k, c.threads[i]? = some t ∧ t.prog = .sel arms :: k

def Stuck (S : Sys) (c : Config) (i : Nat) : Prop := Blocked S c i ∧ ¬ AtSelect c i

/-- `u` returns forever to a `select` that receives from `ch` -/
def Serves (u : Thread) (ch : Chan) : Prop :=
  ∃ pre arms rest, u.prog = pre ++ [.loop true [.sel arms]] ∧ (.act (.recv ch) :: rest) ∈ arms

/-- `j` is a thread that could provide what the blocked thread `i` waits for -/
def Provider (c : Config) (i j : Nat) : Prop :=
  ∃ t u, c.threads[i]? = some t ∧ c.threads[j]? = some u ∧
    match t.prog with
    | .act (.lock m) :: _ =>
        if t.pw = some m then ((m, Mode.R) ∈ u.held ∨ (m, Mode.W) ∈ u.held)   -- the holders must leave
        else ((m, Mode.W) ∈ u.held ∨ u.pw = some m)                           -- the writer / announced writer
    | .act (.rlock m) :: _ => (m, Mode.W) ∈ u.held ∨ u.pw = some m
    | .act (.send ch) :: _ => Serves u ch                                     -- the channel is full
    | .act (.recvReply r) :: _ =>
        match t.st with
        | .queued ch => Serves u ch                                           -- must take the request first
        | .served _ => ∃ q, u.peer = some (q, r) ∧ q = i ∧ .act (.sendReply r) ∈ u.prog
        | _ => False
    | .act (.sendReply _) :: _ => ∃ r, t.peer = some (j, r)                   -- the requester must take it
    | _ => False

/-- a non-empty set of stuck threads, each waiting for something only members of the set can provide -/
def Deadlocked (S : Sys) (c : Config) : Prop :=
  ∃ D : List Nat, D ≠ [] ∧ ∀ i ∈ D, Stuck S c i ∧ ∀ j, Provider c i j → j ∈ D

/-! ### the locking / messaging discipline (a decidable check of a skeleton)

`chkL L σ prog = some σ'`: a thread of level `L` that holds `σ.held` and (if `σ.pend = some r`)
has a request out whose answer it must take next on `r`, can run `prog` so that
* a mutex is only requested while all mutexes held have a strictly smaller rank,
* it holds nothing when it sends on / waits for a channel,
* it sends only to channels served by a daemon of a smaller level, and waits for the answer
  immediately,
and ends holding `σ'.held`. -/

structure Ann where
  /-- level of the daemon that serves a channel -/
  lvl : Chan → Nat
  /-- index (in `Sys.daemons`) of the daemon that serves a channel -/
  srv : Chan → Nat
  /-- lock order -/
  rank : Mutex → Nat
  maxRank : Nat
  /-- mutexes held on entry to (and exit from) a function -/
  pre : Fn → List (Mutex × Mode)
  /-- lowest level of a thread that may run the function -/
  flvl : Fn → Nat
  /-- level of client goroutines -/
  top : Nat

structure TS where
  held : List (Mutex × Mode)
  pend : Option Rep
  deriving DecidableEq, Repr

def rankOK (A : Ann) (held : List (Mutex × Mode)) (m : Mutex) : Bool :=
  held.all (fun h => A.rank h.1 < A.rank m) && decide (A.rank m ≤ A.maxRank)

def headIsRecv (ch : Chan) : List Stmt → Bool
  | .act (.recv c) :: _ => c == ch
  | _ => false

/-- the daemon that serves `ch` exists, has the level of `ch`, and its body is
    `for { select { … case <-ch … } }` -/
def hasServer (S : Sys) (A : Ann) (ch : Chan) : Bool :=
  match S.daemons[A.srv ch]? with
  | some d =>
    d.2 == A.lvl ch &&
    (match S.bodyOf d.1 with
     | [.loop true [.sel arms]] => arms.any (headIsRecv ch)
     | _ => false)
  | none => false

def chkA (S : Sys) (A : Ann) (L : Nat) (σ : TS) : Act → Option TS
  | .lock m => if σ.pend = none ∧ rankOK A σ.held m then some { σ with held := (m, .W) :: σ.held } else none
  | .rlock m => if σ.pend = none ∧ rankOK A σ.held m then some { σ with held := (m, .R) :: σ.held } else none
  | .unlock m => if σ.pend = none ∧ σ.held.contains (m, .W) then some { σ with held := σ.held.erase (m, .W) } else none
  | .runlock m => if σ.pend = none ∧ σ.held.contains (m, .R) then some { σ with held := σ.held.erase (m, .R) } else none
  | .wait m => if σ.pend = none ∧ σ.held = [(m, .W)] ∧ A.rank m ≤ A.maxRank then some σ else none
  | .signal _ => if σ.pend = none then some σ else none
  | .sendFresh cap => if σ.pend = none ∧ 1 ≤ cap then some σ else none
  | .send ch =>
      if σ.pend = none ∧ σ.held = [] ∧ A.lvl ch < L ∧ 1 ≤ S.cap ch ∧ hasServer S A ch
      then some { σ with pend := S.replyOf ch } else none
  | .recvReply r => if σ.pend = some r ∧ σ.held = [] then some { σ with pend := none } else none
  | .recv _ => none
  | .sendReply _ => none

mutual
def chkS (S : Sys) (A : Ann) (L : Nat) : TS → Stmt → Option TS
  | σ, .act a => chkA S A L σ a
  | σ, .call f => if σ.pend = none ∧ σ.held = A.pre f ∧ A.flvl f ≤ L then some σ else none
  | σ, .go f => if σ.pend = none ∧ A.pre f = [] ∧ A.flvl f ≤ L then some σ else none
  | σ, .alt bs =>
      match bs with
      | [] => none
      | b :: rest =>
        match chkL S A L σ b with
        | some σ' => if σ.pend = none ∧ chkAll S A L σ σ' rest then some σ' else none
        | none => none
  | σ, .loop _ b =>
      match chkL S A L σ b with
      | some σ' => if σ.pend = none ∧ σ' = σ then some σ else none
      | none => none
  | _, .sel _ => none
def chkL (S : Sys) (A : Ann) (L : Nat) : TS → List Stmt → Option TS
  | σ, [] => some σ
  | σ, s :: k =>
      match chkS S A L σ s with
      | some σ' => chkL S A L σ' k
      | none => none
def chkAll (S : Sys) (A : Ann) (L : Nat) : TS → TS → List (List Stmt) → Bool
  | _, _, [] => true
  | σ, σ', b :: bs => (chkL S A L σ b == some σ') && chkAll S A L σ σ' bs
end

def TS.empty : TS := ⟨[], none⟩

/-- an arm of a daemon's select: `case msg := <-ch: <plain code>; msg.reply <- …` -/
def armOK (S : Sys) (A : Ann) (L : Nat) : List Stmt → Bool
  | .act (.recv ch) :: rest =>
      A.lvl ch == L && decide (1 ≤ S.cap ch) &&
      (match S.replyOf ch with
       | none => chkL S A L TS.empty rest == some TS.empty
       | some r =>
         rest.getLast? == some (.act (.sendReply r)) && (chkL S A L TS.empty rest.dropLast == some TS.empty))
  | _ => false

def daemonArms (S : Sys) (f : Fn) : Option (List (List Stmt)) :=
  match S.bodyOf f with
  | [.loop true [.sel arms]] => some arms
  | _ => none

def daemonOK (S : Sys) (A : Ann) (d : Fn × Nat) : Bool :=
  decide (d.2 ≤ A.top) &&
  match daemonArms S d.1 with
  | some arms => arms.all (armOK S A d.2)
  | none => false

/-- the whole table obeys the discipline: every function, at every level it may run at, keeps
    its declared held-set; every daemon has the daemon shape -/
def wfSys (S : Sys) (A : Ann) : Bool :=
  S.body.all (fun fb =>
    (List.range (A.top + 1)).all (fun L =>
      decide (L < A.flvl fb.1) || (chkL S A L ⟨A.pre fb.1, none⟩ fb.2 == some ⟨A.pre fb.1, none⟩))) &&
  S.daemons.all (daemonOK S A)

/-! ### the skeleton of the node (hand-checked copy of `Gen/SyncSkel.lean`, tied in `Ties/C37.lean`) -/

def m_Casper_mu : Mutex := 0
def m_Chain_cond_L : Mutex := 1
def m_OrphanManage_mtx : Mutex := 2
def m_TxPool_mtx : Mutex := 3
def mutexes : List (Mutex × String × String) :=
  [(0, "Casper.mu", "RWMutex"), (1, "Chain.cond.L", "Cond.L"), (2, "OrphanManage.mtx", "RWMutex"), (3, "TxPool.mtx", "RWMutex")]

def rp_RollbackMsg_Reply : Rep := 0
def rp_processBlockMsg_reply : Rep := 1
def ch_Casper_newEpochCh : Chan := 0
def ch_Casper_rollbackCh : Chan := 1
def ch_Chain_processBlockCh : Chan := 2
/-- reply channels: `RollbackMsg.Reply` is unbuffered, `processBlockMsg.reply` has room for the one answer -/
def replies : List (Rep × String × Nat) := [(0, "RollbackMsg.Reply", 0), (1, "processBlockMsg.reply", 1)]
def chans : List (Chan × String × Nat × Option Rep) :=
  [(0, "Casper.newEpochCh", 64, none), (1, "Casper.rollbackCh", 64, some 0), (2, "Chain.processBlockCh", 1024, some 1)]

def f_Casper_ApplyBlock : Fn := 0
def f_Casper_AuthVerification : Fn := 1
def f_Casper_BestChain : Fn := 2
def f_Casper_LastFinalized : Fn := 3
def f_Casper_LastJustified : Fn := 4
def f_Casper_authCachedMsg : Fn := 5
def f_Casper_authVerificationLoop : Fn := 6
def f_Casper_tryRollback : Fn := 7
def f_Chain_BestBlockHash : Fn := 8
def f_Chain_BestBlockHeader : Fn := 9
def f_Chain_BestBlockHeight : Fn := 10
def f_Chain_BestChain : Fn := 11
def f_Chain_BlockExist : Fn := 12
def f_Chain_BlockWaiter : Fn := 13
def f_Chain_BlockWaiter_func1 : Fn := 14
def f_Chain_FinalizedHeight : Fn := 15
def f_Chain_InMainChain : Fn := 16
def f_Chain_LastFinalizedHeader : Fn := 17
def f_Chain_LastJustifiedHeader : Fn := 18
def f_Chain_ProcessBlock : Fn := 19
def f_Chain_ProcessBlockVerification : Fn := 20
def f_Chain_ValidateTx : Fn := 21
def f_Chain_blockProcessor : Fn := 22
def f_Chain_processBlock : Fn := 23
def f_Chain_reorganizeChain : Fn := 24
def f_Chain_saveBlock : Fn := 25
def f_Chain_saveSubBlock : Fn := 26
def f_Chain_setState : Fn := 27
def f_Chain_tryReorganize : Fn := 28
def f_OrphanManage_Add : Fn := 29
def f_OrphanManage_BlockExist : Fn := 30
def f_OrphanManage_Delete : Fn := 31
def f_OrphanManage_Get : Fn := 32
def f_OrphanManage_GetPrevOrphans : Fn := 33
def f_OrphanManage_orphanExpire : Fn := 34
def f_OrphanManage_orphanExpireWorker : Fn := 35
def f_TxPool_AddErrCache : Fn := 36
def f_TxPool_ExpireOrphan : Fn := 37
def f_TxPool_GetErrCache : Fn := 38
def f_TxPool_GetTransaction : Fn := 39
def f_TxPool_GetTransactions : Fn := 40
def f_TxPool_HaveTransaction : Fn := 41
def f_TxPool_IsTransactionInErrCache : Fn := 42
def f_TxPool_IsTransactionInPool : Fn := 43
def f_TxPool_ProcessTransaction : Fn := 44
def f_TxPool_RemoveTransaction : Fn := 45
def f_TxPool_orphanExpireWorker : Fn := 46
def f_TxPool_processTransaction : Fn := 47
def f_casper_NewCasper : Fn := 48
def f_protocol_NewChain : Fn := 49
def f_protocol_NewChainWithOrphanManage : Fn := 50
def f_protocol_NewOrphanManage : Fn := 51
def f_protocol_NewTxPool : Fn := 52
def f_protocol_newCasper : Fn := 53

def fnNames : List (Fn × String) := [
  (0, "Casper.ApplyBlock"), (1, "Casper.AuthVerification"), (2, "Casper.BestChain"), (3, "Casper.LastFinalized"),
  (4, "Casper.LastJustified"), (5, "Casper.authCachedMsg"), (6, "Casper.authVerificationLoop"), (7, "Casper.tryRollback"),
  (8, "Chain.BestBlockHash"), (9, "Chain.BestBlockHeader"), (10, "Chain.BestBlockHeight"), (11, "Chain.BestChain"),
  (12, "Chain.BlockExist"), (13, "Chain.BlockWaiter"), (14, "Chain.BlockWaiter.func1"), (15, "Chain.FinalizedHeight"),
  (16, "Chain.InMainChain"), (17, "Chain.LastFinalizedHeader"), (18, "Chain.LastJustifiedHeader"), (19, "Chain.ProcessBlock"),
  (20, "Chain.ProcessBlockVerification"), (21, "Chain.ValidateTx"), (22, "Chain.blockProcessor"), (23, "Chain.processBlock"),
  (24, "Chain.reorganizeChain"), (25, "Chain.saveBlock"), (26, "Chain.saveSubBlock"), (27, "Chain.setState"),
  (28, "Chain.tryReorganize"), (29, "OrphanManage.Add"), (30, "OrphanManage.BlockExist"), (31, "OrphanManage.Delete"),
  (32, "OrphanManage.Get"), (33, "OrphanManage.GetPrevOrphans"), (34, "OrphanManage.orphanExpire"),
  (35, "OrphanManage.orphanExpireWorker"), (36, "TxPool.AddErrCache"), (37, "TxPool.ExpireOrphan"), (38, "TxPool.GetErrCache"),
  (39, "TxPool.GetTransaction"), (40, "TxPool.GetTransactions"), (41, "TxPool.HaveTransaction"),
  (42, "TxPool.IsTransactionInErrCache"), (43, "TxPool.IsTransactionInPool"), (44, "TxPool.ProcessTransaction"),
  (45, "TxPool.RemoveTransaction"), (46, "TxPool.orphanExpireWorker"), (47, "TxPool.processTransaction"),
  (48, "casper.NewCasper"), (49, "protocol.NewChain"), (50, "protocol.NewChainWithOrphanManage"),
  (51, "protocol.NewOrphanManage"), (52, "protocol.NewTxPool"), (53, "protocol.newCasper")]

/-- the critical section of a mutex with nothing inside that synchronises -/
def crit (m : Mutex) : List Stmt := [.act (.lock m), .act (.unlock m)]
def rcrit (m : Mutex) : List Stmt := [.act (.rlock m), .act (.runlock m)]

def skeleton : List (Fn × List Stmt) := [
  -- the epoch notification is sent BEFORE casper.mu is taken
  (f_Casper_ApplyBlock, [.alt [[.act (.send ch_Casper_newEpochCh)], []], .act (.lock m_Casper_mu), .act (.unlock m_Casper_mu)]),
  (f_Casper_AuthVerification, [.act (.lock m_Casper_mu), .alt [[.act (.unlock m_Casper_mu)], [.call f_Casper_tryRollback, .act (.unlock m_Casper_mu)]]]),
  (f_Casper_BestChain, rcrit m_Casper_mu),
  (f_Casper_LastFinalized, rcrit m_Casper_mu),
  (f_Casper_LastJustified, rcrit m_Casper_mu),
  (f_Casper_authCachedMsg, crit m_Casper_mu),
  (f_Casper_authVerificationLoop, [.loop true [.sel [[.act (.recv ch_Casper_newEpochCh), .alt [[], [.loop false [.alt [[], [.call f_Casper_authCachedMsg]]]]]]]]]),
  -- entered with casper.mu held; the mutex is released around the round trip to the block processor
  (f_Casper_tryRollback, [.alt [[.act (.unlock m_Casper_mu), .act (.send ch_Casper_rollbackCh), .act (.recvReply rp_RollbackMsg_Reply), .act (.lock m_Casper_mu)], []]]),
  (f_Chain_BestBlockHash, crit m_Chain_cond_L),
  (f_Chain_BestBlockHeader, crit m_Chain_cond_L),
  (f_Chain_BestBlockHeight, crit m_Chain_cond_L),
  (f_Chain_BestChain, crit m_Chain_cond_L),
  (f_Chain_BlockExist, [.alt [[], [.call f_OrphanManage_BlockExist]]]),
  (f_Chain_BlockWaiter, [.go f_Chain_BlockWaiter_func1]),
  (f_Chain_BlockWaiter_func1, [.act (.lock m_Chain_cond_L), .loop false [.act (.wait m_Chain_cond_L)], .act (.sendFresh 1), .act (.unlock m_Chain_cond_L)]),
  (f_Chain_FinalizedHeight, [.call f_Casper_LastFinalized]),
  (f_Chain_InMainChain, [.alt [[], [.call f_Chain_BestBlockHeight]]]),
  (f_Chain_LastFinalizedHeader, [.call f_Casper_LastFinalized]),
  (f_Chain_LastJustifiedHeader, [.call f_Casper_LastJustified]),
  (f_Chain_ProcessBlock, [.act (.send ch_Chain_processBlockCh), .act (.recvReply rp_processBlockMsg_reply)]),
  (f_Chain_ProcessBlockVerification, [.call f_Casper_AuthVerification]),
  (f_Chain_ValidateTx, [.call f_TxPool_HaveTransaction, .alt [[.call f_TxPool_GetErrCache], [.call f_TxPool_AddErrCache], [.call f_Chain_BestBlockHeader, .alt [[.call f_TxPool_AddErrCache], [.call f_TxPool_ProcessTransaction]]]]]),
  -- a rollback request is answered with the fork choice read NOW (casper.BestChain(): read lock of
  -- casper.mu, nothing held), not with the hash the requester computed before it released the lock
  (f_Chain_blockProcessor, [.loop true [.sel [[.act (.recv ch_Chain_processBlockCh), .call f_Chain_processBlock, .act (.sendReply rp_processBlockMsg_reply)], [.act (.recv ch_Casper_rollbackCh), .call f_Casper_BestChain, .call f_Chain_tryReorganize, .act (.sendReply rp_RollbackMsg_Reply)]]]]),
  (f_Chain_processBlock, [.call f_Chain_BlockExist, .alt [[.call f_OrphanManage_BlockExist], [.call f_OrphanManage_Add], [.call f_Chain_saveBlock, .alt [[], [.call f_Chain_saveSubBlock, .call f_Casper_BestChain, .call f_Chain_tryReorganize]]]]]),
  (f_Chain_reorganizeChain, [.alt [[], [.call f_Chain_setState, .alt [[], [.loop false [.call f_TxPool_RemoveTransaction], .loop false [.call f_Chain_ValidateTx]]]]]]),
  (f_Chain_saveBlock, [.alt [[], [.call f_Casper_ApplyBlock, .alt [[], [.call f_OrphanManage_Delete]]]]]),
  (f_Chain_saveSubBlock, [.call f_OrphanManage_GetPrevOrphans, .alt [[], [.loop false [.call f_OrphanManage_Get, .alt [[], [.call f_Chain_saveBlock, .alt [[.call f_OrphanManage_Delete], [.call f_Chain_saveSubBlock]]]]]]]]),
  -- casper.LastFinalized() (read lock of casper.mu) is called by the block processor here
  (f_Chain_setState, [.call f_Casper_LastFinalized, .alt [[], [.act (.lock m_Chain_cond_L), .act (.signal m_Chain_cond_L), .act (.unlock m_Chain_cond_L)]]]),
  (f_Chain_tryReorganize, [.alt [[], [.call f_Chain_reorganizeChain]]]),
  (f_OrphanManage_Add, crit m_OrphanManage_mtx),
  (f_OrphanManage_BlockExist, rcrit m_OrphanManage_mtx),
  (f_OrphanManage_Delete, crit m_OrphanManage_mtx),
  (f_OrphanManage_Get, rcrit m_OrphanManage_mtx),
  (f_OrphanManage_GetPrevOrphans, rcrit m_OrphanManage_mtx),
  (f_OrphanManage_orphanExpire, crit m_OrphanManage_mtx),
  (f_OrphanManage_orphanExpireWorker, [.loop true [.call f_OrphanManage_orphanExpire]]),
  (f_TxPool_AddErrCache, crit m_TxPool_mtx),
  (f_TxPool_ExpireOrphan, crit m_TxPool_mtx),
  (f_TxPool_GetErrCache, crit m_TxPool_mtx),
  (f_TxPool_GetTransaction, rcrit m_TxPool_mtx),
  (f_TxPool_GetTransactions, rcrit m_TxPool_mtx),
  (f_TxPool_HaveTransaction, [.call f_TxPool_IsTransactionInPool, .alt [[], [.call f_TxPool_IsTransactionInErrCache]]]),
  (f_TxPool_IsTransactionInErrCache, rcrit m_TxPool_mtx),
  (f_TxPool_IsTransactionInPool, rcrit m_TxPool_mtx),
  (f_TxPool_ProcessTransaction, [.alt [[], [.call f_TxPool_processTransaction]]]),
  (f_TxPool_RemoveTransaction, crit m_TxPool_mtx),
  (f_TxPool_orphanExpireWorker, [.loop true [.call f_TxPool_ExpireOrphan]]),
  (f_TxPool_processTransaction, crit m_TxPool_mtx),
  -- construction of the node: starts the two daemons (and the two expiry workers)
  (f_casper_NewCasper, [.go f_Casper_authVerificationLoop]),
  (f_protocol_NewChain, [.call f_protocol_NewOrphanManage, .call f_protocol_NewChainWithOrphanManage]),
  (f_protocol_NewChainWithOrphanManage, [.alt [[], [.call f_protocol_newCasper, .alt [[], [.call f_Casper_ApplyBlock, .go f_Chain_blockProcessor]]]]]),
  (f_protocol_NewOrphanManage, [.go f_OrphanManage_orphanExpireWorker]),
  (f_protocol_NewTxPool, [.go f_TxPool_orphanExpireWorker]),
  (f_protocol_newCasper, [.alt [[], [.call f_casper_NewCasper]]])]

/-- calls that are not followed (fields of the four objects with methods outside the two packages) -/
def externals : List String :=
  ["Casper: c.msgQueue", "Casper: c.prevCheckpointCache", "Casper: c.store", "Casper: c.verificationCache",
   "Chain: c.bestBlockHeader", "Chain: c.store", "TxPool: tp.errCache", "TxPool: tp.eventDispatcher", "TxPool: tp.store"]

def lookupD {α : Type} (l : List (Nat × α)) (d : α) (k : Nat) : α := (l.lookup k).getD d

/-- levels: 1 = the cached-vote loop, 2 = the block processor, 3 = every other goroutine -/
def levelLoop : Nat := 1
def levelBP : Nat := 2
def levelClient : Nat := 3

/-- the node's system: skeleton, capacities as extracted, the two daemons -/
def sysOf (body : List (Fn × List Stmt)) : Sys :=
  { body := body
    cap := lookupD (chans.map (fun c => (c.1, c.2.2.1))) 0
    replyOf := lookupD (chans.map (fun c => (c.1, c.2.2.2))) none
    rcap := lookupD (replies.map (fun r => (r.1, r.2.2))) 0
    daemons := [(f_Chain_blockProcessor, levelBP), (f_Casper_authVerificationLoop, levelLoop)] }

def sys : Sys := sysOf skeleton

/-- the discipline the node's skeleton obeys: who serves which channel, the (trivial) lock order,
    the one function that is entered with a mutex held, the lowest level of each function -/
def ann : Ann :=
  { lvl := lookupD [(ch_Casper_newEpochCh, levelLoop), (ch_Casper_rollbackCh, levelBP), (ch_Chain_processBlockCh, levelBP)] 0
    srv := lookupD [(ch_Casper_newEpochCh, 1), (ch_Casper_rollbackCh, 0), (ch_Chain_processBlockCh, 0)] 99
    rank := id
    maxRank := 3
    pre := lookupD [(f_Casper_tryRollback, [(m_Casper_mu, Mode.W)])] []
    flvl := lookupD [
      -- sends to newEpochCh (served at level 1): level 2 and up
      (f_Casper_ApplyBlock, 2), (f_Chain_saveBlock, 2), (f_Chain_saveSubBlock, 2), (f_Chain_processBlock, 2),
      -- requests to the block processor (level 2): clients only
      (f_Casper_tryRollback, 3), (f_Casper_AuthVerification, 3), (f_Chain_ProcessBlockVerification, 3), (f_Chain_ProcessBlock, 3),
      -- daemons' bodies and the construction code are not callable
      (f_Chain_blockProcessor, 4), (f_Casper_authVerificationLoop, 4), (f_casper_NewCasper, 4), (f_protocol_NewChain, 4),
      (f_protocol_NewChainWithOrphanManage, 4), (f_protocol_newCasper, 4)] 1
    top := levelClient }

end BytomModel.SyncSkel
