/-
M-Net `DHT` — model of the Kademlia routing table of `p2p/discover/dht/table.go`
(core Lean only).

Nodes are abstract ids (`Nat`; Go compares `Node.ID`).  The bucket a node is filed under,
`logdist(tab.self.sha, n.sha)`, is a parameter function `dist : Nat → Nat` of the id
(`sha` is a function of the id: `NewNode` sets `sha = Sha256(id)`).  `entries` and
`replacements` are the Go slices, most recently active entry first.  The model mirrors
the code AS IT IS: `add` (free slot) and `stuff` take the node out of `replacements`
(`deleteFromReplacement`, fix 2cde86cd) before inserting it into `entries`; `delete` of an
entry leaves `replacements` alone.
-/
namespace BytomModel.Model.DHT

def bucketSize : Nat := 16
def nBuckets : Nat := 257

structure Bucket where
  entries : List Nat := []
  replacements : List Nat := []
deriving DecidableEq, Repr

structure Table where
  self : Nat
  count : Int := 0
  buckets : Nat → Bucket := fun _ => {}

/-- write bucket `i` back and add `δ` to `tab.count` (the `tab.count++` / `tab.count--` of the code) -/
def Table.put (t : Table) (i : Nat) (b : Bucket) (δ : Int) : Table :=
  { t with buckets := fun j => if j = i then b else t.buckets j, count := t.count + δ }

/-- `bucket.bump`: when the node is present, its FIRST occurrence moves to the front -/
def bump (b : Bucket) (n : Nat) : Bucket × Bool :=
  if n ∈ b.entries then ({ b with entries := n :: b.entries.erase n }, true) else (b, false)

/-- `deleteFromReplacement`: every occurrence leaves the replacement list -/
def delRepl (b : Bucket) (n : Nat) : Bucket :=
  { b with replacements := b.replacements.filter (· ≠ n) }

/-- body of `Table.add` on the node's bucket: new bucket, change of `tab.count`, contested node -/
def addB (b : Bucket) (n : Nat) : Bucket × Int × Option Nat :=
  if n ∈ b.entries then ((bump b n).1, 0, none)
  else if b.entries.length < bucketSize then
    ({ entries := n :: b.entries, replacements := b.replacements.filter (· ≠ n) }, 1, none)
  else
    let r := (b.replacements.filter (· ≠ n)) ++ [n]
    let r := if r.length > bucketSize then r.tail else r
    ({ b with replacements := r }, 0, b.entries.getLast?)

/-- `Table.add`; the second component is the contested node (`nil` = none) -/
def add (dist : Nat → Nat) (t : Table) (n : Nat) : Table × Option Nat :=
  if n = t.self then (t, none)
  else
    let r := addB (t.buckets (dist n)) n
    (t.put (dist n) r.1 r.2.1, r.2.2)

/-- one iteration of the `stuff` loop on the node's bucket -/
def stuffB (b : Bucket) (n : Nat) : Bucket × Int :=
  if n ∈ b.entries then (b, 0)
  else if b.entries.length < bucketSize then
    ({ entries := b.entries ++ [n], replacements := b.replacements.filter (· ≠ n) }, 1)
  else (b, 0)

def stuff1 (dist : Nat → Nat) (t : Table) (n : Nat) : Table :=
  if n = t.self then t
  else
    let r := stuffB (t.buckets (dist n)) n
    t.put (dist n) r.1 r.2

def stuff (dist : Nat → Nat) (t : Table) (ns : List Nat) : Table := ns.foldl (stuff1 dist) t

/-- `Table.delete` on the node's bucket -/
def deleteB (b : Bucket) (n : Nat) : Bucket × Int :=
  if n ∈ b.entries then ({ b with entries := b.entries.erase n }, -1)
  else (delRepl b n, 0)

def delete (dist : Nat → Nat) (t : Table) (n : Nat) : Table :=
  let r := deleteB (t.buckets (dist n)) n
  t.put (dist n) r.1 r.2

/-- `Table.deleteReplace` on the node's bucket: every occurrence leaves `entries`
    (`tab.count--` each), then the last replacement is promoted if there is room -/
def deleteReplaceB (b : Bucket) (n : Nat) : Bucket × Int :=
  let e := b.entries.filter (· ≠ n)
  let removed : Int := ((b.entries.length - e.length : Nat) : Int)
  let r := b.replacements.filter (· ≠ n)
  match r.getLast? with
  | some last =>
    if e.length < bucketSize then ({ entries := last :: e, replacements := r.dropLast }, -removed + 1)
    else ({ entries := e, replacements := r }, -removed)
  | none => ({ entries := e, replacements := r }, -removed)

def deleteReplace (dist : Nat → Nat) (t : Table) (n : Nat) : Table :=
  let r := deleteReplaceB (t.buckets (dist n)) n
  t.put (dist n) r.1 r.2

/-- `bucket.bump` on the node's bucket (the hook's `Bump`) -/
def bumpOp (dist : Nat → Nat) (t : Table) (n : Nat) : Table × Bool :=
  let r := bump (t.buckets (dist n)) n
  (t.put (dist n) r.1 0, r.2)

inductive Op where
  | add (n : Nat)
  | stuff (ns : List Nat)
  | delete (n : Nat)
  | deleteReplace (n : Nat)
  | bump (n : Nat)
deriving DecidableEq, Repr

def step (dist : Nat → Nat) (t : Table) : Op → Table
  | .add n => (add dist t n).1
  | .stuff ns => stuff dist t ns
  | .delete n => delete dist t n
  | .deleteReplace n => deleteReplace dist t n
  | .bump n => (bumpOp dist t n).1

def run (dist : Nat → Nat) (t : Table) (ops : List Op) : Table := ops.foldl (step dist) t

def empty (self : Nat) : Table := { self := self }

/-- Σ over the bucket array of `len(entries)` -/
def total (f : Nat → Bucket) : Nat → Nat
  | 0 => 0
  | k + 1 => total f k + (f k).entries.length

/-! ### the source shapes this model was written against (tied to the Go source by
    `Ties/C34`, regenerated facts in `Gen/DhtFacts.lean`) -/
namespace Src
def bucketSize : Nat := 16
def nBuckets : Nat := 257
def addSha : String := "1caa8cc6779ca0d208283269d69ae372c2bb8d256887f751d9b3f9cc100b9641"
def addCalls : List String := ["logdist", "b.bump", "len", "tab.deleteFromReplacement", "b.addFront", "tab.nodeAddedHook", "tab.deleteFromReplacement", "append", "len", "copy", "len", "len"]
def addIfs : List String := ["n.ID == tab.self.ID", "tab.nodeAddedHook != nil", "len(b.replacements) > bucketSize"]
def stuffSha : String := "10bc89352b72c873878b07b6114af94b54b417bfb0ea31eaaf11bb6d7cf68b1a"
def stuffCalls : List String := ["logdist", "len", "tab.deleteFromReplacement", "append", "tab.nodeAddedHook"]
def stuffIfs : List String := ["n.ID == tab.self.ID", "bucket.entries[i].ID == n.ID", "len(bucket.entries) < bucketSize", "tab.nodeAddedHook != nil"]
def deleteSha : String := "c5ca19a8e545dc12d8949b4703ab63682fa0fe304adf660ca4c84b5cc589030e"
def deleteCalls : List String := ["logdist", "append", "tab.deleteFromReplacement"]
def deleteIfs : List String := ["bucket.entries[i].ID == node.ID"]
def deleteReplaceSha : String := "c1df9a95815aa86da674f432a0dccbe3a2058e58957a325b473bc2cc7a18336d"
def deleteReplaceCalls : List String := ["logdist", "len", "append", "tab.deleteFromReplacement", "len", "len", "len", "b.addFront"]
def deleteReplaceIfs : List String := ["b.entries[i].ID == node.ID", "len(b.entries) < bucketSize && len(b.replacements) > 0"]
def deleteFromReplacementSha : String := "ce0441c2dc292843bc02ddb466a077ae8bdade26fb1e4333bdafed2d1d089fc0"
def deleteFromReplacementCalls : List String := ["len", "append"]
def deleteFromReplacementIfs : List String := ["bucket.replacements[i].ID == node.ID"]
def addFrontSha : String := "1343bb9a777e59f4e8ba49525be5d26000a0d329a7dcc0c993dc9cebdb08e737"
def addFrontCalls : List String := ["append", "copy"]
def addFrontIfs : List String := []
def bumpSha : String := "fc13e02733a011f0ed9ce53283196ca9ca851b64318b4f0da2ffce2e6143a55e"
def bumpCalls : List String := ["copy"]
def bumpIfs : List String := ["b.entries[i].ID == n.ID"]
def addCaseBump : String := "b.bump(n)"
def addCaseBumpCalls : List String := []
def addCaseFree : String := "len(b.entries) < bucketSize"
def addCaseFreeCalls : List String := ["tab.deleteFromReplacement", "b.addFront", "tab.nodeAddedHook"]
def addCaseFull : String := "default"
def addCaseFullCalls : List String := ["tab.deleteFromReplacement", "append", "len", "copy", "len", "len"]
end Src

end BytomModel.Model.DHT
