/-
M-Wallet / utxo — executable model of `wallet/utxo.go` (attachUtxos, detachUtxos,
txOutToUtxos, txInToUtxos, filterAccountUtxo, batchSaveUtxos) and of the status bookkeeping
of `wallet/wallet.go` (AttachBlock's previous-hash guard, DetachBlock), as the code IS.

* Outputs, programs, assets, votes, accounts are small naturals chosen by the harness; an
  output id determines its content (hash commitment) — the harness guarantees it, the
  theorems state what they need of it as hypotheses.
* `detachUtxos` looks results up with `tx.OriginalOutput` only: vote outputs are never
  deleted on detach (F14).
* `txInToUtxos` restores inputs with `ValidHeight 0` (F15).
* `gKind`/`gHeight` are GHOST fields (not in Go's account.UTXO): the consensus UtxoEntry
  type (0 normal, 1 coinbase, 2 vote) and creation height of the output, carried so C25 can
  be stated; they never influence a non-ghost field.
Core Lean only.
-/
namespace BytomModel.Model.Wallet

structure Out where
  id : Nat
  /-- 0 = OriginalOutput, 1 = VoteOutput, anything else = Retirement -/
  kind : Nat
  /-- 0 = BTM -/
  asset : Nat
  amount : Nat
  prog : Nat
  vote : Nat
deriving DecidableEq, Repr, Inhabited

structure In where
  /-- 0 = Spend (of an OriginalOutput), 1 = VetoInput (of a VoteOutput), else coinbase/issuance -/
  kind : Nat
  /-- the spent output entry carried inside the transaction -/
  spent : Out
  /-- ghost: consensus type and creation height of the spent output -/
  gKind : Nat
  gHeight : Nat
deriving DecidableEq, Repr, Inhabited

structure Tx where
  /-- `tx.Inputs[0].InputType() == CoinbaseInputType` -/
  coinbase : Bool
  ins : List In
  outs : List Out
deriving DecidableEq, Repr, Inhabited

structure Block where
  id : Nat
  parent : Nat
  height : Nat
  txs : List Tx
deriving DecidableEq, Repr, Inhabited

structure Utxo where
  id : Nat
  asset : Nat
  amount : Nat
  prog : Nat
  vote : Nat
  account : Nat
  validHeight : Nat
  gKind : Nat
  gHeight : Nat
deriving DecidableEq, Repr, Inhabited

/-- what the wallet knows about programs and what consensus fixes -/
structure Params where
  /-- `segwit.IsP2WScript` -/
  p2w : Nat → Bool
  /-- account owning the program (`ContractKey` record in the wallet DB); 0 = none -/
  owner : Nat → Nat
  /-- `consensus.CoinbasePendingBlockNumber` -/
  cbPending : Nat
  /-- `consensus.VotePendingBlockNums` -/
  pending : Nat → Nat

/-- `consensus.VotePendingBlockNums` over a table of (BeginBlock, EndBlock, Num) rows -/
def pendingOfTable (tbl : List (Nat × Nat × Nat)) (dflt : Nat) (h : Nat) : Nat :=
  match tbl.find? (fun t => decide (t.1 ≤ h) && decide (h < t.2.1)) with
  | some t => t.2.2
  | none => dflt

abbrev DB := List Utxo

def dbGet (id : Nat) (db : DB) : Option Utxo := db.find? (fun u => u.id == id)
def dbDel (id : Nat) (db : DB) : DB := db.filter (fun u => u.id != id)
def dbPut (u : Utxo) (db : DB) : DB := u :: dbDel u.id db

inductive DbOp
  | del (id : Nat)
  | put (u : Utxo)
deriving Repr

def applyOp (db : DB) : DbOp → DB
  | .del id => dbDel id db
  | .put u => dbPut u db

def applyOps (ops : List DbOp) (db : DB) : DB := ops.foldl applyOp db

/-- one element of `txInToUtxos` (ValidHeight 0; veto inputs only for BTM) -/
def inUtxo (i : In) : Option Utxo :=
  if i.kind == 0 then
    some ⟨i.spent.id, i.spent.asset, i.spent.amount, i.spent.prog, 0, 0, 0, i.gKind, i.gHeight⟩
  else if i.kind == 1 then
    if i.spent.asset == 0 then
      some ⟨i.spent.id, i.spent.asset, i.spent.amount, i.spent.prog, i.spent.vote, 0, 0, i.gKind, i.gHeight⟩
    else none
  else none

/-- one element of `txOutToUtxos` -/
def outUtxo (P : Params) (coinbase : Bool) (h : Nat) (o : Out) : Option Utxo :=
  if o.kind == 0 then
    if o.amount == 0 then none
    else some ⟨o.id, o.asset, o.amount, o.prog, 0, 0, if coinbase then h + P.cbPending else 0,
               if coinbase then 1 else 0, h⟩
  else if o.kind == 1 then
    some ⟨o.id, o.asset, o.amount, o.prog, o.vote, 0, h + P.pending h, if coinbase then 1 else 2, h⟩
  else none

/-- `filterAccountUtxo` on one utxo -/
def owned (P : Params) (u : Utxo) : Option Utxo :=
  if P.p2w u.prog && P.owner u.prog != 0 then some { u with account := P.owner u.prog } else none

def attachOps (P : Params) (h : Nat) (t : Tx) : List DbOp :=
  (t.ins.filterMap inUtxo).filterMap (fun u => if P.p2w u.prog then some (DbOp.del u.id) else none)
  ++ ((t.outs.filterMap (outUtxo P t.coinbase h)).filterMap (owned P)).map DbOp.put

def detachOps (P : Params) (t : Tx) : List DbOp :=
  t.outs.filterMap (fun o => if o.kind == 0 && P.p2w o.prog then some (DbOp.del o.id) else none)
  ++ ((t.ins.filterMap inUtxo).filterMap (owned P)).map DbOp.put

def attachTx (P : Params) (h : Nat) (db : DB) (t : Tx) : DB := applyOps (attachOps P h t) db
def detachTx (P : Params) (db : DB) (t : Tx) : DB := applyOps (detachOps P t) db

/-- `attachUtxos` -/
def attach (P : Params) (b : Block) (db : DB) : DB := b.txs.foldl (attachTx P b.height) db
/-- `detachUtxos` (transactions in reverse order) -/
def detach (P : Params) (b : Block) (db : DB) : DB := b.txs.reverse.foldl (detachTx P) db

/-- scanning a chain (newest block first) from an empty wallet -/
def rescan (P : Params) : List Block → DB
  | [] => []
  | b :: rest => attach P b (rescan P rest)

/-! ### wallet status (wallet.go) -/

structure Status where
  workHeight : Nat
  work : Nat      -- block id of WorkHash, 0 = zero hash
  bestHeight : Nat
  best : Nat
deriving DecidableEq, Repr, Inhabited

structure Wallet where
  st : Status
  db : DB
deriving Repr, Inhabited

def Wallet.empty : Wallet := ⟨⟨0, 0, 0, 0⟩, []⟩

/-- `AttachBlock`: skipped silently when the block does not extend WorkHash -/
def attachBlock (P : Params) (w : Wallet) (b : Block) : Wallet :=
  if b.parent != w.st.work then w
  else
    let st1 : Status := { w.st with workHeight := b.height, work := b.id }
    let st2 : Status := if st1.workHeight ≥ st1.bestHeight then { st1 with bestHeight := st1.workHeight, best := st1.work } else st1
    ⟨st2, attach P b w.db⟩

/-- `DetachBlock` (no guard at all) -/
def detachBlock (P : Params) (w : Wallet) (b : Block) : Wallet :=
  let st1 : Status := { w.st with bestHeight := b.height - 1, best := b.parent }
  let st2 : Status := if st1.workHeight > st1.bestHeight then { st1 with workHeight := st1.bestHeight, work := st1.best } else st1
  ⟨st2, detach P b w.db⟩

/-! ### consensus side (protocol/state/utxo_view.go applySpendUtxo) -/

/-- may an unspent entry of type `kind` created at `created` be spent in a block at `h`? -/
def spendableAt (P : Params) (kind created h : Nat) : Bool :=
  if kind == 1 then decide (created + P.cbPending ≤ h)
  else if kind == 2 then decide (created + P.pending h ≤ h)
  else true

/-- `utxoKeeper`'s maturity filter: reported usable at current height `H` -/
def usable (u : Utxo) (H : Nat) : Bool := decide (u.validHeight ≤ H)


/-! ### wallet-side reading of "the block is valid on this chain" (hypotheses of C24) -/

/-- C24 compares everything except `ValidHeight` (that is C25) -/
def core (u : Utxo) : Utxo := { u with validHeight := 0 }

/-- the transaction is valid on a chain whose wallet image is `db`: (a) its output ids are
    fresh; (c) every input the wallet would restore on detach is a wallet UTXO with the same
    content, and spent P2W outputs the wallet does not own are not wallet UTXOs. This is the
    wallet projection of consensus validity (inputs are unspent outputs of the chain) plus
    "an output id determines its content". -/
def validTxB (P : Params) (t : Tx) (db : DB) : Bool :=
  t.outs.all (fun o => (dbGet o.id db).isNone) &&
  t.ins.all (fun i => match inUtxo i with
    | none => true
    | some u => match owned P u with
      | some u' => (dbGet u.id db).map core == some (core u')
      | none => !P.p2w u.prog || (dbGet u.id db).isNone)

/-- no vote output of the transaction pays to a wallet program (excludes F14) -/
def noOwnedVoteB (P : Params) (t : Tx) : Bool :=
  t.outs.all (fun o => !(o.kind == 1 && P.p2w o.prog && P.owner o.prog != 0))

/-- transactions of a block are valid one after the other -/
def validTxsB (P : Params) (h : Nat) : List Tx → DB → Bool
  | [], _ => true
  | t :: rest, db => validTxB P t db && validTxsB P h rest (attachTx P h db t)

def validBlockB (P : Params) (b : Block) (db : DB) : Bool := validTxsB P b.height b.txs db
def noOwnedVoteBlockB (P : Params) (b : Block) : Bool := b.txs.all (noOwnedVoteB P)


/-! ### validity with respect to the GLOBAL unspent-output set (wallet independent) -/

/-- the observer that owns every program: its table is the consensus UTXO set (original
    non-zero and vote outputs created and not yet spent), given consensus' rules that vote
    outputs are BTM and non-zero -/
def allOf (P : Params) : Params := { P with p2w := fun _ => true, owner := fun _ => 1 }

def distinctB : List Nat → Bool
  | [] => true
  | x :: rest => !rest.contains x && distinctB rest

/-- the transaction spends only outputs of the global set `L` (with the content it claims),
    creates fresh output ids, and its output ids are pairwise distinct -/
def gvalidTxB (P : Params) (t : Tx) (L : DB) : Bool :=
  validTxB (allOf P) t L && distinctB (t.outs.map (·.id))

def gvalidTxsB (P : Params) (h : Nat) : List Tx → DB → Bool
  | [], _ => true
  | t :: rest, L => gvalidTxB P t L && gvalidTxsB P h rest (attachTx (allOf P) h L t)

def gvalidBlockB (P : Params) (b : Block) (L : DB) : Bool := gvalidTxsB P b.height b.txs L

end BytomModel.Model.Wallet
