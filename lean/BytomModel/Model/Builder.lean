/-
M-Wallet / builder — executable model of the transaction builder's arithmetic as the code IS:
`account.MergeSpendAction`, `spendAction.Build` (account/builder.go) on top of the keeper's
`Reserve`, `controlAddressAction/controlProgramAction/retireAction.Build`
(blockchain/txbuilder/actions.go), `txbuilder.Build` (all actions are run, errors collected,
rollback cancels every reservation made) and `TemplateBuilder.Build` + `TxData.Fee`.
Programs, signatures and the VM are not modelled here (C02/C28); validity of the built
transaction is checked on the real code by the harness (`validation.ValidateTx`).
Core Lean only.
-/
import BytomModel.Model.Keeper
namespace BytomModel.Model.Builder
open BytomModel.Model.Keeper

/-- asset code of BTM in the op stream -/
def btm : Nat := 0
def maxInt64 : Nat := 9223372036854775807

inductive Action
  | spend (acct asset amount : Nat) (useUnc : Bool)
  /-- control_address / control_program: pay `amount` of `asset` to program `prog` -/
  | control (asset amount prog : Nat)
  | retire (asset amount : Nat)
deriving DecidableEq, Repr

inductive OutKind | recv | change | retire
deriving DecidableEq, Repr

structure TOut where
  kind : OutKind
  asset : Nat
  amount : Nat
  prog : Nat
deriving DecidableEq, Repr

inductive BErr
  | missing
  | reserve (e : Err)
  | badAmount
  | panic
deriving DecidableEq, Repr

structure Builder where
  ins : List Utxo
  outs : List TOut
  /-- reservations to cancel on rollback, in registration order -/
  rids : List Nat
deriving Repr

structure Tpl where
  ins : List Utxo
  outs : List TOut
  fee : Nat
deriving Repr, DecidableEq

/-- `MergeSpendAction`: spends of the same (asset, account) are added into the first one -/
def mergeInto (acct asset amount : Nat) (useUnc : Bool) : List Action → Option (List Action)
  | [] => none
  | .spend a s m u :: rest =>
    if a == acct && s == asset then some (.spend a s (m + amount) (u || useUnc) :: rest)
    else (mergeInto acct asset amount useUnc rest).map (Action.spend a s m u :: ·)
  | x :: rest => (mergeInto acct asset amount useUnc rest).map (x :: ·)

def mergeStep (acc : List Action) (a : Action) : List Action :=
  match a with
  | .spend ac s m u => match mergeInto ac s m u acc with
    | some acc' => acc'
    | none => acc ++ [a]
  | _ => acc ++ [a]

def mergeSpends (actions : List Action) : List Action := actions.foldl mergeStep []

def ofAssetIn (asset : Nat) (l : List Utxo) : Nat := amounts (l.filter (fun u => u.asset == asset))
def ofAssetOut (asset : Nat) (l : List TOut) : Nat := ((l.filter (fun o => o.asset == asset)).map (·.amount)).sum

/-- one action; `none` error = success -/
def buildAction (sortFn : List Utxo → List Utxo) (exp : Nat) (s : Keeper × Builder) : Action → (Keeper × Builder) × Option BErr
  | .spend acct asset amount useUnc =>
    if amount == 0 then (s, some .missing)
    else match reserveWith sortFn s.1 acct asset amount useUnc 0 exp with
      | (.panic, k') => ((k', s.2), some .panic)
      | (.err e, k') => ((k', s.2), some (.reserve e))
      | (.ok r, k') =>
        let b1 : Builder := { s.2 with rids := s.2.rids ++ [r.id] }
        -- AddInput per reserved utxo; an amount above 2^63-1 aborts the action there
        let good := r.utxos.takeWhile (fun u => decide (u.amount ≤ maxInt64))
        if good.length < r.utxos.length then ((k', { b1 with ins := b1.ins ++ good }), some .badAmount)
        else
          let b2 : Builder := { b1 with ins := b1.ins ++ r.utxos }
          if r.change > 0 then
            match r.utxos with
            | [] => ((k', b2), some .panic)
            | u0 :: _ =>
              if r.change > maxInt64 then ((k', b2), some .badAmount)
              else ((k', { b2 with outs := b2.outs ++ [⟨.change, asset, r.change, u0.prog⟩] }), none)
          else ((k', b2), none)
  | .control asset amount prog =>
    if amount == 0 || prog == 0 then (s, some .missing)
    else if amount > maxInt64 then (s, some .badAmount)
    else ((s.1, { s.2 with outs := s.2.outs ++ [⟨.recv, asset, amount, prog⟩] }), none)
  | .retire asset amount =>
    if amount == 0 then (s, some .missing)
    else if amount > maxInt64 then (s, some .badAmount)
    else ((s.1, { s.2 with outs := s.2.outs ++ [⟨.retire, asset, amount, 0⟩] }), none)

/-- run every action (errors do not stop the loop), collecting (index, error) -/
def runActions (sortFn : List Utxo → List Utxo) (exp : Nat) : List Action → Nat → Keeper × Builder → (Keeper × Builder) × List (Nat × BErr)
  | [], _, s => (s, [])
  | a :: rest, i, s =>
    let (s1, e) := buildAction sortFn exp s a
    let (s2, es) := runActions sortFn exp rest (i + 1) s1
    (s2, match e with | some e => (i, e) :: es | none => es)

def fee (ins : List Utxo) (outs : List TOut) : Nat :=
  if ofAssetIn btm ins > ofAssetOut btm outs then ofAssetIn btm ins - ofAssetOut btm outs else 0

/-- `txbuilder.Build` -/
def buildWith (sortFn : List Utxo → List Utxo) (k : Keeper) (exp : Nat) (actions : List Action) :
    Except (List (Nat × BErr)) Tpl × Keeper :=
  let ((k1, b), errs) := runActions sortFn exp actions 0 (k, ⟨[], [], []⟩)
  if errs.isEmpty then (.ok ⟨b.ins, b.outs, fee b.ins b.outs⟩, k1)
  else (.error errs, b.rids.foldl cancel k1)

def build := buildWith sortDesc


/-! ### the balance part of `validation.ValidateTx` (protocol/validation/tx.go: checkDoubleSpend,
    the `*bc.Mux` case of checkValid up to setGas) -/

inductive MuxErr
  | doubleSpend
  | overflow
  | noSource
  | unbalanced
  | gasNegative
deriving DecidableEq, Repr

def minInt64 : Int := -9223372036854775808

/-- `parity[asset] += amount` with the 2^63 check and checked.AddInt64 -/
def addSrc (p : Nat → Option Int) (s : Nat × Nat) : Except MuxErr (Nat → Option Int) :=
  if s.2 > maxInt64 then .error .overflow
  else
    let cur := (p s.1).getD 0
    if cur + (s.2 : Int) > (maxInt64 : Int) then .error .overflow
    else .ok (fun a => if a = s.1 then some (cur + (s.2 : Int)) else p a)

/-- `parity[asset] -= amount`: the asset must have a source -/
def subDst (p : Nat → Option Int) (d : Nat × Nat) : Except MuxErr (Nat → Option Int) :=
  match p d.1 with
  | none => .error .noSource
  | some sum =>
    if d.2 > maxInt64 then .error .overflow
    else if sum - (d.2 : Int) < minInt64 then .error .overflow
    else .ok (fun a => if a = d.1 then some (sum - (d.2 : Int)) else p a)

def foldE {σ α : Type} (f : σ → α → Except MuxErr σ) : List α → σ → Except MuxErr σ
  | [], s => .ok s
  | x :: rest, s => match f s x with
    | .ok s' => foldE f rest s'
    | .error e => .error e

/-- result: the BTM value handed to `setGas` -/
def muxCheck (inIds : List Nat) (srcs dsts : List (Nat × Nat)) : Except MuxErr Int :=
  if !(distinctIds inIds) then .error .doubleSpend
  else match foldE addSrc srcs (fun _ => none) with
    | .error e => .error e
    | .ok p1 => match foldE subDst dsts p1 with
      | .error e => .error e
      | .ok p2 =>
        if (srcs.map (·.1)).any (fun a => a != btm && p2 a != some 0) then .error .unbalanced
        else match p2 btm with
          | some v => if v < 0 then .error .gasNegative else .ok v
          | none => .ok 0
where distinctIds : List Nat → Bool
  | [] => true
  | x :: rest => !rest.contains x && distinctIds rest

def tplCheck (t : Tpl) : Except MuxErr Int :=
  muxCheck (t.ins.map (·.id)) (t.ins.map fun u => (u.asset, u.amount)) (t.outs.map fun o => (o.asset, o.amount))


/-! ### witness materialization (blockchain/txbuilder: SignatureWitness.materialize and
    RawTxSigWitness.materialize share this loop) -/

/-- `Sigs` is indexed by KEY POSITION (slot i belongs to key i, empty = that key has not signed).
    The loop `for i := 0; i < len(Sigs) && nsigs < Quorum; i++ { if len(Sigs[i]) > 0 { append; nsigs++ } }`
    takes the first `quorum` NON-EMPTY slots, in key order. -/
def materializeSigs : Nat → List (List UInt8) → List (List UInt8)
  | 0, _ => []
  | _ + 1, [] => []
  | q + 1, s :: rest => if s.isEmpty then materializeSigs (q + 1) rest else s :: materializeSigs q rest

/-- `signedCount` / `SignProgress`: the number of non-empty slots reaches the quorum -/
def signedCount (slots : List (List UInt8)) : Nat := (slots.filter (fun s => !s.isEmpty)).length

end BytomModel.Model.Builder
