/-
M-Pool — protocol/txpool.go AS IT IS, over a fixed confirmed-UTXO predicate, entered through
the skeleton of `Chain.ValidateTx` (protocol/tx.go): `HaveTransaction` guard, dust check,
[consensus validation assumed to pass], `TxPool.ProcessTransaction`.

Go maps are association lists with unique keys; wherever the Go code ranges over a map the
model uses list (insertion) order — the only place where that order can influence the result
is the order of several orphans waiting for the SAME output inside `processOrphans`
(i.e. orphans that double-spend one output).

`checkOrphanUtxos` returns the missing parent outputs (`requireParents`). Since ec6e367b each
pointer refers to its own copy of the spent output id (before, under go 1.16, `&hash` of the range
variable aliased one variable and every entry read the LAST spent id).

Core Lean only.
-/
namespace BytomModel.TxPool

abbrev Out := Nat

structure Tx where
  id : Nat
  /-- `tx.SpentOutputIDs` in order -/
  spent : List Out
  /-- `tx.ResultIds` in order; the flag says "is an OriginalOutput" (retirements and vote
      outputs are not) -/
  results : List (Out × Bool)
  /-- `TxPool.IsDust` -/
  dust : Bool
  deriving DecidableEq, Repr

structure Cfg where
  /-- confirmed outputs that `view.CanSpend` accepts -/
  conf : List Out
  maxPool : Nat
  maxOrphan : Nat
  deriving Repr

/-! association-list maps -/

def amGet {β : Type} : List (Nat × β) → Nat → Option β
  | [], _ => none
  | (k', v) :: l, k => if k' = k then some v else amGet l k

def amHas {β : Type} : List (Nat × β) → Nat → Bool
  | [], _ => false
  | (k', _) :: l, k => if k' = k then true else amHas l k

def amSet {β : Type} : List (Nat × β) → Nat → β → List (Nat × β)
  | [], k, v => [(k, v)]
  | (k', v') :: l, k, v => if k' = k then (k, v) :: l else (k', v') :: amSet l k v

/-- Go `delete(m, k)`: no entry with key `k` remains -/
def amDel {β : Type} : List (Nat × β) → Nat → List (Nat × β)
  | [], _ => []
  | (k', v') :: l, k => if k' = k then amDel l k else (k', v') :: amDel l k

structure Orphan where
  tx : Tx
  /-- logical time of (re-)insertion; `expiration = stamp + orphanTTL` -/
  stamp : Nat
  deriving DecidableEq, Repr

structure Pool where
  /-- `tp.pool` keyed by tx id -/
  pool : List (Nat × Tx)
  /-- `tp.utxo`: output id ↦ id of the pooled tx that created it -/
  utxo : List (Out × Nat)
  /-- `tp.orphans` keyed by tx id -/
  orphans : List (Nat × Orphan)
  /-- `tp.orphansByPrev`: output id ↦ (orphan id ↦ orphan) -/
  byPrev : List (Out × List (Nat × Tx))
  /-- `tp.errCache` (ids only; the 1000-entry LRU bound is not modelled) -/
  errs : List Nat
  deriving Repr

def Pool.empty : Pool := ⟨[], [], [], [], []⟩

/-- spent outputs that are neither confirmed-spendable nor created by a pooled tx -/
def missing (c : Cfg) (s : Pool) (tx : Tx) : List Out :=
  tx.spent.filter (fun o => !(c.conf.contains o) && !(amHas s.utxo o))

/-- `checkOrphanUtxos`: the missing parent outputs, in spending order (`hash := spentOutputID`
    gives every pointer its own variable) -/
def requireParents (c : Cfg) (s : Pool) (tx : Tx) : List Out := missing c s tx

/-- `addOrphan`; `false` = ErrPoolIsFull -/
def addOrphan (c : Cfg) (s : Pool) (tx : Tx) (now : Nat) (req : List Out) : Pool × Bool :=
  if s.orphans.length ≥ c.maxOrphan then (s, false)
  else
    let s1 := { s with orphans := amSet s.orphans tx.id ⟨tx, now⟩ }
    let bp := req.foldl (fun bp h =>
      match amGet bp h with
      | none => amSet bp h [(tx.id, tx)]
      | some m => amSet bp h (amSet m tx.id tx)) s1.byPrev
    ({ s1 with byPrev := bp }, true)

/-- `addTransaction`; `false` = ErrPoolIsFull -/
def addTransaction (c : Cfg) (s : Pool) (tx : Tx) : Pool × Bool :=
  if s.pool.length ≥ c.maxPool then (s, false)
  else
    let utxo := tx.results.foldl (fun u r => if r.2 then amSet u r.1 tx.id else u) s.utxo
    ({ s with pool := amSet s.pool tx.id tx, utxo := utxo }, true)

/-- `removeOrphan` -/
def removeOrphan (s : Pool) (id : Nat) : Pool :=
  match amGet s.orphans id with
  | none => s
  | some o =>
    let bp := o.tx.spent.foldl (fun bp sp =>
      match amGet bp sp with
      | none => bp
      | some m =>
        let m' := amDel m id
        if m'.isEmpty then amDel bp sp else amSet bp sp m') s.byPrev
    { s with byPrev := bp, orphans := amDel s.orphans id }

/-- the closure `addRely` inside `processOrphans` -/
def addRely (s : Pool) (q : List Tx) (tx : Tx) : Pool × List Tx :=
  tx.results.foldl (fun (sq : Pool × List Tx) r =>
    match amGet sq.1.byPrev r.1 with
    | none => sq
    | some m => ({ sq.1 with byPrev := amDel sq.1.byPrev r.1 }, sq.2 ++ m.map Prod.snd)) (s, q)

/-- the `for ; len(processOrphans) > 0; …` loop. `fuel` bounds the number of iterations; every
    queued element was taken out of `byPrev` and nothing is put back, so
    `entries byPrev + 1` (see `processOrphans`) always suffices. -/
def processLoop (c : Cfg) : Nat → Pool → List Tx → Pool
  | 0, s, _ => s
  | _, s, [] => s
  | f + 1, s, o :: q =>
    if (requireParents c s o).isEmpty then
      let sq := addRely s q o
      let s2 := removeOrphan sq.1 o.id
      let s3 := (addTransaction c s2 o).1      -- the error is dropped by the code
      processLoop c f s3 sq.2
    else processLoop c f s q

def entries : List (Out × List (Nat × Tx)) → Nat
  | [] => 0
  | e :: bp => e.2.length + entries bp

def processOrphans (c : Cfg) (s : Pool) (tx : Tx) : Pool :=
  let fuel := entries s.byPrev + 1
  let sq := addRely s [] tx
  processLoop c fuel sq.1 sq.2

inductive Ret where
  | have_ | dust | orphan | pooled | full
  deriving DecidableEq, Repr

/-- `TxPool.processTransaction` -/
def processTransaction (c : Cfg) (s : Pool) (tx : Tx) (now : Nat) : Pool × Ret :=
  let req := requireParents c s tx
  if !req.isEmpty then
    let r := addOrphan c s tx now req
    (r.1, if r.2 then .orphan else .full)
  else
    let r := addTransaction c s tx
    if r.2 then (processOrphans c r.1 tx, .pooled) else (r.1, .full)

/-- `Chain.ValidateTx` without the consensus validation step -/
def submit (c : Cfg) (s : Pool) (tx : Tx) (now : Nat) : Pool × Ret :=
  if amHas s.pool tx.id || s.errs.contains tx.id then (s, .have_)
  else if tx.dust then ({ s with errs := s.errs ++ [tx.id] }, .dust)
  else processTransaction c s tx now

/-- `RemoveTransaction` -/
def removeTransaction (s : Pool) (id : Nat) : Pool :=
  match amGet s.pool id with
  | none => s
  | some tx =>
    { s with utxo := tx.results.foldl (fun u r => amDel u r.1) s.utxo, pool := amDel s.pool id }

/-- `ExpireOrphan(now)` with `now` just after logical time `k`: every orphan (re-)inserted at
    or before `k` is removed -/
def expire (s : Pool) (k : Nat) : Pool :=
  (s.orphans.filter (fun e => e.2.stamp ≤ k)).foldl (fun s e => removeOrphan s e.1) s

inductive Op where
  | submit (tx : Tx)
  | remove (id : Nat)
  | expire (k : Nat)
  deriving Repr

/-- one operation at logical time `now` -/
def step (c : Cfg) (s : Pool) (now : Nat) : Op → Pool × Option Ret
  | .submit tx => let r := submit c s tx now; (r.1, some r.2)
  | .remove id => (removeTransaction s id, none)
  | .expire k => (expire s k, none)

/-- a whole history from the empty pool; logical time = position -/
def runFrom (c : Cfg) : Pool → Nat → List Op → Pool
  | s, _, [] => s
  | s, now, op :: ops => runFrom c (step c s now op).1 (now + 1) ops

def run (c : Cfg) (ops : List Op) : Pool := runFrom c Pool.empty 0 ops

end BytomModel.TxPool
