/-
M-Net `Sync` — model of `netsync/chainmgr/block_keeper.go: locateHeaders / locateBlocks`
(core Lean only).

The chain is the `Chain` interface as the two functions use it:
  `byHash   id`  = `GetHeaderByHash(&hash)`     (none: error "can't find")
  `byHeight h`   = `GetHeaderByHeight(h)`       (none: error)
  `inMain   id`  = `InMainChain(hash)`          = the header is known and the main-chain
                                                  entry at the header's height is this block
Block hashes are abstract ids (`Nat`), heights are `uint64` values kept as `Nat < 2^64`;
the one arithmetic expression of the loop, `next := index + skip + 1`, is evaluated modulo 2^64
exactly as Go evaluates it.  The model mirrors the code AS IT IS (first main-chain locator
entry wins; the loop stops at the stop header when `next` wrapped around — fix 78882ab0).
-/
namespace BytomModel.Model.Sync

structure Header where
  id : Nat
  height : Nat
deriving DecidableEq, Repr

structure Chain where
  byHash : Nat → Option Header
  byHeight : Nat → Option Header

/-- `InMainChain(hash)` -/
def inMain (c : Chain) (id : Nat) : Bool :=
  match c.byHash id with
  | none => false
  | some h =>
    match c.byHeight h.height with
    | none => false
    | some m => m.id == id

def two64 : Nat := 18446744073709551616

/-- Go `index + skip + 1` on `uint64` -/
def advance (index skip : Nat) : Nat := (index + skip + 1) % two64

/-- result of one call: Go `(headers, nil)` or `(_, err)` -/
inductive Outcome (α : Type) where
  | ok (items : List α)
  | err
deriving DecidableEq, Repr

/-- the locator scan: the FIRST locator entry that is known and on the main chain -/
def findStart (c : Chain) : List Nat → Option Header
  | [] => none
  | id :: rest =>
    match c.byHash id with
    | some h => if inMain c h.id then some h else findStart c rest
    | none => findStart c rest

/-- the `for num, index := 0, start.Height; num < maxNum-1; num++` loop; `fuel` is the
    number of iterations left.  `next := index + skip + 1` in `uint64`; the loop ends with the
    stop header when `next <= index` (the addition wrapped around) or `next >= stop.Height`.
    `none` = `GetHeaderByHeight` failed (the call returns the error). -/
def loop (c : Chain) (stop : Header) (skip : Nat) : (fuel : Nat) → (index : Nat) → Option (List Header)
  | 0, _ => some []
  | fuel + 1, index =>
    let next := advance index skip
    if next ≤ index ∨ next ≥ stop.height then some [stop]
    else match c.byHeight next with
      | none => none
      | some h =>
        match loop c stop skip fuel next with
        | none => none
        | some rest => some (h :: rest)

/-- Go `maxNum-1` on `uint64` -/
def iterations (maxNum : Nat) : Nat := (maxNum + two64 - 1) % two64

def locateHeaders (c : Chain) (locator : List Nat) (stop : Nat) (skip maxNum : Nat) : Outcome Header :=
  match c.byHeight 0 with
  | none => .err
  | some genesis =>
    let start := (findStart c locator).getD genesis
    match c.byHash stop with
    | none => .err
    | some sh =>
      if !inMain c stop || sh.height < start.height then .ok []
      else if sh.height == start.height then .ok [start]
      else match loop c sh skip (iterations maxNum) start.height with
        | none => .err
        | some rest => .ok (start :: rest)

def maxNumOfBlocksPerMsg : Nat := 64
def maxNumOfHeadersPerMsg : Nat := 1000

/-- the block-fetch loop of `locateBlocks`: `hasBlock` = `GetBlockByHash` succeeds;
    `timeoutAfter k` = `isTimeout()` answers true at its k-th call (counting from 0). -/
def fetchBlocks (hasBlock : Nat → Bool) (timeoutAfter : Nat) : List Header → Nat → Option (List Header)
  | [], _ => some []
  | h :: rest, k =>
    if !hasBlock h.id then none
    else if k ≥ timeoutAfter then some [h]
    else match fetchBlocks hasBlock timeoutAfter rest (k + 1) with
      | none => none
      | some r => some (h :: r)

def locateBlocks (c : Chain) (hasBlock : Nat → Bool) (locator : List Nat) (stop : Nat) (timeoutAfter : Nat) : Outcome Header :=
  match locateHeaders c locator stop 0 maxNumOfBlocksPerMsg with
  | .err => .err
  | .ok hs =>
    match fetchBlocks hasBlock timeoutAfter hs 0 with
    | none => .err
    | some bs => .ok bs

/-! ### the request handlers of `handle.go` (what the peer gets back)

`none` = nothing is sent (the handler logs and returns).  There is no `panic` outcome to
model on the code as it is: the handlers never index the located slice (tied:
`Src.handleGetBlocksMsgIndexing = []`) and return early on an error or an EMPTY result. -/

/-- `handleGetHeadersMsg`: `locateHeaders(…, maxNumOfHeadersPerMsg)`; an error or an empty
    result sends nothing, otherwise one headers message -/
def handleGetHeaders (c : Chain) (locator : List Nat) (stop skip : Nat) : Option (List Header) :=
  match locateHeaders c locator stop skip maxNumOfHeadersPerMsg with
  | .ok (x :: l) => some (x :: l)
  | _ => none

/-- `handleGetBlocksMsg`: `locateBlocks`; an error or an empty result sends nothing, otherwise
    one blocks message with the blocks that fit the size budget (`fits` = how many of the
    located blocks fit `MaxBlockchainResponseSize/2`; the message may hold zero blocks) -/
def handleGetBlocks (c : Chain) (hasBlock : Nat → Bool) (locator : List Nat) (stop : Nat) (timeoutAfter fits : Nat) :
    Option (List Header) :=
  match locateBlocks c hasBlock locator stop timeoutAfter with
  | .ok (x :: l) => some ((x :: l).take fits)
  | _ => none

/-- `handleGetBlockMsg` / `handleGetMerkleBlockMsg`: by height when `msg.Height != 0`, else by hash -/
def handleGetBlock (c : Chain) (hasBlock : Nat → Bool) (height id : Nat) : Option Header :=
  if height ≠ 0 then c.byHeight height
  else match c.byHash id with
    | some h => if hasBlock id then some h else none
    | none => none

/-! ### decidable readings of the property on one response (used by the search mode) -/

def heightsIncreasing : List Header → Bool
  | [] => true
  | [_] => true
  | a :: b :: rest => a.height < b.height && heightsIncreasing (b :: rest)

/-- chain described by association lists (what the driver builds from op lines) -/
def lookup (l : List (Nat × Nat)) (k : Nat) : Option Nat :=
  match l with
  | [] => none
  | (a, b) :: rest => if a == k then some b else lookup rest k

/-- `blocks`: id ↦ header height (later declarations shadow earlier ones are NOT allowed by
    the driver); `main`: height ↦ id -/
def chainOf (blocks main : List (Nat × Nat)) : Chain where
  byHash := fun id => (lookup blocks id).map (fun h => ⟨id, h⟩)
  byHeight := fun h => match lookup main h with
    | none => none
    | some id => (lookup blocks id).map (fun hh => ⟨id, hh⟩)

/-! ### the source shapes this model was written against (tied to the Go source by
    `Ties/C33`, regenerated facts in `Gen/SyncFacts.lean`) -/
namespace Src
def maxNumOfBlocksPerMsg : Nat := 64
def maxNumOfHeadersPerMsg : Nat := 1000
def locateHeadersSig : String := "func(locator []*bc.Hash, stopHash *bc.Hash, skip uint64, maxNum uint64) ([]*types.BlockHeader, error)"
def loopInit : String := "num, index := uint64(0), startHeader.Height"
def loopCond : String := "num < maxNum-1"
def loopPost : String := "num++"
def loopUpdate : String := "next := index + skip + 1"
def loopStopTest : String := "next <= index || next >= stopHeader.Height"
def locateHeadersIfs : List String := ["err != nil", "err == nil && bk.chain.InMainChain(header.Hash())", "err != nil", "!bk.chain.InMainChain(*stopHash) || stopHeader.Height < startHeader.Height", "stopHeader.Height == startHeader.Height", "next <= index || next >= stopHeader.Height", "err != nil"]
def locateHeadersSha : String := "972fd4fa134a52ab51a33833266e46a52cc4ae171749ebb867c5404326051935"
def locateBlocksCall : String := "bk.locateHeaders(locator, stopHash, 0, maxNumOfBlocksPerMsg)"
def locateBlocksSha : String := "417bc4f15d04b0c535b620d4cebe3930eb0396b6e5d27af5bb37e55e97b62519"
def handlerCalls : List String := ["m.blockKeeper.locateBlocks(msg.GetBlockLocator(), msg.GetStopHash(), isTimeout)", "m.blockKeeper.locateHeaders(msg.GetBlockLocator(), msg.GetStopHash(), msg.GetSkip(), maxNumOfHeadersPerMsg)"]
def handleGetBlocksMsgIfs : List String := ["err != nil || len(blocks) == 0", "err != nil", "totalSize+len(rawData) > msgs.MaxBlockchainResponseSize/2", "!ok", "err != nil"]
def handleGetBlocksMsgIndexing : List String := []
def handleGetBlocksMsgSha : String := "4ce8cd2e1959958055d24f5930ede7eaa618e12bc16f69b5e58ea817a6d72bc5"
def handleGetHeadersMsgIfs : List String := ["err != nil || len(headers) == 0", "!ok", "err != nil"]
def handleGetHeadersMsgIndexing : List String := []
def handleGetHeadersMsgSha : String := "56b539b6ca3bb334f5848cff9fc4eb360b0f669c304ab2f0f63009333f6a4d18"
def handleGetBlockMsgIfs : List String := ["msg.Height != 0", "err != nil", "!ok", "err != nil"]
def handleGetBlockMsgIndexing : List String := []
def handleGetBlockMsgSha : String := "02b57dd1bafb16c19c31e4d72d3b39f09d95a0280f20057377eb0e226c0cbb2f"
def handleGetMerkleBlockMsgIfs : List String := ["msg.Height != 0", "err != nil", "err != nil", "!ok"]
def handleGetMerkleBlockMsgIndexing : List String := []
def handleGetMerkleBlockMsgSha : String := "a75864481614e9584a381b40f760d59def13c73a928cfed6723c1e8f6ed95ebe"
end Src

end BytomModel.Model.Sync
