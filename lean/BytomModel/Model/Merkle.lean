/-
M-Merkle — model of `protocol/bc/types/merkle.go` (core Lean only).

The hash functions are a parameter (`HashFns`): `leafH x` is `sha3(0x00 ‖ x)`,
`nodeH a b` is `sha3(0x01 ‖ a ‖ b)`, `emptyH` is `bc.EmptyStringHash = sha3("")`.
The driver instantiates them with the executable SHA3-256; the theorems take them
abstractly with injectivity / domain-separation hypotheses.

Go → model:
* `merkleRoot`            → `merkleRoot`      (recursion on the split at `prevPowerOfTwo`)
* `buildMerkleTree`       → `build`           (`none` = Go's `nil`)
* `(*merkleTreeNode).getMerkleTreeProof` → `MTree.proof`
* `getMerkleTreeProof` / `GetTxMerkleTreeProof` → `getProof`
* `getMerkleRootByProof`  → `rootByProofF`    (the three `container/list`s are threaded as state)
* `validateMerkleTreeProof` / `ValidateTxMerkleTreeProof` → `validate`
* `prevPowerOfTwo`        → `prevPowerOfTwo`  (`Nat`; the Go code goes through `float64`/`math.Log2`,
                                               compared by the harness on every run)
Flags are `uint8` in Go and `Nat` here (a superset: theorems hold for every `Nat` flag).
Recursion that Go does on slices/lists is done with fuel (= length, which always suffices:
`merkleRootF_fuel`, `rootByProofF` is called with `flags.length + 1`).
-/
namespace BytomModel.Merkle

structure HashFns (ι α : Type) where
  emptyH : α
  leafH : ι → α
  nodeH : α → α → α

def flagAssist : Nat := 0
def flagTxParent : Nat := 1
def flagTxLeaf : Nat := 2

/-- `leafPrefix = []byte{0x00}`, `interiorPrefix = []byte{0x01}` (used by the driver's hash instance) -/
def leafPrefix : List Nat := [0x00]
def interiorPrefix : List Nat := [0x01]

/-- `prevPowerOfTwo`: `n&(n-1)==0` (zero or a power of two) → `n/2`; otherwise
    `1 << uint(math.Log2(float64(n)))`. -/
def prevPowerOfTwo (n : Nat) : Nat :=
  if n &&& (n - 1) = 0 then n / 2 else 2 ^ Nat.log2 n

/-- `merkleTreeNode`: leaves have `left == nil && right == nil`; interior nodes are only ever
    created with two non-nil children. -/
inductive MTree (α : Type) where
  | leaf (h : α)
  | node (h : α) (l r : MTree α)
  deriving Repr

namespace MTree
variable {α : Type}
def hash : MTree α → α
  | leaf h => h
  | node h _ _ => h

/-- hashes at the leaves, left to right -/
def leaves : MTree α → List α
  | leaf h => [h]
  | node _ l r => l.leaves ++ r.leaves
end MTree

section
variable {ι α : Type} (H : HashFns ι α)

def merkleRootF : Nat → List ι → α
  | _, [] => H.emptyH
  | _, [x] => H.leafH x
  | 0, _ :: _ :: _ => H.emptyH            -- out of fuel: unreachable with fuel = length
  | f + 1, x :: y :: r =>
    let l := x :: y :: r
    let k := prevPowerOfTwo l.length
    H.nodeH (merkleRootF f (l.take k)) (merkleRootF f (l.drop k))

/-- `merkleRoot` / `TxMerkleRoot` -/
def merkleRoot (l : List ι) : α := merkleRootF H l.length l

/-- `buildMerkleTree`; `none` is Go's `nil` (empty input).  The inner `none` branch would be a
    nil-pointer dereference in Go (`left.hash`); `build_isSome` shows it is never taken. -/
def buildF : Nat → List ι → Option (MTree α)
  | _, [] => none
  | _, [x] => some (.leaf (H.leafH x))
  | 0, _ :: _ :: _ => none                -- out of fuel: unreachable with fuel = length
  | f + 1, x :: y :: r =>
    let l := x :: y :: r
    let k := prevPowerOfTwo l.length
    match buildF f (l.take k), buildF f (l.drop k) with
    | some L, some R => some (.node (H.nodeH L.hash R.hash) L R)
    | _, _ => none

def build (l : List ι) : Option (MTree α) := buildF H l.length l

variable [DecidableEq α]

/-- `(*merkleTreeNode).getMerkleTreeProof(merkleHashSet)`; the set is a list of hashes
    (membership only). Returns `(hashes, flags)`. -/
def MTree.proof (S : List α) : MTree α → List α × List Nat
  | .leaf h => if h ∈ S then ([h], [flagTxLeaf]) else ([], [])
  | .node _ l r =>
    let lp := l.proof S
    let rp := r.proof S
    let leftFind := !lp.1.isEmpty
    let rightFind := !rp.1.isEmpty
    if leftFind || rightFind then
      ((if leftFind then lp.1 else [l.hash]) ++ (if rightFind then rp.1 else [r.hash]),
       flagTxParent :: ((if leftFind then lp.2 else [flagAssist]) ++ (if rightFind then rp.2 else [flagAssist])))
    else ([], [])

/-- `getMerkleTreeProof(rawDatas, relatedRawDatas)` / `GetTxMerkleTreeProof` -/
def getProof (raw rel : List ι) : List α × List Nat :=
  match build H raw with
  | none => ([], [])
  | some t =>
    let S := rel.map H.leafH
    if S.isEmpty then ([t.hash], [flagAssist]) else t.proof S

/-- state of `getMerkleRootByProof`: result hash and the three lists after the call -/
structure RunRes (α : Type) where
  hash : α
  hs : List α
  fs : List Nat
  ms : List α
  deriving Repr, DecidableEq

/-- `getMerkleRootByProof(hashList, flagList, merkleHashes)` with the lists threaded. -/
def rootByProofF : Nat → List α → List Nat → List α → RunRes α
  | 0, hs, fs, ms => ⟨H.emptyH, hs, fs, ms⟩     -- out of fuel: unreachable with fuel > flags
  | fuel + 1, hs, fs, ms =>
    match fs, hs with
    | [], _ => ⟨H.emptyH, hs, fs, ms⟩
    | _ :: _, [] => ⟨H.emptyH, hs, fs, ms⟩
    | f :: fs', h :: hs' =>
      if f = flagAssist then ⟨h, hs', fs', ms⟩
      else if f = flagTxLeaf then
        match ms with
        | [] => ⟨H.emptyH, hs, fs', ms⟩
        | m :: ms' => if h = m then ⟨h, hs', fs', ms'⟩ else ⟨H.emptyH, hs, fs', ms⟩
      else if f = flagTxParent then
        let a := rootByProofF fuel hs fs' ms
        let b := rootByProofF fuel a.hs a.fs a.ms
        ⟨H.nodeH a.hash b.hash, b.hs, b.fs, b.ms⟩
      else ⟨H.emptyH, hs, fs', ms⟩

/-- `validateMerkleTreeProof` / `ValidateTxMerkleTreeProof` -/
def validate (hashes : List α) (flags : List Nat) (rel : List ι) (root : α) : Bool :=
  let r := rootByProofF H (flags.length + 1) hashes flags (rel.map H.leafH)
  decide (r.hash = root) && r.ms.isEmpty

end
end BytomModel.Merkle
