/-
M-Net `Authn` — executable model of `net/http/authn/authn.go` (`API.Authenticate`,
`tokenAuthn`, `cachedTokenAuthnCheck`, `localhostAuthn`) and of the token store
`accesstoken/accesstoken.go` (`Create`, `Check`, `Delete`), as the code IS.

Go                                   model
-----------------------------------  ------------------------------------------------------
`CredentialStore.DB` (id → json)     `State.tokens : List (Bytes × Bytes)` (id → secret)
`API.tokenMap[user+":"+pw]`          `State.cache : List (Bytes × Nat)`, key = `user ++ ':' :: pw`
                                     exactly as the code builds it (separator since ed51f8ca;
                                     before, `user+pw`: finding F22)
`time.Now()`                         `State.now : Nat` (seconds; explicit clock)
`tokenExpiry`                        `tokenExpiry = 300`
`req.RemoteAddr`                     `Origin` class; local ⇔ host parses as a loopback IP
`req.URL.Path`                       `Req.path`
`req.BasicAuth()`                    `Req.auth : Option Bytes` = decoded payload of the
                                     `Authorization: Basic …` header, split at the first ':'
`loopbackOn` (package var, `true`)   `loopbackOn`

Strings are byte strings (`List UInt8`), as in Go.
-/
namespace BytomModel.Authn

abbrev Bytes := List UInt8

def tokenExpiry : Nat := 300
def loopbackOn : Bool := true

/-! source facts the model relies on — the shape of the Go functions as the model mirrors
   them; each is tied to the regenerated `Gen/Authn.lean` by `Ties/C36.lean` -/
def cacheKeyExpr : String := "user + \":\" + pw"
/-- every `a.tokenMap[...]` access of `cachedTokenAuthnCheck` (the read before and the write after
    the unlocked store lookup) uses the SAME local string `key`, a value computed once from the
    request — not something that lives in the `API` object and can change while `tokenMu` is
    released; and `API` has no byte-slice / buffer field that could serve as such scratch space -/
def tokenMapKeyUses : List String := ["key", "key"]
def apiScratchFields : List String := []
def staleCond : String := "!ok || time.Now().After(res.lastLookup.Add(tokenExpiry))"
def cachedCheckChain : List String :=
  ["if !ok || time.Now().After(res.lastLookup.Add(tokenExpiry)) => -", "return nil"]
def loopbackOnSrc : String := "true"
/-- `Authenticate`: every top-level `if` (condition => returned error, `-` when the body does
    not return) and the final return, in source order -/
def authenticateChain : List String :=
  ["if err == nil && token != \"\" => -",
   "if local => -",
   "if !local && strings.HasPrefix(req.URL.Path, \"/backup-wallet\") => errors.New(\"only local can get access backup-wallets\")",
   "if !local && strings.HasPrefix(req.URL.Path, \"/restore-wallet\") => errors.New(\"only local can get access restore-wallet\")",
   "if !local && strings.HasPrefix(req.URL.Path, \"/list-access-tokens\") => errors.New(\"only local can get access token list\")",
   "if strings.HasPrefix(req.URL.Path, \"/dashboard/\") || req.URL.Path == \"/dashboard\" => nil",
   "if strings.HasPrefix(req.URL.Path, \"/equity/\") || req.URL.Path == \"/equity\" => nil",
   "if loopbackOn && local => nil",
   "return err"]
def localhostChain : List String :=
  ["if err != nil => false", "if !net.ParseIP(h).IsLoopback() => false", "return true"]
def tokenAuthnChain : List String :=
  ["if a.disable => nil", "if !ok => ErrNoToken", "return a.cachedTokenAuthnCheck(req.Context(), user, pw)"]
def validIDRegexpSrc : String := "regexp.MustCompile(`^[\\w-]+$`)"
def checkChain : List String :=
  ["if value == nil => errors.WithDetailf(ErrNoMatchID, \"check id %q nonexisting\", id)",
   "if err := json.Unmarshal(value, token); err != nil => err",
   "if splitStrings := strings.Split(token.Token, \":\"); len(splitStrings) != 2 || splitStrings[1] != secret => ErrInvalidToken",
   "return nil"]
def createChain : List String :=
  ["if !validIDRegexp.MatchString(id) => errors.WithDetailf(ErrBadID, \"invalid id %q\", id)",
   "if cs.DB.Get(key) != nil => errors.WithDetailf(ErrDuplicateID, \"id %q already in use\", id)",
   "if _, err := rand.Read(secret); err != nil => err",
   "if err != nil => err",
   "return nil"]

/-- bytes of an ASCII string literal (all path constants of authn.go are ASCII) -/
def str (s : String) : Bytes := s.toList.map (fun c => UInt8.ofNat c.toNat)

inductive Origin
  | loopback     -- RemoteAddr = "<loopback ip>:<port>"
  | remote       -- a non-loopback IP and a port
  | malformed    -- SplitHostPort fails, or the host is not an IP literal
deriving DecidableEq, Repr

/-- `localhostAuthn` -/
def isLocal : Origin → Bool
  | .loopback => true
  | _ => false

structure Req where
  origin : Origin
  path : Bytes
  auth : Option Bytes
deriving DecidableEq, Repr

structure State where
  tokens : List (Bytes × Bytes)
  cache : List (Bytes × Nat)
  now : Nat
deriving DecidableEq, Repr

def init : State := { tokens := [], cache := [], now := 0 }

/-! ### token store (`accesstoken`) -/

def mget {β : Type} : List (Bytes × β) → Bytes → Option β
  | [], _ => none
  | (k, v) :: m, x => if k = x then some v else mget m x

def mput {β : Type} : List (Bytes × β) → Bytes → β → List (Bytes × β)
  | [], x, v => [(x, v)]
  | (k, v0) :: m, x, v => if k = x then (k, v) :: m else (k, v0) :: mput m x v

def mdel {β : Type} : List (Bytes × β) → Bytes → List (Bytes × β)
  | [], _ => []
  | (k, v) :: m, x => if k = x then mdel m x else (k, v) :: mdel m x

/-- `[0-9A-Za-z_-]` -/
def idChar (c : UInt8) : Bool :=
  (48 ≤ c && c ≤ 57) || (65 ≤ c && c ≤ 90) || (97 ≤ c && c ≤ 122) || c == 95 || c == 45

/-- `validIDRegexp = ^[\w-]+$` -/
def validId (id : Bytes) : Bool := !id.isEmpty && id.all idChar

inductive CreateRes | created | badId | duplicate
deriving DecidableEq, Repr

/-- `CredentialStore.Create` (the secret is the 32 random bytes in hex, given from outside) -/
def create (s : State) (id secret : Bytes) : State × CreateRes :=
  if !validId id then (s, .badId)
  else if (mget s.tokens id).isSome then (s, .duplicate)
  else ({ s with tokens := mput s.tokens id secret }, .created)

/-- `CredentialStore.Delete` -/
def delete (s : State) (id : Bytes) : State := { s with tokens := mdel s.tokens id }

/-- `CredentialStore.Check`: the id exists and the stored secret equals the given one -/
def check (tokens : List (Bytes × Bytes)) (id secret : Bytes) : Bool :=
  match mget tokens id with
  | some sec => sec == secret
  | none => false

/-! ### `authn` -/

/-- split at the first ':' (`parseBasicAuth` after base64-decoding) -/
def splitColon : Bytes → Option (Bytes × Bytes)
  | [] => none
  | c :: cs =>
    if c = 58 then some ([], cs)
    else match splitColon cs with
      | some (u, p) => some (c :: u, p)
      | none => none

def parseBasic (auth : Option Bytes) : Option (Bytes × Bytes) :=
  match auth with
  | none => none
  | some raw => splitColon raw

/-- `cachedTokenAuthnCheck`: returns the new state and whether the error is nil -/
def cachedCheck (s : State) (user pw : Bytes) : State × Bool :=
  let key := user ++ 58 :: pw
  let stale := match mget s.cache key with
    | none => true
    | some last => decide (s.now > last + tokenExpiry)
  if stale then
    if check s.tokens user pw then ({ s with cache := mput s.cache key s.now }, true)
    else (s, false)
  else (s, true)

inductive Verdict
  | ok | noToken | invalidToken | localOnlyBackup | localOnlyRestore | localOnlyList
deriving DecidableEq, Repr

structure Out where
  verdict : Verdict
  ctxToken : Bytes     -- `authn.Token(ctx)` of the returned request ("" when not set)
  ctxLocal : Bool      -- `authn.Localhost(ctx)`
deriving DecidableEq, Repr

def hasPrefix (p : String) (path : Bytes) : Bool := (str p).isPrefixOf path

/-- `tokenAuthn`: (token, err) with err as a verdict (`ok` = nil) -/
def tokenAuthn (disable : Bool) (s : State) (r : Req) : State × Bytes × Verdict :=
  if disable then (s, [], .ok)
  else match parseBasic r.auth with
    | none => (s, [], .noToken)
    | some (user, pw) =>
      let (s', ok) := cachedCheck s user pw
      (s', user, if ok then .ok else .invalidToken)

/-- `API.Authenticate` -/
def authenticate (disable : Bool) (s : State) (r : Req) : State × Out :=
  let (s', token, err) := tokenAuthn disable s r
  let ctxToken := if err = .ok ∧ token ≠ [] then token else []
  let loc := isLocal r.origin
  let out (v : Verdict) : Out := { verdict := v, ctxToken := ctxToken, ctxLocal := loc }
  if !loc && hasPrefix "/backup-wallet" r.path then (s', out .localOnlyBackup)
  else if !loc && hasPrefix "/restore-wallet" r.path then (s', out .localOnlyRestore)
  else if !loc && hasPrefix "/list-access-tokens" r.path then (s', out .localOnlyList)
  else if hasPrefix "/dashboard/" r.path || r.path == str "/dashboard" then (s', out .ok)
  else if hasPrefix "/equity/" r.path || r.path == str "/equity" then (s', out .ok)
  else if loopbackOn && loc then (s', out .ok)
  else (s', out err)

/-! ### histories -/

inductive Op
  | create (id secret : Bytes)
  | delete (id : Bytes)
  | advance (d : Nat)
  | request (r : Req)
deriving DecidableEq, Repr

def step (disable : Bool) (s : State) : Op → State
  | .create id secret => (create s id secret).1
  | .delete id => delete s id
  | .advance d => { s with now := s.now + d }
  | .request r => (authenticate disable s r).1

def final (disable : Bool) (ops : List Op) : State := ops.foldl (step disable) init

/-- the protected (local-only) paths -/
def protectedPath (path : Bytes) : Bool :=
  hasPrefix "/backup-wallet" path || hasPrefix "/restore-wallet" path || hasPrefix "/list-access-tokens" path

/-- the documented static exemptions -/
def exemptPath (path : Bytes) : Bool :=
  hasPrefix "/dashboard/" path || path == str "/dashboard" || hasPrefix "/equity/" path || path == str "/equity"

end BytomModel.Authn
