/-
M-Net `SecretConn` — executable model of `p2p/connection/secret_connection.go`
(`Write`, `Read`, `incr2Nonce`, and the key/nonce/challenge derivation of
`MakeSecretConnection`), as the code IS.

Go                                   model
-----------------------------------  ------------------------------------------------------
`secretbox.Seal/Open`                `Aead.enc / Aead.open` (PARAMETER; the driver uses `toy`)
`sc.sendNonce`, `sc.recvNonce`       `Sender.nonce`, `Receiver.nonce` (24 bytes, big-endian)
`sc.recvBuffer`                      `Receiver.buf`
`sc.conn` (incoming direction)       `Receiver.wire` (bytes not yet read) + `Receiver.eof`
caller's `data []byte`               its length `len`; the model reports what `copy` wrote at
                                     its start (`ReadRes.written`) and the returned `n`, `err`

`Read` mirrors the code after the repair of F18 (commit a002565b: the branch that serves
`recvBuffer` assigns `copy`'s result to the named result `n`; before, it went to a fresh
variable `n_` and the call returned `n` = 0). The statement is tied: `Ties.C32.read_copies_tied`.
-/
namespace BytomModel.SecretConn

abbrev Bytes := List UInt8

def dataLenSize : Nat := 2
def dataMaxSize : Nat := 1024
def totalFrameSize : Nat := dataMaxSize + dataLenSize
def overhead : Nat := 16
def sealedFrameSize : Nat := totalFrameSize + overhead
def nonceSize : Nat := 24

/-! source facts the model relies on (tied to the regenerated `Gen/SecretConn.lean` by
   `Ties/C32.lean`) -/
def totalFrameSizeExpr : String := "dataMaxSize + dataLenSize"
def sealedFrameSizeExpr : String := "totalFrameSize + secretbox.Overhead"
/-- `Read`'s named results -/
def readNamedResults : List String := ["n", "err"]
/-- where `copy`'s count goes in the two branches of `Read`: the named result `n`, in both -/
def readCopies : List String := ["n = copy(data, sc.recvBuffer)", "n = copy(data, chunk)"]
/-- all returns of `Read` in source order; the first is the buffered branch's bare return -/
def readReturns : List String :=
  ["return", "return", "return n, errors.New(\"Failed to decrypt SecretConnection\")",
   "return 0, errors.New(\"chunkLength is greater than dataMaxSize\")", "return"]
def writeSkeleton : List String :=
  ["for 0 < len(data)", "frame := make([]byte, totalFrameSize)", "if dataMaxSize < len(data)",
   "chunk = data[:dataMaxSize]", "data = data[dataMaxSize:]", "chunk = data", "data = nil",
   "binary.BigEndian.PutUint16(frame, uint16(len(chunk)))", "copy(frame[dataLenSize:], chunk)",
   "sealedFrame := make([]byte, sealedFrameSize)",
   "secretbox.Seal(sealedFrame[:0], frame, sc.sendNonce, sc.shrSecret)", "incr2Nonce(sc.sendNonce)",
   "if _, err := sc.conn.Write(sealedFrame); err != nil", "_, err := sc.conn.Write(sealedFrame)",
   "return n, err", "n += len(chunk)", "return"]
def incrNonceBody : String := "{ for i := 23; 0 <= i; i-- { nonce[i]++ if nonce[i] != 0 { return } } }"
def incr2NonceBody : String := "{ incrNonce(nonce) incrNonce(nonce) }"
def genNoncesBody : String :=
  "{ nonce1 := hash24(append(loPubKey[:], hiPubKey[:]...)) nonce2 := new([24]byte) copy(nonce2[:], nonce1[:]) nonce2[len(nonce2)-1] ^= 0x01 if locIsLo { return nonce1, nonce2 } return nonce2, nonce1 }"
def sort32Body : String := "{ if bytes.Compare(foo[:], bar[:]) < 0 { return foo, bar } return bar, foo }"

structure Aead where
  enc : Bytes → Bytes → Bytes → Bytes            -- key, nonce, plaintext
  dec : Bytes → Bytes → Bytes → Option Bytes    -- key, nonce, box

/-! ### nonces -/

/-- little-endian increment with wrap-around -/
def incrLE : Bytes → Bytes
  | [] => []
  | b :: bs => if b = 255 then 0 :: incrLE bs else (b + 1) :: bs

/-- `incrNonce`: big-endian +1 with wrap-around -/
def incrNonce (n : Bytes) : Bytes := (incrLE n.reverse).reverse
/-- `incr2Nonce` -/
def incr2Nonce (n : Bytes) : Bytes := incrNonce (incrNonce n)

/-! ### framing -/

/-- `binary.BigEndian.PutUint16` -/
def be16 (n : Nat) : Bytes := [UInt8.ofNat (n / 256), UInt8.ofNat (n % 256)]

/-- a frame: 2-byte length, the chunk, zero padding up to `totalFrameSize` -/
def frameOf (chunk : Bytes) : Bytes :=
  be16 chunk.length ++ chunk ++ List.replicate (dataMaxSize - chunk.length) 0

/-- the loop of `Write`: cut `data` into chunks of at most `dataMaxSize` bytes -/
def chunksAux : Nat → Bytes → List Bytes
  | 0, _ => []
  | fuel + 1, data =>
    if data = [] then [] else data.take dataMaxSize :: chunksAux fuel (data.drop dataMaxSize)

def chunks (data : Bytes) : List Bytes := chunksAux data.length data

/-- the frames `Write` puts on the wire for a list of chunks, starting at `nonce` -/
def encode (a : Aead) (key : Bytes) : Bytes → List Bytes → Bytes
  | _, [] => []
  | nonce, c :: cs => a.enc key nonce (frameOf c) ++ encode a key (incr2Nonce nonce) cs

def advance : Bytes → Nat → Bytes
  | n, 0 => n
  | n, k + 1 => advance (incr2Nonce n) k

structure Sender where
  nonce : Bytes
  connOpen : Bool
deriving DecidableEq, Repr

inductive WErr | none | closedPipe
deriving DecidableEq, Repr

structure WriteRes where
  n : Nat
  err : WErr
  wire : Bytes      -- bytes handed to conn.Write
deriving DecidableEq, Repr

/-- `SecretConnection.Write` -/
def write (a : Aead) (key : Bytes) (s : Sender) (data : Bytes) : Sender × WriteRes :=
  match chunks data with
  | [] => (s, { n := 0, err := .none, wire := [] })
  | cs =>
    if s.connOpen then
      ({ s with nonce := advance s.nonce cs.length },
       { n := data.length, err := .none, wire := encode a key s.nonce cs })
    else
      -- the first frame is sealed, the nonce incremented, then conn.Write fails
      ({ s with nonce := incr2Nonce s.nonce }, { n := 0, err := .closedPipe, wire := [] })

structure Receiver where
  buf : Bytes
  nonce : Bytes
  wire : Bytes
  eof : Bool
deriving DecidableEq, Repr

inductive RErr
  | none | eof | unexpectedEOF | decrypt | tooLong
  | wouldBlock    -- not an outcome of the code: the connection has no full frame yet
  | panic         -- slice out of range; unreachable when `open` returns `totalFrameSize` bytes
deriving DecidableEq, Repr

structure ReadRes where
  n : Nat
  err : RErr
  written : Bytes
deriving DecidableEq, Repr

/-- the part of `Read` after the buffered branch: fetch, open and unpack one frame.
 -/
def readFrame (a : Aead) (key : Bytes) (r : Receiver) (len : Nat) : Receiver × ReadRes :=
  if r.wire.length < sealedFrameSize then
    if r.eof then
      ({ r with wire := [] }, { n := 0, err := if r.wire = [] then .eof else .unexpectedEOF, written := [] })
    else (r, { n := 0, err := .wouldBlock, written := [] })
  else
    let sealed := r.wire.take sealedFrameSize
    let r1 := { r with wire := r.wire.drop sealedFrameSize }
    match a.dec key r.nonce sealed with
    | none => (r1, { n := 0, err := .decrypt, written := [] })
    | some frame =>
      let r2 := { r1 with nonce := incr2Nonce r1.nonce }
      match frame with
      | hi :: lo :: rest =>
        let chunkLength := hi.toNat * 256 + lo.toNat
        if chunkLength > dataMaxSize then (r2, { n := 0, err := .tooLong, written := [] })
        else if rest.length < chunkLength then (r2, { n := 0, err := .panic, written := [] })
        else
          let chunk := rest.take chunkLength
          let w := chunk.take len
          ({ r2 with buf := chunk.drop w.length }, { n := w.length, err := .none, written := w })
      | _ => (r2, { n := 0, err := .panic, written := [] })

/-- `SecretConnection.Read`: serve `recvBuffer` first (returning how much was copied),
    otherwise fetch one frame -/
def read (a : Aead) (key : Bytes) (r : Receiver) (len : Nat) : Receiver × ReadRes :=
  if r.buf ≠ [] then
    let w := r.buf.take len
    ({ r with buf := r.buf.drop w.length }, { n := w.length, err := .none, written := w })
  else readFrame a key r len

/-- a sequence of reads with the given buffer sizes -/
def readMany (rd : Receiver → Nat → Receiver × ReadRes) : Receiver → List Nat → Receiver × List ReadRes
  | r, [] => (r, [])
  | r, l :: ls =>
    let (r1, x) := rd r l
    let (r2, xs) := readMany rd r1 ls
    (r2, x :: xs)

/-- what the caller is told it received: `data[:n]` of every call -/
def returned (rs : List ReadRes) : Bytes := (rs.map fun x => x.written.take x.n).flatten
/-- what was actually copied into the callers' buffers -/
def copied (rs : List ReadRes) : Bytes := (rs.map (·.written)).flatten

/-! ### the toy AEAD of the driver (NOT secretbox; same sizes, detects every single-byte change) -/

def sumBytes (m : Bytes) : UInt8 := m.foldl (· + ·) 0

def toyTag (key nonce m : Bytes) : Bytes :=
  (sumBytes m + sumBytes key) :: (nonce.drop 9 ++ List.replicate 15 0).take 15

def toy : Aead where
  enc := fun k n m => toyTag k n m ++ m
  dec := fun k n c =>
    if c.length < overhead then none
    else if c.take overhead = toyTag k n (c.drop overhead) then some (c.drop overhead) else none

/-! ### handshake derivations (`MakeSecretConnection`) -/

/-- `bytes.Compare(a, b) < 0` -/
def lexLt : Bytes → Bytes → Bool
  | [], [] => false
  | [], _ :: _ => true
  | _ :: _, [] => false
  | a :: as, b :: bs => if a < b then true else if b < a then false else lexLt as bs

/-- `sort32` -/
def sort32 (foo bar : Bytes) : Bytes × Bytes := if lexLt foo bar then (foo, bar) else (bar, foo)

/-- flip the lowest bit of the last byte (`nonce2[len-1] ^= 0x01`) -/
def flipLast : Bytes → Bytes
  | [] => []
  | [b] => [b ^^^ 1]
  | b :: bs => b :: flipLast bs

structure Hashes where
  hash24 : Bytes → Bytes     -- ripemd160, zero-padded to 24 bytes
  hash32 : Bytes → Bytes     -- sha256

/-- `genNonces(lo, hi, locIsLo)` = (recvNonce, sendNonce). In the Go code `locIsLo` is the
    POINTER comparison `locEphPub == loEphPub`; `sort32` returns its first argument first
    exactly when `bytes.Compare(loc, rem) < 0`. -/
def genNonces (h : Hashes) (loc rem : Bytes) : Bytes × Bytes :=
  let (lo, hi) := sort32 loc rem
  let nonce1 := h.hash24 (lo ++ hi)
  let nonce2 := flipLast nonce1
  if lexLt loc rem then (nonce1, nonce2) else (nonce2, nonce1)

/-- `genChallenge` -/
def genChallenge (h : Hashes) (loc rem : Bytes) : Bytes :=
  let (lo, hi) := sort32 loc rem
  h.hash32 (lo ++ hi)

/-- the last step of `MakeSecretConnection`: accept the peer's (key, signature) iff the
    signature verifies on the challenge; the accepted key becomes `remPubKey`. -/
def finishHandshake (verify : Bytes → Bytes → Bytes → Bool) (challenge remKey remSig : Bytes) : Option Bytes :=
  if verify remKey challenge remSig then some remKey else none

end BytomModel.SecretConn
