/-
M-Text (3) — model of `wallet/mnemonic/mnemonic.go` at the level of word indices (core Lean
only).  `math/big` values are `Nat`s.  The checksum function (first byte of SHA-256 of the
entropy) is a parameter `ck`; the word list enters only through `word ↔ index` (a bijection on
0..2047 when the list has 2048 distinct words — tied to the source by `Gen/TextConsts`).
-/
namespace BytomModel.Mnemonic

abbrev Bytes := List Nat

inductive Err where
  | entropyLength   -- ErrEntropyLengthInvalid
  | wordCount       -- "Invalid mnemonic" (number of words)
  | unknownWord     -- word not found in reverse map
  | checksum        -- "mnemonic's entropy doesn't match its checksum"
  deriving Repr, DecidableEq

def Err.name : Err → String
  | .entropyLength => "entropy-length" | .wordCount => "word-count"
  | .unknownWord => "unknown-word" | .checksum => "checksum"

/-- `new(big.Int).SetBytes(b)` -/
def fromBytes (b : Bytes) : Nat := b.foldl (fun acc x => acc * 256 + x) 0

/-- big-endian bytes of `n`, exactly `len` of them (`n < 256^len`) -/
def toBytesN : Nat → Nat → Bytes
  | 0, _ => []
  | len + 1, n => toBytesN len (n / 256) ++ [n % 256]

/-- `big.Int.Bytes()`: minimal big-endian representation (empty for 0) -/
def minBytesF : Nat → Nat → Bytes
  | 0, _ => []
  | f + 1, n => if n = 0 then [] else minBytesF f (n / 256) ++ [n % 256]
def minBytes (n : Nat) : Bytes := minBytesF (n + 1) n

/-- `padByteSlice(slice, length)` -/
def padByteSlice (s : Bytes) (length : Nat) : Bytes :=
  if length ≤ s.length then s else List.replicate (length - s.length) 0 ++ s

/-- `addChecksum(data)` as a big integer (the Go code returns its `.Bytes()` and the caller
    immediately `SetBytes` it back): shift in the top `len/4` bits of the checksum byte. -/
def addChecksumInt (ck : Bytes → Nat) (data : Bytes) : Nat :=
  let first := ck data
  let bits := data.length / 4
  (List.range bits).foldl (fun acc i =>
      if (first &&& (1 <<< (7 - i))) % 256 > 0 then acc * 2 ||| 1 else acc * 2) (fromBytes data)

/-- the `for i := sentenceLength-1; i >= 0; i--` loop: base-2048 digits, most significant first -/
def digits2048 : Nat → Nat → List Nat
  | 0, _ => []
  | n + 1, x => digits2048 n (x / 2048) ++ [x &&& 2047]

/-- `NewMnemonic(entropy, language)` up to the word list: the word indices -/
def newMnemonicIdx (ck : Bytes → Nat) (entropy : Bytes) : Except Err (List Nat) :=
  let entropyBitLength := entropy.length * 8
  let checksumBitLength := entropyBitLength / 32
  let sentenceLength := (entropyBitLength + checksumBitLength) / 11
  if entropyBitLength % 32 ≠ 0 ∨ entropyBitLength < 128 ∨ entropyBitLength > 256 then .error .entropyLength
  else .ok (digits2048 sentenceLength (addChecksumInt ck entropy))

/-- `wordLengthChecksumMasksMapping` -/
def checksumMask (n : Nat) : Nat :=
  if n = 12 then 15 else if n = 15 then 31 else if n = 18 then 63 else if n = 21 then 127 else 255

/-- `wordLengthChecksumShiftMapping` (no entry for 24) -/
def checksumShift (n : Nat) : Nat :=
  if n = 12 then 16 else if n = 15 then 8 else if n = 18 then 4 else if n = 21 then 2 else 1

/-- `EntropyFromMnemonic(mnemonic, language)` after the words have been looked up; `none` is a
    word that is not in the list. -/
def entropyFromIdx (ck : Bytes → Nat) (idx : List (Option Nat)) : Except Err Bytes :=
  let n := idx.length
  if n % 3 ≠ 0 ∨ n < 12 ∨ n > 24 then .error .wordCount
  else
    let rec go : List (Option Nat) → Nat → Option Nat
      | [], b => some b
      | none :: _, _ => none
      | some i :: r, b => go r ((b * 2048) ||| (i % 65536))
    match go idx 0 with
    | none => .error .unknownWord
    | some b =>
      let mask := checksumMask n
      let checksum := b &&& mask
      let b := b / (mask + 1)
      let entropy := padByteSlice (minBytes b) (n / 3 * 4)
      let entropyChecksum := if n ≠ 24 then ck entropy / checksumShift n else ck entropy
      if checksum ≠ entropyChecksum then .error .checksum else .ok entropy

/-- `IsMnemonicValid(mnemonic, language)` after `strings.Fields` and the word lookup -/
def isMnemonicValidIdx (idx : List (Option Nat)) : Bool :=
  let n := idx.length
  if n % 3 ≠ 0 ∨ n < 12 ∨ n > 24 then false else idx.all Option.isSome

end BytomModel.Mnemonic
