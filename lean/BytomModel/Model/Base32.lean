/-
M-Text (2) — model of `encoding/base32/base32.go` (`StdEncoding.EncodeToString`,
`StdEncoding.DecodeString`; core Lean only).  Bytes are `Nat`s (< 256); `uint8` shifts carry an
explicit `% 256`.  The fall-through `switch len(src)` of `Encode` is written with the missing
source bytes read as 0 (every term it would skip is a function `f` of that byte with `f 0 = 0`).
`DecodeString` first drops `\r` / `\n`; Go does that with `strings.Map`, which additionally
replaces invalid UTF-8 bytes by U+FFFD — the model (and the differential stream) is for ASCII
input strings, where the two coincide.
-/
namespace BytomModel.Base32

abbrev Bytes := List Nat

/-- `encodeStd = "ABCDEFGHIJKLMNOPQRSTUVWXYZ234567"` -/
def alphabet : List Nat :=
  [65, 66, 67, 68, 69, 70, 71, 72, 73, 74, 75, 76, 77, 78, 79, 80,
   81, 82, 83, 84, 85, 86, 87, 88, 89, 90, 50, 51, 52, 53, 54, 55]

def padChar : Nat := 61  -- '='

/-- the eight 5-bit groups of a quantum of ≤ 5 source bytes (missing bytes are 0) -/
def groups (s0 s1 s2 s3 s4 : Nat) : List Nat :=
  [ s0 >>> 3,
    (((s1 >>> 6) &&& 0x1F) ||| (((s0 <<< 2) % 256) &&& 0x1F)),
    ((s1 >>> 1) &&& 0x1F),
    (((s2 >>> 4) &&& 0x1F) ||| (((s1 <<< 4) % 256) &&& 0x1F)),
    ((s3 >>> 7) ||| (((s2 <<< 1) % 256) &&& 0x1F)),
    ((s3 >>> 2) &&& 0x1F),
    ((s4 >>> 5) ||| (((s3 <<< 3) % 256) &&& 0x1F)),
    (s4 &&& 0x1F) ]

/-- one quantum of `Encode`: `src` is the (non-empty) rest of the input -/
def encodeQuantum (src : Bytes) : Bytes :=
  let g := groups (src.getD 0 0) (src.getD 1 0) (src.getD 2 0) (src.getD 3 0) (src.getD 4 0)
  let cs := g.map (fun b => alphabet.getD b 0)
  let n := src.length
  -- pad the final quantum
  if n ≥ 5 then cs
  else if n = 4 then cs.take 7 ++ [padChar]
  else if n = 3 then cs.take 5 ++ [padChar, padChar, padChar]
  else if n = 2 then cs.take 4 ++ [padChar, padChar, padChar, padChar]
  else cs.take 2 ++ [padChar, padChar, padChar, padChar, padChar, padChar]

def encodeF : Nat → Bytes → Bytes
  | 0, _ => []
  | _, [] => []
  | f + 1, src => encodeQuantum src ++ (if src.length ≤ 5 then [] else encodeF f (src.drop 5))

/-- `StdEncoding.EncodeToString(src)` -/
def encodeToString (src : Bytes) : Bytes := encodeF (src.length + 1) src

/-- `decodeMap[c]` (`none` = 0xFF) -/
def decodeChar (c : Nat) : Option Nat :=
  let i := alphabet.idxOf c
  if i < 32 then some i else none

/-- result of reading one quantum's characters -/
inductive QRes where
  | err (offset : Nat)
  | ok (dbuf : List Nat) (dlen : Nat) (endSeen : Bool) (rest : Bytes)

/-- the `for j := 0; j < 8;` loop; `dbuf` is accumulated in order -/
def readQuantum (olen : Nat) : Nat → Nat → List Nat → Bytes → QRes
  | 0, _, dbuf, src => .ok dbuf 8 false src
  | fuel + 1, j, dbuf, src =>
    if j ≥ 8 then .ok dbuf 8 false src else
    match src with
    | [] => .err (olen - j)     -- reached the end, padding missing (olen - len(src) - j)
    | c :: rest =>
      if c = padChar ∧ j ≥ 2 ∧ rest.length < 8 then
        if rest.length + j < 7 then .err olen
        else
          -- for k := 0; k < 8-1-j; k++ { if len(src) > k && src[k] != pad → error }
          match (List.range (7 - j)).find? (fun k => decide (rest.length > k) && (rest.getD k 0 != padChar)) with
          | some k => .err (olen - rest.length + k - 1)
          | none =>
            if j = 1 ∨ j = 3 ∨ j = 6 then .err (olen - rest.length - 1)
            else .ok dbuf j true rest
      else
        match decodeChar c with
        | none => .err (olen - rest.length - 1)
        | some v => readQuantum olen fuel (j + 1) (dbuf ++ [v]) rest

/-- pack a quantum: the fall-through `switch dlen` -/
def pack (d : List Nat) (dlen : Nat) : Bytes :=
  let g (i : Nat) := d.getD i 0
  let dst0 := ((g 0 <<< 3) % 256) ||| (g 1 >>> 2)
  let dst1 := ((g 1 <<< 6) % 256) ||| ((g 2 <<< 1) % 256) ||| (g 3 >>> 4)
  let dst2 := ((g 3 <<< 4) % 256) ||| (g 4 >>> 1)
  let dst3 := ((g 4 <<< 7) % 256) ||| ((g 5 <<< 2) % 256) ||| (g 6 >>> 3)
  let dst4 := ((g 6 <<< 5) % 256) ||| g 7
  if dlen = 8 then [dst0, dst1, dst2, dst3, dst4]
  else if dlen = 7 then [dst0, dst1, dst2, dst3]
  else if dlen = 5 then [dst0, dst1, dst2]
  else if dlen = 4 then [dst0, dst1]
  else if dlen = 2 then [dst0]
  else []

/-- `decode(dst, src)`: bytes decoded so far and an optional CorruptInputError offset -/
def decodeF (olen : Nat) : Nat → Bytes → Bytes → Bytes × Option Nat
  | 0, acc, _ => (acc, none)
  | _, acc, [] => (acc, none)
  | f + 1, acc, src =>
    match readQuantum olen 9 0 [] src with
    | .err off => (acc, some off)
    | .ok d dlen e rest =>
      let acc := acc ++ pack d dlen
      if e then (acc, none) else decodeF olen f acc rest

/-- `StdEncoding.DecodeString(s)`: `(dbuf[:n], err)` -/
def decodeString (s : Bytes) : Bytes × Option Nat :=
  let s := s.filter (fun c => c != 13 && c != 10)
  decodeF s.length (s.length + 1) [] s

end BytomModel.Base32
