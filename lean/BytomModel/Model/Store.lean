/-
M-Store — database/store.go, store_checkpoint.go, cache.go AS THEY ARE: the typed records of
`database.Store` over a key-value DB and the five LRU caches with every invalidation call.

* The DB is modelled at the level of DECODED records (one association list per key prefix);
  encoding/decoding round-trips are property C04's business and are exercised here only by
  the harness.
* A block hash commits to (version, height, previous hash, timestamp, tx merkle root) — NOT
  to `BlockWitness` and `SupLinks`. So a header is `hash` (an abstract id), the committed
  `height`, and the uncommitted `wit`/`sl`.
* Cached values are SHARED OBJECTS: `lookupCheckPoint` returns the pointer held by the cache.
  Since fa651dae `GetCheckpoint` answers with a COPY (cached `SupLinks` ++ header `SupLinks`) and
  no longer writes to the cached object, whose `sl` therefore stays as decoded (empty).
* Since 941b4124 `SaveBlock` also calls `removeBlockHeader` for the block it writes.
* groupcache/lru: `Get` and `Add` move the entry to the front, `Add` evicts the oldest entry
  when `len > MaxEntries` (`MaxEntries = 0` means unbounded), errors are never cached.

Core Lean only.
-/
namespace BytomModel.Store

structure Header where
  hash : Nat
  height : Nat
  wit : Nat
  sl : List Nat
  deriving DecidableEq, Repr

/-- persisted part of `state.Checkpoint` (`Parent` and `SupLinks` carry `json:"-"`) -/
structure Ckpt where
  height : Nat
  hash : Nat
  status : Nat
  deriving DecidableEq, Repr

/-- a checkpoint object in memory: persisted fields + the `SupLinks` slice -/
structure CkptObj where
  c : Ckpt
  sl : List Nat
  deriving DecidableEq, Repr

/-! association lists (Go maps / DB tables) -/

def aGet {κ β : Type} [DecidableEq κ] : List (κ × β) → κ → Option β
  | [], _ => none
  | (k', v) :: l, k => if k' = k then some v else aGet l k

def aSet {κ β : Type} [DecidableEq κ] : List (κ × β) → κ → β → List (κ × β)
  | [], k, v => [(k, v)]
  | (k', v') :: l, k, v => if k' = k then (k, v) :: l else (k', v') :: aSet l k v

/-- `delete` / `lru.Remove`: no entry with key `k` remains -/
def aDel {κ β : Type} [DecidableEq κ] : List (κ × β) → κ → List (κ × β)
  | [], _ => []
  | (k', v') :: l, k => if k' = k then aDel l k else (k', v') :: aDel l k

/-! LRU cache: most recently used first -/

structure Lru (κ β : Type) where
  cap : Nat
  items : List (κ × β)
  deriving Repr

/-- `lru.Cache.Get`: a hit moves the entry to the front -/
def Lru.get {κ β : Type} [DecidableEq κ] (c : Lru κ β) (k : κ) : Option β × Lru κ β :=
  match aGet c.items k with
  | none => (none, c)
  | some v => (some v, { c with items := (k, v) :: aDel c.items k })

/-- `lru.Cache.Add` -/
def Lru.add {κ β : Type} [DecidableEq κ] (c : Lru κ β) (k : κ) (v : β) : Lru κ β :=
  let items := (k, v) :: aDel c.items k
  if c.cap ≠ 0 ∧ items.length > c.cap then { c with items := items.dropLast } else { c with items := items }

/-- `lru.Cache.Remove` -/
def Lru.remove {κ β : Type} [DecidableEq κ] (c : Lru κ β) (k : κ) : Lru κ β :=
  { c with items := aDel c.items k }

structure DB where
  hdr : List (Nat × Header)
  txs : List (Nat × List Nat)
  hashes : List (Nat × List Nat)
  main : List (Nat × Nat)
  ckpt : List ((Nat × Nat) × Ckpt)
  deriving Repr

def DB.empty : DB := ⟨[], [], [], [], []⟩

structure Store where
  db : DB
  cHdr : Lru Nat Header
  cTxs : Lru Nat (List Nat)
  cHashes : Lru Nat (List Nat)
  cMain : Lru Nat Nat
  cCkpt : Lru (Nat × Nat) CkptObj
  deriving Repr

structure Caps where
  hdr : Nat
  txs : Nat
  hashes : Nat
  main : Nat
  ckpt : Nat
  deriving Repr

/-- `NewStore(db)`: empty caches -/
def Store.fresh (caps : Caps) (db : DB) : Store :=
  ⟨db, ⟨caps.hdr, []⟩, ⟨caps.txs, []⟩, ⟨caps.hashes, []⟩, ⟨caps.main, []⟩, ⟨caps.ckpt, []⟩⟩

/-! ### reads (cache.lookup…) — `none` is the Go error -/

def getHeader (s : Store) (b : Nat) : Option Header × Store :=
  match s.cHdr.get b with
  | (some h, c) => (some h, { s with cHdr := c })
  | (none, _) =>
    match aGet s.db.hdr b with
    | none => (none, s)
    | some h => (some h, { s with cHdr := s.cHdr.add h.hash h })   -- keyed by blockHeader.Hash()

def getTxs (s : Store) (b : Nat) : Option (List Nat) × Store :=
  match s.cTxs.get b with
  | (some t, c) => (some t, { s with cTxs := c })
  | (none, _) =>
    match aGet s.db.txs b with
    | none => (none, s)
    | some t => (some t, { s with cTxs := s.cTxs.add b t })

/-- an absent record is the empty list, and that empty list IS cached -/
def getHashes (s : Store) (h : Nat) : List Nat × Store :=
  match s.cHashes.get h with
  | (some l, c) => (l, { s with cHashes := c })
  | (none, _) =>
    let l := (aGet s.db.hashes h).getD []
    (l, { s with cHashes := s.cHashes.add h l })

def getMain (s : Store) (h : Nat) : Option Nat × Store :=
  match s.cMain.get h with
  | (some b, c) => (some b, { s with cMain := c })
  | (none, _) =>
    match aGet s.db.main h with
    | none => (none, s)
    | some b => (some b, { s with cMain := s.cMain.add h b })

/-- `GetBlock` -/
def getBlock (s : Store) (b : Nat) : Option (Header × List Nat) × Store :=
  match getHeader s b with
  | (none, s1) => (none, s1)
  | (some h, s1) =>
    match getTxs s1 b with
    | (none, s2) => (none, s2)
    | (some t, s2) => (some (h, t), s2)

/-- `GetCheckpoint`: a copy of the cached object with the header's SupLinks appended -/
def getCheckpoint (s : Store) (b : Nat) : Option CkptObj × Store :=
  match getHeader s b with
  | (none, s1) => (none, s1)
  | (some h, s1) =>
    let key := (h.height, b)
    let found : Option CkptObj × Store :=
      match s1.cCkpt.get key with
      | (some o, c) => (some o, { s1 with cCkpt := c })
      | (none, _) =>
        match aGet s1.db.ckpt key with
        | none => (none, s1)
        | some c => let o : CkptObj := ⟨c, []⟩; (some o, { s1 with cCkpt := s1.cCkpt.add key o })
    match found with
    | (none, s2) => (none, s2)
    | (some o, s2) => (some { o with sl := o.sl ++ h.sl }, s2)

/-- stable insertion by block id (the DB iterates in key = hash order; the harness sorts the
    answer by block code, so any fixed total order on ids gives the same observation) -/
def insertByHash (o : CkptObj) : List CkptObj → List CkptObj
  | [] => [o]
  | x :: xs => if o.c.hash ≤ x.c.hash then o :: x :: xs else x :: insertByHash o xs

/-- `GetCheckpointsByHeight` / `loadCheckpointsFromIter`: records straight from the DB (the
    checkpoint cache is not consulted), each with the SupLinks of its (cached) header; any
    missing header fails the whole call -/
def loadCkpts (s : Store) : List Ckpt → Option (List CkptObj) × Store
  | [] => (some [], s)
  | c :: cs =>
    match getHeader s c.hash with
    | (none, s1) => (none, s1)
    | (some h, s1) =>
      match loadCkpts s1 cs with
      | (none, s2) => (none, s2)
      | (some l, s2) => (some (⟨c, h.sl⟩ :: l), s2)

def getCheckpointsByHeight (s : Store) (h : Nat) : Option (List CkptObj) × Store :=
  let recs := (s.db.ckpt.filter (fun e => e.1.1 = h)).map Prod.snd
  let sorted := (recs.map (fun c => (⟨c, []⟩ : CkptObj))).foldr insertByHash []
  loadCkpts s (sorted.map (·.c))

/-! ### writes -/

/-- `SaveBlockHeader`: DB write, then `removeBlockHeader` -/
def saveBlockHeader (s : Store) (h : Header) : Store :=
  { s with db := { s.db with hdr := aSet s.db.hdr h.hash h }, cHdr := s.cHdr.remove h.hash }

/-- `SaveBlock`: reads the hash list THROUGH the cache, one batch of three records, then
    `removeBlockHashes` and `removeBlockHeader`. The txs cache is not touched (a hash determines
    its transaction list). -/
def saveBlock (s : Store) (h : Header) (txs : List Nat) : Store :=
  let (hashes, s1) := getHashes s h.height
  let db := { s1.db with
    hashes := aSet s1.db.hashes h.height (hashes ++ [h.hash]),
    hdr := aSet s1.db.hdr h.hash h,
    txs := aSet s1.db.txs h.hash txs }
  { s1 with db := db, cHashes := s1.cHashes.remove h.height, cHdr := s1.cHdr.remove h.hash }

/-- `SaveChainStatus` restricted to the main-chain index: one batch, then one
    `removeMainChainHash` per header -/
def saveChainStatus (s : Store) (mainHeaders : List Header) : Store :=
  let db := { s.db with main := mainHeaders.foldl (fun m h => aSet m h.height h.hash) s.db.main }
  { s with db := db, cMain := mainHeaders.foldl (fun c h => c.remove h.height) s.cMain }

/-- `SaveCheckpoints`: one batch, then `removeCheckPoint` per key -/
def saveCheckpoints (s : Store) (cs : List Ckpt) : Store :=
  let db := { s.db with ckpt := cs.foldl (fun m c => aSet m (c.height, c.hash) c) s.db.ckpt }
  { s with db := db, cCkpt := cs.foldl (fun l c => l.remove (c.height, c.hash)) s.cCkpt }

/-! ### operations and observations -/

inductive Op where
  | saveBlock (h : Header) (txs : List Nat)
  | saveHeader (h : Header)
  | saveStatus (hs : List Header)
  | saveCkpts (cs : List Ckpt)
  | hdr (b : Nat)
  | txs (b : Nat)
  | hashes (h : Nat)
  | main (h : Nat)
  | block (b : Nat)
  | ckpt (b : Nat)
  | ckptsAt (h : Nat)
  deriving Repr, DecidableEq

inductive Out where
  | ok
  | err
  | hdr (h : Header)
  | ids (l : List Nat)
  | id (b : Nat)
  | block (h : Header) (txs : List Nat)
  | ckpt (o : CkptObj)
  | ckpts (l : List CkptObj)
  deriving Repr, DecidableEq

def step (s : Store) : Op → Store × Out
  | .saveBlock h t => (saveBlock s h t, .ok)
  | .saveHeader h => (saveBlockHeader s h, .ok)
  | .saveStatus hs => (saveChainStatus s hs, .ok)
  | .saveCkpts cs => (saveCheckpoints s cs, .ok)
  | .hdr b => match getHeader s b with
    | (none, s') => (s', .err)
    | (some h, s') => (s', .hdr h)
  | .txs b => match getTxs s b with
    | (none, s') => (s', .err)
    | (some t, s') => (s', .ids t)
  | .hashes h => let r := getHashes s h; (r.2, .ids r.1)
  | .main h => match getMain s h with
    | (none, s') => (s', .err)
    | (some b, s') => (s', .id b)
  | .block b => match getBlock s b with
    | (none, s') => (s', .err)
    | (some (h, t), s') => (s', .block h t)
  | .ckpt b => match getCheckpoint s b with
    | (none, s') => (s', .err)
    | (some o, s') => (s', .ckpt o)
  | .ckptsAt h => match getCheckpointsByHeight s h with
    | (none, s') => (s', .err)
    | (some l, s') => (s', .ckpts l)

def runFrom (s : Store) : List Op → Store
  | [] => s
  | op :: ops => runFrom (step s op).1 ops

/-- what a NEW `Store` over the same DB answers -/
def freshAnswer (caps : Caps) (s : Store) (op : Op) : Out := (step (Store.fresh caps s.db) op).2

end BytomModel.Store
