/-
M-TxVal — executable model of `validation.ValidateTx` (protocol/validation/tx.go) at the
level of amounts, assets, gas and the order of its checks, of `types.MapTx`'s mux
construction (protocol/bc/types/map.go: the coinbase source amount is the uint64-WRAPPED
sum of all outputs) and of `TxData.Fee()` (protocol/bc/types/transaction.go, unchecked
uint64 sums, clamp at 0).

The checked int64 operations are the ones TRANSLATED from math/checked/checked.go on
every run (`Gen/Checked.lean`), not re-stated here.

What is abstracted (inputs of the model, supplied by the harness per transaction):
 * an input's program verdict `vmOk` and the gas it consumes `vmCost` (vm.Verify, C07/C08);
 * entry-ID equality of inputs (`id`: equal ids ⇔ equal bc entry ids);
 * asset ids are small numbers, 0 = BTM;
 * the iteration order of the Go map `parity` (parameter `order`, a permutation);
 * entry cross references built by MapTx (hold by construction, except the coinbase ones
   that are modelled: `mux.Sources[0]` is used as the coinbase destination value).
Core Lean only.
-/
import BytomModel.Gen.Checked

namespace BytomModel.Model.TxValidate
open BytomModel.Fixed BytomModel.Gen.Checked

inductive InKind | spend | issue | veto | coinbase
  deriving DecidableEq, Repr, Inhabited
inductive OutKind | original | vote | retire
  deriving DecidableEq, Repr, Inhabited

structure Input where
  kind : InKind
  asset : Nat      -- 0 = BTM (ignored for coinbase: its mux source is BTM by construction)
  amount : Nat     -- uint64 (ignored for coinbase)
  vmOk : Bool      -- verdict of the input's program given enough gas
  vmCost : Nat     -- gas the program consumes
  x : Nat          -- veto: len(Vote) of the spent vote output; coinbase: len(Arbitrary)
  id : Nat         -- class of the bc entry id (duplicates ⇒ ErrInputDoubleSend)
  deriving Repr, Inhabited

structure Output where
  kind : OutKind   -- retire = unspendable control program (whatever the typed output is)
  asset : Nat
  amount : Nat
  voteLen : Nat    -- vote outputs: len(Vote)
  deriving Repr, Inhabited

structure Tx where
  version : Nat
  size : Nat       -- SerializedSize
  timeRange : Nat
  inputs : List Input
  outputs : List Output
  deriving Repr, Inhabited

/-- what ValidateTx reads from its `block` argument -/
structure Ctx where
  blockVersion : Nat
  blockHeight : Nat
  first : Bool     -- block.Transactions[0] == tx
  deriving Repr, Inhabited

inductive Err
  | txversion | size | timerange | doublespend | emptyresults
  | overflow | nosource | gas | unbalanced
  | vm | overgas | votepubkey | voteamount | voteasset
  | wrongcoinbase | wrongcoinbaseasset | arbitrary | mismatchedref
  | mismatchedvalue | mismatchedposition | position | missingentry | mismatchedassetid
  | panic   -- nil dereference of Coinbase.WitnessDestination (two coinbase inputs)
  deriving DecidableEq, Repr, Inhabited

def Err.name : Err → String
  | .txversion => "txversion" | .size => "size" | .timerange => "timerange"
  | .doublespend => "doublespend" | .emptyresults => "emptyresults"
  | .overflow => "overflow" | .nosource => "nosource" | .gas => "gas"
  | .unbalanced => "unbalanced" | .vm => "vm" | .overgas => "overgas"
  | .votepubkey => "votepubkey" | .voteamount => "voteamount" | .voteasset => "voteasset"
  | .wrongcoinbase => "wrongcoinbase" | .wrongcoinbaseasset => "wrongcoinbaseasset"
  | .arbitrary => "arbitrary" | .mismatchedref => "mismatchedref" | .panic => "panic"
  | .mismatchedvalue => "mismatchedvalue" | .mismatchedposition => "mismatchedposition"
  | .position => "position" | .missingentry => "missingentry" | .mismatchedassetid => "mismatchedassetid"

/-! ### constants (tied to consensus/general.go by Ties/C01) -/
def maxInt64 : Nat := 9223372036854775807
def vmGasRate : Int := 200
def storageGasRate : Int := 1
def maxGasAmount : Int := 300000
def minVoteOutputAmount : Nat := 100000000
def coinbaseArbitrarySizeLimit : Nat := 128
def voteKeyLen : Nat := 64
def btm : Nat := 0

/-! ### the mux built by MapTx -/

/-- `mapCoinbaseInput`: `totalAmount += output.Amount` in uint64 over ALL outputs -/
def coinbaseTotal : List Output → Nat
  | [] => 0
  | o :: rest => (o.amount + coinbaseTotal rest) % 2 ^ 64

/-- (asset, amount) of the mux source of an input -/
def muxSource (outs : List Output) (i : Input) : Nat × Nat :=
  if i.kind = .coinbase then (btm, coinbaseTotal outs) else (i.asset, i.amount)

def muxDest (o : Output) : Nat × Nat := (o.asset, o.amount)

/-! ### the Go map `parity` as an association list with distinct keys -/
abbrev PMap := List (Nat × Int)

def pget : PMap → Nat → Option Int
  | [], _ => none
  | (b, w) :: t, a => if b = a then some w else pget t a

def pset : PMap → Nat → Int → PMap
  | [], a, v => [(a, v)]
  | (b, w) :: t, a, v => if b = a then (b, v) :: t else (b, w) :: pset t a v

/-- first loop of `case *bc.Mux` -/
def addSources : PMap → List (Nat × Nat) → Except Err PMap
  | m, [] => .ok m
  | m, (a, amt) :: rest =>
    if amt > maxInt64 then .error .overflow else
    let r := AddInt64 ((pget m a).getD 0) (amt : Int)
    if r.2 = false then .error .overflow else addSources (pset m a r.1) rest

/-- second loop of `case *bc.Mux` -/
def subDests : PMap → List (Nat × Nat) → Except Err PMap
  | m, [] => .ok m
  | m, (a, amt) :: rest =>
    match pget m a with
    | none => .error .nosource
    | some sum =>
      if amt > maxInt64 then .error .overflow else
      let r := SubInt64 sum (amt : Int)
      if r.2 = false then .error .overflow else subDests (pset m a r.1) rest

structure Gas where
  btmValue : Nat
  gasLeft : Int
  gasUsed : Int
  storageGas : Int
  deriving Repr, Inhabited, DecidableEq

def Gas.zero : Gas := ⟨0, 0, 0, 0⟩

/-- `GasState.setGas` (txSize is already `int64(tx.SerializedSize)`) -/
def setGas (g : Gas) (btmAmt : Int) (txSize : Int) : Except Err Gas :=
  if btmAmt < 0 then .error .gas else
  let r := DivInt64 btmAmt vmGasRate
  if r.2 = false then .error .gas else
  let gl := if r.1 > maxGasAmount then maxGasAmount else r.1
  let s := MulInt64 txSize storageGasRate
  if s.2 = false then .error .gas else
  .ok { g with btmValue := (wrapU 64 btmAmt).toNat, gasLeft := gl, storageGas := s.1 }

/-- third loop of `case *bc.Mux`, in the order the entries are listed -/
def parityLoop (txSize : Int) : Gas → PMap → Except Err Gas
  | g, [] => .ok g
  | g, (a, v) :: rest =>
    if a = btm then
      match setGas g v txSize with
      | .error e => .error e
      | .ok g' => parityLoop txSize g' rest
    else if v ≠ 0 then .error .unbalanced
    else parityLoop txSize g rest

/-- `GasState.updateUsage` -/
def updateUsage (g : Gas) (gasLeft : Int) : Except Err Gas :=
  if gasLeft < 0 then .error .gas else
  let r := SubInt64 g.gasLeft gasLeft
  if r.2 = false then .error .gas else
  if g.storageGas > gasLeft then .error .overgas else
  .ok { g with gasUsed := wrapI 64 (g.gasUsed + r.1), gasLeft := gasLeft }

/-- vm.Verify with `gasLeft` as limit followed by updateUsage -/
def runVM (g : Gas) (i : Input) : Except Err Gas :=
  if i.vmOk = false ∨ g.gasLeft < (i.vmCost : Int) then .error .vm
  else updateUsage g (g.gasLeft - (i.vmCost : Int))

/-- `checkValid` of the entry behind mux source `idx` (reached through checkValidSrc).
    `laterCoinbase`: another coinbase input follows (then this one's WitnessDestination
    was never set by initMux); `src0Asset`: asset of `mux.Sources[0]`. -/
def checkInput (ctx : Ctx) (src0Asset : Nat) (laterCoinbase : Bool) (idx : Nat) (g : Gas) (i : Input) :
    Except Err Gas :=
  match i.kind with
  | .spend => runVM g i
  | .issue => runVM g i
  | .veto => if i.x ≠ voteKeyLen then .error .votepubkey else runVM g i
  | .coinbase =>
    if ctx.first = false then .error .wrongcoinbase
    else if laterCoinbase then .error .panic
    else if src0Asset ≠ btm then .error .wrongcoinbaseasset
    else if i.x > coinbaseArbitrarySizeLimit then .error .arbitrary
    else if idx ≠ 0 then .error .mismatchedref
    else .ok { g with storageGas := 0 }

def hasCoinbase (l : List Input) : Bool := l.any (fun i => i.kind = .coinbase)

def checkInputs (ctx : Ctx) (src0Asset : Nat) : Nat → Gas → List Input → Except Err Gas
  | _, g, [] => .ok g
  | idx, g, i :: rest =>
    match checkInput ctx src0Asset (hasCoinbase rest) idx g i with
    | .error e => .error e
    | .ok g' => checkInputs ctx src0Asset (idx + 1) g' rest

/-- `GasState.chargeStorageGas` -/
def chargeStorageGas (g : Gas) : Except Err Gas :=
  let r := SubInt64 g.gasLeft g.storageGas
  if r.2 = false ∨ r.1 < 0 then .error .gas else
  let u := AddInt64 g.gasUsed g.storageGas
  if u.2 = false then .error .gas else
  .ok { g with gasLeft := r.1, gasUsed := u.1 }

def src0Asset (tx : Tx) : Nat :=
  match tx.inputs with
  | [] => btm
  | i :: _ => (muxSource tx.outputs i).1

/-- `checkValid` `case *bc.Mux`. `order` is the iteration order of the Go map. -/
def checkMux (ctx : Ctx) (order : PMap → PMap) (tx : Tx) : Except Err Gas :=
  match addSources [] (tx.inputs.map (muxSource tx.outputs)) with
  | .error e => .error e
  | .ok m1 =>
    match subDests m1 (tx.outputs.map muxDest) with
    | .error e => .error e
    | .ok m2 =>
      match parityLoop (wrapI 64 tx.size) Gas.zero (order m2) with
      | .error e => .error e
      | .ok g1 =>
        match checkInputs ctx (src0Asset tx) 0 g1 tx.inputs with
        | .error e => .error e
        | .ok g2 => chargeStorageGas g2

/-- the `for i, resID := range e.ResultIds` loop of `case *bc.TxHeader`; the state is the
    memoised result of the mux (`vs.cache`), `none` before the first output reached it -/
def checkResults (ctx : Ctx) (order : PMap → PMap) (tx : Tx) : Option Gas → List Output → Except Err (Option Gas)
  | st, [] => .ok st
  | st, o :: rest =>
    if o.kind = .vote ∧ o.voteLen ≠ voteKeyLen then .error .votepubkey else
    let muxRes : Except Err Gas := match st with
      | some g => .ok g
      | none => checkMux ctx order tx
    match muxRes with
    | .error e => .error e
    | .ok g =>
      if o.kind = .vote ∧ o.amount < minVoteOutputAmount then .error .voteamount
      else if o.kind = .vote ∧ o.asset ≠ btm then .error .voteasset
      else checkResults ctx order tx (some g) rest

def hasDup : List Nat → Bool
  | [] => false
  | a :: t => t.contains a || hasDup t

/-- `validation.ValidateTx` -/
def validateTx (ctx : Ctx) (order : PMap → PMap) (tx : Tx) : Except Err Gas :=
  if ctx.blockVersion = 1 ∧ tx.version ≠ 1 then .error .txversion
  else if tx.size = 0 then .error .size
  else if tx.timeRange ≠ 0 ∧ tx.timeRange < ctx.blockHeight then .error .timerange
  else if hasDup (tx.inputs.map (·.id)) then .error .doublespend
  else match checkResults ctx order tx none tx.outputs with
    | .error e => .error e
    | .ok st =>
      if tx.version = 1 ∧ tx.outputs.isEmpty then .error .emptyresults
      else .ok (st.getD Gas.zero)

/-! ### `TxData.Fee()` -/

def feeIn : List Input → Nat → Nat
  | [], acc => acc
  | i :: rest, acc =>
    feeIn rest (if i.kind ≠ .coinbase ∧ i.asset = btm then (acc + i.amount) % 2 ^ 64 else acc)

def feeOut : List Output → Nat → Nat
  | [], acc => acc
  | o :: rest, acc => feeOut rest (if o.asset = btm then (acc + o.amount) % 2 ^ 64 else acc)

def fee (tx : Tx) : Nat :=
  let i := feeIn tx.inputs 0
  let o := feeOut tx.outputs 0
  if i > o then i - o else 0

/-! ### iteration orders used by the driver: BTM entry first / last -/
def btmFirst (m : PMap) : PMap := m.filter (fun p => p.1 = btm) ++ m.filter (fun p => p.1 ≠ btm)
def btmLast (m : PMap) : PMap := m.filter (fun p => p.1 ≠ btm) ++ m.filter (fun p => p.1 = btm)

end BytomModel.Model.TxValidate
