/-
The node with its ledger: `Node.State` (chain skeleton + Casper) composed with the
persisted UTXO set and contract table.  `reorganizeChain` applies the detached / attached
blocks to fresh views and persists them together with the chain status; when a view refuses
a block the reorganisation fails and nothing is persisted (best block, index and chain
status stay as they were — the checkpoint tree does not).
-/
import BytomModel.Model.Node
import BytomModel.Model.Ledger
namespace BytomModel.NodeLedger
open BytomModel.Node BytomModel.Ledger

/-- what `ValidateBlock` looks at beyond the block's position: timestamp (ms after genesis),
    the validator order whose key signed the header (none = garbage signature), whether the
    timestamp is beyond now + MaxTimeOffset, and whether a context-free rule the model does
    not compute (merkle root, transaction validity, coinbase shape/amounts) is broken -/
structure Meta where
  ts : Nat
  signer : Option Nat
  future : Bool
  bad : Bool
deriving Repr, Inhabited

structure State where
  node : Node.State
  params : Ledger.Params
  interval : Nat := 1000
  metas : List (Nat × Meta) := []
  blockTxs : List (Nat × List Tx)     -- transactions of every defined block (coinbase first)
  utxo : View                         -- persisted entries
  contracts : CMap
deriving Inhabited

def State.txsOf (s : State) (b : Nat) : List Tx := ((s.blockTxs.find? (fun p => p.1 == b)).map (·.2)).getD []

/-- kind of a named output, from the transaction that creates it -/
def State.kindOf (s : State) (o : Nat) : OutKind :=
  match (s.blockTxs.flatMap (fun p => p.2.flatMap (·.outs))).find? (fun x => x.id == o) with
  | some x => x.kind
  | none => .retire

/-- the ledger part of `reorganizeChain` + `SaveChainStatus` -/
def State.ledgerReorg (s : State) (att det : List Header) : Option (View × CMap) :=
  -- detach, tip first
  let step1 := det.foldl (fun acc d =>
    match acc with
    | none => none
    | some (v, cd) =>
      let txs := s.txsOf d.id
      match detachBlockTxs s.kindOf txs (loadSpent s.utxo txs v) with
      | none => none
      | some v' => some (v', contractDetach txs cd)) (some (([] : View), ([] : CMap)))
  match step1 with
  | none => none
  | some (v1, cdet) =>
    let step2 := att.foldl (fun acc a =>
      match acc with
      | none => none
      | some (v, ca) =>
        let txs := s.txsOf a.id
        match applyBlockTxs s.params a.height true txs (loadSpent s.utxo txs v) with
        | none => none
        | some v' => some (v', contractAttach txs ca)) (some (v1, ([] : CMap)))
    match step2 with
    | none => none
    | some (v2, catt) => some (saveView s.utxo v2, saveContracts s.contracts catt cdet)

/-- wrap a step of the chain/casper model: if it moved the best block, the ledger must
    follow; if the ledger refuses, the move is undone (and the call reports an error) -/
def State.settle (pre : State) (post : Node.State) (r : Res) : State × Res :=
  if post.best == pre.node.best then ({ pre with node := post }, r)
  else
    match post.header post.best, post.header pre.node.best with
    | some nb, some ob =>
      match post.calcReorg (2 * post.fuel) nb ob [] [] with
      | some (att, det) =>
        match pre.ledgerReorg att det with
        | some (u, c) => ({ pre with node := post, utxo := u, contracts := c }, r)
        | none =>
          ({ pre with node := { post with best := pre.node.best, index := pre.node.index, statusFin := pre.node.statusFin } }, .err)
      | none => ({ pre with node := post }, r)
    | _, _ => ({ pre with node := post }, r)

def State.metaOf (s : State) (b : Nat) : Option Meta := (s.metas.find? (fun p => p.1 == b)).map (·.2)

/-- `ValidateBlockHeader` (height, parent, time window, proposer signature for the slot) and
    the context-free flags, for a block whose parent is stored. Blocks without recorded
    meta data (streams that only deliver valid blocks) are valid. -/
def State.validBlock (s : State) (b : Header) : Bool :=
  match s.metaOf b.id, s.node.header b.parent with
  | some m, some p =>
    let pts := match s.metaOf p.id with | some pm => pm.ts | none => 0
    if b.height != p.height + 1 then false
    else if m.ts < pts + s.interval then false
    else if m.future then false
    else
      -- verifyBlockSignature: validator scheduled for the slot, epoch start = checkpoint ts + interval
      let ckTs := match s.node.prevCheckpointHash s.node.fuel b.parent with
        | some ch => (match s.metaOf ch with | some cm => cm.ts | none => 0)
        | none => 0
      let start := ckTs + s.interval
      let order := ((m.ts - start) / s.interval) % s.node.cfg.nVal
      if m.signer != some order then false
      else !m.bad
  | _, _ => true

/-! ### the chain core with `ValidateBlock` where the real code has it

`Chain.saveBlock` validates the block (after it has read the parent header and the previous
checkpoint) at BOTH of its call sites: in `processBlock` for a block that arrives after its
parent, and in `saveSubBlock` for a block that leaves the orphan pool.  The three functions below
are `Node.State.saveBlock / saveSubBlock / processBlock` with that call inserted; `validBlock` is
evaluated against the node state of that moment (in which the parent is stored).  `env` supplies
the static tables (`metas`, `interval`) — the functions thread the evolving node state. -/

/-- `validBlock` of `b` in node state `n`, with the static tables of `env` -/
def State.validIn (env : State) (n : Node.State) (b : Header) : Bool := ({ env with node := n }).validBlock b

/-- `Chain.saveBlock`: ValidateBlock, then casper.ApplyBlock + store.SaveBlock -/
def State.saveBlockVn (env : State) (n : Node.State) (b : Header) : Node.State × Bool :=
  if !env.validIn n b then (n, false) else n.saveBlock b

/-- `Chain.saveSubBlock`: a refused orphan (invalid, or refused by casper) is dropped from the
    pool; the orphans waiting for IT stay in the pool -/
def State.saveSubBlockVn (env : State) : Nat → Node.State → Nat → Node.State
  | 0, n, _ => n
  | fuel + 1, n, id =>
    match alistGet n.prevOrphans id with
    | none => n
    | some waiting =>
      waiting.foldl (fun st o =>
        match lookupHeader st.orphans o with
        | none => st
        | some ob =>
          let (st1, ok) := env.saveBlockVn st ob
          if !ok then st1.orphanDelete o else State.saveSubBlockVn env fuel st1 o) n

/-- `Chain.processBlock` (the chain/casper part; the ledger follows in `settle`) -/
def State.chainProcessBlock (s : State) (b : Header) : Node.State × Res :=
  let n := s.node
  let exists_ := (n.header b.id).isSome || n.isOrphan b.id
  let bestH := match n.header n.best with | some h => h.height | none => 0
  if exists_ && bestH ≥ b.height then
    (n, if n.isOrphan b.id then .orphan else .ok)
  else if (n.header b.parent).isNone then
    (n.orphanAdd b, .orphan)
  else
    let (s1, ok) := s.saveBlockVn n b
    if !ok then (s1, .err) else
    let s2 := State.saveSubBlockVn s s1.fuel s1 b.id
    let (s3, ok3) := s2.tryReorganize s2.bestChain
    (s3, if ok3 then .ok else .err)

/-- `Chain.saveBlock` on the current state -/
def State.saveBlockV (s : State) (b : Header) : Node.State × Bool := s.saveBlockVn s.node b
/-- `Chain.saveSubBlock` on the current state -/
def State.saveSubBlockV (s : State) (fuel : Nat) (id : Nat) : Node.State := State.saveSubBlockVn s fuel s.node id

def State.processBlock (s : State) (b : Header) : State × Res :=
  let (n', r) := s.chainProcessBlock b
  s.settle n' r

def State.authVerification (s : State) (order src tgt : Nat) (sigOk : Bool) : State × Res :=
  let (n', r) := s.node.authVerification order src tgt sigOk
  s.settle n' r

def State.restart (s : State) : Option State :=
  s.node.restart.map (fun n' => { s with node := n' })

/-- genesis: its transactions are applied by `initChainStatus` -/
def State.init (cfg : Config) (p : Ledger.Params) (g : Header) (gtxs : List Tx) : State :=
  { node := Node.State.init cfg g, params := p, blockTxs := [(g.id, gtxs)],
    utxo := saveView [] ((applyBlockTxs p 0 true gtxs []).getD []), contracts := [] }

end BytomModel.NodeLedger
