/-
The node with its ledger: `Node.State` (chain skeleton + Casper) composed with the
persisted UTXO set and contract table.  `reorganizeChain` applies the detached / attached
blocks to fresh views and persists them together with the chain status; when a view refuses
a block the reorganisation fails and nothing is persisted (best block, index and chain
status stay as they were — the checkpoint tree does not).
-/
import BytomModel.Model.Node
import BytomModel.Model.Ledger
namespace BytomModel.NodeLedger
open BytomModel.Node BytomModel.Ledger

structure State where
  node : Node.State
  params : Ledger.Params
  blockTxs : List (Nat × List Tx)     -- transactions of every defined block (coinbase first)
  utxo : View                         -- persisted entries
  contracts : CMap
deriving Inhabited

def State.txsOf (s : State) (b : Nat) : List Tx := ((s.blockTxs.find? (fun p => p.1 == b)).map (·.2)).getD []

/-- kind of a named output, from the transaction that creates it -/
def State.kindOf (s : State) (o : Nat) : OutKind :=
  match (s.blockTxs.flatMap (fun p => p.2.flatMap (·.outs))).find? (fun x => x.id == o) with
  | some x => x.kind
  | none => .retire

/-- the ledger part of `reorganizeChain` + `SaveChainStatus` -/
def State.ledgerReorg (s : State) (att det : List Header) : Option (View × CMap) :=
  -- detach, tip first
  let step1 := det.foldl (fun acc d =>
    match acc with
    | none => none
    | some (v, cd) =>
      let txs := s.txsOf d.id
      match detachBlockTxs s.kindOf txs (loadSpent s.utxo txs v) with
      | none => none
      | some v' => some (v', contractDetach txs cd)) (some (([] : View), ([] : CMap)))
  match step1 with
  | none => none
  | some (v1, cdet) =>
    let step2 := att.foldl (fun acc a =>
      match acc with
      | none => none
      | some (v, ca) =>
        let txs := s.txsOf a.id
        match applyBlockTxs s.params a.height true txs (loadSpent s.utxo txs v) with
        | none => none
        | some v' => some (v', contractAttach txs ca)) (some (v1, ([] : CMap)))
    match step2 with
    | none => none
    | some (v2, catt) => some (saveView s.utxo v2, saveContracts s.contracts catt cdet)

/-- wrap a step of the chain/casper model: if it moved the best block, the ledger must
    follow; if the ledger refuses, the move is undone (and the call reports an error) -/
def State.settle (pre : State) (post : Node.State) (r : Res) : State × Res :=
  if post.best == pre.node.best then ({ pre with node := post }, r)
  else
    match post.header post.best, post.header pre.node.best with
    | some nb, some ob =>
      match post.calcReorg (2 * post.fuel) nb ob [] [] with
      | some (att, det) =>
        match pre.ledgerReorg att det with
        | some (u, c) => ({ pre with node := post, utxo := u, contracts := c }, r)
        | none =>
          ({ pre with node := { post with best := pre.node.best, index := pre.node.index, statusFin := pre.node.statusFin } }, .err)
      | none => ({ pre with node := post }, r)
    | _, _ => ({ pre with node := post }, r)

def State.processBlock (s : State) (b : Header) : State × Res :=
  let (n', r) := s.node.processBlock b
  s.settle n' r

def State.authVerification (s : State) (order src tgt : Nat) (sigOk : Bool) : State × Res :=
  let (n', r) := s.node.authVerification order src tgt sigOk
  s.settle n' r

def State.restart (s : State) : Option State :=
  s.node.restart.map (fun n' => { s with node := n' })

/-- genesis: its transactions are applied by `initChainStatus` -/
def State.init (cfg : Config) (p : Ledger.Params) (g : Header) (gtxs : List Tx) : State :=
  { node := Node.State.init cfg g, params := p, blockTxs := [(g.id, gtxs)],
    utxo := saveView [] ((applyBlockTxs p 0 true gtxs []).getD []), contracts := [] }

end BytomModel.NodeLedger
