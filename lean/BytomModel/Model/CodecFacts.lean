/-
The ordered codec-primitive calls of every `readFrom` / `writeTo` style method of
`protocol/bc/types` (and `bc.AssetAmount`) that `Model/Codec.lean` was written against — the
model's "schema flattening". `Ties/C04.lean` proves this table equal to the one REGENERATED from
the Go source on every run, so dropping, adding or reordering a primitive in the code breaks a
proof obligation. Which model definition mirrors which method:

  TxData.readFrom / writeTo                → decTx / encTx
  TxInput.readFrom / writeTo (+ writeInputCommitment / writeInputWitness) → decInput / encInput
  IssuanceInput / SpendInput / CoinbaseInput / VetoInput .readCommitment → decCommit (branch per type byte)
                                             .writeCommitment → encCommitment
                                             .readWitness / writeWitness → decWitness / encWitness
  SpendCommitment.readFrom                 → decSC = readExt decSCFields
  SpendCommitment.writeExtensibleString / writeContents → encSC / encSCFields
  TxOutput.readFrom / writeTo              → decOutput (readOutType, decOutBody) / encOutput (encOutBody)
  OutputCommitment.readFrom / writeTo      → decOC / encOC
  VoteOutput / originalTxOutput            → decOutBody's typed part / encTypedOutput
  AssetAmount.ReadFrom / WriteTo           → readHash + readVarint63 inside decSCFields, decOC
  BlockHeader.readFrom / writeTo           → decHeader / encHeader, encHeaderBody
  BlockCommitment / BlockWitness           → readExt readHash / readExt readVarstr31
  SupLinks / SupLink                       → decSupLinks, decSupLink (decSigs) / encSupLinks, encSupLink
  Block.readFrom / writeTo                 → decBlock (decBlockTx = decTx + mapTxD) / encBlock
Core Lean only.
-/
namespace BytomModel.Codec.Facts

def expectedCalls : List (String × List String) := [
  ("AssetAmount.ReadFrom", ["assetID.ReadFrom", "ReadVarint63"]),
  ("AssetAmount.WriteTo", ["a.AssetId.WriteTo", "WriteVarint63"]),
  ("Block.WriteTo", ["b.writeTo"]),
  ("Block.readFrom", ["b.BlockHeader.readFrom", "ReadVarint31", "data.readFrom", "NewTx"]),
  ("Block.writeTo", ["b.BlockHeader.writeTo", "WriteVarint31", "tx.WriteTo"]),
  ("BlockCommitment.readFrom", ["bc.TransactionsMerkleRoot.ReadFrom"]),
  ("BlockCommitment.writeTo", ["bc.TransactionsMerkleRoot.WriteTo"]),
  ("BlockHeader.WriteTo", ["bh.writeTo"]),
  ("BlockHeader.readFrom", ["io.ReadFull", "ReadVarint63", "ReadVarint63", "bh.PreviousBlockHash.ReadFrom", "ReadVarint63", "ReadExtensibleString(bh.BlockCommitment.readFrom)", "ReadExtensibleString(bh.BlockWitness.readFrom)", "ReadExtensibleString(bh.SupLinks.readFrom)"]),
  ("BlockHeader.writeTo", ["w.Write", "WriteVarint63", "WriteVarint63", "bh.PreviousBlockHash.WriteTo", "WriteVarint63", "WriteExtensibleString(bh.BlockCommitment.writeTo)", "WriteExtensibleString(bh.BlockWitness.writeTo)", "WriteExtensibleString(bh.SupLinks.writeTo)"]),
  ("BlockWitness.readFrom", ["ReadVarstr31"]),
  ("BlockWitness.writeTo", ["WriteVarstr31"]),
  ("CoinbaseInput.readCommitment", ["ReadVarstr31"]),
  ("CoinbaseInput.readWitness", []),
  ("CoinbaseInput.writeCommitment", ["w.Write", "WriteVarstr31"]),
  ("CoinbaseInput.writeWitness", []),
  ("IssuanceInput.readCommitment", ["ReadVarstr31", "ii.assetId.ReadFrom", "ReadVarint63"]),
  ("IssuanceInput.readWitness", ["ReadVarstr31", "ReadVarint63", "ReadVarstr31", "ReadVarstrList"]),
  ("IssuanceInput.writeCommitment", ["w.Write", "WriteVarstr31", "assetID.WriteTo", "WriteVarint63"]),
  ("IssuanceInput.writeWitness", ["WriteVarstr31", "WriteVarint63", "WriteVarstr31", "WriteVarstrList"]),
  ("OutputCommitment.readFrom", ["oc.AssetAmount.ReadFrom", "ReadVarint63", "ReadVarstr31", "ReadVarstrList"]),
  ("OutputCommitment.writeTo", ["oc.AssetAmount.WriteTo", "WriteVarint63", "WriteVarstr31", "WriteVarstrList"]),
  ("SpendCommitment.readFrom", ["ReadExtensibleString(func)", "sc.SourceID.ReadFrom", "sc.AssetAmount.ReadFrom", "ReadVarint63", "ReadVarint63", "ReadVarstr31", "ReadVarstrList"]),
  ("SpendCommitment.writeContents", ["sc.SourceID.WriteTo", "sc.AssetAmount.WriteTo", "WriteVarint63", "WriteVarint63", "WriteVarstr31", "WriteVarstrList", "w.Write"]),
  ("SpendCommitment.writeExtensibleString", ["WriteExtensibleString(func)", "sc.writeContents"]),
  ("SpendInput.readCommitment", ["si.SpendCommitment.readFrom"]),
  ("SpendInput.readWitness", ["ReadVarstrList"]),
  ("SpendInput.writeCommitment", ["w.Write", "si.SpendCommitment.writeExtensibleString"]),
  ("SpendInput.writeWitness", ["WriteVarstrList"]),
  ("SupLink.readFrom", ["ReadVarint63", "s.SourceHash.ReadFrom", "ReadVarstr31"]),
  ("SupLink.writeTo", ["WriteVarint63", "s.SourceHash.WriteTo", "WriteVarstr31"]),
  ("SupLinks.readFrom", ["ReadVarint31", "supLink.readFrom"]),
  ("SupLinks.writeTo", ["WriteVarint31", "supLink.writeTo"]),
  ("TxData.WriteTo", ["tx.writeTo"]),
  ("TxData.readFrom", ["io.ReadFull", "ReadVarint63", "ReadVarint63", "ReadVarint31", "ti.readFrom", "ReadVarint31", "to.readFrom"]),
  ("TxData.writeTo", ["w.Write", "WriteVarint63", "WriteVarint63", "WriteVarint31", "ti.writeTo", "WriteVarint31", "to.writeTo"]),
  ("TxInput.readFrom", ["ReadVarint63", "ReadExtensibleString(func)", "parseTypedInput", "t.readCommitment", "ReadExtensibleString(func)", "t.readWitness"]),
  ("TxInput.writeInputCommitment", ["t.writeCommitment"]),
  ("TxInput.writeInputWitness", ["t.writeWitness"]),
  ("TxInput.writeTo", ["WriteVarint63", "WriteExtensibleString(t.writeInputCommitment)", "WriteExtensibleString(t.writeInputWitness)"]),
  ("TxOutput.readFrom", ["ReadVarint63", "parseTypedOutput", "ReadExtensibleString(func)", "to.TypedOutput.readFrom", "to.OutputCommitment.readFrom", "ReadVarstr31"]),
  ("TxOutput.writeTo", ["WriteVarint63", "w.Write", "WriteExtensibleString(func)", "to.TypedOutput.writeTo", "to.OutputCommitment.writeTo", "WriteVarstr31"]),
  ("VetoInput.readCommitment", ["vi.SpendCommitment.readFrom", "ReadVarstr31"]),
  ("VetoInput.readWitness", ["ReadVarstrList"]),
  ("VetoInput.writeCommitment", ["w.Write", "vi.SpendCommitment.writeExtensibleString", "WriteVarstr31"]),
  ("VetoInput.writeWitness", ["WriteVarstrList"]),
  ("VoteOutput.readFrom", ["ReadVarstr31"]),
  ("VoteOutput.writeTo", ["WriteVarstr31"]),
  ("originalTxOutput.readFrom", []),
  ("originalTxOutput.writeTo", [])
]

end BytomModel.Codec.Facts
