/-
Go fixed-width integer semantics over `Int`.

Every Go integer expression of type intN / uintN is modelled as an `Int`
that is kept inside the type's range by an explicit wrap after each
arithmetic operation, exactly as the Go spec defines overflow ("wraps
around", two's complement for signed types).
-/
namespace BytomModel.Fixed

/-- two's complement wrap of `x` into `[-2^(n-1), 2^(n-1))` -/
def wrapI (n : Nat) (x : Int) : Int :=
  (x + 2 ^ (n - 1)) % 2 ^ n - 2 ^ (n - 1)

/-- wrap of `x` into `[0, 2^n)` -/
def wrapU (n : Nat) (x : Int) : Int := x % 2 ^ n

def inI (n : Nat) (x : Int) : Prop := -(2 ^ (n - 1) : Int) ≤ x ∧ x < 2 ^ (n - 1)
def inU (n : Nat) (x : Int) : Prop := 0 ≤ x ∧ x < (2 ^ n : Int)

instance (n x) : Decidable (inI n x) := by unfold inI; infer_instance
instance (n x) : Decidable (inU n x) := by unfold inU; infer_instance

/-- Go `a / b` on integers: truncated toward zero (b ≠ 0 guarded by callers). -/
abbrev goDiv (a b : Int) : Int := Int.tdiv a b
/-- Go `a % b`: sign follows the dividend. -/
abbrev goMod (a b : Int) : Int := Int.tmod a b
/-- Go `a >> s` for s ≥ 0: arithmetic shift (floor division by 2^s). -/
def goShr (a : Int) (s : Int) : Int := a / 2 ^ s.toNat
/-- Go `a << s` before wrapping. -/
def goShl (a : Int) (s : Int) : Int := a * 2 ^ s.toNat

end BytomModel.Fixed
