/-
Executable SHA-512, HMAC-SHA512 and the Ed25519 group (core Lean only), used by the C28
driver so that chainkd results can be compared byte-for-byte with the Go implementation
(`crypto/sha512`, `crypto/hmac`, `crypto/ed25519/internal/edwards25519`).  No theorem depends
on this file: theorems take the group and the PRFs as parameters (`BytomModel.KD`).
-/
namespace BytomModel.KDCrypto

abbrev Bytes := List Nat

/-! ### SHA-512 -/

def k512 : Array UInt64 := #[
    0x428a2f98d728ae22, 0x7137449123ef65cd, 0xb5c0fbcfec4d3b2f, 0xe9b5dba58189dbbc,
  0x3956c25bf348b538, 0x59f111f1b605d019, 0x923f82a4af194f9b, 0xab1c5ed5da6d8118,
  0xd807aa98a3030242, 0x12835b0145706fbe, 0x243185be4ee4b28c, 0x550c7dc3d5ffb4e2,
  0x72be5d74f27b896f, 0x80deb1fe3b1696b1, 0x9bdc06a725c71235, 0xc19bf174cf692694,
  0xe49b69c19ef14ad2, 0xefbe4786384f25e3, 0x0fc19dc68b8cd5b5, 0x240ca1cc77ac9c65,
  0x2de92c6f592b0275, 0x4a7484aa6ea6e483, 0x5cb0a9dcbd41fbd4, 0x76f988da831153b5,
  0x983e5152ee66dfab, 0xa831c66d2db43210, 0xb00327c898fb213f, 0xbf597fc7beef0ee4,
  0xc6e00bf33da88fc2, 0xd5a79147930aa725, 0x06ca6351e003826f, 0x142929670a0e6e70,
  0x27b70a8546d22ffc, 0x2e1b21385c26c926, 0x4d2c6dfc5ac42aed, 0x53380d139d95b3df,
  0x650a73548baf63de, 0x766a0abb3c77b2a8, 0x81c2c92e47edaee6, 0x92722c851482353b,
  0xa2bfe8a14cf10364, 0xa81a664bbc423001, 0xc24b8b70d0f89791, 0xc76c51a30654be30,
  0xd192e819d6ef5218, 0xd69906245565a910, 0xf40e35855771202a, 0x106aa07032bbd1b8,
  0x19a4c116b8d2d0c8, 0x1e376c085141ab53, 0x2748774cdf8eeb99, 0x34b0bcb5e19b48a8,
  0x391c0cb3c5c95a63, 0x4ed8aa4ae3418acb, 0x5b9cca4f7763e373, 0x682e6ff3d6b2b8a3,
  0x748f82ee5defb2fc, 0x78a5636f43172f60, 0x84c87814a1f0ab72, 0x8cc702081a6439ec,
  0x90befffa23631e28, 0xa4506cebde82bde9, 0xbef9a3f7b2c67915, 0xc67178f2e372532b,
  0xca273eceea26619c, 0xd186b8c721c0c207, 0xeada7dd6cde0eb1e, 0xf57d4f7fee6ed178,
  0x06f067aa72176fba, 0x0a637dc5a2c898a6, 0x113f9804bef90dae, 0x1b710b35131c471b,
  0x28db77f523047d84, 0x32caab7b40c72493, 0x3c9ebe0a15c9bebc, 0x431d67c49c100d4c,
  0x4cc5d4becb3e42b6, 0x597f299cfc657e2a, 0x5fcb6fab3ad6faec, 0x6c44198c4a475817]

def h512 : Array UInt64 := #[
    0x6a09e667f3bcc908, 0xbb67ae8584caa73b, 0x3c6ef372fe94f82b, 0xa54ff53a5f1d36f1,
  0x510e527fade682d1, 0x9b05688c2b3e6c1f, 0x1f83d9abfb41bd6b, 0x5be0cd19137e2179]

@[inline] def rotr (x : UInt64) (n : UInt64) : UInt64 := (x >>> n) ||| (x <<< (64 - n))

def processBlock (h : Array UInt64) (blk : Array UInt8) : Array UInt64 := Id.run do
  let mut w : Array UInt64 := Array.replicate 80 0
  for i in [0:16] do
    let mut x : UInt64 := 0
    for j in [0:8] do
      x := (x <<< 8) ||| blk[8*i+j]!.toUInt64
    w := w.set! i x
  for i in [16:80] do
    let s0 := rotr w[i-15]! 1 ^^^ rotr w[i-15]! 8 ^^^ (w[i-15]! >>> 7)
    let s1 := rotr w[i-2]! 19 ^^^ rotr w[i-2]! 61 ^^^ (w[i-2]! >>> 6)
    w := w.set! i (w[i-16]! + s0 + w[i-7]! + s1)
  let mut a := h[0]!; let mut b := h[1]!; let mut c := h[2]!; let mut d := h[3]!
  let mut e := h[4]!; let mut f := h[5]!; let mut g := h[6]!; let mut hh := h[7]!
  for i in [0:80] do
    let s1 := rotr e 14 ^^^ rotr e 18 ^^^ rotr e 41
    let ch := (e &&& f) ^^^ ((~~~ e) &&& g)
    let t1 := hh + s1 + ch + k512[i]! + w[i]!
    let s0 := rotr a 28 ^^^ rotr a 34 ^^^ rotr a 39
    let maj := (a &&& b) ^^^ (a &&& c) ^^^ (b &&& c)
    let t2 := s0 + maj
    hh := g; g := f; f := e; e := d + t1; d := c; c := b; b := a; a := t1 + t2
  return #[h[0]! + a, h[1]! + b, h[2]! + c, h[3]! + d, h[4]! + e, h[5]! + f, h[6]! + g, h[7]! + hh]

def sha512 (msg : Bytes) : Bytes := Id.run do
  let len := msg.length
  let padZeros := (111 + 128 - len % 128) % 128
  let bitLen := len * 8
  let lenBytes : List Nat := (List.range 16).map (fun i => (bitLen >>> (8 * (15 - i))) % 256)
  let padded : Array UInt8 := ((msg ++ [0x80] ++ List.replicate padZeros 0 ++ lenBytes).map UInt8.ofNat).toArray
  let mut h := h512
  for b in [0:padded.size / 128] do
    h := processBlock h (padded.extract (128 * b) (128 * b + 128))
  return (h.toList.map (fun (x : UInt64) => (List.range 8).map (fun i => (x >>> (UInt64.ofNat (8 * (7 - i)))).toUInt8.toNat))).flatten

/-- HMAC-SHA512 (block size 128) -/
def hmacSha512 (key msg : Bytes) : Bytes :=
  let key := if key.length > 128 then sha512 key else key
  let key := key ++ List.replicate (128 - key.length) 0
  let ipad := key.map (· ^^^ 0x36)
  let opad := key.map (· ^^^ 0x5c)
  sha512 (opad ++ sha512 (ipad ++ msg))

/-! ### Ed25519 group (extended twisted Edwards coordinates over `Nat` mod p) -/

def p : Nat := 2 ^ 255 - 19
def ell : Nat := 2 ^ 252 + 27742317777372353535851937790883648493
def dConst : Nat := 37095705934669439343138083508754565189542113879843219016388785533085940283555
def sqrtM1 : Nat := 19681161376707505956807079304988542015446066515923890162744021073123829784752
def baseX : Nat := 15112221349535400772501151409588531511454012693041857206046113283949847762202
def baseY : Nat := 46316835694926478169428394003475163141307993866256225615783033603165251855960

def powMod (b e m : Nat) : Nat := Id.run do
  let mut r := 1
  let mut b := b % m
  let mut e := e
  for _ in [0:e.log2 + 1] do
    if e % 2 == 1 then r := r * b % m
    b := b * b % m
    e := e / 2
  return r

def inv (x : Nat) : Nat := powMod x (p - 2) p
@[inline] def sub (a b : Nat) : Nat := (a + p - b % p) % p

/-- a point in extended coordinates (X : Y : Z : T), x = X/Z, y = Y/Z, xy = T/Z -/
structure Point where
  x : Nat
  y : Nat
  z : Nat
  t : Nat

def Point.zero : Point := ⟨0, 1, 1, 0⟩
def basePoint : Point := ⟨baseX, baseY, 1, baseX * baseY % p⟩

def Point.add (a b : Point) : Point :=
  let A := sub a.y a.x * sub b.y b.x % p
  let B := (a.y + a.x) * (b.y + b.x) % p
  let C := a.t * 2 % p * dConst % p * b.t % p
  let D := a.z * 2 % p * b.z % p
  let E := sub B A
  let F := sub D C
  let G := (D + C) % p
  let H := (B + A) % p
  ⟨E * F % p, G * H % p, F * G % p, E * H % p⟩

def Point.neg (a : Point) : Point := ⟨sub 0 a.x, a.y, a.z, sub 0 a.t⟩

def Point.smul (n : Nat) (a : Point) : Point := Id.run do
  let mut r := Point.zero
  let mut q := a
  let mut n := n
  for _ in [0:n.log2 + 1] do
    if n % 2 == 1 then r := r.add q
    q := q.add q
    n := n / 2
  return r

def fromLE (b : Bytes) : Nat := b.foldr (fun x acc => acc * 256 + x) 0
def toLE : Nat → Nat → Bytes
  | 0, _ => []
  | len + 1, n => (n % 256) :: toLE len (n / 256)

/-- `ExtendedGroupElement.ToBytes` -/
def Point.encode (a : Point) : Bytes :=
  let zi := inv a.z
  let x := a.x * zi % p
  let y := a.y * zi % p
  toLE 32 (y + (x % 2) * 2 ^ 255)

/-- `ExtendedGroupElement.FromBytes` -/
def decode (b : Bytes) : Option Point :=
  if b.length ≠ 32 then none else
  let n := fromLE b
  let sign := n / 2 ^ 255
  let y := (n % 2 ^ 255) % p
  let u := sub (y * y % p) 1
  let v := (dConst * (y * y % p) + 1) % p
  -- x = u v^3 (u v^7)^((p-5)/8)
  let v3 := v * v % p * v % p
  let v7 := v3 * v3 % p * v % p
  let x := u * v3 % p * powMod (u * v7 % p) ((p - 5) / 8) p % p
  let vxx := v * (x * x % p) % p
  let x? : Option Nat :=
    if vxx == u then some x
    else if vxx == sub 0 u then some (x * sqrtM1 % p)
    else none
  match x? with
  | none => none
  | some x =>
    let x := if x % 2 ≠ sign then sub 0 x else x
    some ⟨x, y, 1, x * y % p⟩

end BytomModel.KDCrypto
