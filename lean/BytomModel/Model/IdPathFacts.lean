/-
Integer conversions and narrow integer parameters on the path from a decoded transaction to its
entry ids (`protocol/bc/types`), as the entry model (`Model/Entry.lean`) assumes them: every
uint64 field of the wire format (amounts, source position, vm versions, version, time range)
reaches `writeForHash` as a full `uint64` (`le64` in the model); the only conversions are the
WIDENING `uint64(i)` of loop indices (ordinals / positions, `i` in `resultIDs`), the opcode byte of
the mux program, and the `uint8` type tags. `Ties/C03.lean` proves these lists equal to the ones
REGENERATED from the source, so a new (narrowing) conversion on the id path breaks a tie by name.
Core Lean only.
-/
namespace BytomModel.IdPathFacts

def conversions : List String := ["map.go:mapHelper.mapIssuanceInput uint64(i)", "map.go:mapHelper.mapSpendInput uint64(i)", "map.go:mapHelper.mapVetoInput uint64(i)", "map.go:mapHelper.initMux byte(vm.OP_TRUE)", "map.go:mapHelper.mapOutputs uint64(i)", "map.go:mapHelper.mapOutputs uint64(i)", "map.go:mapHelper.mapOutputs uint64(i)", "map.go:mapHelper.mapOutputs uint64(i)"]

def narrowIntegers : List String := ["map.go:mapHelper.mapCoinbaseInput param(i int)", "map.go:mapHelper.mapIssuanceInput param(i int)", "map.go:mapHelper.mapSpendInput param(i int)", "map.go:mapHelper.mapVetoInput param(i int)", "txoutput.go:ComputeOutputID param(inputType uint8)", "spend.go:SpendInput.InputType result( uint8)", "issuance.go:IssuanceInput.InputType result( uint8)", "coinbase.go:CoinbaseInput.InputType result( uint8)", "veto_input.go:VetoInput.InputType result( uint8)", "vote_output.go:VoteOutput.OutputType result( uint8)", "original_output.go:originalTxOutput.OutputType result( uint8)"]

end BytomModel.IdPathFacts
