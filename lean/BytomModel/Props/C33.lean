/-
C33 — Header and block sync responses are well-formed.

All theorems are about `BytomModel.Model.Sync` (the model of `locateHeaders`/`locateBlocks`
that is compared with the real functions on every run).  `WF c` is the consistency of the
`Chain` implementation the functions are handed: the main-chain entry at height `i` is a
known header of height `i`, and a header looked up by hash has that hash.
-/
import BytomModel.Model.Sync
import BytomModel.Lemmas.Sync

namespace BytomModel.Props.C33
open BytomModel.Model.Sync BytomModel.Lemmas.Sync

/-! ### the property -/

/-- at most `maxNum` items (for every `maxNum` a `uint64` ≥ 1 can hold) -/
theorem locate_length (c : Chain) (loc : List Nat) (stop skip maxNum : Nat) (l : List Header)
    (h1 : 1 ≤ maxNum) (h2 : maxNum < two64) (h : locateHeaders c loc stop skip maxNum = .ok l) :
    l.length ≤ maxNum := by
  have ⟨g, sh, _, _, hc⟩ := locate_cases h
  have hit : iterations maxNum = maxNum - 1 := by
    unfold iterations
    have : maxNum + two64 - 1 = (maxNum - 1) + two64 := by omega
    rw [this, Nat.add_mod_right]; apply Nat.mod_eq_of_lt; omega
  rcases hc with rfl | ⟨_, _, rfl⟩ | ⟨_, _, rest, hr, rfl⟩
  · simp
  · simpa using h1
  · have := loop_length _ _ _ hr
    simp; omega

/-- every item is on the main chain -/
theorem locate_on_main (c : Chain) (w : WF c) (loc : List Nat) (stop skip maxNum : Nat) (l : List Header)
    (h : locateHeaders c loc stop skip maxNum = .ok l) : ∀ x ∈ l, inMain c x.id = true := by
  have ⟨g, sh, hg, hsh, hc⟩ := locate_cases h
  have hst := start_main w (loc := loc) hg
  have hstop : inMain c stop = true → inMain c sh.id = true := by
    intro hm; rw [w.byHashId _ _ hsh]; exact hm
  rcases hc with rfl | ⟨_, _, rfl⟩ | ⟨hm, _, rest, hr, rfl⟩
  · simp
  · intro x hx; simp at hx; subst hx; exact hst
  · intro x hx; simp at hx
    rcases hx with rfl | hx
    · exact hst
    · rcases loop_items w _ _ _ hr x hx with rfl | ⟨a, _⟩
      · exact hstop hm
      · exact a

/-- the response does not pass the stop block: no item is higher than the stop header -/
theorem locate_le_stop (c : Chain) (w : WF c) (loc : List Nat) (stop skip maxNum : Nat) (l : List Header) (sh : Header)
    (hsh : c.byHash stop = some sh) (h : locateHeaders c loc stop skip maxNum = .ok l) :
    ∀ x ∈ l, x.height ≤ sh.height := by
  have ⟨g, sh', hg, hsh', hc⟩ := locate_cases h
  rw [hsh] at hsh'; cases hsh'
  rcases hc with rfl | ⟨_, he, rfl⟩ | ⟨hm, hlt, rest, hr, rfl⟩
  · simp
  · intro x hx; simp at hx; subst hx; omega
  · intro x hx; simp at hx
    rcases hx with rfl | hx
    · omega
    · rcases loop_items w _ _ _ hr x hx with rfl | ⟨_, b⟩
      · exact Nat.le_refl _
      · omega

/-- a non-empty response starts at the chosen start: the first locator entry that is known
    and on the main chain, genesis when there is none -/
theorem start_first_mainchain (c : Chain) (loc : List Nat) (stop skip maxNum : Nat) (x : Header) (l : List Header)
    (h : locateHeaders c loc stop skip maxNum = .ok (x :: l)) :
    ∃ g, c.byHeight 0 = some g ∧ x = (findStart c loc).getD g := by
  have ⟨g, sh, hg, _, hc⟩ := locate_cases h
  refine ⟨g, hg, ?_⟩
  rcases hc with h0 | ⟨_, _, h1⟩ | ⟨_, _, rest, _, h2⟩
  · cases h0
  · cases h1; rfl
  · cases h2; rfl

/-- what `findStart` returns: it skips exactly the entries that are unknown or off the main chain -/
theorem findStart_first (c : Chain) (w : WF c) (loc : List Nat) :
    (∀ h, findStart c loc = some h →
        ∃ pre post, loc = pre ++ h.id :: post ∧ c.byHash h.id = some h ∧ inMain c h.id = true ∧
          ∀ j ∈ pre, inMain c j = false) ∧
    (findStart c loc = none → ∀ j ∈ loc, inMain c j = false) := by
  induction loc with
  | nil => simp [findStart]
  | cons id rest ih =>
    have key : ∀ h', c.byHash id = some h' → inMain c h'.id = inMain c id := by
      intro h' hb; rw [w.byHashId _ _ hb]
    have hnone : c.byHash id = none → inMain c id = false := by
      intro hb; unfold inMain; rw [hb]
    constructor
    · intro h hf
      unfold findStart at hf
      split at hf
      · rename_i h' hb
        split at hf
        · rename_i hm
          cases hf
          refine ⟨[], rest, ?_, ?_, hm, by simp⟩
          · simp [w.byHashId _ _ hb]
          · rw [w.byHashId _ _ hb]; exact hb
        · rename_i hm
          have ⟨pre, post, e1, e2, e3, e4⟩ := ih.1 h hf
          refine ⟨id :: pre, post, by simp [e1], e2, e3, ?_⟩
          intro j hj; simp at hj
          rcases hj with rfl | hj
          · rw [← key _ hb]; simpa using hm
          · exact e4 j hj
      · rename_i hb
        have ⟨pre, post, e1, e2, e3, e4⟩ := ih.1 h hf
        refine ⟨id :: pre, post, by simp [e1], e2, e3, ?_⟩
        intro j hj; simp at hj
        rcases hj with rfl | hj
        · exact hnone hb
        · exact e4 j hj
    · intro hf j hj
      unfold findStart at hf
      simp at hj
      split at hf
      · rename_i h' hb
        split at hf
        · cases hf
        · rename_i hm
          rcases hj with rfl | hj
          · rw [← key _ hb]; simpa using hm
          · exact ih.2 hf j hj
      · rename_i hb
        rcases hj with rfl | hj
        · exact hnone hb
        · exact ih.2 hf j hj

/-- heights strictly increase — for EVERY skip value (since fix 78882ab0 the loop leaves at the
    stop header as soon as `index + skip + 1` wraps around `uint64`) -/
theorem locate_increasing (c : Chain) (w : WF c) (loc : List Nat) (stop skip maxNum : Nat) (l : List Header)
    (h : locateHeaders c loc stop skip maxNum = .ok l) : incr l := by
  have ⟨g, sh, hg, hsh, hc⟩ := locate_cases h
  rcases hc with rfl | ⟨_, he, rfl⟩ | ⟨hm, hlt, rest, hr, rfl⟩
  · simp [incr]
  · simp [incr]
  · have ⟨s1, s2⟩ := loop_sorted w _ _ _ hlt hr
    unfold incr; rw [List.pairwise_cons]
    exact ⟨fun y hy => s2 y hy, s1⟩

/-- witness chain: three blocks 0,1,2 on the main chain -/
def chain3 : Chain where
  byHash := fun i => if i < 3 then some ⟨i, i⟩ else none
  byHeight := fun i => if i < 3 then some ⟨i, i⟩ else none

theorem chain3_wf : WF chain3 := by
  constructor
  · intro i h hh
    simp only [chain3] at hh ⊢
    split at hh
    · cases hh; rename_i hi; simp [hi]
    · cases hh
  · intro id h hh
    simp only [chain3] at hh
    split at hh
    · cases hh; rfl
    · cases hh

/-- "starts at the HIGHEST main-chain locator entry": true when the locator's main-chain
    entries come in descending height order (the shape honest peers send) -/
theorem start_highest_of_sorted (c : Chain) (w : WF c) (loc : List Nat) (h : Header)
    (hsorted : (loc.filter (fun j => inMain c j)).Pairwise
        (fun a b => ∀ ha hb, c.byHash a = some ha → c.byHash b = some hb → hb.height ≤ ha.height))
    (hf : findStart c loc = some h) :
    ∀ j ∈ loc, inMain c j = true → ∀ hj, c.byHash j = some hj → hj.height ≤ h.height := by
  have ⟨pre, post, e1, e2, e3, e4⟩ := (findStart_first c w loc).1 h hf
  intro j hj hm hhj hbj
  subst e1
  simp at hj
  rcases hj with hj | rfl | hj
  · have := e4 j hj; rw [hm] at this; cases this
  · rw [e2] at hbj; cases hbj; exact Nat.le_refl _
  · have hpre : pre.filter (fun j => inMain c j) = [] := by
      rw [List.filter_eq_nil_iff]; intro a ha; simp [e4 a ha]
    rw [List.filter_append, hpre, List.nil_append, List.filter_cons] at hsorted
    simp only [e3, if_true] at hsorted
    rw [List.pairwise_cons] at hsorted
    exact hsorted.1 j (by simp [List.mem_filter, hj, hm]) h hhj e2 hbj

/-- the property's wording at full strength: the response starts at the highest main-chain locator entry -/
def start_highest_full : Prop :=
  ∀ (c : Chain) (loc : List Nat) (stop skip maxNum : Nat) (x : Header) (l : List Header),
    WF c → locateHeaders c loc stop skip maxNum = .ok (x :: l) →
    ∀ j ∈ loc, inMain c j = true → ∀ hj, c.byHash j = some hj → hj.height ≤ x.height

/-- F19b: locator `[1, 2]` — the response starts at height 1 although entry 2 is on the main chain -/
theorem start_highest_full_refuted : ¬ start_highest_full := by
  intro h
  have := h chain3 [1, 2] 2 0 1000 ⟨1, 1⟩ [⟨2, 2⟩] chain3_wf (by decide) 2 (by simp) (by decide) ⟨2, 2⟩ (by decide)
  revert this; decide

/-- no error on a consistent chain whose main index reaches the stop block -/
theorem locate_no_error (c : Chain) (loc : List Nat) (stop skip maxNum : Nat) (g sh : Header)
    (hg : c.byHeight 0 = some g) (hsh : c.byHash stop = some sh) (hc : Contiguous c sh.height) :
    locateHeaders c loc stop skip maxNum ≠ .err := by
  unfold locateHeaders
  rw [hg]; simp only; rw [hsh]; simp only
  split
  · simp
  · split
    · simp
    · split
      · rename_i hr; exact absurd hr (loop_no_error hc _ _)
      · simp

/-- the response is the arithmetic progression `start, start+(skip+1), …` clipped at the stop
    block: item `k` is the stop header or sits at height `start + k·(skip+1)` (all `uint64` skips) -/
theorem locate_progression (c : Chain) (w : WF c) (loc : List Nat) (stop skip maxNum : Nat) (x : Header) (l : List Header) (sh : Header)
    (hsh : c.byHash stop = some sh) (hskip : skip < two64) (hu : sh.height ≤ two64)
    (h : locateHeaders c loc stop skip maxNum = .ok (x :: l)) :
    ∀ k (hk : k < (x :: l).length), (x :: l)[k] = sh ∨ (x :: l)[k].height = x.height + k * (skip + 1) := by
  have ⟨g, sh', hg, hsh', hc⟩ := locate_cases h
  rw [hsh] at hsh'; cases hsh'
  rcases hc with h0 | ⟨_, he, h1⟩ | ⟨hm, hlt, rest, hr, h2⟩
  · cases h0
  · cases h1; intro k hk; simp at hk; subst hk; exact Or.inr (by simp)
  · cases h2
    have ⟨p1, _⟩ := loop_progression w hskip hu _ _ _ hlt hr
    intro k hk
    cases k with
    | zero => right; simp
    | succ k =>
      simp only [List.getElem_cons_succ]
      rcases p1 k (by simpa using hk) with e | e
      · exact Or.inl e
      · right; rw [e]

/-- a response shorter than `maxNum` ends exactly at the stop block -/
theorem locate_reaches_stop (c : Chain) (w : WF c) (loc : List Nat) (stop skip maxNum : Nat) (x : Header) (l : List Header) (sh : Header)
    (hsh : c.byHash stop = some sh) (hskip : skip < two64) (hu : sh.height ≤ two64) (h1 : 1 ≤ maxNum) (h2 : maxNum < two64)
    (h : locateHeaders c loc stop skip maxNum = .ok (x :: l)) (hshort : (x :: l).length < maxNum) :
    ((x :: l).getLast?).map (·.height) = some sh.height := by
  have ⟨g, sh', hg, hsh', hc⟩ := locate_cases h
  rw [hsh] at hsh'; cases hsh'
  have hit : iterations maxNum = maxNum - 1 := by
    unfold iterations
    have : maxNum + two64 - 1 = (maxNum - 1) + two64 := by omega
    rw [this, Nat.add_mod_right]; apply Nat.mod_eq_of_lt; omega
  rcases hc with h0 | ⟨_, he, h1⟩ | ⟨hm, hlt, rest, hr, h2⟩
  · cases h0
  · cases h1; simp [he]
  · cases h2
    have ⟨_, p2⟩ := loop_progression w hskip hu _ _ _ hlt hr
    rcases p2 with e | e
    · cases l with
      | nil => simp at e
      | cons a r => rw [List.getLast?_cons_cons, e]; rfl
    · exfalso; simp at hshort; omega

/-! ### locateBlocks inherits (skip = 0, maxNum = 64) -/

/-- a block response is a non-empty-preserving prefix of the header response for `skip = 0`, `maxNum = 64` -/
theorem blocks_prefix_of_headers (c : Chain) (hasBlock : Nat → Bool) (loc : List Nat) (stop tmo : Nat) (bs : List Header)
    (h : locateBlocks c hasBlock loc stop tmo = .ok bs) :
    ∃ hs, locateHeaders c loc stop 0 maxNumOfBlocksPerMsg = .ok hs ∧ bs <+: hs ∧ (hs ≠ [] → bs ≠ []) := by
  unfold locateBlocks at h
  split at h
  · cases h
  · rename_i hs hh
    split at h
    · cases h
    · rename_i r hr
      cases h
      exact ⟨hs, hh, fetch_prefix _ _ _ hr⟩

/-- block responses: at most 64 items, all on the main chain, strictly increasing heights,
    none above the stop block -/
theorem blocks_wellformed (c : Chain) (w : WF c) (hasBlock : Nat → Bool) (loc : List Nat) (stop tmo : Nat) (bs : List Header) (sh : Header)
    (hsh : c.byHash stop = some sh)
    (h : locateBlocks c hasBlock loc stop tmo = .ok bs) :
    bs.length ≤ 64 ∧ (∀ x ∈ bs, inMain c x.id = true) ∧ incr bs ∧ (∀ x ∈ bs, x.height ≤ sh.height) := by
  have ⟨hs, hh, hp, _⟩ := blocks_prefix_of_headers c hasBlock loc stop tmo bs h
  have hsub : ∀ x ∈ bs, x ∈ hs := fun x hx => hp.subset hx
  refine ⟨?_, ?_, ?_, ?_⟩
  · have := locate_length c loc stop 0 maxNumOfBlocksPerMsg hs (by decide) (by decide) hh
    have := hp.length_le
    simp [maxNumOfBlocksPerMsg] at *; omega
  · exact fun x hx => locate_on_main c w loc stop 0 _ hs hh x (hsub x hx)
  · have := locate_increasing c w loc stop 0 _ hs hh
    exact List.Pairwise.sublist hp.sublist this
  · exact fun x hx => locate_le_stop c w loc stop 0 _ hs sh hsh hh x (hsub x hx)

/-! ### the request handlers (what a peer gets back)

The model of the handlers has no panic outcome: the handlers of `handle.go` never index the
located slice (`Ties.C33.tie_handlers_do_not_index`, re-extracted from the source on every
run) and the harness drives the real handlers under `recover` on every request shape. -/

/-- a get-headers request is answered with exactly the located headers, and only when there
    are some: the message sent is non-empty, ≤ 1000 items, all on the main chain, strictly
    increasing, not above the stop block -/
theorem handleGetHeaders_wellformed (c : Chain) (w : WF c) (loc : List Nat) (stop skip : Nat) (l : List Header) (sh : Header)
    (hsh : c.byHash stop = some sh) (h : handleGetHeaders c loc stop skip = some l) :
    locateHeaders c loc stop skip maxNumOfHeadersPerMsg = .ok l ∧ l ≠ [] ∧ l.length ≤ 1000 ∧
    (∀ x ∈ l, inMain c x.id = true) ∧ incr l ∧ (∀ x ∈ l, x.height ≤ sh.height) := by
  unfold handleGetHeaders at h
  split at h
  · rename_i x r hl
    cases h
    exact ⟨hl, by simp,
      locate_length c loc stop skip _ _ (by decide) (by decide) hl,
      locate_on_main c w loc stop skip _ _ hl, locate_increasing c w loc stop skip _ _ hl,
      locate_le_stop c w loc stop skip _ _ sh hsh hl⟩
  · cases h

/-- nothing is sent exactly when locating fails or finds nothing -/
theorem handleGetHeaders_none (c : Chain) (loc : List Nat) (stop skip : Nat) :
    handleGetHeaders c loc stop skip = none ↔
      (locateHeaders c loc stop skip maxNumOfHeadersPerMsg = .err ∨ locateHeaders c loc stop skip maxNumOfHeadersPerMsg = .ok []) := by
  unfold handleGetHeaders
  split
  · rename_i x r hl; simp [hl]
  · rename_i hne
    simp only [true_iff]
    cases hl : locateHeaders c loc stop skip maxNumOfHeadersPerMsg with
    | err => exact Or.inl rfl
    | ok items =>
      cases items with
      | nil => exact Or.inr rfl
      | cons x r => exact absurd hl (hne x r)

/-- a get-blocks request is answered with a prefix (size budget) of a NON-EMPTY located result:
    ≤ 64 items, all on the main chain, strictly increasing, not above the stop block -/
theorem handleGetBlocks_wellformed (c : Chain) (w : WF c) (hasBlock : Nat → Bool) (loc : List Nat) (stop tmo fits : Nat)
    (l : List Header) (sh : Header) (hsh : c.byHash stop = some sh)
    (h : handleGetBlocks c hasBlock loc stop tmo fits = some l) :
    (∃ bs, locateBlocks c hasBlock loc stop tmo = .ok bs ∧ bs ≠ [] ∧ l <+: bs) ∧ l.length ≤ 64 ∧
    (∀ x ∈ l, inMain c x.id = true) ∧ incr l ∧ (∀ x ∈ l, x.height ≤ sh.height) := by
  unfold handleGetBlocks at h
  split at h
  · rename_i x r hl
    cases h
    have ⟨b1, b2, b3, b4⟩ := blocks_wellformed c w hasBlock loc stop tmo (x :: r) sh hsh hl
    have hp : (x :: r).take fits <+: (x :: r) := List.take_prefix _ _
    have hsub : ∀ y ∈ (x :: r).take fits, y ∈ (x :: r) := fun y hy => hp.subset hy
    refine ⟨⟨x :: r, hl, by simp, hp⟩, ?_, fun y hy => b2 y (hsub y hy), ?_, fun y hy => b4 y (hsub y hy)⟩
    · have := hp.length_le; omega
    · exact List.Pairwise.sublist hp.sublist b3
  · cases h

/-- a get-block / get-merkle-block request is answered with the main-chain block at the asked
    height, or the block with the asked hash -/
theorem handleGetBlock_spec (c : Chain) (w : WF c) (hasBlock : Nat → Bool) (height id : Nat) (x : Header)
    (h : handleGetBlock c hasBlock height id = some x) :
    (height ≠ 0 ∧ x.height = height ∧ inMain c x.id = true) ∨ (height = 0 ∧ x.id = id ∧ c.byHash id = some x) := by
  unfold handleGetBlock at h
  split at h
  · rename_i hne
    exact Or.inl ⟨hne, (w.atHeight _ _ h).1, inMain_of_byHeight w h⟩
  · rename_i he
    split at h
    · rename_i hh hb
      split at h
      · cases h; exact Or.inr ⟨by simpa using he, w.byHashId _ _ hb, hb⟩
      · cases h
    · cases h

/-! ### the hypotheses are satisfiable on non-trivial values (tests, not proofs of the property) -/

example : WF chain3 ∧ Contiguous chain3 3 := ⟨chain3_wf, by intro i hi; simp [chain3, hi]⟩
/-- the F19 witnesses (repaired by 78882ab0): `skip = 2^64−1` and `skip = 2^64−2` now answer start, stop -/
example : locateHeaders chain3 [1] 2 (two64 - 1) 3 = .ok [⟨1, 1⟩, ⟨2, 2⟩] := by decide
example : locateHeaders (chainOf [(0,0),(1,1),(2,2),(3,3)] [(0,0),(1,1),(2,2),(3,3)]) [2] 3 (two64 - 2) 4
    = .ok [⟨2, 2⟩, ⟨3, 3⟩] := by decide
example : locateHeaders chain3 [7, 1] 2 0 1000 = .ok [⟨1, 1⟩, ⟨2, 2⟩] := by decide
example : locateHeaders chain3 [] 2 1 1000 = .ok [⟨0, 0⟩, ⟨2, 2⟩] := by decide
/-- the round-3 witnesses: requests that locate nothing are dropped (no message) -/
example : handleGetBlocks chain3 (fun _ => true) [2] 1 100 100 = none := by decide
example : handleGetHeaders chain3 [2] 1 0 = none := by decide
example : handleGetBlocks chain3 (fun _ => true) [1] 2 100 100 = some [⟨1, 1⟩, ⟨2, 2⟩] := by decide
example : locateBlocks chain3 (fun _ => true) [0] 2 1 = .ok [⟨0, 0⟩, ⟨1, 1⟩] := by decide

end BytomModel.Props.C33
