import BytomModel.Model.Sync
namespace BytomModel.Props.C33
open BytomModel.Model.Sync

theorem placeholder_len_nil : (locateHeaders ⟨fun _ => none, fun _ => none⟩ [] 0 0 1) = .err := by rfl

end BytomModel.Props.C33
