/-
C13 (and C10's "acceptance never depends on the forks the node saw"), contract calls.

The node-level model of C13 (Props/C13.lean) treats "the transactions of this block are valid"
as a flag of the block. That is sound exactly as long as the verdict on a block's programs does
not depend on the node's current main chain. For contract calls it does (Model/ContractEval):
the full statement is REFUTED by concrete witnesses — which the contract-call epilogue of the
rules mode replays on the real node (known findings F38o, F38s) — and the partial statement
that holds is proved for all blocks and chains.
-/
import BytomModel.Model.ContractEval

namespace BytomModel.Props.C13Contracts
open BytomModel.Model.ContractEval

/-- in-order delivery on the main chain: the main chain IS the block's ancestry, the node's
verdict is the consensus verdict -/
theorem store_verdict_is_own_verdict_on_the_main_chain (chain : List Blk) (b : Blk) :
    storeVerdict chain b = ownVerdict chain b := rfl

theorem all_congr_mem {α : Type} {l : List α} {p q : α → Bool}
    (h : ∀ a ∈ l, p a = q a) : l.all p = l.all q := by
  induction l with
  | nil => rfl
  | cons x xs ih =>
    simp only [List.all_cons]
    rw [h x List.mem_cons_self, ih (fun a ha => h a (List.mem_cons_of_mem _ ha))]

/-- the verdict on a block only depends on the registration status of the contracts it calls -/
theorem verdict_congr (t₁ t₂ : List CId) (b : Blk)
    (h : ∀ k ∈ calls b, t₁.contains k = t₂.contains k) :
    verdict t₁ b = verdict t₂ b := by
  unfold verdict
  apply all_congr_mem
  intro a ha
  cases a with
  | register k => rfl
  | call k ok =>
    have hk : k ∈ calls b := by
      unfold calls
      simp only [List.mem_filterMap]
      exact ⟨Act.call k ok, ha, rfl⟩
    simp only [actOk, h k hk]

/-- PARTIAL statement (holds for all chains and blocks): when every contract the block calls
has the same registration status on the node's main chain and on the block's own branch, the
node's store-time verdict is the consensus verdict — in particular for blocks that call no
contract at all, which is what every other stream of the harness generates -/
theorem store_verdict_sound_partial (mainChain ancestors : List Blk) (b : Blk)
    (h : ∀ k ∈ calls b, (tableOf mainChain).contains k = (tableOf ancestors).contains k) :
    storeVerdict mainChain b = ownVerdict ancestors b :=
  verdict_congr _ _ b h

theorem store_verdict_sound_without_calls (mainChain ancestors : List Blk) (b : Blk)
    (h : calls b = []) : storeVerdict mainChain b = ownVerdict ancestors b := by
  apply store_verdict_sound_partial
  intro k hk
  rw [h] at hk
  cases hk

/-- FULL statement refuted (F38s / F38o): B1 registers contract 7 on a branch that is not the
main chain (or is stored but not yet connected), its child B2 calls 7 with an argument the code
refuses: the node stores B2 (and later attaches it without another look), although B2 is
invalid on its own chain -/
theorem store_verdict_unsound_accepts_refused_call :
    ∃ (mainChain ancestors : List Blk) (b : Blk),
      storeVerdict mainChain b = true ∧ ownVerdict ancestors b = false :=
  ⟨[], [⟨[.register 7]⟩], ⟨[.call 7 false]⟩, by decide⟩

/-- the converse witness: a contract that only the CURRENT main chain registers is applied to
a block of a branch that never registered it -/
theorem store_verdict_unsound_refuses_valid_block :
    ∃ (mainChain ancestors : List Blk) (b : Blk),
      storeVerdict mainChain b = false ∧ ownVerdict ancestors b = true :=
  ⟨[⟨[.register 7]⟩], [], ⟨[.call 7 false]⟩, by decide⟩

/-- non-vacuity of the partial statement: a block that calls a contract registered on the
common prefix of both chains -/
example :
    let pre : Blk := ⟨[.register 3]⟩
    let b : Blk := ⟨[.call 3 true, .register 9]⟩
    (∀ k ∈ calls b, (tableOf [pre, ⟨[.register 5]⟩]).contains k = (tableOf [pre]).contains k) ∧
      storeVerdict [pre, ⟨[.register 5]⟩] b = true := by decide

end BytomModel.Props.C13Contracts
