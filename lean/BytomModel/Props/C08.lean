/-
C08 — every VM opcode matches an independent reference semantics.

The reference is the VALUE instance of the VM model (`valueMem`: stack items are immutable
byte strings).  The theorems below are the facts that make it a specification rather than a
copy of the implementation: the number codec, exact arithmetic on ℕ with the documented
error classes, bitwise length rules, splice results, stack ops as list rearrangements
with their exact underflow condition, and the gas cost table.  They hold for ALL operands.
-/
import BytomModel.Lemmas.VMNum
import BytomModel.Lemmas.VMStep
import BytomModel.Lemmas.VMHeap
import BytomModel.Lemmas.VMValue
import BytomModel.Lemmas.VMRefineOps2
namespace BytomModel.Props.C08
open BytomModel.VM

/-! ### numbers: little-endian, unsigned, at most 32 bytes, value < 2^255 -/

/-- encoding then decoding a number below 2^255 gives it back -/
theorem asBigInt_bigIntBytes (n : Nat) (h : n < two255) : asBigInt (bigIntBytes n) = .ok n := by
  have hlt : n < two256 := Nat.lt_trans h two255_lt_two256
  unfold asBigInt
  have hlen := bigIntBytes_length_le n
  rw [if_neg (by omega), leToNat_bigIntBytes_of_lt n hlt, if_neg (by omega)]

/-- results are minimal: at most 32 bytes and no trailing zero byte (0 is the empty string) -/
theorem bigIntBytes_minimal (n : Nat) :
    (bigIntBytes n).length ≤ 32 ∧ ∀ b, (bigIntBytes n).getLast? = some b → b ≠ 0 := by
  refine ⟨bigIntBytes_length_le n, ?_⟩
  unfold bigIntBytes
  apply natToLEF_getLast_ne_zero
  rw [← two256_eq]
  exact Nat.mod_lt _ (by unfold two256; positivity)

theorem bigIntBytes_zero : bigIntBytes 0 = [] := by decide

/-- more than 32 bytes: ErrBadValue, whatever the value -/
theorem asBigInt_rejects_long (b : Bytes) (h : 32 < b.length) : asBigInt b = .error .badValue := by
  unfold asBigInt; rw [if_pos h]

/-- at most 32 bytes but value ≥ 2^255 (top bit set): ErrRange -/
theorem asBigInt_rejects_topbit (b : Bytes) (h : b.length ≤ 32) (hv : two255 ≤ leToNat b) :
    asBigInt b = .error .range := by
  unfold asBigInt; rw [if_neg (by omega), if_pos hv]

/-- decoding accepts exactly the values below 2^255 and returns the little-endian value -/
theorem asBigInt_ok_iff (b : Bytes) (n : Nat) :
    asBigInt b = .ok n ↔ b.length ≤ 32 ∧ leToNat b < two255 ∧ n = leToNat b := by
  unfold asBigInt
  constructor
  · intro h
    split at h
    · cases h
    · split at h
      · cases h
      · cases h; exact ⟨by omega, by omega, rfl⟩
  · rintro ⟨h1, h2, rfl⟩
    rw [if_neg (by omega), if_neg (by omega)]

/-- non-minimal encodings (trailing zero bytes) denote the same number -/
theorem leToNat_append_zeros (b : Bytes) (k : Nat) : leToNat (b ++ List.replicate k 0) = leToNat b := by
  induction b with
  | nil => induction k with
    | zero => rfl
    | succ k ih => simp [List.replicate_succ, leToNat] at *; exact ih
  | cons x xs ih => simp [leToNat, ih]

/-! ### arithmetic: exact on ℕ, ErrRange iff the exact result does not fit below 2^255 -/

theorem rangeChecked_ok (r : Nat) (h : r < two255) : rangeChecked r = .ok (bigIntBytes r) := by
  unfold rangeChecked; rw [if_neg (by omega)]
theorem rangeChecked_err (r : Nat) (h : two255 ≤ r) : rangeChecked r = .error .range := by
  unfold rangeChecked; rw [if_pos h]

/-- a successful numeric result decodes to the exact value -/
theorem rangeChecked_decodes (r : Nat) (b : Bytes) (h : rangeChecked r = .ok b) : asBigInt b = .ok r := by
  unfold rangeChecked at h
  split at h
  · cases h
  · cases h; exact asBigInt_bigIntBytes r (by omega)

theorem add_exact (x y : Nat) : numAdd x y = if x + y < two255 then .ok (bigIntBytes (x + y)) else .error .range := by
  unfold numAdd rangeChecked; split <;> split <;> first | rfl | omega
theorem mul_exact (x y : Nat) : numMul x y = if x * y < two255 then .ok (bigIntBytes (x * y)) else .error .range := by
  unfold numMul rangeChecked; split <;> split <;> first | rfl | omega
theorem sub_exact (x y : Nat) : numSub x y = if y ≤ x then .ok (bigIntBytes (x - y)) else .error .range := by
  unfold numSub; split <;> split <;> first | rfl | omega
theorem add1_exact (x : Nat) : num1Add x = if x + 1 < two255 then .ok (bigIntBytes (x + 1)) else .error .range := by
  unfold num1Add rangeChecked; split <;> split <;> first | rfl | omega
theorem sub1_exact (x : Nat) : num1Sub x = if 0 < x then .ok (bigIntBytes (x - 1)) else .error .range := by
  unfold num1Sub; split <;> split <;> first | rfl | omega
theorem mul2_exact (x : Nat) : num2Mul x = if 2 * x < two255 then .ok (bigIntBytes (2 * x)) else .error .range := by
  unfold num2Mul rangeChecked; split <;> split <;> first | rfl | omega
theorem div2_exact (x : Nat) : num2Div x = .ok (bigIntBytes (x / 2)) := rfl
theorem div_by_zero (x : Nat) : numDiv x 0 = .error .divZero := rfl
theorem mod_by_zero (x : Nat) : numMod x 0 = .error .divZero := rfl
theorem div_exact (x y : Nat) (h : y ≠ 0) : numDiv x y = .ok (bigIntBytes (x / y)) := by
  unfold numDiv; rw [if_neg h]
theorem mod_exact (x y : Nat) (h : y ≠ 0) : numMod x y = .ok (bigIntBytes (x % y)) := by
  unfold numMod; rw [if_neg h]
theorem rshift_exact (x y : Nat) (h : y < 256) : numRshift x y = .ok (bigIntBytes (x / 2 ^ y)) := by
  unfold numRshift; rw [if_pos h]
/-- shift counts of 256 or more give 0 (both directions), never an error -/
theorem shift_ge_256_is_zero (x y : Nat) (h : 256 ≤ y) :
    numRshift x y = .ok [] ∧ numLshift x y = .ok [] := by
  have hy : ¬ y < 256 := by omega
  unfold numRshift numLshift rangeChecked
  simp only [hy, if_false]
  exact ⟨by rw [bigIntBytes_zero], by rw [if_neg (by decide), bigIntBytes_zero]⟩

theorem min_exact (x y : Nat) : numMin x y = .ok (bigIntBytes (min x y)) := by
  unfold numMin; congr 2; split <;> omega
theorem max_exact (x y : Nat) : numMax x y = .ok (bigIntBytes (max x y)) := by
  unfold numMax; congr 2; split <;> omega

/-- LSHIFT at full strength: exact `x · 2^y`, ErrRange iff that does not fit below 2^255 -/
def lshift_full : Prop :=
  ∀ x y : Nat, x < two255 → y < 256 →
    numLshift x y = if x * 2 ^ y < two255 then .ok (bigIntBytes (x * 2 ^ y)) else .error .range

/-- the code drops the bits shifted out of the 256-bit word: `2 << 255 = 0`, no error -/
theorem lshift_full_refuted : ¬ lshift_full := by
  intro h
  have := h 2 255 (by decide) (by decide)
  revert this
  decide

/-- LSHIFT is exact whenever the exact result still fits the 256-bit word -/
theorem lshift_exact_partial (x y : Nat) (hy : y < 256) (hfit : x * 2 ^ y < two256) :
    numLshift x y = if x * 2 ^ y < two255 then .ok (bigIntBytes (x * 2 ^ y)) else .error .range := by
  unfold numLshift rangeChecked
  rw [if_pos hy, Nat.mod_eq_of_lt hfit]
  split <;> split <;> first | rfl | omega

example : (2 : Nat) * 2 ^ 200 < two256 := by decide

/-! ### bitwise: AND truncates to the shorter operand, OR/XOR extend to the longer -/

theorem and_length (a b : Bytes) : (andBytes a b).length = min a.length b.length := by
  induction a generalizing b with
  | nil => simp [andBytes]
  | cons x xs ih =>
    cases b with
    | nil => simp [andBytes]
    | cons y ys => simp [andBytes, ih]

theorem or_length (x : Bool) (a b : Bytes) : (orBytes x a b).length = max a.length b.length := by
  induction a generalizing b with
  | nil => cases b <;> simp [orBytes]
  | cons p ps ih =>
    cases b with
    | nil => simp [orBytes]
    | cons q qs => simp [orBytes, ih]

theorem and_getElem (a b : Bytes) (i : Nat) (ha : i < a.length) (hb : i < b.length) :
    (andBytes a b)[i]? = some (a[i] &&& b[i]) := by
  induction a generalizing b i with
  | nil => simp at ha
  | cons x xs ih =>
    cases b with
    | nil => simp at hb
    | cons y ys =>
      cases i with
      | zero => simp [andBytes]
      | succ i => simp [andBytes]; exact ih ys i (by simpa using ha) (by simpa using hb)

/-- OR with the empty string is the identity (zero extension) -/
theorem or_nil_right (x : Bool) (a : Bytes) : orBytes x a [] = a := by cases a <;> simp [orBytes]
theorem or_nil_left (x : Bool) (b : Bytes) : orBytes x [] b = b := by simp [orBytes]

/-! ### the gas cost table -/

section
variable {μ ι : Type} (M : MemOps μ ι) (ctx : Context ι)

/-- **cost table**: for every memory model and every defined opcode other than
    CHECKPREDICATE, a successful handler run followed by the deferred charge takes at least
    `baseCost op` from `runLimit + stackCost`; a failing handler never raises it. -/
theorem cost_table (L : MemLaws M) (op : Nat) (data : Bytes) (s : St μ ι) (h : 0 ≤ s.f.runLimit)
    (hdef : isDefinedOp op = true) (hcp : op ≠ 0xc0) :
    OpOK M (baseCost op) s (execOp M ctx op data s) :=
  execOp_ok M ctx L op data s h hdef hcp

/-- CHECKPREDICATE: 256 up front, 192 returned: at least 64 plus the child's limit -/
theorem cost_checkpredicate (s : St μ ι) (h : 0 ≤ s.f.runLimit) : PreludeOK M s (cpPrelude M s) :=
  cpPrelude_ok M s h

end

theorem baseCost_values : baseCost 0x61 = 1 ∧ baseCost 0x6b = 2 ∧ baseCost 0x6f = 3 ∧ baseCost 0x7e = 4 ∧
    baseCost 0x95 = 8 ∧ baseCost 0xc1 = 16 ∧ baseCost 0xaa = 64 ∧ baseCost 0xae = 256 ∧
    baseCost 0xac = 1024 ∧ baseCost 0xad = 0 := by decide

/-- the cost table applies to both instances of the model -/
example : MemLaws valueMem := valueMem_laws
example : MemLaws (heapMem goGrow) := heapMem_laws goGrow

/-! ### stack manipulation and splice opcodes on the reference (value) model:
exact resulting stack, gas and error for explicitly given stacks -/

section
open OpM

/-- DUP copies the top item; it costs 1 plus the item's memory -/
theorem dup_spec (prog : Bytes) (pc nextPC : Nat) (rl d : Int) (x : Bytes) (rest alt : List Bytes) (depth : Nat) (er : Bool) (hg : 1 + (8 + (x.length : Int)) ≤ rl) :
    nDup valueMem 1 ⟨(), ⟨prog, pc, nextPC, rl, d, x :: rest, alt, depth, er⟩⟩
      = .ok () ⟨(), ⟨prog, pc, nextPC, rl - 1 - (8 + (x.length : Int)), d, x :: x :: rest, alt, depth, er⟩⟩ := by
  vm_eval [nDup, dupLoop_one, dupLoop_zero]

/-- DROP removes the top item and refunds its memory -/
theorem drop_spec (prog : Bytes) (pc nextPC : Nat) (rl d : Int) (x : Bytes) (rest alt : List Bytes) (depth : Nat) (er : Bool) (hg : 1 ≤ rl) :
    opDrop valueMem ⟨(), ⟨prog, pc, nextPC, rl, d, x :: rest, alt, depth, er⟩⟩
      = .ok () ⟨(), ⟨prog, pc, nextPC, rl - 1 + (8 + (x.length : Int)), d, rest, alt, depth, er⟩⟩ := by
  vm_eval [opDrop]

/-- SWAP exchanges the two top items -/
theorem swap_spec (prog : Bytes) (pc nextPC : Nat) (rl d : Int) (x2 x1 : Bytes) (rest alt : List Bytes) (depth : Nat) (er : Bool) (hg : 1 ≤ rl) :
    (opSwap : OpM (St Unit Bytes) Unit) ⟨(), ⟨prog, pc, nextPC, rl, d, x2 :: x1 :: rest, alt, depth, er⟩⟩
      = .ok () ⟨(), ⟨prog, pc, nextPC, rl - 1, d, x1 :: x2 :: rest, alt, depth, er⟩⟩ := by
  vm_eval [opSwap]

/-- OVER copies the second item to the top -/
theorem over_spec (prog : Bytes) (pc nextPC : Nat) (rl d : Int) (x2 x1 : Bytes) (rest alt : List Bytes) (depth : Nat) (er : Bool) (hg : 1 + (8 + (x1.length : Int)) ≤ rl) :
    opOver valueMem ⟨(), ⟨prog, pc, nextPC, rl, d, x2 :: x1 :: rest, alt, depth, er⟩⟩
      = .ok () ⟨(), ⟨prog, pc, nextPC, rl - 1 - (8 + (x1.length : Int)), d, x1 :: x2 :: x1 :: rest, alt, depth, er⟩⟩ := by
  vm_eval [opOver]

/-- NIP removes the second item -/
theorem nip_spec (prog : Bytes) (pc nextPC : Nat) (rl d : Int) (x2 x1 : Bytes) (rest alt : List Bytes) (depth : Nat) (er : Bool) (hg : 1 ≤ rl) :
    opNip valueMem ⟨(), ⟨prog, pc, nextPC, rl, d, x2 :: x1 :: rest, alt, depth, er⟩⟩
      = .ok () ⟨(), ⟨prog, pc, nextPC, rl - 1 + (8 + (x1.length : Int)), d, x2 :: rest, alt, depth, er⟩⟩ := by
  vm_eval [opNip]

/-- TUCK copies the top item below the second -/
theorem tuck_spec (prog : Bytes) (pc nextPC : Nat) (rl d : Int) (x2 x1 : Bytes) (rest alt : List Bytes) (depth : Nat) (er : Bool) (hg : 1 + (8 + (x2.length : Int)) ≤ rl) :
    opTuck valueMem ⟨(), ⟨prog, pc, nextPC, rl, d, x2 :: x1 :: rest, alt, depth, er⟩⟩
      = .ok () ⟨(), ⟨prog, pc, nextPC, rl - 1 - (8 + (x2.length : Int)), d, x2 :: x1 :: x2 :: rest, alt, depth, er⟩⟩ := by
  vm_eval [opTuck]

/-- 2DROP removes two items -/
theorem twoDrop_spec (prog : Bytes) (pc nextPC : Nat) (rl d : Int) (x2 x1 : Bytes) (rest alt : List Bytes) (depth : Nat) (er : Bool) (hg : 2 ≤ rl) :
    op2Drop valueMem ⟨(), ⟨prog, pc, nextPC, rl, d, x2 :: x1 :: rest, alt, depth, er⟩⟩
      = .ok () ⟨(), ⟨prog, pc, nextPC, rl - 2 + (8 + (x2.length : Int)) + (8 + (x1.length : Int)), d, rest, alt, depth, er⟩⟩ := by
  vm_eval [op2Drop]

/-- 2SWAP exchanges the two top pairs -/
theorem twoSwap_spec (prog : Bytes) (pc nextPC : Nat) (rl d : Int) (x4 x3 x2 x1 : Bytes) (rest alt : List Bytes) (depth : Nat) (er : Bool) (hg : 2 ≤ rl) :
    (op2Swap : OpM (St Unit Bytes) Unit) ⟨(), ⟨prog, pc, nextPC, rl, d, x4 :: x3 :: x2 :: x1 :: rest, alt, depth, er⟩⟩
      = .ok () ⟨(), ⟨prog, pc, nextPC, rl - 2, d, x2 :: x1 :: x4 :: x3 :: rest, alt, depth, er⟩⟩ := by
  vm_eval [op2Swap]

/-- 2ROT moves the third pair to the top -/
theorem twoRot_spec (prog : Bytes) (pc nextPC : Nat) (rl d : Int) (x6 x5 x4 x3 x2 x1 : Bytes) (rest alt : List Bytes) (depth : Nat) (er : Bool) (hg : 2 ≤ rl) :
    (op2Rot : OpM (St Unit Bytes) Unit) ⟨(), ⟨prog, pc, nextPC, rl, d, x6 :: x5 :: x4 :: x3 :: x2 :: x1 :: rest, alt, depth, er⟩⟩
      = .ok () ⟨(), ⟨prog, pc, nextPC, rl - 2, d, x2 :: x1 :: x6 :: x5 :: x4 :: x3 :: rest, alt, depth, er⟩⟩ := by
  vm_eval [op2Rot]

/-- 2DUP copies the top pair -/
theorem twoDup_spec (prog : Bytes) (pc nextPC : Nat) (rl d : Int) (x2 x1 : Bytes) (rest alt : List Bytes) (depth : Nat) (er : Bool) (hg : 2 + (8 + (x1.length : Int)) + (8 + (x2.length : Int)) ≤ rl) :
    nDup valueMem 2 ⟨(), ⟨prog, pc, nextPC, rl, d, x2 :: x1 :: rest, alt, depth, er⟩⟩
      = .ok () ⟨(), ⟨prog, pc, nextPC, rl - 2 - (8 + (x1.length : Int)) - (8 + (x2.length : Int)), d, x2 :: x1 :: x2 :: x1 :: rest, alt, depth, er⟩⟩ := by
  vm_eval [nDup, dupLoop_two, dupLoop_one, dupLoop_zero]

/-- TOALTSTACK moves the top item to the alt stack (no memory accounting) -/
theorem toAltStack_spec (prog : Bytes) (pc nextPC : Nat) (rl d : Int) (x : Bytes) (rest alt : List Bytes) (depth : Nat) (er : Bool) (hg : 2 ≤ rl) :
    (opToAltStack : OpM (St Unit Bytes) Unit) ⟨(), ⟨prog, pc, nextPC, rl, d, x :: rest, alt, depth, er⟩⟩
      = .ok () ⟨(), ⟨prog, pc, nextPC, rl - 2, d, rest, x :: alt, depth, er⟩⟩ := by
  vm_eval [opToAltStack]

/-- FROMALTSTACK moves the top alt item back -/
theorem fromAltStack_spec (prog : Bytes) (pc nextPC : Nat) (rl d : Int) (x : Bytes) (rest alt : List Bytes) (depth : Nat) (er : Bool) (hg : 2 ≤ rl) :
    (opFromAltStack : OpM (St Unit Bytes) Unit) ⟨(), ⟨prog, pc, nextPC, rl, d, rest, x :: alt, depth, er⟩⟩
      = .ok () ⟨(), ⟨prog, pc, nextPC, rl - 2, d, x :: rest, alt, depth, er⟩⟩ := by
  vm_eval [opFromAltStack]

/-- ROT moves the third item to the top -/
theorem rot_spec (prog : Bytes) (pc nextPC : Nat) (rl d : Int) (x3 x2 x1 : Bytes) (rest alt : List Bytes) (depth : Nat) (er : Bool) (hg : 2 ≤ rl) :
    (opRot : OpM (St Unit Bytes) Unit) ⟨(), ⟨prog, pc, nextPC, rl, d, x3 :: x2 :: x1 :: rest, alt, depth, er⟩⟩
      = .ok () ⟨(), ⟨prog, pc, nextPC, rl - 2, d, x1 :: x3 :: x2 :: rest, alt, depth, er⟩⟩ := by
  vm_eval [opRot, rot]

/-- SWAP needs two items -/
theorem swap_underflow (prog : Bytes) (pc nextPC : Nat) (rl d : Int) (x : Bytes) (rest alt : List Bytes) (depth : Nat) (er : Bool) (hg : 1 ≤ rl) :
    (opSwap : OpM (St Unit Bytes) Unit) ⟨(), ⟨prog, pc, nextPC, rl, d, [x], alt, depth, er⟩⟩
      = .err .dataStackUnderflow ⟨(), ⟨prog, pc, nextPC, rl - 1, d, [x], alt, depth, er⟩⟩ := by
  vm_eval [opSwap]

/-- DROP needs one item -/
theorem drop_underflow (prog : Bytes) (pc nextPC : Nat) (rl d : Int) (rest alt : List Bytes) (depth : Nat) (er : Bool) (hg : 1 ≤ rl) :
    opDrop valueMem ⟨(), ⟨prog, pc, nextPC, rl, d, [], alt, depth, er⟩⟩
      = .err .dataStackUnderflow ⟨(), ⟨prog, pc, nextPC, rl - 1, d, [], alt, depth, er⟩⟩ := by
  vm_eval [opDrop]

/-- FROMALTSTACK on an empty alt stack: ErrAltStackUnderflow -/
theorem fromAltStack_underflow (prog : Bytes) (pc nextPC : Nat) (rl d : Int) (rest alt : List Bytes) (depth : Nat) (er : Bool) (hg : 2 ≤ rl) :
    (opFromAltStack : OpM (St Unit Bytes) Unit) ⟨(), ⟨prog, pc, nextPC, rl, d, rest, [], depth, er⟩⟩
      = .err .altStackUnderflow ⟨(), ⟨prog, pc, nextPC, rl - 2, d, rest, [], depth, er⟩⟩ := by
  vm_eval [opFromAltStack]

/-- CAT concatenates (second item first); it temporarily charges the combined length -/
theorem cat_spec (prog : Bytes) (pc nextPC : Nat) (rl d : Int) (b a : Bytes) (rest alt : List Bytes) (depth : Nat) (er : Bool) (hg : 4 + ((a.length : Int) + (b.length : Int)) ≤ rl) :
    opCat valueMem ⟨(), ⟨prog, pc, nextPC, rl, d, b :: a :: rest, alt, depth, er⟩⟩
      = .ok () ⟨(), ⟨prog, pc, nextPC, rl - 4 - ((a.length : Int) + (b.length : Int)), d - (8 + (b.length : Int)) - (8 + (a.length : Int)) + -((a.length : Int) + (b.length : Int)) + (8 + ((a ++ b).length : Int)), (a ++ b) :: rest, alt, depth, er⟩⟩ := by
  vm_eval [opCat]

/-- LEFT n: the first n bytes; the size is charged temporarily -/
theorem left_spec (prog : Bytes) (pc nextPC : Nat) (rl d : Int) (nb str : Bytes) (n : Nat) (rest alt : List Bytes)
    (depth : Nat) (er : Bool) (hn : asBigInt nb = .ok n) (h63 : n < two63) (hlen : n ≤ str.length)
    (hg : 4 + (n : Int) ≤ rl) :
    ∃ d', opLeft valueMem ⟨(), ⟨prog, pc, nextPC, rl, d, nb :: str :: rest, alt, depth, er⟩⟩
      = .ok () ⟨(), ⟨prog, pc, nextPC, rl - 4 - n, d', str.take n :: rest, alt, depth, er⟩⟩ := by
  refine Exists.intro ?w ?h
  case h =>
    vm_eval [opLeft, popInt64, popBigInt, popBytes, ofExcept_run, hn, bigIntInt64_of_lt n h63, valueMem]
    rfl

/-- LEFT with a size beyond the string: ErrBadValue -/
theorem left_out_of_range (prog : Bytes) (pc nextPC : Nat) (rl d : Int) (nb str : Bytes) (n : Nat) (rest alt : List Bytes)
    (depth : Nat) (er : Bool) (hn : asBigInt nb = .ok n) (h63 : n < two63) (hlen : str.length < n)
    (hg : 4 + (n : Int) ≤ rl) :
    ∃ s', opLeft valueMem ⟨(), ⟨prog, pc, nextPC, rl, d, nb :: str :: rest, alt, depth, er⟩⟩ = .err .badValue s' := by
  refine Exists.intro ?w ?h
  case h =>
    vm_eval [opLeft, popInt64, popBigInt, popBytes, ofExcept_run, hn, bigIntInt64_of_lt n h63, valueMem]
    rfl

/-- RIGHT n: the last n bytes -/
theorem right_spec (prog : Bytes) (pc nextPC : Nat) (rl d : Int) (nb str : Bytes) (n : Nat) (rest alt : List Bytes)
    (depth : Nat) (er : Bool) (hn : asBigInt nb = .ok n) (h63 : n < two63) (hlen : n ≤ str.length)
    (hg : 4 + (n : Int) ≤ rl) :
    ∃ d', opRight valueMem ⟨(), ⟨prog, pc, nextPC, rl, d, nb :: str :: rest, alt, depth, er⟩⟩
      = .ok () ⟨(), ⟨prog, pc, nextPC, rl - 4 - n, d', str.drop (str.length - n) :: rest, alt, depth, er⟩⟩ := by
  refine ⟨d - (8 + (nb.length : Int)) + -(n : Int) - (8 + (str.length : Int)) +
    (8 + ((str.length : Int) - ((str.length - n : Nat) : Int))), ?_⟩
  vm_eval [opRight, popInt64, popBigInt, popBytes, ofExcept_run, hn, bigIntInt64_of_lt n h63, valueMem]
  apply List.take_of_length_le
  rw [List.length_drop]

/-- PICK / ROLL take only the low 64 bits of the index (recorded implementation behaviour):
    adding a multiple of 2^64 to the index changes nothing -/
theorem pick_index_low64 (n k : Nat) : pickOffset (n + two64 * k) = pickOffset n := by
  unfold pickOffset
  have : (n + two64 * k) % two64 = n % two64 := by
    rw [Nat.add_mul_mod_self_left]
  rw [this]

/-- for an index below 2^63 − 1 the offset is `index + 1` -/
theorem pickOffset_small (n : Nat) (h : n + 1 < two63) : pickOffset n = .ok ((n : Int) + 1) := by
  have h63 : two63 = 9223372036854775808 := by unfold two63; norm_num
  have h64 : two64 = 18446744073709551616 := by unfold two64; norm_num
  have h1 : n % two64 = n := Nat.mod_eq_of_lt (by omega)
  have h2 : u64ToI64 n = (n : Int) := by
    unfold u64ToI64; rw [if_pos (by omega)]; rfl
  unfold pickOffset
  simp only [h1, h2]
  have h3 : ¬ ((n : Int) = maxInt64) := by unfold maxInt64; omega
  rw [if_neg h3]

end

end BytomModel.Props.C08
