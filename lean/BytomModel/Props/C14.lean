/-
C14 — coinbase rewards are exact and create no extra money.

Stated over the reward part of M-Ckpt (`Model/Checkpoint`): `increase` (Checkpoint.Increase =
applyVotes + applyValidatorReward), `checkCoinbaseAmount` / `checkoutRewardCoinbase` (the
validator) and `createCoinbaseOutputs` (the proposer's createCoinbaseTx). The float64 subsidy
`validatorReward()` is a parameter of every block (`sub`); the harness feeds the Go-computed
value and checks BlockReward/2 ≤ sub ≤ BlockReward on every block.
-/
import BytomModel.Lemmas.Reward

namespace BytomModel.Props.C14
open BytomModel.Model.Checkpoint BytomModel.Lemmas.Checkpoint BytomModel.Lemmas.Reward

def IsIter (iter : KMap → KMap) : Prop := ∀ m, (iter m).Perm m

/-! ### accumulation over an epoch -/

/-- program of the block's first coinbase output (`block.Transactions[0].Outputs[0]`) -/
def scriptOf (b : CBlock) : Option Key := b.outs0.head?.map (·.program)

/-- TRUE sum of (fees + subsidy) over the blocks whose first coinbase output names `k` -/
def earned (k : Key) : List (CBlock × Nat) → Nat
  | [] => 0
  | (b, sub) :: t => (if scriptOf b = some k then feeSum b.txs + sub else 0) + earned k t

/-- `Increase` over a run of blocks, each with its subsidy -/
def grow (p : Params) : Checkpoint → List (CBlock × Nat) → Outcome Checkpoint
  | c, [] => .ok c
  | c, (b, sub) :: t =>
    match increase p c b true sub with
    | .ok c' => grow p c' t
    | .err => .err
    | .panic => .panic

theorem increase_rewards {p : Params} {c c' : Checkpoint} {b : CBlock} {sub : Nat}
    (h : increase p c b true sub = .ok c') :
    applyValidatorReward c.rewards b sub = .ok c'.rewards ∧ c'.votes = applyVotes c.votes b.txs ∧
    c'.height = b.height ∧ p.epoch ≠ 0 := by
  unfold increase at h
  simp only [Bool.true_eq_false, if_false] at h
  split at h
  · cases h
  · rename_i he
    split at h
    · cases h
    · cases h
    · rename_i r hr
      injection h with h
      subst h
      exact ⟨hr, rfl, rfl, he⟩

/-- **One block**: the reward entry of the block's proposer program grows by exactly
    (sum of the block's fees + subsidy) in uint64; no other entry changes. -/
theorem reward_step {p : Params} {c c' : Checkpoint} {b : CBlock} {sub : Nat}
    (h : increase p c b true sub = .ok c') (hb : Bounded c.rewards) (hn : (kkeys c.rewards).Nodup) :
    ∃ P, scriptOf b = some P ∧
      (kget c'.rewards P).getD 0 = ((kget c.rewards P).getD 0 + feeSum b.txs + sub) % u64 ∧
      (∀ k, P ≠ k → kget c'.rewards k = kget c.rewards k) ∧ Bounded c'.rewards ∧ (kkeys c'.rewards).Nodup := by
  obtain ⟨o, rest, ho, _, a, b', c1, d⟩ := applyValidatorReward_spec (increase_rewards h).1 hb hn
  exact ⟨o.program, by simp [scriptOf, ho], a, b', c1, d⟩

/-- **Accumulation**: after growing a checkpoint over any run of blocks, every program's
    entry is its old entry plus everything earned by blocks naming it (uint64). -/
theorem rewards_accumulate {p : Params} : ∀ {bs : List (CBlock × Nat)} {c c' : Checkpoint},
    grow p c bs = .ok c' → Bounded c.rewards → (kkeys c.rewards).Nodup →
    (∀ k, (kget c'.rewards k).getD 0 = ((kget c.rewards k).getD 0 + earned k bs) % u64) ∧
    Bounded c'.rewards ∧ (kkeys c'.rewards).Nodup
  | [], c, c', h, hb, hn => by
    simp only [grow] at h; injection h with h; subst h
    exact ⟨fun k => by simp [earned, Nat.mod_eq_of_lt (getD_lt hb k)], hb, hn⟩
  | (b, sub) :: t, c, c', h, hb, hn => by
    simp only [grow] at h
    split at h
    · rename_i c1 h1
      obtain ⟨P, hP, a1, a2, a3, a4⟩ := reward_step h1 hb hn
      obtain ⟨r1, r2, r3⟩ := rewards_accumulate h a3 a4
      refine ⟨?_, r2, r3⟩
      intro k
      rw [r1 k]
      by_cases e : P = k
      · subst e; rw [a1]; simp only [earned, hP, if_true]
        rw [Nat.mod_add_mod]; congr 1; omega
      · rw [a2 k e]
        have : scriptOf b ≠ some k := by rw [hP]; intro c; injection c with c; exact e c
        simp [earned, this]
    · cases h
    · cases h

/-- **An epoch's table**: the checkpoint of a new epoch starts empty (`NewCheckpoint`), so
    after the epoch's blocks the table holds, per program, exactly what its blocks earned. -/
theorem epoch_table {p : Params} {parent c' : Checkpoint} {bs : List (CBlock × Nat)}
    (h : grow p (newCheckpoint parent) bs = .ok c') :
    (∀ k, (kget c'.rewards k).getD 0 = earned k bs % u64) ∧ Bounded c'.rewards ∧ (kkeys c'.rewards).Nodup := by
  obtain ⟨a, b, c⟩ := rewards_accumulate h (by simp [newCheckpoint]; exact bounded_nil) (by simp [newCheckpoint, kkeys])
  refine ⟨fun k => ?_, b, c⟩
  rw [a k]; simp [newCheckpoint, kget]

/-! ### the validator: who is paid what -/

/-- every block that is NOT the first of its epoch: an accepted coinbase has exactly one
    output, of amount 0 -/
theorem nonfirst_pays_nothing {p : Params} {h : Nat} {hasTx : Bool} {outs : List COut} {rewards : KMap}
    (hok : checkCoinbaseAmount p h hasTx outs rewards = .ok ()) (hh : h % p.epoch ≠ 1) :
    ∃ o, outs = [o] ∧ o.amount = 0 ∧ o.original = true ∧ o.btm = true := by
  unfold checkCoinbaseAmount at hok
  split at hok
  · cases hok
  split at hok
  · cases hok
  rename_i hany
  split at hok
  · cases hok
  simp only [hh, ne_eq, not_false_eq_true, if_true] at hok
  split at hok
  · rename_i o
    split at hok
    · cases hok
    · rename_i ha
      refine ⟨o, rfl, by simpa using ha, ?_⟩
      simp only [List.any_cons, List.any_nil, Bool.or_false, decide_eq_true_eq, not_or] at hany
      simpa using hany
  · cases hok

/-- first block of an epoch: an accepted coinbase pays, per program, exactly the reward table
    (as uint64 sums; `first_pays_table_exact` removes the modulus), and consists only of
    original BTM outputs -/
theorem first_pays_table {p : Params} {h : Nat} {hasTx : Bool} {outs : List COut} {rewards : KMap}
    (hok : checkCoinbaseAmount p h hasTx outs rewards = .ok ()) (hh : h % p.epoch = 1)
    (hn : (kkeys rewards).Nodup) (hz : ∀ e ∈ rewards, e.2 ≠ 0) :
    (∀ k, paid k 0 outs % u64 = (kget rewards k).getD 0) ∧ (∀ o ∈ outs, o.original = true ∧ o.btm = true) := by
  unfold checkCoinbaseAmount at hok
  split at hok
  · cases hok
  split at hok
  · cases hok
  rename_i hany
  split at hok
  · cases hok
  simp only [hh, ne_eq, not_true_eq_false, if_false] at hok
  split at hok
  · rename_i hc
    refine ⟨?_, ?_⟩
    · unfold checkoutRewardCoinbase at hc
      simp only [Bool.and_eq_true, decide_eq_true_eq, List.all_eq_true] at hc
      obtain ⟨hlen, hall⟩ := hc
      intro k
      have spec := (outputMapFrom_spec k outs 0 [] bounded_nil (by simp [kkeys]))
      have hom : (kget (outputMapFrom 0 outs []) k).getD 0 = paid k 0 outs % u64 := by
        rw [spec.1]; simp [kget]
      rw [← hom]
      -- keys of the table are keys of the output map; equal length ⇒ same key sets
      have hsub : kkeys rewards ⊆ kkeys (outputMapFrom 0 outs []) := by
        intro x hx
        obtain ⟨e, he, rfl⟩ := List.mem_map.mp hx
        have hv := hall e he
        by_contra hc
        rw [← kget_none_iff] at hc
        rw [hc] at hv
        exact hz e he (by simpa using hv.symm)
      have hback := subset_of_length_eq hn hsub (by simp only [kkeys, List.length_map]; exact hlen)
      cases e : kget rewards k with
      | none =>
        have : k ∉ kkeys (outputMapFrom 0 outs []) := fun c => (kget_none_iff _ _).mp e (hback c)
        rw [(kget_none_iff _ _).mpr this]
      | some v =>
        have := hall (k, v) (kget_mem e)
        simpa using this
    · intro o ho
      simp only [List.any_eq_true, not_exists, not_and, decide_eq_true_eq, not_or] at hany
      have := hany o ho
      simpa using this
  · cases hok

/-- with the no-overflow fact that transaction validation provides for an accepted coinbase
    transaction (C01 `coinbase_tx_exact`: the TRUE sum of its outputs is ≤ MaxInt64), the
    amounts paid per program are the table entries themselves -/
theorem first_pays_table_exact {p : Params} {h : Nat} {hasTx : Bool} {outs : List COut} {rewards : KMap}
    (hok : checkCoinbaseAmount p h hasTx outs rewards = .ok ()) (hh : h % p.epoch = 1)
    (hn : (kkeys rewards).Nodup) (hz : ∀ e ∈ rewards, e.2 ≠ 0)
    (hsum : ∀ k, paid k 0 outs < u64) :
    ∀ k, paid k 0 outs = (kget rewards k).getD 0 := by
  intro k
  rw [← (first_pays_table hok hh hn hz).1 k, Nat.mod_eq_of_lt (hsum k)]

/-! ### totals: a first-of-epoch coinbase creates exactly the table's total -/

def totalOut : List COut → Nat
  | [] => 0
  | o :: t => o.amount + totalOut t

def totalTable : KMap → Nat
  | [] => 0
  | e :: t => e.2 + totalTable t

def sumMap (f : Key → Nat) : List Key → Nat
  | [] => 0
  | k :: t => f k + sumMap f t

theorem sumMap_add (f g : Key → Nat) : ∀ ks, sumMap (fun k => f k + g k) ks = sumMap f ks + sumMap g ks
  | [] => rfl
  | k :: t => by simp only [sumMap, sumMap_add f g t]; omega

theorem sumMap_congr {f g : Key → Nat} : ∀ {ks : List Key}, (∀ k ∈ ks, f k = g k) → sumMap f ks = sumMap g ks
  | [], _ => rfl
  | k :: t, h => by
    simp only [sumMap]
    rw [h k (by simp), sumMap_congr (fun k' hk' => h k' (List.mem_cons_of_mem _ hk'))]

theorem sumMap_indicator (x : Key) (a : Nat) : ∀ {ks : List Key}, ks.Nodup →
    sumMap (fun k => if x = k then a else 0) ks = if x ∈ ks then a else 0
  | [], _ => by simp [sumMap]
  | k :: t, hn => by
    rw [List.nodup_cons] at hn
    simp only [sumMap, sumMap_indicator x a hn.2, List.mem_cons]
    by_cases e : x = k
    · subst e; simp [hn.1]
    · simp [e]

/-- paid to programs of `ks` / to anything else (or skipped), from position `i` on -/
def paidIn (ks : List Key) : Nat → List COut → Nat
  | _, [] => 0
  | i, o :: t => (if (i = 0 ∧ o.amount = 0) ∨ o.program ∉ ks then 0 else o.amount) + paidIn ks (i + 1) t

def unpaid (ks : List Key) : Nat → List COut → Nat
  | _, [] => 0
  | i, o :: t => (if (i = 0 ∧ o.amount = 0) ∨ o.program ∉ ks then o.amount else 0) + unpaid ks (i + 1) t

theorem totalOut_split (ks : List Key) : ∀ (outs : List COut) (i : Nat), totalOut outs = paidIn ks i outs + unpaid ks i outs
  | [], _ => rfl
  | o :: t, i => by
    simp only [totalOut, paidIn, unpaid, totalOut_split ks t (i + 1)]
    split <;> omega

theorem sum_paid {ks : List Key} (hn : ks.Nodup) : ∀ (outs : List COut) (i : Nat),
    sumMap (fun k => paid k i outs) ks = paidIn ks i outs
  | [], _ => by
    simp only [paid, paidIn]
    clear hn
    induction ks with
    | nil => rfl
    | cons k t ih => simp [sumMap, ih]
  | o :: t, i => by
    simp only [paid, paidIn]
    rw [sumMap_add, sum_paid hn t (i + 1)]
    congr 1
    by_cases c : i = 0 ∧ o.amount = 0
    · simp only [c, and_self, true_or, if_true]
      clear hn
      induction ks with
      | nil => rfl
      | cons k t ih => simp [sumMap, ih]
    · simp only [c, false_or]
      have : (fun k => if o.program ≠ k then 0 else o.amount) = (fun k => if o.program = k then o.amount else 0) := by
        funext k; by_cases e : o.program = k <;> simp [e]
      rw [this, sumMap_indicator _ _ hn]
      by_cases m : o.program ∈ ks <;> simp [m]

theorem unpaid_zero (ks : List Key) : ∀ (outs : List COut) (i : Nat), (∀ k, k ∉ ks → paid k i outs = 0) → unpaid ks i outs = 0
  | [], _, _ => rfl
  | o :: t, i, h => by
    simp only [unpaid]
    have ht : ∀ k, k ∉ ks → paid k (i + 1) t = 0 := by
      intro k hk; have := h k hk; simp only [paid] at this; omega
    rw [unpaid_zero ks t (i + 1) ht]
    by_cases c : i = 0 ∧ o.amount = 0
    · simp [c]
    · by_cases m : o.program ∈ ks
      · simp [c, m]
      · have := h o.program m
        simp only [paid, c, ne_eq, not_true_eq_false, or_self, if_false] at this
        simp only [c, m, not_false_eq_true, or_true, if_true]; omega

theorem sum_table : ∀ {m : KMap}, (kkeys m).Nodup → sumMap (fun k => (kget m k).getD 0) (kkeys m) = totalTable m
  | [], _ => rfl
  | (k, v) :: t, hn => by
    simp only [kkeys, List.map_cons, List.nodup_cons] at hn
    simp only [kkeys, List.map_cons, sumMap, totalTable, kget, if_true, Option.getD_some]
    congr 1
    rw [← sum_table (m := t) hn.2]
    apply sumMap_congr
    intro k' hk'
    have : ¬ k = k' := fun c => hn.1 (c ▸ hk')
    simp [this]

/-- **No extra money at an epoch boundary**: an accepted first-of-epoch coinbase creates in
    total exactly the sum of the reward table (no-wrap fact from C01 as in
    `first_pays_table_exact`). Together with `nonfirst_pays_nothing` and C01's
    `coinbase_tx_exact` (a coinbase transaction creates exactly its outputs): the only BTM ever
    created after genesis are the accumulated tables. -/
theorem first_block_total {p : Params} {h : Nat} {hasTx : Bool} {outs : List COut} {rewards : KMap}
    (hok : checkCoinbaseAmount p h hasTx outs rewards = .ok ()) (hh : h % p.epoch = 1)
    (hn : (kkeys rewards).Nodup) (hz : ∀ e ∈ rewards, e.2 ≠ 0) (hsum : ∀ k, paid k 0 outs < u64) :
    totalOut outs = totalTable rewards := by
  have hp := first_pays_table_exact hok hh hn hz hsum
  have hun : unpaid (kkeys rewards) 0 outs = 0 := by
    apply unpaid_zero
    intro k hk
    rw [hp k, (kget_none_iff _ _).mpr hk]; rfl
  rw [totalOut_split (kkeys rewards) outs 0, hun, Nat.add_zero, ← sum_paid hn outs 0, ← sum_table hn]
  exact sumMap_congr (fun k _ => hp k)

/-- a block that is not first of its epoch creates nothing -/
theorem nonfirst_total {p : Params} {h : Nat} {hasTx : Bool} {outs : List COut} {rewards : KMap}
    (hok : checkCoinbaseAmount p h hasTx outs rewards = .ok ()) (hh : h % p.epoch ≠ 1) : totalOut outs = 0 := by
  obtain ⟨o, ho, ha, _⟩ := nonfirst_pays_nothing hok hh
  subst ho; simp [totalOut, ha]

/-! ### totals over an epoch: the table's total is what the epoch's blocks earned -/

theorem totalTable_kset : ∀ (m : KMap) (k : Key) (v : Nat),
    totalTable (kset m k v) + (kget m k).getD 0 = totalTable m + v
  | [], k, v => by simp [kset, kget, totalTable]
  | (b, w) :: t, k, v => by
    by_cases e : b = k
    · simp only [kset, kget, e, if_true, totalTable, Option.getD_some]; omega
    · simp only [kset, kget, e, if_false, totalTable]
      have := totalTable_kset t k v
      omega

theorem totalTable_kadd (m : KMap) (k : Key) (x : Nat) (h : (kget m k).getD 0 + x < u64) :
    totalTable (kadd m k x) = totalTable m + x := by
  have := totalTable_kset m k (((kget m k).getD 0 + x) % u64)
  rw [Nat.mod_eq_of_lt h] at this
  unfold kadd; rw [Nat.mod_eq_of_lt h]; omega

theorem total_fold_fees (P : Key) : ∀ (txs : List CTx) (m : KMap), (kget m P).getD 0 + feeSum txs < u64 →
    totalTable (txs.foldl (fun m tx => kadd m P tx.fee) m) = totalTable m + feeSum txs ∧
    (kget (txs.foldl (fun m tx => kadd m P tx.fee) m) P).getD 0 = (kget m P).getD 0 + feeSum txs
  | [], m, _ => by simp [feeSum]
  | t :: r, m, h => by
    simp only [feeSum] at h
    simp only [List.foldl, feeSum]
    have h1 : (kget m P).getD 0 + t.fee < u64 := by omega
    have hg : (kget (kadd m P t.fee) P).getD 0 = (kget m P).getD 0 + t.fee := by
      rw [kget_kadd_same]; simp [Nat.mod_eq_of_lt h1]
    obtain ⟨a, b⟩ := total_fold_fees P r (kadd m P t.fee) (by rw [hg]; omega)
    rw [a, b, totalTable_kadd m P t.fee h1, hg]
    constructor <;> omega

/-- everything the run of blocks earned (TRUE sum of fees + subsidies) -/
def earnedAll : List (CBlock × Nat) → Nat
  | [] => 0
  | (b, sub) :: t => feeSum b.txs + sub + earnedAll t

/-- **the table total grows by exactly fees + subsidies** (as long as no entry wraps uint64) -/
theorem table_total {p : Params} : ∀ {bs : List (CBlock × Nat)} {c c' : Checkpoint},
    grow p c bs = .ok c' → Bounded c.rewards → (kkeys c.rewards).Nodup →
    (∀ k, (kget c.rewards k).getD 0 + earned k bs < u64) →
    totalTable c'.rewards = totalTable c.rewards + earnedAll bs
  | [], c, c', h, _, _, _ => by
    simp only [grow] at h; injection h with h; subst h; simp [earnedAll]
  | (b, sub) :: t, c, c', h, hb, hn, hw => by
    simp only [grow] at h
    split at h
    · rename_i c1 h1
      obtain ⟨P, hP, a1, a2, a3, a4⟩ := reward_step h1 hb hn
      have hwP := hw P
      simp only [earned, hP, if_true] at hwP
      have hno : (kget c.rewards P).getD 0 + feeSum b.txs + sub < u64 := by omega
      have a1' : (kget c1.rewards P).getD 0 = (kget c.rewards P).getD 0 + feeSum b.txs + sub := by
        rw [a1, Nat.mod_eq_of_lt hno]
      -- total after this block
      have hstep : totalTable c1.rewards = totalTable c.rewards + feeSum b.txs + sub := by
        have hr := (increase_rewards h1).1
        unfold applyValidatorReward at hr
        split at hr
        · cases hr
        · cases hr
        · rename_i t0 ts o rest ht ho
          injection hr with hr
          have hPo : o.program = P := by
            have : scriptOf b = some o.program := by simp [scriptOf, ho]
            rw [hP] at this; injection this with this; exact this.symm
          obtain ⟨f1, f2⟩ := total_fold_fees o.program b.txs c.rewards (by rw [hPo]; omega)
          rw [← hr, totalTable_kadd _ _ _ (by rw [f2, hPo]; omega), f1]
      have hw' : ∀ k, (kget c1.rewards k).getD 0 + earned k t < u64 := by
        intro k
        by_cases e : P = k
        · subst e; rw [a1']; omega
        · rw [a2 k e]
          have hk := hw k
          have : scriptOf b ≠ some k := by rw [hP]; intro c; injection c with c; exact e c
          simp only [earned, this, if_false, Nat.zero_add] at hk
          exact hk
      rw [table_total h a3 a4 hw', hstep]; simp only [earnedAll]; omega
    · cases h
    · cases h

/-- **History step of the supply argument**: the first block of the next epoch, if accepted,
    creates in total exactly what the finished epoch's blocks earned (fees + subsidies). -/
theorem epoch_payout_total {p : Params} {parent c' : Checkpoint} {bs : List (CBlock × Nat)}
    {h : Nat} {hasTx : Bool} {outs : List COut}
    (hg : grow p (newCheckpoint parent) bs = .ok c') (hw : ∀ k, earned k bs < u64)
    (hok : checkCoinbaseAmount p h hasTx outs c'.rewards = .ok ()) (hh : h % p.epoch = 1)
    (hz : ∀ e ∈ c'.rewards, e.2 ≠ 0) (hsum : ∀ k, paid k 0 outs < u64) :
    totalOut outs = earnedAll bs := by
  obtain ⟨_, _, hn⟩ := epoch_table hg
  rw [first_block_total hok hh hn hz hsum]
  have := table_total hg (by simp [newCheckpoint]; exact bounded_nil) (by simp [newCheckpoint, kkeys])
    (by intro k; simpa [newCheckpoint, kget] using hw k)
  simpa [newCheckpoint, totalTable] using this

/-! ### table entries are non-zero (discharges the hypothesis of `first_pays_table`) -/

theorem mem_keys_iff_of_kget_eq {m m' : KMap} {k : Key} (h : kget m' k = kget m k) : k ∈ kkeys m' ↔ k ∈ kkeys m := by
  constructor
  · intro hk; by_contra c
    rw [← kget_none_iff] at c; rw [c, kget_none_iff] at h; exact h hk
  · intro hk; by_contra c
    rw [← kget_none_iff] at c; rw [c] at h; exact (kget_none_iff _ _).mp h.symm hk

/-- every key of the table after a run of blocks was already there or is named by a block -/
theorem grow_keys {p : Params} : ∀ {bs : List (CBlock × Nat)} {c c' : Checkpoint},
    grow p c bs = .ok c' → Bounded c.rewards → (kkeys c.rewards).Nodup →
    ∀ k, k ∈ kkeys c'.rewards → k ∈ kkeys c.rewards ∨ ∃ x ∈ bs, scriptOf x.1 = some k
  | [], c, c', h, _, _ => by
    simp only [grow] at h; injection h with h; subst h
    intro k hk; exact Or.inl hk
  | (b, sub) :: t, c, c', h, hb, hn => by
    simp only [grow] at h
    split at h
    · rename_i c1 h1
      obtain ⟨P, hP, _, a2, a3, a4⟩ := reward_step h1 hb hn
      intro k hk
      rcases grow_keys h a3 a4 k hk with e | ⟨x, hx, hs⟩
      · by_cases ek : P = k
        · subst ek; exact Or.inr ⟨(b, sub), by simp, hP⟩
        · exact Or.inl ((mem_keys_iff_of_kget_eq (a2 k ek)).mp e)
      · exact Or.inr ⟨x, List.mem_cons_of_mem _ hx, hs⟩
    · cases h
    · cases h

theorem earned_pos {k : Key} : ∀ {bs : List (CBlock × Nat)}, (∀ x ∈ bs, 0 < x.2) → (∃ x ∈ bs, scriptOf x.1 = some k) →
    0 < earned k bs
  | [], _, ⟨x, hx, _⟩ => by simp at hx
  | (b, sub) :: t, hs, ⟨x, hx, hk⟩ => by
    simp only [earned]
    rcases List.mem_cons.mp hx with e | e
    · subst e
      have := hs (b, sub) (by simp)
      simp only at hk this
      simp only [hk, if_true]; omega
    · have := earned_pos (fun y hy => hs y (List.mem_cons_of_mem _ hy)) ⟨x, e, hk⟩
      omega

/-- with positive subsidies (the code's is ≥ BlockReward/2) and no uint64 wrap, every entry of
    an epoch's table is non-zero -/
theorem epoch_entries_nonzero {p : Params} {parent c' : Checkpoint} {bs : List (CBlock × Nat)}
    (hg : grow p (newCheckpoint parent) bs = .ok c') (hsub : ∀ x ∈ bs, 0 < x.2) (hw : ∀ k, earned k bs < u64) :
    ∀ e ∈ c'.rewards, e.2 ≠ 0 := by
  obtain ⟨ht, _, hn⟩ := epoch_table hg
  intro e he
  have hk : e.1 ∈ kkeys c'.rewards := List.mem_map.mpr ⟨e, he, rfl⟩
  have hnamed := grow_keys hg (by simp [newCheckpoint]; exact bounded_nil) (by simp [newCheckpoint, kkeys]) e.1 hk
  rcases hnamed with c | c
  · simp [newCheckpoint, kkeys] at c
  · have hpos := earned_pos hsub c
    have hv := ht e.1
    rw [mem_kget hn (a := e.1) (v := e.2) he, Nat.mod_eq_of_lt (hw e.1)] at hv
    simp only [Option.getD_some] at hv
    omega

/-- **History step, assumption-free form**: positive subsidies, no uint64 wrap of any entry,
    coinbase outputs not wrapping (C01) ⇒ the accepted first coinbase of the next epoch creates
    exactly Σ (fees + subsidy) of the finished epoch. -/
theorem epoch_payout_exact {p : Params} {parent c' : Checkpoint} {bs : List (CBlock × Nat)}
    {h : Nat} {hasTx : Bool} {outs : List COut}
    (hg : grow p (newCheckpoint parent) bs = .ok c') (hsub : ∀ x ∈ bs, 0 < x.2) (hw : ∀ k, earned k bs < u64)
    (hok : checkCoinbaseAmount p h hasTx outs c'.rewards = .ok ()) (hh : h % p.epoch = 1)
    (hsum : ∀ k, paid k 0 outs < u64) :
    totalOut outs = earnedAll bs ∧ ∀ k, paid k 0 outs = earned k bs := by
  have hz := epoch_entries_nonzero hg hsub hw
  refine ⟨epoch_payout_total hg hw hok hh hz hsum, ?_⟩
  obtain ⟨ht, _, hn⟩ := epoch_table hg
  intro k
  rw [first_pays_table_exact hok hh hn hz hsum k, ht k, Nat.mod_eq_of_lt (hw k)]

/-! ### the proposer's coinbase passes the validator -/

def mkOut (e : Key × Nat) : COut := { original := true, btm := true, amount := e.2, program := e.1 }

def others (script : Key) (l : List (Key × Nat)) : List COut := (l.filter (fun e => e.1 ≠ script)).map mkOut

theorem payRewards_eq (script : Key) : ∀ (l : List (Key × Nat)) (o : COut) (rest : List COut), (kkeys l).Nodup →
    payRewards script l (o :: rest) = { o with amount := (kget l script).getD o.amount } :: (rest ++ others script l)
  | [], o, rest, _ => by simp [payRewards, kget, others]
  | (cp, a) :: t, o, rest, hn => by
    simp only [kkeys, List.map_cons, List.nodup_cons] at hn
    by_cases e : cp = script
    · subst e
      have hnone : kget t cp = none := (kget_none_iff _ _).mpr hn.1
      simp only [payRewards, if_true]
      rw [payRewards_eq cp t _ rest hn.2]
      simp [kget, hnone, others]
    · simp only [payRewards, e, if_false]
      have : (o :: rest) ++ [{ original := true, btm := true, amount := a, program := cp }] = o :: (rest ++ [mkOut (cp, a)]) := rfl
      rw [this, payRewards_eq script t o _ hn.2]
      simp [kget, e, others, mkOut]

theorem kset_new : ∀ (m : KMap) (k : Key) (v : Nat), k ∉ kkeys m → kset m k v = m ++ [(k, v)]
  | [], _, _, _ => rfl
  | (b, w) :: t, k, v, h => by
    simp only [kkeys, List.map_cons, List.mem_cons, not_or] at h
    have hb : ¬ b = k := fun c => h.1 c.symm
    simp only [kset, hb, if_false, List.cons_append]
    rw [kset_new t k v h.2]

/-- the output map of outputs `mkOut e` for entries with fresh distinct keys is the old map
    followed by these entries -/
theorem outputMap_fresh : ∀ (l : List (Key × Nat)) (i : Nat) (m : KMap), (kkeys l).Nodup →
    (∀ k ∈ kkeys l, k ∉ kkeys m) → (∀ e ∈ l, e.2 < u64) →
    outputMapFrom (i + 1) (l.map mkOut) m = m ++ l
  | [], _, m, _, _, _ => by simp [outputMapFrom]
  | (k, v) :: t, i, m, hn, hd, hb => by
    simp only [kkeys, List.map_cons, List.nodup_cons] at hn
    have hk : k ∉ kkeys m := hd k (by simp [kkeys])
    have hnone : kget m k = none := (kget_none_iff _ _).mpr hk
    have hv : v < u64 := hb (k, v) (by simp)
    simp only [List.map_cons, outputMapFrom, mkOut]
    have hi : ¬ (i + 1 = 0 ∧ v = 0) := by omega
    simp only [hi, if_false]
    have hadd : kadd m k v = m ++ [(k, v)] := by
      unfold kadd; rw [hnone, kset_new m k _ hk]; simp [Nat.mod_eq_of_lt hv]
    rw [hadd, outputMap_fresh t (i + 1) (m ++ [(k, v)]) hn.2]
    · simp
    · intro x hx
      simp only [kkeys, List.map_append, List.map_cons, List.map_nil, List.mem_append, List.mem_singleton, not_or]
      refine ⟨hd x (by simp only [kkeys, List.map_cons, List.mem_cons]; exact Or.inr hx), ?_⟩
      intro c; subst c; exact hn.1 hx
    · intro e he; exact hb e (List.mem_cons_of_mem _ he)

theorem filter_keys_sub (script : Key) (l : List (Key × Nat)) :
    ∀ k ∈ kkeys (l.filter (fun e => e.1 ≠ script)), k ∈ kkeys l ∧ k ≠ script := by
  intro k hk
  obtain ⟨e, he, rfl⟩ := List.mem_map.mp hk
  rw [List.mem_filter] at he
  exact ⟨List.mem_map.mpr ⟨e, he.1, rfl⟩, by simpa using he.2⟩

theorem nodup_filter_keys (script : Key) {l : List (Key × Nat)} (h : (kkeys l).Nodup) :
    (kkeys (l.filter (fun e => e.1 ≠ script))).Nodup :=
  List.Nodup.sublist (List.Sublist.map _ List.filter_sublist) h

theorem length_filter_absent (script : Key) {l : List (Key × Nat)} (h : script ∉ kkeys l) :
    l.filter (fun e => e.1 ≠ script) = l := by
  rw [List.filter_eq_self]
  intro e he
  have : e.1 ≠ script := fun c => h (c ▸ List.mem_map.mpr ⟨e, he, rfl⟩)
  simpa using this

theorem length_filter_present (script : Key) : ∀ {l : List (Key × Nat)} {a : Nat}, (kkeys l).Nodup → kget l script = some a →
    (l.filter (fun e => e.1 ≠ script)).length + 1 = l.length
  | [], _, _, h => by simp [kget] at h
  | (k, v) :: t, a, hn, h => by
    simp only [kkeys, List.map_cons, List.nodup_cons] at hn
    by_cases e : k = script
    · subst e
      simp only [List.filter_cons, ne_eq, not_true_eq_false, decide_false, Bool.false_eq_true, if_false]
      rw [length_filter_absent k hn.1]; simp
    · simp only [kget, e, if_false] at h
      simp only [List.filter_cons, ne_eq, e, not_false_eq_true, decide_true, if_true, List.length_cons]
      rw [length_filter_present script hn.2 h]

/-- **The proposer's coinbase is accepted by the validator** — for every reward table (with
    the proposer's own program in it or not), every iteration order of the Go maps, every
    height. Hypotheses: table entries are non-zero uint64 values (each is ≥ one subsidy);
    the genesis checkpoint that block 1 is checked against has an empty table. -/
theorem proposer_matches_validator (p : Params) (iter : KMap → KMap) (hi : IsIter iter) (height : Nat) (script : Key)
    (rewards : KMap) (he : p.epoch ≠ 0) (hn : (kkeys rewards).Nodup)
    (hv : ∀ e ∈ rewards, e.2 ≠ 0 ∧ e.2 < u64) (h1 : height = 1 → height % p.epoch = 1 → rewards = []) :
    ∃ outs, createCoinbaseOutputs p iter height script rewards = some outs ∧
      checkCoinbaseAmount p height true outs rewards = .ok () := by
  unfold createCoinbaseOutputs
  simp only [he, if_false]
  by_cases hpay : height % p.epoch = 1 ∧ height ≠ 1
  · simp only [hpay, and_self, ne_eq, not_false_eq_true, if_true]
    refine ⟨_, rfl, ?_⟩
    set l := iter rewards with hl
    have hperm : l.Perm rewards := hi rewards
    have hnl : (kkeys l).Nodup := (List.Perm.nodup_iff (hperm.map Prod.fst)).mpr hn
    have hvl : ∀ e ∈ l, e.2 ≠ 0 ∧ e.2 < u64 := fun e h => hv e (hperm.subset h)
    rw [payRewards_eq script l _ [] hnl]
    simp only [List.nil_append]
    have hfn := nodup_filter_keys script hnl
    have hfb : ∀ e ∈ l.filter (fun e => e.1 ≠ script), e.2 < u64 := fun e h => (hvl e (List.mem_filter.mp h).1).2
    unfold checkCoinbaseAmount
    have hany : (({ original := true, btm := true, amount := (kget l script).getD 0, program := script } : COut) ::
        others script l).any (fun o => o.original = false ∨ o.btm = false) = false := by
      simp [others, mkOut]
    simp only [Bool.true_eq_false, if_false, hany, he, hpay.1, ne_eq, not_true_eq_false]
    have hcheck : checkoutRewardCoinbase
        (({ original := true, btm := true, amount := (kget l script).getD 0, program := script } : COut) :: others script l) rewards = true := by
      have om1 : ∀ (a : Nat) (tail : List COut),
          outputMapFrom 0 (({ original := true, btm := true, amount := a, program := script } : COut) :: tail) [] =
            outputMapFrom (0 + 1) tail (if a = 0 then [] else kadd [] script a) := by
        intro a tail; simp [outputMapFrom]
      unfold checkoutRewardCoinbase
      rw [om1]
      cases hs : kget l script with
      | none =>
        have habs : script ∉ kkeys l := (kget_none_iff _ _).mp hs
        rw [Option.getD_none, if_pos rfl]
        unfold others
        rw [outputMap_fresh _ 0 [] hfn (by simp [kkeys]) hfb, length_filter_absent script habs]
        simp only [List.nil_append, Bool.and_eq_true, decide_eq_true_eq, List.all_eq_true]
        refine ⟨hperm.length_eq, ?_⟩
        intro e hein
        rw [mem_kget hnl (hperm.symm.subset hein)]; rfl
      | some a =>
        have ha : a ≠ 0 ∧ a < u64 := hvl (script, a) (kget_mem hs)
        rw [Option.getD_some, if_neg ha.1]
        have hadd : kadd [] script a = [(script, a)] := by simp [kadd, kget, kset, Nat.mod_eq_of_lt ha.2]
        unfold others
        rw [hadd, outputMap_fresh _ 0 [(script, a)] hfn ?_ hfb]
        · simp only [Bool.and_eq_true, decide_eq_true_eq, List.all_eq_true]
          refine ⟨?_, ?_⟩
          · simp only [List.length_append, List.length_cons, List.length_nil]
            have := length_filter_present script hnl hs
            have := hperm.length_eq
            omega
          · intro e hein
            have hel : e ∈ l := hperm.symm.subset hein
            have hnd : (kkeys ([(script, a)] ++ l.filter (fun e => e.1 ≠ script))).Nodup := by
              simp only [kkeys, List.map_append, List.map_cons, List.map_nil, List.singleton_append, List.nodup_cons]
              exact ⟨fun c => (filter_keys_sub script l script c).2 rfl, hfn⟩
            by_cases ek : e.1 = script
            · have : e.2 = a := by
                have := mem_kget hnl hel
                rw [ek, hs] at this; injection this with this; exact this.symm
              rw [mem_kget hnd (a := e.1) (v := e.2) (by rw [ek, this]; simp)]; rfl
            · rw [mem_kget hnd (a := e.1) (v := e.2) (by
                simp only [List.singleton_append, List.mem_cons, List.mem_filter]
                exact Or.inr ⟨hel, by simpa using ek⟩)]; rfl
        · intro k hk
          simp only [kkeys, List.map_cons, List.map_nil, List.mem_singleton]
          exact (filter_keys_sub script l k hk).2
    simp [hcheck]
  · simp only [hpay, if_false]
    refine ⟨_, rfl, ?_⟩
    unfold checkCoinbaseAmount
    simp only [Bool.true_eq_false, if_false, List.any_cons, List.any_nil, Bool.or_false, he, decide_false, Bool.false_eq_true,
      or_self]
    by_cases hm : height % p.epoch = 1
    · have h1' : height = 1 := by
        by_contra c; exact hpay ⟨hm, c⟩
      have hr := h1 h1' hm
      subst hr
      simp [hm, checkoutRewardCoinbase, outputMapFrom]
    · simp [hm]

/-! ### the subsidy in exact arithmetic -/

/-- `validatorReward()` in EXACT rational arithmetic: with pledge rate v/s ≤ 1/2 the subsidy
    ⌊(v/s + 1/2)·B⌋ = ⌊B·(2v+s)/(2s)⌋ lies between B/2 and B. (The code evaluates it in
    float64; the harness checks BlockReward/2 ≤ subsidy ≤ BlockReward on every block.) -/
theorem subsidy_rational_bound (B v s : Nat) (hs : 0 < s) (hr : 2 * v ≤ s) :
    B / 2 ≤ B * (2 * v + s) / (2 * s) ∧ B * (2 * v + s) / (2 * s) ≤ B := by
  constructor
  · have h1 : B / 2 = B * s / (2 * s) := (Nat.mul_div_mul_right B 2 hs).symm
    rw [h1]
    apply Nat.div_le_div_right
    exact Nat.mul_le_mul_left _ (by omega)
  · apply Nat.div_le_of_le_mul
    calc B * (2 * v + s) ≤ B * (2 * s) := Nat.mul_le_mul_left _ (by omega)
      _ = 2 * s * B := Nat.mul_comm _ _

/-! ### tests on literals: the hypotheses are satisfiable -/

/-- test: an epoch of three blocks by two proposer programs; the table is what they earned;
    the proposer's coinbase for the next epoch's first block pays it and is accepted; the same
    coinbase with one unit more is rejected; a non-first block must pay nothing -/
example :
    let p : Params := ⟨6000, 100, 3, 10, []⟩
    let parent : Checkpoint := ⟨3, 0, .justified, [], [([9], 5)]⟩
    let blk := fun (h : Nat) (prog : Key) (fees : List Nat) =>
      (({ height := h, timestamp := 0, txs := fees.map (fun f => ⟨[], [], f⟩), outs0 := [⟨true, true, 0, prog⟩] } : CBlock), 1000)
    let bs := [blk 4 [0x51] [0, 7], blk 5 [0xa1] [0], blk 6 [0x51] [0, 1, 2]]
    let table : KMap := [([0x51], 2010), ([0xa1], 1000)]
    grow p (newCheckpoint parent) bs = .ok ⟨6, 0, .unjustified, [], table⟩ ∧
    createCoinbaseOutputs p id 7 [0x51] table = some [⟨true, true, 2010, [0x51]⟩, ⟨true, true, 1000, [0xa1]⟩] ∧
    checkCoinbaseAmount p 7 true [⟨true, true, 2010, [0x51]⟩, ⟨true, true, 1000, [0xa1]⟩] table = .ok () ∧
    checkCoinbaseAmount p 7 true [⟨true, true, 2011, [0x51]⟩, ⟨true, true, 1000, [0xa1]⟩] table = .err ∧
    checkCoinbaseAmount p 8 true [⟨true, true, 1, [0x51]⟩] table = .err ∧
    checkCoinbaseAmount p 8 true [⟨true, true, 0, [0x51]⟩] table = .ok () := by decide

/-- test: why `first_pays_table` needs non-zero table entries — with a zero entry in the table
    (unreachable: every entry contains at least one subsidy ≥ BlockReward/2) the validator
    would accept a coinbase paying some OTHER program instead -/
example : checkCoinbaseAmount ⟨6000, 100, 3, 10, []⟩ 7 true
    [⟨true, true, 0, [0x51]⟩, ⟨true, true, 5, [0xee]⟩] [([0xa1], 0)] = .ok () := by decide

end BytomModel.Props.C14
