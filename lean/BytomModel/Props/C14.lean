import BytomModel.Model.Checkpoint
namespace BytomModel.Props.C14
open BytomModel.Model.Checkpoint
theorem stub : ltB [1] [2] = true := by decide
end BytomModel.Props.C14
