/-
C10 — Ledger state depends only on the main chain, not on reorg history.

Objects (all from `Model/Ledger`, `Model/NodeLedger`; helper notions in `Lemmas/Ledger*`):
* `View` / `CMap`      : the persisted utxo table and contract table (association lists)
* `reorgCore p kindOf db cdb att det` : `NodeLedger.State.ledgerReorg` on explicit block lists
  (`ledgerReorg_is_reorgCore`): detach `det` (tip first), attach `att` (ascending) on one
  in-memory view filled by `loadSpent`, then `saveView` / `saveContracts`
* `replay p chain`     : the node that only ever extends its chain, from the empty tables
* `spendProj`          : what a later spend can observe of an entry: spendable or not, its
  type, and its height when the type has a height rule (coinbase maturity, vote lock)
* `proj`               : the persisted projection: `spendProj` plus the spent coinbase / vote
  records with type and height (what an un-spend must restore); a spent normal record = none
* `WF`, `KindsOK`, `NoReuse` : facts about the block tree that hold by hashing in the real
  system (an output id is created once per chain; a spending transaction carries the kind of
  the output it spends; a transaction does not occur twice in one chain)

Every theorem is for ALL views / block lists / histories; the `example`s show that the
hypotheses are met by concrete non-trivial values; `_refuted` theorems are concrete witnesses.
-/
import BytomModel.Lemmas.LedgerNode
namespace BytomModel.Props.C10
open BytomModel.Ledger BytomModel.Node BytomModel.NodeLedger BytomModel.Lemmas.Ledger

instance (L : List PT) : Decidable (WF L) := by unfold WF NodupKeys; infer_instance
instance (kindOf : Nat → OutKind) (L : List PT) : Decidable (KindsOK kindOf L) := by unfold KindsOK; infer_instance

/-! ## 1. View algebra -/

/-- a write is read back; other keys are untouched -/
theorem vget_vset (v : View) (k : Nat) (e : Entry) (j : Nat) :
    vget (vset v k e) j = if j = k then some e else vget v j :=
  Lemmas.Ledger.vget_vset v k e j

/-- a deleted key is gone; other keys are untouched -/
theorem vget_vdel (v : View) (k : Nat) (j : Nat) :
    vget (vdel v k) j = if j = k then none else vget v j :=
  Lemmas.Ledger.vget_vdel v k j

/-- the last write wins -/
theorem vget_vset_vset (v : View) (k : Nat) (e e' : Entry) (j : Nat) :
    vget (vset (vset v k e) k e') j = vget (vset v k e') j := by
  rw [vget_vset, vget_vset, vget_vset]
  by_cases h : j = k <;> simp [h]

/-- writes on different keys commute (as far as `vget` can see) -/
theorem vget_vset_comm (v : View) (k k' : Nat) (e e' : Entry) (hk : k ≠ k') (j : Nat) :
    vget (vset (vset v k e) k' e') j = vget (vset (vset v k' e') k e) j := by
  rw [vget_vset, vget_vset, vget_vset, vget_vset]
  by_cases h : j = k
  · subst h
    simp [hk]
  · by_cases h' : j = k'
    · subst h'
      simp [h]
    · simp [h, h']

/-- `vset` / `vdel` keep the keys of a view unique (the Go map invariant) -/
theorem vset_vdel_keep_keys_unique (v : View) (hv : NodupKeys v) (k : Nat) (e : Entry) :
    NodupKeys (vset v k e) ∧ NodupKeys (vdel v k) :=
  ⟨nodupKeys_aset hv k e, nodupKeys_adel hv k⟩

/-- `saveUtxoView`: an entry of the view replaces the record — unless it is a spent normal
    entry, which deletes it; records the view does not hold stay -/
theorem vget_saveView (db v : View) (hv : NodupKeys v) (j : Nat) :
    vget (saveView db v) j = match vget v j with
      | some e => if e.spent && e.typ != 1 && e.typ != 2 then none else some e
      | none => vget db j := by
  rw [Lemmas.Ledger.vget_saveView db v hv]
  cases vget v j with
  | none => rfl
  | some e =>
    simp only [keep]
    by_cases hc : (e.spent && e.typ != 1 && e.typ != 2) = true <;> simp [hc]

/-- `getTransactionsUtxo` does not change what the node sees (view over table), and afterwards
    the view holds every input the table has a record for -/
theorem loadSpent_invisible (db : View) (txs : List Tx) (v : View) :
    eff db (loadSpent db txs v) = eff db v ∧
      ∀ t ∈ txs, ∀ o ∈ t.ins, vget (loadSpent db txs v) o = eff db v o := by
  refine ⟨loadSpent_eff db txs v, ?_⟩
  intro t ht o ho
  rw [← loadSpent_eff db txs v]
  exact (eff_of_loaded (loadSpent_loaded db txs v t ht o ho)).symm

/-! ### apply, persist, detach, persist -/

/-- the node attaches block `b` to a chain whose table is `db`, persists, then detaches `b`
    again and persists — with `save` as the persistence function -/
def roundTrip (save : View → View → View) (p : Params) (kindOf : Nat → OutKind) (db : View) (b : Blk) : Option View :=
  match applyBlockTxs p b.1 true b.2 (loadSpent db b.2 []) with
  | none => none
  | some v1 =>
    let db1 := save db v1
    match detachBlockTxs kindOf b.2 (loadSpent db1 b.2 []) with
    | none => none
    | some v2 => some (save db1 v2)

/-- "apply then detach restores the persisted state", for a persistence function `save`:
    from the table of any chain `C`, for any next block the view accepts (so: every input
    exists, is unspent and mature; output ids fresh by `WF`), the round trip succeeds, every
    output is spendable afterwards iff it was before, with the same type and — for coinbase
    and vote entries — the same height; and the full persisted projection (including spent
    coinbase / vote records) of every output of the chain is what it was. -/
def restores_with (save : View → View → View) : Prop :=
  ∀ (p : Params) (kindOf : Nat → OutKind) (C : List Blk) (b : Blk) (db : View),
    replayU p C [] = some db → WF (flat (C ++ [b])) → KindsOK kindOf (flat (C ++ [b])) →
    (applyBlockTxs p b.1 true b.2 (loadSpent db b.2 [])).isSome →
    ∃ db2, roundTrip save p kindOf db b = some db2 ∧
      (∀ k, spendProj (vget db2 k) = spendProj (vget db k)) ∧
      (∀ k, k ∈ keys (created (flat C)) → proj (vget db2 k) = proj (vget db k))

theorem roundTrip_saveView (p : Params) (kindOf : Nat → OutKind) (db : View) (b : Blk) :
    roundTrip saveView p kindOf db b =
      match extendU p db b with
      | none => none
      | some db1 => (reorgView p kindOf db1 [] [b.2]).map (saveView db1) := by
  unfold roundTrip extendU reorgView
  cases applyBlockTxs p b.1 true b.2 (loadSpent db b.2 []) with
  | none => rfl
  | some v1 =>
    simp only [Option.map_some, detachViews]
    cases detachBlockTxs kindOf b.2 (loadSpent (saveView db v1) b.2 []) with
    | none => rfl
    | some v2 => rfl

/-- **apply/detach inverse on the persisted projection, type and height included** -/
theorem apply_detach_restores : restores_with saveView := by
  intro p kindOf C b db hrep hw hk hacc
  rw [roundTrip_saveView]
  have hext : ∃ db1, extendU p db b = some db1 := by
    unfold extendU
    cases h : applyBlockTxs p b.1 true b.2 (loadSpent db b.2 []) with
    | none => rw [h] at hacc; cases hacc
    | some v => exact ⟨_, rfl⟩
  obtain ⟨db1, h1⟩ := hext
  rw [h1]
  have hwC : WF ([] ++ flat C) := by rw [flat_append] at hw; simpa using (wf_append hw).1
  have g0 : Good [] (vget ([] : View)) := by rw [vget_nil_eq]; exact good_nil
  obtain ⟨gC, sC⟩ := replayU_good g0 (by trivial : Struct []) hwC hrep
  simp only [List.nil_append] at gC sC
  have hrep1 : replayU p [b] db = some db1 := by simp [replayU, h1]
  obtain ⟨g1, s1⟩ := replayU_good gC sC (by rw [← flat_append]; exact hw) hrep1
  rw [← flat_append] at g1 s1
  have hgen := reorg_general (p := p) (kindOf := kindOf) (P := C) (A := [b]) (B := []) (dA := db1) hrep g1 s1 hw
    (by simpa using (by rw [flat_append] at hw; exact (wf_append hw).1)) hk
  simp only [List.reverse_cons, List.reverse_nil, List.nil_append, List.map_cons, List.map_nil, replayU] at hgen
  cases hv : reorgView p kindOf db1 [] [b.2] with
  | none => rw [hv] at hgen; exact False.elim hgen
  | some v2 =>
    rw [hv] at hgen
    obtain ⟨g2, _, _⟩ := hgen
    simp only [List.append_nil] at g2
    exact ⟨saveView db1 v2, by simp [hv], good_seq g2 gC, fun k hk' => good_proj g2 gC hk'⟩

/-- the persistence function before `fix: keep spent vote utxo entries …` (c99e97a7): every
    spent non-coinbase entry was deleted -/
def saveViewOld (db : View) (v : View) : View :=
  v.foldl (fun d (k, e) => if e.spent && e.typ != 1 then vdel d k else vset d k e) db

def mkOut (id : Nat) (k : OutKind) (amt : Nat) : TxOut := { id := id, kind := k, amount := amt }
def p1 : Params := { coinbasePending := 1, votePending := 1 }
/-- genesis: its coinbase creates o1 -/
def blk0 : Blk := (0, [{ id := 100, ins := [], outs := [mkOut 1 .normal 5] }])
/-- height 1: t102 spends the coinbase output o1 and creates the vote output o3 -/
def blk1 : Blk := (1, [{ id := 101, ins := [], outs := [mkOut 2 .normal 1] },
                       { id := 102, ins := [1], outs := [mkOut 3 .vote 5, mkOut 6 (.contract 9) 1] }])
/-- height 2: t104 vetoes o3 -/
def blk2 : Blk := (2, [{ id := 103, ins := [], outs := [mkOut 4 .normal 1] },
                       { id := 104, ins := [3], outs := [mkOut 5 .normal 5] }])
/-- a competing block at height 2: t106 spends o2 and creates the vote output o8 -/
def blk2' : Blk := (2, [{ id := 105, ins := [], outs := [mkOut 7 .normal 1] },
                        { id := 106, ins := [2], outs := [mkOut 8 .vote 1, mkOut 9 (.contract 9) 1] }])
def kind1 : Nat → OutKind := fun k => if k = 3 ∨ k = 8 then .vote else if k = 6 ∨ k = 9 then .contract 9 else .normal

/-- **F7 as a theorem**: with the pre-fix persistence the statement is false — the vote output
    o3 (created at height 1), vetoed by `blk2` and un-spent by detaching `blk2`, comes back
    with lock height 0 -/
theorem apply_detach_restores_old_save_refuted : ¬ restores_with saveViewOld := by
  intro h
  obtain ⟨db2, hrt, hsp, _⟩ := h p1 kind1 [blk0, blk1] blk2
    [(1, ⟨1, 0, true⟩), (2, ⟨1, 1, false⟩), (3, ⟨2, 1, false⟩)] (by decide) (by decide) (by decide) (by decide)
  have hdb2 : db2 = [(1, ⟨1, 0, true⟩), (2, ⟨1, 1, false⟩), (3, ⟨2, 0, false⟩)] := by
    have : roundTrip saveViewOld p1 kind1 [(1, ⟨1, 0, true⟩), (2, ⟨1, 1, false⟩), (3, ⟨2, 1, false⟩)] blk2
        = some [(1, ⟨1, 0, true⟩), (2, ⟨1, 1, false⟩), (3, ⟨2, 0, false⟩)] := by decide
    rw [this] at hrt
    exact (Option.some.inj hrt).symm
  have := hsp 3
  rw [hdb2] at this
  revert this
  decide

/-- non-vacuity of `restores_with`'s hypotheses (the witness used above) -/
example : replayU p1 [blk0, blk1] [] = some [(1, ⟨1, 0, true⟩), (2, ⟨1, 1, false⟩), (3, ⟨2, 1, false⟩)] ∧
    WF (flat ([blk0, blk1] ++ [blk2])) ∧ KindsOK kind1 (flat ([blk0, blk1] ++ [blk2])) ∧
    (applyBlockTxs p1 blk2.1 true blk2.2
      (loadSpent [(1, ⟨1, 0, true⟩), (2, ⟨1, 1, false⟩), (3, ⟨2, 1, false⟩)] blk2.2 [])).isSome := by
  refine ⟨by decide, by decide, by decide, by decide⟩

/-- the round trip with the real `saveView` on the same witness: o3 keeps its height 1 -/
example : roundTrip saveView p1 kind1 [(1, ⟨1, 0, true⟩), (2, ⟨1, 1, false⟩), (3, ⟨2, 1, false⟩)] blk2 =
    some [(1, ⟨1, 0, true⟩), (2, ⟨1, 1, false⟩), (3, ⟨2, 1, false⟩)] := by decide

/-- the full-strength reading "the persisted projection is restored at *every* key" -/
def apply_detach_full : Prop :=
  ∀ (p : Params) (kindOf : Nat → OutKind) (C : List Blk) (b : Blk) (db : View),
    replayU p C [] = some db → WF (flat (C ++ [b])) → KindsOK kindOf (flat (C ++ [b])) →
    (applyBlockTxs p b.1 true b.2 (loadSpent db b.2 [])).isSome →
    ∃ db2, roundTrip saveView p kindOf db b = some db2 ∧ ∀ k, proj (vget db2 k) = proj (vget db k)

/-- it fails (harmlessly): a *vote output created by the detached block* stays behind as a
    spent record `v/0/1` (`detachOutputUtxo` writes it, `saveUtxoView` now keeps spent vote
    records); a replay of the shorter chain has no record there.  Nothing can spend such a
    record, and re-attaching the creating transaction overwrites it — `apply_detach_restores`
    is the `_partial` statement: exact on every output of the chain, nothing spendable elsewhere. -/
theorem apply_detach_full_refuted : ¬ apply_detach_full := by
  intro h
  obtain ⟨db2, hrt, hp⟩ := h p1 kind1 [blk0] blk1 [(1, ⟨1, 0, false⟩)] (by decide) (by decide) (by decide) (by decide)
  have : roundTrip saveView p1 kind1 [(1, ⟨1, 0, false⟩)] blk1 = some [(1, ⟨1, 0, false⟩), (3, ⟨2, 0, true⟩)] := by decide
  rw [this] at hrt
  have hdb2 := (Option.some.inj hrt).symm
  have := hp 3
  rw [hdb2] at this
  revert this
  decide

/-! ### every view, one transaction -/

theorem vget_saveView_cases (db v : View) (hv : NodupKeys v) (k : Nat) :
    vget (saveView db v) k = eff db v k ∨
      (vget (saveView db v) k = none ∧ ∃ e, eff db v k = some e ∧ keep e = false) := by
  rw [Lemmas.Ledger.vget_saveView db v hv]
  unfold eff
  cases h : vget v k with
  | none => exact Or.inl rfl
  | some e =>
    cases hk : keep e
    · exact Or.inr ⟨by simp [hk], e, rfl, hk⟩
    · exact Or.inl (by simp [hk])

theorem proj_unspend {e : Entry} (hs : e.spent = false) :
    proj (some ({ ({ e with spent := true } : Entry) with spent := false })) = proj (some e) := by
  cases e; simp_all

/-- **Every view, one transaction.**  For ANY persisted table `db` (no chain assumed) and any
    transaction the view accepts as a block of its own at height `h`: attach, persist, detach,
    persist succeeds; every key the transaction does not create has its persisted projection
    back — spendable entries with type and coinbase / vote height, spent coinbase / vote records —
    and the created outputs are not spendable. -/
theorem apply_detach_single_tx_any_view (p : Params) (kindOf : Nat → OutKind) (db : View) (h : Nat) (t : Tx)
    (hacc : (applyBlockTxs p h true [t] (loadSpent db [t] [])).isSome)
    (hfresh : ∀ k ∈ keys (utxoOuts h true t.outs), k ∉ t.ins)
    (hk : ∀ k ∈ t.ins, ∀ e, vget db k = some e →
      ∃ t', utxoType (kindOf k) = some t' ∧ (¬ (e.typ = 1 ∨ e.typ = 2) → e.typ = t')) :
    ∃ db2, roundTrip saveView p kindOf db (h, [t]) = some db2 ∧
      (∀ k, k ∉ keys (utxoOuts h true t.outs) → proj (vget db2 k) = proj (vget db k)) ∧
      (∀ k, k ∈ keys (utxoOuts h true t.outs) → spendProj (vget db2 k) = none) := by
  rw [roundTrip_saveView]
  have hext : ∃ db1, extendU p db (h, [t]) = some db1 := by
    unfold extendU
    cases hh : applyBlockTxs p h true [t] (loadSpent db [t] []) with
    | none => rw [hh] at hacc; cases hacc
    | some v => exact ⟨_, rfl⟩
  obtain ⟨db1, h1⟩ := hext
  rw [h1]
  obtain ⟨v', hn', hdb1, happ⟩ := extendU_sem h1
  -- forward
  simp only [posTxs, applyListF, applyTxF] at happ
  cases hsp : applySpendF p h t.ins (vget db) with
  | none => rw [hsp] at happ; simp at happ
  | some σ1 =>
    rw [hsp] at happ
    simp only [Option.some.injEq] at happ
    obtain ⟨hnd, hall, hσ1⟩ := applySpendF_char hsp
    have heff : ∀ k, k ∉ keys (utxoOuts h true t.outs) →
        eff db v' k = if k ∈ t.ins then (vget db k).map (fun e => { e with spent := true }) else vget db k := by
      intro k hk'
      rw [← happ, applyOutputF_eq, updAll_not_mem hk', hσ1]
    -- backward
    have hcond : ∀ o ∈ t.ins, (∃ t', utxoType (kindOf o) = some t') ∧
        (vget db1 o = none ∨ ∃ e, vget db1 o = some e ∧ e.spent = true) := by
      intro o ho
      obtain ⟨e, he, _⟩ := hall o ho
      obtain ⟨t', ht', _⟩ := hk o ho e he
      refine ⟨⟨t', ht'⟩, ?_⟩
      have hnotU : o ∉ keys (utxoOuts h true t.outs) := fun hU => hfresh o hU ho
      have := heff o hnotU
      rw [if_pos ho, he] at this
      simp only [Option.map_some] at this
      rcases vget_saveView_cases db v' hn' o with hc | ⟨hc, _⟩
      · right; rw [hdb1, hc, this]; exact ⟨_, rfl, rfl⟩
      · left; rw [hdb1, hc]
    obtain ⟨ρ1, hr1, hρ1⟩ := detachSpendF_ok (kindOf := kindOf) hnd hcond
    have hsem := reorgView_sem p kindOf db1 [] [[t]]
    simp only [List.flatMap_cons, List.flatMap_nil, List.reverse_cons, List.reverse_nil, List.nil_append,
      List.append_nil, detachListF, detachTxF, hr1, flat, applyListF, Option.bind_some] at hsem
    cases hv : reorgView p kindOf db1 [] [[t]] with
    | none => rw [hv] at hsem; simp at hsem
    | some v2 =>
      rw [hv] at hsem
      simp only [Option.map_some, Option.some.injEq] at hsem
      have hn2 := reorgView_nodup hv
      refine ⟨saveView db1 v2, by simp [hv], ?_, ?_⟩
      · intro k hkU
        rw [proj_save hn2, hsem, detachOutputF_eq,
          updAll_not_mem (by rw [keys_goneOuts h true]; exact hkU), hρ1]
        have hfw := heff k hkU
        by_cases hin : k ∈ t.ins
        · rw [if_pos hin]
          obtain ⟨e, he, hs⟩ := hall k hin
          rw [if_pos hin, he] at hfw
          simp only [Option.map_some] at hfw
          obtain ⟨t', ht', hty⟩ := hk k hin e he
          rw [he]
          rcases vget_saveView_cases db v' hn' k with hc | ⟨hc, e2, he2, hkeep⟩
          · have : vget db1 k = some { e with spent := true } := by rw [hdb1, hc, hfw]
            unfold restore
            rw [this]
            exact proj_unspend hs
          · have : vget db1 k = none := by rw [hdb1, hc]
            rw [hfw] at he2
            cases he2
            obtain ⟨_, hC⟩ := keep_false hkeep
            unfold restore
            rw [this, ht']
            simp only [Option.getD_some]
            unfold proj
            have hC' : ¬ (t' = 1 ∨ t' = 2) := by rw [← hty hC]; exact hC
            simp [hC', hs, hty hC]
        · rw [if_neg hin]
          rw [if_neg hin] at hfw
          rcases vget_saveView_cases db v' hn' k with hc | ⟨hc, e2, he2, hkeep⟩
          · rw [hdb1, hc, hfw]
          · rw [hdb1, hc, ← hfw, he2]
            obtain ⟨hs2, hC2⟩ := keep_false hkeep
            simp [proj, hs2, hC2]
      · intro k hkU
        have hU' : k ∈ keys (goneOuts t.outs) := by rw [keys_goneOuts h true]; exact hkU
        obtain ⟨e, he, hu⟩ := updAll_mem hU' ρ1
        have : proj (vget (saveView db1 v2) k) = proj (some e) := by
          rw [proj_save hn2, hsem, detachOutputF_eq, hu]
        rw [spendProj_of_proj this]
        exact spendProj_spent (goneOuts_spent he)

/-- the hypotheses on a table that is not the table of any replayed chain (a spent vote record
    with height 7 sits next to the coinbase output that `blk1`'s second transaction spends) -/
example : (applyBlockTxs p1 1 true [blk1.2[1]!] (loadSpent [(1, ⟨1, 0, false⟩), (50, ⟨2, 7, true⟩)] [blk1.2[1]!] [])).isSome ∧
    (∀ k ∈ keys (utxoOuts 1 true (blk1.2[1]!).outs), k ∉ (blk1.2[1]!).ins) ∧
    (∀ k ∈ (blk1.2[1]!).ins, ∀ e, vget [(1, (⟨1, 0, false⟩ : Entry)), (50, ⟨2, 7, true⟩)] k = some e →
      ∃ t', utxoType (kind1 k) = some t' ∧ (¬ (e.typ = 1 ∨ e.typ = 2) → e.typ = t')) := by
  refine ⟨by decide, by decide, ?_⟩
  intro k hk e he
  have : k = 1 := by simpa [blk1] using hk
  subst this
  have : e = ⟨1, 0, false⟩ := by
    have h' : vget [(1, (⟨1, 0, false⟩ : Entry)), (50, ⟨2, 7, true⟩)] 1 = some ⟨1, 0, false⟩ := by decide
    rw [h'] at he; exact (Option.some.inj he).symm
  subst this
  exact ⟨0, by decide, by decide⟩

/-! ## 2. Reorganisation = replay of the new main chain -/

/-- the model's `ledgerReorg` is `reorgCore` on the transactions of the named blocks -/
theorem ledgerReorg_is_reorgCore (s : NodeLedger.State) (att det : List Header) :
    s.ledgerReorg att det =
      reorgCore s.params s.kindOf s.utxo s.contracts
        (att.map (fun a => (a.height, s.txsOf a.id))) (det.map (fun d => s.txsOf d.id)) :=
  ledgerReorg_eq s att det

theorem replay_split {p : Params} {P A : List Blk} {u : View} {c : CMap} (h : replay p (P ++ A) = some (u, c)) :
    ∃ dP, replayU p P [] = some dP ∧ replayU p A dP = some u ∧ c = replayC (P ++ A) [] := by
  unfold replay at h
  rw [replayFrom_eq] at h
  cases hu : replayU p (P ++ A) [] with
  | none => rw [hu] at h; simp at h
  | some d =>
    rw [hu] at h
    simp only [Option.some.injEq, Prod.mk.injEq] at h
    rw [replayU_append] at hu
    cases hP : replayU p P [] with
    | none => rw [hP] at hu; simp at hu
    | some dP =>
      rw [hP] at hu
      exact ⟨dP, rfl, by rw [← h.1]; exact hu, h.2.symm⟩

/-- **reorg = replay.**  The node holds the ledger of the chain `P ++ A` (as a node that never
    saw a fork would) and reorganises to `P ++ B`, a chain a fork-free node accepts.  Then the
    reorganisation is accepted, and what it persists agrees with the replay of `P ++ B` from
    genesis: same spendable outputs with the same type and coinbase / vote heights; same full
    persisted projection on every output of the new chain; same contract table. -/
theorem reorg_eq_replay {p : Params} {kindOf : Nat → OutKind} {P A B : List Blk} {uA uB : View} {cA cB : CMap}
    (hA : replay p (P ++ A) = some (uA, cA)) (hB : replay p (P ++ B) = some (uB, cB))
    (hwA : WF (flat (P ++ A))) (hwB : WF (flat (P ++ B))) (hk : KindsOK kindOf (flat (P ++ A)))
    (hnr : NoReuse P A) :
    ∃ u c, reorgCore p kindOf uA cA B (A.reverse.map (·.2)) = some (u, c) ∧
      (∀ k, spendProj (vget u k) = spendProj (vget uB k)) ∧
      (∀ k, k ∈ keys (created (flat (P ++ B))) → proj (vget u k) = proj (vget uB k)) ∧
      (∀ k, cget c k = cget cB k) := by
  obtain ⟨dP, hP, hA', hcA⟩ := replay_split hA
  obtain ⟨dP', hP', hB', hcB⟩ := replay_split hB
  rw [hP] at hP'; cases hP'
  have hwP : WF ([] ++ flat P) := by rw [flat_append] at hwA; simpa using (wf_append hwA).1
  have g0 : Good [] (vget ([] : View)) := by rw [vget_nil_eq]; exact good_nil
  obtain ⟨gP, sP⟩ := replayU_good g0 (by trivial : Struct []) hwP hP
  simp only [List.nil_append] at gP sP
  obtain ⟨gA, sA⟩ := replayU_good gP sP (by rw [← flat_append]; exact hwA) hA'
  rw [← flat_append] at gA sA
  have hgen := reorg_general (B := B) hP gA sA hwA hwB hk
  rw [hB'] at hgen
  unfold reorgCore
  cases hv : reorgView p kindOf uA B (A.reverse.map (·.2)) with
  | none => rw [hv] at hgen; exact False.elim hgen
  | some v2 =>
    rw [hv] at hgen
    obtain ⟨g2, _, gB⟩ := hgen
    refine ⟨_, _, rfl, good_seq g2 gB, fun k hk' => good_proj g2 gB hk', ?_⟩
    intro k
    rw [hcA, hcB]
    exact reorg_contracts hnr k

/-- a reorganisation is refused by the ledger exactly when a fork-free node would refuse the
    new main chain -/
theorem reorg_refused_iff_replay_refused {p : Params} {kindOf : Nat → OutKind} {P A B : List Blk} {uA : View} {cA : CMap}
    (hA : replay p (P ++ A) = some (uA, cA))
    (hwA : WF (flat (P ++ A))) (hwB : WF (flat (P ++ B))) (hk : KindsOK kindOf (flat (P ++ A))) :
    reorgCore p kindOf uA cA B (A.reverse.map (·.2)) = none ↔ replay p (P ++ B) = none := by
  obtain ⟨dP, hP, hA', _⟩ := replay_split hA
  have hwP : WF ([] ++ flat P) := by rw [flat_append] at hwA; simpa using (wf_append hwA).1
  have g0 : Good [] (vget ([] : View)) := by rw [vget_nil_eq]; exact good_nil
  obtain ⟨gP, sP⟩ := replayU_good g0 (by trivial : Struct []) hwP hP
  simp only [List.nil_append] at gP sP
  obtain ⟨gA, sA⟩ := replayU_good gP sP (by rw [← flat_append]; exact hwA) hA'
  rw [← flat_append] at gA sA
  have hgen := reorg_general (B := B) hP gA sA hwA hwB hk
  have hrep : replay p (P ++ B) = none ↔ replayU p B dP = none := by
    unfold replay
    rw [replayFrom_eq, replayU_append, hP]
    simp only [Option.bind_some]
    cases replayU p B dP <;> simp
  rw [hrep]
  unfold reorgCore
  cases hv : reorgView p kindOf uA B (A.reverse.map (·.2)) with
  | none =>
    rw [hv] at hgen
    cases hb : replayU p B dP with
    | none => simp
    | some d => rw [hb] at hgen; exact False.elim hgen
  | some v2 =>
    rw [hv] at hgen
    cases hb : replayU p B dP with
    | none => rw [hb] at hgen; exact False.elim hgen
    | some d => simp

/-- a concrete fork: common prefix `[blk0, blk1]`, old branch `[blk2]` (vetoes o3), new branch
    `[blk2']`; all hypotheses of `reorg_eq_replay` hold -/
example : (replay p1 ([blk0, blk1] ++ [blk2])).isSome ∧ (replay p1 ([blk0, blk1] ++ [blk2'])).isSome ∧
    WF (flat ([blk0, blk1] ++ [blk2])) ∧ WF (flat ([blk0, blk1] ++ [blk2'])) ∧
    KindsOK kind1 (flat ([blk0, blk1] ++ [blk2])) := by
  refine ⟨by decide, by decide, by decide, by decide, by decide⟩

theorem firstReg_some_mem {txs : List Tx} {k x : Nat} (h : firstReg txs k = some x) : ∃ t ∈ txs, t.id = x := by
  unfold firstReg at h
  cases hf : txs.find? (registers k) with
  | none => rw [hf] at h; cases h
  | some t =>
    rw [hf] at h
    exact ⟨t, List.mem_of_find?_eq_some hf, by simpa using h⟩

/-- `NoReuse` holds whenever the two segments share no transaction id -/
theorem noReuse_of_disjoint_ids {P A : List Blk}
    (h : ∀ t ∈ blkTxs P, ∀ t' ∈ blkTxs A, t.id ≠ t'.id) : NoReuse P A := by
  intro k x y hx hy
  obtain ⟨t, ht, rfl⟩ := firstReg_some_mem hx
  obtain ⟨t', ht', rfl⟩ := firstReg_some_mem hy
  exact h t ht t' ht'

example : NoReuse [blk0, blk1] [blk2] := noReuse_of_disjoint_ids (by decide)

/-- the contract half without the `NoReuse` hypothesis -/
def reorg_contracts_unconditional : Prop :=
  ∀ (P A B : List Blk) (k : Nat),
    cget (saveContracts (replayC (P ++ A) []) (contractAttachAll B []) (contractDetachAll (A.reverse.map (·.2)) [])) k =
      cget (replayC (P ++ B) []) k

/-- it is false of the model: if the transaction that registered contract 9 in the common
    prefix occurred *again, with the same id,* on the branch being left, the guard "rollback
    is forbidden if contract register transaction id is different" would not protect the
    record and the contract would be unregistered.  Unreachable in the real system: a
    transaction's inputs are spent by its first occurrence, so it cannot occur twice in one
    chain (and coinbase transactions commit to their height). -/
theorem reorg_contracts_unconditional_refuted : ¬ reorg_contracts_unconditional := by
  intro h
  have := h [(1, [{ id := 7, ins := [], outs := [mkOut 1 (.contract 9) 1] }])]
            [(2, [{ id := 7, ins := [], outs := [mkOut 1 (.contract 9) 1] }])] [] 9
  revert this
  decide

/-- `Reach p kindOf C st`: after ANY history of extensions and reorganisations the ledger
    accepted, ending with main chain `C` and persisted ledger `st` — the ledger is the one a
    replay of `C` from genesis leaves (on the projection), and that replay succeeds. -/
theorem history_independent {p : Params} {kindOf : Nat → OutKind} {C : List Blk} {st : View × CMap}
    (h : Reach p kindOf C st) :
    ∃ u c, replay p C = some (u, c) ∧
      (∀ k, spendProj (vget st.1 k) = spendProj (vget u k)) ∧
      (∀ k, k ∈ keys (created (flat C)) → proj (vget st.1 k) = proj (vget u k)) ∧
      (∀ k, cget st.2 k = cget c k) := by
  have inv := reach_inv h
  obtain ⟨d, hd⟩ := inv.replays
  have g0 : Good [] (vget ([] : View)) := by rw [vget_nil_eq]; exact good_nil
  obtain ⟨gd, _⟩ := replayU_good g0 (by trivial : Struct []) (by simpa using inv.wf) hd
  simp only [List.nil_append] at gd
  refine ⟨d, replayC C [], ?_, good_seq inv.good gd, fun k hk => good_proj inv.good gd hk, ?_⟩
  · unfold replay; rw [replayFrom_eq, hd]
  · intro k; rw [inv.contracts k, replayC_nil_get]

/-- two different histories ending on the same main chain `[blk0, blk1, blk2]`: one went through
    the competing block `blk2'` first and was reorganised, the other never saw a fork.  The raw
    tables differ (the first keeps the spent record of `blk2'`'s vote output o8) -/
example : ∃ st1 st2, Reach p1 kind1 ([blk0, blk1] ++ [blk2]) st1 ∧ Reach p1 kind1 ([] ++ [blk0, blk1, blk2]) st2 ∧
    st1 ≠ st2 := by
  have r0 : Reach p1 kind1 ([] ++ [blk0, blk1, blk2']) _ :=
    Reach.reorg (P := []) (A := []) (B := [blk0, blk1, blk2']) (st := ([], [])) Reach.genesis
      (by decide) (by decide) (by decide) (noReuse_of_disjoint_ids (by decide)) rfl
  have r1 := Reach.reorg (P := [blk0, blk1]) (A := [blk2']) (B := [blk2]) r0
    (by decide) (by decide) (by decide) (noReuse_of_disjoint_ids (by decide)) rfl
  have r2 : Reach p1 kind1 ([] ++ [blk0, blk1, blk2]) _ :=
    Reach.reorg (P := []) (A := []) (B := [blk0, blk1, blk2]) (st := ([], [])) Reach.genesis
      (by decide) (by decide) (by decide) (noReuse_of_disjoint_ids (by decide)) rfl
  exact ⟨_, _, r1, r2, by decide⟩

/-- `reorg_eq_replay` read on the node model: `s` holds the ledger of `P ++ A`; `att` / `det`
    name the blocks of `B` (ascending) and `A` (tip first) -/
theorem ledgerReorg_eq_replay (s : NodeLedger.State) {P A B : List Blk} {uB : View} {cB : CMap}
    (att det : List Header)
    (hatt : att.map (fun a => (a.height, s.txsOf a.id)) = B)
    (hdet : det.map (fun d => s.txsOf d.id) = A.reverse.map (·.2))
    (hA : replay s.params (P ++ A) = some (s.utxo, s.contracts)) (hB : replay s.params (P ++ B) = some (uB, cB))
    (hwA : WF (flat (P ++ A))) (hwB : WF (flat (P ++ B))) (hk : KindsOK s.kindOf (flat (P ++ A)))
    (hnr : NoReuse P A) :
    ∃ u c, s.ledgerReorg att det = some (u, c) ∧
      (∀ k, spendProj (vget u k) = spendProj (vget uB k)) ∧
      (∀ k, k ∈ keys (created (flat (P ++ B))) → proj (vget u k) = proj (vget uB k)) ∧
      (∀ k, cget c k = cget cB k) := by
  rw [ledgerReorg_eq, hatt, hdet]
  exact reorg_eq_replay hA hB hwA hwB hk hnr

/-- a node state meeting the hypotheses of `ledgerReorg_eq_replay`: blocks 0,1 = `blk0, blk1`,
    block 2 = `blk2` (old tip), block 3 = `blk2'` (new tip) -/
def sEx : NodeLedger.State :=
  { node := Node.State.init { epoch := 2, nVal := 1, me := none } { id := 0, parent := 99, height := 0, slot := 0, rank := 0, sup := [] },
    params := p1,
    blockTxs := [(0, blk0.2), (1, blk1.2), (2, blk2.2), (3, blk2'.2)],
    utxo := [(1, ⟨1, 0, true⟩), (2, ⟨1, 1, false⟩), (3, ⟨2, 1, true⟩), (4, ⟨1, 2, false⟩), (5, ⟨0, 2, false⟩)],
    contracts := [(9, 102)] }

example :
    [({ id := 3, parent := 1, height := 2, slot := 0, rank := 0, sup := [] } : Header)].map (fun a => (a.height, sEx.txsOf a.id)) = [blk2'] ∧
    [({ id := 2, parent := 1, height := 2, slot := 0, rank := 0, sup := [] } : Header)].map (fun d => sEx.txsOf d.id) = [blk2].reverse.map (·.2) ∧
    replay sEx.params ([blk0, blk1] ++ [blk2]) = some (sEx.utxo, sEx.contracts) ∧
    (replay sEx.params ([blk0, blk1] ++ [blk2'])).isSome ∧
    KindsOK sEx.kindOf (flat ([blk0, blk1] ++ [blk2])) := by
  refine ⟨rfl, rfl, by decide, by decide, by decide⟩

/-- the genesis ledger of the node model is the replay of the genesis block (utxo half; like
    `initChainStatus`, `State.init` registers no contracts for the genesis block) -/
theorem init_utxo_is_replay_of_genesis (cfg : Config) (p : Params) (g : Header) (gtxs : List Tx) (d : View)
    (h : replayU p [(0, gtxs)] [] = some d) : (NodeLedger.State.init cfg p g gtxs).utxo = d := by
  have hl : ∀ (os : List Nat) (v : View), os.foldl (loadStep []) v = v := by
    intro os
    induction os with
    | nil => intro v; rfl
    | cons o os ih =>
      intro v
      rw [List.foldl_cons]
      have : loadStep [] v o = v := by
        unfold loadStep
        cases vget v o <;> rfl
      rw [this, ih]
  simp only [replayU, extendU, loadSpent_eq, hl] at h
  unfold NodeLedger.State.init
  cases ha : applyBlockTxs p 0 true gtxs [] with
  | none => rw [ha] at h; simp at h
  | some v =>
    rw [ha] at h
    simp only [Option.map_some, Option.some.injEq] at h
    simpa using h

example : replayU p1 [(0, blk0.2)] [] = some [(1, ⟨1, 0, false⟩)] := by decide

/-! ## 3. Acceptance does not depend on history -/

/-- whether the ledger accepts a next block — and the spendable projection it then persists —
    depends only on the spendable projection of the table -/
theorem acceptance_history_free (p : Params) (db1 db2 : View) (b : Blk)
    (h : ∀ k, spendProj (vget db1 k) = spendProj (vget db2 k)) :
    match extendU p db1 b, extendU p db2 b with
    | some d1, some d2 => ∀ k, spendProj (vget d1 k) = spendProj (vget d2 k)
    | none, none => True
    | _, _ => False := by
  have h1 := replayU_flat p [b] db1
  have h2 := replayU_flat p [b] db2
  have h3 := applyListF_seq p (flat [b]) (σ := vget db1) (τ := vget db2) h
  simp only [replayU] at h1 h2
  cases ha : applyListF p (flat [b]) (vget db1) with
  | none =>
    rw [ha] at h1 h3
    cases hb : applyListF p (flat [b]) (vget db2) with
    | some y => rw [hb] at h3; exact False.elim h3
    | none =>
      rw [hb] at h2
      cases e1 : extendU p db1 b with
      | some x => rw [e1] at h1; exact False.elim h1
      | none =>
        cases e2 : extendU p db2 b with
        | some x => rw [e2] at h2; exact False.elim h2
        | none => trivial
  | some x =>
    rw [ha] at h1 h3
    cases hb : applyListF p (flat [b]) (vget db2) with
    | none => rw [hb] at h3; exact False.elim h3
    | some y =>
      rw [hb] at h2 h3
      cases e1 : extendU p db1 b with
      | none => rw [e1] at h1; exact False.elim h1
      | some d1 =>
        cases e2 : extendU p db2 b with
        | none => rw [e2] at h2; exact False.elim h2
        | some d2 =>
          rw [e1] at h1; rw [e2] at h2
          exact fun k => ((h1 k).symm.trans (h3 k)).trans (h2 k)

/-- hence only on the main chain: two nodes that reached the same main chain through
    different histories accept the same next blocks -/
theorem acceptance_depends_on_main_chain {p : Params} {kindOf : Nat → OutKind} {C : List Blk} {st1 st2 : View × CMap}
    (h1 : Reach p kindOf C st1) (h2 : Reach p kindOf C st2) (b : Blk) :
    (extend p st1 b).isSome = (extend p st2 b).isSome := by
  have g1 := (reach_inv h1).good
  have g2 := (reach_inv h2).good
  have := acceptance_history_free p st1.1 st2.1 b (good_seq g1 g2)
  rw [extend_eq, extend_eq]
  cases e1 : extendU p st1.1 b <;> cases e2 : extendU p st2.1 b <;> rw [e1, e2] at this <;> simp_all

/-- the hypothesis of `acceptance_history_free` is met by tables that differ as raw data:
    the node that went through `blk2` and back holds the leftover record `(3, v/0/1)`… -/
example : (∀ k, spendProj (vget [(1, ⟨1, 0, false⟩), (3, ⟨2, 0, true⟩)] k) = spendProj (vget [(1, ⟨1, 0, false⟩)] k)) := by
  intro k
  by_cases h1 : k = 1
  · subst h1; decide
  · by_cases h3 : k = 3
    · subst h3; decide
    · have e1 : vget [(1, (⟨1, 0, false⟩ : Entry)), (3, ⟨2, 0, true⟩)] k = none := by
        rw [vget_eq]; apply (aget_none_iff _ _).mpr; simp [keys, h1, h3]
      have e2 : vget [(1, (⟨1, 0, false⟩ : Entry))] k = none := by
        rw [vget_eq]; apply (aget_none_iff _ _).mpr; simp [keys, h1]
      rw [e1, e2]

/-! ## 4. `settle`: the ledger either follows the chain or the chain stays -/

/-- the best block did not move: only the chain/casper part of the state changes -/
theorem settle_same_best (pre : NodeLedger.State) (post : Node.State) (r : Res) (h : post.best = pre.node.best) :
    pre.settle post r = ({ pre with node := post }, r) := by
  unfold NodeLedger.State.settle
  simp [h]

/-- the ledger refuses the reorganisation: the result is `.err`; best block, main-chain index,
    chain status, utxo table and contract table are what they were -/
theorem settle_refused (pre : NodeLedger.State) (post : Node.State) (r : Res) (nb ob : Header) (att det : List Header)
    (hb : post.best ≠ pre.node.best) (hnb : post.header post.best = some nb) (hob : post.header pre.node.best = some ob)
    (hc : post.calcReorg (2 * post.fuel) nb ob [] [] = some (att, det)) (hl : pre.ledgerReorg att det = none) :
    (pre.settle post r).2 = .err ∧
      (pre.settle post r).1.node.best = pre.node.best ∧
      (pre.settle post r).1.node.index = pre.node.index ∧
      (pre.settle post r).1.node.statusFin = pre.node.statusFin ∧
      (pre.settle post r).1.utxo = pre.utxo ∧ (pre.settle post r).1.contracts = pre.contracts := by
  unfold NodeLedger.State.settle
  have : (post.best == pre.node.best) = false := by simpa using hb
  simp [this, hnb, hob, hc, hl]

/-- the ledger accepts: the persisted views are exactly those of `ledgerReorg`, the chain part
    is the new one, the result is passed through -/
theorem settle_accepted (pre : NodeLedger.State) (post : Node.State) (r : Res) (nb ob : Header) (att det : List Header)
    (u : View) (c : CMap)
    (hb : post.best ≠ pre.node.best) (hnb : post.header post.best = some nb) (hob : post.header pre.node.best = some ob)
    (hc : post.calcReorg (2 * post.fuel) nb ob [] [] = some (att, det)) (hl : pre.ledgerReorg att det = some (u, c)) :
    pre.settle post r = ({ pre with node := post, utxo := u, contracts := c }, r) := by
  unfold NodeLedger.State.settle
  have : (post.best == pre.node.best) = false := by simpa using hb
  simp [this, hnb, hob, hc, hl]

/-- in every case the tables change only through `ledgerReorg` -/
theorem settle_tables (pre : NodeLedger.State) (post : Node.State) (r : Res) :
    ((pre.settle post r).1.utxo = pre.utxo ∧ (pre.settle post r).1.contracts = pre.contracts) ∨
    ∃ att det, pre.ledgerReorg att det = some ((pre.settle post r).1.utxo, (pre.settle post r).1.contracts) := by
  unfold NodeLedger.State.settle
  by_cases hb : (post.best == pre.node.best) = true
  · simp [hb]
  · simp only [hb, if_false, Bool.false_eq_true]
    cases post.header post.best with
    | none => simp
    | some nb =>
      cases post.header pre.node.best with
      | none => simp
      | some ob =>
        cases hc : post.calcReorg (2 * post.fuel) nb ob [] [] with
        | none => simp [hc]
        | some ad =>
          obtain ⟨att, det⟩ := ad
          cases hl : pre.ledgerReorg att det with
          | none => simp [hc, hl]
          | some uc =>
            obtain ⟨u, c⟩ := uc
            exact Or.inr ⟨att, det, by simp [hc, hl]⟩

/-- **one step of the node keeps the ledger on its main chain.**  The tables of `pre` were reached
    by some history ending on `P ++ A`; the chain part moved its best block and `calcReorg` says:
    leave branch `A`, adopt branch `B`.  Then after `settle` either the tables are reached by a
    history ending on `P ++ B` (the chain part is the new one, the result is passed through), or
    nothing moved (`.err`, best block and tables as before) — and then a fork-free node refuses
    `P ++ B` as well. -/
theorem settle_preserves_reach (pre : NodeLedger.State) (post : Node.State) (r : Res) (nb ob : Header)
    (att det : List Header) {P A B : List Blk}
    (hreach : Reach pre.params pre.kindOf (P ++ A) (pre.utxo, pre.contracts))
    (hwA : WF (flat (P ++ A))) (hwB : WF (flat (P ++ B))) (hk : KindsOK pre.kindOf (flat (P ++ A)))
    (hnr : NoReuse P A)
    (hatt : att.map (fun a => (a.height, pre.txsOf a.id)) = B)
    (hdet : det.map (fun d => pre.txsOf d.id) = A.reverse.map (·.2))
    (hb : post.best ≠ pre.node.best) (hnb : post.header post.best = some nb)
    (hob : post.header pre.node.best = some ob)
    (hc : post.calcReorg (2 * post.fuel) nb ob [] [] = some (att, det)) :
    (Reach pre.params pre.kindOf (P ++ B) ((pre.settle post r).1.utxo, (pre.settle post r).1.contracts) ∧
        (pre.settle post r).1.node = post ∧ (pre.settle post r).2 = r) ∨
    ((pre.settle post r).1.utxo = pre.utxo ∧ (pre.settle post r).1.contracts = pre.contracts ∧
        (pre.settle post r).2 = .err ∧ (pre.settle post r).1.node.best = pre.node.best ∧
        replay pre.params (P ++ B) = none) := by
  have hcore := ledgerReorg_eq pre att det
  rw [hatt, hdet] at hcore
  cases hl : pre.ledgerReorg att det with
  | some uc =>
    obtain ⟨u, c⟩ := uc
    left
    rw [settle_accepted pre post r nb ob att det u c hb hnb hob hc hl]
    refine ⟨?_, rfl, rfl⟩
    exact Reach.reorg hreach hwA hwB hk hnr (by rw [← hcore]; exact hl)
  | none =>
    right
    obtain ⟨h1, h2, _, _, h5, h6⟩ := settle_refused pre post r nb ob att det hb hnb hob hc hl
    refine ⟨h5, h6, h1, h2, ?_⟩
    have inv := reach_inv hreach
    obtain ⟨d, hd⟩ := inv.replays
    rw [replayU_append] at hd
    cases hP : replayU pre.params P [] with
    | none => rw [hP] at hd; simp at hd
    | some dP =>
      have hgen := reorg_general (B := B) hP inv.good inv.struct hwA hwB hk
      rw [hl] at hcore
      have hv : reorgView pre.params pre.kindOf pre.utxo B (A.reverse.map (·.2)) = none := by
        unfold reorgCore at hcore
        cases hv : reorgView pre.params pre.kindOf pre.utxo B (A.reverse.map (·.2)) with
        | none => rfl
        | some v => rw [hv] at hcore; simp at hcore
      simp only at hgen
      rw [hv] at hgen
      unfold replay
      rw [replayFrom_eq, replayU_append, hP]
      simp only [Option.bind_some]
      cases hB : replayU pre.params B dP with
      | none => rfl
      | some dB => rw [hB] at hgen; exact False.elim hgen

/-! non-vacuity of the `settle` hypotheses: a node at genesis receives block 1 -/
def gH : Header := { id := 0, parent := 99, height := 0, slot := 0, rank := 0, sup := [] }
def b1H : Header := { id := 1, parent := 0, height := 1, slot := 1, rank := 5, sup := [] }
/-- block 1 carries `blk1`'s transactions (acceptable) or `blk2`'s (they spend o3, which does not exist) -/
def preEx (txs1 : List Tx) : NodeLedger.State :=
  let s := NodeLedger.State.init { epoch := 2, nVal := 1, me := none } p1 gH blk0.2
  { s with node := { s.node with defs := [b1H, gH] }, blockTxs := [(0, blk0.2), (1, txs1)] }
def postEx : Node.State := ((preEx blk1.2).node.processBlock b1H).1

example : postEx.best ≠ (preEx blk1.2).node.best ∧ (postEx.header postEx.best).isSome ∧
    (postEx.header (preEx blk1.2).node.best).isSome ∧
    (postEx.calcReorg (2 * postEx.fuel) b1H gH [] []).isSome := by
  refine ⟨by decide, by decide, by decide, by decide⟩
/-- accepted: the tables become those of `ledgerReorg` -/
example : ((preEx blk1.2).settle postEx .ok).1.utxo =
    [(1, ⟨1, 0, true⟩), (2, ⟨1, 1, false⟩), (3, ⟨2, 1, false⟩)] ∧ ((preEx blk1.2).settle postEx .ok).2 = .ok := by
  refine ⟨by decide, by decide⟩
/-- refused: `.err`, best block and tables unchanged -/
example : ((preEx blk2.2).settle postEx .ok).2 = .err ∧ ((preEx blk2.2).settle postEx .ok).1.node.best = 0 ∧
    ((preEx blk2.2).settle postEx .ok).1.utxo = (preEx blk2.2).utxo := by
  refine ⟨by decide, by decide, by decide⟩

/-- the hypotheses of `settle_preserves_reach` on the same step (`P = [blk0]`, `A = []`, `B = [blk1]`) -/
example : Reach (preEx blk1.2).params (preEx blk1.2).kindOf ([blk0] ++ []) ((preEx blk1.2).utxo, (preEx blk1.2).contracts) ∧
    [b1H].map (fun a => (a.height, (preEx blk1.2).txsOf a.id)) = [blk1] ∧
    KindsOK (preEx blk1.2).kindOf (flat ([blk0] ++ [])) ∧ WF (flat ([blk0] ++ [blk1])) := by
  refine ⟨?_, rfl, by decide, by decide⟩
  exact Reach.reorg (P := []) (A := []) (B := [blk0]) (st := ([], [])) Reach.genesis
    (by decide) (by decide) (by decide) (noReuse_of_disjoint_ids (by decide)) rfl

end BytomModel.Props.C10
