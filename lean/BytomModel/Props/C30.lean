/-
C30 — Merkle inclusion proofs are sound and complete.

Model: `BytomModel.Merkle` (mirror of protocol/bc/types/merkle.go) over an abstract hash
`H : HashFns ι α` (`leafH x = sha3(0x00‖x)`, `nodeH a b = sha3(0x01‖a‖b)`,
`emptyH = sha3("")`).  Hash assumptions (`GoodHash`): leaf and interior hash injective,
their ranges disjoint from each other and from the empty-string hash.  They are satisfiable
(`free_good`: the free term algebra), and are what collision-freedom of SHA3-256 with the
0x00/0x01 prefixes gives.

All theorems are for ALL id lists `l` (any length, including the empty list) and all
related lists `rel`; nothing is bounded.
-/
import BytomModel.Lemmas.Merkle
import BytomModel.Lemmas.MerkleTamper

namespace BytomModel.Props.C30
open BytomModel.Merkle BytomModel.Lemmas.Merkle

variable {ι α : Type} [DecidableEq α]

/-- The run of the validator on the generated proof: it returns exactly the list's merkle root
    and consumes the whole proof and all related hashes. -/
theorem generated_proof_run (H : HashFns ι α) (hinj : ∀ x y, H.leafH x = H.leafH y → x = y)
    (l rel : List ι) (hne : l ≠ []) (hnd : l.Nodup) (hsub : rel.Sublist l) :
    rootByProofF H ((getProof H l rel).2.length + 1) (getProof H l rel).1 (getProof H l rel).2
      (rel.map H.leafH) = ⟨merkleRoot H l, [], [], []⟩ := by
  obtain ⟨t, hb, hB, hr⟩ := build_built H l hne
  have hfil : t.leaves.filter (· ∈ rel.map H.leafH) = rel.map H.leafH := by
    rw [hB.leaves_eq]
    exact filter_mem_of_sublist (hsub.map _) (nodup_map_of_inj hinj hnd)
  unfold getProof
  rw [hb, hr]
  by_cases hrel : rel = []
  · subst hrel
    simp [run_assist]
  · have hS : (rel.map H.leafH).isEmpty = false := by simp [hrel]
    simp only [hS]
    have hpne : (t.proof (rel.map H.leafH)).1 ≠ [] := by
      intro h
      have := (proof_nil_iff (rel.map H.leafH) t).1.mp h
      rw [hfil] at this
      simp [hrel] at this
    have hside : side (rel.map H.leafH) t = t.proof (rel.map H.leafH) := by
      unfold side; rw [if_neg]; simpa using hpne
    have := side_run H (rel.map H.leafH) t hB.wf ((t.proof (rel.map H.leafH)).2.length + 1) [] [] []
      (by rw [hside]; omega)
    rw [hside, hfil] at this
    simpa using this

/-- **Completeness.** For every duplicate-free id list and every sub-list of it (in list
    order), the generated proof validates against the list's merkle root. -/
theorem proof_complete (H : HashFns ι α) (hinj : ∀ x y, H.leafH x = H.leafH y → x = y)
    (l rel : List ι) (hnd : l.Nodup) (hsub : rel.Sublist l) :
    validate H (getProof H l rel).1 (getProof H l rel).2 rel (merkleRoot H l) = true := by
  by_cases hne : l = []
  · subst hne
    have : rel = [] := List.sublist_nil.mp hsub
    subst this
    simp [validate, getProof, build_nil, merkleRoot_nil, run_nil_flags]
  · unfold validate
    rw [generated_proof_run H hinj l rel hne hnd hsub]
    simp

/-- **A different root fails**: the generated proof validates against no other root. -/
theorem wrong_root_fails (H : HashFns ι α) (hinj : ∀ x y, H.leafH x = H.leafH y → x = y)
    (l rel : List ι) (hnd : l.Nodup) (hsub : rel.Sublist l) (root' : α) (hr : root' ≠ merkleRoot H l) :
    validate H (getProof H l rel).1 (getProof H l rel).2 rel root' = false := by
  by_cases hne : l = []
  · subst hne
    have : rel = [] := List.sublist_nil.mp hsub
    subst this
    have : ¬ H.emptyH = root' := fun h => hr (by rw [merkleRoot_nil]; exact h.symm)
    simp [validate, getProof, build_nil, run_nil_flags, this]
  · unfold validate
    rw [generated_proof_run H hinj l rel hne hnd hsub]
    have : ¬ merkleRoot H l = root' := fun h => hr h.symm
    simp [this]

/-- **Soundness.** Whatever hashes and flags are presented: if they validate `rel` against the
    merkle root of `l`, then `rel` is a sub-list of `l` (every related id is in the list, in
    list order). -/
theorem proof_sound (H : HashFns ι α) (G : GoodHash H) (l rel : List ι) (hashes : List α) (flags : List Nat)
    (hv : validate H hashes flags rel (merkleRoot H l) = true) : rel.Sublist l := by
  unfold validate at hv
  simp only [Bool.and_eq_true, decide_eq_true_eq, List.isEmpty_iff] at hv
  obtain ⟨hroot, hms⟩ := hv
  have hleaf : ∀ m ∈ rel.map H.leafH, ∃ x, H.leafH x = m := by
    intro m hm; obtain ⟨x, _, hx⟩ := List.mem_map.mp hm; exact ⟨x, hx⟩
  by_cases hne : l = []
  · subst hne
    rw [merkleRoot_nil] at hroot
    have := run_empty_consumes_nothing G _ _ _ _ hleaf hroot
    rw [hms] at this
    have : rel = [] := by simpa using this.symm
    subst this; exact List.Sublist.refl _
  · obtain ⟨t, _, hB, hr⟩ := build_built H l hne
    rw [hr] at hroot
    obtain ⟨c, hc, hsub⟩ := run_sound G _ _ _ _ t l hB hleaf hroot
    rw [hms, List.append_nil] at hc
    rw [← hc, hB.leaves_eq] at hsub
    obtain ⟨l', hl', hmap⟩ := List.sublist_map_iff.mp hsub
    have : rel = l' := map_eq_of_inj G.leaf_inj hmap
    rw [this]; exact hl'

/-- Soundness, element-wise: a validated related id is a member of the list. -/
theorem proof_sound_mem (H : HashFns ι α) (G : GoodHash H) (l rel : List ι) (hashes : List α) (flags : List Nat)
    (hv : validate H hashes flags rel (merkleRoot H l) = true) : ∀ x ∈ rel, x ∈ l :=
  fun _ hx => (proof_sound H G l rel hashes flags hv).subset hx

/-- **Hashes not in the list fail**: no proof whatsoever validates a related list containing an
    id that is not in `l`. -/
theorem foreign_id_fails (H : HashFns ι α) (G : GoodHash H) (l rel : List ι) (x : ι) (hx : x ∈ rel) (hnx : x ∉ l)
    (hashes : List α) (flags : List Nat) : validate H hashes flags rel (merkleRoot H l) = false := by
  cases hv : validate H hashes flags rel (merkleRoot H l) with
  | false => rfl
  | true => exact absurd (proof_sound_mem H G l rel hashes flags hv x hx) hnx

/-- **Tampered proof hashes fail.** Against the generated flags, NO other hash list of the same
    length validates — in particular not the generated one with any single hash (or several)
    replaced. -/
theorem tampered_hashes_fail (H : HashFns ι α) (G : GoodHash H) (l rel : List ι) (hnd : l.Nodup)
    (hsub : rel.Sublist l) (hashes' : List α) (hlen : hashes'.length = (getProof H l rel).1.length)
    (hne : hashes' ≠ (getProof H l rel).1) :
    validate H hashes' (getProof H l rel).2 rel (merkleRoot H l) = false := by
  cases hv : validate H hashes' (getProof H l rel).2 rel (merkleRoot H l) with
  | false => rfl
  | true =>
    exfalso
    by_cases hl : l = []
    · subst hl
      have : rel = [] := List.sublist_nil.mp hsub
      subst this
      simp [getProof, build_nil] at hlen hne
      exact hne hlen
    · have hrun := generated_proof_run H G.leaf_inj l rel hl hnd hsub
      unfold validate at hv
      simp only [Bool.and_eq_true, decide_eq_true_eq, List.isEmpty_iff] at hv
      obtain ⟨t, _, hB, hr⟩ := build_built H l hl
      have hleaf : ∀ m ∈ rel.map H.leafH, ∃ x, H.leafH x = m := by
        intro m hm; obtain ⟨x, _, hx⟩ := List.mem_map.mp hm; exact ⟨x, hx⟩
      obtain ⟨c, h1, h2, _⟩ := run_determined G _ _ _ _ _ _ t l hB hleaf hleaf
        (by rw [hrun]; exact hr) (by rw [← hr]; exact hv.1)
      rw [hrun] at h1
      simp only [List.append_nil] at h1
      rw [← h1] at h2
      -- hashes' = generated ++ leftover, same length, so leftover = []
      have : (rootByProofF H ((getProof H l rel).2.length + 1) hashes' (getProof H l rel).2
          (rel.map H.leafH)).hs = [] := by
        have hl2 := congrArg List.length h2
        rw [List.length_append, hlen] at hl2
        exact List.length_eq_zero_iff.mp (by omega)
      rw [this, List.append_nil] at h2
      exact hne h2

/-- one replaced proof hash: the special case the property names -/
theorem tamper_hash_fails (H : HashFns ι α) (G : GoodHash H) (l rel : List ι) (hnd : l.Nodup)
    (hsub : rel.Sublist l) (i : Nat) (hi : i < (getProof H l rel).1.length) (h' : α)
    (hne : h' ≠ (getProof H l rel).1[i]) :
    validate H ((getProof H l rel).1.set i h') (getProof H l rel).2 rel (merkleRoot H l) = false := by
  apply tampered_hashes_fail H G l rel hnd hsub
  · simp
  · intro h
    have := congrArg (fun x => x[i]?) h
    simp only [List.getElem?_set_self hi, List.getElem?_eq_getElem hi, Option.some.injEq] at this
    exact hne this

/-- for a non-empty list the generated proof is the "side" proof of the whole tree -/
theorem getProof_eq_side (H : HashFns ι α) (hinj : ∀ x y, H.leafH x = H.leafH y → x = y)
    (l rel : List ι) (hne : l ≠ []) (hnd : l.Nodup) (hsub : rel.Sublist l) :
    ∃ t, Built H t l ∧ merkleRoot H l = t.hash ∧ getProof H l rel = side (rel.map H.leafH) t ∧
      t.leaves.filter (· ∈ rel.map H.leafH) = rel.map H.leafH := by
  obtain ⟨t, hb, hB, hr⟩ := build_built H l hne
  have hfil : t.leaves.filter (· ∈ rel.map H.leafH) = rel.map H.leafH := by
    rw [hB.leaves_eq]
    exact filter_mem_of_sublist (hsub.map _) (nodup_map_of_inj hinj hnd)
  refine ⟨t, hB, hr, ?_, hfil⟩
  unfold getProof
  rw [hb]
  by_cases hrel : rel = []
  · subst hrel
    simp only [List.map_nil, List.isEmpty_nil, if_true]
    rw [side_nothing [] t (by simp)]
  · have hS : (rel.map H.leafH).isEmpty = false := by simp [hrel]
    simp only [hS]
    have hpne : (t.proof (rel.map H.leafH)).1 ≠ [] := by
      intro h
      have := (proof_nil_iff (rel.map H.leafH) t).1.mp h
      rw [hfil] at this
      simp [hrel] at this
    have hsd : side (rel.map H.leafH) t = t.proof (rel.map H.leafH) := by
      unfold side; rw [if_neg]; simpa using hpne
    exact hsd.symm

/-- **Tampered proof flags fail.** Replacing any one flag of the generated proof by any other
    value makes validation fail.  Besides `GoodHash` this uses that hashes have no cycles
    (`Ranked`: some rank strictly grows from `a`, `b` to `nodeH a b`); without it the claim is
    false (`nodeH a b = a` would let `[1,0,0]` be replaced by `[0,0,0]`). -/
theorem tamper_flag_fails (H : HashFns ι α) (G : GoodHash H) {rk : α → Nat} (hrk : Ranked H rk)
    (l rel : List ι) (hnd : l.Nodup) (hsub : rel.Sublist l)
    (i : Nat) (hi : i < (getProof H l rel).2.length) (f' : Nat) (hne : f' ≠ (getProof H l rel).2[i]) :
    validate H (getProof H l rel).1 ((getProof H l rel).2.set i f') rel (merkleRoot H l) = false := by
  cases hv : validate H (getProof H l rel).1 ((getProof H l rel).2.set i f') rel (merkleRoot H l) with
  | false => rfl
  | true =>
    exfalso
    by_cases hl : l = []
    · subst hl
      have : rel = [] := List.sublist_nil.mp hsub
      subst this
      simp [getProof, build_nil] at hi
    · obtain ⟨t, hB, hr, hside, hfil⟩ := getProof_eq_side H G.leaf_inj l rel hl hnd hsub
      unfold validate at hv
      simp only [Bool.and_eq_true, decide_eq_true_eq, List.isEmpty_iff] at hv
      have hne' : f' ≠ (getProof H l rel).2.getD i 0 := by
        rw [List.getD_eq_getElem?_getD, List.getElem?_eq_getElem hi]; exact hne
      clear hne
      rw [hside] at hi hne' hv
      have hS : ∀ y ∈ rel.map H.leafH, ∃ x, H.leafH x = y := by
        intro m hm; obtain ⟨x, _, hx⟩ := List.mem_map.mp hm; exact ⟨x, hx⟩
      have hndt : t.leaves.Nodup := by rw [hB.leaves_eq]; exact nodup_map_of_inj G.leaf_inj hnd
      have key := side_run_tampered G hrk (rel.map H.leafH) hS t l hB hndt
        (((side (rel.map H.leafH) t).2.set i f').length + 1) [] [] [] i f' (by simp) (by simp) hi hne'
      rw [hfil] at key
      simp only [List.append_nil] at key
      obtain ⟨x, _, hx⟩ := key (by rw [← hr]; exact hv.1)
      rw [hx] at hv
      simp at hv

/-- two trees over id lists with the same root hash are over the same list -/
theorem built_hash_inj (H : HashFns ι α) (G : GoodHash H) {t : MTree α} {l : List ι} (hB : Built H t l) :
    ∀ {t' : MTree α} {l' : List ι}, Built H t' l' → t.hash = t'.hash → l = l' := by
  induction hB with
  | leaf x =>
    intro t' l' hB' h
    cases hB' with
    | leaf y => simp only [MTree.hash] at h; rw [G.leaf_inj _ _ h]
    | node _ _ => exact absurd h (G.leaf_ne_node _ _ _)
  | node _ _ ih1 ih2 =>
    intro t' l' hB' h
    cases hB' with
    | leaf y => exact absurd h.symm (G.leaf_ne_node _ _ _)
    | node h1 h2 =>
      simp only [MTree.hash] at h
      obtain ⟨e1, e2⟩ := G.node_inj _ _ _ _ h
      rw [ih1 h1 e1, ih2 h2 e2]

/-- **`merkleRoot` is injective** (the root commits to the whole id list, used by C03). -/
theorem merkleRoot_injective (H : HashFns ι α) (G : GoodHash H) (l l' : List ι)
    (h : merkleRoot H l = merkleRoot H l') : l = l' := by
  by_cases hl : l = []
  · subst hl
    by_cases hl' : l' = []
    · exact hl'.symm
    · obtain ⟨t', _, hB', hr'⟩ := build_built H l' hl'
      rw [merkleRoot_nil, hr'] at h
      exact absurd h (hB'.hash_ne_empty G)
  · obtain ⟨t, _, hB, hr⟩ := build_built H l hl
    by_cases hl' : l' = []
    · subst hl'
      rw [merkleRoot_nil, hr] at h
      exact absurd h.symm (hB.hash_ne_empty G)
    · obtain ⟨t', _, hB', hr'⟩ := build_built H l' hl'
      rw [hr, hr'] at h
      exact built_hash_inj H G hB hB' h

/-- `buildMerkleTree` returns nil exactly for the empty list; in particular the nil-dereference
    branch of the model (`left.hash` on a nil child) is never taken. -/
theorem build_none_iff (H : HashFns ι α) (l : List ι) : build H l = none ↔ l = [] := by
  constructor
  · intro h
    by_cases hne : l = []
    · exact hne
    · obtain ⟨t, hb, _⟩ := build_built H l hne
      rw [hb] at h; cases h
  · intro h; subst h; rfl

/-- `merkleRoot` is the hash of the tree `buildMerkleTree` builds. -/
theorem merkleRoot_eq_build_hash (H : HashFns ι α) (l : List ι) (hne : l ≠ []) :
    ∃ t, build H l = some t ∧ merkleRoot H l = t.hash := by
  obtain ⟨t, hb, _, hr⟩ := build_built H l hne
  exact ⟨t, hb, hr⟩

/-- `prevPowerOfTwo` splits a list of ≥ 2 elements into two non-empty parts. -/
theorem prevPowerOfTwo_bounds (n : Nat) (h : 2 ≤ n) : 0 < prevPowerOfTwo n ∧ prevPowerOfTwo n < n :=
  ⟨prevPowerOfTwo_pos h, prevPowerOfTwo_lt h⟩

/-! ### the hypotheses are satisfiable; tests on literals (tests, not the proof) -/

example : GoodHash freeFns := free_good
example : Ranked freeFns freeRank := free_ranked
example : [10, 20, 30, 40, 50].Nodup ∧ [20, 50].Sublist [10, 20, 30, 40, 50] := by decide
example : validate freeFns (getProof freeFns [10, 20, 30, 40, 50] [20, 50]).1
    (getProof freeFns [10, 20, 30, 40, 50] [20, 50]).2 [20, 50] (merkleRoot freeFns [10, 20, 30, 40, 50]) = true := by decide
example : (getProof freeFns [10, 20, 30] [20]).2 = [1, 1, 0, 2, 0] := by decide
example : validate freeFns (getProof freeFns [10, 20, 30] [20]).1 (getProof freeFns [10, 20, 30] [20]).2 [20]
    (merkleRoot freeFns [10, 20]) = false := by decide
/-- tests on a literal: every single-flag replacement of a generated proof by 0..3 is refused -/
example : ((List.range 5).all fun i => (List.range 4).all fun f =>
    f == (getProof freeFns [10, 20, 30] [20]).2.getD i 9 ||
    !validate freeFns (getProof freeFns [10, 20, 30] [20]).1 ((getProof freeFns [10, 20, 30] [20]).2.set i f) [20]
      (merkleRoot freeFns [10, 20, 30])) = true := by decide
/-- recorded, outside the property: with a duplicated id the generated proof does NOT validate -/
example : validate freeFns (getProof freeFns [10, 10] [10]).1 (getProof freeFns [10, 10] [10]).2 [10]
    (merkleRoot freeFns [10, 10]) = false := by decide

end BytomModel.Props.C30
