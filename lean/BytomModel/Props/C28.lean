import BytomModel.Model.KD
namespace BytomModel.Props.C28
open BytomModel.KD
theorem placeholder : fromLE [1, 1] = 257 := rfl
end BytomModel.Props.C28
