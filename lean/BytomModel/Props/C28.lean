/-
C28 — Key derivation and signatures are consistent.

Model: `BytomModel.KD` (crypto/ed25519/chainkd, pseudohsm key file).  The group, the PRFs and
the key-file primitives are parameters; what is assumed of them is `GrpLaws` / `PRFLaws`
(satisfiable: `toyGrp_laws`, `toyPRF_laws`) and, for the key file, the stated hypotheses.
Every theorem is for ALL keys, selectors, paths (of any length, resp. up to the stated bound)
and messages.  "Verification fails under any other key or message" is unforgeability and is not
a theorem here (exercised by the harness).
-/
import BytomModel.Lemmas.KD
import BytomModel.Model.HSM

namespace BytomModel.Props.C28
open BytomModel.KD BytomModel.Lemmas.KD

/-! ### byte level -/

/-- **The unrolled ripple-carry additions of `nonhardenedChild` are integer addition** of the
    little-endian values; `sum >> 8` after the last step is the carry out of 2^(8n). -/
theorem carry_add_eq_nat_add (a b : Bytes) (h : a.length = b.length) :
    fromLE (carryAdd a b 0).1 + 256 ^ a.length * ((carryAdd a b 0).2 >>> 8) = fromLE a + fromLE b := by
  have := carryAdd_spec a b 0 h
  simpa using this

/-- **No carry out** (so no `panic("sum does not fit in 256-bit int")`) whenever the true sum
    fits 256 bits, and then the result bytes are exactly the sum. -/
theorem no_carry_out (a b : Bytes) (h : a.length = b.length) (hlen : a.length = 32)
    (hfit : fromLE a + fromLE b < 2 ^ 256) :
    (carryAdd a b 0).2 >>> 8 = 0 ∧ fromLE (carryAdd a b 0).1 = fromLE a + fromLE b :=
  carryAdd_no_overflow a b h hlen hfit

/-- the root scalar has bit 254 set and bits 253, 255 clear -/
theorem root_scalar_bounds (s : Bytes) (hlen : s.length = 32) (h : IsBytes s) :
    2 ^ 254 ≤ fromLE (pruneRootScalar s) ∧ fromLE (pruneRootScalar s) < 2 ^ 254 + 2 ^ 253 :=
  pruneRoot_bounds s hlen h

/-- every non-hardened step adds less than 2^233 -/
theorem intermediate_scalar_lt (f : Bytes) (hlen : f.length = 32) (h : IsBytes f) :
    fromLE (pruneIntermediateScalar f) < 2 ^ 233 :=
  pruneIntermediate_lt f hlen h

/-! ### derivation -/

/-- a well-formed extended key: 64 bytes -/
def WFKey (x : Bytes) : Prop := x.length = 64 ∧ IsBytes x

/-- the scalar (first half, little-endian) of an extended private key -/
def scalar (xprv : Bytes) : Nat := fromLE (xprv.take 32)

section
variable {G : Type} (g : Grp G) (f : PRF)

theorem take32_isBytes {x : Bytes} (h : IsBytes x) : IsBytes (x.take 32) :=
  fun b hb => h b (List.mem_of_mem_take hb)

/-- One non-hardened step, spelled out: when the scalar has room for another 2^233 the step
    does not panic, the child is well formed and its scalar is the parent's plus the (pruned)
    PRF output, which is below 2^233. -/
theorem nonhardenedChild_spec (hf : PRFLaws f) (xprv sel : Bytes) (hx : WFKey xprv)
    (hroom : scalar xprv + 2 ^ 233 ≤ 2 ^ 256) :
    ∃ c, nonhardenedChild g f xprv sel = .ok c ∧ WFKey c ∧
      ∃ d, d < 2 ^ 233 ∧ scalar c = scalar xprv + d ∧
        d = fromLE (pruneIntermediateScalar ((f.hmac ((xpub g xprv).drop 32)
              ([78] ++ (xpub g xprv).take 32 ++ sel)).take 32)) ∧
        c.drop 32 = (f.hmac ((xpub g xprv).drop 32) ([78] ++ (xpub g xprv).take 32 ++ sel)).drop 32 := by
  obtain ⟨hxl, hxb⟩ := hx
  generalize hh : f.hmac ((xpub g xprv).drop 32) ([78] ++ (xpub g xprv).take 32 ++ sel) = h
  have hhl : h.length = 64 := by rw [← hh]; exact hf.hmac_length _ _
  have hhb : IsBytes h := by rw [← hh]; exact hf.hmac_bytes _ _
  have ht32 : (h.take 32).length = 32 := by rw [List.length_take, hhl]; rfl
  have hfb := pruneIntermediate_lt (h.take 32) ht32 (take32_isBytes hhb)
  have hfl : (pruneIntermediateScalar (h.take 32)).length = 32 := by rw [pruneIntermediate_length, ht32]
  have hxt : (xprv.take 32).length = 32 := by rw [List.length_take, hxl]; rfl
  have hadd := carryAdd_no_overflow (xprv.take 32) (pruneIntermediateScalar (h.take 32))
    (by rw [hxt, hfl]) hxt (by unfold scalar at hroom; omega)
  have hrl := carryAdd_length (xprv.take 32) (pruneIntermediateScalar (h.take 32)) 0 (by rw [hxt, hfl])
  rw [hxt] at hrl
  refine ⟨(carryAdd (xprv.take 32) (pruneIntermediateScalar (h.take 32)) 0).1 ++ h.drop 32, ?_, ?_, ?_⟩
  · unfold nonhardenedChild
    simp only [hh, hadd.1, ne_eq, not_true_eq_false, if_false]
  · constructor
    · rw [List.length_append, hrl, List.length_drop, hhl]
    · intro b hb
      rcases List.mem_append.mp hb with h1 | h1
      · exact carryAdd_isBytes _ _ _ b h1
      · exact hhb b (List.mem_of_mem_drop h1)
  · refine ⟨_, hfb, ?_, rfl, ?_⟩
    · unfold scalar; rw [List.take_left' hrl]; exact hadd.2
    · rw [List.drop_left' hrl]

/-- what a successful non-hardened step returned -/
theorem nonhardenedChild_ok (xprv sel c : Bytes) (hc : nonhardenedChild g f xprv sel = .ok c) :
    (carryAdd (xprv.take 32) (pruneIntermediateScalar ((f.hmac ((xpub g xprv).drop 32)
        ([78] ++ (xpub g xprv).take 32 ++ sel)).take 32)) 0).2 >>> 8 = 0 ∧
    c = (carryAdd (xprv.take 32) (pruneIntermediateScalar ((f.hmac ((xpub g xprv).drop 32)
        ([78] ++ (xpub g xprv).take 32 ++ sel)).take 32)) 0).1 ++
        (f.hmac ((xpub g xprv).drop 32) ([78] ++ (xpub g xprv).take 32 ++ sel)).drop 32 := by
  simp only [nonhardenedChild] at hc
  split at hc
  · cases hc
  · rename_i hcarry
    simp only [ne_eq, Decidable.not_not] at hcarry
    injection hc with hc
    exact ⟨hcarry, hc.symm⟩

/-- **Deriving the child private key and taking its public key equals deriving the child
    public key directly**: if `xprv.Child(sel, false)` returns `c`, then
    `xprv.XPub().Child(sel)` returns `c.XPub()` (and does not panic). -/
theorem child_commutes (hg : GrpLaws g) (hf : PRFLaws f) (xprv sel c : Bytes) (hx : WFKey xprv)
    (hc : nonhardenedChild g f xprv sel = .ok c) :
    xpubChild g f (xpub g xprv) sel = .ok (xpub g c) := by
  obtain ⟨hxl, hxb⟩ := hx
  obtain ⟨hcarry, hc⟩ := nonhardenedChild_ok g f xprv sel c hc
  generalize hh : f.hmac ((xpub g xprv).drop 32) ([78] ++ (xpub g xprv).take 32 ++ sel) = h at hc hcarry
  have hhl : h.length = 64 := by rw [← hh]; exact hf.hmac_length _ _
  have ht32 : (h.take 32).length = 32 := by rw [List.length_take, hhl]; rfl
  have hfl : (pruneIntermediateScalar (h.take 32)).length = 32 := by rw [pruneIntermediate_length, ht32]
  have hxt : (xprv.take 32).length = 32 := by rw [List.length_take, hxl]; rfl
  have hrl := carryAdd_length (xprv.take 32) (pruneIntermediateScalar (h.take 32)) 0 (by rw [hxt, hfl])
  rw [hxt] at hrl
  have hspec := carryAdd_spec (xprv.take 32) (pruneIntermediateScalar (h.take 32)) 0 (by rw [hxt, hfl])
  rw [hcarry] at hspec
  simp only [Nat.mul_zero, Nat.add_zero, Nat.zero_shiftRight] at hspec
  -- the public side
  unfold xpubChild
  rw [hh]
  have hpt : (xpub g xprv).take 32 = g.enc (g.smulB (fromLE (xprv.take 32))) := by
    unfold xpub; exact List.take_left' (hg.enc_length _)
  simp only [hpt, hg.dec_enc]
  congr 1
  subst hc
  unfold xpub
  rw [List.take_left' hrl, List.drop_left' hrl, hspec, hg.smulB_add]

/-- **… lifted to paths of any length**: if `xprv.Derive(path)` returns `c` then
    `xprv.XPub().Derive(path)` returns `c.XPub()`. -/
theorem derive_commutes (hg : GrpLaws g) (hf : PRFLaws f) : ∀ (path : List Bytes) (xprv c : Bytes),
    WFKey xprv → derive g f xprv path = .ok c → xpubDerive g f (xpub g xprv) path = .ok (xpub g c)
  | [], xprv, c, _, h => by
    simp only [derive] at h; injection h with h; subst h; rfl
  | p :: ps, xprv, c, hx, h => by
    simp only [derive] at h
    cases hch : nonhardenedChild g f xprv p with
    | panic m => rw [hch] at h; cases h
    | ok ch =>
      rw [hch] at h
      simp only at h
      simp only [xpubDerive, child_commutes g f hg hf xprv p ch hx hch]
      -- the child is well formed
      have hwf : WFKey ch := by
        obtain ⟨hxl, hxb⟩ := hx
        obtain ⟨_, hce⟩ := nonhardenedChild_ok g f xprv p ch hch
        generalize hh : f.hmac ((xpub g xprv).drop 32) ([78] ++ (xpub g xprv).take 32 ++ p) = hm at hce
        have hhl : hm.length = 64 := by rw [← hh]; exact hf.hmac_length _ _
        have hhb : IsBytes hm := by rw [← hh]; exact hf.hmac_bytes _ _
        subst hce
        have ht32 : (hm.take 32).length = 32 := by rw [List.length_take, hhl]; rfl
        have hxt : (xprv.take 32).length = 32 := by rw [List.length_take, hxl]; rfl
        have hrl := carryAdd_length (xprv.take 32) (pruneIntermediateScalar (hm.take 32)) 0
          (by rw [hxt, pruneIntermediate_length, ht32])
        constructor
        · rw [List.length_append, hrl, hxt, List.length_drop, hhl]
        · intro b hb
          rcases List.mem_append.mp hb with h1 | h1
          · exact carryAdd_isBytes _ _ _ b h1
          · exact hhb b (List.mem_of_mem_drop h1)
      exact derive_commutes hg hf ps ch c hwf h

/-- `Derive` never panics while the scalar has room: from a key whose scalar is below
    `2^256 − n·2^233`, any path of length ≤ n derives without panic, and the final scalar grew by
    less than `n·2^233`. -/
theorem derive_no_panic (hf : PRFLaws f) : ∀ (path : List Bytes) (xprv : Bytes), WFKey xprv →
    scalar xprv + path.length * 2 ^ 233 ≤ 2 ^ 256 →
    ∃ c, derive g f xprv path = .ok c ∧ WFKey c ∧ scalar c < scalar xprv + path.length * 2 ^ 233 + 1
  | [], xprv, hx, _ => ⟨xprv, rfl, hx, by simp⟩
  | p :: ps, xprv, hx, hroom => by
    simp only [List.length_cons] at hroom
    have hr1 : scalar xprv + 2 ^ 233 ≤ 2 ^ 256 := by
      have : (ps.length + 1) * 2 ^ 233 = ps.length * 2 ^ 233 + 2 ^ 233 := by ring
      omega
    obtain ⟨ch, hch, hwf, d, hd, hsc, _, _⟩ := nonhardenedChild_spec g f hf xprv p hx hr1
    have hr2 : scalar ch + ps.length * 2 ^ 233 ≤ 2 ^ 256 := by
      have : (ps.length + 1) * 2 ^ 233 = ps.length * 2 ^ 233 + 2 ^ 233 := by ring
      omega
    obtain ⟨c, hc, hcw, hcs⟩ := derive_no_panic hf ps ch hwf hr2
    refine ⟨c, ?_, hcw, ?_⟩
    · simp only [derive, hch, hc]
    · simp only [List.length_cons]
      have : (ps.length + 1) * 2 ^ 233 = ps.length * 2 ^ 233 + 2 ^ 233 := by ring
      omega

/-- **From any root key, every path of up to 2^20 selectors derives without panic, both sides
    agree, and every scalar stays below 2^255** (the precondition `a[31] ≤ 127` of
    `GeScalarMultBase`). -/
theorem root_derive_commutes (hg : GrpLaws g) (hf : PRFLaws f) (seed : Bytes) (path : List Bytes)
    (hlen : path.length ≤ 2 ^ 20) :
    ∃ c, derive g f (rootXPrv f seed) path = .ok c ∧
      xpubDerive g f (xpub g (rootXPrv f seed)) path = .ok (xpub g c) ∧ scalar c < 2 ^ 255 := by
  generalize hh : f.hmac [82, 111, 111, 116] seed = h
  have hhl : h.length = 64 := by rw [← hh]; exact hf.hmac_length _ _
  have hhb : IsBytes h := by rw [← hh]; exact hf.hmac_bytes _ _
  have ht32 : (h.take 32).length = 32 := by rw [List.length_take, hhl]; rfl
  have hroot : rootXPrv f seed = pruneRootScalar (h.take 32) ++ h.drop 32 := by unfold rootXPrv; rw [hh]
  have hpl : (pruneRootScalar (h.take 32)).length = 32 := by rw [pruneRoot_length, ht32]
  have hwf : WFKey (rootXPrv f seed) := by
    rw [hroot]
    constructor
    · rw [List.length_append, hpl, List.length_drop, hhl]
    · intro b hb
      rcases List.mem_append.mp hb with h1 | h1
      · exact pruneRoot_isBytes _ (take32_isBytes hhb) b h1
      · exact hhb b (List.mem_of_mem_drop h1)
  have hsc : scalar (rootXPrv f seed) < 2 ^ 254 + 2 ^ 253 := by
    unfold scalar; rw [hroot, List.take_left' hpl]
    exact (pruneRoot_bounds _ ht32 (take32_isBytes hhb)).2
  have hmul : path.length * 2 ^ 233 ≤ 2 ^ 20 * 2 ^ 233 := Nat.mul_le_mul_right _ hlen
  have e : (2 : Nat) ^ 20 * 2 ^ 233 = 2 ^ 253 := by norm_num
  have e2 : (2 : Nat) ^ 254 + 2 ^ 253 + 2 ^ 253 = 2 ^ 255 := by norm_num
  have e3 : (2 : Nat) ^ 255 ≤ 2 ^ 256 := by norm_num
  obtain ⟨c, hc, _, hcs⟩ := derive_no_panic g f hf path (rootXPrv f seed) hwf (by omega)
  exact ⟨c, hc, derive_commutes g f hg hf path _ c hwf hc, by omega⟩

/-! ### signatures -/

/-- **A signature by a key verifies under its public key**: `xprv.XPub().Verify(msg,
    xprv.Sign(msg)) = true` — the EdDSA equation `S·B − h·A = R` from `S = h·a + r (mod ℓ)`. -/
theorem sign_verifies (hg : GrpLaws g) (xprv msg : Bytes) (hx : xprv.length = 64) :
    verify g f (xpub g xprv) msg (sign g f xprv msg) = true := by
  simp only [verify, sign, innerSign]
  generalize hE : f.hmac [69, 120, 112, 97, 110, 100] xprv = hE'
  have hxt : (xprv.take 32).length = 32 := by rw [List.length_take, hx]; rfl
  have hpt : (expandedPrivateKey f xprv).take 32 = xprv.take 32 := by
    unfold expandedPrivateKey; exact List.take_left' hxt
  have hpd : (expandedPrivateKey f xprv).drop 32 = hE'.drop 32 := by
    unfold expandedPrivateKey; rw [hE]; exact List.drop_left' hxt
  rw [hpt, hpd]
  generalize hsk : fromLE (xprv.take 32) = sk
  generalize hr : fromLE (f.hash (hE'.drop 32 ++ msg)) % g.ell = r
  have hpub : (xpub g xprv).take 32 = g.enc (g.smulB sk) := by
    unfold xpub; rw [hsk]; exact List.take_left' (hg.enc_length _)
  rw [hpub]
  generalize hh : fromLE (f.hash (g.enc (g.smulB r) ++ g.enc (g.smulB sk) ++ msg)) % g.ell = h
  have hRl : (g.enc (g.smulB r)).length = 32 := hg.enc_length _
  have hS : (h * sk + r) % g.ell < g.ell := Nat.mod_lt _ hg.ell_pos
  unfold verifyPub
  have hlen : (g.enc (g.smulB r) ++ toLE 32 ((h * sk + r) % g.ell)).length = 64 := by
    rw [List.length_append, hRl, toLE_length]
  rw [if_neg (by rw [hlen]; simp), hg.dec_enc]
  simp only
  rw [List.drop_left' hRl, List.take_left' hRl, fromLE_toLE _ _ (Nat.lt_of_lt_of_le hS hg.ell_le)]
  rw [if_neg (by omega), hh]
  have key : g.add (g.smulB ((h * sk + r) % g.ell)) (g.smul h (g.neg (g.smulB sk))) = g.smulB r := by
    rw [hg.smulB_mod, hg.smulB_add, hg.smul_neg, hg.smul_smulB, hg.add_comm (g.smulB (h * sk)),
      hg.add_neg_cancel]
  rw [key]
  simp

end

/-! ### the key file -/

theorem xorBytes_involutive : ∀ (x s : Bytes), x.length ≤ s.length → xorBytes (xorBytes x s) s = x
  | [], _, _ => by cases ‹Bytes› <;> rfl
  | a :: as, [], h => by simp at h
  | a :: as, b :: bs, h => by
    simp only [xorBytes]
    rw [xorBytes_involutive as bs (by simpa using h), Nat.xor_assoc, Nat.xor_self, Nat.xor_zero]

theorem xorBytes_length : ∀ (x s : Bytes), x.length ≤ s.length → (xorBytes x s).length = x.length
  | [], s, _ => by cases s <;> rfl
  | a :: as, [], h => by simp at h
  | a :: as, b :: bs, h => by
    simp only [xorBytes, List.length_cons]
    rw [xorBytes_length as bs (by simpa using h)]

/-- **The key file decrypts with the correct password to exactly the stored key** (whatever the
    KDF, stream cipher and MAC are, as long as the key stream has the requested length). -/
theorem keystore_roundtrip (ks : KS) (hstream : ∀ k iv n, (ks.stream k iv n).length = n)
    (xprv auth salt iv : Bytes) :
    decryptKey ks (encryptKey ks xprv auth salt iv) auth = some xprv := by
  unfold decryptKey encryptKey aesCTRXOR
  simp only [ne_eq, not_true_eq_false, if_false]
  have hl : (xorBytes xprv (ks.stream ((ks.kdf auth salt).take 16) iv xprv.length)).length = xprv.length :=
    xorBytes_length _ _ (by rw [hstream])
  rw [hl, xorBytes_involutive _ _ (by rw [hstream])]

/-- A decrypted key signs identically: decryption returns the very same xprv, so every
    signature made with it equals the one made with the original key. -/
theorem keystore_signs_identically {G : Type} (g : Grp G) (f : PRF) (ks : KS)
    (hstream : ∀ k iv n, (ks.stream k iv n).length = n) (xprv auth salt iv msg : Bytes) :
    (decryptKey ks (encryptKey ks xprv auth salt iv) auth).map (fun k => sign g f k msg)
      = some (sign g f xprv msg) := by
  rw [keystore_roundtrip ks hstream]; rfl

/-- **A wrong password is refused** (`ErrDecrypt`), *given* that the two passwords derive
    different MAC keys and that the MAC is injective in its key (assumptions on scrypt / SHA-256,
    stated, not proved). -/
theorem wrong_password_rejected (ks : KS) (xprv auth auth' salt iv : Bytes)
    (hkdf : ((ks.kdf auth' salt).drop 16).take 16 ≠ ((ks.kdf auth salt).drop 16).take 16)
    (hmac : ∀ k k' m, ks.mac k m = ks.mac k' m → k = k') :
    decryptKey ks (encryptKey ks xprv auth salt iv) auth' = none := by
  unfold decryptKey encryptKey
  simp only
  rw [if_pos]
  exact fun h => hkdf (hmac _ _ _ h)

/-! ### the key store as the HSM API presents it (reference model `Model/HSM.lean`)

The real `pseudohsm.HSM` is compared with this model on random operation histories (and with a
new HSM object over the same directory) by the harness; the statements below are what the
model guarantees for EVERY history. -/

section hsm
open BytomModel.HSM

theorem get_set_same : ∀ (s : State) (k : Nat) (v : Option Nat), HSM.get (HSM.set s k v) k = v
  | [], 0, v => rfl
  | [], k + 1, v => by
    have := get_set_same [] k v
    simpa [HSM.get, HSM.set] using this
  | _ :: r, 0, v => rfl
  | x :: r, k + 1, v => by
    have := get_set_same r k v
    simpa [HSM.get, HSM.set] using this

theorem get_set_other : ∀ (s : State) (k j : Nat) (v : Option Nat), j ≠ k → HSM.get (HSM.set s k v) j = HSM.get s j
  | [], 0, j, v, h => by
    cases j with
    | zero => exact absurd rfl h
    | succ j => simp [HSM.get, HSM.set]
  | [], k + 1, j, v, h => by
    cases j with
    | zero => simp [HSM.get, HSM.set]
    | succ j =>
      have := get_set_other [] k j v (by omega)
      simpa [HSM.get, HSM.set] using this
  | x :: r, 0, j, v, h => by
    cases j with
    | zero => exact absurd rfl h
    | succ j => simp [HSM.get, HSM.set]
  | x :: r, k + 1, j, v, h => by
    cases j with
    | zero => simp [HSM.get, HSM.set]
    | succ j =>
      have := get_set_other r k j v (by omega)
      simpa [HSM.get, HSM.set] using this

/-- **After a successful password change the old password no longer unlocks, the new one does**,
    and signing / checking are refused resp. accepted accordingly — whatever happened before. -/
theorem old_password_refused_after_reset (s : State) (k old new : Nat) (hne : old ≠ new)
    (hok : (HSM.step s (.resetpw k old new)).2 = true) :
    let s' := (HSM.step s (.resetpw k old new)).1
    (HSM.step s' (.check k old)).2 = false ∧ (HSM.step s' (.sign k old)).2 = false ∧
    (HSM.step s' (.check k new)).2 = true ∧ (HSM.step s' (.sign k new)).2 = true := by
  by_cases hu : unlocks s k old = true
  · have hg : HSM.get s k = some old := by simpa [unlocks] using hu
    simp [HSM.step, unlocks, hg, get_set_same, Ne.symm hne]
  · simp [HSM.step, hu] at hok

/-- a deleted key is unlocked by no password; a key created afterwards under the same alias only
    by its own -/
theorem deleted_key_locked (s : State) (k pw pw' : Nat) (hok : (HSM.step s (.delete k pw)).2 = true) :
    (HSM.step (HSM.step s (.delete k pw)).1 (.check k pw')).2 = false := by
  by_cases hu : unlocks s k pw = true
  · have hg : HSM.get s k = some pw := by simpa [unlocks] using hu
    simp [HSM.step, unlocks, hg, get_set_same]
  · simp [HSM.step, hu] at hok

/-- operations on one alias never change what unlocks another alias; sign / check / a new HSM
    object change nothing at all -/
theorem other_slots_untouched (s : State) (op : Op) (j pw : Nat)
    (hj : match op with
      | .create k _ | .resetpw k _ _ | .delete k _ => j ≠ k
      | _ => True) :
    unlocks (HSM.step s op).1 j pw = unlocks s j pw := by
  cases op with
  | create k p => simp only [HSM.step]; split <;> simp [unlocks, get_set_other _ _ _ _ hj]
  | sign k p => rfl
  | check k p => rfl
  | resetpw k o n => simp only [HSM.step]; split <;> simp [unlocks, get_set_other _ _ _ _ hj]
  | delete k p => simp only [HSM.step]; split <;> simp [unlocks, get_set_other _ _ _ _ hj]
  | reload => rfl

example : (HSM.step (HSM.run HSM.empty [.create 0 7, .check 0 7, .resetpw 0 7 8]) (.check 0 7)).2 = false := by decide

end hsm

/-! ### the hypotheses are satisfiable; tests on literals -/

example : GrpLaws toyGrp := toyGrp_laws
example : PRFLaws toyPRF := toyPRF_laws
example : WFKey (rootXPrv toyPRF [1, 2, 3]) := by
  constructor
  · decide
  · intro b hb; revert b; decide
example : (carryAdd [255, 255] [1, 0] 0) = ([0, 0], 256) := by decide
example : fromLE (pruneRootScalar (List.replicate 32 255)) = 95 * 256 ^ 31 + (fromLE (List.replicate 31 255) - 7) := by decide

end BytomModel.Props.C28
