/-
C09 — program parsing and assembly are consistent.
-/
import BytomModel.Model.Asm

namespace BytomModel.Props.C09
open BytomModel.Asm

/-- the F6 witness: `JUMP 1` (target inside the instruction) -/
def f6Witness : Bytes := [0x63, 0x01, 0x00, 0x00, 0x00]

def asmDis (p : Bytes) : Option (Except AErr Bytes) :=
  match disassemble p with
  | .ok t => some (assemble t)
  | .error _ => none

theorem f6_witness_fails : asmDis f6Witness = some (.error .undef) := by decide

end BytomModel.Props.C09
