/-
C09 — program parsing and assembly are consistent.

All statements are about `Model/Asm.lean`, which mirrors vm.ParseOp / ParseProgram /
PushDataBytes / Disassemble / Assemble, the vmutil builders and the segwit / bcrp recognisers
statement by statement (Go's uint32 arithmetic explicit, `checked.AddUint32` = the definition
REGENERATED from math/checked/checked.go, opcode numbers / names / opsByName REGENERATED from
protocol/vm/ops.go).  Go panics and non-termination are explicit outcomes of the model
(`PErr.panic`, `PErr.diverge`).

Programs are `List UInt8` of length < 2^32 (a Go slice of ≥ 4 GiB would be truncated by
`uint32(len(prog))`; such programs are outside the hypotheses).
-/
import BytomModel.Model.Asm
import BytomModel.Lemmas.Asm

namespace BytomModel.Props.C09
open BytomModel.Asm BytomModel.Lemmas.Asm BytomModel.Gen

/-! ## Parsing tiles the program -/

/-- **parse_tiles.** If ParseProgram succeeds, the program is exactly the concatenation of
    the instructions' encodings: instruction `k` occupies `Len ≥ 1` bytes starting where
    instruction `k-1` ended, its first byte is its opcode and its `Data` is the rest of its
    bytes after the opcode's header (for OP_1..OP_16: the number, one byte long instruction);
    in particular the lengths sum to the program length. -/
theorem parse_tiles (p : Bytes) (is : List Inst) (hp : p.length < 4294967296)
    (h : parseProgram p = .ok is) :
    Tiling is p ∧ (is.map (·.len)).sum = p.length ∧ ∀ i ∈ is, 1 ≤ i.len := by
  have hlen : p.length ≤ maxInt32 := by
    by_cases hl : p.length ≤ maxInt32
    · exact hl
    · rw [parseProgram_long p (by omega) hp] at h; cases h
  rw [parseProgram_eq p hlen] at h
  have ht := specProg_tiles _ _ _ _ h
  refine ⟨ht, ht.length_sum, ?_⟩
  clear h hlen hp
  induction ht with
  | nil => intro i hi; cases hi
  | cons he _ ih =>
    intro i hi
    cases hi with
    | head => exact he.pos
    | tail _ hm => exact ih i hm

example : parseProgram [0x00, 0x02, 0xaa, 0xbb, 0x51, 0x4c, 0x01, 0xcc] =
    .ok [⟨0x00, 1, []⟩, ⟨0x02, 3, [0xaa, 0xbb]⟩, ⟨0x51, 1, [0x01]⟩, ⟨0x4c, 3, [0xcc]⟩] := by decide

/-- **parse_total.** ParseProgram never panics and always terminates: the result is one of
    the three error values or a tiling instruction list.  (Every uint32 addition on the way
    is the guarded `checked.AddUint32`, or is bounded by a preceding guard.) -/
theorem parse_total (p : Bytes) (hp : p.length < 4294967296) :
    parseProgram p = .error .long ∨ parseProgram p = .error .short ∨ parseProgram p = .error .overflow ∨
    ∃ is, parseProgram p = .ok is ∧ Tiling is p := by
  by_cases hl : p.length ≤ maxInt32
  · cases h : parseProgram p with
    | ok is => exact Or.inr (Or.inr (Or.inr ⟨is, rfl, (parse_tiles p is hp h).1⟩))
    | error e =>
      have h' := h
      rw [parseProgram_eq p hl] at h'
      have := specProg_total _ _ _ _ (Nat.lt_succ_self _) h'
      cases e with
      | long => exact Or.inl rfl
      | short => exact Or.inr (Or.inl rfl)
      | overflow => exact Or.inr (Or.inr (Or.inl rfl))
      | panic => exact absurd rfl this.1
      | diverge => exact absurd rfl this.2
  · exact Or.inl (parseProgram_long p (by omega) hp)

/-- programs longer than MaxInt32 bytes are rejected with ErrLongProgram -/
theorem parse_rejects_long (p : Bytes) (h1 : maxInt32 < p.length) (h2 : p.length < 4294967296) :
    parseProgram p = .error .long := parseProgram_long p h1 h2

/-- the three error values do occur -/
example : parseProgram [0x4c] = .error .short := by decide
example : parseProgram [0x4e, 0xfb, 0xff, 0xff, 0xff] = .error .overflow := by decide
example : parseProgram [0x00, 0x4e, 0xfa, 0xff, 0xff, 0xff] = .error .overflow := by decide
example : parseProgram [0x4e, 0xfa, 0xff, 0xff, 0xff] = .error .short := by decide

/-- a single call of ParseOp (any program counter) never panics either -/
theorem parseOp_total (p : Bytes) (pc : Nat) (hp : p.length ≤ maxInt32) (e : PErr)
    (h : parseOp p pc = .error e) : e ≠ .panic ∧ e ≠ .diverge := by
  by_cases hpc : pc < p.length
  · have hsplit : p = p.take pc ++ p.drop pc := (List.take_append_drop pc p).symm
    have hl : (p.take pc).length = pc := by rw [List.length_take]; omega
    have hne : p.drop pc ≠ [] := by
      intro h0; have := congrArg List.length h0; rw [List.length_drop] at this; simp at this; omega
    have := parseOp_eq (p.take pc) (p.drop pc) (by rw [← hsplit]; exact hp) hne
    rw [← hsplit, hl] at this
    rw [this] at h
    exact specOp_total h
  · unfold parseOp at h
    have hu : u32 p.length = p.length := u32_id (by unfold maxInt32 at hp; omega)
    have c1 : ¬ (p.length > maxInt32) := by omega
    have c2 : pc ≥ p.length := by omega
    simp only [hu, c1, c2, if_false, if_true] at h
    injection h with h; subst h; simp

/-! ## PushDataBytes output parses back to the data -/

/-- **pushData_parses.** For every data string (up to the int32 program bound) the output of
    PushDataBytes parses to exactly one instruction, carrying exactly the data, spanning the
    whole output; its opcode is the one of the length class. -/
theorem pushData_parses (d : Bytes) (hd : d.length + 5 ≤ maxInt32) :
    parseProgram (pushDataBytes d) = .ok [⟨pushOp d.length, (pushDataBytes d).length, d⟩] := by
  have hlen := pushDataBytes_length d
  have hh := (pushHdr_bounds d.length).2
  rw [parseProgram_eq _ (by rw [hlen]; omega)]
  have hs := specOp_pushData 0 d [] (by unfold maxInt32 at hd; omega)
  rw [List.append_nil] at hs
  have := @specProg_single ((pushDataBytes d).length - 1) 0 _ _ hs (by simp [hlen])
  have e : (pushDataBytes d).length - 1 + 2 = (pushDataBytes d).length + 1 := by
    have := (pushHdr_bounds d.length).1
    omega
  rw [e] at this
  rw [this, hlen]

/-- the five length classes, spelled out -/
theorem pushData_class_0 : pushDataBytes [] = [0x00] ∧ parseProgram (pushDataBytes []) = .ok [⟨0x00, 1, []⟩] := by
  decide
theorem pushData_class_1_75 (d : Bytes) (h : 1 ≤ d.length ∧ d.length ≤ 75) :
    parseProgram (pushDataBytes d) = .ok [⟨byte d.length, d.length + 1, d⟩] := by
  rw [pushData_parses d (by unfold maxInt32; omega), pushDataBytes_length]
  have h0 : ¬ d.length = 0 := by omega
  simp [pushOp, pushHdr, h.2, h0]
theorem pushData_class_76_255 (d : Bytes) (h : 76 ≤ d.length ∧ d.length ≤ 255) :
    parseProgram (pushDataBytes d) = .ok [⟨0x4c, d.length + 2, d⟩] := by
  rw [pushData_parses d (by unfold maxInt32; omega), pushDataBytes_length]
  have h0 : ¬ d.length = 0 := by omega
  have h1 : ¬ d.length ≤ 75 := by omega
  have h2 : d.length < 256 := by omega
  simp [pushOp, pushHdr, h0, h1, h2, Ops.OP_PUSHDATA1, byte]
theorem pushData_class_256_65535 (d : Bytes) (h : 256 ≤ d.length ∧ d.length ≤ 65535) :
    parseProgram (pushDataBytes d) = .ok [⟨0x4d, d.length + 3, d⟩] := by
  rw [pushData_parses d (by unfold maxInt32; omega), pushDataBytes_length]
  have h0 : ¬ d.length = 0 := by omega
  have h1 : ¬ d.length ≤ 75 := by omega
  have h2 : ¬ d.length < 256 := by omega
  have h3 : d.length < 65536 := by omega
  simp [pushOp, pushHdr, h0, h1, h2, h3, Ops.OP_PUSHDATA2, byte]
theorem pushData_class_65536_up (d : Bytes) (h : 65536 ≤ d.length ∧ d.length + 5 ≤ maxInt32) :
    parseProgram (pushDataBytes d) = .ok [⟨0x4e, d.length + 5, d⟩] := by
  rw [pushData_parses d h.2, pushDataBytes_length]
  have h0 : ¬ d.length = 0 := by omega
  have h1 : ¬ d.length ≤ 75 := by omega
  have h2 : ¬ d.length < 256 := by omega
  have h3 : ¬ d.length < 65536 := by omega
  simp [pushOp, pushHdr, h0, h1, h2, h3, Ops.OP_PUSHDATA4, byte]

example : parseProgram (pushDataBytes (List.replicate 76 0xab)) = .ok [⟨0x4c, 78, List.replicate 76 0xab⟩] :=
  pushData_class_76_255 _ (by decide)

/-! ## The assemble–disassemble round trip -/

def asmDis (p : Bytes) : Option (Except AErr Bytes) :=
  match disassemble p with
  | .ok t => some (assemble t)
  | .error _ => none

/-- the F6 witness: `JUMP 1` (target inside the instruction) -/
def f6Witness : Bytes := [0x63, 0x01, 0x00, 0x00, 0x00]

theorem f6_witness_fails : asmDis f6Witness = some (.error .undef) := by decide

end BytomModel.Props.C09
