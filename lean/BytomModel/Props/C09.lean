/-
C09 — program parsing and assembly are consistent.

All statements are about `Model/Asm.lean`, which mirrors vm.ParseOp / ParseProgram /
PushDataBytes / Disassemble / Assemble, the vmutil builders and the segwit / bcrp recognisers
statement by statement (Go's uint32 arithmetic explicit, `checked.AddUint32` = the definition
REGENERATED from math/checked/checked.go, opcode numbers / names / opsByName REGENERATED from
protocol/vm/ops.go).  Go panics and non-termination are explicit outcomes of the model
(`PErr.panic`, `PErr.diverge`).

Programs are `List UInt8` of length < 2^32 (a Go slice of ≥ 4 GiB would be truncated by
`uint32(len(prog))`; such programs are outside the hypotheses).
-/
import BytomModel.Model.Asm
import BytomModel.Model.StdProgs
import BytomModel.Lemmas.Asm
import BytomModel.Lemmas.AsmAppend
import BytomModel.Lemmas.AsmInj
import BytomModel.Lemmas.AsmLabel

namespace BytomModel.Props.C09
open BytomModel.Asm BytomModel.Lemmas.Asm BytomModel.Gen

/-! ## Parsing tiles the program -/

/-- **parse_tiles.** If ParseProgram succeeds, the program is exactly the concatenation of
    the instructions' encodings: instruction `k` occupies `Len ≥ 1` bytes starting where
    instruction `k-1` ended, its first byte is its opcode and its `Data` is the rest of its
    bytes after the opcode's header (for OP_1..OP_16: the number, one byte long instruction);
    in particular the lengths sum to the program length. -/
theorem parse_tiles (p : Bytes) (is : List Inst) (hp : p.length < 4294967296)
    (h : parseProgram p = .ok is) :
    Tiling is p ∧ (is.map (·.len)).sum = p.length ∧ ∀ i ∈ is, 1 ≤ i.len := by
  have hlen : p.length ≤ maxInt32 := by
    by_cases hl : p.length ≤ maxInt32
    · exact hl
    · rw [parseProgram_long p (by omega) hp] at h; cases h
  rw [parseProgram_eq p hlen] at h
  have ht := specProg_tiles _ _ _ _ h
  refine ⟨ht, ht.length_sum, ?_⟩
  clear h hlen hp
  induction ht with
  | nil => intro i hi; cases hi
  | cons he _ ih =>
    intro i hi
    cases hi with
    | head => exact he.pos
    | tail _ hm => exact ih i hm

example : parseProgram [0x00, 0x02, 0xaa, 0xbb, 0x51, 0x4c, 0x01, 0xcc] =
    .ok [⟨0x00, 1, []⟩, ⟨0x02, 3, [0xaa, 0xbb]⟩, ⟨0x51, 1, [0x01]⟩, ⟨0x4c, 3, [0xcc]⟩] := by decide

/-- **parse_total.** ParseProgram never panics and always terminates: the result is one of
    the three error values or a tiling instruction list.  (Every uint32 addition on the way
    is the guarded `checked.AddUint32`, or is bounded by a preceding guard.) -/
theorem parse_total (p : Bytes) (hp : p.length < 4294967296) :
    parseProgram p = .error .long ∨ parseProgram p = .error .short ∨ parseProgram p = .error .overflow ∨
    ∃ is, parseProgram p = .ok is ∧ Tiling is p := by
  by_cases hl : p.length ≤ maxInt32
  · cases h : parseProgram p with
    | ok is => exact Or.inr (Or.inr (Or.inr ⟨is, rfl, (parse_tiles p is hp h).1⟩))
    | error e =>
      have h' := h
      rw [parseProgram_eq p hl] at h'
      have := specProg_total _ _ _ _ (Nat.lt_succ_self _) h'
      cases e with
      | long => exact Or.inl rfl
      | short => exact Or.inr (Or.inl rfl)
      | overflow => exact Or.inr (Or.inr (Or.inl rfl))
      | panic => exact absurd rfl this.1
      | diverge => exact absurd rfl this.2
  · exact Or.inl (parseProgram_long p (by omega) hp)

/-- programs longer than MaxInt32 bytes are rejected with ErrLongProgram -/
theorem parse_rejects_long (p : Bytes) (h1 : maxInt32 < p.length) (h2 : p.length < 4294967296) :
    parseProgram p = .error .long := parseProgram_long p h1 h2

/-- the three error values do occur -/
example : parseProgram [0x4c] = .error .short := by decide
example : parseProgram [0x4e, 0xfb, 0xff, 0xff, 0xff] = .error .overflow := by decide
example : parseProgram [0x00, 0x4e, 0xfa, 0xff, 0xff, 0xff] = .error .overflow := by decide
example : parseProgram [0x4e, 0xfa, 0xff, 0xff, 0xff] = .error .short := by decide

/-- a single call of ParseOp (any program counter) never panics either -/
theorem parseOp_total (p : Bytes) (pc : Nat) (hp : p.length ≤ maxInt32) (e : PErr)
    (h : parseOp p pc = .error e) : e ≠ .panic ∧ e ≠ .diverge := by
  by_cases hpc : pc < p.length
  · have hsplit : p = p.take pc ++ p.drop pc := (List.take_append_drop pc p).symm
    have hl : (p.take pc).length = pc := by rw [List.length_take]; omega
    have hne : p.drop pc ≠ [] := by
      intro h0; have := congrArg List.length h0; rw [List.length_drop] at this; simp at this; omega
    have := parseOp_eq (p.take pc) (p.drop pc) (by rw [← hsplit]; exact hp) hne
    rw [← hsplit, hl] at this
    rw [this] at h
    exact specOp_total h
  · unfold parseOp at h
    have hu : u32 p.length = p.length := u32_id (by unfold maxInt32 at hp; omega)
    have c1 : ¬ (p.length > maxInt32) := by omega
    have c2 : pc ≥ p.length := by omega
    simp only [hu, c1, c2, if_false, if_true] at h
    injection h with h; subst h; simp

/-- **parse_append.** Parsing is compositional: when `a` and `b` both parse (and `a ++ b` is
    within the program size bound), `a ++ b` parses to the concatenation of their instruction
    lists — an instruction's decoding depends on nothing but its own bytes. -/
theorem parse_append (a b : Bytes) (ia ib : List Inst) (hlen : (a ++ b).length ≤ maxInt32)
    (ha : parseProgram a = .ok ia) (hb : parseProgram b = .ok ib) :
    parseProgram (a ++ b) = .ok (ia ++ ib) := parseProgram_append a b ia ib hlen ha hb

example : parseProgram ([0x76, 0xa9] ++ pushDataBytes [1, 2, 3]) =
    .ok ([⟨0x76, 1, []⟩, ⟨0xa9, 1, []⟩] ++ [⟨0x03, 4, [1, 2, 3]⟩]) :=
  parse_append _ _ _ _ (by decide) (by decide) (by decide)

/-! ## PushDataBytes output parses back to the data -/

/-- **pushData_parses.** For every data string (up to the int32 program bound) the output of
    PushDataBytes parses to exactly one instruction, carrying exactly the data, spanning the
    whole output; its opcode is the one of the length class. -/
theorem pushData_parses (d : Bytes) (hd : d.length + 5 ≤ maxInt32) :
    parseProgram (pushDataBytes d) = .ok [⟨pushOp d.length, (pushDataBytes d).length, d⟩] := by
  have hlen := pushDataBytes_length d
  have hh := (pushHdr_bounds d.length).2
  rw [parseProgram_eq _ (by rw [hlen]; omega)]
  have hs := specOp_pushData 0 d [] (by unfold maxInt32 at hd; omega)
  rw [List.append_nil] at hs
  have := @specProg_single ((pushDataBytes d).length - 1) 0 _ _ hs (by simp [hlen])
  have e : (pushDataBytes d).length - 1 + 2 = (pushDataBytes d).length + 1 := by
    have := (pushHdr_bounds d.length).1
    omega
  rw [e] at this
  rw [this, hlen]

/-- the five length classes, spelled out -/
theorem pushData_class_0 : pushDataBytes [] = [0x00] ∧ parseProgram (pushDataBytes []) = .ok [⟨0x00, 1, []⟩] := by
  decide
theorem pushData_class_1_75 (d : Bytes) (h : 1 ≤ d.length ∧ d.length ≤ 75) :
    parseProgram (pushDataBytes d) = .ok [⟨byte d.length, d.length + 1, d⟩] := by
  rw [pushData_parses d (by unfold maxInt32; omega), pushDataBytes_length]
  have h0 : ¬ d.length = 0 := by omega
  simp [pushOp, pushHdr, h.2, h0]
theorem pushData_class_76_255 (d : Bytes) (h : 76 ≤ d.length ∧ d.length ≤ 255) :
    parseProgram (pushDataBytes d) = .ok [⟨0x4c, d.length + 2, d⟩] := by
  rw [pushData_parses d (by unfold maxInt32; omega), pushDataBytes_length]
  have h0 : ¬ d.length = 0 := by omega
  have h1 : ¬ d.length ≤ 75 := by omega
  have h2 : d.length < 256 := by omega
  simp [pushOp, pushHdr, h0, h1, h2, Ops.OP_PUSHDATA1, byte]
theorem pushData_class_256_65535 (d : Bytes) (h : 256 ≤ d.length ∧ d.length ≤ 65535) :
    parseProgram (pushDataBytes d) = .ok [⟨0x4d, d.length + 3, d⟩] := by
  rw [pushData_parses d (by unfold maxInt32; omega), pushDataBytes_length]
  have h0 : ¬ d.length = 0 := by omega
  have h1 : ¬ d.length ≤ 75 := by omega
  have h2 : ¬ d.length < 256 := by omega
  have h3 : d.length < 65536 := by omega
  simp [pushOp, pushHdr, h0, h1, h2, h3, Ops.OP_PUSHDATA2, byte]
theorem pushData_class_65536_up (d : Bytes) (h : 65536 ≤ d.length ∧ d.length + 5 ≤ maxInt32) :
    parseProgram (pushDataBytes d) = .ok [⟨0x4e, d.length + 5, d⟩] := by
  rw [pushData_parses d h.2, pushDataBytes_length]
  have h0 : ¬ d.length = 0 := by omega
  have h1 : ¬ d.length ≤ 75 := by omega
  have h2 : ¬ d.length < 256 := by omega
  have h3 : ¬ d.length < 65536 := by omega
  simp [pushOp, pushHdr, h0, h1, h2, h3, Ops.OP_PUSHDATA4, byte]

example : parseProgram (pushDataBytes (List.replicate 76 0xab)) = .ok [⟨0x4c, 78, List.replicate 76 0xab⟩] :=
  pushData_class_76_255 _ (by decide)

/-! ## Builders and recognisers agree -/

theorem p2w_eq (h : Bytes) : p2wpkhProgram h = byte 0 :: (pushDataBytes h ++ []) := by
  simp [p2wpkhProgram, pushDataUint64, Ops.OP_0]

/-- what the P2WPKH / P2WSH builder output parses to -/
theorem parse_p2w (h : Bytes) (hh : h.length + 6 ≤ maxInt32) :
    parseProgram (p2wpkhProgram h) =
      .ok [⟨0x00, 1, []⟩, ⟨pushOp h.length, h.length + pushHdr h.length, h⟩] := by
  have hb := pushHdr_bounds h.length
  have hl : (p2wpkhProgram h).length = 1 + (h.length + pushHdr h.length) := by
    rw [p2w_eq]; simp [pushDataBytes_length]; omega
  apply parseProgram_of_spec (fuel := 3) (by rw [hl]; omega) (by rw [hl]; omega)
  rw [p2w_eq, specProg_plain _ (by decide), specProg_push h [] (by unfold maxInt32 at hh; omega), specProg_nil]
  rfl

theorem p2wsh_eq_p2wpkh (h : Bytes) : p2wshProgram h = p2wpkhProgram h := rfl

/-- **builders_recognised (1).** `IsP2WPKHScript(P2WPKHProgram(h))` iff `h` has 20 bytes -/
theorem p2wpkh_recognised (h : Bytes) (hh : h.length + 6 ≤ maxInt32) :
    isP2WPKHScript (p2wpkhProgram h) = true ↔ h.length = 20 := by
  unfold isP2WPKHScript
  rw [parse_p2w h hh]
  simp only [opIs, pushOp_toNat, Ops.OP_0, Ops.OP_DATA_20, Ops.PayToWitnessPubKeyHashDataSize]
  constructor
  · intro hx; simp at hx; exact hx.2
  · intro hx; simp [hx]

/-- **builders_recognised (2).** `IsP2WSHScript(P2WSHProgram(h))` iff `h` has 32 bytes -/
theorem p2wsh_recognised (h : Bytes) (hh : h.length + 6 ≤ maxInt32) :
    isP2WSHScript (p2wshProgram h) = true ↔ h.length = 32 := by
  unfold isP2WSHScript
  rw [p2wsh_eq_p2wpkh, parse_p2w h hh]
  simp only [opIs, pushOp_toNat, Ops.OP_0, Ops.OP_DATA_32, Ops.PayToWitnessScriptHashDataSize]
  constructor
  · intro hx; simp at hx; exact hx.2
  · intro hx; simp [hx]

theorem register_eq (c : Bytes) :
    registerProgram c = byte 0x6a :: (pushDataBytes Ops.bcrpTag ++ (pushDataBytes [byte Ops.bcrpVersion] ++ (pushDataBytes c ++ []))) := by
  simp [registerProgram, Ops.OP_FAIL]

/-- what the BCRP registration builder output parses to -/
theorem parse_register (c : Bytes) (hc : c.length + 14 ≤ maxInt32) :
    parseProgram (registerProgram c) =
      .ok [⟨0x6a, 1, []⟩, ⟨0x04, 5, Ops.bcrpTag⟩, ⟨0x01, 2, [byte Ops.bcrpVersion]⟩,
           ⟨pushOp c.length, c.length + pushHdr c.length, c⟩] := by
  have hb := pushHdr_bounds c.length
  have hl : (registerProgram c).length = 8 + (c.length + pushHdr c.length) := by
    rw [register_eq]; simp [pushDataBytes_length, Ops.bcrpTag, pushHdr]; omega
  apply parseProgram_of_spec (fuel := 5) (by rw [hl]; omega) (by rw [hl]; omega)
  unfold maxInt32 at hc
  rw [register_eq, specProg_plain _ (by decide), specProg_push _ _ (by simp [Ops.bcrpTag]),
    specProg_push _ _ (by simp [Ops.bcrpTag, pushHdr]),
    specProg_push c [] (by simp [Ops.bcrpTag, pushHdr]; omega), specProg_nil]
  rfl

/-- **builders_recognised (3).** `IsBCRPScript(RegisterProgram(c))` iff the contract is not
    empty, and `ParseContract` returns the contract -/
theorem register_recognised (c : Bytes) (hc : c.length + 14 ≤ maxInt32) :
    (isBCRPScript (registerProgram c) = true ↔ c ≠ []) ∧ parseContract (registerProgram c) = .ok c := by
  unfold isBCRPScript parseContract
  rw [parse_register c hc]
  refine ⟨?_, rfl⟩
  have e1 : opIs ⟨0x6a, 1, []⟩ Ops.OP_FAIL = true := by decide
  have e2 : opIs ⟨0x04, 5, Ops.bcrpTag⟩ Ops.OP_DATA_4 = true := by decide
  have e3 : opIs ⟨0x01, 2, [byte Ops.bcrpVersion]⟩ Ops.OP_DATA_1 = true := by decide
  simp only [e1, e2, e3]
  cases c with
  | nil => simp
  | cons x t => simp

theorem call_eq (h : Bytes) : callContractProgram h = pushDataBytes Ops.bcrpTag ++ (pushDataBytes h ++ []) := by
  simp [callContractProgram]

/-- what the contract-call builder output parses to -/
theorem parse_call (h : Bytes) (hh : h.length + 11 ≤ maxInt32) :
    parseProgram (callContractProgram h) =
      .ok [⟨0x04, 5, Ops.bcrpTag⟩, ⟨pushOp h.length, h.length + pushHdr h.length, h⟩] := by
  have hb := pushHdr_bounds h.length
  have hl : (callContractProgram h).length = 5 + (h.length + pushHdr h.length) := by
    rw [call_eq]; simp [pushDataBytes_length, Ops.bcrpTag, pushHdr] <;> omega
  apply parseProgram_of_spec (fuel := 3) (by rw [hl]; omega) (by rw [hl]; omega)
  unfold maxInt32 at hh
  rw [call_eq, specProg_push _ _ (by simp [Ops.bcrpTag]),
    specProg_push h [] (by simp [Ops.bcrpTag, pushHdr] <;> omega), specProg_nil]
  rfl

/-- **builders_recognised (4).** `IsCallContractScript(CallContractProgram(h))` iff `h` has
    32 bytes; then `ParseContractHash` returns `h` -/
theorem call_recognised (h : Bytes) (hh : h.length + 11 ≤ maxInt32) :
    (isCallContractScript (callContractProgram h) = true ↔ h.length = 32) ∧
    (h.length = 32 → parseContractHash (callContractProgram h) = .ok h) := by
  unfold isCallContractScript parseContractHash
  rw [parse_call h hh]
  have e1 : (!opIs ⟨0x04, 5, Ops.bcrpTag⟩ Ops.OP_DATA_4 || (⟨0x04, 5, Ops.bcrpTag⟩ : Inst).data != Ops.bcrpTag) = false := by
    decide
  simp only [e1]
  simp only [opIs, pushOp_toNat, Ops.OP_DATA_32, Ops.BCRPContractHashDataSize]
  refine ⟨⟨?_, ?_⟩, ?_⟩
  · intro hx; simp at hx; exact hx.2
  · intro hx; simp [hx]
  · intro hx
    have : (h ++ List.replicate 32 (0 : UInt8)).take 32 = h := by
      rw [List.take_append_of_le_length (by omega), List.take_of_length_le (by omega)]
    rw [this]

example : isP2WPKHScript (p2wpkhProgram (List.replicate 20 7)) = true :=
  (p2wpkh_recognised _ (by decide)).mpr (by decide)
example : isBCRPScript (registerProgram [0x51]) = true ∧ isBCRPScript (registerProgram []) = false := by decide

/-! ### conversely: what the segwit recognisers accept is exactly what the builders produce -/

theorem specOp_op {pc : Nat} {b : UInt8} {t : Bytes} {i : Inst} (h : specOp pc (b :: t) = .ok i) : i.op = b := by
  obtain ⟨_, henc⟩ := specOp_ok h
  have hh := henc.head
  have hpos := henc.pos
  cases hl : i.len with
  | zero => omega
  | succ k => rw [hl] at hh; simpa using hh.symm

theorem specProg_ok_nil {fuel pc : Nat} {s : Bytes} (h : specProg fuel pc s = .ok []) : s = [] := by
  cases fuel with
  | zero => simp [specProg] at h
  | succ f =>
    cases s with
    | nil => rfl
    | cons b t =>
      unfold specProg at h
      simp only [] at h
      cases hsp : specOp pc (b :: t) with
      | error e => rw [hsp] at h; cases h
      | ok i =>
        rw [hsp] at h
        simp only [] at h
        cases hrec : specProg f (pc + i.len) ((b :: t).drop i.len) with
        | error e => rw [hrec] at h; cases h
        | ok rest => rw [hrec] at h; cases h

/-- a program that parses to `OP_0, DATA_n` (1 ≤ n ≤ 75) is `00 n <n bytes>` and nothing else -/
theorem p2w_shape (p : Bytes) (n : Nat) (hn : 1 ≤ n ∧ n ≤ 75) (hp : p.length < 4294967296)
    (i0 i1 : Inst) (hparse : parseProgram p = .ok [i0, i1]) (h0 : i0.op.toNat = 0) (h1 : i1.op.toNat = n) :
    ∃ h : Bytes, h.length = n ∧ i1.data = h ∧ p = 0x00 :: byte n :: h := by
  have hlen : p.length ≤ maxInt32 := by
    by_cases hl : p.length ≤ maxInt32
    · exact hl
    · rw [parseProgram_long p (by omega) hp] at hparse; cases hparse
  rw [parseProgram_eq p hlen] at hparse
  cases p with
  | nil => simp [specProg] at hparse
  | cons b t =>
    unfold specProg at hparse
    simp only [] at hparse
    cases hsp : specOp 0 (b :: t) with
    | error e => rw [hsp] at hparse; cases hparse
    | ok j0 =>
      rw [hsp] at hparse
      simp only [] at hparse
      cases hrec : specProg (t.length + 1) (0 + j0.len) ((b :: t).drop j0.len) with
      | error e => simp only [List.length_cons] at hparse; rw [hrec] at hparse; cases hparse
      | ok rest =>
        simp only [List.length_cons] at hparse
        rw [hrec] at hparse
        injection hparse with hparse
        injection hparse with e0 erest
        subst e0 erest
        have hb : b = 0 := by
          have := specOp_op hsp
          rw [this] at h0
          exact UInt8.toNat_inj.mp (by simpa using h0)
        subst hb
        have hj0 : j0 = ⟨0, 1, []⟩ := by
          have := @specOp_plain 0 0 t (by decide)
          rw [this] at hsp; injection hsp with hsp; exact hsp.symm
        subst hj0
        simp only [List.drop_succ_cons, List.drop_zero, Nat.zero_add] at hrec
        cases t with
        | nil => simp [specProg] at hrec
        | cons c u =>
          unfold specProg at hrec
          simp only [] at hrec
          cases hsp1 : specOp 1 (c :: u) with
          | error e => rw [hsp1] at hrec; cases hrec
          | ok j1 =>
            rw [hsp1] at hrec
            simp only [] at hrec
            cases hrec2 : specProg (u.length + 1) (1 + j1.len) ((c :: u).drop j1.len) with
            | error e => simp only [List.length_cons] at hrec; rw [hrec2] at hrec; cases hrec
            | ok rest2 =>
              simp only [List.length_cons] at hrec
              rw [hrec2] at hrec
              injection hrec with hrec
              injection hrec with e1 erest2
              subst e1 erest2
              have hc : c.toNat = n := by rw [← specOp_op hsp1]; exact h1
              have hcb : c = byte n := by
                apply UInt8.toNat_inj.mp; rw [hc, byte_toNat (by omega)]
              -- the DATA_n branch
              unfold specOp at hsp1
              have c1 : ¬ (Ops.OP_1 ≤ c.toNat ∧ c.toNat ≤ Ops.OP_16) := by simp only [Ops.OP_1]; omega
              have c2 : Ops.OP_DATA_1 ≤ c.toNat ∧ c.toNat ≤ Ops.OP_DATA_75 := by
                simp only [Ops.OP_DATA_1, Ops.OP_DATA_75]; omega
              simp only [c1, if_false, c2, and_self, if_true] at hsp1
              obtain ⟨hfit, rfl⟩ := specData_ok hsp1
              simp only [] at hrec2
              have hnil := specProg_ok_nil hrec2
              have hul : u.length = c.toNat := by
                have := congrArg List.length hnil
                simp only [List.length_drop, List.length_cons, List.length_nil] at this
                omega
              refine ⟨u, by omega, ?_, ?_⟩
              · simp only []; exact List.take_of_length_le (by omega)
              · rw [hcb]

/-- **builders_recognised, converse (1).** Every program IsP2WPKHScript accepts is
    `P2WPKHProgram(h)` for the 20-byte `h` that GetHashFromStandardProg returns -/
theorem p2wpkh_accepts_only_built (p : Bytes) (hp : p.length < 4294967296)
    (h : isP2WPKHScript p = true) :
    ∃ hash : Bytes, hash.length = 20 ∧ p = p2wpkhProgram hash ∧ getHashFromStandardProg p = .ok hash := by
  unfold isP2WPKHScript at h
  cases hpar : parseProgram p with
  | error e => rw [hpar] at h; simp at h
  | ok is =>
    rw [hpar] at h
    match is, h, hpar with
    | [i0, i1], h, hpar =>
      simp only [opIs, Ops.OP_0, Ops.OP_DATA_20] at h
      have h0 : i0.op.toNat = 0 := by
        by_cases hx : i0.op.toNat = 0
        · exact hx
        · simp [hx] at h
      have h1 : i1.op.toNat = 20 := by simp [h0] at h; exact h.1
      obtain ⟨hash, hl, hd, rfl⟩ := p2w_shape p 20 (by omega) hp i0 i1 hpar h0 h1
      refine ⟨hash, hl, ?_, ?_⟩
      · rw [p2w_eq]
        have : pushDataBytes hash = byte 20 :: hash := by
          simp [pushDataBytes, hl, u8, Ops.OP_DATA_1]
        simp [this, byte]
      · unfold getHashFromStandardProg
        rw [hpar]; simp [hd]

/-- **builders_recognised, converse (2).** Every program IsP2WSHScript accepts is
    `P2WSHProgram(h)` for the 32-byte `h` that GetHashFromStandardProg returns -/
theorem p2wsh_accepts_only_built (p : Bytes) (hp : p.length < 4294967296)
    (h : isP2WSHScript p = true) :
    ∃ hash : Bytes, hash.length = 32 ∧ p = p2wshProgram hash ∧ getHashFromStandardProg p = .ok hash := by
  unfold isP2WSHScript at h
  cases hpar : parseProgram p with
  | error e => rw [hpar] at h; simp at h
  | ok is =>
    rw [hpar] at h
    match is, h, hpar with
    | [i0, i1], h, hpar =>
      simp only [opIs, Ops.OP_0, Ops.OP_DATA_32] at h
      have h0 : i0.op.toNat = 0 := by
        by_cases hx : i0.op.toNat = 0
        · exact hx
        · simp [hx] at h
      have h1 : i1.op.toNat = 32 := by simp [h0] at h; exact h.1
      obtain ⟨hash, hl, hd, rfl⟩ := p2w_shape p 32 (by omega) hp i0 i1 hpar h0 h1
      refine ⟨hash, hl, ?_, ?_⟩
      · rw [p2wsh_eq_p2wpkh, p2w_eq]
        have : pushDataBytes hash = byte 32 :: hash := by
          simp [pushDataBytes, hl, u8, Ops.OP_DATA_1]
        simp [this, byte]
      · unfold getHashFromStandardProg
        rw [hpar]; simp [hd]

/-- (C02 groundwork) on a program `IsP2WPKHScript` accepts, `ConvertP2PKHSigProgram` does not
    panic and returns `P2PKHSigProgram` of the committed hash:
    `validation.convertProgram(P2WPKHProgram(h)) = DUP HASH160 <h> EQUALVERIFY TXSIGHASH SWAP CHECKSIG` -/
theorem convert_p2wpkh (p : Bytes) (hp : p.length < 4294967296) (h : isP2WPKHScript p = true) :
    ∃ hash : Bytes, hash.length = 20 ∧ p = p2wpkhProgram hash ∧
      BytomModel.StdProgs.convertP2PKHSigProgram p = .ok (BytomModel.StdProgs.p2pkhSigProgram hash) := by
  obtain ⟨hash, hl, hpe, hget⟩ := p2wpkh_accepts_only_built p hp h
  refine ⟨hash, hl, hpe, ?_⟩
  have hpar := parse_p2w hash (by unfold maxInt32; omega)
  rw [← hpe] at hpar
  unfold BytomModel.StdProgs.convertP2PKHSigProgram BytomModel.StdProgs.convertWith
  rw [hpar]
  simp [opIs, Ops.OP_0]

/-- (C02 groundwork) the same for pay-to-script-hash -/
theorem convert_p2wsh (p : Bytes) (hp : p.length < 4294967296) (h : isP2WSHScript p = true) :
    ∃ hash : Bytes, hash.length = 32 ∧ p = p2wshProgram hash ∧
      BytomModel.StdProgs.convertP2SHProgram p = .ok (BytomModel.StdProgs.p2shProgram hash) := by
  obtain ⟨hash, hl, hpe, hget⟩ := p2wsh_accepts_only_built p hp h
  refine ⟨hash, hl, hpe, ?_⟩
  have hpar := parse_p2w hash (by unfold maxInt32; omega)
  rw [← p2wsh_eq_p2wpkh, ← hpe] at hpar
  unfold BytomModel.StdProgs.convertP2SHProgram BytomModel.StdProgs.convertWith
  rw [hpar]
  simp [opIs, Ops.OP_0]

/-! ### parsing is injective; the remaining recognisers against their builders -/

/-- **parse_injective.** The instruction list determines the program: `p` is the concatenation
    of `instBytes i` (opcode, the length field its opcode demands, data) over its instructions.
    Two programs with the same successful parse are the same byte string. -/
theorem parse_injective (p : Bytes) (is : List Inst) (hp : p.length < 4294967296)
    (h : parseProgram p = .ok is) : p = (is.map instBytes).flatten := by
  have hlen : p.length ≤ maxInt32 := by
    by_cases hl : p.length ≤ maxInt32
    · exact hl
    · rw [parseProgram_long p (by omega) hp] at h; cases h
  rw [parseProgram_eq p hlen] at h
  exact specProg_bytes _ _ _ _ h

theorem parse_eq_imp_eq (p q : Bytes) (is : List Inst) (hp : p.length < 4294967296) (hq : q.length < 4294967296)
    (h1 : parseProgram p = .ok is) (h2 : parseProgram q = .ok is) : p = q := by
  rw [parse_injective p is hp h1, parse_injective q is hq h2]

/-- every instruction of a successful parse is the result of decoding some suffix -/
theorem parse_mem_spec (p : Bytes) (is : List Inst) (hp : p.length < 4294967296)
    (h : parseProgram p = .ok is) : ∀ i ∈ is, ∃ pc s, specOp pc s = .ok i := by
  have hlen : p.length ≤ maxInt32 := by
    by_cases hl : p.length ≤ maxInt32
    · exact hl
    · rw [parseProgram_long p (by omega) hp] at h; cases h
  rw [parseProgram_eq p hlen] at h
  exact specProg_mem _ _ _ _ h

theorem instBytes_congr (i : Inst) (op : UInt8) (d : Bytes) (h1 : i.op = op) (h2 : i.data = d) :
    instBytes i = instBytes ⟨op, 0, d⟩ := by
  cases i; simp only at h1 h2; subst h1 h2; rfl

theorem op_eq_of_toNat {i : Inst} {n : Nat} (hn : n < 256) (h : (i.op.toNat == n) = true) : i.op = byte n := by
  apply UInt8.toNat_inj.mp
  rw [byte_toNat hn]; simpa using h

/-- **builders_recognised, converse (3).** Every program IsCallContractScript accepts is
    `CallContractProgram(h)` for the 32-byte hash ParseContractHash returns -/
theorem call_accepts_only_built (p : Bytes) (hp : p.length < 4294967296)
    (h : isCallContractScript p = true) :
    ∃ hash : Bytes, hash.length = 32 ∧ parseContractHash p = .ok hash ∧ p = callContractProgram hash := by
  unfold isCallContractScript at h
  cases hpar : parseProgram p with
  | error e => rw [hpar] at h; simp at h
  | ok is =>
    rw [hpar] at h
    match is, h, hpar with
    | [i0, i1], h, hpar =>
      simp only [] at h
      by_cases hc : (!opIs i0 Ops.OP_DATA_4 || i0.data != Ops.bcrpTag) = true
      · simp [hc] at h
      simp only [hc] at h
      simp only [Bool.or_eq_true, Bool.not_eq_true', bne_iff_ne, ne_eq, not_or, Bool.not_eq_false, Decidable.not_not] at hc
      simp only [Bool.false_eq_true, if_false, Bool.and_eq_true, beq_iff_eq, Ops.BCRPContractHashDataSize] at h
      have ho0 := op_eq_of_toNat (n := Ops.OP_DATA_4) (by decide) hc.1
      have ho1 := op_eq_of_toNat (n := Ops.OP_DATA_32) (by decide) h.1
      have hinj := parse_injective p _ hp hpar
      simp only [List.map_cons, List.map_nil, List.flatten_cons, List.flatten_nil, List.append_nil] at hinj
      rw [instBytes_congr i0 _ _ ho0 hc.2, instBytes_congr i1 _ _ ho1 rfl] at hinj
      refine ⟨i1.data, h.2, ?_, ?_⟩
      · unfold parseContractHash
        rw [hpar]
        simp only []
        rw [List.take_append_of_le_length (by omega), List.take_of_length_le (by omega)]
      · rw [hinj, call_eq]
        have e1 : pushDataBytes Ops.bcrpTag = instBytes ⟨byte Ops.OP_DATA_4, 0, Ops.bcrpTag⟩ := by decide
        have e2 : pushDataBytes i1.data = instBytes ⟨byte Ops.OP_DATA_32, 0, i1.data⟩ := by
          have : i1.data.length = 32 := h.2
          simp [pushDataBytes, this, instBytes, IsSmallInt, byte, u8, Ops.OP_DATA_1, Ops.OP_DATA_32, Ops.OP_1,
            Ops.OP_16, Ops.OP_PUSHDATA1, Ops.OP_PUSHDATA2, Ops.OP_PUSHDATA4]
        rw [e1, e2, List.append_nil]

/-- **builders_recognised, converse (4).** IsStraightforward accepts exactly the two one-byte
    programs `DefaultCoinbaseProgram()` = OP_TRUE and `RetireProgram(nil)` = OP_FAIL -/
theorem straightforward_accepts_only_built (p : Bytes) (hp : p.length < 4294967296)
    (h : isStraightforward p = true) : p = defaultCoinbaseProgram ∨ p = retireProgram [] := by
  unfold isStraightforward at h
  cases hpar : parseProgram p with
  | error e => rw [hpar] at h; simp at h
  | ok is =>
    rw [hpar] at h
    match is, h, hpar with
    | [i], h, hpar =>
      simp only [Bool.or_eq_true] at h
      have hinj := parse_injective p _ hp hpar
      simp only [List.map_cons, List.map_nil, List.flatten_cons, List.flatten_nil, List.append_nil] at hinj
      obtain ⟨pc, s, hs⟩ := parse_mem_spec p _ hp hpar i (by simp)
      rcases h with h | h
      · left
        have ho := op_eq_of_toNat (n := Ops.OP_TRUE) (by decide) h
        rw [hinj]
        have : IsSmallInt i.op := by rw [ho]; decide
        simp only [instBytes, this, if_true, ho]
        rfl
      · right
        have ho := op_eq_of_toNat (n := Ops.OP_FAIL) (by decide) h
        have hpl : IsPlain i.op := by rw [ho]; decide
        obtain ⟨hd, _⟩ := specOp_plain_inv hs hpl
        rw [hinj, instBytes_congr i _ _ ho hd]
        decide

/-- The converse for BCRP registration as one would state it: whatever IsBCRPScript accepts is
    `RegisterProgram` of the contract ParseContract extracts. -/
def bcrp_accepts_only_built_full : Prop :=
  ∀ p : Bytes, p.length < 4294967296 → isBCRPScript p = true →
    ∃ c, parseContract p = .ok c ∧ p = registerProgram c

/-- witness: `FAIL "bcrp" 01 OP_14` — the fourth instruction is not a PushDataBytes push -/
def bcrpWitness : Bytes := [0x6a, 0x04, 0x62, 0x63, 0x72, 0x70, 0x01, 0x01, 0x5e]

theorem bcrp_witness_facts :
    isBCRPScript bcrpWitness = true ∧ parseContract bcrpWitness = .ok [0x0e] ∧
    registerProgram [0x0e] ≠ bcrpWitness := by decide

/-- non-minimal pushes and even a JUMP (its 4 address bytes are the "contract") are accepted too -/
theorem bcrp_other_witnesses :
    isBCRPScript [0x6a, 0x04, 0x62, 0x63, 0x72, 0x70, 0x01, 0x01, 0x4c, 0x01, 0x0e] = true ∧
    isBCRPScript [0x6a, 0x04, 0x62, 0x63, 0x72, 0x70, 0x01, 0x01, 0x4d, 0x01, 0x00, 0x0e] = true ∧
    isBCRPScript [0x6a, 0x04, 0x62, 0x63, 0x72, 0x70, 0x01, 0x01, 0x4e, 0x01, 0x00, 0x00, 0x00, 0x0e] = true ∧
    isBCRPScript [0x6a, 0x04, 0x62, 0x63, 0x72, 0x70, 0x01, 0x01, 0x63, 0x3d, 0x47, 0xf2, 0xcf] = true := by decide

/-- **refuted**: IsBCRPScript accepts programs RegisterProgram never produces -/
theorem bcrp_accepts_only_built_full_refuted : ¬ bcrp_accepts_only_built_full := by
  intro h
  obtain ⟨c, hc, hp⟩ := h bcrpWitness (by decide) bcrp_witness_facts.1
  rw [bcrp_witness_facts.2.1] at hc
  injection hc with hc
  subst hc
  exact bcrp_witness_facts.2.2 hp.symm

/-- **partial**: what IsBCRPScript accepts has the first three instructions exactly as
    RegisterProgram emits them, ParseContract returns the data of the fourth, and if the fourth
    instruction's opcode is the one PushDataBytes chooses for that data length then the program
    is `RegisterProgram(contract)` byte for byte. -/
theorem bcrp_accepts_only_built_partial (p : Bytes) (hp : p.length < 4294967296)
    (h : isBCRPScript p = true) :
    ∃ i3 : Inst, parseContract p = .ok i3.data ∧ i3.data ≠ [] ∧
      p = [0x6a, 0x04, 0x62, 0x63, 0x72, 0x70, 0x01, 0x01] ++ instBytes i3 ∧
      (i3.op = pushOp i3.data.length → p = registerProgram i3.data) := by
  unfold isBCRPScript at h
  cases hpar : parseProgram p with
  | error e => rw [hpar] at h; simp at h
  | ok is =>
    rw [hpar] at h
    match is, h, hpar with
    | [i0, i1, i2, i3], h, hpar =>
      simp only [] at h
      by_cases c0 : (!opIs i0 Ops.OP_FAIL) = true
      · simp [c0] at h
      simp only [c0, Bool.false_eq_true, if_false] at h
      by_cases c1 : (!opIs i1 Ops.OP_DATA_4 || i1.data != Ops.bcrpTag) = true
      · simp [c1] at h
      simp only [c1, Bool.false_eq_true, if_false] at h
      by_cases c2 : (!opIs i2 Ops.OP_DATA_1 || i2.data != [byte Ops.bcrpVersion]) = true
      · simp [c2] at h
      simp only [c2, Bool.false_eq_true, if_false, decide_eq_true_eq] at h
      simp only [Bool.not_eq_true', Bool.not_eq_false] at c0
      simp only [Bool.or_eq_true, Bool.not_eq_true', bne_iff_ne, ne_eq, not_or, Bool.not_eq_false, Decidable.not_not] at c1 c2
      have ho0 := op_eq_of_toNat (n := Ops.OP_FAIL) (by decide) c0
      have ho1 := op_eq_of_toNat (n := Ops.OP_DATA_4) (by decide) c1.1
      have ho2 := op_eq_of_toNat (n := Ops.OP_DATA_1) (by decide) c2.1
      obtain ⟨pc, s, hs⟩ := parse_mem_spec p _ hp hpar i0 (by simp)
      have hpl : IsPlain i0.op := by rw [ho0]; decide
      obtain ⟨hd0, _⟩ := specOp_plain_inv hs hpl
      have hinj := parse_injective p _ hp hpar
      simp only [List.map_cons, List.map_nil, List.flatten_cons, List.flatten_nil, List.append_nil] at hinj
      rw [instBytes_congr i0 _ _ ho0 hd0, instBytes_congr i1 _ _ ho1 c1.2, instBytes_congr i2 _ _ ho2 c2.2] at hinj
      have hpre : instBytes ⟨byte Ops.OP_FAIL, 0, []⟩ ++ (instBytes ⟨byte Ops.OP_DATA_4, 0, Ops.bcrpTag⟩ ++
          (instBytes ⟨byte Ops.OP_DATA_1, 0, [byte Ops.bcrpVersion]⟩ ++ instBytes i3)) =
          [0x6a, 0x04, 0x62, 0x63, 0x72, 0x70, 0x01, 0x01] ++ instBytes i3 := by
        have e0 : instBytes ⟨byte Ops.OP_FAIL, 0, []⟩ = [0x6a] := by decide
        have e1 : instBytes ⟨byte Ops.OP_DATA_4, 0, Ops.bcrpTag⟩ = [0x04, 0x62, 0x63, 0x72, 0x70] := by decide
        have e2 : instBytes ⟨byte Ops.OP_DATA_1, 0, [byte Ops.bcrpVersion]⟩ = [0x01, 0x01] := by decide
        rw [e0, e1, e2]; rfl
      rw [hpre] at hinj
      have hne : i3.data ≠ [] := by
        intro h0; rw [h0] at h; simp at h
      refine ⟨i3, ?_, hne, hinj, ?_⟩
      · unfold parseContract; rw [hpar]
      · intro hop
        have hdl : i3.data.length < 4294967296 := by
          have hh := congrArg List.length hinj
          have : i3.data.length ≤ (instBytes i3).length := by
            unfold instBytes
            split
            · -- OP_1..16 cannot be a PushDataBytes opcode of non-empty data … but bound it anyway
              rename_i hs
              have hn := pushOp_toNat i3.data.length
              rw [← hop] at hn
              unfold IsSmallInt at hs
              simp only [Ops.OP_1, Ops.OP_16] at hs
              split at hn
              · omega
              · split at hn
                · simp; omega
                · split at hn <;> (try split at hn) <;> omega
            · split <;> (try split) <;> (try split) <;> simp [le32Bytes] <;> omega
          simp only [List.length_append] at hh
          omega
        rw [instBytes_canonical i3 (by omega) hdl hop] at hinj
        rw [hinj, register_eq]
        have e1 : pushDataBytes Ops.bcrpTag = [0x04, 0x62, 0x63, 0x72, 0x70] := by decide
        have e2 : pushDataBytes [byte Ops.bcrpVersion] = [0x01, 0x01] := by decide
        rw [e1, e2]
        simp [byte]

/-- **mutual exclusion.** On ANY byte string at most one of the five recognisers answers
    true (IsP2WScript is by definition the union of the first three). -/
theorem recognisers_exclusive (p : Bytes) :
    (isP2WPKHScript p = true → isP2WSHScript p = false ∧ isStraightforward p = false ∧ isBCRPScript p = false ∧ isCallContractScript p = false) ∧
    (isP2WSHScript p = true → isStraightforward p = false ∧ isBCRPScript p = false ∧ isCallContractScript p = false) ∧
    (isStraightforward p = true → isBCRPScript p = false ∧ isCallContractScript p = false) ∧
    (isBCRPScript p = true → isCallContractScript p = false) := by
  unfold isP2WPKHScript isP2WSHScript isStraightforward isBCRPScript isCallContractScript
  cases parseProgram p with
  | error e => simp
  | ok is =>
    match is with
    | [] => simp
    | [i] => simp
    | [i0, i1] =>
      simp only [opIs, Ops.OP_0, Ops.OP_DATA_20, Ops.OP_DATA_32, Ops.OP_DATA_4]
      by_cases h0 : i0.op.toNat = 0
      · simp [h0]
        intro h1; simp [h1]
      · simp [h0]
    | [i0, i1, i2] => simp
    | i0 :: i1 :: i2 :: i3 :: [] => simp
    | i0 :: i1 :: i2 :: i3 :: i4 :: r => simp

theorem p2wscript_is_union (p : Bytes) :
    isP2WScript p = (isP2WPKHScript p || isP2WSHScript p || isStraightforward p) := rfl

/-! ## The assemble–disassemble round trip -/

/-- `Assemble(Disassemble(p))`, when `Disassemble` succeeds -/
def asmDis (p : Bytes) : Option (Except AErr Bytes) :=
  match disassemble p with
  | .ok t => some (assemble t)
  | .error _ => none

/-- The property as stated: disassembling a parsable program and assembling the text gives a
    program that parses to the same instruction sequence. -/
def asm_disasm_full : Prop :=
  ∀ p : Bytes, p.length < 4294967296 → ∀ t, disassemble p = .ok t →
    ∃ q, assemble t = .ok q ∧ parseProgram q = parseProgram p

/-- F6a: `JUMP 1` — the target is inside the instruction, so its label is never defined -/
def f6Witness : Bytes := [0x63, 0x01, 0x00, 0x00, 0x00]

theorem f6a_jump_off_boundary : asmDis f6Witness = some (.error .undef) := by decide
/-- F6a': a jump past the end (target 6 in a 5-byte program) -/
theorem f6a_jump_past_end : asmDis [0x63, 0x06, 0x00, 0x00, 0x00] = some (.error .undef) := by decide
/-- F6b: OP_1 comes back as DATA_1 0x01 (same data, different instruction) -/
theorem f6b_small_int_reencoded :
    asmDis [0x51] = some (.ok [0x01, 0x01]) ∧ parseProgram [0x01, 0x01] ≠ parseProgram [0x51] := by decide
/-- F6b': a non-minimal push comes back minimal -/
theorem f6b_nonminimal_push_reencoded :
    asmDis [0x4c, 0x01, 0x61] = some (.ok [0x01, 0x61]) ∧ parseProgram [0x01, 0x61] ≠ parseProgram [0x4c, 0x01, 0x61] := by
  decide
/-- F6c: an empty PUSHDATA1 prints as the opcode name, which the assembler refuses -/
theorem f6c_empty_pushdata : asmDis [0x4c, 0x00] = some (.error .token) := by decide
/-- F6d: an unassigned opcode prints as NOPx50, which `opsByName` does not contain -/
theorem f6d_expansion_opcode : asmDis [0x50] = some (.error .token) := by decide

/-- **asm_disasm, full statement: refuted** by the witness `63 01 00 00 00` -/
theorem asm_disasm_full_refuted : ¬ asm_disasm_full := by
  intro h
  have hd : disassemble f6Witness = .ok [0x4a, 0x55, 0x4d, 0x50, 0x3a, 0x24, 0x61, 0x6c, 0x70, 0x68, 0x61] := by decide
  obtain ⟨q, hq, _⟩ := h f6Witness (by decide) _ hd
  have : assemble [0x4a, 0x55, 0x4d, 0x50, 0x3a, 0x24, 0x61, 0x6c, 0x70, 0x68, 0x61] = .error .undef := by decide
  rw [this] at hq
  cases hq

/-- the same statement weakened to "Assemble succeeds" is refuted as well -/
theorem asm_disasm_succeeds_refuted :
    ¬ (∀ p : Bytes, p.length < 4294967296 → ∀ t, disassemble p = .ok t → ∃ q, assemble t = .ok q) := by
  intro h
  have hd : disassemble [0x50] = .ok [0x4e, 0x4f, 0x50, 0x78, 0x35, 0x30] := by decide
  obtain ⟨q, hq⟩ := h [0x50] (by decide) _ hd
  have : assemble [0x4e, 0x4f, 0x50, 0x78, 0x35, 0x30] = .error .token := by decide
  rw [this] at hq
  cases hq


/-! ### the part of the round trip that does hold -/

/-- which opcodes the assembler can read back from their printed name: exactly the assigned
    (non-expansion) ones other than PUSHDATA1/2/4 and JUMP/JUMPIF -/
theorem nameable_iff : ∀ n, n < 256 →
    Nameable (UInt8.ofNat n) =
      (!(Ops.isExpansion.getD n true) && n != Ops.OP_PUSHDATA1 && n != Ops.OP_PUSHDATA2 && n != Ops.OP_PUSHDATA4 &&
        n != Ops.OP_JUMP && n != Ops.OP_JUMPIF) := by
  decide +kernel

/-- **asm_disasm_partial.** For a parsable program without JUMP/JUMPIF in which every
    data-less instruction is an opcode the assembler knows by name (no expansion opcode, no
    empty PUSHDATA1/2/4) and every push is shorter than 32767 bytes:
    Disassemble succeeds with the text `joinSp (is.map textOf)`, Assemble of that text
    succeeds, and the assembled program parses to the same instruction sequence modulo push
    canonicalisation — instruction by instruction the same opcode for data-less instructions,
    and for data-carrying ones the minimal push of the same data (`canonInst`). -/
theorem asm_disasm_partial (p : Bytes) (is : List Inst) (hlen : p.length ≤ 300000000)
    (hp : parseProgram p = .ok is)
    (hnj : ∀ i ∈ is, isJump i.op = false)
    (hname : ∀ i ∈ is, i.data.length = 0 → Nameable i.op = true)
    (hlong : ∀ i ∈ is, i.data.length < 32767) :
    disassemble p = .ok (joinSp (is.map textOf)) ∧
    assemble (joinSp (is.map textOf)) = .ok ((is.map canonBytes).flatten) ∧
    parseProgram ((is.map canonBytes).flatten) = .ok (is.map canonInst) := by
  have hmax : p.length ≤ maxInt32 := by unfold maxInt32; omega
  have hspec := hp
  rw [parseProgram_eq p hmax] at hspec
  have htile := specProg_tiles _ _ _ _ hspec
  obtain ⟨hq1, hq2⟩ := htile.canon_length
  refine ⟨?_, ?_, ?_⟩
  · -- Disassemble
    unfold disassemble
    have h1 := disPass1_eq (p.length + 1) [] p [] is (by simpa using hmax) (by simpa using hspec)
    simp only [List.nil_append, List.length_nil] at h1
    rw [h1, collectLabels_nojump is [] hnj]
    simp only [disPass2_nojump is 0 hnj]
  · -- Assemble
    unfold assemble
    have hw : ∀ w ∈ is.map textOf, IsWord w ∧ w.length < maxScanTokenSize := by
      intro w hw
      obtain ⟨i, hi, rfl⟩ := List.mem_map.mp hw
      exact textOf_word i (hlong i hi)
    rw [scanAll_words (is.map textOf) _ hw (Nat.lt_succ_self _)]
    simp only [asmTokens_text is ⟨[], [], []⟩ hname, List.nil_append]
    rfl
  · -- parse the assembled bytes
    apply parseProgram_of_spec (fuel := is.length + 1) (by unfold maxInt32; omega) (by omega)
    apply specProg_canon is _ 0 _ (Nat.lt_succ_self _) (by omega)
    intro i hi
    exact ⟨specProg_mem _ _ _ _ hspec i hi, hname i hi⟩

/-- the hypotheses are satisfiable on a non-trivial program:
    `DUP HASH160 <20 bytes> EQUALVERIFY TXSIGHASH SWAP CHECKSIG` with a non-minimal push, OP_5 -/
example :
    let p : Bytes := [0x76, 0xaa, 0x4c, 0x02, 0xab, 0xcd, 0x88, 0x55, 0xae, 0x7c, 0xac]
    ∃ is, parseProgram p = .ok is ∧ (∀ i ∈ is, isJump i.op = false) ∧
      (∀ i ∈ is, i.data.length = 0 → Nameable i.op = true) ∧ (∀ i ∈ is, i.data.length < 32767) ∧
      is.map canonInst ≠ is := by
  refine ⟨[⟨0x76, 1, []⟩, ⟨0xaa, 1, []⟩, ⟨0x4c, 4, [0xab, 0xcd]⟩, ⟨0x88, 1, []⟩, ⟨0x55, 1, [0x05]⟩,
    ⟨0xae, 1, []⟩, ⟨0x7c, 1, []⟩, ⟨0xac, 1, []⟩], by decide, by decide, by decide, by decide, by decide⟩

/-- corollary: on canonical jump-free programs (every data-carrying instruction already is the
    minimal push of its data) the round trip is exact, as the property states -/
theorem asm_disasm_exact_on_canonical (p : Bytes) (is : List Inst) (hlen : p.length ≤ 300000000)
    (hp : parseProgram p = .ok is)
    (hnj : ∀ i ∈ is, isJump i.op = false)
    (hname : ∀ i ∈ is, i.data.length = 0 → Nameable i.op = true)
    (hlong : ∀ i ∈ is, i.data.length < 32767)
    (hcanon : ∀ i ∈ is, canonInst i = i) :
    ∃ t q, disassemble p = .ok t ∧ assemble t = .ok q ∧ parseProgram q = parseProgram p := by
  obtain ⟨h1, h2, h3⟩ := asm_disasm_partial p is hlen hp hnj hname hlong
  refine ⟨_, _, h1, h2, ?_⟩
  rw [h3, hp]
  congr 1
  have : is.map canonInst = is.map id := List.map_congr_left (fun i hi => by simpa using hcanon i hi)
  rw [this, List.map_id]


/-! ### label names of Disassemble -/

/-- **label_names_distinct.** The name Disassemble gives to the n-th distinct jump target
    (`words[n % 26]`, plus the decimal round number `n/26 + 1` from the second round on) is
    different for different n, for ALL n: no label is ever defined twice in a disassembly, so
    Assemble cannot answer `label … redefined` on Disassemble's output. -/
theorem label_names_distinct (m n : Nat) (h : labelName m = labelName n) : m = n :=
  labelName_injective h

/-- the naming scheme around the end of the first and second round -/
theorem label_name_examples :
    labelName 0 = [0x61, 0x6c, 0x70, 0x68, 0x61] ∧                      -- alpha
    labelName 25 = [0x7a, 0x75, 0x6c, 0x75] ∧                            -- zulu
    labelName 26 = [0x61, 0x6c, 0x70, 0x68, 0x61, 0x32] ∧               -- alpha2
    labelName 27 = [0x62, 0x72, 0x61, 0x76, 0x6f, 0x32] ∧               -- bravo2
    labelName 51 = [0x7a, 0x75, 0x6c, 0x75, 0x32] ∧                      -- zulu2
    labelName 52 = [0x61, 0x6c, 0x70, 0x68, 0x61, 0x33] ∧               -- alpha3
    labelName 259 = [0x7a, 0x75, 0x6c, 0x75, 0x31, 0x30] := by decide   -- zulu10

/-- 27 jumps to 27 distinct instruction boundaries (jump k targets its own offset 5k) -/
def jumps27 : Bytes :=
  (List.range 27).flatMap (fun k => [0x63, UInt8.ofNat (5 * k), 0x00, 0x00, 0x00])

/-- a program with 27 distinct boundary targets — one more than there are words — round-trips
    exactly in the model (the 27th label is `alpha2`, not `alpha` again) -/
theorem roundtrip_27_labels : asmDis jumps27 = some (.ok jumps27) := by decide +kernel

end BytomModel.Props.C09
