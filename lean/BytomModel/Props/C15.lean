/-
C15 — the validator set and the block-proposer schedule are deterministic.

Stated over M-Ckpt (`Model/Checkpoint`). `iter` is the iteration order of Go's
`range c.Votes`; maps are association lists with distinct keys (an invariant of every map
operation of the model, `votes_keys_distinct`).
-/
import BytomModel.Lemmas.Checkpoint

namespace BytomModel.Props.C15
open BytomModel.Model.Checkpoint BytomModel.Lemmas.Checkpoint

/-- `iter` only permutes the entries of the map -/
def IsIter (iter : KMap → KMap) : Prop := ∀ m, (iter m).Perm m

/-! ### vote tally -/

/-- a veto of `a` on key `k`: the entry is reduced when it exceeds `a`, removed otherwise;
    nothing else changes -/
theorem tally_veto {m : KMap} (hn : (kkeys m).Nodup) (k : Key) (a : Nat) :
    kget (applyVeto m (k, a)) k = (if (kget m k).getD 0 > a then some ((kget m k).getD 0 - a) else none) ∧
    ∀ k', k ≠ k' → kget (applyVeto m (k, a)) k' = kget m k' := by
  unfold applyVeto
  by_cases h : (kget m k).getD 0 > a
  · simp only [h, if_true]
    exact ⟨kget_kset_same _ _ _, fun k' hk => kget_kset_other _ _ hk⟩
  · simp only [h, if_false]
    exact ⟨kget_kdel_same _ hn, fun k' hk => kget_kdel_other _ hk⟩

/-- a vote output of `a` for key `k` adds `a` (uint64) to that entry only -/
theorem tally_vote (m : KMap) (k : Key) (a : Nat) :
    kget (applyVote m (k, a)) k = some (((kget m k).getD 0 + a) % u64) ∧
    ∀ k', k ≠ k' → kget (applyVote m (k, a)) k' = kget m k' :=
  ⟨kget_kset_same _ _ _, fun _ hk => kget_kset_other _ _ hk⟩

/-- the vote map keeps its keys distinct through every block (so it IS a map) -/
theorem votes_keys_distinct {m : KMap} (txs : List CTx) (h : (kkeys m).Nodup) :
    (kkeys (applyVotes m txs)).Nodup := nodup_applyVotes txs h

/-- NewCheckpoint inherits exactly the non-zero entries -/
theorem newCheckpoint_votes (c : Checkpoint) (h : (kkeys c.votes).Nodup) :
    (kkeys (newCheckpoint c).votes).Nodup ∧
    (∀ e, e ∈ (newCheckpoint c).votes ↔ e ∈ c.votes ∧ e.2 ≠ 0) ∧
    (newCheckpoint c).status = .growing ∧ (newCheckpoint c).rewards = [] := by
  refine ⟨?_, ?_, rfl, rfl⟩
  · unfold newCheckpoint kkeys
    simp only
    exact List.Nodup.sublist (List.Sublist.map _ List.filter_sublist) h
  · intro e; simp [newCheckpoint]

/-! ### AllValidators -/

theorem keysDistinct_candidates (p : Params) {m : KMap} (h : (kkeys m).Nodup) : KeysDistinct (candidates p m) := by
  unfold KeysDistinct candidates
  rw [List.pairwise_map]
  apply List.Pairwise.filter
  unfold kkeys at h
  rw [List.Nodup, List.pairwise_map] at h
  exact h

theorem perm_candidates (p : Params) {m m' : KMap} (h : m.Perm m') : (candidates p m).Perm (candidates p m') := by
  unfold candidates
  exact (h.filter _).map _

/-- **AllValidators does not depend on the iteration order of the vote map** (nor on the
    algorithm of the sort: any strictly sorted permutation of the candidates is this list) -/
theorem allValidators_order_independent (p : Params) {i1 i2 : KMap → KMap} (h1 : IsIter i1) (h2 : IsIter i2)
    (c : Checkpoint) (hn : (kkeys c.votes).Nodup) : allValidators p i1 c = allValidators p i2 c := by
  unfold allValidators
  split
  · rfl
  · have n1 : (kkeys (i1 c.votes)).Nodup := (List.Perm.nodup_iff ((h1 c.votes).map Prod.fst)).mpr hn
    have n2 : (kkeys (i2 c.votes)).Nodup := (List.Perm.nodup_iff ((h2 c.votes).map Prod.fst)).mpr hn
    apply sorted_perm_eq (sorted_sortV (keysDistinct_candidates p n1)) (sorted_sortV (keysDistinct_candidates p n2))
    exact (perm_sortV _).trans ((perm_candidates p ((h1 c.votes).trans (h2 c.votes).symm)).trans (perm_sortV _).symm)

/-- any other procedure that returns a strictly sorted arrangement of the candidates (e.g.
    Go's unstable `sort.Slice`) returns the same list -/
theorem allValidators_unique (p : Params) {iter : KMap → KMap} (hi : IsIter iter) (c : Checkpoint)
    (hn : (kkeys c.votes).Nodup) (hs : c.status ≠ .growing) (l : List Validator)
    (hl : Sorted l) (hp : l.Perm (candidates p c.votes)) : l = allValidators p iter c := by
  unfold allValidators
  simp only [hs, if_false]
  have n1 : (kkeys (iter c.votes)).Nodup := (List.Perm.nodup_iff ((hi c.votes).map Prod.fst)).mpr hn
  apply sorted_perm_eq hl (sorted_sortV (keysDistinct_candidates p n1))
  exact hp.trans ((perm_candidates p (hi c.votes).symm).trans (perm_sortV _).symm)

/-- what AllValidators returns: nothing while Growing; otherwise exactly the keys whose tally
    meets the minimum, strictly sorted by (votes desc, key desc) -/
theorem allValidators_spec (p : Params) {iter : KMap → KMap} (hi : IsIter iter) (c : Checkpoint)
    (hn : (kkeys c.votes).Nodup) :
    (c.status = .growing → allValidators p iter c = []) ∧
    (c.status ≠ .growing →
      Sorted (allValidators p iter c) ∧ KeysDistinct (allValidators p iter c) ∧
      ∀ v, v ∈ allValidators p iter c ↔ ((v.pubKey, v.voteNum) ∈ c.votes ∧ p.minVotes ≤ v.voteNum ∧ v.order = 0)) := by
  refine ⟨fun h => by simp [allValidators, h], fun hs => ?_⟩
  have n1 : (kkeys (iter c.votes)).Nodup := (List.Perm.nodup_iff ((hi c.votes).map Prod.fst)).mpr hn
  unfold allValidators
  simp only [hs, if_false]
  refine ⟨sorted_sortV (keysDistinct_candidates p n1), ?_, ?_⟩
  · have hsym : ∀ {a b : Validator}, a.pubKey ≠ b.pubKey → b.pubKey ≠ a.pubKey := fun h => Ne.symm h
    exact (List.Perm.pairwise_iff hsym (perm_sortV _)).mpr (keysDistinct_candidates p n1)
  · intro v
    rw [(perm_sortV _).mem_iff]
    unfold candidates
    simp only [List.mem_map, List.mem_filter, decide_eq_true_eq]
    constructor
    · rintro ⟨e, ⟨he, hm⟩, rfl⟩
      exact ⟨(hi c.votes).subset he, hm, rfl⟩
    · rintro ⟨hm, hv, ho⟩
      refine ⟨(v.pubKey, v.voteNum), ⟨(hi c.votes).symm.subset hm, hv⟩, ?_⟩
      cases v; simp_all

/-! ### EffectiveValidators -/

/-- validators listed so that the i-th carries order k+i -/
def OrdersIdx (k : Nat) (vs : List Validator) : Prop := ∀ i v, vs[i]? = some v → v.order = k + i

theorem length_setOrders : ∀ (k : Nat) (l : List Validator), (setOrders k l).length = l.length
  | _, [] => rfl
  | k, v :: t => by simp [setOrders, length_setOrders (k + 1) t]

theorem getElem?_setOrders : ∀ (k : Nat) (l : List Validator) (i : Nat),
    (setOrders k l)[i]? = (l[i]?).map (fun v => { v with order := k + i })
  | _, [], i => by simp [setOrders]
  | k, v :: t, 0 => by simp [setOrders]
  | k, v :: t, i + 1 => by
    simp only [setOrders, List.getElem?_cons_succ]
    rw [getElem?_setOrders (k + 1) t i]
    have : k + 1 + i = k + (i + 1) := by omega
    rw [this]

theorem ordersIdx_setOrders (k : Nat) (l : List Validator) : OrdersIdx k (setOrders k l) := by
  intro i v h
  rw [getElem?_setOrders] at h
  cases e : l[i]? with
  | none => simp [e] at h
  | some w => simp [e] at h; subst h; rfl

/-- the federation as a list: i-th key with order i -/
def fedList : Nat → List Key → List Validator
  | _, [] => []
  | i, k :: t => { pubKey := k, order := i, voteNum := 0 } :: fedList (i + 1) t

theorem fedInsert_new : ∀ (m : List Validator) (k : Key) (i : Nat), (∀ v ∈ m, v.pubKey ≠ k) →
    fedInsert m k i = m ++ [{ pubKey := k, order := i, voteNum := 0 }]
  | [], _, _, _ => rfl
  | v :: t, k, i, h => by
    have hv : v.pubKey ≠ k := h v (by simp)
    simp only [fedInsert, hv, if_false, List.cons_append]
    rw [fedInsert_new t k i (fun w hw => h w (List.mem_cons_of_mem _ hw))]

theorem federationFrom_nodup : ∀ (ks : List Key) (i : Nat) (m : List Validator), ks.Nodup → (∀ v ∈ m, v.pubKey ∉ ks) →
    federationFrom i ks m = m ++ fedList i ks
  | [], _, m, _, _ => by simp [federationFrom, fedList]
  | k :: t, i, m, hn, hd => by
    rw [List.nodup_cons] at hn
    simp only [federationFrom, fedList]
    rw [fedInsert_new m k i (fun v hv c => hd v hv (by simp [c]))]
    rw [federationFrom_nodup t (i + 1) _ hn.2]
    · simp
    · intro v hv
      rcases List.mem_append.mp hv with e | e
      · exact fun c => hd v e (List.mem_cons_of_mem _ c)
      · simp at e; subst e; exact hn.1

theorem getElem?_fedList : ∀ (i : Nat) (ks : List Key) (j : Nat),
    (fedList i ks)[j]? = (ks[j]?).map (fun k => { pubKey := k, order := i + j, voteNum := 0 })
  | _, [], j => by simp [fedList]
  | i, k :: t, 0 => by simp [fedList]
  | i, k :: t, j + 1 => by
    simp only [fedList, List.getElem?_cons_succ]
    rw [getElem?_fedList (i + 1) t j]
    have : i + 1 + j = i + (j + 1) := by omega
    rw [this]

theorem ordersIdx_fedList (i : Nat) (ks : List Key) : OrdersIdx i (fedList i ks) := by
  intro j v h
  rw [getElem?_fedList] at h
  cases e : ks[j]? with
  | none => simp [e] at h
  | some w => simp [e] at h; subst h; rfl

/-- **EffectiveValidators**: the federation keys (with their indices) iff no key qualifies;
    otherwise the first ≤ `maxValidators` entries of AllValidators with orders 0,1,2,… -/
theorem effective_spec (p : Params) (iter : KMap → KMap) (c : Checkpoint) (hf : p.federation.Nodup) :
    (allValidators p iter c = [] → effectiveValidators p iter c = fedList 0 p.federation) ∧
    (allValidators p iter c ≠ [] →
      (effectiveValidators p iter c).length = min p.maxValidators (allValidators p iter c).length ∧
      ∀ i, i < p.maxValidators →
        (effectiveValidators p iter c)[i]? = ((allValidators p iter c)[i]?).map (fun v => { v with order := i })) ∧
    OrdersIdx 0 (effectiveValidators p iter c) := by
  refine ⟨?_, ?_, ?_⟩
  · intro h
    unfold effectiveValidators federationValidators
    simp only [h, List.isEmpty_nil, if_true]
    rw [federationFrom_nodup _ _ _ hf (by simp)]; simp
  · intro h
    have he : (allValidators p iter c).isEmpty = false := by
      cases e : allValidators p iter c with
      | nil => exact absurd e h
      | cons _ _ => rfl
    unfold effectiveValidators
    simp only [he]
    refine ⟨by simp [length_setOrders], ?_⟩
    intro i hi
    simp only [Bool.false_eq_true, if_false]
    rw [getElem?_setOrders, List.getElem?_take]
    simp [hi]
  · unfold effectiveValidators federationValidators
    simp only
    split
    · rw [federationFrom_nodup _ _ _ hf (by simp)]; simp
      exact ordersIdx_fedList 0 p.federation
    · exact ordersIdx_setOrders 0 _

/-! ### the slot schedule -/

/-- the slot of time `t`: number of whole intervals since the epoch start, modulo `n` -/
def slotOf (interval start t n : Nat) : Nat := (t - start) / interval % n

/-- `getValidatorOrder` (uint64 arithmetic) computes `slotOf` whenever nothing wraps:
    `t ≥ start`, all values are uint64, one round fits in uint64 -/
theorem getValidatorOrder_eq {I start t n : Nat} (hI : 0 < I) (hn : 0 < n) (hr : n * I < u64)
    (hst : start ≤ t) (ht : t < u64) :
    getValidatorOrder I start t n = some (slotOf I start t n) := by
  have hR : 0 < n * I := Nat.mul_pos hn hI
  have e1 : (n * I) % u64 = n * I := Nat.mod_eq_of_lt hr
  have e2 : (t + u64 - start) % u64 = t - start := by
    have : t + u64 - start = (t - start) + u64 := by omega
    rw [this, Nat.add_mod_right, Nat.mod_eq_of_lt (by omega)]
  have hle : (t - start) / (n * I) * (n * I) ≤ t - start := Nat.div_mul_le_self _ _
  have e3 : (start + (t - start) / (n * I) * (n * I)) % u64 = start + (t - start) / (n * I) * (n * I) :=
    Nat.mod_eq_of_lt (by omega)
  have e4 : (t + u64 - (start + (t - start) / (n * I) * (n * I))) % u64 = (t - start) % (n * I) := by
    have h5 : (t - start) % (n * I) = (t - start) - (t - start) / (n * I) * (n * I) := by
      have := Nat.div_add_mod (t - start) (n * I)
      rw [Nat.mul_comm] at this; omega
    have : t + u64 - (start + (t - start) / (n * I) * (n * I)) = ((t - start) - (t - start) / (n * I) * (n * I)) + u64 := by omega
    rw [this, Nat.add_mod_right, Nat.mod_eq_of_lt (by omega), h5]
  unfold getValidatorOrder slotOf
  simp only [e1, e2, e3, e4]
  have hR' : ¬ n * I = 0 := by omega
  have hI' : ¬ I = 0 := by omega
  simp only [hR', hI', if_false]
  rw [slot_formula hI]

theorem slot_lt {I start t n : Nat} (hn : 0 < n) : slotOf I start t n < n := Nat.mod_lt _ hn

/-- **round robin**: one interval later the next validator (cyclically) is scheduled -/
theorem slot_round_robin {I start t n : Nat} (hI : 0 < I) (hst : start ≤ t) :
    slotOf I start (t + I) n = (slotOf I start t n + 1) % n := by
  unfold slotOf
  have : t + I - start = (t - start) + I := by omega
  rw [this, Nat.add_div_right _ hI, Nat.add_mod, Nat.add_mod ((t - start) / I % n) 1 n, Nat.mod_mod]

/-- within one interval the slot does not change -/
theorem slot_constant_within_interval {I start t n d : Nat} (hI : 0 < I) (hst : start ≤ t)
    (ha : (t - start) % I = 0) (hd : d < I) : slotOf I start (t + d) n = slotOf I start t n := by
  unfold slotOf
  have e : t + d - start = (t - start) + d := by omega
  have h1 : ((t - start) + d) / I = (t - start) / I := by
    have hx := Nat.div_add_mod (t - start) I
    rw [ha] at hx
    have : (t - start) + d = d + I * ((t - start) / I) := by omega
    rw [this, Nat.add_mul_div_left _ _ hI, Nat.div_eq_of_lt hd]; omega
  rw [e, h1]

theorem find_order : ∀ {vs : List Validator} {k o : Nat}, OrdersIdx k vs → (ho : o < vs.length) →
    vs.find? (fun v => decide ((v.order : Int) = ((k + o : Nat) : Int))) = some (vs[o])
  | [], _, _, _, ho => by simp at ho
  | v :: t, k, o, h, ho => by
    have h0 : v.order = k := by
      have := h 0 v (by simp)
      omega
    cases o with
    | zero => simp [List.find?, h0]
    | succ o =>
      have hne : ¬ ((v.order : Int) = ((k + (o + 1) : Nat) : Int)) := by rw [h0]; omega
      simp only [List.find?, hne, decide_false, List.getElem_cons_succ]
      have ht : OrdersIdx (k + 1) t := by
        intro i w hi
        have := h (i + 1) w (by simpa using hi)
        omega
      have := find_order ht (o := o) (by simpa using ho)
      have e : k + 1 + o = k + (o + 1) := by omega
      rw [e] at this; exact this

/-- **exactly one validator is scheduled** for every block time at or after the epoch start:
    `GetValidator` returns the validator listed at position `slotOf …`, it carries that order,
    and no other effective validator does — whatever the iteration order of the Go maps.
    Side conditions (no uint64 wrap): the start and `t` are uint64 values, one round fits. -/
theorem slot_unique (p : Params) (iter : KMap → KMap) (c : Checkpoint) (t : Nat) (hf : p.federation.Nodup)
    (vs : List Validator) (hvs : vs = effectiveValidators p iter c)
    (hI : 0 < p.interval) (hn : 0 < vs.length) (hr : vs.length * p.interval < 9223372036854775808)
    (hs : c.timestamp + p.interval < u64) (hst : c.timestamp + p.interval ≤ t) (ht : t < u64) :
    ∃ (h : slotOf p.interval (c.timestamp + p.interval) t vs.length < vs.length),
      getValidator p iter c t = .validator (vs[slotOf p.interval (c.timestamp + p.interval) t vs.length]) ∧
      (vs[slotOf p.interval (c.timestamp + p.interval) t vs.length]).order
        = slotOf p.interval (c.timestamp + p.interval) t vs.length ∧
      ∀ j v, vs[j]? = some v → v.order = slotOf p.interval (c.timestamp + p.interval) t vs.length →
        j = slotOf p.interval (c.timestamp + p.interval) t vs.length := by
  have hslt : slotOf p.interval (c.timestamp + p.interval) t vs.length < vs.length := slot_lt hn
  have hidx : OrdersIdx 0 vs := hvs ▸ (effective_spec p iter c hf).2.2
  generalize hsdef : slotOf p.interval (c.timestamp + p.interval) t vs.length = s at hslt ⊢
  refine ⟨hslt, ?_, ?_, ?_⟩
  · unfold getValidator
    simp only
    rw [← hvs, Nat.mod_eq_of_lt hs]
    rw [getValidatorOrder_eq hI hn (by unfold u64; omega) hst ht, hsdef]
    simp only
    have hs63 : s < 9223372036854775808 := by
      have : vs.length ≤ vs.length * p.interval := Nat.le_mul_of_pos_right _ hI
      omega
    have e : toInt s = ((0 + s : Nat) : Int) := by
      unfold toInt
      simp [hs63]
    have hfind := find_order hidx hslt
    rw [e, hfind]
  · have := hidx s (vs[s]) (by simp [hslt])
    omega
  · intro j v hj hjo
    have := hidx j v hj
    omega

/-! ### the hypotheses are satisfiable / behaviour outside them (tests on literals) -/

/-- test: two qualifying keys with equal votes are ranked by key (desc), a third is below the
    minimum; orders 0,1; slot 1 of the second round belongs to order 1 -/
example :
    let p : Params := ⟨6000, 100, 100, 10, [[9]]⟩
    let c : Checkpoint := ⟨200, 1000000, .unjustified, [([1], 150), ([2], 150), ([3], 99)], []⟩
    effectiveValidators p id c = [⟨[2], 0, 150⟩, ⟨[1], 1, 150⟩] ∧
    getValidator p id c (1000000 + 6000 + 3 * 6000 + 17) = .validator ⟨[1], 1, 150⟩ := by decide

/-- test: while Growing (or when nobody qualifies) the federation is scheduled -/
example :
    let p : Params := ⟨6000, 100, 100, 10, [[7], [8]]⟩
    let c : Checkpoint := ⟨200, 1000000, .growing, [([1], 150)], []⟩
    effectiveValidators p id c = [⟨[7], 0, 0⟩, ⟨[8], 1, 0⟩] ∧
    getValidator p id c (1000000 + 6000) = .validator ⟨[7], 0, 0⟩ := by decide

/-- test: a block time BEFORE the epoch start is outside the property: the uint64 subtraction
    wraps and the "slot" is meaningless (here: it happens to land on order 0; for other intervals on any order) -/
example :
    let p : Params := ⟨6000, 100, 100, 10, [[7], [8]]⟩
    let c : Checkpoint := ⟨200, 1000000, .growing, [], []⟩
    getValidator p id c (1000000 + 5999) = .validator ⟨[7], 0, 0⟩ := by decide

/-- test: no validator at all (no votes, empty federation) makes GetValidator panic (division
    by zero in getValidatorOrder) -/
example :
    let p : Params := ⟨6000, 100, 100, 10, []⟩
    let c : Checkpoint := ⟨200, 1000000, .unjustified, [], []⟩
    getValidator p id c 2000000 = .panic := by decide

end BytomModel.Props.C15
