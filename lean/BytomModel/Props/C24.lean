/-
C24 — Wallet UTXOs depend only on the main chain.

Theorems are about `BytomModel.Model.Wallet` (`attach`/`detach` = wallet.attachUtxos /
detachUtxos as they are), which `./check C24` runs against the real `wallet.Wallet` on
every run. `CoreEq a b` = the two wallets hold the same UTXOs in every field except
`ValidHeight` (that one is C25): identity, asset, amount, program, owning account, vote.

Hypotheses about blocks are the wallet's view of "the block is valid on this chain"
(`validBlockB`: output ids fresh; spent outputs the wallet owns are wallet UTXOs with that
content, spent P2W outputs it does not own are not wallet UTXOs). The driver evaluates
exactly this predicate on every block the harness attaches, against `rescan` of the
wallet's chain, and the check fails if it is ever false (`valid=1` in the op stream).
-/
import BytomModel.Model.Wallet
import BytomModel.Lemmas.Wallet
import BytomModel.Lemmas.Project

namespace BytomModel.Props.C24
open BytomModel.Model.Wallet BytomModel.Lemmas.Wallet BytomModel.Lemmas.Project

/-- a reorganisation walk: attach a block on top of the wallet's chain, or detach its tip -/
inductive Step
  | push (b : Block)
  | pop

/-- the wallet's chain (newest first) and UTXO table after a step -/
def stepW (P : Params) (s : List Block × DB) : Step → List Block × DB
  | .push b => (b :: s.1, attach P b s.2)
  | .pop => match s.1 with
    | [] => s
    | b :: c => (c, detach P b s.2)

def walk (P : Params) (steps : List Step) (s : List Block × DB) : List Block × DB := steps.foldl (stepW P) s

/-- every attached block is valid on the chain it is attached to (`needNoVote`: and pays no
    vote output to a wallet program) -/
def WalkOK (P : Params) (needNoVote : Bool) : List Step → List Block → Prop
  | [], _ => True
  | .push b :: rest, chain =>
    validBlockB P b (rescan P chain) = true ∧ (needNoVote = true → noOwnedVoteBlockB P b = true) ∧
      WalkOK P needNoVote rest (b :: chain)
  | .pop :: rest, chain => WalkOK P needNoVote rest chain.tail

def ChainOK (P : Params) : List Block → Prop
  | [] => True
  | b :: c => validBlockB P b (rescan P c) = true ∧ noOwnedVoteBlockB P b = true ∧ ChainOK P c

/-- detaching a block right after attaching it restores the wallet (up to ValidHeight) -/
theorem detach_attach_inverse (P : Params) (b : Block) (db : DB)
    (hv : validBlockB P b db = true) (hn : noOwnedVoteBlockB P b = true) :
    CoreEq (detach P b (attach P b db)) db :=
  detach_attach_block P b db hv hn

/-- attach and detach act on what the wallet holds, not on how it got there -/
theorem attach_respects_coreEq (P : Params) (b : Block) (a c : DB) (h : CoreEq a c) :
    CoreEq (attach P b a) (attach P b c) := attach_congr P b h

theorem detach_respects_coreEq (P : Params) (b : Block) (a c : DB) (h : CoreEq a c) :
    CoreEq (detach P b a) (detach P b c) := detach_congr P b h

/-- invariant step of the walk -/
theorem walk_invariant (P : Params) : ∀ (steps : List Step) (chain : List Block) (db : DB),
    ChainOK P chain → CoreEq db (rescan P chain) → WalkOK P true steps chain →
    ChainOK P (walk P steps (chain, db)).1 ∧
      CoreEq (walk P steps (chain, db)).2 (rescan P (walk P steps (chain, db)).1) := by
  intro steps
  induction steps with
  | nil => intro chain db hc he _; exact ⟨hc, he⟩
  | cons st rest ih =>
    intro chain db hc he hw
    cases st with
    | push b =>
      obtain ⟨hv, hn, hrest⟩ := hw
      simp only [walk, List.foldl_cons, stepW]
      exact ih (b :: chain) (attach P b db) ⟨hv, hn rfl, hc⟩ (attach_congr P b he) hrest
    | pop =>
      cases chain with
      | nil =>
        simp only [walk, List.foldl_cons, stepW]
        exact ih [] db hc he hw
      | cons b c =>
        obtain ⟨hv, hn, hc'⟩ := hc
        simp only [walk, List.foldl_cons, stepW]
        refine ih c (detach P b db) hc' ?_ hw
        have h1 : CoreEq (detach P b db) (detach P b (attach P b (rescan P c))) := detach_congr P b he
        exact h1.trans (detach_attach_block P b (rescan P c) hv hn)

/-- `wallet_eq_rescan_partial`: for EVERY walk of attaches and detaches starting from the
    empty wallet in which each attached block is valid on the chain it extends and pays no
    vote output to a wallet program, the wallet's UTXOs equal (in identity, asset, amount,
    program, account, vote) those of a wallet that scans only the resulting chain. -/
theorem wallet_eq_rescan_partial (P : Params) (steps : List Step) (hw : WalkOK P true steps []) :
    CoreEq (walk P steps ([], [])).2 (rescan P (walk P steps ([], [])).1) :=
  (walk_invariant P steps [] [] trivial (CoreEq.refl _) hw).2

/-- the FULL statement (no exclusion of wallet vote outputs). Refuted below. -/
def wallet_eq_rescan_full : Prop :=
  ∀ (P : Params) (steps : List Step), WalkOK P false steps [] →
    CoreEq (walk P steps ([], [])).2 (rescan P (walk P steps ([], [])).1)

/-- F14 witness: program 1 belongs to account 1; block 1 pays a vote output (id 2) to it;
    attach then detach block 1: the vote UTXO stays although the chain is empty again. -/
def f14Params : Params := ⟨fun _ => true, fun p => if p = 1 then 1 else 0, 10, fun _ => 10⟩
def f14Block : Block := ⟨1, 0, 0, [⟨false, [], [⟨2, 1, 0, 500, 1, 7⟩]⟩]⟩

theorem wallet_eq_rescan_full_refuted : ¬ wallet_eq_rescan_full := by
  intro h
  have h1 := h f14Params [.push f14Block, .pop] (by simp only [WalkOK]; decide) 2
  revert h1
  decide

/-- the hypotheses of the partial theorem are satisfiable by a non-trivial walk: block 1 pays
    output 1 to the wallet, block 2 spends it and pays output 2 back, then block 2 is detached -/
example : WalkOK f14Params true
    [.push ⟨1, 0, 0, [⟨true, [⟨2, ⟨0, 2, 0, 0, 0, 0⟩, 0, 0⟩], [⟨1, 0, 0, 500, 1, 0⟩]⟩]⟩,
     .push ⟨2, 1, 1, [⟨false, [⟨0, ⟨1, 0, 0, 500, 1, 0⟩, 1, 0⟩], [⟨2, 0, 0, 400, 1, 0⟩]⟩]⟩,
     .pop] [] := by simp only [WalkOK]; decide

/-- wallet UTXOs are always owned: every record carries the account of its program -/
theorem attach_only_owned (P : Params) (h : Nat) (t : Tx) (db : DB) (id : Nat) (u : Utxo)
    (hnew : dbGet id (attachTx P h db t) = some u) (hold : dbGet id db ≠ some u) :
    P.p2w u.prog = true ∧ u.account = P.owner u.prog ∧ u.account ≠ 0 := by
  unfold attachTx at hnew
  rw [get_applyOps] at hnew
  unfold attachOps at hnew
  rw [effect_append] at hnew
  set A1 := (t.ins.filterMap inUtxo).filterMap (fun u => if P.p2w u.prog then some (DbOp.del u.id) else none) with hA1
  set A2 := ((t.outs.filterMap (outUtxo P t.coinbase h)).filterMap (owned P)).map DbOp.put with hA2
  have pA2 : ∀ op ∈ A2, isPut op := by
    intro op hop
    simp only [hA2, List.mem_map] at hop
    obtain ⟨u, _, rfl⟩ := hop; trivial
  have dA1 : ∀ op ∈ A1, isDel op := by
    intro op hop
    simp only [hA1, List.mem_filterMap] at hop
    obtain ⟨u, _, hu⟩ := hop
    split at hu
    · simp only [Option.some.injEq] at hu; subst hu; trivial
    · cases hu
  by_cases tA2 : ∃ op ∈ A2, key op = id
  · obtain ⟨u', hmem, _, he⟩ := effect_all_put id A2 (effect id A1 (dbGet id db)) pA2 tA2
    rw [he] at hnew
    simp only [Option.some.injEq] at hnew
    subst hnew
    simp only [hA2, List.mem_map, DbOp.put.injEq, List.mem_filterMap] at hmem
    obtain ⟨u2, ⟨u0, _, hown⟩, rfl⟩ := hmem
    unfold owned at hown
    split at hown
    · rename_i hc
      simp only [Option.some.injEq] at hown
      subst hown
      simp only [Bool.and_eq_true, bne_iff_ne, ne_eq] at hc
      exact ⟨hc.1, rfl, hc.2⟩
    · cases hown
  · rw [effect_untouched id A2 _ (fun op hop hk => tA2 ⟨op, hop, hk⟩)] at hnew
    by_cases tA1 : ∃ op ∈ A1, key op = id
    · rw [effect_all_del id A1 _ dA1 tA1] at hnew; cases hnew
    · rw [effect_untouched id A1 _ (fun op hop hk => tA1 ⟨op, hop, hk⟩)] at hnew
      exact absurd hnew hold


/-! ### wallet-independent hypotheses: validity with respect to the global unspent-output set -/

/-- every attached block spends only outputs of the GLOBAL unspent set of the chain it extends
    (`rescan (allOf P)` = what an observer owning every program holds = the consensus UTXO set),
    with the content it claims, and creates fresh, pairwise distinct output ids; no reference to
    the wallet's own table. `needNoVote`: and it pays no vote output to a wallet program. -/
def GWalkOK (P : Params) (needNoVote : Bool) : List Step → List Block → Prop
  | [], _ => True
  | .push b :: rest, chain =>
    gvalidBlockB P b (rescan (allOf P) chain) = true ∧ (needNoVote = true → noOwnedVoteBlockB P b = true) ∧
      GWalkOK P needNoVote rest (b :: chain)
  | .pop :: rest, chain => GWalkOK P needNoVote rest chain.tail

/-- global validity implies the wallet-side validity used above, for every wallet -/
theorem gwalk_implies_walk (P : Params) (nv : Bool) : ∀ (steps : List Step) (chain : List Block),
    GChainOK P chain → GWalkOK P nv steps chain → WalkOK P nv steps chain := by
  intro steps
  induction steps with
  | nil => intro chain _ _; trivial
  | cons st rest ih =>
    intro chain hc hw
    cases st with
    | push b =>
      obtain ⟨hv, hn, hrest⟩ := hw
      exact ⟨(project_block P b _ _ (rel_rescan P chain hc) hv).1, hn, ih (b :: chain) ⟨hv, hc⟩ hrest⟩
    | pop =>
      cases chain with
      | nil => exact ih [] trivial hw
      | cons b c => exact ih c hc.2 hw

/-- `wallet_eq_rescan_global`: for EVERY walk of attaches and detaches whose attached blocks are
    valid with respect to the global unspent-output set of the chain they extend and pay no vote
    output to a wallet program, the wallet equals a rescan of the resulting chain (identity,
    asset, amount, program, account, vote) — for every wallet (program table) `P`. -/
theorem wallet_eq_rescan_global (P : Params) (steps : List Step) (hw : GWalkOK P true steps []) :
    CoreEq (walk P steps ([], [])).2 (rescan P (walk P steps ([], [])).1) :=
  wallet_eq_rescan_partial P steps (gwalk_implies_walk P true steps [] trivial hw)

/-- the wallet's scan of a globally valid chain is the owned projection of the global set:
    the wallet holds an output iff it is globally unspent and its program is the wallet's -/
theorem rescan_is_owned_projection (P : Params) (chain : List Block) (hc : GChainOK P chain) (id : Nat) :
    (dbGet id (rescan P chain)).map core = ((dbGet id (rescan (allOf P) chain)).bind (owned P)).map core :=
  rel_rescan P chain hc id

example : GWalkOK f14Params true
    [.push ⟨1, 0, 0, [⟨true, [⟨2, ⟨0, 2, 0, 0, 0, 0⟩, 0, 0⟩], [⟨1, 0, 0, 500, 1, 0⟩]⟩]⟩,
     .push ⟨2, 1, 1, [⟨false, [⟨0, ⟨1, 0, 0, 500, 1, 0⟩, 1, 0⟩], [⟨2, 0, 0, 400, 1, 0⟩, ⟨3, 0, 0, 100, 2, 0⟩]⟩]⟩,
     .pop] [] := by simp only [GWalkOK]; decide

/-! ### the wallet's status bookkeeping follows the walk (AttachBlock never skips in updater order) -/

def tipId : List Block → Nat
  | [] => 0
  | b :: _ => b.id

def tipHeight : List Block → Nat
  | [] => 0
  | b :: _ => b.height

def stepWallet (P : Params) (s : List Block × Wallet) : Step → List Block × Wallet
  | .push b => (b :: s.1, attachBlock P s.2 b)
  | .pop => match s.1 with
    | [] => s
    | b :: c => (c, detachBlock P s.2 b)

def walkWallet (P : Params) (steps : List Step) (s : List Block × Wallet) : List Block × Wallet :=
  steps.foldl (stepWallet P) s

/-- the walletUpdater's order: every attached block extends the current tip by one height; the
    genesis block is never detached -/
def UpdaterOrder : List Step → List Block → Prop
  | [], _ => True
  | .push b :: rest, [] => b.parent = 0 ∧ b.height = 0 ∧ UpdaterOrder rest [b]
  | .push b :: rest, t :: c => b.parent = t.id ∧ b.height = t.height + 1 ∧ UpdaterOrder rest (b :: t :: c)
  | .pop :: rest, _ :: t :: c => UpdaterOrder rest (t :: c)
  | .pop :: _, [_] => False
  | .pop :: _, [] => False

def ChainLinked : List Block → Prop
  | [] => True
  | [b] => b.parent = 0 ∧ b.height = 0
  | b :: t :: c => b.parent = t.id ∧ b.height = t.height + 1 ∧ ChainLinked (t :: c)

/-- WorkHash/BestHash and the two heights all point at the tip of the wallet's chain -/
def StatusOK (chain : List Block) (w : Wallet) : Prop :=
  w.st.work = tipId chain ∧ w.st.best = tipId chain ∧
  w.st.workHeight = tipHeight chain ∧ w.st.bestHeight = tipHeight chain

/-- `updater_walk_status`: driven in the updater's order, `AttachBlock` never takes its silent
    skip branch, the status always points at the tip, and the UTXO table evolves exactly as
    `walk` (so `wallet_eq_rescan_partial` speaks about the real entry points). -/
theorem updater_walk_status (P : Params) : ∀ (steps : List Step) (chain : List Block) (w : Wallet),
    UpdaterOrder steps chain → ChainLinked chain → StatusOK chain w →
    (walkWallet P steps (chain, w)).1 = (walk P steps (chain, w.db)).1 ∧
    (walkWallet P steps (chain, w)).2.db = (walk P steps (chain, w.db)).2 ∧
    StatusOK (walkWallet P steps (chain, w)).1 (walkWallet P steps (chain, w)).2 := by
  intro steps
  induction steps with
  | nil => intro chain w _ _ hs; exact ⟨rfl, rfl, hs⟩
  | cons st rest ih =>
    intro chain w ho hc hs
    obtain ⟨h1, h2, h3, h4⟩ := hs
    cases st with
    | push b =>
      cases chain with
      | nil =>
        obtain ⟨hp, hh, hrest⟩ := ho
        simp only [tipId, tipHeight] at h1 h2 h3 h4
        have hw : attachBlock P w b = ⟨⟨b.height, b.id, b.height, b.id⟩, attach P b w.db⟩ := by
          unfold attachBlock
          simp [hp, h1, h4, hh]
        simp only [walkWallet, walk, List.foldl_cons, stepWallet, stepW]
        rw [hw]
        have := ih [b] ⟨⟨b.height, b.id, b.height, b.id⟩, attach P b w.db⟩ hrest ⟨hp, hh⟩ ⟨rfl, rfl, rfl, rfl⟩
        simpa [walkWallet, walk] using this
      | cons t c =>
        obtain ⟨hp, hh, hrest⟩ := ho
        simp only [tipId, tipHeight] at h1 h2 h3 h4
        have hw : attachBlock P w b = ⟨⟨b.height, b.id, b.height, b.id⟩, attach P b w.db⟩ := by
          unfold attachBlock
          have : (b.parent != w.st.work) = false := by simp [hp, h1]
          simp only [this, Bool.false_eq_true, if_false]
          have hge : b.height ≥ w.st.bestHeight := by omega
          simp [hge]
        simp only [walkWallet, walk, List.foldl_cons, stepWallet, stepW]
        rw [hw]
        have := ih (b :: t :: c) ⟨⟨b.height, b.id, b.height, b.id⟩, attach P b w.db⟩ hrest ⟨hp, hh, hc⟩ ⟨rfl, rfl, rfl, rfl⟩
        simpa [walkWallet, walk] using this
    | pop =>
      match chain, ho, hc with
      | b :: t :: c, ho, hc =>
        obtain ⟨hp, hh, hc'⟩ := hc
        simp only [tipId, tipHeight] at h1 h2 h3 h4
        have hw : detachBlock P w b = ⟨⟨t.height, t.id, t.height, t.id⟩, detach P b w.db⟩ := by
          unfold detachBlock
          have e1 : b.height - 1 = t.height := by omega
          simp only [e1, hp]
          have hgt : w.st.workHeight > t.height := by omega
          simp [hgt]
        simp only [walkWallet, walk, List.foldl_cons, stepWallet, stepW]
        rw [hw]
        have := ih (t :: c) ⟨⟨t.height, t.id, t.height, t.id⟩, detach P b w.db⟩ ho hc' ⟨rfl, rfl, rfl, rfl⟩
        simpa [walkWallet, walk] using this
      | [], ho, _ => simp [UpdaterOrder] at ho
      | [_], ho, _ => simp [UpdaterOrder] at ho


/-- an updater-order walk with a reorganisation: attach 1, 2, detach 2, attach 3 on top of 1 -/
example : UpdaterOrder [.push ⟨1, 0, 0, []⟩, .push ⟨2, 1, 1, []⟩, .pop, .push ⟨3, 1, 1, []⟩] [] := by
  simp [UpdaterOrder]

end BytomModel.Props.C24
