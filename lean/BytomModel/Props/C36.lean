/-
C36 — RPC access control admits only authorised callers.

Model: `BytomModel.Authn` (`Model/Authn.lean`), an executable mirror of
`net/http/authn/authn.go` + `accesstoken/accesstoken.go`. A history is a list of
`create / delete / advance / request` operations; `final disable pre` is the state after
the history `pre` (token store, credential cache, clock).

Reading of the property. A request `r` made after history `pre` (authentication enabled,
origin not loopback, path not one of the documented static exemptions) may be admitted
only if its credentials `(u, p)`

  * are a live issued token now:  `check (final pre).tokens u p`, or
  * were presented earlier in `pre`, were a live issued token at that moment, and that
    moment is at most `tokenExpiry` = 300 s ago.

The model mirrors the code after the repair of F22 (commit ed51f8ca: the cache key is
`user + ":" + pw`; before it was `user + pw`, so any re-split of a validated pair was
admitted for 300 s). The property as stated is now PROVED at full strength: `admit_sound`.
The key is the decoded Basic payload itself (`Lemmas.Authn.splitColon_spec`), hence it
determines the credential pair (`key_injective`). The former counterexample is kept below as
an `example` that now satisfies the property; the key expression is tied by
`Ties.C36.cache_key_tied`.
-/
import BytomModel.Lemmas.Authn

namespace BytomModel.Props.C36
open BytomModel.Authn BytomModel.Lemmas.Authn

/-- the credentials `(u, p)` were presented in `pre` while being a live issued token, at
    most `tokenExpiry` seconds before the end of `pre` -/
def RecentlyValidated (pre : List Op) (u p : Bytes) : Prop :=
  ∃ pre1 r1 rest, pre = pre1 ++ Op.request r1 :: rest ∧ parseBasic r1.auth = some (u, p) ∧
    check (final false pre1).tokens u p = true ∧
    (final false pre).now ≤ (final false pre1).now + tokenExpiry

/-- the property as stated (soundness part), for one request after one history -/
def AdmitSoundAt (pre : List Op) (r : Req) : Prop :=
  isLocal r.origin = false → exemptPath r.path = false →
  (authenticate false (final false pre) r).2.verdict = .ok →
  ∃ u p, parseBasic r.auth = some (u, p) ∧
    (check (final false pre).tokens u p = true ∨ RecentlyValidated pre u p)

/-- full strength: for all histories and all requests -/
def admit_sound_full : Prop := ∀ pre r, AdmitSoundAt pre r

/-! ### the former counterexample (F22) -/

def witnessPre : List Op :=
  [.create (str "ab") (str "cd"),
   .request { origin := .remote, path := str "/x", auth := some (str "ab:cd") }]

/-- `("a", "bcd")` is not a token; before the repair it was admitted because
    `"a" ++ "bcd" = "ab" ++ "cd"` was the cache key of the validated pair -/
def witnessReq : Req := { origin := .remote, path := str "/x", auth := some (str "a:bcd") }

/-! ### soundness -/

/-- **admit_sound** — the property at full strength: for EVERY history of token creations,
deletions, clock advances and requests, and EVERY request: with authentication enabled, a
request from a non-loopback origin to a path that is not a documented static exemption is
admitted only if its credentials `(u, p)` are an issued token that is live now, or were
presented earlier in the history while being a live issued token, at most 300 s ago. -/
theorem admit_sound : admit_sound_full := by
  intro pre r hloc hex hok
  by_cases hprot : protectedPath r.path = true
  · -- protected paths are refused to non-local callers
    exfalso
    unfold authenticate at hok
    generalize tokenAuthn false (final false pre) r = ta at hok
    obtain ⟨s', token, err⟩ := ta
    simp only [protectedPath, Bool.or_eq_true] at hprot
    simp only [hloc, Bool.not_false, Bool.true_and] at hok
    rcases hprot with (h1 | h2) | h3
    · simp [h1] at hok
    · by_cases h1 : hasPrefix "/backup-wallet" r.path = true <;> simp [h1, h2] at hok
    · by_cases h1 : hasPrefix "/backup-wallet" r.path = true <;>
        by_cases h2 : hasPrefix "/restore-wallet" r.path = true <;> simp [h1, h2, h3] at hok
  · have hprot' : protectedPath r.path = false := by cases h : protectedPath r.path <;> simp_all
    rw [authenticate_verdict_remote false _ r hloc hprot' hex] at hok
    unfold tokenAuthn at hok
    simp only [Bool.false_eq_true, if_false] at hok
    cases hp : parseBasic r.auth with
    | none => simp [hp] at hok
    | some up =>
      obtain ⟨u, p⟩ := up
      refine ⟨u, p, rfl, ?_⟩
      simp only [hp] at hok
      rcases cachedCheck_cases (final false pre) u p with ⟨_, hc, _⟩ | ⟨_, _, last, hl, hle⟩ | ⟨hf, _⟩
      · exact Or.inl hc
      · right
        obtain ⟨pre1, r1, rest, u', p', h1, h2, h3, h4, h5⟩ := cacheInv false pre _ _ hl
        obtain ⟨rfl, rfl⟩ := key_injective r.auth r1.auth u p u' p' hp h2 h3
        exact ⟨pre1, r1, rest, h1, h2, h4, by rw [h5]; exact hle⟩
      · simp [hf] at hok

/-- the former counterexample satisfies the property now … -/
example : AdmitSoundAt witnessPre witnessReq := admit_sound witnessPre witnessReq
/-- … because the re-split pair is refused: -/
example : (authenticate false (final false witnessPre) witnessReq).2.verdict = .invalidToken := by decide

/-- **refused_unless_authorised** (contrapositive form, e.g. a deleted token after its
window, a wrong secret, a re-split pair): when the credentials are not a live token and were
not validated in the last 300 s, a non-loopback request to a non-exempt path is NOT admitted. -/
theorem refused_unless_authorised (pre : List Op) (r : Req) (u p : Bytes)
    (hloc : isLocal r.origin = false) (hex : exemptPath r.path = false)
    (hp : parseBasic r.auth = some (u, p))
    (hdead : check (final false pre).tokens u p = false)
    (hnone : ¬ RecentlyValidated pre u p) :
    (authenticate false (final false pre) r).2.verdict ≠ .ok := by
  intro hok
  obtain ⟨u0, p0, hp0, h⟩ := admit_sound pre r hloc hex hok
  rw [hp] at hp0
  obtain ⟨rfl, rfl⟩ := Prod.mk.inj (Option.some.inj hp0)
  rcases h with h | h
  · rw [hdead] at h; cases h
  · exact hnone h

/-- **local_only_paths** — whatever the configuration, the state and the credentials, a
request from a non-loopback origin to `/backup-wallet*`, `/restore-wallet*` or
`/list-access-tokens*` is refused. -/
theorem local_only_paths (disable : Bool) (s : State) (r : Req)
    (hloc : isLocal r.origin = false) (hprot : protectedPath r.path = true) :
    (authenticate disable s r).2.verdict = .localOnlyBackup ∨
    (authenticate disable s r).2.verdict = .localOnlyRestore ∨
    (authenticate disable s r).2.verdict = .localOnlyList := by
  unfold authenticate
  generalize tokenAuthn disable s r = ta
  obtain ⟨s', token, err⟩ := ta
  simp only [protectedPath, Bool.or_eq_true] at hprot
  simp only [hloc, Bool.not_false, Bool.true_and]
  by_cases h1 : hasPrefix "/backup-wallet" r.path = true
  · simp [h1]
  · by_cases h2 : hasPrefix "/restore-wallet" r.path = true
    · simp [h1, h2]
    · have h3 : hasPrefix "/list-access-tokens" r.path = true := by
        rcases hprot with (h | h) | h
        · exact absurd h h1
        · exact absurd h h2
        · exact h
      simp [h1, h2, h3]

theorem local_only_paths_not_ok (disable : Bool) (s : State) (r : Req)
    (hloc : isLocal r.origin = false) (hprot : protectedPath r.path = true) :
    (authenticate disable s r).2.verdict ≠ .ok := by
  rcases local_only_paths disable s r hloc hprot with h | h | h <;> rw [h] <;> decide

/-- **admit_complete** — a request carrying a live token's (id, secret) is admitted, from
any origin and in any state, on every path that is not refused as local-only. -/
theorem admit_complete (s : State) (r : Req) (u p : Bytes)
    (hp : parseBasic r.auth = some (u, p)) (hlive : check s.tokens u p = true)
    (hpath : isLocal r.origin = true ∨ protectedPath r.path = false) :
    (authenticate false s r).2.verdict = .ok := by
  have hta : (tokenAuthn false s r).2.2 = .ok := by
    unfold tokenAuthn
    simp only [Bool.false_eq_true, if_false, hp]
    rcases cachedCheck_cases s u p with ⟨h, _⟩ | ⟨h, _⟩ | ⟨_, _, h, _⟩
    · simp [h]
    · simp [h]
    · rw [hlive] at h; cases h
  unfold authenticate
  generalize tokenAuthn false s r = ta at hta
  obtain ⟨s', token, err⟩ := ta
  simp only [] at hta
  subst hta
  rcases hpath with hl | hpr
  · simp only [hl, Bool.not_true, Bool.false_and, Bool.false_eq_true, if_false, loopbackOn, Bool.and_self, if_true]
    repeat (first | rfl | split)
  · simp only [protectedPath, Bool.or_eq_false_iff] at hpr
    obtain ⟨⟨p1, p2⟩, p3⟩ := hpr
    simp only [p1, p2, p3, Bool.and_false, Bool.false_eq_true, if_false]
    repeat (first | rfl | split)

/-- a non-loopback request without (parsable) credentials to a non-exempt path is refused
    with `ErrNoToken` -/
theorem no_credentials_refused (s : State) (r : Req)
    (hloc : isLocal r.origin = false) (hprot : protectedPath r.path = false) (hex : exemptPath r.path = false)
    (hp : parseBasic r.auth = none) :
    (authenticate false s r).2.verdict = .noToken := by
  rw [authenticate_verdict_remote false s r hloc hprot hex]
  simp [tokenAuthn, hp]

/-- wrong credentials that are not covered by a cache entry are refused with `ErrInvalidToken` -/
theorem invalid_refused (s : State) (r : Req) (u p : Bytes)
    (hloc : isLocal r.origin = false) (hprot : protectedPath r.path = false) (hex : exemptPath r.path = false)
    (hp : parseBasic r.auth = some (u, p)) (hdead : check s.tokens u p = false)
    (hcache : mget s.cache (u ++ 58 :: p) = none) :
    (authenticate false s r).2.verdict = .invalidToken := by
  rw [authenticate_verdict_remote false s r hloc hprot hex]
  simp only [tokenAuthn, Bool.false_eq_true, if_false, hp]
  rcases cachedCheck_cases s u p with ⟨_, h, _⟩ | ⟨_, _, last, h, _⟩ | ⟨h, _⟩
  · rw [hdead] at h; cases h
  · rw [hcache] at h; cases h
  · simp [h]

/-- the documented static exemptions: `/dashboard`, `/dashboard/…`, `/equity`, `/equity/…`
    are admitted for every caller that is not refused by the local-only rule -/
theorem exempt_admitted (disable : Bool) (s : State) (r : Req)
    (hex : exemptPath r.path = true) (hprot : protectedPath r.path = false) :
    (authenticate disable s r).2.verdict = .ok := by
  unfold authenticate
  generalize tokenAuthn disable s r = ta
  obtain ⟨s', token, err⟩ := ta
  simp only [protectedPath, Bool.or_eq_false_iff] at hprot
  obtain ⟨⟨p1, p2⟩, p3⟩ := hprot
  simp only [exemptPath, Bool.or_eq_true] at hex
  simp only [p1, p2, p3, Bool.and_false, Bool.false_eq_true, if_false]
  rcases hex with ((h | h) | h) | h
  · simp [h]
  · simp [h]
  · by_cases h1 : (hasPrefix "/dashboard/" r.path || r.path == str "/dashboard") = true <;> simp [h1, h]
  · by_cases h1 : (hasPrefix "/dashboard/" r.path || r.path == str "/dashboard") = true <;> simp [h1, h]

/-- loopback callers are admitted on every path (`loopbackOn`) -/
theorem loopback_admitted (disable : Bool) (s : State) (r : Req) (hloc : isLocal r.origin = true) :
    (authenticate disable s r).2.verdict = .ok := by
  unfold authenticate
  generalize tokenAuthn disable s r = ta
  obtain ⟨s', token, err⟩ := ta
  simp only [hloc, Bool.not_true, Bool.false_and, Bool.false_eq_true, if_false, loopbackOn, Bool.and_self, if_true]
  repeat (first | rfl | split)

/-- with authentication disabled every request is admitted except the local-only refusals -/
theorem disabled_admits (s : State) (r : Req) (h : isLocal r.origin = true ∨ protectedPath r.path = false) :
    (authenticate true s r).2.verdict = .ok := by
  unfold authenticate tokenAuthn
  simp only [if_true]
  rcases h with hl | hpr
  · simp only [hl, Bool.not_true, Bool.false_and, Bool.false_eq_true, if_false, loopbackOn, Bool.and_self, if_true]
    repeat (first | rfl | split)
  · simp only [protectedPath, Bool.or_eq_false_iff] at hpr
    obtain ⟨⟨p1, p2⟩, p3⟩ := hpr
    simp only [p1, p2, p3, Bool.and_false, Bool.false_eq_true, if_false]
    repeat (first | rfl | split)

/-- **ctx_token_authenticated** — the token put into the request context (what the handlers
see through `authn.Token(ctx)`) is never set unless `tokenAuthn` succeeded for exactly that
user name: a non-empty context token is the user part of credentials that passed
`cachedTokenAuthnCheck`. -/
theorem ctx_token_authenticated (s : State) (r : Req) (tok : Bytes)
    (h : (authenticate false s r).2.ctxToken = tok) (hne : tok ≠ []) :
    ∃ p, parseBasic r.auth = some (tok, p) ∧ (cachedCheck s tok p).2 = true := by
  have hct : (authenticate false s r).2.ctxToken =
      (if (tokenAuthn false s r).2.2 = .ok ∧ (tokenAuthn false s r).2.1 ≠ [] then (tokenAuthn false s r).2.1 else []) := by
    unfold authenticate
    generalize tokenAuthn false s r = ta
    obtain ⟨s', token, err⟩ := ta
    simp only []
    repeat (first | rfl | split)
  rw [hct] at h
  unfold tokenAuthn at h
  simp only [Bool.false_eq_true, if_false] at h
  cases hp : parseBasic r.auth with
  | none => simp [hp] at h; exact absurd h hne
  | some up =>
    obtain ⟨u, p⟩ := up
    simp only [hp] at h
    cases hc : (cachedCheck s u p).2 with
    | false => simp [hc] at h; exact absurd h hne
    | true =>
      simp only [hc, if_true, true_and] at h
      by_cases hu : u = []
      · simp [hu] at h; exact absurd h hne
      · simp only [hu, ne_eq, not_false_eq_true, if_true] at h
        subst h
        exact ⟨p, rfl, hc⟩

/-! ### the token store: what "issued and live" means -/

theorem check_after_create (s : State) (id secret : Bytes) (h : (create s id secret).2 = .created) :
    check (create s id secret).1.tokens id secret = true := by
  unfold create at h ⊢
  split at h
  · cases h
  · split at h
    · cases h
    · rename_i h1 h2
      simp [h1, h2, check, get_put]

theorem check_after_delete (s : State) (id secret : Bytes) :
    check (delete s id).tokens id secret = false := by
  simp [delete, check, get_del]

theorem delete_other (s : State) (id id' secret : Bytes) (h : id ≠ id') :
    check (delete s id).tokens id' secret = check s.tokens id' secret := by
  simp [delete, check, get_del, h]

theorem create_rejects_bad_id (s : State) (id secret : Bytes) (h : validId id = false) :
    create s id secret = (s, .badId) := by
  simp [create, h]

theorem create_rejects_duplicate (s : State) (id secret : Bytes) (hv : validId id = true)
    (h : (mget s.tokens id).isSome = true) : create s id secret = (s, .duplicate) := by
  simp [create, hv, h]

/-- the clock of a history never runs backwards (so "earlier" in `RecentlyValidated` is
    earlier in time) -/
theorem clock_monotone (disable : Bool) (a b : List Op) : (final disable a).now ≤ (final disable (a ++ b)).now := by
  rw [final_append]; exact foldl_now_le disable b _

/-! ### tests: the hypotheses are satisfiable on concrete values -/

example : check (final false witnessPre).tokens (str "a") (str "bcd") = false := by decide
example : protectedPath (str "/backup-wallets") = true ∧ exemptPath (str "/dashboardx") = false := by decide
/-- the validated pair itself is served from the cache for 300 s after the token was deleted, not longer -/
example : (authenticate false (final false (witnessPre ++ [.delete (str "ab"), .advance 300]))
    { origin := .remote, path := str "/x", auth := some (str "ab:cd") }).2.verdict = .ok := by decide
example : (authenticate false (final false (witnessPre ++ [.delete (str "ab"), .advance 301]))
    { origin := .remote, path := str "/x", auth := some (str "ab:cd") }).2.verdict = .invalidToken := by decide
example : RecentlyValidated (witnessPre ++ [.delete (str "ab"), .advance 300]) (str "ab") (str "cd") :=
  ⟨[.create (str "ab") (str "cd")], _, [.delete (str "ab"), .advance 300], rfl, by decide, by decide, by decide⟩

end BytomModel.Props.C36
