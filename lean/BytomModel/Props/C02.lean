import BytomModel.Model.Spend
namespace BytomModel.Props.C02
theorem placeholder : True := trivial
end BytomModel.Props.C02
