/-
C02 — Outputs locked by standard programs are spendable only with a matching witness.

What is proved, for ALL keys, hashes, messages, witnesses and numbers of keys, about the VM model
(`Model/VM/*`, validated opcode by opcode against vm.Verify by C08 and, for whole spends through
validation.ValidateTx, by this property's own differential) run on the context
`NewTxVMContext` builds for a spend, a veto input or an issuance (`Model/Spend.lean`, `inputContext kind`:
every verdict theorem is for an arbitrary entry `kind`; `p2wpkh_veto_iff`, `p2wsh_multisig_veto_iff`,
`standard_verdict_same_for_all_kinds` spell the veto / issuance case out):

* `p2wpkh_verdict` / `p2wpkh_spend_iff` — `Verify` of the converted P2WPKH program
  `DUP HASH160 <h> EQUALVERIFY TXSIGHASH SWAP CHECKSIG` with arguments `args`: the exact error
  class for every `args`, and acceptance ⇔ `args = extra ++ [sig, pk]` with `hash160 pk = h`,
  `|pk| = 32`, `verify pk sigHash sig`.
* `checkmultisig_exec` — CHECKMULTISIG on ANY stack computes `cmsSpec` (result or error class);
  `checkmultisig_iff` — on `n m keys msg sigs` it pushes true ⇔ every key has 32 bytes and the
  signatures embed, in order, into the keys (for ALL `n`); `checkmultisig_m_gt_n`,
  `checkmultisig_m_zero`, `checkmultisig_bad_message`, `checkmultisig_wrong_length_key`.
* `p2wsh_spend_verdict` — P2SH program with ANY redeem script whose child run is known;
  `p2wsh_multisig_verdict` / `p2wsh_multisig_spend_iff` — redeem script
  `TXSIGHASH <pk…> m n CHECKMULTISIG` with any number of keys.
* `witness_only_matters_through_sighash_*` — the verdict depends on the transaction only through
  the signature hash (and on the program / arguments).
* `sigHash_commits`, `mutation_invalidates_*` — a change of any committed content changes the
  signature hash (or exhibits a collision of the hash function: reduction to C03's
  `txid_injective`), and then the same witness is rejected — under the explicit hypothesis that a
  signature is valid for one message only.

`verify`, `hash160` (RIPEMD-160) and `sha3` are PARAMETERS (`Spend.Crypto`). What is assumed about
them is a hypothesis of the theorem that uses it: digest lengths (`HashLens`), no second preimage
of the committed script hash (`p2wsh_multisig_*`), signatures bound to one message
(`mutation_invalidates_*`). Nothing is an axiom.

NOT as DESIGN.md stated it: extra witness items BELOW the consumed ones are accepted by the real
code (`args = extra ++ [sig, pk]`, not `args = [sig, pk]`): the programs never inspect the rest
of the stack. The harness confirms this on the implementation (`A/extrabottom`, `A/sigdup.0.below`).
-/
import BytomModel.Model.Spend
import BytomModel.Lemmas.SpendP2PKH
import BytomModel.Lemmas.SpendMultisig
import BytomModel.Lemmas.Multisig
import BytomModel.Props.C03

namespace BytomModel.Props.C02
open BytomModel.VM BytomModel.Spend BytomModel.Lemmas.SpendExec BytomModel.Lemmas.Multisig

/-- digest lengths of the two hash functions the standard programs use -/
structure HashLens (cr : Crypto) : Prop where
  ripemd : ∀ x, (cr.ripemd160 x).length = 20
  sha3 : ∀ x, (cr.sha3 x).length = 32

/-! ### P2WPKH -/

/-- **exact verdict** of a spend of a P2WPKH output, for every witness -/
theorem p2wpkh_verdict (cr : Crypto) (hl : HashLens cr) (co : Option CheckOutputFn) (kind : EntryKind) (txVersion blockHeight : Nat)
    (h sigHash : Bytes) (hh : h.length = 20) (hsl : sigHash.length = 32) (s : SpendInfo)
    (hcode : s.code = p2pkhCode h) (hv : s.vmVersion = 1) (G : Int)
    (hg : stackCost List.length s.stateData + 2 * stackCost List.length s.args + 1500 ≤ G)
    (fuel : Nat) (hfuel : 8 ≤ fuel) :
    ∃ r, verifyInput cr co fuel kind txVersion blockHeight sigHash s G = some r ∧
      r.err = p2pkhSpec cr.ripemd160 cr.verify h sigHash s.args :=
  p2pkh_verify h hh (inputContext cr co kind txVersion blockHeight sigHash s) sigHash hcode hv rfl hsl hl.ripemd G hg fuel hfuel

/-- the accepting witnesses of the P2PKH signature program -/
theorem p2pkhSpec_none_iff (hash160 : Bytes → Bytes) (verify : Bytes → Bytes → Bytes → Bool) (h sigHash : Bytes)
    (args : List Bytes) :
    p2pkhSpec hash160 verify h sigHash args = none ↔
      ∃ extra sg pk, args = extra ++ [sg, pk] ∧ hash160 pk = h ∧ pk.length = 32 ∧ verify pk sigHash sg = true := by
  unfold p2pkhSpec
  constructor
  · intro hnone
    cases hr : args.reverse with
    | nil => rw [hr] at hnone; simp at hnone
    | cons pk r =>
      rw [hr] at hnone
      simp only [] at hnone
      by_cases hh : hash160 pk = h
      · simp only [hh, ne_eq, not_true_eq_false, if_false] at hnone
        cases r with
        | nil => simp at hnone
        | cons sg r' =>
          simp only [] at hnone
          by_cases hc : pk.length = 32 ∧ verify pk sigHash sg = true
          · refine ⟨r'.reverse, sg, pk, ?_, hh, hc.1, hc.2⟩
            have := congrArg List.reverse hr
            simpa using this
          · simp [hc] at hnone
      · simp [hh] at hnone
  · rintro ⟨extra, sg, pk, rfl, hh, hp, hv⟩
    simp [hh, hp, hv]

/-- **P2WPKH spend**: accepted ⇔ the witness ends with a signature and the public key whose
    hash is committed, and the signature verifies for this transaction's signature hash -/
theorem p2wpkh_spend_iff (cr : Crypto) (hl : HashLens cr) (co : Option CheckOutputFn) (kind : EntryKind) (txVersion blockHeight : Nat)
    (h sigHash : Bytes) (hh : h.length = 20) (hsl : sigHash.length = 32) (s : SpendInfo)
    (hcode : s.code = p2pkhCode h) (hv : s.vmVersion = 1) (G : Int)
    (hg : stackCost List.length s.stateData + 2 * stackCost List.length s.args + 1500 ≤ G)
    (fuel : Nat) (hfuel : 8 ≤ fuel) :
    ∃ r, verifyInput cr co fuel kind txVersion blockHeight sigHash s G = some r ∧
      (r.err = none ↔ ∃ extra sg pk, s.args = extra ++ [sg, pk] ∧ cr.ripemd160 pk = h ∧ pk.length = 32 ∧
        cr.verify pk sigHash sg = true) := by
  obtain ⟨r, hr, he⟩ := p2wpkh_verdict cr hl co kind txVersion blockHeight h sigHash hh hsl s hcode hv G hg fuel hfuel
  exact ⟨r, hr, by rw [he]; exact p2pkhSpec_none_iff _ _ _ _ _⟩

/-- the failure classes, spelled out -/
theorem p2wpkh_failure_classes (hash160 : Bytes → Bytes) (verify : Bytes → Bytes → Bytes → Bool) (h sigHash : Bytes) :
    p2pkhSpec hash160 verify h sigHash [] = some .dataStackUnderflow ∧
    (∀ extra pk, hash160 pk ≠ h → p2pkhSpec hash160 verify h sigHash (extra ++ [pk]) = some .verifyFailed) ∧
    (∀ pk, hash160 pk = h → p2pkhSpec hash160 verify h sigHash [pk] = some .dataStackUnderflow) ∧
    (∀ extra sg pk, hash160 pk = h → ¬ (pk.length = 32 ∧ verify pk sigHash sg = true) →
      p2pkhSpec hash160 verify h sigHash (extra ++ [sg, pk]) = some .falseVMResult) := by
  refine ⟨rfl, ?_, ?_, ?_⟩
  · intro extra pk hne
    simp [p2pkhSpec, hne]
  · intro pk he
    simp [p2pkhSpec, he]
  · intro extra sg pk he hc
    simp only [p2pkhSpec, List.reverse_append, List.reverse_cons, List.reverse_nil, List.nil_append, List.cons_append,
      he, ne_eq, not_true_eq_false, if_false]
    simp [hc]

/-! ### CHECKMULTISIG -/

/-- **CHECKMULTISIG is `cmsSpec`** on every data stack: same result, same error class, given
    gas for the key count it reads -/
theorem checkmultisig_exec (ctx : Context Bytes) (P : Bytes) (pc np : Nat) (rl : Int) (alt : List Bytes) (d : Nat) (e : Bool)
    (data : List Bytes) (hg : (cmsKeys data : Int) * 1024 ≤ rl) :
    match cmsSpec ctx.verifySig data with
    | .ok (b, rest) =>
      opCheckMultiSig valueMem ctx (⟨(), ⟨P, pc, np, rl, 0, data, alt, d, e⟩⟩ : VS) =
        .ok () ⟨(), ⟨P, pc, np, rl - (cmsKeys data : Int) * 1024,
          0 - (stackCost List.length data - stackCost List.length rest) + (8 + (boolBytes b).length),
          boolBytes b :: rest, alt, d, e⟩⟩
    | .error er => ∃ s', opCheckMultiSig valueMem ctx (⟨(), ⟨P, pc, np, rl, 0, data, alt, d, e⟩⟩ : VS) = .err er s' :=
  checkmultisig_run ctx P pc np rl alt d e data hg

/-- the shape of the stack CHECKMULTISIG expects: counts, keys and signatures in the order they
    were pushed (script order / witness order), i.e. reversed on the stack -/
def cmsStack (nB mB : Bytes) (keys : List Bytes) (msg : Bytes) (sigs rest : List Bytes) : List Bytes :=
  nB :: mB :: (keys.reverse ++ msg :: (sigs.reverse ++ rest))

theorem cmsSpec_wellformed (verify : Bytes → Bytes → Bytes → Bool) (nB mB : Bytes) (keys : List Bytes) (msg : Bytes)
    (sigs rest : List Bytes) (hn : asBigInt nB = .ok keys.length) (hm : asBigInt mB = .ok sigs.length)
    (hnb : keys.length < 2 ^ 50) (hmn : sigs.length ≤ keys.length) (hm0 : 0 < keys.length → 0 < sigs.length)
    (hmsg : msg.length = 32) :
    cmsSpec verify (cmsStack nB mB keys msg sigs rest) =
      .ok (if keys.reverse.any (fun p => p.length != 32) then false
           else matchSigs (fun p s => verify p msg s) sigs.reverse keys.reverse, rest) := by
  have a1 : ¬ keys.length ≥ two63 := by unfold two63; omega
  have a2 : ¬ (keys.length : Int) * 1024 > maxInt64 := by unfold maxInt64; omega
  have a3 : ¬ sigs.length ≥ two63 := by unfold two63; omega
  have a4 : ¬ (sigs.length > keys.length ∨ (keys.length > 0 ∧ sigs.length = 0)) := by omega
  have hdrop : (keys.reverse ++ msg :: (sigs.reverse ++ rest)).drop keys.length = msg :: (sigs.reverse ++ rest) := by
    rw [List.drop_left' (by simp)]
  have htake : (keys.reverse ++ msg :: (sigs.reverse ++ rest)).take keys.length = keys.reverse := by
    rw [List.take_left' (by simp)]
  have hl : ¬ (keys.reverse ++ msg :: (sigs.reverse ++ rest)).length < keys.length := by simp
  have hl2 : ¬ (sigs.reverse ++ rest).length < sigs.length := by simp
  have ht2 : (sigs.reverse ++ rest).take sigs.length = sigs.reverse := by rw [List.take_left' (by simp)]
  have hd2 : (sigs.reverse ++ rest).drop sigs.length = rest := by rw [List.drop_left' (by simp)]
  simp only [cmsStack, cmsSpec, hn, a1, a2, if_false, cmsSpec1, hm, a3, a4, cmsSpec2, hl, hdrop, hmsg, ne_eq,
    not_true_eq_false, hl2, htake, ht2, hd2]

/-- **the greedy loop**: with `n` keys and `m` signatures on the stack, CHECKMULTISIG pushes true
    ⇔ every key has 32 bytes and there is an order-preserving injection of the signatures into
    the keys with `verify` true on every pair — for ALL `n` -/
theorem checkmultisig_iff (verify : Bytes → Bytes → Bytes → Bool) (nB mB : Bytes) (keys : List Bytes) (msg : Bytes)
    (sigs rest : List Bytes) (hn : asBigInt nB = .ok keys.length) (hm : asBigInt mB = .ok sigs.length)
    (hnb : keys.length < 2 ^ 50) (hmn : sigs.length ≤ keys.length) (hm0 : 0 < keys.length → 0 < sigs.length)
    (hmsg : msg.length = 32) :
    ∃ b, cmsSpec verify (cmsStack nB mB keys msg sigs rest) = .ok (b, rest) ∧
      (b = true ↔ (∀ k ∈ keys, k.length = 32) ∧ Embeds (fun p s => verify p msg s) sigs keys) := by
  refine ⟨_, cmsSpec_wellformed verify nB mB keys msg sigs rest hn hm hnb hmn hm0 hmsg, ?_⟩
  by_cases hk : keys.reverse.any (fun p => p.length != 32) = true
  · simp only [hk, if_true, Bool.false_eq_true, false_iff, not_and]
    intro hall
    exfalso
    rw [List.any_eq_true] at hk
    obtain ⟨x, hx, hx2⟩ := hk
    have := hall x (by simpa using hx)
    simp [this] at hx2
  · simp only [hk, if_false, Bool.false_eq_true]
    rw [matchSigs_iff, embeds_reverse]
    constructor
    · intro he
      refine ⟨?_, he⟩
      intro k hkm
      by_contra hne
      apply hk
      rw [List.any_eq_true]
      exact ⟨k, by simpa using hkm, by simpa using hne⟩
    · exact fun h => h.2

/-- a key of the wrong length makes CHECKMULTISIG push false, whatever the signatures are -/
theorem checkmultisig_wrong_length_key (verify : Bytes → Bytes → Bytes → Bool) (nB mB : Bytes) (keys : List Bytes)
    (msg : Bytes) (sigs rest : List Bytes) (hn : asBigInt nB = .ok keys.length) (hm : asBigInt mB = .ok sigs.length)
    (hnb : keys.length < 2 ^ 50) (hmn : sigs.length ≤ keys.length) (hm0 : 0 < keys.length → 0 < sigs.length)
    (hmsg : msg.length = 32) (k : Bytes) (hk : k ∈ keys) (hk32 : k.length ≠ 32) :
    cmsSpec verify (cmsStack nB mB keys msg sigs rest) = .ok (false, rest) := by
  obtain ⟨b, hb, hiff⟩ := checkmultisig_iff verify nB mB keys msg sigs rest hn hm hnb hmn hm0 hmsg
  cases b with
  | false => exact hb
  | true => exact absurd ((hiff.mp rfl).1 k hk) hk32

/-- more signatures than keys: ErrBadValue -/
theorem checkmultisig_m_gt_n (verify : Bytes → Bytes → Bytes → Bool) (nB mB : Bytes) (r : List Bytes) (n m : Nat)
    (hn : asBigInt nB = .ok n) (hm : asBigInt mB = .ok m) (hnb : n < 2 ^ 50) (hmb : m < two63) (hgt : m > n) :
    cmsSpec verify (nB :: mB :: r) = .error .badValue := by
  have a1 : ¬ n ≥ two63 := by unfold two63; omega
  have a2 : ¬ (n : Int) * 1024 > maxInt64 := by unfold maxInt64; omega
  have a3 : ¬ m ≥ two63 := by omega
  simp [cmsSpec, hn, a1, a2, cmsSpec1, hm, a3, hgt]

/-- no signature required although there are keys: ErrBadValue -/
theorem checkmultisig_m_zero (verify : Bytes → Bytes → Bytes → Bool) (nB mB : Bytes) (r : List Bytes) (n : Nat)
    (hn : asBigInt nB = .ok n) (hm : asBigInt mB = .ok 0) (hnb : n < 2 ^ 50) (hpos : 0 < n) :
    cmsSpec verify (nB :: mB :: r) = .error .badValue := by
  have a1 : ¬ n ≥ two63 := by unfold two63; omega
  have a2 : ¬ (n : Int) * 1024 > maxInt64 := by unfold maxInt64; omega
  have a3 : ¬ (0 : Nat) ≥ two63 := by unfold two63; omega
  have a4 : (0 > n ∨ (n > 0 ∧ (0 : Nat) = 0)) := Or.inr ⟨hpos, rfl⟩
  simp [cmsSpec, hn, a1, a2, cmsSpec1, hm, a3, hpos]

/-- a message that is not 32 bytes long: ErrBadValue -/
theorem checkmultisig_bad_message (verify : Bytes → Bytes → Bytes → Bool) (nB mB : Bytes) (keys : List Bytes) (msg : Bytes)
    (sigs rest : List Bytes) (hn : asBigInt nB = .ok keys.length) (hm : asBigInt mB = .ok sigs.length)
    (hnb : keys.length < 2 ^ 50) (hmn : sigs.length ≤ keys.length) (hm0 : 0 < keys.length → 0 < sigs.length)
    (hmsg : msg.length ≠ 32) :
    cmsSpec verify (cmsStack nB mB keys msg sigs rest) = .error .badValue := by
  have a1 : ¬ keys.length ≥ two63 := by unfold two63; omega
  have a2 : ¬ (keys.length : Int) * 1024 > maxInt64 := by unfold maxInt64; omega
  have a3 : ¬ sigs.length ≥ two63 := by unfold two63; omega
  have a4 : ¬ (sigs.length > keys.length ∨ (keys.length > 0 ∧ sigs.length = 0)) := by omega
  have hdrop : (keys.reverse ++ msg :: (sigs.reverse ++ rest)).drop keys.length = msg :: (sigs.reverse ++ rest) := by
    rw [List.drop_left' (by simp)]
  have hl : ¬ (keys.reverse ++ msg :: (sigs.reverse ++ rest)).length < keys.length := by simp
  simp only [cmsStack, cmsSpec, hn, a1, a2, if_false, cmsSpec1, hm, a3, a4, cmsSpec2, hl, hdrop, hmsg, ne_eq,
    not_false_eq_true, if_true]

/-! ### P2WSH -/

/-- **P2SH program with any redeem script**: exact verdict, given what the script's own run
    (as the CHECKPREDICATE child, on the remaining witness items) yields -/
theorem p2wsh_spend_verdict (cr : Crypto) (hl : HashLens cr) (co : Option CheckOutputFn) (kind : EntryKind) (txVersion blockHeight : Nat)
    (h sigHash : Bytes) (hh : h.length = 32) (s : SpendInfo) (hcode : s.code = p2shCode h) (hv : s.vmVersion = 1)
    (G : Int) (K : Nat) (childOk : Bytes → List Bytes → Bool)
    (hchild : ∀ script rest L, s.args.reverse = script :: rest → cr.sha3 script = h →
      G - stackCost List.length s.stateData - 3 * stackCost List.length s.args - 800 ≤ L → 0 ≤ L →
      ∃ k g f' er, k ≤ K ∧
        FSteps (inputContext cr co kind txVersion blockHeight sigHash s) k ⟨script, 0, 0, L, 0, rest, [], 1, false⟩ g ∧
        FFinal (inputContext cr co kind txVersion blockHeight sigHash s) g f' er ∧
        (er.isNone && !falseResult valueMem () f') = childOk script rest)
    (hg : stackCost List.length s.stateData + 3 * stackCost List.length s.args + 800 ≤ G)
    (fuel : Nat) (hfuel : K + 12 ≤ fuel) :
    ∃ r, verifyInput cr co fuel kind txVersion blockHeight sigHash s G = some r ∧
      r.err = p2shSpec cr.sha3 h childOk s.args :=
  p2sh_verify h hh (inputContext cr co kind txVersion blockHeight sigHash s) hcode hv hl.sha3 G K childOk hchild hg fuel hfuel

theorem keyPushes_length (keys : List Bytes) (hk : ∀ k ∈ keys, k.length = 32) : (keyPushes keys).length = 33 * keys.length := by
  induction keys with
  | nil => rfl
  | cons k ks ih =>
    have h1 := hk k (by simp)
    have h2 := ih (fun x hx => hk x (by simp [hx]))
    simp only [keyPushes, List.map_cons, List.flatten_cons, List.length_append, List.length_cons] at h2 ⊢
    rw [h2, h1]
    omega

theorem numPush_length (N : Nat) : (numPush N).length ≤ 33 := by
  unfold numPush
  split
  · simp
  · split
    · simp
    · have := bigIntBytes_length_le N
      simp only [List.length_cons]
      omega

theorem msCode_length (keys : List Bytes) (m : Nat) (hk : ∀ k ∈ keys, k.length = 32) (hn : keys.length < 2 ^ 24) :
    (msCode keys m).length ≤ maxInt32 := by
  have h1 := keyPushes_length keys hk
  have h2 := numPush_length m
  have h3 := numPush_length keys.length
  simp only [msCode, List.length_append, List.length_cons, List.length_nil]
  unfold maxInt32
  omega

/-- **P2WSH of the multisig script**: exact verdict for every witness. The committed hash is the
    hash of `TXSIGHASH <keys…> m n CHECKMULTISIG`; `hpre` says the witness cannot present another
    script with the same hash (an assumption about SHA3, visible here). -/
theorem p2wsh_multisig_verdict (cr : Crypto) (hl : HashLens cr) (co : Option CheckOutputFn) (kind : EntryKind) (txVersion blockHeight : Nat)
    (keys : List Bytes) (m : Nat) (sigHash : Bytes) (hk : ∀ k ∈ keys, k.length = 32) (hn : keys.length < 2 ^ 24)
    (hm : m < two63) (hsl : sigHash.length = 32)
    (hpre : ∀ x, cr.sha3 x = cr.sha3 (msCode keys m) → x = msCode keys m)
    (s : SpendInfo) (hcode : s.code = p2shCode (cr.sha3 (msCode keys m))) (hv : s.vmVersion = 1) (G : Int)
    (hg : stackCost List.length s.stateData + 3 * stackCost List.length s.args + 1100 * (keys.length : Int) + 1300 ≤ G)
    (fuel : Nat) (hfuel : keys.length + 16 ≤ fuel) :
    ∃ r, verifyInput cr co fuel kind txVersion blockHeight sigHash s G = some r ∧
      r.err = p2shSpec cr.sha3 (cr.sha3 (msCode keys m)) (fun _ rest => msOk cr.verify keys m sigHash rest) s.args := by
  have hlen := msCode_length keys m hk hn
  apply p2wsh_spend_verdict cr hl co kind txVersion blockHeight _ sigHash (hl.sha3 _) s hcode hv G (keys.length + 4)
  · intro script rest L _ hsha hL _
    have hscript := hpre script hsha
    subst hscript
    exact ms_frame (inputContext cr co kind txVersion blockHeight sigHash s) keys m sigHash hk rfl hsl
      (by omega) hm hlen rest 0 L 0 [] 1 false (by omega)
  · have := stackCost_nonneg s.args
    omega
  · omega

/-- the accepting witnesses of the multisig script -/
theorem msOk_iff (verify : Bytes → Bytes → Bytes → Bool) (keys : List Bytes) (m : Nat) (sigHash : Bytes) (stack : List Bytes)
    (hk : ∀ k ∈ keys, k.length = 32) (hsl : sigHash.length = 32) (hn : keys.length < 2 ^ 50) (hm : m < two63) :
    msOk verify keys m sigHash stack = true ↔
      ∃ extra sigs : List Bytes, stack = sigs.reverse ++ extra.reverse ∧ sigs.length = m ∧ m ≤ keys.length ∧
        (0 < keys.length → 0 < m) ∧ Embeds (fun p s => verify p sigHash s) sigs keys := by
  rw [msOk_eq verify keys m sigHash stack hk hsl hn hm]
  simp only [Bool.and_eq_true, decide_eq_true_eq]
  constructor
  · rintro ⟨⟨h1, h2, h3⟩, hmatch⟩
    refine ⟨(stack.drop m).reverse, (stack.take m).reverse, by simp, by simp [h3], h1, h2, ?_⟩
    rw [matchSigs_iff] at hmatch
    rw [← embeds_reverse]
    simpa using hmatch
  · rintro ⟨extra, sigs, rfl, hlen, h1, h2, hemb⟩
    refine ⟨⟨h1, h2, by simp; omega⟩, ?_⟩
    rw [← hlen, List.take_left' (by simp), matchSigs_iff, embeds_reverse]
    exact hemb

/-- **P2WSH-multisig spend**: accepted ⇔ the witness is `extra ++ sigs ++ [script]` with the
    committed script, exactly `m` signatures (`1 ≤ m ≤ n` unless `n = 0`), which embed in order
    into the committed keys, each verifying for this transaction's signature hash -/
theorem p2wsh_multisig_spend_iff (cr : Crypto) (hl : HashLens cr) (co : Option CheckOutputFn) (kind : EntryKind) (txVersion blockHeight : Nat)
    (keys : List Bytes) (m : Nat) (sigHash : Bytes) (hk : ∀ k ∈ keys, k.length = 32) (hn : keys.length < 2 ^ 24)
    (hm : m < two63) (hsl : sigHash.length = 32)
    (hpre : ∀ x, cr.sha3 x = cr.sha3 (msCode keys m) → x = msCode keys m)
    (s : SpendInfo) (hcode : s.code = p2shCode (cr.sha3 (msCode keys m))) (hv : s.vmVersion = 1) (G : Int)
    (hg : stackCost List.length s.stateData + 3 * stackCost List.length s.args + 1100 * (keys.length : Int) + 1300 ≤ G)
    (fuel : Nat) (hfuel : keys.length + 16 ≤ fuel) :
    ∃ r, verifyInput cr co fuel kind txVersion blockHeight sigHash s G = some r ∧
      (r.err = none ↔ ∃ extra sigs : List Bytes, s.args = extra ++ sigs ++ [msCode keys m] ∧ sigs.length = m ∧ m ≤ keys.length ∧
        (0 < keys.length → 0 < m) ∧ Embeds (fun p sg => cr.verify p sigHash sg) sigs keys) := by
  obtain ⟨r, hr, he⟩ := p2wsh_multisig_verdict cr hl co kind txVersion blockHeight keys m sigHash hk hn hm hsl hpre s hcode hv G hg
    fuel hfuel
  refine ⟨r, hr, ?_⟩
  rw [he]
  unfold p2shSpec
  constructor
  · intro hnone
    cases hrev : s.args.reverse with
    | nil => rw [hrev] at hnone; simp at hnone
    | cons script rest =>
      rw [hrev] at hnone
      simp only [] at hnone
      by_cases hsha : cr.sha3 script = cr.sha3 (msCode keys m)
      · simp only [hsha, ne_eq, not_true_eq_false, if_false] at hnone
        by_cases hok : msOk cr.verify keys m sigHash rest = true
        · obtain ⟨extra, sigs, hst, h1, h2, h3, h4⟩ := (msOk_iff cr.verify keys m sigHash rest hk hsl (by omega) hm).mp hok
          refine ⟨extra, sigs, ?_, h1, h2, h3, h4⟩
          have := congrArg List.reverse hrev
          rw [List.reverse_reverse, hst, hpre script hsha] at this
          simpa using this
        · simp [hok] at hnone
      · simp [hsha] at hnone
  · rintro ⟨extra, sigs, hargs, h1, h2, h3, h4⟩
    have hok := (msOk_iff cr.verify keys m sigHash (sigs.reverse ++ extra.reverse) hk hsl (by omega) hm).mpr
      ⟨extra, sigs, rfl, h1, h2, h3, h4⟩
    rw [hargs]
    simp [hok]

/-! ### the verdict depends on the transaction only through the signature hash -/

/-- two spends of P2WPKH outputs with the same committed hash, the same witness and the same
    signature hash get the same verdict — whatever the entry kinds (spend / veto / issuance), the
    rest of the two transactions, the entry ids, amounts, positions, block height, tx version and CheckOutput callback are -/
theorem witness_only_matters_through_sighash_p2wpkh (cr : Crypto) (hl : HashLens cr) (co co' : Option CheckOutputFn)
    (kind kind' : EntryKind) (txv txv' bh bh' : Nat) (h sigHash : Bytes) (hh : h.length = 20) (hsl : sigHash.length = 32) (s s' : SpendInfo)
    (hcode : s.code = p2pkhCode h) (hcode' : s'.code = p2pkhCode h) (hv : s.vmVersion = 1) (hv' : s'.vmVersion = 1)
    (hargs : s.args = s'.args) (G G' : Int)
    (hg : stackCost List.length s.stateData + 2 * stackCost List.length s.args + 1500 ≤ G)
    (hg' : stackCost List.length s'.stateData + 2 * stackCost List.length s'.args + 1500 ≤ G')
    (fuel fuel' : Nat) (hfuel : 8 ≤ fuel) (hfuel' : 8 ≤ fuel') :
    ∃ r r', verifyInput cr co fuel kind txv bh sigHash s G = some r ∧ verifyInput cr co' fuel' kind' txv' bh' sigHash s' G' = some r' ∧
      r.err = r'.err := by
  obtain ⟨r, hr, he⟩ := p2wpkh_verdict cr hl co kind txv bh h sigHash hh hsl s hcode hv G hg fuel hfuel
  obtain ⟨r', hr', he'⟩ := p2wpkh_verdict cr hl co' kind' txv' bh' h sigHash hh hsl s' hcode' hv' G' hg' fuel' hfuel'
  exact ⟨r, r', hr, hr', by rw [he, he', hargs]⟩

/-- the same for P2WSH-multisig spends -/
theorem witness_only_matters_through_sighash_multisig (cr : Crypto) (hl : HashLens cr) (co co' : Option CheckOutputFn)
    (kind kind' : EntryKind) (txv txv' bh bh' : Nat) (keys : List Bytes) (m : Nat) (sigHash : Bytes) (hk : ∀ k ∈ keys, k.length = 32)
    (hn : keys.length < 2 ^ 24) (hm : m < two63) (hsl : sigHash.length = 32)
    (hpre : ∀ x, cr.sha3 x = cr.sha3 (msCode keys m) → x = msCode keys m) (s s' : SpendInfo)
    (hcode : s.code = p2shCode (cr.sha3 (msCode keys m))) (hcode' : s'.code = p2shCode (cr.sha3 (msCode keys m)))
    (hv : s.vmVersion = 1) (hv' : s'.vmVersion = 1) (hargs : s.args = s'.args) (G G' : Int)
    (hg : stackCost List.length s.stateData + 3 * stackCost List.length s.args + 1100 * (keys.length : Int) + 1300 ≤ G)
    (hg' : stackCost List.length s'.stateData + 3 * stackCost List.length s'.args + 1100 * (keys.length : Int) + 1300 ≤ G')
    (fuel fuel' : Nat) (hfuel : keys.length + 16 ≤ fuel) (hfuel' : keys.length + 16 ≤ fuel') :
    ∃ r r', verifyInput cr co fuel kind txv bh sigHash s G = some r ∧ verifyInput cr co' fuel' kind' txv' bh' sigHash s' G' = some r' ∧
      r.err = r'.err := by
  obtain ⟨r, hr, he⟩ := p2wsh_multisig_verdict cr hl co kind txv bh keys m sigHash hk hn hm hsl hpre s hcode hv G hg fuel hfuel
  obtain ⟨r', hr', he'⟩ := p2wsh_multisig_verdict cr hl co' kind' txv' bh' keys m sigHash hk hn hm hsl hpre s' hcode' hv' G' hg'
    fuel' hfuel'
  exact ⟨r, r', hr, hr', by rw [he, he', hargs]⟩

/-! ### veto inputs and issuances run the same converted program -/

/-- a VETO of a P2WPKH-locked vote output needs exactly the witness a spend needs -/
theorem p2wpkh_veto_iff (cr : Crypto) (hl : HashLens cr) (co : Option CheckOutputFn) (txVersion blockHeight : Nat)
    (h sigHash : Bytes) (hh : h.length = 20) (hsl : sigHash.length = 32) (s : SpendInfo)
    (hcode : s.code = p2pkhCode h) (hv : s.vmVersion = 1) (G : Int)
    (hg : stackCost List.length s.stateData + 2 * stackCost List.length s.args + 1500 ≤ G)
    (fuel : Nat) (hfuel : 8 ≤ fuel) :
    ∃ r, verifyInput cr co fuel .veto txVersion blockHeight sigHash s G = some r ∧
      (r.err = none ↔ ∃ extra sg pk, s.args = extra ++ [sg, pk] ∧ cr.ripemd160 pk = h ∧ pk.length = 32 ∧
        cr.verify pk sigHash sg = true) :=
  p2wpkh_spend_iff cr hl co .veto txVersion blockHeight h sigHash hh hsl s hcode hv G hg fuel hfuel

/-- a VETO of a P2WSH-multisig-locked vote output needs exactly the witness a spend needs -/
theorem p2wsh_multisig_veto_iff (cr : Crypto) (hl : HashLens cr) (co : Option CheckOutputFn) (txVersion blockHeight : Nat)
    (keys : List Bytes) (m : Nat) (sigHash : Bytes) (hk : ∀ k ∈ keys, k.length = 32) (hn : keys.length < 2 ^ 24)
    (hm : m < two63) (hsl : sigHash.length = 32)
    (hpre : ∀ x, cr.sha3 x = cr.sha3 (msCode keys m) → x = msCode keys m)
    (s : SpendInfo) (hcode : s.code = p2shCode (cr.sha3 (msCode keys m))) (hv : s.vmVersion = 1) (G : Int)
    (hg : stackCost List.length s.stateData + 3 * stackCost List.length s.args + 1100 * (keys.length : Int) + 1300 ≤ G)
    (fuel : Nat) (hfuel : keys.length + 16 ≤ fuel) :
    ∃ r, verifyInput cr co fuel .veto txVersion blockHeight sigHash s G = some r ∧
      (r.err = none ↔ ∃ extra sigs : List Bytes, s.args = extra ++ sigs ++ [msCode keys m] ∧ sigs.length = m ∧
        m ≤ keys.length ∧ (0 < keys.length → 0 < m) ∧ Embeds (fun p sg => cr.verify p sigHash sg) sigs keys) :=
  p2wsh_multisig_spend_iff cr hl co .veto txVersion blockHeight keys m sigHash hk hn hm hsl hpre s hcode hv G hg fuel hfuel

/-- for the standard programs the entry kind does not matter at all: a veto input or an issuance
    with the same (converted) program, witness and signature hash gets the verdict of the spend -/
theorem standard_verdict_same_for_all_kinds (cr : Crypto) (hl : HashLens cr) (co : Option CheckOutputFn) (kind : EntryKind)
    (txVersion blockHeight : Nat) (h sigHash : Bytes) (hh : h.length = 20) (hsl : sigHash.length = 32) (s : SpendInfo)
    (hcode : s.code = p2pkhCode h) (hv : s.vmVersion = 1) (G : Int)
    (hg : stackCost List.length s.stateData + 2 * stackCost List.length s.args + 1500 ≤ G)
    (fuel : Nat) (hfuel : 8 ≤ fuel) :
    ∃ r r', verifyInput cr co fuel kind txVersion blockHeight sigHash s G = some r ∧
      verifySpend cr co fuel txVersion blockHeight sigHash s G = some r' ∧ r.err = r'.err :=
  witness_only_matters_through_sighash_p2wpkh cr hl co co kind .spend txVersion txVersion blockHeight blockHeight h sigHash
    hh hsl s s hcode hcode hv hv rfl G G hg hg fuel fuel hfuel hfuel

/-! ### a change of committed content invalidates the witness -/

open BytomModel.Props.C03 in
/-- the signature hash `H(inputID ‖ txID)` determines both ids, or a collision of `H` is at hand -/
theorem sigHash_commits (H : Bytes → Bytes) (ida idb ta tb : Bytes) (hl : ida.length = idb.length)
    (h : Entry.sigHash H ida ta = Entry.sigHash H idb tb) : (ida = idb ∧ ta = tb) ∨ Collision H := by
  unfold Entry.sigHash at h
  by_cases he : ida ++ ta = idb ++ tb
  · exact Or.inl (List.append_inj he hl)
  · exact Or.inr ⟨_, _, he, h⟩

/-- P2WPKH: a witness accepted for one signature hash is rejected for every other one, if a
    signature verifies for at most one message under a given key (assumption about Ed25519) -/
theorem mutation_invalidates_p2wpkh (hash160 : Bytes → Bytes) (verify : Bytes → Bytes → Bytes → Bool)
    (hone : ∀ pk m m' sg, verify pk m sg = true → verify pk m' sg = true → m = m')
    (h sh sh' : Bytes) (args : List Bytes) (hne : sh ≠ sh')
    (hacc : p2pkhSpec hash160 verify h sh args = none) : p2pkhSpec hash160 verify h sh' args ≠ none := by
  intro hacc'
  obtain ⟨extra, sg, pk, ha, _, _, hv⟩ := (p2pkhSpec_none_iff _ _ _ _ _).mp hacc
  obtain ⟨extra', sg', pk', ha', _, _, hv'⟩ := (p2pkhSpec_none_iff _ _ _ _ _).mp hacc'
  rw [ha] at ha'
  have := List.append_inj' ha' rfl
  obtain ⟨_, h2⟩ := this
  simp only [List.cons.injEq, and_true] at h2
  obtain ⟨rfl, rfl⟩ := h2
  exact hne (hone _ _ _ _ hv hv')

/-- multisig: the same, if a signature verifies for at most one message (under whatever key) -/
theorem mutation_invalidates_multisig (verify : Bytes → Bytes → Bytes → Bool)
    (hone : ∀ pk pk' m m' sg, verify pk m sg = true → verify pk' m' sg = true → m = m')
    (keys : List Bytes) (m : Nat) (sh sh' : Bytes) (stack : List Bytes) (hk : ∀ k ∈ keys, k.length = 32)
    (hsl : sh.length = 32) (hsl' : sh'.length = 32) (hn : keys.length < 2 ^ 50) (hm : m < two63) (hpos : 0 < m)
    (hne : sh ≠ sh') (hacc : msOk verify keys m sh stack = true) : msOk verify keys m sh' stack = false := by
  cases hacc' : msOk verify keys m sh' stack with
  | false => rfl
  | true =>
    exfalso
    obtain ⟨extra, sigs, hst, hlen, _, _, hemb⟩ := (msOk_iff verify keys m sh stack hk hsl hn hm).mp hacc
    obtain ⟨extra', sigs', hst', hlen', _, _, hemb'⟩ := (msOk_iff verify keys m sh' stack hk hsl' hn hm).mp hacc'
    rw [hst] at hst'
    have hs : sigs.reverse = sigs'.reverse := (List.append_inj hst' (by simp [hlen, hlen'])).1
    have hs' : sigs = sigs' := by simpa using congrArg List.reverse hs
    subst hs'
    obtain ⟨ks, _, hf⟩ := hemb
    obtain ⟨ks', _, hf'⟩ := hemb'
    cases hf with
    | nil => simp at hlen; omega
    | cons hv _ =>
      cases hf' with
      | cons hv' _ => exact hne (hone _ _ _ _ _ hv hv')

open BytomModel.Codec hiding Bytes in
open BytomModel.Entry BytomModel.Lemmas.Codec BytomModel.Lemmas.Entry BytomModel.Props.C03 in
/-- **mutation invalidates (P2WPKH)**: let a spend of a P2WPKH output be accepted in transaction
    `a` (input id `ida`). In any transaction `b` whose committed content differs (version, time
    range, some output's committed view, or — when there is an output — some input's commitment),
    or whose input is another one, the SAME witness is rejected — or a collision of the hash
    function `H` has been found (reduction to C03 `txid_injective`) -/
theorem mutation_invalidates (H : Bytes → Bytes) (h32 : Hash32 H) (a b : TxData) (wa : WFTxV a) (wb : WFTxV b)
    (ma mb : MappedTx) (ha : mapTx H a = some ma) (hb : mapTx H b = some mb) (ida idb : Bytes)
    (hl : ida.length = idb.length)
    (hdiff : ida ≠ idb ∨ ¬ (a.version = b.version ∧ a.timeRange = b.timeRange ∧
      a.outputs.map outView = b.outputs.map outView ∧
      (a.outputs ≠ [] → ∃ ta tb, typedInputs a.inputs = some ta ∧ typedInputs b.inputs = some tb ∧
        ta.map stripTyped = tb.map stripTyped)))
    (hash160 : Bytes → Bytes) (verify : Bytes → Bytes → Bytes → Bool)
    (hone : ∀ pk m m' sg, verify pk m sg = true → verify pk m' sg = true → m = m')
    (h : Bytes) (args : List Bytes)
    (hacc : p2pkhSpec hash160 verify h (Entry.sigHash H ida ma.id) args = none) :
    p2pkhSpec hash160 verify h (Entry.sigHash H idb mb.id) args ≠ none ∨ Collision H := by
  by_cases heq : Entry.sigHash H ida ma.id = Entry.sigHash H idb mb.id
  · rcases sigHash_commits H ida idb ma.id mb.id hl heq with ⟨hi, ht⟩ | hc
    · rcases txid_injective H h32 a b wa wb ma mb ha hb ht with hsame | hc
      · rcases hdiff with hd | hd
        · exact absurd hi hd
        · exact absurd hsame hd
      · exact Or.inr hc
    · exact Or.inr hc
  · exact Or.inl (mutation_invalidates_p2wpkh hash160 verify hone h _ _ args heq hacc)

open BytomModel.Codec hiding Bytes in
open BytomModel.Entry BytomModel.Lemmas.Codec BytomModel.Lemmas.Entry BytomModel.Props.C03 in
/-- **mutation invalidates (multisig)** -/
theorem mutation_invalidates_multisig_tx (H : Bytes → Bytes) (h32 : Hash32 H) (a b : TxData) (wa : WFTxV a) (wb : WFTxV b)
    (ma mb : MappedTx) (ha : mapTx H a = some ma) (hb : mapTx H b = some mb) (ida idb : Bytes)
    (hl : ida.length = idb.length)
    (hdiff : ida ≠ idb ∨ ¬ (a.version = b.version ∧ a.timeRange = b.timeRange ∧
      a.outputs.map outView = b.outputs.map outView ∧
      (a.outputs ≠ [] → ∃ ta tb, typedInputs a.inputs = some ta ∧ typedInputs b.inputs = some tb ∧
        ta.map stripTyped = tb.map stripTyped)))
    (verify : Bytes → Bytes → Bytes → Bool)
    (hone : ∀ pk pk' m m' sg, verify pk m sg = true → verify pk' m' sg = true → m = m')
    (keys : List Bytes) (m : Nat) (stack : List Bytes) (hk : ∀ k ∈ keys, k.length = 32) (hn : keys.length < 2 ^ 50)
    (hm : m < two63) (hpos : 0 < m)
    (hacc : msOk verify keys m (Entry.sigHash H ida ma.id) stack = true) :
    msOk verify keys m (Entry.sigHash H idb mb.id) stack = false ∨ Collision H := by
  by_cases heq : Entry.sigHash H ida ma.id = Entry.sigHash H idb mb.id
  · rcases sigHash_commits H ida idb ma.id mb.id hl heq with ⟨hi, ht⟩ | hc
    · rcases txid_injective H h32 a b wa wb ma mb ha hb ht with hsame | hc
      · rcases hdiff with hd | hd
        · exact absurd hi hd
        · exact absurd hsame hd
      · exact Or.inr hc
    · exact Or.inr hc
  · exact Or.inl (mutation_invalidates_multisig verify hone keys m _ _ stack hk (h32 _) (h32 _) hn hm hpos heq hacc)

/-! ### the hypotheses are satisfiable on non-trivial values (tests, not proofs of anything) -/

/-- a toy instantiation of the cryptography: digests of the right length, a "signature" is the
    message itself -/
def toy : Crypto where
  verify := fun _ msg sg => sg == msg
  sha256 := fun x => (x ++ List.replicate 32 0).take 32
  sha3 := fun x => (x ++ List.replicate 32 0).take 32
  ripemd160 := fun x => (x ++ List.replicate 20 0).take 20

example : HashLens toy := ⟨fun x => by simp [toy], fun x => by simp [toy]⟩

/-- the single-message hypotheses hold for the toy verifier and it accepts something -/
example : (∀ pk pk' m m' sg, toy.verify pk m sg = true → toy.verify pk' m' sg = true → m = m') ∧
    toy.verify [1] [2] [2] = true := by
  refine ⟨?_, by decide⟩
  intro pk pk' m m' sg h1 h2
  simp only [toy, beq_iff_eq] at h1 h2
  rw [← h1, ← h2]

def toyPk : Bytes := List.replicate 32 7
def toyMsg : Bytes := List.replicate 32 9
def toySpend : SpendInfo :=
  { vmVersion := 1, code := p2pkhCode (toy.ripemd160 toyPk), stateData := [], args := [toyMsg, toyPk],
    entryID := [], assetID := [], amount := 5, destPos := 0, spentOutputID := [] }

/-- `p2wpkh_spend_iff` applies to a concrete spend and says: accepted -/
example : ∃ r, verifySpend toy none 8 1 100 toyMsg toySpend 5000 = some r ∧ r.err = none := by
  obtain ⟨r, hr, hiff⟩ := p2wpkh_spend_iff toy ⟨fun x => by simp [toy], fun x => by simp [toy]⟩ none .spend 1 100
    (toy.ripemd160 toyPk) toyMsg (by simp [toy]) (by simp [toyMsg]) toySpend rfl rfl 5000 (by decide) 8 (by omega)
  exact ⟨r, hr, hiff.mpr ⟨[], toyMsg, toyPk, rfl, rfl, by simp [toyPk], by decide⟩⟩

/-- the same spend evaluated by the kernel on the VM model itself (a test of the model on one value) -/
example : (verifySpend toy none 8 1 100 toyMsg toySpend 5000).map (fun r => r.err) = some none := by decide +kernel

/-- the signatures of a 2-of-3 embed in order; in the wrong order they do not -/
example : Embeds (fun p s => s == p) [[1], [3]] [[1], [2], [3]] := ⟨[[1], [3]], by decide, by repeat constructor⟩
example : matchSigs (fun p s => s == p) [[3], [1]] [[1], [2], [3]] = false := by decide

end BytomModel.Props.C02
