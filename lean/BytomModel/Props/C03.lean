/-
C03 — Transaction and block identity commit to all consensus content.

The model (`Model/Entry.lean`) mirrors `EntryID`/`writeForHash`, `MapTx`, `mapBlockHeader`; its
ids are compared byte-for-byte with the real code on every check (executable SHA3-256).
`H` is the hash function. Collision resistance cannot be a hypothesis of the form
"`H` is injective" together with "digests are 32 bytes" (no such `H` exists), so every
commitment theorem is stated as the reduction it is: equal ids imply equal consensus content
**or** an explicit collision of `H` (`Collision H`); the only hypothesis on `H` is the digest
length, which SHA3-256 (and the trivial `H0`) satisfies.

The code AS IT IS does not commit to everything the property lists: a retirement output
commits only to asset and amount, and a transaction without outputs does not commit to its
inputs. `txid_commits_full` is refuted with both witnesses (for EVERY hash function the ids
coincide); `txid_injective` is the property on exactly the remaining content (`outView`,
`stripTyped`, at least one output).
-/
import BytomModel.Lemmas.EntryInj

namespace BytomModel.Props.C03
open BytomModel.Codec BytomModel.Entry BytomModel.Lemmas.Codec BytomModel.Lemmas.Entry

/-- two different strings with the same digest -/
def Collision (H : Bytes → Bytes) : Prop := ∃ x y, x ≠ y ∧ H x = H y

theorem injective_of_no_collision {H : Bytes → Bytes} (h : ¬ Collision H) : Function.Injective H := by
  intro x y hxy
  by_contra hne
  exact h ⟨x, y, hne, hxy⟩

/-! ### entries and block headers -/

/-- `EntryID` determines the entry's type string and hash body -/
theorem entryID_injective (H : Bytes → Bytes) (h32 : Hash32 H) (t1 t2 b1 b2 : Bytes)
    (h : entryID H t1 b1 = entryID H t2 b2) : (t1 = t2 ∧ b1 = b2) ∨ Collision H := by
  by_cases hc : Collision H
  · exact Or.inr hc
  · exact Or.inl (entryID_inj (injective_of_no_collision hc) h32 h)

/-- the block hash determines version, height, previous block hash, timestamp and
    transactions merkle root -/
theorem blockhash_injective (H : Bytes → Bytes) (h32 : Hash32 H) (a b : BlockHeader)
    (wa : WFHashedHeader a) (wb : WFHashedHeader b) (h : blockHash H a = blockHash H b) :
    (a.version = b.version ∧ a.height = b.height ∧ a.prevHash = b.prevHash ∧ a.timestamp = b.timestamp ∧
      a.txRoot = b.txRoot) ∨ Collision H := by
  by_cases hc : Collision H
  · exact Or.inr hc
  · exact Or.inl (blockHeaderBody_inj wa wb (entryID_inj (injective_of_no_collision hc) h32 h).2)

/-- the block hash does not depend on the block witness (signature) or the suplinks -/
theorem blockhash_ignores_witness_suplinks (H : Bytes → Bytes) (h : BlockHeader) (w : Bytes) (sl : List SupLink) :
    blockHash H { h with witness := w, supLinks := sl } = blockHash H h := rfl

/-! ### witness data does not reach the transaction id -/

/-- erasing every witness-only field (arguments, all suffixes, asset versions, recorded size)
    changes nothing in the mapped transaction: id, input ids, mux id, result ids -/
theorem txid_ignores_witness (H : Bytes → Bytes) (tx : TxData) : mapTx H (stripWitness tx) = mapTx H tx :=
  mapTx_strip H tx

/-- two transactions that differ only in witness data have the same id -/
theorem txid_eq_of_same_consensus_content (H : Bytes → Bytes) (a b : TxData) (h : stripWitness a = stripWitness b) :
    txID H a = txID H b := by
  unfold txID
  rw [← mapTx_strip H a, ← mapTx_strip H b, h]

/-- in particular: replacing the arguments of input `k` keeps the id -/
theorem stripTyped_ignores_arguments (nonce : Bytes) (amount : Nat) (d : Bytes) (vm : Nat) (prog : Bytes) (args args' : List Bytes) :
    stripTyped (.issuance nonce amount d vm prog args) = stripTyped (.issuance nonce amount d vm prog args') := rfl

/-! ### consensus content is committed -/

/-- equal result ids: same mux, same position, same committed view of the output -/
theorem resultID_injective (H : Bytes → Bytes) (h32 : Hash32 H) (mux mux' : Bytes) (i i' : Nat) (o o' : TxOutput)
    (hm : mux.length = 32) (hm' : mux'.length = 32) (hi : i ≤ max64) (hi' : i' ≤ max64)
    (wo : WFOutV o) (wo' : WFOutV o') (h : resultID H mux i o = resultID H mux' i' o') :
    (mux = mux' ∧ i = i' ∧ outView o = outView o') ∨ Collision H := by
  by_cases hc : Collision H
  · exact Or.inr hc
  · exact Or.inl (resultID_inj (injective_of_no_collision hc) h32 hm hm' hi hi' wo wo' h)

/-- equal input ids: same kind and same commitment — spend/veto: source id, asset, amount,
    source position, vm version, control program, state data (and vote key); issuance: nonce,
    amount, asset definition, vm version, issuance program; coinbase: arbitrary -/
theorem inputID_injective (H : Bytes → Bytes) (h32 : Hash32 H) (outs outs' : List TxOutput) (t t' : TypedInput)
    (w : WFTypedV t) (w' : WFTypedV t') (h : (inputEntry H outs t).1 = (inputEntry H outs' t').1) :
    stripTyped t = stripTyped t' ∨ Collision H := by
  by_cases hc : Collision H
  · exact Or.inr hc
  · exact Or.inl (inputEntry_id_inj (injective_of_no_collision hc) h32 w w' h)

/-- size bounds under which the hashed fields of a transaction are injective encodings
    (every decoded transaction satisfies them) -/
structure WFTxV (tx : TxData) : Prop where
  version : tx.version ≤ max64
  timeRange : tx.timeRange ≤ max64
  nOut : tx.outputs.length ≤ max31
  nIn : tx.inputs.length ≤ max31
  outs : ∀ o ∈ tx.outputs, WFOutV o
  ins : ∀ i ∈ tx.inputs, ∀ t, i.typed = some t → WFTypedV t

theorem typedInputs_spec : ∀ (l : List TxInput) (ts : List TypedInput), typedInputs l = some ts →
    ts.length = l.length ∧ ∀ t ∈ ts, ∃ i ∈ l, i.typed = some t := by
  intro l
  induction l with
  | nil => intro ts h; simp [typedInputs] at h; subst h; simp
  | cons i r ih =>
    intro ts h
    simp only [typedInputs] at h
    cases hi : i.typed with
    | none => rw [hi] at h; simp at h
    | some t =>
      cases hr : typedInputs r with
      | none => rw [hi, hr] at h; simp at h
      | some l =>
        rw [hi, hr] at h
        simp only [Option.some.injEq] at h
        subst h
        obtain ⟨h1, h2⟩ := ih l hr
        refine ⟨by simp [h1], ?_⟩
        intro t' ht'
        rcases List.mem_cons.mp ht' with rfl | ht'
        · exact ⟨i, by simp, hi⟩
        · obtain ⟨j, hj, hjt⟩ := h2 t' ht'
          exact ⟨j, by simp [hj], hjt⟩

theorem resultIDs_spec (H : Bytes → Bytes) (h32 : Hash32 H) (mux : Bytes) : ∀ (outs : List TxOutput) (i : Nat),
    (resultIDs H mux i outs).length = outs.length ∧ ∀ x ∈ resultIDs H mux i outs, x.length = 32 := by
  intro outs
  induction outs with
  | nil => intro i; simp [resultIDs]
  | cons o r ih =>
    intro i
    obtain ⟨h1, h2⟩ := ih (i + 1)
    refine ⟨by simp [resultIDs, h1], ?_⟩
    intro x hx
    simp only [resultIDs, List.mem_cons] at hx
    rcases hx with rfl | hx
    · unfold resultID
      split
      · exact h32 _
      · split <;> exact h32 _
    · exact h2 x hx

theorem totalOut_le (outs : List TxOutput) : totalOut outs ≤ max64 := by
  unfold totalOut
  have : ∀ (l : List TxOutput) (acc : Nat), acc ≤ max64 →
      l.foldl (fun acc o => (acc + outAmount o) % 2 ^ 64) acc ≤ max64 := by
    intro l
    induction l with
    | nil => intro acc h; exact h
    | cons o r ih =>
      intro acc _
      simp only [List.foldl_cons]
      apply ih
      have := Nat.mod_lt (acc + outAmount o) (by norm_num : 2 ^ 64 > 0)
      unfold max64; omega
  exact this outs 0 (by unfold max64; omega)

theorem inputEntry_wf (H : Bytes → Bytes) (h32 : Hash32 H) (outs : List TxOutput) (t : TypedInput) (w : WFTypedV t) :
    (inputEntry H outs t).1.length = 32 ∧ (inputEntry H outs t).2.1.length = 32 ∧ (inputEntry H outs t).2.2 ≤ max64 := by
  cases t with
  | issuance nonce amount d vm prog args => exact ⟨h32 _, h32 _, w.1⟩
  | spend sc suf args => exact ⟨h32 _, w.2.1, w.2.2.1⟩
  | coinbase arb => exact ⟨h32 _, (by show btmAssetID.length = 32; decide), totalOut_le outs⟩
  | veto sc suf vote args => exact ⟨h32 _, w.2.1, w.2.2.1⟩

theorem map_inputEntry_inj {H : Bytes → Bytes} (hH : Function.Injective H) (h32 : Hash32 H) (outs outs' : List TxOutput) :
    ∀ (ts ts' : List TypedInput), (∀ t ∈ ts, WFTypedV t) → (∀ t ∈ ts', WFTypedV t) →
      ts.map (inputEntry H outs) = ts'.map (inputEntry H outs') → ts.map stripTyped = ts'.map stripTyped := by
  intro ts
  induction ts with
  | nil => intro ts' _ _ h; cases ts' with
    | nil => rfl
    | cons a b => simp at h
  | cons t r ih =>
    intro ts' w w' h
    cases ts' with
    | nil => simp at h
    | cons t' r' =>
      simp only [List.map_cons, List.cons.injEq] at h ⊢
      obtain ⟨h1, h2⟩ := h
      exact ⟨inputEntry_id_inj hH h32 (w t (by simp)) (w' t' (by simp)) (congrArg Prod.fst h1),
        ih r' (fun x hx => w x (by simp [hx])) (fun x hx => w' x (by simp [hx])) h2⟩

/-- **the transaction id commits to the consensus content**: two mapped transactions with the
    same id have the same version, time range, the same committed view of every output in
    order, and — when there is at least one output — the same input commitments in order;
    otherwise a collision of `H` has been found -/
theorem txid_injective (H : Bytes → Bytes) (h32 : Hash32 H) (a b : TxData) (wa : WFTxV a) (wb : WFTxV b)
    (ma mb : MappedTx) (ha : mapTx H a = some ma) (hb : mapTx H b = some mb) (hid : ma.id = mb.id) :
    (a.version = b.version ∧ a.timeRange = b.timeRange ∧ a.outputs.map outView = b.outputs.map outView ∧
      (a.outputs ≠ [] → ∃ ta tb, typedInputs a.inputs = some ta ∧ typedInputs b.inputs = some tb ∧
        ta.map stripTyped = tb.map stripTyped)) ∨ Collision H := by
  by_cases hc : Collision H
  · exact Or.inr hc
  left
  have hH := injective_of_no_collision hc
  unfold mapTx at ha hb
  cases hta : typedInputs a.inputs with
  | none => rw [hta] at ha; simp at ha
  | some ta =>
  cases htb : typedInputs b.inputs with
  | none => rw [htb] at hb; simp at hb
  | some tb =>
  rw [hta] at ha
  rw [htb] at hb
  simp only [Option.some.injEq] at ha hb
  subst ha hb
  simp only at hid
  obtain ⟨la, sa⟩ := typedInputs_spec _ _ hta
  obtain ⟨lb, sb⟩ := typedInputs_spec _ _ htb
  have wta : ∀ t ∈ ta, WFTypedV t := fun t ht => by
    obtain ⟨i, hi, hit⟩ := sa t ht
    exact wa.ins i hi t hit
  have wtb : ∀ t ∈ tb, WFTypedV t := fun t ht => by
    obtain ⟨i, hi, hit⟩ := sb t ht
    exact wb.ins i hi t hit
  obtain ⟨_, hbody⟩ := entryID_inj hH h32 hid
  obtain ⟨ra1, ra2⟩ := resultIDs_spec H h32 (entryID H tMux (muxBody (ta.map (inputEntry H a.outputs)))) a.outputs 0
  obtain ⟨rb1, rb2⟩ := resultIDs_spec H h32 (entryID H tMux (muxBody (tb.map (inputEntry H b.outputs)))) b.outputs 0
  have hna := wa.nOut
  have hnb := wb.nOut
  have hia := wa.nIn
  have hib := wb.nIn
  obtain ⟨hv, ht, hres⟩ := txHeaderBody_inj wa.version wb.version wa.timeRange wb.timeRange
    (by rw [ra1]; unfold max31 at hna; unfold max63; omega) (by rw [rb1]; unfold max31 at hnb; unfold max63; omega) ra2 rb2 hbody
  obtain ⟨hviews, hmux⟩ := resultIDs_inj hH h32 (h32 _) (h32 _) a.outputs b.outputs 0
    (by unfold max31 at hna; unfold max64; omega) (by unfold max31 at hnb; unfold max64; omega) wa.outs wb.outs hres
  refine ⟨hv, ht, hviews, fun hne => ⟨ta, tb, rfl, rfl, ?_⟩⟩
  obtain ⟨_, hmb⟩ := entryID_inj hH h32 (hmux hne)
  have hsrc := muxBody_inj
    (by rw [List.length_map, la]; unfold max31 at hia; unfold max63; omega)
    (by rw [List.length_map, lb]; unfold max31 at hib; unfold max63; omega)
    (by
      intro s hs
      obtain ⟨t, ht, rfl⟩ := List.mem_map.mp hs
      exact inputEntry_wf H h32 a.outputs t (wta t ht))
    (by
      intro s hs
      obtain ⟨t, ht, rfl⟩ := List.mem_map.mp hs
      exact inputEntry_wf H h32 b.outputs t (wtb t ht))
    hmb
  exact map_inputEntry_inj hH h32 a.outputs b.outputs ta tb wta wtb hsrc

/-! ### what is NOT committed (the property at full strength is false) -/

/-- every consensus field the property lists for an output -/
def fullOutView (o : TxOutput) : Bytes × Nat × TypedOutput × Nat × Bytes × List Bytes :=
  (outAsset o, outAmount o, o.typed, outVM o, outProg o, outState o)

/-- the consensus content of a transaction as the property lists it -/
def fullView (tx : TxData) : Nat × Nat × List (Option TypedInput) × List (Bytes × Nat × TypedOutput × Nat × Bytes × List Bytes) :=
  (tx.version, tx.timeRange, tx.inputs.map (fun i => i.typed.map stripTyped), tx.outputs.map fullOutView)

/-- full strength: if two transactions have the same id whatever the hash function is, they
    have the same consensus content -/
def txid_commits_full : Prop := ∀ a b : TxData, (∀ H, txID H a = txID H b ∧ (txID H a).isSome) → fullView a = fullView b

def wSC : SpendCommitment := ⟨zeroHash, zeroHash, 5, 0, 1, [0x51], []⟩
def wIn (amount : Nat) : TxInput := ⟨1, some (.spend { wSC with amount := amount } [] []), [], []⟩
def wOut (prog : Bytes) : TxOutput := ⟨1, some ⟨zeroHash, 5, 1, prog, []⟩, [], .original⟩

/-- retirement outputs: control programs `6a 01` and `6a 02` give the same id for every `H` -/
theorem retirement_program_not_committed (H : Bytes → Bytes) :
    txID H ⟨1, 0, 0, [wIn 5], [wOut [0x6a, 1]]⟩ = txID H ⟨1, 0, 0, [wIn 5], [wOut [0x6a, 2]]⟩ := rfl

/-- no outputs: inputs spending 5 and 6 units give the same id for every `H` -/
theorem inputs_not_committed_without_outputs (H : Bytes → Bytes) :
    txID H ⟨1, 0, 0, [wIn 5], []⟩ = txID H ⟨1, 0, 0, [wIn 6], []⟩ := rfl

theorem txid_commits_full_refuted : ¬ txid_commits_full := by
  intro h
  have := h ⟨1, 0, 0, [wIn 5], [wOut [0x6a, 1]]⟩ ⟨1, 0, 0, [wIn 5], [wOut [0x6a, 2]]⟩
    (fun H => ⟨retirement_program_not_committed H, rfl⟩)
  simp [fullView, fullOutView, wOut, outProg] at this

theorem txid_commits_full_refuted_no_outputs : ¬ txid_commits_full := by
  intro h
  have := h ⟨1, 0, 0, [wIn 5], []⟩ ⟨1, 0, 0, [wIn 6], []⟩
    (fun H => ⟨inputs_not_committed_without_outputs H, rfl⟩)
  simp [fullView, wIn, stripTyped] at this

/-! ### non-vacuity -/

def H0 : Bytes → Bytes := fun _ => zeroHash

example : Hash32 H0 := fun _ => rfl
example : WFTxV ⟨1, 0, 0, [wIn 5], [wOut [0x51]]⟩ := by
  refine ⟨by decide, by decide, by decide, by decide, ?_, ?_⟩
  · intro o ho
    simp only [List.mem_singleton] at ho
    subst ho
    exact ⟨by decide, by decide, by decide, by decide, ⟨by decide, by intro s hs; simp [outState, wOut] at hs⟩, trivial⟩
  · intro i hi t ht
    simp only [List.mem_singleton] at hi
    subst hi
    simp only [wIn, Option.some.injEq] at ht
    subst ht
    exact ⟨by decide, by decide, by decide, by decide, by decide, by decide, ⟨by decide, by intro s hs; simp [wSC] at hs⟩⟩
example : (mapTx H0 ⟨1, 0, 0, [wIn 5], [wOut [0x51]]⟩).isSome = true := by decide

end BytomModel.Props.C03
