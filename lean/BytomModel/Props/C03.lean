import BytomModel.Model.Entry
namespace BytomModel.Props.C03
open BytomModel.Codec BytomModel.Entry

theorem placeholder_true : True := trivial

end BytomModel.Props.C03
