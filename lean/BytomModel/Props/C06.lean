/-
C06 — VM values behave as immutable byte strings.

Memory model: `heapMem grow` (Model/VM/Heap.lean) — Go slices over a heap of backing arrays
(`(array, off, len, cap)` headers, sub-slices keep the capacity) — on which the same generic
VM (`Model/VM/*`) runs, with the program, both stacks and every context byte string being
slices.  The reference is the value instance `valueMem` (items are immutable byte strings).

Since fix a6a6f5b7 (CAT / CATPUSHDATA build their result in a fresh array) no opcode handler
writes into an existing array any more, and the property holds at full strength — for every
growth policy, program, context, memory layout, gas limit and fuel:

* `heap_refines_value`  : reading all slices back as byte strings, `Verify` on the heap gives
  exactly the result, error class, gas and final stacks of `Verify` on values;
* `args_unchanged`      : every array that existed when `Verify` was called is unchanged;
* `layout_independent`  : two layouts of the same byte values give the same answer;
* `items_independent`   : no step changes what any existing valid slice reads;
* `no_inplace_append`   : the instrumented heap never records an in-place append.
-/
import BytomModel.Lemmas.VMMemRun
import BytomModel.Lemmas.VMRefineRun
namespace BytomModel.Props.C06
open BytomModel.VM

/-! ### caller memory -/

/-- one small step only extends the heap: no existing array changes or moves -/
theorem heap_only_grows (grow : Nat → Nat → Nat) (ctx : Context Slice)
    (m m' : Machine Heap Slice) (h : smallStep (heapMem grow) ctx m = .inl m') :
    HeapPrefix m.mem m'.mem := by
  have := smallStep_memR (heapPrefix_rel grow) ctx m
  rw [h] at this
  exact this

/-- **caller memory.**  Whatever the program, arguments, layout and limit: when `Verify`
    returns, every array that existed at the call — the caller's argument, state-data, program
    and context buffers, including any spare capacity and guard bytes — has its old contents. -/
theorem args_unchanged (grow : Nat → Nat → Nat) (ctx : Context Slice) (fuel : Nat) (h : Heap)
    (limit : Int) (r : VerifyResult Heap Slice) (h' : Heap) (f : Frame Slice)
    (hv : verifyFuel (heapMem grow) ctx fuel h limit = some r) (hf : r.final = some (h', f)) :
    ∀ i, i < h.arrays.size → h'.getArr i = h.getArr i := by
  intro i hi
  have hext := verifyFuel_memR (heapPrefix_rel grow) ctx fuel h limit r h' f hv hf
  exact hext.getArr i hi

/-- **no operation changes another item**: whatever a valid slice (a stack item, the program,
    a context string, a caller buffer) reads before a step, it reads after it -/
theorem items_independent (grow : Nat → Nat → Nat) (ctx : Context Slice)
    (m m' : Machine Heap Slice) (h : smallStep (heapMem grow) ctx m = .inl m') (x : Slice)
    (hx : Valid m.mem x) : m'.mem.read x = m.mem.read x :=
  read_prefix (heap_only_grows grow ctx m m' h) hx

/-- the instrumented heap (`heapMemF`) never records an in-place append -/
theorem no_inplace_append (grow : Nat → Nat → Nat) (ctx : Context Slice) (fuel : Nat) (h : FHeap)
    (limit : Int) (r : VerifyResult FHeap Slice) (h' : FHeap) (f : Frame Slice)
    (hv : verifyFuel (heapMemF grow) ctx fuel h limit = some r) (hf : r.final = some (h', f)) :
    h'.inPlace = h.inPlace :=
  (verifyFuel_memR (flagRel_rel grow) ctx fuel h limit r h' f hv hf).1

/-! ### refinement -/

theorem initFrame_abs (h : Heap) (cH : Context Slice) (limit : Int) :
    (⟨(), initFrame (absCtx h cH) limit⟩ : St Unit Bytes) = absSt ⟨h, initFrame cH limit⟩ := rfl

/-- the initial pushes of `Verify` commute with the abstraction -/
theorem initPushes_sim (grow : Nat → Nat → Nat) (cH : Context Slice) (h : Heap) (hc : CtxValid h cH) (limit : Int) :
    ResPP (fun _ s' => initPushes valueMem (absCtx h cH) ⟨(), initFrame (absCtx h cH) limit⟩ = .ok () (absSt s') ∧
              s'.mem = h ∧ FrameValid s'.mem s'.f)
          (fun e s' => initPushes valueMem (absCtx h cH) ⟨(), initFrame (absCtx h cH) limit⟩ = .err e (absSt s') ∧
              s'.mem = h ∧ FrameValid s'.mem s'.f)
          False (initPushes (heapMem grow) cH ⟨h, initFrame cH limit⟩) := by
  have hv0 : FrameValid h (initFrame cH limit) := ⟨hc.1, by simp [initFrame], by simp [initFrame]⟩
  have h1 := pushAll_sim grow true cH.stateData ⟨h, initFrame cH limit⟩ hv0 hc.2.2.2.2.2
  simp only [if_true] at h1
  rw [initFrame_abs]
  unfold initPushes
  rw [bind_run, bind_run]
  have hst : (absCtx h cH).stateData = cH.stateData.map h.read := rfl
  have har : (absCtx h cH).arguments = cH.arguments.map h.read := rfl
  rw [hst, har]
  revert h1
  cases pushAll (pushAlt (heapMem grow)) cH.stateData ⟨h, initFrame cH limit⟩ with
  | panic => intro h1; exact absurd h1 (by simp)
  | err e s1 =>
    intro h1; simp only [ResPP_err] at h1
    simp only [Res.bindK_err, ResPP_err, h1.1]
    exact ⟨trivial, h1.2⟩
  | ok u s1 =>
    intro h1; simp only [ResPP_ok] at h1
    obtain ⟨e1, m1, v1⟩ := h1
    simp only [Res.bindK_ok, e1]
    have h2 := pushAll_sim grow false cH.arguments s1 v1 (by rw [m1]; exact hc.2.2.2.2.1)
    simp only [Bool.false_eq_true, if_false] at h2
    rw [m1] at h2
    revert h2
    cases pushAll (fun x => pushItem (heapMem grow) x false) cH.arguments s1 with
    | panic => intro h2; exact absurd h2 (by simp)
    | err e s2 =>
      intro h2; simp only [ResPP_err] at h2
      simp only [ResPP_err, h2.1]
      exact ⟨trivial, h2.2.1, h2.2.2⟩
    | ok u2 s2 =>
      intro h2; simp only [ResPP_ok] at h2
      simp only [ResPP_ok, h2.1]
      exact ⟨trivial, h2.2.1, h2.2.2⟩

/-- **refinement (DESIGN §5 C06).**  For every growth policy, program, context, memory layout
    with valid slices, gas limit and fuel: reading the slices back as byte strings, the heap
    run of `Verify` IS the value run — same gasLeft, same error class, same final stacks
    (and it runs out of fuel exactly when the value run does). -/
theorem heap_refines_value (grow : Nat → Nat → Nat) (cH : Context Slice) (h : Heap) (hc : CtxValid h cH)
    (fuel : Nat) (limit : Int) :
    (verifyFuel (heapMem grow) cH fuel h limit).map absResult
      = verifyFuel valueMem (absCtx h cH) fuel () limit := by
  unfold verifyFuel
  have hvm : (absCtx h cH).vmVersion = cH.vmVersion := rfl
  rw [hvm]
  by_cases hver : cH.vmVersion ≠ 1
  · simp [hver, absResult]
  · simp only [hver, if_false]
    have hi := initPushes_sim grow cH h hc limit
    revert hi
    cases initPushes (heapMem grow) cH ⟨h, initFrame cH limit⟩ with
    | panic => intro hi; exact absurd hi (by simp)
    | err e s1 =>
      intro hi; simp only [ResPP_err] at hi
      rw [hi.1]
      simp [absResult, absSt, absFrame]
    | ok u s1 =>
      intro hi; simp only [ResPP_ok] at hi
      obtain ⟨e1, m1, v1⟩ := hi
      rw [e1]
      have hcs : CtxSim s1.mem cH (absCtx h cH) := by rw [m1]; exact ⟨hc, rfl⟩
      have hrun := runFuel_sim grow cH (absCtx h cH) fuel ⟨s1.mem, s1.f, []⟩ ⟨v1, by simp⟩ hcs
      have habs : absMachine ⟨s1.mem, s1.f, []⟩ = ⟨(absSt s1).mem, (absSt s1).f, []⟩ := rfl
      rw [habs] at hrun
      simp only
      rw [← hrun.1]
      cases hr : runFuel (heapMem grow) cH fuel ⟨s1.mem, s1.f, []⟩ with
      | none => simp
      | some fin =>
        cases fin with
        | panic => simp [absFinal, absResult]
        | done mem' f e =>
          simp only [Option.map_some, absFinal]
          rw [falseResult_abs grow mem' f]
          cases e <;> simp [absResult, absFrame]

/-- **layout independence.**  Two memory layouts (independent buffers, sub-slices of one
    shared buffer, spare capacity, guard bytes …) of the same byte values give the same
    result, error class, gas and final stacks. -/
theorem layout_independent (grow : Nat → Nat → Nat) (c1 c2 : Context Slice) (h1 h2 : Heap)
    (hv1 : CtxValid h1 c1) (hv2 : CtxValid h2 c2) (hsame : absCtx h1 c1 = absCtx h2 c2)
    (fuel : Nat) (limit : Int) :
    (verifyFuel (heapMem grow) c1 fuel h1 limit).map absResult
      = (verifyFuel (heapMem grow) c2 fuel h2 limit).map absResult := by
  rw [heap_refines_value grow c1 h1 hv1, heap_refines_value grow c2 h2 hv2, hsame]

/-- the gas theorems of C07 hold on this memory model as well -/
theorem heap_satisfies_gas_laws (grow : Nat → Nat → Nat) : MemLaws (heapMem grow) := heapMem_laws grow

/-! ### the former F1 witnesses now satisfy the property (evaluated by the kernel) -/

def noGrow : Nat → Nat → Nat := fun _ n => n

def hctx (code : Slice) (args : List Slice) : Context Slice :=
  { vmVersion := 1, code := code, stateData := [], arguments := args, entryID := ⟨0, 0, 0, 0⟩,
    txVersion := some 1, blockHeight := none, assetID := none, amount := none, destPos := none,
    spentOutputID := none, txSigHash := none, checkOutput := none,
    verifySig := fun _ _ _ => false, sha256 := fun _ => [], sha3 := fun _ => [], ripemd160 := fun _ => [] }

/-- array 0 = program `DUP 1 LEFT DATA_1 'X' CAT`, array 1 = the caller's argument "abcd" -/
def f1Heap : Heap := ⟨#[[0x76, 0x51, 0x80, 0x01, 0x58, 0x7e], [0x61, 0x62, 0x63, 0x64]]⟩
def f1Ctx : Context Slice := hctx ⟨0, 0, 6, 6⟩ [⟨1, 0, 4, 4⟩]

/-- the caller's "abcd" is still "abcd" (it was "aXcd" before the fix) and the stack is ["aX", "abcd"] -/
example :
    ((verifyFuel (heapMem noGrow) f1Ctx 12 f1Heap 10000).bind fun r =>
        r.final.map fun p => (p.1.getArr 1, p.2.data.map p.1.read))
      = some ([0x61, 0x62, 0x63, 0x64], [[0x61, 0x58], [0x61, 0x62, 0x63, 0x64]]) := by decide +kernel

/-- `DATA_4 "abcd" DUP 1 LEFT DATA_1 "X" CAT` -/
def f1Prog : Bytes := [0x04, 0x61, 0x62, 0x63, 0x64, 0x76, 0x51, 0x80, 0x01, 0x58, 0x7e]

/-- the other stack item stays "abcd" (it became "aXcd" before the fix) -/
example :
    ((verifyFuel (heapMem noGrow) (hctx ⟨0, 0, 11, 11⟩ []) 12 ⟨#[f1Prog]⟩ 10000).bind fun r =>
        r.final.map fun p => p.2.data.map p.1.read)
      = some [[0x61, 0x58], [0x61, 0x62, 0x63, 0x64]] := by decide +kernel

/-- the hypotheses of the theorems are satisfiable: a valid two-array layout -/
example : CtxValid f1Heap f1Ctx := by
  refine ⟨by unfold Valid; decide, by unfold Valid; decide, by simp [f1Ctx, hctx], by simp [f1Ctx, hctx], ?_,
    by simp [f1Ctx, hctx]⟩
  intro x hx
  simp [f1Ctx, hctx] at hx
  subst hx
  unfold Valid; decide

end BytomModel.Props.C06
