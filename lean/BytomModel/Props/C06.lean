/-
C06 — VM values behave as immutable byte strings.

Memory model: `heapMemF grow` (Model/VM/Heap.lean) — Go slices over a heap of backing
arrays, `append` in place when the capacity allows, sub-slices keep the capacity; the same
generic VM (`Model/VM/*`) runs on it, with the program, both stacks and every context byte
string being slices.  The reference is the value instance `valueMem`.

On the code as it is the property is FALSE (F1, reproduced on the real `vm.Verify` by the
harness on every run): the three full statements below are refuted by concrete programs.
What is proved for ALL programs, contexts, layouts, growth policies and gas limits: the
memory is only ever *extended* — no existing array changes or moves — unless an `append`
fits the capacity of its first operand; so an execution in which no in-place append occurs
leaves every caller-owned array untouched.
-/
import BytomModel.Lemmas.VMMemRun
import BytomModel.Lemmas.VMHeap
namespace BytomModel.Props.C06
open BytomModel.VM

/-! ### what holds: without an in-place append the heap only grows -/

/-- one small step of the machine extends the heap (or an in-place append is recorded) -/
theorem heap_only_grows_partial (grow : Nat → Nat → Nat) (ctx : Context Slice)
    (m m' : Machine FHeap Slice) (h : smallStep (heapMemF grow) ctx m = .inl m') :
    HeapExt m.mem m'.mem := by
  have := smallStep_memR (heapExt_rel grow) ctx m
  rw [h] at this
  exact this

/-- **caller memory (partial).**  If `Verify` returns and no `append` wrote in place during
    the whole execution (flag still `false`), every array that existed when `Verify` was
    called — the caller's argument, state-data, program and context buffers, however they
    are laid out — has exactly its old contents. -/
theorem args_unchanged_partial (grow : Nat → Nat → Nat) (ctx : Context Slice) (fuel : Nat) (h : Heap)
    (limit : Int) (r : VerifyResult FHeap Slice) (h' : Heap) (f : Frame Slice)
    (hv : verifyFuel (heapMemF grow) ctx fuel ⟨h, false⟩ limit = some r)
    (hf : r.final = some (⟨h', false⟩, f)) :
    ∀ i, i < h.arrays.size → h'.getArr i = h.getArr i := by
  intro i hi
  have hext := verifyFuel_memR (heapExt_rel grow) ctx fuel ⟨h, false⟩ limit r ⟨h', false⟩ f hv hf
  exact HeapExt_getArr ⟨h, false⟩ ⟨h', false⟩ hext rfl i hi

/-- the in-place flag is exactly "some append fitted the capacity": a fresh allocation never
    sets it, and `append` sets it iff `len a + len b ≤ cap a` with `b` non-empty -/
theorem flag_meaning (grow : Nat → Nat → Nat) (m : FHeap) (a : Slice) (b : Bytes) :
    ((heapMemF grow).append m a b).1.inPlace = (m.inPlace || (!b.isEmpty && decide (a.len + b.length ≤ a.cap))) ∧
    ∀ c e, ((heapMemF grow).fresh m c e).1.inPlace = m.inPlace :=
  ⟨rfl, fun _ _ => rfl⟩

/-- the gas theorems of C07 hold on this memory model as well -/
theorem heap_satisfies_gas_laws (grow : Nat → Nat → Nat) : MemLaws (heapMemF grow) := heapMemF_laws grow

/-! ### F1: the full statements are false (concrete witnesses, evaluated by the kernel) -/

def noGrow : Nat → Nat → Nat := fun _ n => n

def hctx (code : Slice) (args : List Slice) : Context Slice :=
  { vmVersion := 1, code := code, stateData := [], arguments := args, entryID := ⟨0, 0, 0, 0⟩,
    txVersion := some 1, blockHeight := none, assetID := none, amount := none, destPos := none,
    spentOutputID := none, txSigHash := none, checkOutput := none,
    verifySig := fun _ _ _ => false, sha256 := fun _ => [], sha3 := fun _ => [], ripemd160 := fun _ => [] }

/-- caller memory: array 0 = program `DUP 1 LEFT DATA_1 'X' CAT`, array 1 = the argument "abcd" -/
def f1Heap : Heap := ⟨#[[0x76, 0x51, 0x80, 0x01, 0x58, 0x7e], [0x61, 0x62, 0x63, 0x64]]⟩
def f1Ctx : Context Slice := hctx ⟨0, 0, 6, 6⟩ [⟨1, 0, 4, 4⟩]

/-- "running a program never changes the caller's argument bytes" -/
def caller_memory_unchanged_full : Prop :=
  ∀ (ctx : Context Slice) (fuel : Nat) (h : Heap) (limit : Int) (i : Nat) (a : Bytes),
    ((verifyFuel (heapMemF noGrow) ctx fuel ⟨h, false⟩ limit).bind fun r =>
        r.final.map fun p => p.1.heap.getArr i) = some a →
    i < h.arrays.size → a = h.getArr i

/-- the caller's "abcd" has become "aXcd" -/
theorem f1_caller_witness :
    ((verifyFuel (heapMemF noGrow) f1Ctx 12 ⟨f1Heap, false⟩ 10000).bind fun r =>
        r.final.map fun p => p.1.heap.getArr 1) = some [0x61, 0x58, 0x63, 0x64] := by decide +kernel

theorem caller_memory_unchanged_full_refuted : ¬ caller_memory_unchanged_full := by
  intro h
  have := h f1Ctx 12 f1Heap 10000 1 _ f1_caller_witness (by decide)
  revert this
  decide

/-- the final data stack (top first) read back as byte strings -/
def finalStack {μ ι : Type} (M : MemOps μ ι) (r : Option (VerifyResult μ ι)) : Option (List Bytes) :=
  r.bind fun r => r.final.map fun p => p.2.data.map (M.read p.1)

/-- program `DATA_4 "abcd" DUP 1 LEFT DATA_1 "X" CAT`, no arguments: everything the VM
    touches was allocated by the VM itself -/
def f1Prog : Bytes := [0x04, 0x61, 0x62, 0x63, 0x64, 0x76, 0x51, 0x80, 0x01, 0x58, 0x7e]

def vctx (code : Bytes) : Context Bytes :=
  { vmVersion := 1, code := code, stateData := [], arguments := [], entryID := [],
    txVersion := some 1, blockHeight := none, assetID := none, amount := none, destPos := none,
    spentOutputID := none, txSigHash := none, checkOutput := none,
    verifySig := fun _ _ _ => false, sha256 := fun _ => [], sha3 := fun _ => [], ripemd160 := fun _ => [] }

/-- reference semantics: the stack ends as ["aX", "abcd"] -/
theorem f1_value_result :
    finalStack valueMem (verifyFuel valueMem (vctx f1Prog) 12 () 10000)
      = some [[0x61, 0x58], [0x61, 0x62, 0x63, 0x64]] := by decide +kernel

/-- the code as it is: ["aX", "aXcd"] — CAT rewrote the item the prefix was cut from -/
theorem f1_heap_result :
    finalStack (heapMemF noGrow)
        (verifyFuel (heapMemF noGrow) (hctx ⟨0, 0, 11, 11⟩ []) 12 ⟨⟨#[f1Prog]⟩, false⟩ 10000)
      = some [[0x61, 0x58], [0x61, 0x58, 0x63, 0x64]] := by decide +kernel

/-- "an operation on one stack item never changes another item / the result depends only on
    the byte values": the heap run of a program laid out in fresh memory reads back as the
    value run -/
def items_independent_full : Prop :=
  ∀ (code : Bytes) (fuel : Nat) (limit : Int),
    finalStack (heapMemF noGrow)
        (verifyFuel (heapMemF noGrow) (hctx ⟨0, 0, code.length, code.length⟩ []) fuel ⟨⟨#[code]⟩, false⟩ limit)
      = finalStack valueMem (verifyFuel valueMem (vctx code) fuel () limit)

theorem items_independent_full_refuted : ¬ items_independent_full := by
  intro h
  have := h f1Prog 12 10000
  rw [show f1Prog.length = 11 from rfl, f1_heap_result, f1_value_result] at this
  revert this
  decide

/-! ### the hypothesis of the partial theorem is satisfiable on a non-trivial run:
`"ab" "cd" CAT` grows into a new array (capacity 2 < 4), the flag stays false and the
caller's program bytes are intact. -/

example :
    ((verifyFuel (heapMemF noGrow) (hctx ⟨0, 0, 7, 7⟩ []) 8
        ⟨⟨#[[0x02, 0x61, 0x62, 0x02, 0x63, 0x64, 0x7e]]⟩, false⟩ 10000).bind fun r =>
      r.final.map fun p => (p.1.inPlace, p.2.data.map (p.1.heap.read))) = some (false, [[0x61, 0x62, 0x63, 0x64]]) := by
  decide +kernel

end BytomModel.Props.C06
