import BytomModel.Model.Node
namespace BytomModel.Props.C17
open BytomModel.Node

/-- `SupLink.IsMajority`: `count > n*2/3` in Go's truncating integer arithmetic is exactly
    "strictly more than two thirds": `3·count > 2·n`. -/
theorem isMajority_iff (l : SupLink) (n : Nat) : isMajority l n = true ↔ 3 * l.sigs.length > 2 * n := by
  unfold isMajority
  simp only [gt_iff_lt, decide_eq_true_eq]
  omega

end BytomModel.Props.C17
