/-
C17 — Justification needs a supermajority of distinct valid validator votes.

Statements are about the node model `BytomModel.Node` (Model/Node.lean, validated against the real
`protocol.Chain` + `casper.Casper` + `database.Store` on every run of `./check C17`).
A *run* is any list of events `define / deliver / vote / restart` applied to `State.init`
(`Lemmas/CasperSteps: Event, step, run` — exactly what the driver does with the op lines).

Assumptions of the unbounded theorems (spelled out as hypotheses):
* `2 ≤ cfg.epoch` (the node uses 100; the harness 2–4);
* `RunOK U evs`: no `restart` event, and every delivered block agrees with a block universe `U`
  (its hash determines parent and height, height = parent height + 1 — what `ValidateBlock`
  enforces before `saveBlock`; sup links are NOT constrained: they are not covered by the hash).

`presented evs o src tgt`: a VALID signature of validator `o` for the link src → tgt reached the
node, in a verification message or in a header sup link of a delivered block copy.
-/
import BytomModel.Lemmas.CasperC17
import BytomModel.Lemmas.CasperRun

namespace BytomModel.Props.C17
open BytomModel.Node

deriving instance DecidableEq for Header
deriving instance DecidableEq for CkptRec
deriving instance DecidableEq for Ckpt

/-- `SupLink.IsMajority`: `count > n*2/3` in Go's truncating integer arithmetic is exactly
    "strictly more than two thirds": `3·count > 2·n`. -/
theorem isMajority_iff (l : SupLink) (n : Nat) : isMajority l n = true ↔ 3 * l.sigs.length > 2 * n := by
  unfold isMajority
  simp only [gt_iff_lt, decide_eq_true_eq]
  omega

/-- the C17 invariant holds after every run without restart -/
theorem inv17_run (U : Universe) (cfg : Config) (genesis : Header) (evs : List Event)
    (he : 2 ≤ cfg.epoch) (hg : genesis.id = U.g) (h0 : genesis.height = 0) (hr : RunOK U evs) :
    Inv17 U (presented evs) cfg (run (State.init cfg genesis) evs) :=
  run_invariant U (presented evs) (fun _ _ hi m => Micro.preserves_Inv17 hi m) cfg genesis hg h0
    (Inv17_init U _ cfg genesis he hg h0) evs hr.events_ok

/-- **Slots.** After any run without restart every signature slot inside the in-memory checkpoint
    tree (i) belongs to a validator order `< nVal`, (ii) is distinct from the other slots of its link,
    (iii) was added with a signature that verified (`valid`), and (iv) is backed by a VALID signature of
    that validator for exactly that link (source → this checkpoint) that was presented to the node, or
    is the node's own vote. -/
theorem tree_slots_sound (U : Universe) (cfg : Config) (genesis : Header) (evs : List Event)
    (he : 2 ≤ cfg.epoch) (hg : genesis.id = U.g) (h0 : genesis.height = 0) (hr : RunOK U evs) :
    ∀ c ∈ (run (State.init cfg genesis) evs).tree.flatten, ∀ l ∈ c.sup,
      (l.sigs.map (·.slot)).Nodup ∧
      ∀ sg ∈ l.sigs, sg.slot < cfg.nVal ∧ sg.valid = true ∧
        (presented evs sg.slot l.src c.hash ∨ some sg.slot = cfg.me) := by
  obtain ⟨_, hcfg, hsig, hpost, _⟩ := inv17_run U cfg genesis evs he hg h0 hr
  intro c hc l hl
  obtain ⟨h1, h2⟩ := hsig c hc l hl
  refine ⟨h1, fun sg hsg => ?_⟩
  obtain ⟨q1, q2, q3⟩ := h2 sg hsg
  rw [hcfg] at q1
  refine ⟨q1, q2, ?_⟩
  rcases q3 with q3 | q3
  · exact Or.inl q3
  · have := hpost _ q3
    rw [hcfg] at this
    exact this

/-- **Justified ⇒ supermajority.** After any run without restart every justified checkpoint other than
    genesis carries a sup link holding strictly more than 2/3·nVal slots (`3·count > 2·nVal`), pairwise
    distinct, all of validators `< nVal`, each backed by a presented valid signature for that link or
    the node's own vote. -/
theorem justified_has_supermajority (U : Universe) (cfg : Config) (genesis : Header) (evs : List Event)
    (he : 2 ≤ cfg.epoch) (hg : genesis.id = U.g) (h0 : genesis.height = 0) (hr : RunOK U evs) :
    ∀ c ∈ (run (State.init cfg genesis) evs).tree.flatten, c.status = .justified →
      c.hash = genesis.id ∨
      ∃ l ∈ c.sup, 3 * l.sigs.length > 2 * cfg.nVal ∧ (l.sigs.map (·.slot)).Nodup ∧
        ∀ sg ∈ l.sigs, sg.slot < cfg.nVal ∧ sg.valid = true ∧
          (presented evs sg.slot l.src c.hash ∨ some sg.slot = cfg.me) := by
  intro c hc hj
  obtain ⟨_, hcfg, _, _, hjust⟩ := inv17_run U cfg genesis evs he hg h0 hr
  rcases hjust c hc hj with h | ⟨l, hl, hm⟩
  · exact Or.inl (h.trans hg.symm)
  · right
    obtain ⟨h1, h2⟩ := tree_slots_sound U cfg genesis evs he hg h0 hr c hc l hl
    rw [hcfg] at hm
    exact ⟨l, hl, (isMajority_iff l cfg.nVal).mp hm, h1, h2⟩

/-- **Justification step.** Whenever a step of the node makes a checkpoint justified (it was not
    justified in the tree before the step), the checkpoint holds a link with `isMajority` whose source
    has a PERSISTED record of status `justified` at that moment (`addVerificationToCheckpoint`). -/
theorem justified_only_by_majority_link_from_justified_source {U : Universe} {Vp : Nat → Nat → Nat → Prop}
    {s s' : State} (hb : Base U s) (m : Micro U Vp s s') (c' : Ckpt) (hc' : c' ∈ s'.tree.flatten)
    (hj : c'.status = .justified) (hnew : ¬ ∃ c ∈ s.tree.flatten, c.status = .justified ∧ c.hash = c'.hash) :
    ∃ source ∈ s.ckpts, source.status = .justified ∧
      ∃ l ∈ c'.sup, l.src = source.hash ∧ 3 * l.sigs.length > 2 * s.cfg.nVal := by
  rcases Micro.justified_step hb m c' hc' hj with h | ⟨source, h1, h2, l, h3, h4, h5⟩
  · exact absurd h hnew
  · exact ⟨source, h1, h2, l, h3, h4, (isMajority_iff l _).mp h5⟩

/-- **Finalization step.** Whenever a step makes a checkpoint of the tree finalized, that checkpoint is
    the new root, its persisted record was `justified`, and a checkpoint whose `parentHash` is its hash
    (a direct child) is justified and holds a supermajority link from it (`setJustified/setFinalized`). -/
theorem finalized_only_as_source_of_direct_child {U : Universe} {Vp : Nat → Nat → Nat → Prop}
    {s s' : State} (hb : Base U s) (m : Micro U Vp s s') (c' : Ckpt) (hc' : c' ∈ s'.tree.flatten)
    (hj : c'.status = .finalized) (hnew : ¬ ∃ c ∈ s.tree.flatten, c.status = .finalized ∧ c.hash = c'.hash) :
    c' = s'.tree.ckpt ∧ ∃ child ∈ s.tree.flatten, child.status = .justified ∧ child.parentHash = c'.hash ∧
      3 * ((findLink child.sup c'.hash).getD default).sigs.length > 2 * s.cfg.nVal ∧
      ∃ source ∈ s.ckpts, source.hash = c'.hash ∧ source.status = .justified := by
  rcases Micro.finalized_step hb m c' hc' hj with h | ⟨h0, ch, h1, h2, h3, h4, h5⟩
  · exact absurd h hnew
  · exact ⟨h0, ch, h1, h2, h3, (isMajority_iff _ _).mp h4, h5⟩

/-- the base invariant needed by the two step theorems holds along every run without restart -/
theorem base_run (U : Universe) (cfg : Config) (genesis : Header) (evs : List Event)
    (he : 2 ≤ cfg.epoch) (hg : genesis.id = U.g) (h0 : genesis.height = 0) (hr : RunOK U evs) :
    Base U (run (State.init cfg genesis) evs) :=
  (inv17_run U cfg genesis evs he hg h0 hr).1

/-- **Invalid signatures never count (messages).** A verification message whose signature does not
    verify, or whose validator order is not below `nVal`, changes nothing. -/
theorem invalid_vote_changes_nothing (s : State) (o src tgt : Nat) (ok : Bool)
    (h : ok = false ∨ s.cfg.nVal ≤ o) : (s.authVerification o src tgt ok).1 = s := by
  rw [authVerification_eq]
  split
  · rfl
  · split
    · rfl
    · split
      · rfl
      · split
        · rfl
        · rename_i hlt
          split
          · rfl
          · split
            · rfl
            · rename_i hver
              exfalso
              rcases h with h | h
              · have := (verify_true (by simpa using hver)).2.2.2.1
                rw [h] at this; cases this
              · omega

/-- **Invalid signatures never count (block-carried).** A header slot that is flagged invalid, or
    belongs to an order ≥ nVal, is not in the tree after a run without restart unless a valid signature
    of that validator for the same link was presented (or it is the node's own vote). -/
theorem invalid_never_counts (U : Universe) (cfg : Config) (genesis : Header) (evs : List Event)
    (he : 2 ≤ cfg.epoch) (hg : genesis.id = U.g) (h0 : genesis.height = 0) (hr : RunOK U evs)
    (o src tgt : Nat) (hno : ¬ presented evs o src tgt) (hme : some o ≠ cfg.me) :
    ∀ c ∈ (run (State.init cfg genesis) evs).tree.flatten, c.hash = tgt →
      ∀ l ∈ c.sup, l.src = src → ∀ sg ∈ l.sigs, sg.slot ≠ o := by
  intro c hc hct l hl hls sg hsg hso
  obtain ⟨_, _, q3⟩ := (tree_slots_sound U cfg genesis evs he hg h0 hr c hc l hl).2 sg hsg
  rw [hso, hls, hct] at q3
  rcases q3 with q3 | q3
  · exact hno q3
  · exact hme q3

/-! ### across restarts: refuted (finding F10a), and the partial statement -/

/-- the full property: `justified_has_supermajority` for runs that may contain `restart` events -/
def c17_across_restart : Prop :=
  ∀ (U : Universe) (cfg : Config) (genesis : Header) (evs : List Event),
    2 ≤ cfg.epoch → genesis.id = U.g → genesis.height = 0 → BlocksOK U evs →
    ∀ c ∈ (run (State.init cfg genesis) evs).tree.flatten, c.status = .justified →
      c.hash = genesis.id ∨
      ∃ l ∈ c.sup, 3 * l.sigs.length > 2 * cfg.nVal ∧ (l.sigs.map (·.slot)).Nodup ∧
        ∀ sg ∈ l.sigs, sg.slot < cfg.nVal ∧ sg.valid = true ∧
          (presented evs sg.slot l.src c.hash ∨ some sg.slot = cfg.me)

namespace Witness
/-! two validators, epoch 2; block b2 (checkpoint of height 2) is delivered with a header sup link
    carrying a garbage signature in slot 1 (and a wrong declared source height, so `ApplyBlock` skips
    it), the node restarts (`loadCheckpointsFromIter` merges the stored header's sup links into the
    checkpoint), then ONE valid vote of validator 0 justifies b2.  Replayed on the real node:
    corpus/node/pcasper-findings.txt (F10a, second form). -/
def U : Universe := { g := 0, parent := fun i => i - 1, height := fun i => i, height_g := rfl, height_step := fun i h => by omega }
def g : Header := { id := 0, parent := 4294967295, height := 0, slot := 0, rank := 0, sup := [] }
def cfg : Config := { epoch := 2, nVal := 2, me := none }
def b1 : Header := { id := 1, parent := 0, height := 1, slot := 1, rank := 0, sup := [] }
def forged : SupLink := { src := 0, srcHeight := 7, sigs := [{ slot := 1, valid := false }] }
def b2 : Header := { id := 2, parent := 1, height := 2, slot := 2, rank := 0, sup := [forged] }
def evs : List Event := [.deliver b1, .deliver b2, .restart, .vote 0 0 2 true]

def pre : State := run (State.init cfg g) [.deliver b1, .deliver b2]
def reloaded : Tree := .node { hash := 0, height := 0, parentHash := 0, status := .justified, sup := [] } [.node { hash := 2, height := 2, parentHash := 0, status := .unjustified, sup := [forged] } []]
def post : State := { pre with tree := reloaded, orphans := [], prevOrphans := [] }
def fin : State := run post [.vote 0 0 2 true]

theorem mergeSort_pair {α : Type} (le : α → α → Bool) (a b : α) :
    [a, b].mergeSort le = if le a b then [a, b] else [b, a] := by
  simp [List.mergeSort, List.merge]

/-- the restart reloads b2 with the forged slot inside its sup link -/
theorem pre_restart : pre.restart = some post := by
  unfold State.restart
  have h1 : pre.header pre.best = some b2 := by decide +kernel
  have h2 : pre.header pre.statusFin = some g := by decide +kernel
  rw [h1, h2]
  have h3 : (pre.ckpts.filter (fun r =>
      (({ hash := pre.statusFin, height := g.height, parentHash := 0, status := .finalized } : CkptRec).height < r.height ||
        (({ hash := pre.statusFin, height := g.height, parentHash := 0, status := .finalized } : CkptRec).height == r.height &&
          decide (pre.rankOf ({ hash := pre.statusFin, height := g.height, parentHash := 0, status := .finalized } : CkptRec).hash ≤ pre.rankOf r.hash))))) =
      [{ hash := 2, height := 2, parentHash := 0, status := .unjustified }, { hash := 0, height := 0, parentHash := 0, status := .justified }] := by
    decide +kernel
  simp only [h3]
  rw [mergeSort_pair]
  rfl

theorem run_eq : run (State.init cfg g) evs = fin := by
  show run (State.init cfg g) ([.deliver b1, .deliver b2] ++ [.restart, .vote 0 0 2 true]) = fin
  rw [run_append]
  show run (step pre .restart) [.vote 0 0 2 true] = fin
  have : step pre .restart = post := by
    show (match pre.restart with | some s' => s' | none => pre) = post
    rw [pre_restart]
  rw [this]
  rfl

/-- after the single valid vote b2 is justified; its only link holds the forged slot -/
theorem fin_tree : fin.tree.flatten.map (fun c => (c.hash, c.status, c.sup)) =
    [(0, .finalized, []), (2, .justified, [{ src := 0, srcHeight := 7, sigs := [{ slot := 0, valid := true }, { slot := 1, valid := false }] }])] := by
  decide +kernel
def rootFinal : Ckpt := { hash := 0, height := 0, parentHash := 0, status := .finalized, sup := [] }
def b2Justified : Ckpt := { hash := 2, height := 2, parentHash := 0, status := .justified, sup := [{ src := 0, srcHeight := 7, sigs := [{ slot := 0, valid := true }, { slot := 1, valid := false }] }] }
end Witness

/-- **F10a.** Across a restart the property fails: forged header slot + restart + one valid vote ⇒
    justified with one valid vote out of two validators. -/
theorem c17_across_restart_refuted : ¬ c17_across_restart := by
  intro h
  have hb : BlocksOK Witness.U Witness.evs := by
    intro e he
    simp only [Witness.evs, List.mem_cons, List.not_mem_nil, or_false] at he
    rcases he with rfl | rfl | rfl | rfl
    · exact ⟨by decide, rfl, rfl⟩
    · exact ⟨by decide, rfl, rfl⟩
    · trivial
    · trivial
  have h' := h Witness.U Witness.cfg Witness.g Witness.evs (by decide) rfl rfl hb
  rw [Witness.run_eq] at h'
  have hmem : Witness.b2Justified ∈ Witness.fin.tree.flatten := by
    have : Witness.fin.tree.flatten = [Witness.rootFinal, Witness.b2Justified] := by decide +kernel
    rw [this]; simp
  rcases h' _ hmem rfl with h0 | ⟨l, hl, _, _, hs⟩
  · exact absurd h0 (by decide)
  · simp only [Witness.b2Justified, List.mem_singleton] at hl
    subst hl
    have := (hs { slot := 1, valid := false } (by simp)).2.1
    cases this

/-- **Partial.** The property holds for every run that contains no `restart` event (exactly the class
    excluded by F10a): this is `justified_has_supermajority`. -/
theorem c17_partial (U : Universe) (cfg : Config) (genesis : Header) (evs : List Event)
    (he : 2 ≤ cfg.epoch) (hg : genesis.id = U.g) (h0 : genesis.height = 0) (hb : BlocksOK U evs)
    (hnr : Event.restart ∉ evs) :
    ∀ c ∈ (run (State.init cfg genesis) evs).tree.flatten, c.status = .justified →
      c.hash = genesis.id ∨
      ∃ l ∈ c.sup, 3 * l.sigs.length > 2 * cfg.nVal ∧ (l.sigs.map (·.slot)).Nodup ∧
        ∀ sg ∈ l.sigs, sg.slot < cfg.nVal ∧ sg.valid = true ∧
          (presented evs sg.slot l.src c.hash ∨ some sg.slot = cfg.me) := by
  exact justified_has_supermajority U cfg genesis evs he hg h0 (RunOK.of_blocksOK hb hnr)

/-! ### the hypotheses are satisfiable (non-vacuity) -/

/-- a run without restart in which a checkpoint does get justified by two valid votes: the hypotheses of
    `justified_has_supermajority` / `c17_partial` hold and its conclusion is the second disjunct -/
def exampleEvs : List Event :=
  [.deliver Witness.b1, .deliver { Witness.b2 with sup := [] }, .vote 0 0 2 true, .vote 1 0 2 true]

example : RunOK Witness.U exampleEvs := by
  intro e he
  simp only [exampleEvs, List.mem_cons, List.not_mem_nil, or_false] at he
  rcases he with rfl | rfl | rfl | rfl
  · exact ⟨by decide, rfl, rfl⟩
  · exact ⟨by decide, rfl, rfl⟩
  · trivial
  · trivial

example : (run (State.init Witness.cfg Witness.g) exampleEvs).tree.flatten.map (fun c => (c.hash, c.status, c.sup.map (fun l => l.sigs.length))) =
    [(0, .finalized, []), (2, .justified, [2])] := by decide +kernel

example : isMajority { src := 0, srcHeight := 0, sigs := [⟨0, true⟩, ⟨1, true⟩, ⟨2, true⟩] } 4 = true := by decide
example : isMajority { src := 0, srcHeight := 0, sigs := [⟨0, true⟩, ⟨1, true⟩] } 3 = false := by decide

end BytomModel.Props.C17
