/-
C27 — Built and signed wallet transactions are valid and pay as requested.

Theorems are about `BytomModel.Model.Builder` (MergeSpendAction, spendAction.Build on top of
the keeper's Reserve, control/retire actions, txbuilder.Build's error collection and
rollback, TxData.Fee), which `./check C27` runs against the real account.Manager and
txbuilder on every run. Programs, signatures and VM execution are outside this model: that
the signed transaction passes `validation.ValidateTx` is established on the real code by the
harness for every balanced request it generates (and composes, once those models are shared,
with C01 `validate_complete`, C02 and C28).
-/
import BytomModel.Model.Builder
import BytomModel.Lemmas.Builder
import BytomModel.Lemmas.Mux
import BytomModel.Lemmas.Materialize
import BytomModel.Props.C26

namespace BytomModel.Props.C27
open BytomModel.Model.Keeper BytomModel.Model.Builder BytomModel.Lemmas.Keeper BytomModel.Lemmas.Builder BytomModel.Lemmas.Mux

theorem build_ok_inv (sortFn : List Utxo → List Utxo) (hperm : ∀ l, (sortFn l).Perm l) (k k' : Keeper) (exp : Nat)
    (actions : List Action) (t : Tpl) (h : buildWith sortFn k exp actions = (.ok t, k')) :
    BInv actions ⟨t.ins, t.outs, []⟩ ∧ t.fee = fee t.ins t.outs := by
  unfold buildWith at h
  cases hr : runActions sortFn exp actions 0 (k, ⟨[], [], []⟩) with
  | mk s errs =>
    obtain ⟨k1, b⟩ := s
    rw [hr] at h
    simp only at h
    cases errs with
    | cons e es => simp at h
    | nil =>
      simp only [List.isEmpty_nil, if_true, Prod.mk.injEq, Except.ok.injEq] at h
      obtain ⟨rfl, rfl⟩ := h
      have := runActions_inv sortFn hperm exp actions 0 (k, ⟨[], [], []⟩) (k1, b) [] hr binv_empty
      simp only [List.nil_append] at this
      exact ⟨⟨this.bal, this.recips, this.change, this.insrc, this.pos⟩, rfl⟩

/-- `built_tx_balances`: for every asset, what the template's inputs carry beyond its outputs
    is exactly what the request spends beyond what it pays out (change outputs cancel). -/
theorem built_tx_balances (sortFn : List Utxo → List Utxo) (hperm : ∀ l, (sortFn l).Perm l) (k k' : Keeper) (exp : Nat)
    (actions : List Action) (t : Tpl) (h : buildWith sortFn k exp actions = (.ok t, k')) (asset : Nat) :
    ofAssetIn asset t.ins + recvReq asset actions = ofAssetOut asset t.outs + spendReq asset actions :=
  (build_ok_inv sortFn hperm k k' exp actions t h).1.bal asset

/-- a request balances when every non-BTM asset is paid out exactly and BTM leaves a fee -/
def Balanced (actions : List Action) : Prop :=
  (∀ asset, asset ≠ btm → spendReq asset actions = recvReq asset actions) ∧
  recvReq btm actions ≤ spendReq btm actions

/-- `built_tx_valid_balance`: for a balanced request the template balances as consensus
    requires (inputs = outputs for every other asset, BTM inputs ≥ outputs) and
    `tpl.Fee` = BTM in − BTM out = requested BTM spend − requested BTM payments. -/
theorem built_tx_valid_balance (sortFn : List Utxo → List Utxo) (hperm : ∀ l, (sortFn l).Perm l) (k k' : Keeper) (exp : Nat)
    (actions : List Action) (t : Tpl) (h : buildWith sortFn k exp actions = (.ok t, k')) (hb : Balanced actions) :
    (∀ asset, asset ≠ btm → ofAssetIn asset t.ins = ofAssetOut asset t.outs) ∧
    ofAssetOut btm t.outs ≤ ofAssetIn btm t.ins ∧
    t.fee = ofAssetIn btm t.ins - ofAssetOut btm t.outs ∧
    t.fee = spendReq btm actions - recvReq btm actions := by
  obtain ⟨hinv, hfee⟩ := build_ok_inv sortFn hperm k k' exp actions t h
  have hbtm := hinv.bal btm
  dsimp only at hbtm
  refine ⟨?_, by have := hb.2; omega, ?_, ?_⟩
  · intro asset hne
    have h1 := hinv.bal asset
    dsimp only at h1
    have := hb.1 asset hne
    omega
  · rw [hfee]; unfold fee; split_ifs <;> omega
  · rw [hfee]; unfold fee; have := hb.2; split_ifs <;> omega

/-- the fee is always BTM inputs minus BTM outputs (0 when outputs exceed inputs) -/
theorem fee_spec (sortFn : List Utxo → List Utxo) (hperm : ∀ l, (sortFn l).Perm l) (k k' : Keeper) (exp : Nat)
    (actions : List Action) (t : Tpl) (h : buildWith sortFn k exp actions = (.ok t, k')) :
    t.fee = ofAssetIn btm t.ins - ofAssetOut btm t.outs := by
  rw [(build_ok_inv sortFn hperm k k' exp actions t h).2]
  unfold fee; split_ifs <;> omega

/-- `recipients_paid_exactly`: the template's non-change outputs are exactly the requested
    control / retire outputs (asset, amount, program), in request order. -/
theorem recipients_paid_exactly (sortFn : List Utxo → List Utxo) (hperm : ∀ l, (sortFn l).Perm l) (k k' : Keeper) (exp : Nat)
    (actions : List Action) (t : Tpl) (h : buildWith sortFn k exp actions = (.ok t, k')) :
    t.outs.filter (fun o => o.kind != .change) = reqOuts actions :=
  (build_ok_inv sortFn hperm k k' exp actions t h).1.recips

/-- `change_returns_to_spender`: every change output carries the program of an input of the
    same asset that belongs to an account whose spend action of that asset is in the request
    (wallet UTXO records carry the account that owns their program: C24 `attach_only_owned`). -/
theorem change_returns_to_spender (sortFn : List Utxo → List Utxo) (hperm : ∀ l, (sortFn l).Perm l) (k k' : Keeper) (exp : Nat)
    (actions : List Action) (t : Tpl) (h : buildWith sortFn k exp actions = (.ok t, k')) (o : TOut) (ho : o ∈ t.outs)
    (hk : o.kind = .change) :
    ∃ acct amount useUnc, Action.spend acct o.asset amount useUnc ∈ actions ∧
      ∃ u ∈ t.ins, u.account = acct ∧ u.prog = o.prog ∧ u.asset = o.asset :=
  (build_ok_inv sortFn hperm k k' exp actions t h).1.change o ho hk

/-- every input spends an output of an account and asset some spend action names -/
theorem inputs_from_requested_accounts (sortFn : List Utxo → List Utxo) (hperm : ∀ l, (sortFn l).Perm l) (k k' : Keeper) (exp : Nat)
    (actions : List Action) (t : Tpl) (h : buildWith sortFn k exp actions = (.ok t, k')) (u : Utxo) (hu : u ∈ t.ins) :
    ∃ acct amount useUnc, Action.spend acct u.asset amount useUnc ∈ actions ∧ u.account = acct :=
  (build_ok_inv sortFn hperm k k' exp actions t h).1.insrc u hu

/-- the former F16 witness through the builder: output 1 (amount 5) is a wallet-DB record and
    unconfirmed; it is listed once now, so a spend of 8 is refused and a spend of 4 spends it once -/
example : (build { empty with confirmed := [⟨1, 0, 5, 1, 0, 0, false, 1⟩], unconfirmed := [⟨1, 0, 5, 1, 0, 0, false, 1⟩] }
    100 [.spend 1 0 8 true, .control 0 7 5]).1 = .error [(0, .reserve .insufficient)] := by decide
example : (build { empty with confirmed := [⟨1, 0, 5, 1, 0, 0, false, 1⟩], unconfirmed := [⟨1, 0, 5, 1, 0, 0, false, 1⟩] }
    100 [.spend 1 0 4 true, .control 0 3 5]).1 =
    .ok ⟨[⟨1, 0, 5, 1, 0, 0, false, 1⟩], [⟨.change, 0, 1, 1⟩, ⟨.recv, 0, 3, 5⟩], 1⟩ := by decide

/-- `build_inputs_distinct` (full strength): a successfully built template — any keeper state,
    any number of spend actions, accounts and assets — never spends an output twice. -/
theorem build_inputs_distinct (sortFn : List Utxo → List Utxo) (hperm : ∀ l, (sortFn l).Perm l) (k k' : Keeper)
    (exp : Nat) (actions : List Action) (t : Tpl)
    (h : buildWith sortFn k exp actions = (.ok t, k')) : (t.ins.map (·.id)).Nodup := by
  unfold buildWith at h
  cases hr : runActions sortFn exp actions 0 (k, ⟨[], [], []⟩) with
  | mk s errs =>
    obtain ⟨k1, b⟩ := s
    rw [hr] at h
    simp only at h
    cases errs with
    | cons e es => simp at h
    | nil =>
      simp only [List.isEmpty_nil, if_true, Prod.mk.injEq, Except.ok.injEq] at h
      obtain ⟨rfl, rfl⟩ := h
      have := runActions_dinv sortFn hperm exp actions 0 (k, ⟨[], [], []⟩) (k1, b) hr
        ⟨by simp, by intro u hu; simp at hu⟩
      exact this.1

/-- `failed_build_rolls_back`: when any action fails, txbuilder.Build's rollback leaves the
    keeper with exactly the reservations it had before (every reservation made on the way is
    cancelled), the same reserved map, wallet records and height; the keeper invariant holds. -/
theorem failed_build_rolls_back (sortFn : List Utxo → List Utxo) (k k' : Keeper) (hk : Inv k) (exp : Nat)
    (actions : List Action) (es : List (Nat × BErr)) (h : buildWith sortFn k exp actions = (.error es, k')) :
    SameRes k' k ∧ Inv k' := by
  unfold buildWith at h
  obtain ⟨new, hr⟩ := runActions_rinv sortFn exp k actions 0 (k, ⟨[], [], []⟩) [] (rinv_init k hk)
  cases hrun : runActions sortFn exp actions 0 (k, ⟨[], [], []⟩) with
  | mk s errs =>
    obtain ⟨k1, b⟩ := s
    rw [hrun] at h hr
    simp only at h
    cases errs with
    | nil => simp at h
    | cons e rest =>
      simp only [List.isEmpty_cons, Bool.false_eq_true, if_false, Prod.mk.injEq, Except.error.injEq] at h
      obtain ⟨_, rfl⟩ := h
      obtain ⟨hinv, hres, hc, hu, hh⟩ := cancelAll_spec k1 hr.inv b.rids
      have hreseq : (b.rids.foldl cancel k1).reservations = k.reservations := by
        rw [hres, hr.res, hr.rids, List.filter_append]
        have h1 : new.reverse.filter (fun r => !(new.map (·.id)).contains r.id) = [] := by
          rw [List.filter_eq_nil_iff]
          intro r hr'
          have : r.id ∈ new.map (·.id) := List.mem_map_of_mem (List.mem_reverse.mp hr')
          simp [this]
        have h2 : k.reservations.filter (fun r => !(new.map (·.id)).contains r.id) = k.reservations := by
          rw [List.filter_eq_self]
          intro r hr'
          have hb := hk.bound r hr'
          have : ¬ r.id ∈ new.map (·.id) := by
            intro hm
            obtain ⟨r2, hr2, he⟩ := List.mem_map.mp hm
            have := hr.fresh r2 hr2
            have he' : r2.id = r.id := he
            omega
          simp [this]
        rw [h1, h2]; rfl
      refine ⟨⟨hreseq, lookup_of_reservations hinv hk hreseq, ?_, ?_, ?_⟩, hinv⟩
      · rw [hc]; exact hr.same.1
      · rw [hu]; exact hr.same.2.1
      · rw [hh]; exact hr.same.2.2

theorem S_ins (a : Nat) (l : List Utxo) : S a (l.map fun u => (u.asset, u.amount)) = ofAssetIn a l := by
  induction l with
  | nil => simp [S, ofAssetIn, amounts]
  | cons u r ih =>
    simp only [List.map_cons, S, ih, ofAssetIn, List.filter_cons]
    by_cases h : u.asset = a <;> simp [h, amounts_cons]

theorem S_outs (a : Nat) (l : List TOut) : S a (l.map fun o => (o.asset, o.amount)) = ofAssetOut a l := by
  induction l with
  | nil => simp [S, ofAssetOut]
  | cons o r ih =>
    simp only [List.map_cons, S, ih, ofAssetOut, List.filter_cons]
    by_cases h : o.asset = a <;> simp [h]

/-- `built_tx_passes_balance_checks`: for a balanced request (and per-asset input totals within
    int64) the built template passes the model of
    validation's double-spend check and mux balance check (protocol/validation/tx.go), and the
    BTM value handed to `setGas` is exactly `tpl.Fee`. What remains for `ValidateTx` to accept
    is gas sufficiency (explicit side condition) and the programs/signatures (C02/C28). -/
theorem built_tx_passes_balance_checks (sortFn : List Utxo → List Utxo) (hperm : ∀ l, (sortFn l).Perm l)
    (k k' : Keeper) (exp : Nat) (actions : List Action) (t : Tpl)
    (h : buildWith sortFn k exp actions = (.ok t, k')) (hb : Balanced actions)
    (hfit : ∀ asset, ofAssetIn asset t.ins ≤ maxInt64) :
    tplCheck t = .ok (t.fee : Int) := by
  obtain ⟨h1, h2, h3, _⟩ := built_tx_valid_balance sortFn hperm k k' exp actions t h hb
  have hnd := build_inputs_distinct sortFn hperm k k' exp actions t h
  have hpos := (build_ok_inv sortFn hperm k k' exp actions t h).1.pos
  unfold tplCheck
  rw [mux_accepts_balanced (t.ins.map (·.id)) _ _ hnd
    (fun a => by rw [S_ins]; exact hfit a)
    (fun a ha => by rw [S_ins, S_outs]; exact h1 a ha)
    (by rw [S_ins, S_outs]; exact h2)
    (fun d hd => by
      obtain ⟨o, ho, rfl⟩ := List.mem_map.mp hd
      exact hpos o ho)]
  rw [S_ins, S_outs, h3]
  congr 1
  omega

/-- merging spend actions does not change what the request asks for -/
theorem mergeSpends_preserves_recipients (actions : List Action) : reqOuts (mergeSpends actions) = reqOuts actions := by
  unfold mergeSpends
  have key : ∀ (l acc : List Action), reqOuts (l.foldl mergeStep acc) = reqOuts acc ++ reqOuts l := by
    intro l
    induction l with
    | nil => intro acc; simp [reqOuts]
    | cons a r ih =>
      intro acc
      simp only [List.foldl_cons]
      rw [ih]
      cases a with
      | control s m p => simp [mergeStep, reqOuts_append, reqOuts]
      | retire s m => simp [mergeStep, reqOuts_append, reqOuts]
      | spend ac s m u =>
        have hm : ∀ (acc acc' : List Action), mergeInto ac s m u acc = some acc' → reqOuts acc' = reqOuts acc := by
          intro acc
          induction acc with
          | nil => intro acc' h; simp [mergeInto] at h
          | cons x xs ihx =>
            intro acc' h
            cases x with
            | spend a2 s2 m2 u2 =>
              simp only [mergeInto] at h
              split_ifs at h
              · simp only [Option.some.injEq] at h; subst h; simp [reqOuts]
              · cases hrec : mergeInto ac s m u xs with
                | none => rw [hrec] at h; simp at h
                | some ys =>
                  rw [hrec] at h
                  simp only [Option.map_some, Option.some.injEq] at h
                  subst h
                  simp [reqOuts, ihx ys hrec]
            | control s2 m2 p2 =>
              simp only [mergeInto] at h
              cases hrec : mergeInto ac s m u xs with
              | none => rw [hrec] at h; simp at h
              | some ys =>
                rw [hrec] at h
                simp only [Option.map_some, Option.some.injEq] at h
                subst h
                simp [reqOuts, ihx ys hrec]
            | retire s2 m2 =>
              simp only [mergeInto] at h
              cases hrec : mergeInto ac s m u xs with
              | none => rw [hrec] at h; simp at h
              | some ys =>
                rw [hrec] at h
                simp only [Option.map_some, Option.some.injEq] at h
                subst h
                simp [reqOuts, ihx ys hrec]
        simp only [mergeStep]
        cases hmi : mergeInto ac s m u acc with
        | none => simp [reqOuts_append, reqOuts]
        | some acc' => simp [hm acc acc' hmi, reqOuts]
  simpa [reqOuts] using key actions []

/-- non-trivial instance: single-key spend with change, two recipients, one retirement -/
example : (build { empty with confirmed := [⟨1, 0, 2000, 1, 0, 0, false, 1⟩, ⟨2, 1, 300, 1, 0, 0, false, 2⟩] } 100
    [.spend 1 0 1000 false, .spend 1 1 120 false, .control 0 500 5, .retire 0 400, .control 1 120 6]).1 =
    .ok ⟨[⟨1, 0, 2000, 1, 0, 0, false, 1⟩, ⟨2, 1, 300, 1, 0, 0, false, 2⟩],
         [⟨.change, 0, 1000, 1⟩, ⟨.change, 1, 180, 2⟩, ⟨.recv, 0, 500, 5⟩, ⟨.retire, 0, 400, 0⟩, ⟨.recv, 1, 120, 6⟩], 100⟩ := by
  decide

example : Balanced [.spend 1 0 1000 false, .spend 1 1 120 false, .control 0 500 5, .retire 0 400, .control 1 120 6] := by
  refine ⟨fun asset hne => ?_, by decide⟩
  simp only [spendReq, recvReq, btm] at *
  by_cases h1 : asset = 1
  · subst h1; simp
  · have h1' : ¬ 1 = asset := fun x => h1 x.symm
    have h0' : ¬ 0 = asset := fun x => hne x.symm
    simp [h1', h0']


/-! ### any quorum of the key holders yields a witness CHECKMULTISIG accepts -/

open BytomModel.Lemmas.Materialize BytomModel.Lemmas.Multisig BytomModel.VM in
/-- `quorum_subset_witness`: `slots` is the template's `Sigs` array (slot i = signature of key i,
    empty when that holder has not signed), every non-empty slot verifies under its key. If at
    least `m` holders signed — ANY `m` of the `n`, in any order of signing — the materialized
    witness carries exactly `m` signatures and the CHECKMULTISIG matching loop (`matchSigs`,
    C02 `checkmultisig_iff`) accepts them against the key list. -/
theorem quorum_subset_witness (verify : Bytes → Bytes → Bool) (m : Nat) (slots keys : List Bytes)
    (hok : SlotsOK verify slots keys) (hq : m ≤ signedCount slots) :
    (materializeSigs m slots).length = m ∧
    Embeds verify (materializeSigs m slots) keys ∧
    matchSigs verify (materializeSigs m slots) keys = true := by
  obtain ⟨h1, h2⟩ := materialize_spec verify m slots keys hok
  exact ⟨by omega, h2, (matchSigs_iff verify keys _).mpr h2⟩

open BytomModel.Lemmas.Materialize in
/-- fewer signers than the quorum: the witness has fewer than `m` signatures (and
    `SignProgress`, which compares `signedCount` with the quorum, is false) -/
theorem below_quorum_witness_short (verify : BytomModel.VM.Bytes → BytomModel.VM.Bytes → Bool) (m : Nat)
    (slots keys : List BytomModel.VM.Bytes) (hok : SlotsOK verify slots keys) (hq : signedCount slots < m) :
    (materializeSigs m slots).length < m := by
  have := (materialize_spec verify m slots keys hok).1
  omega

/-- 2-of-3 signed by keys 0 and 2 (the middle holder absent): both signatures reach the witness -/
example : materializeSigs 2 [[1], [], [3]] = [[1], [3]] := by decide
/-- 3-of-4 signed by keys 1, 2, 3 -/
example : materializeSigs 3 [[], [2], [3], [4]] = [[2], [3], [4]] := by decide
example : BytomModel.Lemmas.Materialize.SlotsOK (fun k s => s == k) [[1], [], [3]] [[1], [2], [3]] := by
  repeat (first | exact List.Forall₂.nil | apply List.Forall₂.cons) <;> decide

end BytomModel.Props.C27
