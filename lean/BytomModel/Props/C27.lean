import BytomModel.Model.Builder
namespace BytomModel.Props.C27
theorem placeholder : (1:Nat) = 1 := rfl
end BytomModel.Props.C27
