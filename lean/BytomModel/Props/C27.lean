/-
C27 — Built and signed wallet transactions are valid and pay as requested.

Theorems are about `BytomModel.Model.Builder` (MergeSpendAction, spendAction.Build on top of
the keeper's Reserve, control/retire actions, txbuilder.Build's error collection and
rollback, TxData.Fee), which `./check C27` runs against the real account.Manager and
txbuilder on every run. Programs, signatures and VM execution are outside this model: that
the signed transaction passes `validation.ValidateTx` is established on the real code by the
harness for every balanced request it generates (and composes, once those models are shared,
with C01 `validate_complete`, C02 and C28).
-/
import BytomModel.Model.Builder
import BytomModel.Lemmas.Builder
import BytomModel.Lemmas.Mux
import BytomModel.Props.C26

namespace BytomModel.Props.C27
open BytomModel.Model.Keeper BytomModel.Model.Builder BytomModel.Lemmas.Keeper BytomModel.Lemmas.Builder BytomModel.Lemmas.Mux

theorem build_ok_inv (sortFn : List Utxo → List Utxo) (hperm : ∀ l, (sortFn l).Perm l) (k k' : Keeper) (exp : Nat)
    (actions : List Action) (t : Tpl) (h : buildWith sortFn k exp actions = (.ok t, k')) :
    BInv actions ⟨t.ins, t.outs, []⟩ ∧ t.fee = fee t.ins t.outs := by
  unfold buildWith at h
  cases hr : runActions sortFn exp actions 0 (k, ⟨[], [], []⟩) with
  | mk s errs =>
    obtain ⟨k1, b⟩ := s
    rw [hr] at h
    simp only at h
    cases errs with
    | cons e es => simp at h
    | nil =>
      simp only [List.isEmpty_nil, if_true, Prod.mk.injEq, Except.ok.injEq] at h
      obtain ⟨rfl, rfl⟩ := h
      have := runActions_inv sortFn hperm exp actions 0 (k, ⟨[], [], []⟩) (k1, b) [] hr binv_empty
      simp only [List.nil_append] at this
      exact ⟨⟨this.bal, this.recips, this.change, this.insrc, this.pos⟩, rfl⟩

/-- `built_tx_balances`: for every asset, what the template's inputs carry beyond its outputs
    is exactly what the request spends beyond what it pays out (change outputs cancel). -/
theorem built_tx_balances (sortFn : List Utxo → List Utxo) (hperm : ∀ l, (sortFn l).Perm l) (k k' : Keeper) (exp : Nat)
    (actions : List Action) (t : Tpl) (h : buildWith sortFn k exp actions = (.ok t, k')) (asset : Nat) :
    ofAssetIn asset t.ins + recvReq asset actions = ofAssetOut asset t.outs + spendReq asset actions :=
  (build_ok_inv sortFn hperm k k' exp actions t h).1.bal asset

/-- a request balances when every non-BTM asset is paid out exactly and BTM leaves a fee -/
def Balanced (actions : List Action) : Prop :=
  (∀ asset, asset ≠ btm → spendReq asset actions = recvReq asset actions) ∧
  recvReq btm actions ≤ spendReq btm actions

/-- `built_tx_valid_balance`: for a balanced request the template balances as consensus
    requires (inputs = outputs for every other asset, BTM inputs ≥ outputs) and
    `tpl.Fee` = BTM in − BTM out = requested BTM spend − requested BTM payments. -/
theorem built_tx_valid_balance (sortFn : List Utxo → List Utxo) (hperm : ∀ l, (sortFn l).Perm l) (k k' : Keeper) (exp : Nat)
    (actions : List Action) (t : Tpl) (h : buildWith sortFn k exp actions = (.ok t, k')) (hb : Balanced actions) :
    (∀ asset, asset ≠ btm → ofAssetIn asset t.ins = ofAssetOut asset t.outs) ∧
    ofAssetOut btm t.outs ≤ ofAssetIn btm t.ins ∧
    t.fee = ofAssetIn btm t.ins - ofAssetOut btm t.outs ∧
    t.fee = spendReq btm actions - recvReq btm actions := by
  obtain ⟨hinv, hfee⟩ := build_ok_inv sortFn hperm k k' exp actions t h
  have hbtm := hinv.bal btm
  dsimp only at hbtm
  refine ⟨?_, by have := hb.2; omega, ?_, ?_⟩
  · intro asset hne
    have h1 := hinv.bal asset
    dsimp only at h1
    have := hb.1 asset hne
    omega
  · rw [hfee]; unfold fee; split_ifs <;> omega
  · rw [hfee]; unfold fee; have := hb.2; split_ifs <;> omega

/-- the fee is always BTM inputs minus BTM outputs (0 when outputs exceed inputs) -/
theorem fee_spec (sortFn : List Utxo → List Utxo) (hperm : ∀ l, (sortFn l).Perm l) (k k' : Keeper) (exp : Nat)
    (actions : List Action) (t : Tpl) (h : buildWith sortFn k exp actions = (.ok t, k')) :
    t.fee = ofAssetIn btm t.ins - ofAssetOut btm t.outs := by
  rw [(build_ok_inv sortFn hperm k k' exp actions t h).2]
  unfold fee; split_ifs <;> omega

/-- `recipients_paid_exactly`: the template's non-change outputs are exactly the requested
    control / retire outputs (asset, amount, program), in request order. -/
theorem recipients_paid_exactly (sortFn : List Utxo → List Utxo) (hperm : ∀ l, (sortFn l).Perm l) (k k' : Keeper) (exp : Nat)
    (actions : List Action) (t : Tpl) (h : buildWith sortFn k exp actions = (.ok t, k')) :
    t.outs.filter (fun o => o.kind != .change) = reqOuts actions :=
  (build_ok_inv sortFn hperm k k' exp actions t h).1.recips

/-- `change_returns_to_spender`: every change output carries the program of an input of the
    same asset that belongs to an account whose spend action of that asset is in the request
    (wallet UTXO records carry the account that owns their program: C24 `attach_only_owned`). -/
theorem change_returns_to_spender (sortFn : List Utxo → List Utxo) (hperm : ∀ l, (sortFn l).Perm l) (k k' : Keeper) (exp : Nat)
    (actions : List Action) (t : Tpl) (h : buildWith sortFn k exp actions = (.ok t, k')) (o : TOut) (ho : o ∈ t.outs)
    (hk : o.kind = .change) :
    ∃ acct amount useUnc, Action.spend acct o.asset amount useUnc ∈ actions ∧
      ∃ u ∈ t.ins, u.account = acct ∧ u.prog = o.prog ∧ u.asset = o.asset :=
  (build_ok_inv sortFn hperm k k' exp actions t h).1.change o ho hk

/-- every input spends an output of an account and asset some spend action names -/
theorem inputs_from_requested_accounts (sortFn : List Utxo → List Utxo) (hperm : ∀ l, (sortFn l).Perm l) (k k' : Keeper) (exp : Nat)
    (actions : List Action) (t : Tpl) (h : buildWith sortFn k exp actions = (.ok t, k')) (u : Utxo) (hu : u ∈ t.ins) :
    ∃ acct amount useUnc, Action.spend acct u.asset amount useUnc ∈ actions ∧ u.account = acct :=
  (build_ok_inv sortFn hperm k k' exp actions t h).1.insrc u hu

/-- FULL statement "the template never spends an output twice". Refuted (F16). -/
def inputs_distinct_full : Prop :=
  ∀ (k k' : Keeper) (exp : Nat) (actions : List Action) (t : Tpl),
    build k exp actions = (.ok t, k') → (t.ins.map (·.id)).Nodup

theorem inputs_distinct_full_refuted : ¬ inputs_distinct_full := by
  intro h
  have := h { empty with confirmed := [⟨1, 0, 5, 1, 0, 0, false, 1⟩], unconfirmed := [⟨1, 0, 5, 1, 0, 0, false, 1⟩] }
    _ 100 [.spend 1 0 8 true, .control 0 7 5] _ rfl
  revert this; decide

/-- `build_inputs_distinct_partial`: when no output is listed twice in the wallet (the
    wallet-DB records and the unconfirmed map are disjoint), a successfully built template —
    any number of spend actions, accounts and assets — never spends an output twice. -/
theorem build_inputs_distinct_partial (sortFn : List Utxo → List Utxo) (hperm : ∀ l, (sortFn l).Perm l) (k k' : Keeper)
    (exp : Nat) (actions : List Action) (t : Tpl) (hl : ListedNodup k)
    (h : buildWith sortFn k exp actions = (.ok t, k')) : (t.ins.map (·.id)).Nodup := by
  unfold buildWith at h
  cases hr : runActions sortFn exp actions 0 (k, ⟨[], [], []⟩) with
  | mk s errs =>
    obtain ⟨k1, b⟩ := s
    rw [hr] at h
    simp only at h
    cases errs with
    | cons e es => simp at h
    | nil =>
      simp only [List.isEmpty_nil, if_true, Prod.mk.injEq, Except.ok.injEq] at h
      obtain ⟨rfl, rfl⟩ := h
      have := runActions_dinv sortFn hperm exp actions 0 (k, ⟨[], [], []⟩) (k1, b) hr
        ⟨by simp, by intro u hu; simp at hu⟩ hl
      exact this.1

/-- a single spend action over a wallet without doubly listed outputs spends distinct outputs -/
theorem single_spend_inputs_distinct (sortFn : List Utxo → List Utxo) (hperm : ∀ l, (sortFn l).Perm l) (k : Keeper)
    (acct asset amount : Nat) (useUnc : Bool) (exp : Nat) (s' : Keeper × Builder)
    (hnodup : ((listed k useUnc).map (·.id)).Nodup)
    (h : buildAction sortFn exp (k, ⟨[], [], []⟩) (.spend acct asset amount useUnc) = (s', none)) :
    (s'.2.ins.map (·.id)).Nodup := by
  simp only [buildAction] at h
  by_cases h0 : (amount == 0) = true
  · simp [h0] at h
  · simp only [h0, Bool.false_eq_true, if_false] at h
    cases hres : reserveWith sortFn k acct asset amount useUnc 0 exp with
    | mk o k1 =>
      rw [hres] at h
      cases o with
      | err e => simp at h
      | panic => simp at h
      | ok r =>
        have hd := (BytomModel.Props.C26.reserve_distinct_partial sortFn hperm k acct asset amount useUnc 0 exp r k1 hnodup hres).1
        simp only at h
        by_cases hbad : (r.utxos.takeWhile (fun u => decide (u.amount ≤ maxInt64))).length < r.utxos.length
        · simp [hbad] at h
        · simp only [hbad, if_false] at h
          by_cases hchg : r.change > 0
          · simp only [hchg, if_true] at h
            cases hu0 : r.utxos with
            | nil => rw [hu0] at h; simp at h
            | cons u0 tl =>
              rw [hu0] at h hd
              simp only at h
              by_cases hmax : r.change > maxInt64
              · simp [hmax] at h
              · simp only [hmax, if_false, Prod.mk.injEq, and_true] at h
                subst h
                simpa using hd
          · simp only [hchg, if_false, Prod.mk.injEq, and_true] at h
            subst h
            simpa using hd

/-- `failed_build_rolls_back`: when any action fails, txbuilder.Build's rollback leaves the
    keeper with exactly the reservations it had before (every reservation made on the way is
    cancelled), the same reserved map, wallet records and height; the keeper invariant holds. -/
theorem failed_build_rolls_back (sortFn : List Utxo → List Utxo) (k k' : Keeper) (hk : Inv k) (exp : Nat)
    (actions : List Action) (es : List (Nat × BErr)) (h : buildWith sortFn k exp actions = (.error es, k')) :
    SameRes k' k ∧ Inv k' := by
  unfold buildWith at h
  obtain ⟨new, hr⟩ := runActions_rinv sortFn exp k actions 0 (k, ⟨[], [], []⟩) [] (rinv_init k hk)
  cases hrun : runActions sortFn exp actions 0 (k, ⟨[], [], []⟩) with
  | mk s errs =>
    obtain ⟨k1, b⟩ := s
    rw [hrun] at h hr
    simp only at h
    cases errs with
    | nil => simp at h
    | cons e rest =>
      simp only [List.isEmpty_cons, Bool.false_eq_true, if_false, Prod.mk.injEq, Except.error.injEq] at h
      obtain ⟨_, rfl⟩ := h
      obtain ⟨hinv, hres, hc, hu, hh⟩ := cancelAll_spec k1 hr.inv b.rids
      have hreseq : (b.rids.foldl cancel k1).reservations = k.reservations := by
        rw [hres, hr.res, hr.rids, List.filter_append]
        have h1 : new.reverse.filter (fun r => !(new.map (·.id)).contains r.id) = [] := by
          rw [List.filter_eq_nil_iff]
          intro r hr'
          have : r.id ∈ new.map (·.id) := List.mem_map_of_mem (List.mem_reverse.mp hr')
          simp [this]
        have h2 : k.reservations.filter (fun r => !(new.map (·.id)).contains r.id) = k.reservations := by
          rw [List.filter_eq_self]
          intro r hr'
          have hb := hk.bound r hr'
          have : ¬ r.id ∈ new.map (·.id) := by
            intro hm
            obtain ⟨r2, hr2, he⟩ := List.mem_map.mp hm
            have := hr.fresh r2 hr2
            have he' : r2.id = r.id := he
            omega
          simp [this]
        rw [h1, h2]; rfl
      refine ⟨⟨hreseq, lookup_of_reservations hinv hk hreseq, ?_, ?_, ?_⟩, hinv⟩
      · rw [hc]; exact hr.same.1
      · rw [hu]; exact hr.same.2.1
      · rw [hh]; exact hr.same.2.2

theorem S_ins (a : Nat) (l : List Utxo) : S a (l.map fun u => (u.asset, u.amount)) = ofAssetIn a l := by
  induction l with
  | nil => simp [S, ofAssetIn, amounts]
  | cons u r ih =>
    simp only [List.map_cons, S, ih, ofAssetIn, List.filter_cons]
    by_cases h : u.asset = a <;> simp [h, amounts_cons]

theorem S_outs (a : Nat) (l : List TOut) : S a (l.map fun o => (o.asset, o.amount)) = ofAssetOut a l := by
  induction l with
  | nil => simp [S, ofAssetOut]
  | cons o r ih =>
    simp only [List.map_cons, S, ih, ofAssetOut, List.filter_cons]
    by_cases h : o.asset = a <;> simp [h]

/-- `built_tx_passes_balance_checks`: for a balanced request over a wallet without doubly listed
    outputs (and per-asset input totals within int64) the built template passes the model of
    validation's double-spend check and mux balance check (protocol/validation/tx.go), and the
    BTM value handed to `setGas` is exactly `tpl.Fee`. What remains for `ValidateTx` to accept
    is gas sufficiency (explicit side condition) and the programs/signatures (C02/C28). -/
theorem built_tx_passes_balance_checks (sortFn : List Utxo → List Utxo) (hperm : ∀ l, (sortFn l).Perm l)
    (k k' : Keeper) (exp : Nat) (actions : List Action) (t : Tpl) (hl : ListedNodup k)
    (h : buildWith sortFn k exp actions = (.ok t, k')) (hb : Balanced actions)
    (hfit : ∀ asset, ofAssetIn asset t.ins ≤ maxInt64) :
    tplCheck t = .ok (t.fee : Int) := by
  obtain ⟨h1, h2, h3, _⟩ := built_tx_valid_balance sortFn hperm k k' exp actions t h hb
  have hnd := build_inputs_distinct_partial sortFn hperm k k' exp actions t hl h
  have hpos := (build_ok_inv sortFn hperm k k' exp actions t h).1.pos
  unfold tplCheck
  rw [mux_accepts_balanced (t.ins.map (·.id)) _ _ hnd
    (fun a => by rw [S_ins]; exact hfit a)
    (fun a ha => by rw [S_ins, S_outs]; exact h1 a ha)
    (by rw [S_ins, S_outs]; exact h2)
    (fun d hd => by
      obtain ⟨o, ho, rfl⟩ := List.mem_map.mp hd
      exact hpos o ho)]
  rw [S_ins, S_outs, h3]
  congr 1
  omega

/-- merging spend actions does not change what the request asks for -/
theorem mergeSpends_preserves_recipients (actions : List Action) : reqOuts (mergeSpends actions) = reqOuts actions := by
  unfold mergeSpends
  have key : ∀ (l acc : List Action), reqOuts (l.foldl mergeStep acc) = reqOuts acc ++ reqOuts l := by
    intro l
    induction l with
    | nil => intro acc; simp [reqOuts]
    | cons a r ih =>
      intro acc
      simp only [List.foldl_cons]
      rw [ih]
      cases a with
      | control s m p => simp [mergeStep, reqOuts_append, reqOuts]
      | retire s m => simp [mergeStep, reqOuts_append, reqOuts]
      | spend ac s m u =>
        have hm : ∀ (acc acc' : List Action), mergeInto ac s m u acc = some acc' → reqOuts acc' = reqOuts acc := by
          intro acc
          induction acc with
          | nil => intro acc' h; simp [mergeInto] at h
          | cons x xs ihx =>
            intro acc' h
            cases x with
            | spend a2 s2 m2 u2 =>
              simp only [mergeInto] at h
              split_ifs at h
              · simp only [Option.some.injEq] at h; subst h; simp [reqOuts]
              · cases hrec : mergeInto ac s m u xs with
                | none => rw [hrec] at h; simp at h
                | some ys =>
                  rw [hrec] at h
                  simp only [Option.map_some, Option.some.injEq] at h
                  subst h
                  simp [reqOuts, ihx ys hrec]
            | control s2 m2 p2 =>
              simp only [mergeInto] at h
              cases hrec : mergeInto ac s m u xs with
              | none => rw [hrec] at h; simp at h
              | some ys =>
                rw [hrec] at h
                simp only [Option.map_some, Option.some.injEq] at h
                subst h
                simp [reqOuts, ihx ys hrec]
            | retire s2 m2 =>
              simp only [mergeInto] at h
              cases hrec : mergeInto ac s m u xs with
              | none => rw [hrec] at h; simp at h
              | some ys =>
                rw [hrec] at h
                simp only [Option.map_some, Option.some.injEq] at h
                subst h
                simp [reqOuts, ihx ys hrec]
        simp only [mergeStep]
        cases hmi : mergeInto ac s m u acc with
        | none => simp [reqOuts_append, reqOuts]
        | some acc' => simp [hm acc acc' hmi, reqOuts]
  simpa [reqOuts] using key actions []

/-- `ListedNodup` holds for a wallet whose DB records and unconfirmed outputs are different outputs -/
example : ListedNodup { empty with confirmed := [⟨1, 0, 2000, 1, 0, 0, false, 1⟩], unconfirmed := [⟨2, 1, 300, 1, 0, 0, false, 2⟩] } := by
  intro u; cases u <;> decide

/-- non-trivial instance: single-key spend with change, two recipients, one retirement -/
example : (build { empty with confirmed := [⟨1, 0, 2000, 1, 0, 0, false, 1⟩, ⟨2, 1, 300, 1, 0, 0, false, 2⟩] } 100
    [.spend 1 0 1000 false, .spend 1 1 120 false, .control 0 500 5, .retire 0 400, .control 1 120 6]).1 =
    .ok ⟨[⟨1, 0, 2000, 1, 0, 0, false, 1⟩, ⟨2, 1, 300, 1, 0, 0, false, 2⟩],
         [⟨.change, 0, 1000, 1⟩, ⟨.change, 1, 180, 2⟩, ⟨.recv, 0, 500, 5⟩, ⟨.retire, 0, 400, 0⟩, ⟨.recv, 1, 120, 6⟩], 100⟩ := by
  decide

example : Balanced [.spend 1 0 1000 false, .spend 1 1 120 false, .control 0 500 5, .retire 0 400, .control 1 120 6] := by
  refine ⟨fun asset hne => ?_, by decide⟩
  simp only [spendReq, recvReq, btm] at *
  by_cases h1 : asset = 1
  · subst h1; simp
  · have h1' : ¬ 1 = asset := fun x => h1 x.symm
    have h0' : ¬ 0 = asset := fun x => hne x.symm
    simp [h1', h0']

end BytomModel.Props.C27
