/-
C22 — mempool bookkeeping stays consistent.

Model: `Model/TxPool.lean` (protocol/txpool.go as it is, entered through the skeleton of
`Chain.ValidateTx`).  A history is a list of `submit tx | remove id | expire k` from the empty
pool; `U` is the universe of transactions that are ever submitted, `WF U` says that ids
determine transactions and result ids determine their transaction (hash collision freedom).

For ALL histories (`pool_inv`, by induction over the history and over the `processOrphans`
queue):
  (1)  the output index is exactly the set of original outputs of pooled transactions
       (`utxo_index_exact`);
  (2a) the orphan index has no dangling entries: every entry sits in a non-empty bucket, under
       an output its orphan really spends, and its orphan is registered (`index_no_dangling`).
The remaining clauses are FALSE for the code as it is — checkOrphanUtxos aliases its range
variable (F13), processOrphans drops a promoted orphan when the pool is full (P22):
  (2b) `c22_indexed_full_refuted`, (2a') `c22_waiting_full_refuted`,
  (3)  `c22_disjoint_full_refuted`, (4) `c22_promoted_full_refuted`,
  and with single-input transactions only: `c22_single_input_poolfull_refuted`.
Partial results about the alias: it is invisible for transactions with at most one input
(`requireParents_single`), in general it returns the last spent id once per missing parent
(`requireParents_alias`), and a single-input orphan is indexed under the output it waits for at
insertion (`single_input_orphan_indexed`).
-/
import BytomModel.Lemmas.TxPoolIndex

namespace BytomModel.Props.C22
open BytomModel.TxPool BytomModel.Lemmas.TxPool

/-! ### invariants of every history -/

/-- **C22 (1)+(2a), all histories.** -/
theorem pool_inv (U : List Tx) (wf : WF U) (c : Cfg) (ops : List Op) (hops : ∀ op ∈ ops, OpIn U op) :
    Inv U (run c ops) :=
  inv_runFrom wf c ops Pool.empty 0 (Inv.empty U) hops

/-- (1) the pool's output index lists exactly the original outputs of pooled transactions -/
theorem utxo_index_exact (U : List Tx) (wf : WF U) (c : Cfg) (ops : List Op) (hops : ∀ op ∈ ops, OpIn U op)
    (o : Out) (t : Nat) :
    amGet (run c ops).utxo o = some t ↔ ∃ tx, amGet (run c ops).pool t = some tx ∧ (o, true) ∈ tx.results := by
  have h := pool_inv U wf c ops hops
  exact ⟨h.utxoSound o t, fun ⟨tx, hp, hr⟩ => h.utxoComplete t tx hp o hr⟩

/-- (2a) no dangling index entries -/
theorem index_no_dangling (U : List Tx) (wf : WF U) (c : Cfg) (ops : List Op) (hops : ∀ op ∈ ops, OpIn U op)
    (p : Out) (m : List (Nat × Tx)) (hm : amGet (run c ops).byPrev p = some m) :
    m ≠ [] ∧ ∀ e ∈ m, p ∈ e.2.spent ∧ e.2.id = e.1 ∧ e.2 ∈ U ∧
      ∃ st, amGet (run c ops).orphans e.1 = some ⟨e.2, st⟩ := by
  have h := pool_inv U wf c ops hops
  obtain ⟨hne, hall⟩ := h.index p m hm
  refine ⟨hne, fun e he => ?_⟩
  obtain ⟨hs, st, hst⟩ := hall e he
  have := h.orphWF e.1 _ hst
  exact ⟨hs, this.2, this.1, st, hst⟩

/-- pooled and orphaned transactions are transactions of the universe under their own id -/
theorem maps_well_keyed (U : List Tx) (wf : WF U) (c : Cfg) (ops : List Op) (hops : ∀ op ∈ ops, OpIn U op) :
    (∀ t tx, amGet (run c ops).pool t = some tx → tx ∈ U ∧ tx.id = t) ∧
    (∀ t o, amGet (run c ops).orphans t = some o → o.tx ∈ U ∧ o.tx.id = t) :=
  ⟨(pool_inv U wf c ops hops).poolWF, (pool_inv U wf c ops hops).orphWF⟩

/-! witnesses: a non-trivial universe meets the hypotheses (tests by evaluation) -/

def wT1 : Tx := ⟨1, [1000], [(10, true)], false⟩
def wT2 : Tx := ⟨2, [1001], [(20, true)], false⟩
def wT3 : Tx := ⟨3, [10, 20], [(30, true), (31, false)], false⟩
def wU : List Tx := [wT1, wT2, wT3]
def wCfg : Cfg := ⟨[1000, 1001], 10000, 2000⟩

example : WF wU := ⟨by decide, by decide⟩
example : ∀ op ∈ [Op.submit wT3, .submit wT2, .remove 2, .expire 0, .submit wT1], OpIn wU op := by
  intro op h
  simp only [List.mem_cons, List.mem_nil_iff, or_false] at h
  rcases h with h | h | h | h | h <;> subst h <;> simp [OpIn, wU]

/-! ### the range-variable alias -/

/-- what `checkOrphanUtxos` returns under go 1.16: the LAST spent id, once per missing parent -/
theorem requireParents_alias (c : Cfg) (s : Pool) (tx : Tx) (l : Out) (hl : tx.spent.getLast? = some l) :
    requireParents c s tx = List.replicate (missing c s tx).length l := by
  unfold requireParents
  rw [hl]
  simp only
  generalize missing c s tx = ms
  induction ms with
  | nil => rfl
  | cons x xs ih => simp [List.replicate_succ, ih]

/-- the alias is invisible for a transaction with at most one input -/
theorem requireParents_single (c : Cfg) (s : Pool) (tx : Tx) (h : tx.spent.length ≤ 1) :
    requireParents c s tx = missing c s tx := by
  unfold requireParents missing
  generalize (fun o => !(c.conf.contains o) && !(amHas s.utxo o)) = q
  match hs : tx.spent with
  | [] => simp
  | [p] => cases hqp : q p <;> simp [List.filter, hqp]
  | _ :: _ :: _ => rw [hs] at h; simp at h

theorem mem_amSet_self {β : Type} (l : List (Nat × β)) (k : Nat) (v : β) : (k, v) ∈ amSet l k v := by
  induction l with
  | nil => simp [amSet]
  | cons x l ih =>
    obtain ⟨a, b⟩ := x
    unfold amSet
    split
    · simp
    · exact List.mem_cons_of_mem _ ih

/-- a single-input transaction that is parked as an orphan is indexed under the output it
    waits for (so for such transactions the insertion side of clause (2b) holds) -/
theorem single_input_orphan_indexed (c : Cfg) (s : Pool) (tx : Tx) (now : Nat) (p : Out)
    (hs : tx.spent = [p]) (hmiss : missing c s tx ≠ []) (hroom : s.orphans.length < c.maxOrphan) :
    ∃ m, amGet (addOrphan c s tx now (requireParents c s tx)).1.byPrev p = some m ∧ (tx.id, tx) ∈ m := by
  have hreq : requireParents c s tx = [p] := by
    rw [requireParents_single c s tx (by simp [hs])]
    unfold missing at hmiss ⊢
    rw [hs] at hmiss ⊢
    generalize (fun o => !(c.conf.contains o) && !(amHas s.utxo o)) = q at hmiss ⊢
    cases hqp : q p
    · simp [List.filter, hqp] at hmiss
    · simp [List.filter, hqp]
  rw [hreq]
  unfold addOrphan
  have : ¬ s.orphans.length ≥ c.maxOrphan := by omega
  simp only [this, if_false, List.foldl_cons, List.foldl_nil]
  cases hb : amGet s.byPrev p with
  | none => exact ⟨[(tx.id, tx)], by rw [amGet_amSet]; simp, by simp⟩
  | some m0 => exact ⟨amSet m0 tx.id tx, by rw [amGet_amSet]; simp, mem_amSet_self _ _ _⟩

/-! ### the clauses the code as it is violates -/

def available (c : Cfg) (s : Pool) (o : Out) : Bool := c.conf.contains o || amHas s.utxo o

def inBucket (s : Pool) (p : Out) (id : Nat) : Bool :=
  match amGet s.byPrev p with
  | none => false
  | some m => amHas m id

/-- (2b) every orphan is indexed under every unavailable output it spends -/
def inv2b (c : Cfg) (s : Pool) : Prop :=
  ∀ e ∈ s.orphans, ∀ p ∈ e.2.tx.spent, available c s p = false → inBucket s p e.1 = true
/-- (2a') every index bucket sits under an unavailable output -/
def inv2a' (c : Cfg) (s : Pool) : Prop := ∀ b ∈ s.byPrev, available c s b.1 = false
/-- (3) no transaction is both pooled and orphaned -/
def inv3 (s : Pool) : Prop := ∀ e ∈ s.orphans, amHas s.pool e.1 = false
/-- (4) no registered orphan has all its spent outputs available -/
def inv4 (c : Cfg) (s : Pool) : Prop := ∀ e ∈ s.orphans, ∃ o ∈ e.2.tx.spent, available c s o = false

instance (c : Cfg) (s : Pool) : Decidable (inv2b c s) := by unfold inv2b; infer_instance
instance (c : Cfg) (s : Pool) : Decidable (inv2a' c s) := by unfold inv2a'; infer_instance
instance (s : Pool) : Decidable (inv3 s) := by unfold inv3; infer_instance
instance (c : Cfg) (s : Pool) : Decidable (inv4 c s) := by unfold inv4; infer_instance

/-- the statement of a clause "for every well-formed universe and history" -/
def Always (P : Cfg → Pool → Prop) : Prop :=
  ∀ (U : List Tx), WF U → ∀ (c : Cfg) (ops : List Op), (∀ op ∈ ops, OpIn U op) → P c (run c ops)

theorem wU_wf : WF wU := ⟨by decide, by decide⟩

theorem opIn_of_submits (U : List Tx) (txs : List Tx) (h : ∀ t ∈ txs, t ∈ U) :
    ∀ op ∈ txs.map Op.submit, OpIn U op := by
  intro op hop
  obtain ⟨t, ht, e⟩ := List.mem_map.mp hop
  subst e
  exact h t ht

/-- F13a: a two-parent orphan is indexed only under its last spent output -/
theorem c22_indexed_full_refuted : ¬ Always inv2b := by
  intro h
  have := h wU wU_wf wCfg ([wT3].map Op.submit) (opIn_of_submits _ _ (by decide))
  revert this
  decide

/-- F13b: the last spent output is confirmed, the orphan is indexed under that available output -/
theorem c22_waiting_full_refuted : ¬ Always inv2a' := by
  intro h
  let t2 : Tx := ⟨2, [10, 1001], [(20, true)], false⟩
  have := h [wT1, t2] ⟨by decide, by decide⟩ ⟨[1001], 10000, 2000⟩ ([t2].map Op.submit)
    (opIn_of_submits _ _ (by decide))
  revert this
  decide

/-- F13c: delivered before its parents (last-listed parent first), a two-parent orphan is never promoted -/
theorem c22_promoted_full_refuted : ¬ Always inv4 := by
  intro h
  have := h wU wU_wf wCfg ([wT3, wT2, wT1].map Op.submit) (opIn_of_submits _ _ (by decide))
  revert this
  decide

/-- F13d: the stuck orphan, submitted again, is pooled and orphaned at once -/
theorem c22_disjoint_full_refuted : ¬ Always (fun _ s => inv3 s) := by
  intro h
  have := h wU wU_wf wCfg ([wT3, wT2, wT1, wT3].map Op.submit) (opIn_of_submits _ _ (by decide))
  revert this
  decide

/-- every transaction of the universe spends at most one output -/
def SingleInput (U : List Tx) : Prop := ∀ t ∈ U, t.spent.length ≤ 1

instance (U : List Tx) : Decidable (SingleInput U) := by unfold SingleInput; infer_instance

/-- P22: even with single-input transactions only, a pool at its limit inside `processOrphans`
    drops the promoted orphan and leaves its dependant un-indexed -/
theorem c22_single_input_poolfull_refuted :
    ¬ ∀ (U : List Tx), WF U → SingleInput U → ∀ (c : Cfg) (ops : List Op), (∀ op ∈ ops, OpIn U op) →
        inv2b c (run c ops) := by
  intro h
  let t1 : Tx := ⟨1, [1000], [(10, true)], false⟩
  let t2 : Tx := ⟨2, [10], [(20, true)], false⟩
  let t3 : Tx := ⟨3, [20], [(30, true)], false⟩
  have := h [t1, t2, t3] ⟨by decide, by decide⟩ (by decide) ⟨[1000], 1, 2000⟩ ([t3, t2, t1].map Op.submit)
    (opIn_of_submits _ _ (by decide))
  revert this
  decide

end BytomModel.Props.C22
