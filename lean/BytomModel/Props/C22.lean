/-
C22 — mempool bookkeeping stays consistent.

Model: `Model/TxPool.lean` (protocol/txpool.go as it is NOW — after ec6e367b `checkOrphanUtxos`
returns each missing parent — entered through the skeleton of `Chain.ValidateTx`).  A history is
a list of `submit tx | remove id | expire k` from the empty pool; `U` is the universe of
transactions that are ever submitted, `WF U` says that ids determine transactions and result ids
determine their transaction.

For ALL histories:
  (1)   `utxo_index_exact`  — the output index is exactly the original outputs of pooled txs;
  (2a)  `index_no_dangling` — every index entry sits in a non-empty bucket, under an output its
        orphan really spends, and its orphan is registered (`pool_inv`);
  (2a') `index_under_unavailable` — every bucket sits under an output that is neither confirmed
        nor created by a pooled tx (NEW: false before the repair, F13b);
  (2b, insertion side) `orphan_indexed_at_insertion` — a transaction parked as an orphan is indexed
        under EACH of its missing parents, whatever their number (false before the repair, F13a).
For all CALM histories — no `RemoveTransaction`, pool below `maxNewTxNum` after every operation —
over universes whose transactions only spend original outputs (`NoRetSpend`):
  (2b)+(3)+(4) `calm_history_consistent` — every orphan is indexed under every output it waits
        for, no transaction is pooled and orphaned, and no orphan has all parents available, i.e.
        promotion is eager and transitive for chains, diamonds and multi-parent orphans (the
        `processOrphans` queue is run to exhaustion; its fuel is proved sufficient).
Both hypotheses of "calm" are necessary — what still FAILS for the code as it is:
  * `processOrphans`/`addRely` delete the whole bucket of an arrived output; when that parent is
    later removed from the pool (`RemoveTransaction`) the orphan waits for it again but is indexed
    nowhere: `c22_indexed_after_remove_refuted` (2b), `c22_promoted_after_remove_refuted` (4),
    `c22_disjoint_after_remove_refuted` (3) — open findings B22a–c;
  * a pool at its limit inside `processOrphans` drops the promoted orphan:
    `c22_single_input_poolfull_refuted` — open findings P22a–c.
The witnesses of the repaired F13a–d are `example`s that now satisfy all clauses.
-/
import BytomModel.Lemmas.TxPoolPromote3

namespace BytomModel.Props.C22
open BytomModel.TxPool BytomModel.Lemmas.TxPool

/-! ### invariants of every history -/

/-- **C22 (1)+(2a), all histories.** -/
theorem pool_inv (U : List Tx) (wf : WF U) (c : Cfg) (ops : List Op) (hops : ∀ op ∈ ops, OpIn U op) :
    Inv U (run c ops) :=
  inv_runFrom wf c ops Pool.empty 0 (Inv.empty U) hops

/-- (1) the pool's output index lists exactly the original outputs of pooled transactions -/
theorem utxo_index_exact (U : List Tx) (wf : WF U) (c : Cfg) (ops : List Op) (hops : ∀ op ∈ ops, OpIn U op)
    (o : Out) (t : Nat) :
    amGet (run c ops).utxo o = some t ↔ ∃ tx, amGet (run c ops).pool t = some tx ∧ (o, true) ∈ tx.results := by
  have h := pool_inv U wf c ops hops
  exact ⟨h.utxoSound o t, fun ⟨tx, hp, hr⟩ => h.utxoComplete t tx hp o hr⟩

/-- (2a) no dangling index entries -/
theorem index_no_dangling (U : List Tx) (wf : WF U) (c : Cfg) (ops : List Op) (hops : ∀ op ∈ ops, OpIn U op)
    (p : Out) (m : List (Nat × Tx)) (hm : amGet (run c ops).byPrev p = some m) :
    m ≠ [] ∧ ∀ e ∈ m, p ∈ e.2.spent ∧ e.2.id = e.1 ∧ e.2 ∈ U ∧
      ∃ st, amGet (run c ops).orphans e.1 = some ⟨e.2, st⟩ := by
  have h := pool_inv U wf c ops hops
  obtain ⟨hne, hall⟩ := h.index p m hm
  refine ⟨hne, fun e he => ?_⟩
  obtain ⟨hs, st, hst⟩ := hall e he
  have := h.orphWF e.1 _ hst
  exact ⟨hs, this.2, this.1, st, hst⟩

/-- pooled and orphaned transactions are transactions of the universe under their own id -/
theorem maps_well_keyed (U : List Tx) (wf : WF U) (c : Cfg) (ops : List Op) (hops : ∀ op ∈ ops, OpIn U op) :
    (∀ t tx, amGet (run c ops).pool t = some tx → tx ∈ U ∧ tx.id = t) ∧
    (∀ t o, amGet (run c ops).orphans t = some o → o.tx ∈ U ∧ o.tx.id = t) :=
  ⟨(pool_inv U wf c ops hops).poolWF, (pool_inv U wf c ops hops).orphWF⟩

/-! witnesses: a non-trivial universe meets the hypotheses (tests by evaluation) -/

def wT1 : Tx := ⟨1, [1000], [(10, true)], false⟩
def wT2 : Tx := ⟨2, [1001], [(20, true)], false⟩
def wT3 : Tx := ⟨3, [10, 20], [(30, true), (31, false)], false⟩
def wU : List Tx := [wT1, wT2, wT3]
def wCfg : Cfg := ⟨[1000, 1001], 10000, 2000⟩

example : WF wU := ⟨by decide, by decide⟩
example : ∀ op ∈ [Op.submit wT3, .submit wT2, .remove 2, .expire 0, .submit wT1], OpIn wU op := by
  intro op h
  simp only [List.mem_cons, List.mem_nil_iff, or_false] at h
  rcases h with h | h | h | h | h <;> subst h <;> simp [OpIn, wU]

/-- (2a') every index bucket sits under an output that is neither confirmed-spendable nor
    created by a pooled transaction — for every history (no assumption on the universe) -/
theorem index_under_unavailable (c : Cfg) (ops : List Op) (p : Out) (m : List (Nat × Tx))
    (hm : amGet (run c ops).byPrev p = some m) :
    c.conf.contains p = false ∧ amGet (run c ops).utxo p = none :=
  waits_runFrom c ops Pool.empty 0 (waits_empty c) p m hm

/-- (2b), insertion side: a transaction parked as an orphan is indexed under each of its missing
    parents -/
theorem orphan_indexed_at_insertion (c : Cfg) (s : Pool) (tx : Tx) (now : Nat)
    (hroom : s.orphans.length < c.maxOrphan) (p : Out) (hp : p ∈ missing c s tx) :
    ∃ m, amGet (addOrphan c s tx now (requireParents c s tx)).1.byPrev p = some m ∧ (tx.id, tx) ∈ m := by
  unfold addOrphan
  have : ¬ s.orphans.length ≥ c.maxOrphan := by omega
  simp only [this, if_false]
  exact addOrphan_fold_mem tx.id tx (requireParents c s tx) s.byPrev p (Or.inl hp)

/-! ### the clauses the code as it is violates -/

def available (c : Cfg) (s : Pool) (o : Out) : Bool := c.conf.contains o || amHas s.utxo o

def inBucket (s : Pool) (p : Out) (id : Nat) : Bool :=
  match amGet s.byPrev p with
  | none => false
  | some m => amHas m id

/-- (2b) every orphan is indexed under every unavailable output it spends -/
def inv2b (c : Cfg) (s : Pool) : Prop :=
  ∀ e ∈ s.orphans, ∀ p ∈ e.2.tx.spent, available c s p = false → inBucket s p e.1 = true
/-- (2a') every index bucket sits under an unavailable output (Bool reading, for the examples) -/
def inv2a' (c : Cfg) (s : Pool) : Prop := ∀ b ∈ s.byPrev, available c s b.1 = false
/-- (3) no transaction is both pooled and orphaned -/
def inv3 (s : Pool) : Prop := ∀ e ∈ s.orphans, amHas s.pool e.1 = false
/-- (4) no registered orphan has all its spent outputs available -/
def inv4 (c : Cfg) (s : Pool) : Prop := ∀ e ∈ s.orphans, ∃ o ∈ e.2.tx.spent, available c s o = false

instance (c : Cfg) (s : Pool) : Decidable (inv2b c s) := by unfold inv2b; infer_instance
instance (c : Cfg) (s : Pool) : Decidable (inv2a' c s) := by unfold inv2a'; infer_instance
instance (s : Pool) : Decidable (inv3 s) := by unfold inv3; infer_instance
instance (c : Cfg) (s : Pool) : Decidable (inv4 c s) := by unfold inv4; infer_instance

/-- the statement of a clause "for every well-formed universe and history" -/
def Always (P : Cfg → Pool → Prop) : Prop :=
  ∀ (U : List Tx), WF U → ∀ (c : Cfg) (ops : List Op), (∀ op ∈ ops, OpIn U op) → P c (run c ops)

theorem wU_wf : WF wU := ⟨by decide, by decide⟩

theorem opIn_of_submits (U : List Tx) (txs : List Tx) (h : ∀ t ∈ txs, t ∈ U) :
    ∀ op ∈ txs.map Op.submit, OpIn U op := by
  intro op hop
  obtain ⟨t, ht, e⟩ := List.mem_map.mp hop
  subst e
  exact h t ht

/-! the witnesses of the repaired range-variable alias (F13a–d, ec6e367b) satisfy every clause now -/

/-- F13a/c/d: tx3 spends outputs of tx1 and tx2 and arrives first -/
example : inv2b wCfg (run wCfg ([wT3].map Op.submit)) ∧
    (let s := run wCfg ([wT3, wT2, wT1].map Op.submit); inv2b wCfg s ∧ inv2a' wCfg s ∧ inv3 s ∧ inv4 wCfg s ∧ s.orphans = []) ∧
    (let s := run wCfg ([wT3, wT2, wT1, wT3].map Op.submit); inv3 s ∧ inv4 wCfg s) := by decide

/-- F13b: the last spent output is confirmed, the first one missing -/
example : let t2 : Tx := ⟨2, [10, 1001], [(20, true)], false⟩
    let c : Cfg := ⟨[1001], 10000, 2000⟩
    inv2a' c (run c [.submit t2]) ∧ inv2b c (run c [.submit t2]) := by decide

/-! what still fails: the bucket of an arrived parent is deleted; the parent is then removed -/

/-- B22a: tx3 waits for tx1 and tx2; tx1 arrives (bucket 10 deleted, tx3 stays) and is removed
    again: tx3 waits for output 10 but is not indexed under it -/
theorem c22_indexed_after_remove_refuted : ¬ Always inv2b := by
  intro h
  have := h wU wU_wf wCfg [.submit wT3, .submit wT1, .remove 1] (by
    intro op hop
    simp only [List.mem_cons, List.mem_nil_iff, or_false] at hop
    rcases hop with e | e | e <;> subst e <;> simp [OpIn, wU])
  revert this
  decide

/-- B22b: … then tx2 arrives (bucket 20 deleted, tx3 stays) and tx1 comes back: both parents are
    pooled, tx3 is not promoted -/
theorem c22_promoted_after_remove_refuted : ¬ Always inv4 := by
  intro h
  have := h wU wU_wf wCfg [.submit wT3, .submit wT1, .remove 1, .submit wT2, .submit wT1] (by
    intro op hop
    simp only [List.mem_cons, List.mem_nil_iff, or_false] at hop
    rcases hop with e | e | e | e | e <;> subst e <;> simp [OpIn, wU])
  revert this
  decide

/-- B22c: … and tx3, submitted again, is pooled while still registered as an orphan -/
theorem c22_disjoint_after_remove_refuted : ¬ Always (fun _ s => inv3 s) := by
  intro h
  have := h wU wU_wf wCfg [.submit wT3, .submit wT1, .remove 1, .submit wT2, .submit wT1, .submit wT3] (by
    intro op hop
    simp only [List.mem_cons, List.mem_nil_iff, or_false] at hop
    rcases hop with e | e | e | e | e | e <;> subst e <;> simp [OpIn, wU])
  revert this
  decide

/-- every transaction of the universe spends at most one output -/
def SingleInput (U : List Tx) : Prop := ∀ t ∈ U, t.spent.length ≤ 1

instance (U : List Tx) : Decidable (SingleInput U) := by unfold SingleInput; infer_instance

/-- P22: even with single-input transactions only, a pool at its limit inside `processOrphans`
    drops the promoted orphan and leaves its dependant un-indexed -/
theorem c22_single_input_poolfull_refuted :
    ¬ ∀ (U : List Tx), WF U → SingleInput U → ∀ (c : Cfg) (ops : List Op), (∀ op ∈ ops, OpIn U op) →
        inv2b c (run c ops) := by
  intro h
  let t1 : Tx := ⟨1, [1000], [(10, true)], false⟩
  let t2 : Tx := ⟨2, [10], [(20, true)], false⟩
  let t3 : Tx := ⟨3, [20], [(30, true)], false⟩
  have := h [t1, t2, t3] ⟨by decide, by decide⟩ (by decide) ⟨[1000], 1, 2000⟩ ([t3, t2, t1].map Op.submit)
    (opIn_of_submits _ _ (by decide))
  revert this
  decide

/-! ### eager, transitive promotion in calm histories -/

instance (U : List Tx) : Decidable (NoRetSpend U) := by unfold NoRetSpend; infer_instance

instance decCalm (c : Cfg) : (s : Pool) → (now : Nat) → (ops : List Op) → Decidable (Calm c s now ops)
  | _, _, [] => isTrue trivial
  | s, now, op :: ops =>
    let h2 : Decidable (Calm c (step c s now op).1 (now + 1) ops) := decCalm c _ _ ops
    let h1 : Decidable (match op with | .remove _ => False | _ => True) :=
      match op with
      | .remove _ => isFalse id
      | .submit _ => isTrue trivial
      | .expire _ => isTrue trivial
    @instDecidableAnd _ _ h1 (@instDecidableAnd _ _ inferInstance h2)

/-- **C22 (2b), (3), (4)** for every history without `RemoveTransaction` in which the pool stays
    below its limit: every registered orphan is indexed under each unavailable output it spends,
    is not pooled, and still misses a parent — so an orphan is promoted in the very operation
    that makes its last parent available, transitively. -/
theorem calm_history_consistent (U : List Tx) (wf : WF U) (nrs : NoRetSpend U) (c : Cfg) (ops : List Op)
    (hops : ∀ op ∈ ops, OpIn U op) (hcalm : Calm c Pool.empty 0 ops) :
    inv2b c (run c ops) ∧ inv3 (run c ops) ∧ inv4 c (run c ops) := by
  have hJ : J c (run c ops) [] :=
    J_runFrom wf nrs c ops Pool.empty 0 (Inv.empty U) (J_empty c) hops hcalm
  have hnd : KeysNodup (run c ops).orphans :=
    orph_nodup_runFrom c ops Pool.empty 0 (by simp [KeysNodup, Pool.empty])
  have hget : ∀ e ∈ (run c ops).orphans, amGet (run c ops).orphans e.1 = some e.2 :=
    fun e he => amGet_of_mem_nodup _ hnd e he
  have hun : ∀ p, available c (run c ops) p = false → Unavail c (run c ops) p := by
    intro p h
    unfold available at h
    rw [amHas_eq] at h
    unfold Unavail
    cases hc : c.conf.contains p <;> cases hg : amGet (run c ops).utxo p <;> simp_all
  refine ⟨?_, ?_, ?_⟩
  · intro e he p hp hav
    obtain ⟨m, hm, hin⟩ := hJ.idx e.1 e.2 (hget e he) p hp (hun p hav)
    unfold inBucket
    rw [hm]
    simp only
    rw [amHas_eq]
    cases h : amGet m e.1 with
    | none => exact absurd h hin
    | some _ => rfl
  · intro e he
    rw [amHas_eq, hJ.disj e.1 e.2 (hget e he)]
    rfl
  · intro e he
    rcases hJ.pend e.1 e.2 (hget e he) with ⟨p, hp, hu⟩ | h
    · refine ⟨p, hp, ?_⟩
      unfold available
      rw [amHas_eq, hu.1, hu.2]; rfl
    · cases h

/-- the hypotheses are met by a non-trivial history: a diamond delivered leaves-first
    (tests by evaluation) -/
example : NoRetSpend wU ∧ Calm wCfg Pool.empty 0 ([wT3, wT2, wT1].map Op.submit) := by decide

end BytomModel.Props.C22
