/-
C22 — mempool bookkeeping stays consistent (first milestone: the refutation witnesses of
the clauses broken by the range-variable alias F13; invariants follow).
-/
import BytomModel.Model.TxPool

namespace BytomModel.Props.C22
open BytomModel.TxPool

def available (c : Cfg) (s : Pool) (o : Out) : Bool := c.conf.contains o || amHas s.utxo o

/-- clause (4): no registered orphan has all its spent outputs available -/
def inv4 (c : Cfg) (s : Pool) : Prop :=
  ∀ e ∈ s.orphans, ∃ o ∈ e.2.tx.spent, available c s o = false

instance (c : Cfg) (s : Pool) : Decidable (inv4 c s) := by unfold inv4; infer_instance

def c22_inv4_full : Prop := ∀ (c : Cfg) (ops : List Op), inv4 c (run c ops)

def wT1 : Tx := ⟨1, [1000], [(10, true)], false⟩
def wT2 : Tx := ⟨2, [1001], [(20, true)], false⟩
def wT3 : Tx := ⟨3, [10, 20], [(30, true)], false⟩
def wCfg : Cfg := ⟨[1000, 1001], 10000, 2000⟩

/-- F13: a two-parent orphan delivered before its parents is never promoted -/
theorem c22_inv4_full_refuted : ¬ c22_inv4_full := by
  intro h
  have := h wCfg [.submit wT3, .submit wT2, .submit wT1]
  revert this
  decide

end BytomModel.Props.C22
